(* EGraph/NoErrorFuel.v — the FUEL of the three fuelled loops of the e-graph model (C08).

   The model runs three loops of the implementation on CONSTANT fuel:
     `uint = union_internal ui_fuel`  (400: recursion depth of union_internal),
     `hp_loop 100`                    (the `while !i.slots().is_subset(..)` loop of handle_pending),
     `rebuild rebuild_fuel`           (2000: one unit per popped worklist entry).
   The implementation (/repo/src/egraph/{union,rebuild}.rs) has no such limits.

   PART 1 (proved, closed): the order `fle m m'` ("m' is at least as defined as m":
   forall s, m s = Err OutOfFuel \/ m' s = m s) is a congruence for the monad, the three loops are
   monotone in the fuel w.r.t. fle; hence
     - *_fuel_mono   : an Ok result is kept by any larger fuel,
     - *_fuel_indep  : two Ok results on different fuels are equal,
     - *_err_fuel    : a NON-fuel error is kept by any larger fuel,
     - *_ok_nfr      : if SOME fuel gives Ok, NO fuel gives a non-fuel error.
   PART 2: the constants can be exceeded on reachable states (small vm_compute instances showing the
   linear growth; see the remarks there).
   PART 3: every error tag of the model is produced by some ill-formed input (no dead Err site
   family). *)
From SE Require Import EGraph.Model EGraph.ModelMachine EGraph.ModelFacts EGraph.PendingFacts
  EGraph.InvariantFacts EGraph.AddCoversFacts EGraph.NoErrorBase.
Require Import ZArith Lia List.
Import ListNotations.

Local Notation ectr := Model.ctr.

(* ================================================================== *)
(* PART 1.  fuel monotonicity                                          *)
(* ================================================================== *)

(* m' is at least as defined as m: wherever m does not run out of fuel, m' gives the same result
   (the same Ok value and state, or the same error) *)
Definition fle {A} (m m' : M A) : Prop := forall s, m s = Err OutOfFuel \/ m' s = m s.

Lemma fle_refl : forall A (m : M A), fle m m.
Proof. intros A m s. right. reflexivity. Qed.

Lemma fle_trans : forall A (a b c : M A), fle a b -> fle b c -> fle a c.
Proof.
  intros A a b c Hab Hbc s. destruct (Hab s) as [E|E]; [left; exact E|].
  destruct (Hbc s) as [E2|E2].
  - left. rewrite <- E. exact E2.
  - right. rewrite E2. exact E.
Qed.

Lemma fle_fail_fuel : forall A (m : M A), fle (fail OutOfFuel) m.
Proof. intros A m s. left. reflexivity. Qed.

Lemma fle_bind : forall A C (m m' : M A) (k k' : A -> M C),
  fle m m' -> (forall a, fle (k a) (k' a)) -> fle (mbind m k) (mbind m' k').
Proof.
  intros A C m m' k k' Hm Hk s. unfold mbind. destruct (Hm s) as [E|E].
  - left. rewrite E. reflexivity.
  - rewrite E. destruct (m s) as [[a s1]|e].
    + apply Hk.
    + right. reflexivity.
Qed.

Lemma fle_iterM : forall A (f f' : A -> M unit) l, (forall x, fle (f x) (f' x)) -> fle (iterM f l) (iterM f' l).
Proof.
  intros A f f' l H. induction l as [|x t IH]; cbn [iterM]; [apply fle_refl|].
  apply fle_bind; [apply H|]. intros _. exact IH.
Qed.

Lemma fle_ok : forall A (m m' : M A) s r, fle m m' -> m s = Ok r -> m' s = Ok r.
Proof. intros A m m' s r H E. destruct (H s) as [E1|E1]; [rewrite E in E1; discriminate E1|]. rewrite E1. exact E. Qed.

Lemma fle_err : forall A (m m' : M A) s e, fle m m' -> m s = Err e -> e <> OutOfFuel -> m' s = Err e.
Proof.
  intros A m m' s e H E Hne. destruct (H s) as [E1|E1].
  - rewrite E in E1. injection E1 as E1. contradiction.
  - rewrite E1. exact E.
Qed.

(* walking a body: reflexivity where the recursive call does not occur, else congruence *)
Local Ltac fle_walk Hui :=
  repeat first
    [ apply fle_refl
    | apply Hui
    | apply fle_iterM; intros ?
    | apply fle_bind; [|intros ?]
    | match goal with
      | |- fle (if ?b then _ else _) (if ?b then _ else _) => destruct b
      end ].

Section CoreMono.
  Variables ui ui' : appid -> appid -> M bool.
  Hypothesis Hui : forall l r, fle (ui l r) (ui' l r).

  Lemma fle_shrink_slots : forall from cap, fle (shrink_slots ui from cap) (shrink_slots ui' from cap).
  Proof. intros from cap. unfold shrink_slots. cbv zeta. fle_walk Hui. Qed.

  Lemma fle_union_leaders : forall l r, fle (union_leaders ui l r) (union_leaders ui' l r).
  Proof.
    intros l r. unfold union_leaders. cbv zeta.
    apply fle_bind; [apply fle_refl|]. intros e. destruct e; [apply fle_refl|].
    destruct (negb (sset_eqb (values (am l)) (sset_inter (values (am l)) (values (am r))))).
    { apply fle_bind; [apply fle_shrink_slots|]. intros _. fle_walk Hui. }
    destruct (negb (sset_eqb (values (am r)) (sset_inter (values (am l)) (values (am r))))).
    { apply fle_bind; [apply fle_shrink_slots|]. intros _. fle_walk Hui. }
    apply fle_refl.
  Qed.

  Lemma fle_union_internal_body : forall l r, fle (union_internal_body ui l r) (union_internal_body ui' l r).
  Proof.
    intros l r. unfold union_internal_body.
    apply fle_bind; [apply fle_refl|]. intros l1.
    apply fle_bind; [apply fle_refl|]. intros r1. apply fle_union_leaders.
  Qed.
End CoreMono.

Lemma fle_union_internal : forall f f', (f <= f')%nat -> forall l r, fle (union_internal f l r) (union_internal f' l r).
Proof.
  induction f as [|f IH]; intros f' Hle l r.
  - cbn [union_internal]. apply fle_fail_fuel.
  - destruct f' as [|f']; [lia|]. rewrite !union_internal_S.
    apply fle_union_internal_body. intros l0 r0. apply IH. lia.
Qed.

Lemma fle_hp_loop : forall f f', (f <= f')%nat -> forall src en i, fle (hp_loop f src en i) (hp_loop f' src en i).
Proof.
  induction f as [|f IH]; intros f' Hle src en i.
  - cbn [hp_loop]. apply fle_fail_fuel.
  - destruct f' as [|f']; [lia|]. cbn [hp_loop].
    destruct (sset_subset (values (am i)) (slots en)); [apply fle_refl|].
    apply fle_bind; [apply fle_refl|]. intros _.
    apply fle_bind; [apply fle_refl|]. intros en'.
    apply fle_bind; [apply fle_refl|]. intros i'. apply IH. lia.
Qed.

Lemma fle_rebuild : forall f f', (f <= f')%nat -> fle (rebuild f) (rebuild f').
Proof.
  induction f as [|f IH]; intros f' Hle.
  - cbn [rebuild]. apply fle_fail_fuel.
  - destruct f' as [|f']; [lia|]. rewrite !rebuild_step.
    apply fle_bind; [apply fle_refl|]. intros p. destruct p as [|[sh ty] rest]; [apply fle_refl|].
    apply fle_bind; [apply fle_refl|]. intros _.
    apply fle_bind; [apply fle_refl|]. intros _. apply IH. lia.
Qed.

(* ---- the three readings, for each loop ---- *)

Theorem union_internal_fuel_mono : forall f f' l r s res, (f <= f')%nat ->
  union_internal f l r s = Ok res -> union_internal f' l r s = Ok res.
Proof. intros f f' l r s res Hle H. eapply fle_ok; [apply fle_union_internal; exact Hle|exact H]. Qed.

Theorem hp_loop_fuel_mono : forall f f' src en i s res, (f <= f')%nat ->
  hp_loop f src en i s = Ok res -> hp_loop f' src en i s = Ok res.
Proof. intros f f' src en i s res Hle H. eapply fle_ok; [apply fle_hp_loop; exact Hle|exact H]. Qed.

Theorem rebuild_fuel_mono : forall f f' s res, (f <= f')%nat -> rebuild f s = Ok res -> rebuild f' s = Ok res.
Proof. intros f f' s res Hle H. eapply fle_ok; [apply fle_rebuild; exact Hle|exact H]. Qed.

Theorem union_internal_err_fuel : forall f f' l r s e, (f <= f')%nat -> e <> OutOfFuel ->
  union_internal f l r s = Err e -> union_internal f' l r s = Err e.
Proof. intros f f' l r s e Hle Hne H. eapply fle_err; [apply fle_union_internal; exact Hle|exact H|exact Hne]. Qed.

Theorem hp_loop_err_fuel : forall f f' src en i s e, (f <= f')%nat -> e <> OutOfFuel ->
  hp_loop f src en i s = Err e -> hp_loop f' src en i s = Err e.
Proof. intros f f' src en i s e Hle Hne H. eapply fle_err; [apply fle_hp_loop; exact Hle|exact H|exact Hne]. Qed.

Theorem rebuild_err_fuel : forall f f' s e, (f <= f')%nat -> e <> OutOfFuel ->
  rebuild f s = Err e -> rebuild f' s = Err e.
Proof. intros f f' s e Hle Hne H. eapply fle_err; [apply fle_rebuild; exact Hle|exact H|exact Hne]. Qed.

(* generic: a family monotone in the fuel has fuel-independent Ok results, and "no non-fuel error"
   is a fuel-independent property as soon as one fuel succeeds *)
Section Family.
  Context {A : Type}.
  Variable F : nat -> M A.
  Hypothesis Fmono : forall f f', (f <= f')%nat -> fle (F f) (F f').

  Lemma family_indep : forall f f' s r r', F f s = Ok r -> F f' s = Ok r' -> r = r'.
  Proof.
    intros f f' s r r' H H'. destruct (Nat.le_ge_cases f f') as [L|L].
    - pose proof (fle_ok _ _ _ _ _ (Fmono f f' L) H) as E. rewrite E in H'. injection H' as H'. exact H'.
    - pose proof (fle_ok _ _ _ _ _ (Fmono f' f L) H') as E. rewrite E in H. injection H as H. symmetry. exact H.
  Qed.

  Lemma family_ok_nfr : forall f s r, F f s = Ok r -> forall f', nfr (F f' s).
  Proof.
    intros f s r H f' e He. unfold is_fuel_error.
    destruct e; try reflexivity;
      (destruct (Nat.le_ge_cases f f') as [L|L];
       [ pose proof (fle_ok _ _ _ _ _ (Fmono f f' L) H) as E; rewrite E in He; discriminate He
       | match type of He with _ = Err ?e0 =>
           assert (Hne : e0 <> OutOfFuel) by discriminate;
           pose proof (fle_err _ _ _ _ _ (Fmono f' f L) He Hne) as E; rewrite E in H; discriminate H
         end ]).
  Qed.

  (* two fuels never give two different non-fuel answers *)
  Lemma family_agree : forall f f' s, F f s = Err OutOfFuel \/ F f' s = Err OutOfFuel \/ F f s = F f' s.
  Proof.
    intros f f' s. destruct (Nat.le_ge_cases f f') as [L|L].
    - destruct (Fmono f f' L s) as [E|E]; [left; exact E|]. right. right. symmetry. exact E.
    - destruct (Fmono f' f L s) as [E|E]; [right; left; exact E|]. right. right. exact E.
  Qed.
End Family.

Theorem union_internal_fuel_indep : forall f f' l r s x x',
  union_internal f l r s = Ok x -> union_internal f' l r s = Ok x' -> x = x'.
Proof.
  intros f f' l r s x x'. apply (family_indep (fun k => union_internal k l r)).
  intros a b L. apply fle_union_internal. exact L.
Qed.

Theorem hp_loop_fuel_indep : forall f f' src en i s x x',
  hp_loop f src en i s = Ok x -> hp_loop f' src en i s = Ok x' -> x = x'.
Proof.
  intros f f' src en i s x x'. apply (family_indep (fun k => hp_loop k src en i)).
  intros a b L. apply fle_hp_loop. exact L.
Qed.

Theorem rebuild_fuel_indep : forall f f' s r r', rebuild f s = Ok r -> rebuild f' s = Ok r' -> r = r'.
Proof. intros f f' s r r'. apply (family_indep rebuild). exact fle_rebuild. Qed.

Theorem union_internal_ok_nfr : forall f l r s x, union_internal f l r s = Ok x -> forall f', nfr (union_internal f' l r s).
Proof.
  intros f l r s x. apply (family_ok_nfr (fun k => union_internal k l r)).
  intros a b L. apply fle_union_internal. exact L.
Qed.

Theorem hp_loop_ok_nfr : forall f src en i s x, hp_loop f src en i s = Ok x -> forall f', nfr (hp_loop f' src en i s).
Proof.
  intros f src en i s x. apply (family_ok_nfr (fun k => hp_loop k src en i)).
  intros a b L. apply fle_hp_loop. exact L.
Qed.

Theorem rebuild_ok_nfr : forall f s x, rebuild f s = Ok x -> forall f', nfr (rebuild f' s).
Proof. intros f s x. apply (family_ok_nfr rebuild). exact fle_rebuild. Qed.

(* "no non-fuel error" is monotone DOWNWARDS in the fuel: if a large fuel shows no non-fuel error,
   no smaller fuel does (so nf for the model constants transfers to every smaller constant, and
   a non-fuel error found with a small fuel persists) *)
Theorem rebuild_nfr_down : forall f f' s, (f <= f')%nat -> nfr (rebuild f' s) -> nfr (rebuild f s).
Proof.
  intros f f' s L H e He. unfold is_fuel_error.
  destruct e; try reflexivity;
    (apply H; eapply rebuild_err_fuel; [exact L|discriminate|exact He]).
Qed.

Theorem union_internal_nfr_down : forall f f' l r s, (f <= f')%nat ->
  nfr (union_internal f' l r s) -> nfr (union_internal f l r s).
Proof.
  intros f f' l r s L H e He. unfold is_fuel_error.
  destruct e; try reflexivity;
    (apply H; eapply union_internal_err_fuel; [exact L|discriminate|exact He]).
Qed.

Theorem hp_loop_nfr_down : forall f f' src en i s, (f <= f')%nat ->
  nfr (hp_loop f' src en i s) -> nfr (hp_loop f src en i s).
Proof.
  intros f f' src en i s L H e He. unfold is_fuel_error.
  destruct e; try reflexivity;
    (apply H; eapply hp_loop_err_fuel; [exact L|discriminate|exact He]).
Qed.

(* ================================================================== *)
(* PART 2.  the constants CAN be exceeded on reachable states          *)
(* ================================================================== *)

Definition adds (ts : list rterm) : res (list appid * egraph) :=
  run_ops ts (map HAdd (seq 0 (List.length ts))) [] empty_egraph.

(* the first half of eg_union (handles i, j): synify; synify; uint — the state handed to `rebuild` *)
Definition pre_union (i j : nat) (r : res (list appid * egraph)) : res (bool * egraph) :=
  match r with
  | Ok (hs, s) => match nth_opt hs i, nth_opt hs j with
                  | Some a, Some b => (dom _ <- synify_app_id a; dom _ <- synify_app_id b; uint a b) s
                  | _, _ => Err UnwrapNone
                  end
  | Err e => Err e
  end.

(* the least fuel in k, k+1, ..., k+n-1 on which F does not run out of fuel *)
Fixpoint first_fuel {A} (F : nat -> res A) (n k : nat) : option nat :=
  match n with
  | O => None
  | S n' => match F k with Err OutOfFuel => first_fuel F n' (S k) | _ => Some k end
  end.

(* ---- (a) rebuild: one unit per worklist entry; the worklist after a union holds every usage of the
   class that was shrunk / moved.  History: a(x), b, f_0(a(x)) .. f_{n-1}(a(x)); union a(x) = b.
   (The class with more syntactic slots is the one that is moved, so n parents on ONE side suffice.) *)
Definition fan1_terms (n : nat) : list rterm :=
  [xs1 5 2; xc0 6] ++ map (fun i => xun (10 + i) (xs1 5 2)) (seq 0 n).

(* (length of the worklist after uint, least fuel on which rebuild does not run out) *)
Definition fan1_rounds (n : nat) : option (nat * option nat) :=
  match pre_union 0 1 (adds (fan1_terms n)) with
  | Ok (_, s) => Some (List.length (pending s), first_fuel (fun f => rebuild f s) 100 0)
  | Err _ => None
  end.

(* n parents: n+1 worklist entries, n+2 units of fuel *)
Example rebuild_rounds_linear :
  map fan1_rounds [0; 1; 3; 10; 20]%nat =
  [Some (1, Some 2); Some (2, Some 3); Some (4, Some 5); Some (11, Some 12); Some (21, Some 22)]%nat.
Proof. vm_compute. reflexivity. Qed.

Example rebuild_small_fuel_exhausted :
  match pre_union 0 1 (adds (fan1_terms 20)) with
  | Ok (_, s) => (match rebuild 21 s with Err OutOfFuel => true | _ => false end) &&
                 (match rebuild 22 s with Ok _ => true | _ => false end)
  | Err _ => false
  end = true.
Proof. vm_compute. reflexivity. Qed.

(* two-sided variant a, b, f_i(a) (i < n), g_i(b) (i < m): the smaller class is moved; min n m + 2 units *)
Definition fan_terms (n m : nat) : list rterm :=
  [xc0 5; xc0 6] ++ map (fun i => xun (10 + i) (xc0 5)) (seq 0 n) ++ map (fun i => xun (5000 + i) (xc0 6)) (seq 0 m).
Definition fan_rounds (n m : nat) : option (nat * option nat) :=
  match pre_union 0 1 (adds (fan_terms n m)) with
  | Ok (_, s) => Some (List.length (pending s), first_fuel (fun f => rebuild f s) 100 0)
  | Err _ => None
  end.
Example rebuild_rounds_linear_two_sided :
  [fan_rounds 3 4; fan_rounds 10 11; fan_rounds 20 21; fan_rounds 5 2] =
  [Some (4, Some 5); Some (11, Some 12); Some (21, Some 22); Some (3, Some 4)]%nat.
Proof. vm_compute. reflexivity. Qed.

(* REMARK (a).  fan1_rounds n = (n+1, n+2) on every instance tried: n parents give n+1 worklist entries and need
   n+2 units, so n = 1999 needs 2001 > rebuild_fuel units.  MEASURED (EGraph/NoErrorFuelBig.v, 570 s of vm_compute, not in the
   default build):
     run_ops (fan1_terms 1999) (map HAdd (seq 0 2001) ++ [HUnion 0 1 None]) [] empty_egraph = Err OutOfFuel
   while the same history with 1998 parents gives Ok (2000 hashcons entries).  So `OutOfFuel` IS a possible
   result of a reachable run of the model; the implementation has no such limit. *)

(* ---- (b) hp_loop: the prefix of handle_pending up to the call of hp_loop, to get at its arguments *)
Definition hp_args (sh : node) : M (N * node * appid) :=
  dom i <- reads (fun s => match na_get (hashcons s) sh with Some i => Ok i | None => Err UnwrapNone end);
  dom c <- reads (fun s => get_class s i);
  dom psn <- Model.lift (match na_get (c_nodes c) sh with Some p => Ok p | None => Err UnwrapNone end);
  let '(bij0, src_id) := psn in
  dom nd <- Model.lift (apply_slotmap false bij0 sh);
  dom _ <- raw_remove_from_class i sh;
  dom sl <- reads (fun s => class_slots s i);
  let app_i := {| aid := i; am := identity sl |} in
  dom enode <- reads (fun s => find_enode s nd);
  dom i1 <- reads (fun s => find_applied_id s app_i);
  ret (src_id, enode, i1).

(* run the worklist; for every popped entry the least fuel on which ITS hp_loop does not run out *)
Fixpoint hp_fuels (n : nat) (s : egraph) : list (option nat) :=
  match n with
  | O => []
  | S n' =>
      match pending s with
      | [] => []
      | (sh, ty) :: rest =>
          let s0 := set_pending s rest in
          let here := match hp_args sh s0 with
                      | Ok ((src, en, i1), s1) => first_fuel (fun f => hp_loop f src en i1 s1) 10 0
                      | Err _ => None
                      end in
          match handle_pending sh ty s0 with
          | Ok (_, s2) => here :: hp_fuels n' s2
          | Err _ => [here]
          end
      end
  end.

Definition xsk v (l : list N) : rterm := RT {| nvar := v; nargs := map ASlot l |} [].
Definition sl_k (k : nat) : list N := map (fun i => N.of_nat (2 + 4 * i)) (seq 0 k).

(* g(s1..sk), c, h(g(s1..sk)), h'(h(g(s1..sk))); union g(s1..sk) = c: all k slots of h(..), h'(..) become
   redundant in the upwards merge *)
Definition hp_terms k := [xsk 5 (sl_k k); xc0 6; xun 7 (xsk 5 (sl_k k)); xun 8 (xun 7 (xsk 5 (sl_k k)))].
Definition hp_exp k := match pre_union 0 1 (adds (hp_terms k)) with Ok (_, s) => Some (hp_fuels 20 s) | Err _ => None end.

(* whatever the number k of redundant slots: ONE round (2 units: one shrinking round, one to see the subset test
   succeed); entries without redundant slots need 1 unit *)
Example hp_loop_one_round :
  map hp_exp [1; 2; 3; 5; 8]%nat = repeat (Some [Some 2; Some 1; Some 2]%nat) 5.
Proof. vm_compute. reflexivity. Qed.

(* ---- (c) union_internal: recursion depth.  g(s1..sk) with the full symmetric group (two unions: a
   transposition and a k-cycle), then g(s1..sk) = h(s2..sk): one slot becomes redundant, the generators that move
   it are re-asserted by recursive calls, each of which makes one more slot redundant: depth k+1. *)
Definition swap01 (l : list N) := match l with a :: b :: t => b :: a :: t | _ => l end.
Definition rot (l : list N) := match l with a :: t => t ++ [a] | _ => l end.
Definition ui_terms k := [xsk 5 (sl_k k); xsk 5 (swap01 (sl_k k)); xsk 5 (rot (sl_k k)); xsk 6 (tl (sl_k k))].
(* sym = true: with the two symmetry unions.  Result: least fuel of the last union, progress measure before it *)
Definition ui_exp (sym : bool) k :=
  let ts := ui_terms k in
  match run_ops ts (map HAdd (seq 0 4) ++ (if sym then [HUnion 0 1 None; HUnion 0 2 None] else [])) [] empty_egraph with
  | Ok (hs, s) => match nth_opt hs 0, nth_opt hs 3 with
                  | Some a, Some b =>
                     match (dom _ <- synify_app_id a; synify_app_id b) s with
                     | Ok (_, s1) => Some (first_fuel (fun f => union_internal f a b s1) 60 0, progress s)
                     | Err _ => None end
                  | _, _ => None end
  | Err _ => None
  end.

Example ui_depth_linear_in_slots :
  map (ui_exp true) [2; 3; 4; 5; 6]%nat =
  [Some (Some 3%nat, Ok (2, 2, 3, 3)); Some (Some 4%nat, Ok (2, 2, 5, 7)); Some (Some 5%nat, Ok (2, 2, 7, 25));
   Some (Some 6%nat, Ok (2, 2, 9, 121)); Some (Some 7%nat, Ok (2, 2, 11, 721))].
Proof. vm_compute. reflexivity. Qed.

(* without the symmetries the depth is 2 whatever k *)
Example ui_depth_constant_without_symmetries :
  map (fun k => option_map fst (ui_exp false k)) [2; 4; 6]%nat = repeat (Some (Some 2%nat)) 3.
Proof. vm_compute. reflexivity. Qed.

(* REMARK (c).  least fuel = k + 1 for a class with k slots and the full symmetric group: a class with 400 slots
   and S_400 (reachable: one term with 400 slots, two unions) exceeds ui_fuel = 400 when one slot is made redundant.
   Not computable by vm_compute (Schreier–Sims on 400 points), demonstrated for k = 2..6 above. *)

(* ================================================================== *)
(* PART 3.  every error tag is produced by some ill-formed input       *)
(* ================================================================== *)

Definition nd0 (v : nat) : node := {| nvar := v; nargs := [] |}.
Definition triv_class (syn : node) : eclass :=
  {| c_nodes := []; c_slots := []; c_usages := []; c_group := Grp [] None; c_syn := syn |}.
(* hashcons points to class 0, which does not hold the node *)
Definition bad_hashcons : egraph :=
  {| unionfind := [{| aid := 0; am := [] |}]; classes := [triv_class (nd0 5)]; hashcons := [(nd0 5, 0)];
     pending := []; Model.ctr := 1 |}.

(* --- OutOfBounds --- *)
Example err_term_index : run_ops [] [HAdd 0] [] empty_egraph = Err OutOfBounds.
Proof. vm_compute. reflexivity. Qed.
Example err_handle_index : run_ops [xc0 5] [HAdd 0; HUnion 0 1 None] [] empty_egraph = Err OutOfBounds.
Proof. vm_compute. reflexivity. Qed.
Example err_too_many_children : add_expr (RT (nd0 5) [xc0 6]) empty_egraph = Err OutOfBounds.
Proof. vm_compute. reflexivity. Qed.
Example err_unallocated_child : eg_add {| nvar := 5; nargs := [AApp {| aid := 7; am := [] |}] |} empty_egraph = Err OutOfBounds.
Proof. vm_compute. reflexivity. Qed.
Example err_find_unallocated : find_applied_id empty_egraph {| aid := 0; am := [] |} = Err OutOfBounds.
Proof. vm_compute. reflexivity. Qed.
Example err_is_alive_unallocated : is_alive empty_egraph 0 = Err OutOfBounds.
Proof. vm_compute. reflexivity. Qed.
Example err_unionfind_set_beyond : unionfind_set 5 {| aid := 5; am := [] |} empty_egraph = Err OutOfBounds.
Proof. vm_compute. reflexivity. Qed.

(* --- UnwrapNone --- *)
Example err_get_class_missing : get_class empty_egraph 0 = Err UnwrapNone.
Proof. vm_compute. reflexivity. Qed.
Example err_upd_class_missing : upd_class 0 (fun c => c) empty_egraph = Err UnwrapNone.
Proof. vm_compute. reflexivity. Qed.
Example err_lookup_stale_hashcons : lookup_internal bad_hashcons (nd0 5, []) = Err UnwrapNone.
Proof. vm_compute. reflexivity. Qed.
Example err_handle_pending_missing_key : handle_pending (nd0 5) true empty_egraph = Err UnwrapNone.
Proof. vm_compute. reflexivity. Qed.
Example err_handle_pending_stale_hashcons : handle_pending (nd0 5) true bad_hashcons = Err UnwrapNone.
Proof. vm_compute. reflexivity. Qed.
Example err_pc_from_shape_missing : pc_from_shape empty_egraph (nd0 5) = Err UnwrapNone.
Proof. vm_compute. reflexivity. Qed.
Example err_raw_remove_missing : raw_remove_from_class 0 (nd0 6) bad_hashcons = Err UnwrapNone.
Proof. vm_compute. reflexivity. Qed.
Example err_min_variant_empty : min_variant [] None = Err UnwrapNone.
Proof. vm_compute. reflexivity. Qed.
(* schreiers_lemma: `ot[&rs[stab]]` with an orbit table that is not closed under the generator *)
Example err_schreier_open_orbit :
  schreier false 2 [(2, [(2, 2); (6, 6)])] [[(2, 6); (6, 2)]] = Err UnwrapNone.
Proof. vm_compute. reflexivity. Qed.
(* a rebuild that pops a key which is not in the hashcons *)
Example err_rebuild_stale_pending :
  rebuild rebuild_fuel (set_pending empty_egraph [(nd0 5, true)]) = Err UnwrapNone.
Proof. vm_compute. reflexivity. Qed.

(* --- SlotMapIndexMissing --- *)
Example err_index_missing : index [] 2 = Err SlotMapIndexMissing.
Proof. vm_compute. reflexivity. Qed.
Example err_apply_slotmap_missing : apply_slotmap false [] {| nvar := 5; nargs := [ASlot 2] |} = Err SlotMapIndexMissing.
Proof. vm_compute. reflexivity. Qed.
Example err_gcontains_undefined_on_stab :
  gcontains false (Grp [(2, 2)] (Some (2, [(2, [(2, 2)])], Grp [(2, 2)] None))) [] = Err SlotMapIndexMissing.
Proof. vm_compute. reflexivity. Qed.

(* --- AssertFailed: enodes of a dead class (after a = b one of the two ids is dead) --- *)
Example err_enodes_dead_class :
  match run_ops [xc0 5; xc0 6] [HAdd 0; HAdd 1; HUnion 0 1 None] [] empty_egraph with
  | Ok (_, s) => (enodes s 0, option_map (@List.length node) (match enodes s 1 with Ok l => Some l | Err _ => None end))
  | Err e => (Err e, None)
  end = (Err AssertFailed, Some 2%nat).
Proof. vm_compute. reflexivity. Qed.

(* --- OutOfFuel --- *)
Example err_rebuild_0 : rebuild 0 empty_egraph = Err OutOfFuel.
Proof. vm_compute. reflexivity. Qed.
Example err_union_internal_0 : union_internal 0 {| aid := 0; am := [] |} {| aid := 0; am := [] |} empty_egraph = Err OutOfFuel.
Proof. vm_compute. reflexivity. Qed.
Example err_hp_loop_0 : hp_loop 0 0 (nd0 5) {| aid := 0; am := [(2, 2)] |} empty_egraph = Err OutOfFuel.
Proof. vm_compute. reflexivity. Qed.
(* with fuel, the same call reaches the real site *)
Example err_hp_loop_1 : hp_loop 1 0 (nd0 5) {| aid := 0; am := [(2, 2)] |} empty_egraph = Err UnwrapNone.
Proof. vm_compute. reflexivity. Qed.

(* The tags Overflow and ExplicitPanic occur only in Slots/Slot.v (slot arithmetic / parsing), not in EGraph/Model.v
   nor in Group/Group.v, Slots/SlotMap.v, Lang/Sig.v as called from it with checks = false. *)

Print Assumptions union_internal_fuel_mono.
Print Assumptions hp_loop_fuel_mono.
Print Assumptions rebuild_fuel_mono.
Print Assumptions union_internal_err_fuel.
Print Assumptions hp_loop_err_fuel.
Print Assumptions rebuild_err_fuel.
Print Assumptions union_internal_fuel_indep.
Print Assumptions hp_loop_fuel_indep.
Print Assumptions rebuild_fuel_indep.
Print Assumptions union_internal_ok_nfr.
Print Assumptions hp_loop_ok_nfr.
Print Assumptions rebuild_ok_nfr.
Print Assumptions rebuild_nfr_down.
