(* EGraph/NoErrorFuelHp.v — the constant 100 of `hp_loop 100` IS exceeded by a reachable run (10 s of vm_compute).

   History: two terms g(x1,...,xk) and h(g(x2,...,xk,q)), then the union g(x1..xk) = h(g(x2..xk,q)).
   The union makes x1 (and q) redundant and merges the two classes into a class C that contains the node
   h(C(x2..xk,q)) — a node whose child is its own class.  When `rebuild` handles that node, every round of the
   `while !i.slots().is_subset(&enode.slots())` loop removes ONE slot of C (handle_shrink_in_upwards_merge), which
   removes one more slot from the re-canonicalised node h(C(..)), so the test fails again: k-1 rounds, k units of fuel.
   (NoErrorFuel.hp_loop_one_round: on acyclic classes one round removes all redundant slots at once.)
   The implementation runs the same rounds without a limit; the model answers `Err OutOfFuel` for k >= 101. *)
From SE Require Import EGraph.Model EGraph.ModelMachine EGraph.AddCoversFacts EGraph.NoErrorFuel.
Require Import ZArith List.
Import ListNotations.

Definition cyc_terms k := [xsk 5 (sl_k k); xun 7 (xsk 5 (tl (sl_k k) ++ [4002%N]))].

(* least hp_loop fuel of the first popped worklist entry after `uint`, and the progress measure there *)
Definition cyc_exp (k : nat) : option (option nat * res (N * N * N * N)) :=
  match pre_union 0 1 (adds (cyc_terms k)) with
  | Ok (_, s) =>
      match pending s with
      | (sh, _) :: rest =>
          match hp_args sh (set_pending s rest) with
          | Ok ((src, en, i1), s1) => Some (first_fuel (fun f => hp_loop f src en i1 s1) 20 0, progress s)
          | Err _ => None
          end
      | [] => None
      end
  | Err _ => None
  end.

(* k slots: k units (k-1 shrinking rounds) *)
Example hp_loop_rounds_linear_on_cyclic_class :
  map cyc_exp [2; 3; 4; 6; 8; 12]%nat =
  [Some (Some 2%nat, Ok (2, 1, 1, 1)); Some (Some 3%nat, Ok (2, 1, 2, 1)); Some (Some 4%nat, Ok (2, 1, 3, 1));
   Some (Some 6%nat, Ok (2, 1, 5, 1)); Some (Some 8%nat, Ok (2, 1, 7, 1)); Some (Some 12%nat, Ok (2, 1, 11, 1))].
Proof. vm_compute. reflexivity. Qed.

Definition cyc_run k :=
  match run_ops (cyc_terms k) [HAdd 0; HAdd 1; HUnion 0 1 None] [] empty_egraph with
  | Ok (_, s) => Ok (progress s)
  | Err e => Err e
  end.

(* 100 slots: the run succeeds (one class without slots is left) *)
Example hp_fuel_suffices_100 : cyc_run 100 = Ok (Ok (2, 1, 0, 1)).
Proof. vm_compute. reflexivity. Qed.

(* 101 slots: a REACHABLE run of the model that ends in OutOfFuel ... *)
Example hp_fuel_exceeded_reachable :
  run_ops (cyc_terms 101) [HAdd 0; HAdd 1; HUnion 0 1 None] [] empty_egraph = Err OutOfFuel.
Proof. vm_compute. reflexivity. Qed.

(* ... and it is the constant of hp_loop that is exhausted: on the first popped entry the loop runs out of fuel
   with 100 units and succeeds with 101 *)
Definition cyc_hp (k f : nat) : option (res unit) :=
  match pre_union 0 1 (adds (cyc_terms k)) with
  | Ok (_, s) =>
      match pending s with
      | (sh, _) :: rest =>
          match hp_args sh (set_pending s rest) with
          | Ok ((src, en, i1), s1) => Some (match hp_loop f src en i1 s1 with Ok _ => Ok tt | Err e => Err e end)
          | Err _ => None
          end
      | [] => None
      end
  | Err _ => None
  end.
Example hp_fuel_exceeded_is_hp_loop : cyc_hp 101 100 = Some (Err OutOfFuel) /\ cyc_hp 101 101 = Some (Ok tt).
Proof. vm_compute. split; reflexivity. Qed.
