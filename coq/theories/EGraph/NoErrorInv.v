(* EGraph/NoErrorInv.v — preservation of the two new invariants of NoErrorBase.v, `src_ok` and `pend_ok`,
   through every function of Model.v (Ok-direction: "inv s -> F s = Ok (x, s') -> inv s'").

   PART 1, `src_ok` (unconditional).  `srcK K s` : every stored source id is < K (a `nodesP` with a predicate that
   does not depend on the state), so that the pass of SoundStruct.v applies verbatim for a FIXED bound K
   (`pK_*`: every function that does not allocate keeps `srcK K`, for every K); `src_ok s = srcK (lc s) s` and lc only
   grows (`ModelFacts.mono`).  The allocating functions (mk_singleton_class ...) are done directly on `src_ok`.

   PART 2, `pend_ok` (mid-operation invariant, needs `uses_conv` for `touched_class`).  The relation
   `RP s s' := uses_conv s -> pend_ok s -> uses_conv s' /\ pend_ok s'` is a preorder; `pP_*`: every function keeps it
   (handle_pending: with the premise that the key being handled is not pending any more). *)
From SE Require Import Slots.SlotMapFacts Group.GroupSound Lang.LangFacts Lang.ShapeFacts
  EGraph.Model EGraph.ModelFacts EGraph.ModelMachine EGraph.PendingFacts EGraph.UnionFindFacts EGraph.InvariantFacts
  EGraph.UnionInvariantFacts EGraph.AddCoversFacts EGraph.HashconsFacts EGraph.SoundFacts EGraph.SoundUnion
  EGraph.UsesConvDef EGraph.UsesConv EGraph.NoErrorBase.
Require Import ZArith Lia ZifyBool ZifyN ZifyNat List.
Import ListNotations.

Local Notation ectr := Model.ctr.

Local Ltac neq := repeat match goal with
  | H : (_ =? _) = true |- _ => apply N.eqb_eq in H
  | H : (_ =? _) = false |- _ => apply N.eqb_neq in H
  end.

(* ====================================================================== *)
(* PART 1: src_ok                                                          *)
(* ====================================================================== *)

Definition srcP (K : nat) (e : node * (slotmap * N)) : Prop := (N.to_nat (snd (snd e)) < K)%nat.
Definition srcK (K : nat) (s : egraph) : Prop := nodesP (fun _ e => srcP K e) s.
Definition RK (K : nat) (s s' : egraph) : Prop := srcK K s -> srcK K s'.

Lemma src_ok_srcK : forall s, src_ok s <-> srcK (lc s) s.
Proof.
  intros s. split.
  - intros H i c [sh [bij src]] Hc He. unfold srcP. cbn [snd]. eapply H; eauto.
  - intros H i c sh bij src Hc He. exact (H i c _ Hc He).
Qed.

Lemma srcK_le : forall K K' s, (K <= K')%nat -> srcK K s -> srcK K' s.
Proof. intros K K' s L H i c e Hc He. pose proof (H i c e Hc He) as A. unfold srcP in *. lia. Qed.

(* from a fixed-bound step to src_ok *)
Lemma src_ok_of_RK : forall s s', (lc s <= lc s')%nat -> RK (lc s) s s' -> src_ok s -> src_ok s'.
Proof. intros s s' L R H. apply src_ok_srcK. eapply srcK_le; [exact L|]. apply R. apply src_ok_srcK. exact H. Qed.

Section FixedK.
  Variable K : nat.

  Lemma RK_refl : forall s, RK K s s.
  Proof. intros s H. exact H. Qed.
  Lemma RK_trans : forall a b c, RK K a b -> RK K b c -> RK K a c.
  Proof. intros a b c H1 H2 H. auto. Qed.

  Local Notation pK := (pres (RK K)).
  Lemma pK_bind : forall A C (m : M A) (k : A -> M C), pK m -> (forall a, pK (k a)) -> pK (mbind m k).
  Proof. apply (pres_bind (RK K) RK_trans). Qed.
  Lemma pK_ret : forall A (a : A), pK (ret a).
  Proof. apply (pres_ret (RK K) RK_refl). Qed.
  Lemma pK_reads : forall A (f : egraph -> res A), pK (reads f).
  Proof. apply (pres_reads (RK K) RK_refl). Qed.
  Lemma pK_lift : forall A (r : res A), pK (Model.lift r).
  Proof. apply (pres_lift (RK K) RK_refl). Qed.
  Lemma pK_iterM : forall A (f : A -> M unit) l, (forall x, pK (f x)) -> pK (iterM f l).
  Proof. apply (pres_iterM (RK K) RK_refl RK_trans). Qed.

  Lemma RK_nodes_same : forall s s', nodes_same s s' -> RK K s s'.
  Proof. intros s s' H S. exact (nodes_same_nodesP _ s s' H S). Qed.

  Lemma pK_npres : forall A (m : M A), pres nsame m -> pK m.
  Proof. intros A m H s x s' E. apply RK_nodes_same. apply nsame_nodes_same. eapply H; eauto. Qed.

  Lemma pK_pending_insert : forall sh ty, pK (pending_insert sh ty).
  Proof. intros sh ty. apply pK_npres. apply n_pending_insert. Qed.
  Lemma pK_touched_class : forall i ty, pK (touched_class i ty).
  Proof. intros i ty. apply pK_npres. apply n_touched_class. Qed.
  Lemma pK_with_ctr : forall A (f : N -> A * N), pK (with_ctr f).
  Proof. intros A f. apply pK_npres. apply n_with_ctr. Qed.
  Lemma pK_fresh : pK fresh.
  Proof. apply pK_npres. apply n_fresh. Qed.
  Lemma pK_fill_fresh : forall l m, pK (fill_fresh l m).
  Proof. intros l m. apply pK_npres. apply n_fill_fresh. Qed.
  Lemma pK_synify_app_id : forall a, pK (synify_app_id a).
  Proof. intros a. apply pK_npres. apply n_synify_app_id. Qed.
  Lemma pK_synify_enode : forall n, pK (synify_enode n).
  Proof. intros n. apply pK_npres. apply n_synify_enode. Qed.
  Lemma pK_pc_congruence : forall a b, pK (pc_congruence a b).
  Proof. intros a b. apply pK_npres. apply n_pc_congruence. Qed.
  Lemma pK_ufset : forall i p, pK (unionfind_set i p).
  Proof. intros i p. apply pK_npres. apply n_unionfind_set. Qed.

  Lemma pK_upd_class : forall i f, (forall c, c_nodes (f c) = c_nodes c) -> pK (upd_class i f).
  Proof.
    intros i f Hf s x s' H. apply RK_nodes_same.
    apply upd_class_inv in H. destruct H as (c & Hc & ->). pose proof (get_class_lt _ _ _ Hc) as L.
    intros j cj Hj. rewrite (get_class_upd s i (f c) j L) in Hj. destruct (j =? i) eqn:Ej; neq.
    - subst j. inversion Hj; subst cj. exists c. split; [exact Hc|apply Hf].
    - exists cj. auto.
  Qed.

  Lemma pK_witness : forall i cap, pK (record_redundancy_witness i cap).
  Proof.
    intros i cap. unfold record_redundancy_witness. apply pK_bind; [apply pK_reads|]. intros ss. apply pK_ufset.
  Qed.

  Lemma pK_raw_add : forall id sh bij src, (N.to_nat src < K)%nat -> pK (raw_add_to_class id (sh, bij) src).
  Proof.
    intros id sh bij src Q s x s' H N.
    assert (Hc : exists c, get_class s id = Ok c).
    { unfold raw_add_to_class in H. apply mbind_inv in H. destruct H as (u1 & s1 & H1 & _).
      apply upd_class_inv in H1. destruct H1 as (c & Hc & _). eauto. }
    destruct Hc as (c & Hc). exact (nodesP_raw_add (fun _ e => srcP K e) _ _ _ _ _ _ _ _ N Hc Q H).
  Qed.

  Lemma pK_raw_remove : forall id sh, pK (raw_remove_from_class id sh).
  Proof. intros id sh s p s' H N. exact (nodesP_raw_remove (fun _ e => srcP K e) _ _ _ _ _ N H). Qed.

  (* move_to *)
  Lemma pK_move_body : forall idf idt mi sh bij src, (N.to_nat src < K)%nat ->
    pK (dom _ <- raw_remove_from_class idf sh;
        dom new_bij <- with_ctr (compose_fresh bij mi);
        dom _ <- raw_add_to_class idt (sh, new_bij) src;
        pending_insert sh true).
  Proof.
    intros idf idt mi sh bij src Q.
    apply pK_bind; [apply pK_raw_remove|]. intros _. apply pK_bind; [apply pK_with_ctr|]. intros nb.
    apply pK_bind; [apply pK_raw_add; exact Q|]. intros _. apply pK_pending_insert.
  Qed.

  Lemma pK_move_loop : forall idf idt mi l, (forall e, In e l -> srcP K e) ->
    pK (iterM (fun e => let '(sh, (bij, src_id)) := e in
                    dom _ <- raw_remove_from_class idf sh;
                    dom new_bij <- with_ctr (compose_fresh bij mi);
                    dom _ <- raw_add_to_class idt (sh, new_bij) src_id;
                    pending_insert sh true) l).
  Proof.
    intros idf idt mi. induction l as [|[sh [bij src]] t IH]; intros Hl; cbn [iterM].
    - apply pK_ret.
    - apply pK_bind.
      + apply pK_move_body. exact (Hl _ (or_introl eq_refl)).
      + intros _. apply IH. intros e He. apply Hl. right. exact He.
  Qed.

  Lemma pK_move_to : forall from to, pK (move_to from to).
  Proof.
    intros from to s x s' H N. unfold move_to in H. cbv zeta in H.
    apply mbind_inv in H. destruct H as (u1 & s1 & H1 & H).
    pose proof (pK_ufset _ _ _ _ _ H1 N) as N1.
    apply bind_reads_inv in H. destruct H as (cf & Hcf & H).
    apply mbind_inv in H. destruct H as (u2 & s2 & H2 & H).
    assert (LQ : forall e, In e (c_nodes cf) -> srcP K e).
    { intros e He. exact (N1 _ _ e Hcf He). }
    pose proof (pK_move_loop (aid from) (aid to) _ (c_nodes cf) LQ s1 u2 s2 H2 N1) as N2.
    revert N2. revert H. generalize s2. clear. intros s2.
    apply pK_bind; [apply pK_reads|]. intros cf2. apply pK_bind; [apply pK_reads|]. intros ct2.
    apply pK_bind; [apply pK_lift|]. intros r. apply pK_bind; [apply pK_upd_class; intros c; reflexivity|]. intros _.
    apply pK_bind; [destruct (snd r); [apply pK_touched_class|apply pK_ret]|]. intros _. apply pK_touched_class.
  Qed.

  Section KUi.
    Variable ui : appid -> appid -> M bool.
    Hypothesis H_ui : forall l r, pK (ui l r).

    Lemma pK_shrink_slots : forall from cap, pK (shrink_slots ui from cap).
    Proof.
      intros from cap. unfold shrink_slots.
      apply pK_bind; [apply pK_lift|]. intros ocl. apply pK_bind; [apply pK_witness|]. intros _. cbv zeta.
      apply pK_bind; [apply pK_reads|]. intros c. apply pK_bind; [apply pK_lift|]. intros flags.
      apply pK_bind; [apply pK_lift|]. intros g.
      apply pK_bind; [apply pK_upd_class; intros c0; reflexivity|]. intros _.
      apply pK_bind; [apply pK_touched_class|]. intros _. apply pK_iterM. intros pp.
      apply pK_bind; [apply pK_reads|]. intros sl. apply pK_bind; [apply pK_lift|]. intros ps.
      apply pK_bind; [apply H_ui|]. intros _. apply pK_ret.
    Qed.

    Lemma pK_union_leaders : forall l r, pK (union_leaders ui l r).
    Proof.
      intros l r. unfold union_leaders. apply pK_bind; [apply pK_reads|]. intros e.
      destruct e; [apply pK_ret|]. cbv zeta.
      destruct (negb (sset_eqb (values (am l)) _)).
      { apply pK_bind; [apply pK_shrink_slots|]. intros _. apply pK_bind; [apply H_ui|]. intros _. apply pK_ret. }
      destruct (negb (sset_eqb (values (am r)) _)).
      { apply pK_bind; [apply pK_shrink_slots|]. intros _. apply pK_bind; [apply H_ui|]. intros _. apply pK_ret. }
      destruct (aid l =? aid r).
      - apply pK_bind; [apply pK_reads|]. intros c. apply pK_bind; [apply pK_lift|]. intros bc.
        destruct bc; [apply pK_ret|]. apply pK_bind; [apply pK_lift|]. intros g.
        apply pK_bind; [apply pK_upd_class; intros c0; reflexivity|]. intros _.
        apply pK_bind; [apply pK_touched_class|]. intros _. apply pK_ret.
      - apply pK_bind; [apply pK_reads|]. intros cl. apply pK_bind; [apply pK_reads|]. intros cr. cbv zeta.
        apply pK_bind; [|intros _; apply pK_ret].
        match goal with |- pres _ (if ?b then _ else _) => destruct b end; apply pK_move_to.
    Qed.
  End KUi.

  Lemma pK_union_internal : forall fuel l r, pK (union_internal fuel l r).
  Proof.
    induction fuel as [|f IH]; intros l r; [intros s x s' H; discriminate|].
    rewrite union_internal_S. unfold union_internal_body.
    apply pK_bind; [apply pK_reads|]. intros l'. apply pK_bind; [apply pK_reads|]. intros r'.
    apply pK_union_leaders. exact IH.
  Qed.

  Lemma pK_uint : forall l r, pK (uint l r).
  Proof. intros l r. apply pK_union_internal. Qed.

  Lemma pK_handle_shrink : forall src, pK (handle_shrink_in_upwards_merge src).
  Proof.
    intros src. unfold handle_shrink_in_upwards_merge. apply pK_bind; [apply pK_reads|]. intros pc1.
    apply pK_bind; [apply pK_reads|]. intros n2. apply pK_bind; [apply pK_pc_congruence|]. intros [a b].
    apply pK_shrink_slots. apply pK_uint.
  Qed.

  Lemma pK_handle_congruence : forall pc, pK (handle_congruence pc).
  Proof.
    intros pc. unfold handle_congruence. apply pK_bind; [apply pK_reads|]. intros sh.
    apply pK_bind; [apply pK_reads|]. intros pc2. apply pK_bind; [apply pK_pc_congruence|]. intros ab.
    apply pK_bind; [apply pK_uint|]. intros _. apply pK_ret.
  Qed.

  Lemma pK_determine_self_symmetries : forall src, pK (determine_self_symmetries src).
  Proof.
    intros src. unfold determine_self_symmetries. apply pK_bind; [apply pK_reads|]. intros pc1.
    apply pK_bind; [apply pK_lift|]. intros w. cbv zeta. apply pK_bind; [apply pK_reads|]. intros vs.
    apply pK_iterM. intros pn2. apply pK_bind; [apply pK_lift|]. intros w2.
    destruct (node_eqb (fst w) (fst w2)); [|apply pK_ret].
    apply pK_bind; [apply pK_pc_congruence|]. intros ab. apply pK_bind; [apply pK_uint|]. intros _. apply pK_ret.
  Qed.

  Lemma pK_hp_loop : forall fuel src e i, pK (hp_loop fuel src e i).
  Proof.
    induction fuel as [|f IH]; intros src e i; [intros s x s' H; discriminate|]. cbn [hp_loop].
    destruct (sset_subset (values (am i)) (slots e)); [apply pK_ret|].
    apply pK_bind; [apply pK_handle_shrink|]. intros _.
    apply pK_bind; [apply pK_reads|]. intros e1. apply pK_bind; [apply pK_reads|]. intros i1. apply IH.
  Qed.

  Lemma pK_handle_pending : forall sh ty, pK (handle_pending sh ty).
  Proof.
    intros sh ty s x s' H N. unfold handle_pending in H.
    apply bind_reads_inv in H. destruct H as (i & _ & H).
    destruct (negb ty); [inversion H; subst; exact N|].
    apply bind_reads_inv in H. destruct H as (c & Hc & H).
    apply mbind_inv in H. destruct H as ([bij0 src_id] & s0 & Hp & H). apply lift_inv in Hp. destruct Hp as [Hp ->].
    assert (Q : (N.to_nat src_id < K)%nat).
    { destruct (na_get (c_nodes c) sh) as [p|] eqn:G; [|discriminate]. inversion Hp; subst p.
      apply na_get_in in G. exact (N _ _ _ Hc G). }
    apply mbind_inv in H. destruct H as (nd & s0 & Hnd & H). apply lift_inv in Hnd. destruct Hnd as [_ ->].
    apply mbind_inv in H. destruct H as (u1 & sA & HA & H).
    pose proof (pK_raw_remove _ _ _ _ _ HA N) as NA.
    apply bind_reads_inv in H. destruct H as (sl & _ & H). cbv zeta in H.
    apply bind_reads_inv in H. destruct H as (enode0 & _ & H).
    apply bind_reads_inv in H. destruct H as (i0 & Hi0 & H).
    apply mbind_inv in H. destruct H as ([enode i1] & sB & HB & H).
    pose proof (pK_hp_loop _ _ _ _ _ _ _ HB NA) as NB.
    apply bind_reads_inv in H. destruct H as (t & Ht & H).
    apply bind_reads_inv in H. destruct H as (lk & _ & H).
    destruct lk as [hit|].
    - apply bind_reads_inv in H. destruct H as (pc & _ & H). exact (pK_handle_congruence _ _ _ _ H NB).
    - destruct t as [sh' bij].
      apply mbind_inv in H. destruct H as (m & sC & Hm & H).
      change (fill_fresh (values bij) (inverse_nocheck (am i1)) sB = Ok (m, sC)) in Hm. cbv zeta in H.
      apply mbind_inv in H. destruct H as (u2 & sD & HD & H).
      pose proof (pK_fill_fresh _ _ _ _ _ Hm NB) as NC.
      pose proof (pK_raw_add _ _ _ _ Q _ _ _ HD NC) as ND.
      exact (pK_determine_self_symmetries _ _ _ _ H ND).
  Qed.

  Lemma pK_rebuild : forall fuel, pK (rebuild fuel).
  Proof.
    induction fuel as [|f IH]; [intros s x s' H; discriminate|]. rewrite rebuild_S.
    apply pK_bind; [apply (pres_gets (RK K) RK_refl)|]. intros p. destruct p as [|[sh ty] rest]; [apply pK_ret|].
    apply pK_bind; [intros s x s' H; inversion H; apply RK_nodes_same; apply nsame_nodes_same; apply nsame_pend|].
    intros _. apply pK_bind; [apply pK_handle_pending|]. intros _. apply IH.
  Qed.

  Lemma pK_eg_union : forall l r, pK (eg_union l r).
  Proof.
    intros l r. unfold eg_union. apply pK_bind; [apply pK_synify_app_id|]. intros _.
    apply pK_bind; [apply pK_synify_app_id|]. intros _. apply pK_bind; [apply pK_uint|]. intros out.
    apply pK_bind; [apply pK_rebuild|]. intros _. apply pK_ret.
  Qed.

  Lemma pK_alloc : forall sl syn, pK (alloc_eclass sl syn).
  Proof.
    intros sl syn s i s' H N. pose proof (alloc_eclass_exact _ _ _ _ _ H) as (_ & _ & C & _).
    intros j cj e Hcj He. apply (get_class_ext_inv s s' _ C) in Hcj. destruct Hcj as [Hcj|[_ ->]]; [eapply N; eauto|].
    cbn [c_nodes] in He. contradiction.
  Qed.
End FixedK.

(* ---------------------------------------------------------------------- *)
(* lc never decreases *)

Lemma lc_mono : forall s s', mono s s' -> (lc s <= lc s')%nat.
Proof. intros s s' (_ & H & _). exact H. Qed.

Lemma mono_raw_add : forall id t src s x s', raw_add_to_class id t src s = Ok (x, s') -> mono s s'.
Proof. intros id t src s x s' H. exact (core_raw_add_to_class _ mono_core _ _ _ _ _ _ H). Qed.
Lemma mono_raw_remove : forall id sh s x s', raw_remove_from_class id sh s = Ok (x, s') -> mono s s'.
Proof. intros id sh s x s' H. destruct mono_core. eapply pres_raw_remove_from_class; eauto. Qed.
Lemma mono_move_to : forall from to s x s', move_to from to s = Ok (x, s') -> mono s s'.
Proof. intros from to s x s' H. destruct mono_core. eapply pres_move_to; eauto. Qed.
Lemma mono_union_internal : forall fuel l r s x s', union_internal fuel l r s = Ok (x, s') -> mono s s'.
Proof. intros fuel l r s x s' H. exact (core_union_internal _ mono_core _ _ _ _ _ _ H). Qed.
Lemma mono_shrink_uint : forall from cap s x s', shrink_slots uint from cap s = Ok (x, s') -> mono s s'.
Proof.
  intros from cap s x s' H. pose proof (core_union_internal _ mono_core ui_fuel) as U. destruct mono_core.
  eapply (pres_shrink_slots mono); eauto.
Qed.
Lemma mono_handle_shrink : forall src s x s', handle_shrink_in_upwards_merge src s = Ok (x, s') -> mono s s'.
Proof. intros src s x s' H. destruct mono_core. eapply pres_handle_shrink; eauto. Qed.
Lemma mono_handle_congruence : forall pc s x s', handle_congruence pc s = Ok (x, s') -> mono s s'.
Proof. intros pc s x s' H. destruct mono_core. eapply pres_handle_congruence; eauto. Qed.
Lemma mono_dss : forall src s x s', determine_self_symmetries src s = Ok (x, s') -> mono s s'.
Proof. intros src s x s' H. destruct mono_core. eapply pres_determine_self_symmetries; eauto. Qed.
Lemma mono_hp_loop : forall fuel src e i s x s', hp_loop fuel src e i s = Ok (x, s') -> mono s s'.
Proof. intros fuel src e i s x s' H. destruct mono_core. eapply pres_hp_loop; eauto. Qed.
Lemma mono_handle_pending : forall sh ty s x s', handle_pending sh ty s = Ok (x, s') -> mono s s'.
Proof. intros sh ty s x s' H. destruct mono_core. eapply pres_handle_pending; eauto. Qed.
Lemma mono_rebuild : forall fuel s x s', rebuild fuel s = Ok (x, s') -> mono s s'.
Proof. intros fuel s x s' H. exact (core_rebuild _ mono_core _ _ _ _ H). Qed.
Lemma mono_eg_union : forall l r s x s', eg_union l r s = Ok (x, s') -> mono s s'.
Proof. intros l r s x s' H. exact (core_eg_union _ mono_core _ _ _ _ _ H). Qed.

(* ---------------------------------------------------------------------- *)
(* the statements on src_ok *)

Local Ltac by_RK L R := intros; eapply src_ok_of_RK; [apply lc_mono; eapply L; eassumption|eapply R; eassumption|assumption].

Theorem src_ok_raw_add : forall id sh bij src s x s', src_ok s -> (N.to_nat src < lc s)%nat ->
  raw_add_to_class id (sh, bij) src s = Ok (x, s') -> src_ok s'.
Proof.
  intros id sh bij src s x s' Hs Q H. eapply src_ok_of_RK; [apply lc_mono; eapply mono_raw_add; exact H| |exact Hs].
  eapply pK_raw_add; [exact Q|exact H].
Qed.

Theorem src_ok_raw_remove : forall id sh s x s', src_ok s -> raw_remove_from_class id sh s = Ok (x, s') -> src_ok s'.
Proof. by_RK mono_raw_remove pK_raw_remove. Qed.

Theorem src_ok_move_to : forall from to s x s', src_ok s -> move_to from to s = Ok (x, s') -> src_ok s'.
Proof. by_RK mono_move_to pK_move_to. Qed.

Theorem src_ok_union_internal : forall fuel l r s x s', src_ok s -> union_internal fuel l r s = Ok (x, s') -> src_ok s'.
Proof. by_RK mono_union_internal pK_union_internal. Qed.

Theorem src_ok_uint : forall l r s x s', src_ok s -> uint l r s = Ok (x, s') -> src_ok s'.
Proof. intros l r. exact (src_ok_union_internal ui_fuel l r). Qed.

Theorem src_ok_shrink_slots_uint : forall from cap s x s', src_ok s -> shrink_slots uint from cap s = Ok (x, s') -> src_ok s'.
Proof.
  intros from cap s x s' Hs H. eapply src_ok_of_RK; [apply lc_mono; eapply mono_shrink_uint; exact H| |exact Hs].
  eapply pK_shrink_slots; [|exact H]. apply pK_uint.
Qed.

Theorem src_ok_handle_shrink : forall src s x s', src_ok s -> handle_shrink_in_upwards_merge src s = Ok (x, s') -> src_ok s'.
Proof. by_RK mono_handle_shrink pK_handle_shrink. Qed.

Theorem src_ok_handle_congruence : forall pc s x s', src_ok s -> handle_congruence pc s = Ok (x, s') -> src_ok s'.
Proof. by_RK mono_handle_congruence pK_handle_congruence. Qed.

Theorem src_ok_determine_self_symmetries : forall src s x s', src_ok s -> determine_self_symmetries src s = Ok (x, s') -> src_ok s'.
Proof. by_RK mono_dss pK_determine_self_symmetries. Qed.

Theorem src_ok_hp_loop : forall fuel src e i s x s', src_ok s -> hp_loop fuel src e i s = Ok (x, s') -> src_ok s'.
Proof. by_RK mono_hp_loop pK_hp_loop. Qed.

Theorem src_ok_handle_pending : forall sh ty s x s', src_ok s -> handle_pending sh ty s = Ok (x, s') -> src_ok s'.
Proof. by_RK mono_handle_pending pK_handle_pending. Qed.

Theorem src_ok_rebuild : forall fuel s x s', src_ok s -> rebuild fuel s = Ok (x, s') -> src_ok s'.
Proof. by_RK mono_rebuild pK_rebuild. Qed.

Theorem src_ok_eg_union : forall l r s x s', src_ok s -> eg_union l r s = Ok (x, s') -> src_ok s'.
Proof. by_RK mono_eg_union pK_eg_union. Qed.

(* steps that keep the classes *)
Lemma src_ok_classes : forall s s', classes s' = classes s -> src_ok s -> src_ok s'.
Proof.
  intros s s' E H i c sh bij src Hc He. rewrite E. unfold get_class in Hc. rewrite E in Hc. eapply H; eauto.
Qed.

Theorem src_ok_mk_singleton : forall en s a s', src_ok s -> mk_singleton_class en s = Ok (a, s') -> src_ok s'.
Proof.
  intros en s a s' Hs H. unfold mk_singleton_class in H. cbv zeta in H.
  apply mbind_inv in H. destruct H as (f2o & s1 & H1 & H).
  apply mbind_inv in H. destruct H as (synf & s2 & H2 & H).
  apply mbind_inv in H. destruct H as (i & s3 & H3 & H).
  apply mbind_inv in H. destruct H as ([sh bij] & s0 & Hw & H). apply lift_inv in Hw. destruct Hw as [_ ->].
  apply mbind_inv in H. destruct H as (u4 & s4 & H4 & H).
  apply mbind_inv in H. destruct H as (u5 & s5 & H5 & H).
  apply mbind_inv in H. destruct H as (u6 & s6 & H6 & H). inversion H; subst a s6; clear H.
  apply with_ctr_spec in H1. apply with_ctr_spec in H2.
  assert (I2 : src_ok s2).
  { subst s2 s1. eapply src_ok_classes; [|exact Hs]. reflexivity. }
  assert (L23 : (lc s2 <= lc s3)%nat).
  { destruct (alloc_eclass_spec _ _ _ _ _ H3) as (_ & _ & L & _). lia. }
  assert (I3 : src_ok s3).
  { eapply src_ok_of_RK; [exact L23| |exact I2]. eapply pK_alloc; exact H3. }
  assert (Q : (N.to_nat i < lc s3)%nat).
  { unfold raw_add_to_class in H4. apply mbind_inv in H4. destruct H4 as (u1 & s0 & H4 & _).
    apply upd_class_inv in H4. destruct H4 as (c & Hc & _). eapply get_class_lt; eauto. }
  pose proof (src_ok_raw_add _ _ _ _ _ _ _ I3 Q H4) as I4.
  eapply src_ok_rebuild; [|exact H6]. inversion H5; subst u5 s5. eapply src_ok_classes; [|exact I4]. reflexivity.
Qed.

Theorem src_ok_add_internal : forall t s a s', src_ok s -> add_internal t s = Ok (a, s') -> src_ok s'.
Proof.
  intros t s a s' Hs H. unfold add_internal in H.
  apply bind_reads_inv in H. destruct H as (lk & Hlk & H).
  destruct lk as [hit|]; [inversion H; subst; assumption|].
  apply mbind_inv in H. destruct H as (en1 & s1 & H1 & H).
  destruct (refresh_private (fst t) (ectr s)) as [[r|e] c1] eqn:RP; [|discriminate]. inversion H1; subst r s1; clear H1.
  apply mbind_inv in H. destruct H as (en2 & s2 & H2 & H). apply lift_inv in H2. destruct H2 as [H2 ->].
  apply mbind_inv in H. destruct H as (en3 & s3 & H3 & H).
  apply mbind_inv in H. destruct H as (syn & s4 & H4 & H).
  apply reads_state in H. subst s'.
  eapply src_ok_mk_singleton; [|exact H4].
  assert (I1 : src_ok (set_ctr s c1)) by (eapply src_ok_classes; [|exact Hs]; reflexivity).
  eapply src_ok_of_RK; [| |exact I1].
  - apply lc_mono. exact (core_synify_enode _ mono_core _ _ _ _ H3).
  - eapply pK_synify_enode; exact H3.
Qed.

Theorem src_ok_eg_add : forall n s a s', src_ok s -> eg_add n s = Ok (a, s') -> src_ok s'.
Proof.
  intros n s a s' Hs H. unfold eg_add in H. apply bind_reads_inv in H. destruct H as (t & Ht & H).
  eapply src_ok_add_internal; eauto.
Qed.

Theorem src_ok_add_expr : forall t s a s', src_ok s -> add_expr t s = Ok (a, s') -> src_ok s'.
Proof.
  fix IH 1. intros [n ch] s a s' Hs H. cbn [add_expr] in H.
  apply mbind_inv in H. destruct H as (l & s1 & Hgo & H).
  assert (Hs1 : src_ok s1).
  { clear H. revert s l s1 Hs Hgo. induction ch as [|c r IHr]; intros s l s1 Hs Hgo.
    - unfold ret in Hgo. injection Hgo as _ E. subst s1. exact Hs.
    - apply mbind_inv in Hgo. destruct Hgo as (a0 & s2 & Ha & Hgo).
      apply mbind_inv in Hgo. destruct Hgo as (r' & s3 & Hr & Hgo).
      unfold ret in Hgo. injection Hgo as _ E. subst s1.
      eapply IHr; [|exact Hr]. eapply IH; eassumption. }
  destruct (Nat.ltb (List.length (app_occ n)) (List.length l)); [discriminate H|].
  eapply src_ok_eg_add; eassumption.
Qed.

Theorem src_ok_run_ops : forall terms ops hs0 s hs s', src_ok s -> run_ops terms ops hs0 s = Ok (hs, s') -> src_ok s'.
Proof.
  intros terms ops. induction ops as [|o t IHo]; intros hs0 s hs s' Hp H; cbn [run_ops] in H.
  - unfold ret in H. injection H as _ E. subst s'. exact Hp.
  - destruct o as [k|i j jj].
    + destruct (nth_opt terms k) as [tm|]; [|discriminate H].
      apply mbind_inv in H. destruct H as (a & s1 & Ha & H).
      eapply IHo; [|exact H]. eapply src_ok_add_expr; eassumption.
    + destruct (nth_opt hs0 i) as [a|]; [|discriminate H].
      destruct (nth_opt hs0 j) as [b|]; [|discriminate H].
      apply mbind_inv in H. destruct H as (u & s1 & Hu & H).
      eapply IHo; [|exact H]. eapply src_ok_eg_union; eassumption.
Qed.

Lemma src_ok_empty : src_ok empty_egraph.
Proof.
  intros i c sh bij src Hc _. unfold get_class in Hc. cbn [classes empty_egraph] in Hc.
  destruct (N.to_nat i); discriminate Hc.
Qed.

Theorem src_ok_reachable : forall terms ops hs s, run_ops terms ops [] empty_egraph = Ok (hs, s) -> src_ok s.
Proof. intros terms ops hs s H. eapply src_ok_run_ops; [exact src_ok_empty|exact H]. Qed.

(* ====================================================================== *)
(* PART 2: pend_ok                                                         *)
(* ====================================================================== *)

(* sh is a key of the hashcons *)
Definition hkey (s : egraph) (sh : node) : Prop := exists i, na_get (hashcons s) sh = Some i.

Lemma pend_ok_nil : forall s, pending s = [] -> pend_ok s.
Proof.
  intros s E. unfold pend_ok. rewrite E. split; [exact I|]. intros sh ty H. cbn [na_get] in H. discriminate H.
Qed.

Lemma pend_ok_pop : forall s sh ty rest, pend_ok s -> pending s = (sh, ty) :: rest ->
  pend_ok (set_pending s rest) /\ na_get rest sh = None.
Proof.
  intros s sh ty rest [Nd Hk] E. rewrite E in Nd. cbn [na_nodup] in Nd. destruct Nd as [Ns Nr].
  split; [|exact Ns]. split; [exact Nr|]. cbn [pending hashcons set_pending].
  intros y t Hy. apply (Hk y t). rewrite E. cbn [na_get]. destruct (node_eqb y sh) eqn:Ey; [|exact Hy].
  apply node_eqb_iff in Ey. subst y. congruence.
Qed.

(* steps that keep pending and do not lose hashcons keys *)
Lemma pend_ok_frame : forall s s', pending s' = pending s -> (forall y, hkey s y -> hkey s' y) -> pend_ok s -> pend_ok s'.
Proof.
  intros s s' P H [Nd Hk]. split; [rewrite P; exact Nd|]. intros y t Hy. rewrite P in Hy. apply H. exact (Hk y t Hy).
Qed.

(* steps that change neither pending nor the hashcons (with_ctr, fresh, upd_class, unionfind_set, ...) *)
Lemma pend_ok_same : forall s s', pending s' = pending s -> hashcons s' = hashcons s -> pend_ok s -> pend_ok s'.
Proof. intros s s' P Hh. apply pend_ok_frame; [exact P|]. intros y Hy. unfold hkey. rewrite Hh. exact Hy. Qed.

Lemma na_nodup_app_last : forall {V} (l : list (node * V)) k v, na_nodup l -> na_get l k = None -> na_nodup (l ++ [(k, v)]).
Proof.
  intros V. induction l as [|[k0 v0] t IH]; intros k v Nd G; cbn [app na_nodup]; [split; [reflexivity|exact I]|].
  cbn [na_nodup] in Nd. destruct Nd as [N1 N2]. cbn [na_get] in G. destruct (node_eqb k k0) eqn:E; [discriminate|].
  split; [|apply IH; assumption]. rewrite na_get_app_last, N1.
  rewrite node_eqb_neq; [reflexivity|]. intros E0. subst k0. rewrite node_eqb_refl in E. discriminate.
Qed.

Lemma pend_ok_raw_add : forall id sh bij src s x s', pend_ok s -> raw_add_to_class id (sh, bij) src s = Ok (x, s') -> pend_ok s'.
Proof.
  intros id sh bij src s x s' Hp H. destruct (raw_add_views _ _ _ _ _ _ _ H) as (Hh & P & _).
  eapply pend_ok_frame; [exact P| |exact Hp]. intros y [i Hi]. unfold hkey. rewrite Hh.
  destruct (node_dec y sh) as [->|Ne]; [exists id; apply na_get_set_same|exists i; rewrite na_get_set_other by exact Ne; exact Hi].
Qed.

Lemma pend_ok_raw_remove : forall id sh s p s', pend_ok s -> na_get (pending s) sh = None ->
  raw_remove_from_class id sh s = Ok (p, s') -> pend_ok s'.
Proof.
  intros id sh s p s' [Nd Hk] Hn H. destruct (raw_remove_views _ _ _ _ _ H) as (_ & Hh & P & _).
  split; [rewrite P; exact Nd|]. intros y t Hy. rewrite P in Hy. rewrite Hh.
  assert (Ne : y <> sh) by (intros E0; subst y; congruence).
  rewrite na_get_remove_other by exact Ne. exact (Hk y t Hy).
Qed.

Lemma pend_ok_pending_insert : forall sh ty s x s', pend_ok s -> (exists i, na_get (hashcons s) sh = Some i) ->
  pending_insert sh ty s = Ok (x, s') -> pend_ok s'.
Proof.
  intros sh ty s x s' [Nd Hk] Hs H. inversion H; subst x s'; clear H. split; cbn [pending hashcons set_pending].
  - apply na_nodup_set. exact Nd.
  - intros y t Hy. destruct (node_dec y sh) as [->|Ne]; [exact Hs|].
    rewrite na_get_set_other in Hy by exact Ne. exact (Hk y t Hy).
Qed.

Lemma pend_ok_pending_touch : forall sh ty s x s', pend_ok s -> hkey s sh -> pending_touch sh ty s = Ok (x, s') ->
  pend_ok s' /\ exists p', s' = set_pending s p'.
Proof.
  intros sh ty s x s' [Nd Hk] Hs H. inversion H; subst x s'; clear H. split; [|eexists; reflexivity].
  split; cbn [pending hashcons set_pending].
  - destruct (na_get (pending s) sh) as [v|] eqn:G; [apply na_nodup_set; exact Nd|]. apply na_nodup_app_last; assumption.
  - intros y t Hy. destruct (node_dec y sh) as [->|Ne]; [exact Hs|].
    destruct (na_get (pending s) sh) as [v|] eqn:G.
    + rewrite na_get_set_other in Hy by exact Ne. exact (Hk y t Hy).
    + rewrite na_get_app_last in Hy. destruct (na_get (pending s) y) as [t0|] eqn:Gy.
      * exact (Hk y t0 Gy).
      * rewrite node_eqb_neq in Hy by exact Ne. discriminate Hy.
Qed.

Lemma pend_ok_touch_list : forall ty l s x s', pend_ok s -> (forall sh, In sh l -> hkey s sh) ->
  iterM (fun sh => pending_touch sh ty) l s = Ok (x, s') -> pend_ok s' /\ exists p', s' = set_pending s p'.
Proof.
  intros ty. induction l as [|sh t IH]; intros s x s' Hp Hl H; cbn [iterM] in H.
  - inversion H; subst x s'. split; [exact Hp|]. exists (pending s). destruct s; reflexivity.
  - apply mbind_inv in H. destruct H as (u & s1 & H1 & H).
    destruct (pend_ok_pending_touch _ _ _ _ _ Hp (Hl sh (or_introl eq_refl)) H1) as [Hp1 [p1 E1]]. subst s1.
    destruct (IH _ _ _ Hp1 (fun y Hy => Hl y (or_intror Hy)) H) as [Hp' [p' E']]. subst s'.
    split; [exact Hp'|]. exists p'. reflexivity.
Qed.

Lemma touched_class_spec : forall i ty s x s', uses_conv s -> pend_ok s -> touched_class i ty s = Ok (x, s') ->
  pend_ok s' /\ exists p', s' = set_pending s p'.
Proof.
  intros i ty s x s' Hu Hp H. unfold touched_class in H. apply bind_reads_inv in H. destruct H as (c & Hc & H).
  eapply pend_ok_touch_list; [exact Hp| |exact H].
  intros sh Hin. assert (A : In sh (cusages s i)) by (unfold cusages; rewrite Hc; exact Hin).
  destruct (Hu i sh A) as [_ B]. exact B.
Qed.

Theorem pend_ok_touched_class : forall i ty s x s', uses_conv s -> pend_ok s -> touched_class i ty s = Ok (x, s') -> pend_ok s'.
Proof. intros i ty s x s' Hu Hp H. exact (proj1 (touched_class_spec _ _ _ _ _ Hu Hp H)). Qed.

(* ---------------------------------------------------------------------- *)
(* the pass: RP is a preorder *)

Definition RP (s s' : egraph) : Prop := uses_conv s -> pend_ok s -> uses_conv s' /\ pend_ok s'.

Lemma RP_refl : forall s, RP s s.
Proof. intros s Hu Hp. split; assumption. Qed.
Lemma RP_trans : forall a b c, RP a b -> RP b c -> RP a c.
Proof. intros a b c H1 H2 Hu Hp. destruct (H1 Hu Hp) as [Hu1 Hp1]. exact (H2 Hu1 Hp1). Qed.

Local Notation pP := (pres RP).
Lemma pP_bind : forall A C (m : M A) (k : A -> M C), pP m -> (forall a, pP (k a)) -> pP (mbind m k).
Proof. apply (pres_bind RP RP_trans). Qed.
Lemma pP_ret : forall A (a : A), pP (ret a).
Proof. apply (pres_ret RP RP_refl). Qed.
Lemma pP_reads : forall A (f : egraph -> res A), pP (reads f).
Proof. apply (pres_reads RP RP_refl). Qed.
Lemma pP_lift : forall A (r : res A), pP (Model.lift r).
Proof. apply (pres_lift RP RP_refl). Qed.
Lemma pP_iterM : forall A (f : A -> M unit) l, (forall x, pP (f x)) -> pP (iterM f l).
Proof. apply (pres_iterM RP RP_refl RP_trans). Qed.

(* frame: hashcons, usages and pending unchanged *)
Lemma RP_frame : forall s s', fr s s' -> pending s' = pending s -> RP s s'.
Proof.
  intros s s' F P Hu Hp. split; [eapply uc_fr; eauto|]. eapply pend_ok_same; [exact P|exact (proj1 F)|exact Hp].
Qed.

Lemma RP_ctr_only : forall s s', ctr_only s s' -> RP s s'.
Proof. intros s s' [c ->]. apply RP_frame; [apply fr_ctr_only; eexists; reflexivity|reflexivity]. Qed.

Lemma pP_with_ctr : forall A (f : N -> A * N), pP (with_ctr f).
Proof. intros A f s x s' H. apply RP_ctr_only. eapply with_ctr_only; eauto. Qed.
Lemma pP_fresh : pP fresh.
Proof. intros s x s' H. inversion H. apply RP_ctr_only. eexists; reflexivity. Qed.
Lemma pP_fill_fresh : forall l m, pP (fill_fresh l m).
Proof.
  intros l m s x s' H. apply RP_ctr_only.
  apply (pres_fill_fresh ctr_only ctr_only_refl ctr_only_trans) in H; [assumption|].
  intros s0 y s0' H0. inversion H0. eexists; reflexivity.
Qed.
Lemma pP_pc_congruence : forall a b, pP (pc_congruence a b).
Proof.
  intros a b s x s' H. apply RP_ctr_only.
  apply (pres_pc_congruence ctr_only ctr_only_refl ctr_only_trans) in H; [assumption| |];
    intros; intros s0 y s0' H0; eapply with_ctr_only; eauto.
Qed.
Lemma pP_synify_app_id : forall a, pP (synify_app_id a).
Proof.
  intros a s x s' H. apply RP_ctr_only.
  apply (pres_synify_app_id ctr_only ctr_only_refl ctr_only_trans) in H; [assumption|].
  intros s0 y s0' H0. inversion H0. eexists; reflexivity.
Qed.
Lemma pP_synify_enode : forall n, pP (synify_enode n).
Proof.
  intros n s x s' H. apply RP_ctr_only.
  apply (pres_synify_enode ctr_only ctr_only_refl ctr_only_trans) in H; [assumption|].
  intros s0 y s0' H0. inversion H0. eexists; reflexivity.
Qed.

Lemma pP_upd_class : forall i f, (forall c, c_usages (f c) = c_usages c) -> pP (upd_class i f).
Proof.
  intros i f Hf s x s' H. apply RP_frame; [eapply fr_upd_class; eauto|].
  destruct (upd_class_views _ _ _ _ _ H) as (c & _ & _ & _ & _ & _ & P). exact P.
Qed.

Lemma pP_ufset : forall i p, pP (unionfind_set i p).
Proof.
  intros i p s x s' H. apply RP_frame; [eapply fr_ufset; eauto|].
  destruct (unionfind_set_mod_at _ _ _ _ _ H) as (_ & P & _). exact P.
Qed.

Lemma pP_witness : forall i cap, pP (record_redundancy_witness i cap).
Proof.
  intros i cap. unfold record_redundancy_witness. apply pP_bind; [apply pP_reads|]. intros ss. apply pP_ufset.
Qed.

Lemma pP_touched_class : forall i ty, pP (touched_class i ty).
Proof.
  intros i ty s x s' H Hu Hp. destruct (touched_class_spec _ _ _ _ _ Hu Hp H) as [Hp' [p' E]]. subst s'.
  split; [|exact Hp']. eapply uc_fr; [apply fr_set_pending|exact Hu].
Qed.

Lemma pP_raw_add : forall id sh bij src, pP (raw_add_to_class id (sh, bij) src).
Proof.
  intros id sh bij src s x s' H Hu Hp. split; [eapply uc_raw_add; eauto|eapply pend_ok_raw_add; eauto].
Qed.

(* one iteration of the node loop of move_to: inside it, between the remove and the add, pend_ok is broken if sh is
   pending; as a whole it keeps the hashcons keys and sets the pending key sh *)
Lemma pP_move_body : forall idf idt mi sh bij src,
  pP (dom _ <- raw_remove_from_class idf sh;
      dom new_bij <- with_ctr (compose_fresh bij mi);
      dom _ <- raw_add_to_class idt (sh, new_bij) src;
      pending_insert sh true).
Proof.
  intros idf idt mi sh bij src s x s' H Hu Hp.
  apply mbind_inv in H. destruct H as (p & s1 & Hr & H).
  apply mbind_inv in H. destruct H as (nb & s2 & Hc & H).
  apply mbind_inv in H. destruct H as (u3 & s3 & Ha & H).
  split.
  - eapply uc_fr; [eapply fr_pending_insert; exact H|]. eapply uc_raw_add; [exact Ha|].
    eapply uc_fr; [eapply fr_with_ctr; exact Hc|]. eapply uc_raw_remove; [exact Hr|exact Hu].
  - destruct (raw_remove_views _ _ _ _ _ Hr) as (_ & Hh1 & P1 & _).
    apply with_ctr_spec in Hc.
    assert (P2 : pending s2 = pending s1) by (subst s2; reflexivity).
    assert (Hh2 : hashcons s2 = hashcons s1) by (subst s2; reflexivity).
    destruct (raw_add_views _ _ _ _ _ _ _ Ha) as (Hh3 & P3 & _).
    inversion H; subst x s'; clear H. destruct Hp as [Nd Hk].
    split; cbn [pending hashcons set_pending].
    + apply na_nodup_set. rewrite P3, P2, P1. exact Nd.
    + intros y t Hy. rewrite Hh3. destruct (node_dec y sh) as [->|Ne]; [exists idt; apply na_get_set_same|].
      rewrite na_get_set_other in Hy by exact Ne. rewrite na_get_set_other by exact Ne.
      rewrite P3, P2, P1 in Hy. rewrite Hh2, Hh1.
      rewrite na_get_remove_other by exact Ne. exact (Hk y t Hy).
Qed.

Lemma pP_move_loop : forall idf idt mi l,
  pP (iterM (fun e : node * (slotmap * N) => let '(sh, (bij, src_id)) := e in
                  dom _ <- raw_remove_from_class idf sh;
                  dom new_bij <- with_ctr (compose_fresh bij mi);
                  dom _ <- raw_add_to_class idt (sh, new_bij) src_id;
                  pending_insert sh true) l).
Proof. intros idf idt mi l. apply pP_iterM. intros [sh [bij src]]. apply pP_move_body. Qed.

Lemma pP_move_to : forall from to, pP (move_to from to).
Proof.
  intros from to. unfold move_to. cbv zeta.
  apply pP_bind; [apply pP_ufset|]. intros _. apply pP_bind; [apply pP_reads|]. intros cf.
  apply pP_bind; [apply pP_move_loop|]. intros _.
  apply pP_bind; [apply pP_reads|]. intros cf2. apply pP_bind; [apply pP_reads|]. intros ct2.
  apply pP_bind; [apply pP_lift|]. intros r. apply pP_bind; [apply pP_upd_class; intros c; reflexivity|]. intros _.
  apply pP_bind; [destruct (snd r); [apply pP_touched_class|apply pP_ret]|]. intros _. apply pP_touched_class.
Qed.

(* the specification of the recursive call: it returns uses_conv too *)
Definition ui_specP (ui : appid -> appid -> M bool) : Prop :=
  forall l r s b s', uses_conv s -> pend_ok s -> ui l r s = Ok (b, s') -> uses_conv s' /\ pend_ok s'.

Section PUi.
  Variable ui : appid -> appid -> M bool.
  Hypothesis HP : ui_specP ui.

  Lemma pP_ui : forall l r, pP (ui l r).
  Proof. intros l r s b s' H Hu Hp. eapply HP; eauto. Qed.

  Lemma pP_shrink_slots : forall from cap, pP (shrink_slots ui from cap).
  Proof.
    intros from cap. unfold shrink_slots.
    apply pP_bind; [apply pP_lift|]. intros ocl. apply pP_bind; [apply pP_witness|]. intros _. cbv zeta.
    apply pP_bind; [apply pP_reads|]. intros c. apply pP_bind; [apply pP_lift|]. intros flags.
    apply pP_bind; [apply pP_lift|]. intros g.
    apply pP_bind; [apply pP_upd_class; intros c0; reflexivity|]. intros _.
    apply pP_bind; [apply pP_touched_class|]. intros _. apply pP_iterM. intros pp.
    apply pP_bind; [apply pP_reads|]. intros sl. apply pP_bind; [apply pP_lift|]. intros ps.
    apply pP_bind; [apply pP_ui|]. intros _. apply pP_ret.
  Qed.

  Lemma pP_union_leaders : forall l r, pP (union_leaders ui l r).
  Proof.
    intros l r. unfold union_leaders. apply pP_bind; [apply pP_reads|]. intros e.
    destruct e; [apply pP_ret|]. cbv zeta.
    destruct (negb (sset_eqb (values (am l)) _)).
    { apply pP_bind; [apply pP_shrink_slots|]. intros _. apply pP_bind; [apply pP_ui|]. intros _. apply pP_ret. }
    destruct (negb (sset_eqb (values (am r)) _)).
    { apply pP_bind; [apply pP_shrink_slots|]. intros _. apply pP_bind; [apply pP_ui|]. intros _. apply pP_ret. }
    destruct (aid l =? aid r).
    - apply pP_bind; [apply pP_reads|]. intros c. apply pP_bind; [apply pP_lift|]. intros bc.
      destruct bc; [apply pP_ret|]. apply pP_bind; [apply pP_lift|]. intros g.
      apply pP_bind; [apply pP_upd_class; intros c0; reflexivity|]. intros _.
      apply pP_bind; [apply pP_touched_class|]. intros _. apply pP_ret.
    - apply pP_bind; [apply pP_reads|]. intros cl. apply pP_bind; [apply pP_reads|]. intros cr. cbv zeta.
      apply pP_bind; [|intros _; apply pP_ret].
      match goal with |- pres _ (if ?b then _ else _) => destruct b end; apply pP_move_to.
  Qed.

  Lemma pP_union_internal_body : ui_specP (union_internal_body ui).
  Proof.
    intros l r s b s' Hu Hp H. revert Hu Hp. revert H. revert s b s'. change (pP (union_internal_body ui l r)).
    unfold union_internal_body.
    apply pP_bind; [apply pP_reads|]. intros l'. apply pP_bind; [apply pP_reads|]. intros r'. apply pP_union_leaders.
  Qed.
End PUi.

Theorem pP_union_internal : forall fuel, ui_specP (union_internal fuel).
Proof.
  induction fuel as [|f IH]; intros l r s b s' Hu Hp H; [discriminate H|].
  rewrite union_internal_S in H. eapply pP_union_internal_body; eauto.
Qed.

Corollary pP_uint_spec : ui_specP uint.
Proof. exact (pP_union_internal ui_fuel). Qed.

Lemma pP_uint : forall l r, pP (uint l r).
Proof. apply pP_ui. exact pP_uint_spec. Qed.

Lemma pP_handle_shrink : forall src, pP (handle_shrink_in_upwards_merge src).
Proof.
  intros src. unfold handle_shrink_in_upwards_merge. apply pP_bind; [apply pP_reads|]. intros pc1.
  apply pP_bind; [apply pP_reads|]. intros n2. apply pP_bind; [apply pP_pc_congruence|]. intros [a b].
  apply pP_shrink_slots. exact pP_uint_spec.
Qed.

Lemma pP_handle_congruence : forall pc, pP (handle_congruence pc).
Proof.
  intros pc. unfold handle_congruence. apply pP_bind; [apply pP_reads|]. intros sh.
  apply pP_bind; [apply pP_reads|]. intros pc2. apply pP_bind; [apply pP_pc_congruence|]. intros ab.
  apply pP_bind; [apply pP_uint|]. intros _. apply pP_ret.
Qed.

Lemma pP_determine_self_symmetries : forall src, pP (determine_self_symmetries src).
Proof.
  intros src. unfold determine_self_symmetries. apply pP_bind; [apply pP_reads|]. intros pc1.
  apply pP_bind; [apply pP_lift|]. intros w. cbv zeta. apply pP_bind; [apply pP_reads|]. intros vs.
  apply pP_iterM. intros pn2. apply pP_bind; [apply pP_lift|]. intros w2.
  destruct (node_eqb (fst w) (fst w2)); [|apply pP_ret].
  apply pP_bind; [apply pP_pc_congruence|]. intros ab. apply pP_bind; [apply pP_uint|]. intros _. apply pP_ret.
Qed.

Lemma pP_hp_loop : forall fuel src e i, pP (hp_loop fuel src e i).
Proof.
  induction fuel as [|f IH]; intros src e i; [intros s x s' H; discriminate|]. cbn [hp_loop].
  destruct (sset_subset (values (am i)) (slots e)); [apply pP_ret|].
  apply pP_bind; [apply pP_handle_shrink|]. intros _.
  apply pP_bind; [apply pP_reads|]. intros e1. apply pP_bind; [apply pP_reads|]. intros i1. apply IH.
Qed.

(* handle_pending: the key being handled has been popped from the worklist *)
Lemma RP_handle_pending : forall sh ty s x s', na_get (pending s) sh = None -> handle_pending sh ty s = Ok (x, s') -> RP s s'.
Proof.
  intros sh ty s x s' Hn H Hu Hp. unfold handle_pending in H.
  apply bind_reads_inv in H. destruct H as (i & _ & H).
  destruct (negb ty); [inversion H; subst; split; assumption|].
  apply bind_reads_inv in H. destruct H as (c & Hc & H).
  apply mbind_inv in H. destruct H as ([bij0 src_id] & s0 & Hq & H). apply lift_inv in Hq. destruct Hq as [_ ->].
  apply mbind_inv in H. destruct H as (nd & s0 & Hnd & H). apply lift_inv in Hnd. destruct Hnd as [_ ->].
  apply mbind_inv in H. destruct H as (u1 & sA & HA & H).
  pose proof (uc_raw_remove _ _ _ _ _ HA Hu) as UA.
  pose proof (pend_ok_raw_remove _ _ _ _ _ Hp Hn HA) as PA.
  apply bind_reads_inv in H. destruct H as (sl & _ & H). cbv zeta in H.
  apply bind_reads_inv in H. destruct H as (enode0 & _ & H).
  apply bind_reads_inv in H. destruct H as (i0 & Hi0 & H).
  apply mbind_inv in H. destruct H as ([enode i1] & sB & HB & H).
  destruct (pP_hp_loop _ _ _ _ _ _ _ HB UA PA) as [UB PB].
  apply bind_reads_inv in H. destruct H as (t & Ht & H).
  apply bind_reads_inv in H. destruct H as (lk & _ & H).
  destruct lk as [hit|].
  - apply bind_reads_inv in H. destruct H as (pc & _ & H). exact (pP_handle_congruence _ _ _ _ H UB PB).
  - destruct t as [sh' bij].
    apply mbind_inv in H. destruct H as (m & sC & Hm & H).
    change (fill_fresh (values bij) (inverse_nocheck (am i1)) sB = Ok (m, sC)) in Hm. cbv zeta in H.
    apply mbind_inv in H. destruct H as (u2 & sD & HD & H).
    destruct (pP_fill_fresh _ _ _ _ _ Hm UB PB) as [UC PC].
    destruct (pP_raw_add _ _ _ _ _ _ _ HD UC PC) as [UD PD].
    exact (pP_determine_self_symmetries _ _ _ _ H UD PD).
Qed.

Lemma pP_rebuild : forall fuel, pP (rebuild fuel).
Proof.
  induction fuel as [|f IH]; intros s x s' H Hu Hp; [discriminate H|]. rewrite rebuild_S in H.
  apply mbind_inv in H. destruct H as (p & s0 & Hq & H). inversion Hq; subst p s0; clear Hq.
  destruct (pending s) as [|[sh ty] rest] eqn:Ep; [inversion H; subst; split; assumption|].
  apply mbind_inv in H. destruct H as (u1 & s1 & H1 & H).
  apply mbind_inv in H. destruct H as (u2 & s2 & H2 & H).
  inversion H1; subst u1 s1; clear H1.
  destruct (pend_ok_pop _ _ _ _ Hp Ep) as [P1 Hn].
  pose proof (uc_fr _ _ (fr_set_pending s rest) Hu) as U1.
  destruct (RP_handle_pending sh ty (set_pending s rest) u2 s2 Hn H2 U1 P1) as [U2 P2].
  exact (IH _ _ _ H U2 P2).
Qed.

(* ---------------------------------------------------------------------- *)
(* the statements on pend_ok *)

Theorem pend_ok_move_to : forall from to s x s', uses_conv s -> pend_ok s -> move_to from to s = Ok (x, s') -> pend_ok s'.
Proof. intros from to s x s' Hu Hp H. exact (proj2 (pP_move_to _ _ _ _ _ H Hu Hp)). Qed.

Theorem pend_ok_shrink_slots : forall ui, ui_specP ui ->
  forall from cap s x s', uses_conv s -> pend_ok s -> shrink_slots ui from cap s = Ok (x, s') -> pend_ok s'.
Proof. intros ui HP from cap s x s' Hu Hp H. exact (proj2 (pP_shrink_slots ui HP _ _ _ _ _ H Hu Hp)). Qed.

Theorem pend_ok_union_internal : forall fuel l r s b s', uses_conv s -> pend_ok s -> union_internal fuel l r s = Ok (b, s') -> pend_ok s'.
Proof. intros fuel l r s b s' Hu Hp H. exact (proj2 (pP_union_internal fuel _ _ _ _ _ Hu Hp H)). Qed.

Theorem pend_ok_uint : forall l r s b s', uses_conv s -> pend_ok s -> uint l r s = Ok (b, s') -> pend_ok s'.
Proof. intros l r. exact (pend_ok_union_internal ui_fuel l r). Qed.

Theorem pend_ok_shrink_slots_uint : forall from cap s x s', uses_conv s -> pend_ok s -> shrink_slots uint from cap s = Ok (x, s') -> pend_ok s'.
Proof. exact (pend_ok_shrink_slots uint pP_uint_spec). Qed.

Theorem pend_ok_handle_shrink : forall src s x s', uses_conv s -> pend_ok s -> handle_shrink_in_upwards_merge src s = Ok (x, s') -> pend_ok s'.
Proof. intros src s x s' Hu Hp H. exact (proj2 (pP_handle_shrink _ _ _ _ H Hu Hp)). Qed.

Theorem pend_ok_handle_congruence : forall pc s x s', uses_conv s -> pend_ok s -> handle_congruence pc s = Ok (x, s') -> pend_ok s'.
Proof. intros pc s x s' Hu Hp H. exact (proj2 (pP_handle_congruence _ _ _ _ H Hu Hp)). Qed.

Theorem pend_ok_determine_self_symmetries : forall src s x s', uses_conv s -> pend_ok s -> determine_self_symmetries src s = Ok (x, s') -> pend_ok s'.
Proof. intros src s x s' Hu Hp H. exact (proj2 (pP_determine_self_symmetries _ _ _ _ H Hu Hp)). Qed.

Theorem pend_ok_hp_loop : forall fuel src e i s x s', uses_conv s -> pend_ok s -> hp_loop fuel src e i s = Ok (x, s') -> pend_ok s'.
Proof. intros fuel src e i s x s' Hu Hp H. exact (proj2 (pP_hp_loop _ _ _ _ _ _ _ H Hu Hp)). Qed.

Theorem pend_ok_handle_pending : forall sh ty s x s', uses_conv s -> pend_ok s -> na_get (pending s) sh = None ->
  handle_pending sh ty s = Ok (x, s') -> pend_ok s'.
Proof. intros sh ty s x s' Hu Hp Hn H. exact (proj2 (RP_handle_pending _ _ _ _ _ Hn H Hu Hp)). Qed.

Theorem pend_ok_rebuild : forall fuel s x s', uses_conv s -> pend_ok s -> rebuild fuel s = Ok (x, s') -> pend_ok s'.
Proof. intros fuel s x s' Hu Hp H. exact (proj2 (pP_rebuild _ _ _ _ H Hu Hp)). Qed.

(* ---------------------------------------------------------------------- *)
(* extras: the operations (at their boundaries pending = [] anyway, by PendingFacts.rebuild_drains) *)

Lemma pP_eg_union : forall l r, pP (eg_union l r).
Proof.
  intros l r. unfold eg_union. apply pP_bind; [apply pP_synify_app_id|]. intros _.
  apply pP_bind; [apply pP_synify_app_id|]. intros _. apply pP_bind; [apply pP_uint|]. intros out.
  apply pP_bind; [apply pP_rebuild|]. intros _. apply pP_ret.
Qed.

Lemma pP_alloc : forall sl syn, pP (alloc_eclass sl syn).
Proof.
  intros sl syn s i s' H Hu Hp. split; [eapply uc_alloc; eauto|].
  destruct (alloc_eclass_exact _ _ _ _ _ H) as (_ & _ & _ & Hh & P & _). eapply pend_ok_same; eauto.
Qed.

Lemma pP_mk_singleton : forall en, pP (mk_singleton_class en).
Proof.
  intros en. unfold mk_singleton_class. cbv zeta.
  apply pP_bind; [apply pP_with_ctr|]. intros f2o. apply pP_bind; [apply pP_with_ctr|]. intros synf.
  apply pP_bind; [apply pP_alloc|]. intros i. apply pP_bind; [apply pP_lift|]. intros [sh bij].
  intros s x s' H Hu Hp.
  apply mbind_inv in H. destruct H as (u4 & s4 & H4 & H).
  destruct (pP_raw_add _ _ _ _ _ _ _ H4 Hu Hp) as [U4 P4].
  apply mbind_inv in H. destruct H as (u5 & s5 & H5 & H). cbn [fst] in H5.
  assert (K4 : exists j, na_get (hashcons s4) sh = Some j).
  { destruct (raw_add_views _ _ _ _ _ _ _ H4) as (Hh & _). rewrite Hh. exists i. apply na_get_set_same. }
  pose proof (pend_ok_pending_insert _ _ _ _ _ P4 K4 H5) as P5.
  pose proof (uc_fr _ _ (fr_pending_insert _ _ _ _ _ H5) U4) as U5.
  apply mbind_inv in H. destruct H as (u6 & s6 & H6 & H). inversion H; subst x s6; clear H.
  exact (pP_rebuild _ _ _ _ H6 U5 P5).
Qed.

Lemma pP_add_internal : forall t, pP (add_internal t).
Proof.
  intros t. unfold add_internal. apply pP_bind; [apply pP_reads|]. intros lk. destruct lk as [hit|]; [apply pP_ret|].
  apply pP_bind.
  { intros s x s' H. destruct (refresh_private (fst t) (ectr s)) as [[r|e] c1] eqn:RP0; [|discriminate].
    inversion H; subst x s'. apply RP_ctr_only. eexists; reflexivity. }
  intros en. apply pP_bind; [apply pP_lift|]. intros en2. apply pP_bind; [apply pP_synify_enode|]. intros en3.
  apply pP_bind; [apply pP_mk_singleton|]. intros syn. apply pP_reads.
Qed.

Lemma pP_eg_add : forall n, pP (eg_add n).
Proof. intros n. unfold eg_add. apply pP_bind; [apply pP_reads|]. intros t. apply pP_add_internal. Qed.

Lemma pP_add_expr : forall t, pP (add_expr t).
Proof.
  fix IH 1. intros [n ch]. cbn [add_expr]. apply pP_bind.
  - induction ch as [|c r IHr]; [apply pP_ret|].
    apply pP_bind; [apply IH|]. intros a0. apply pP_bind; [apply IHr|]. intros; apply pP_ret.
  - intros l. destruct (Nat.ltb _ _); [intros s x s' H; discriminate|]. apply pP_eg_add.
Qed.

Theorem pend_ok_eg_union : forall l r s b s', uses_conv s -> pend_ok s -> eg_union l r s = Ok (b, s') -> pend_ok s'.
Proof. intros l r s b s' Hu Hp H. exact (proj2 (pP_eg_union _ _ _ _ _ H Hu Hp)). Qed.

Theorem pend_ok_mk_singleton : forall en s a s', uses_conv s -> pend_ok s -> mk_singleton_class en s = Ok (a, s') -> pend_ok s'.
Proof. intros en s a s' Hu Hp H. exact (proj2 (pP_mk_singleton _ _ _ _ H Hu Hp)). Qed.

Theorem pend_ok_add_internal : forall t s a s', uses_conv s -> pend_ok s -> add_internal t s = Ok (a, s') -> pend_ok s'.
Proof. intros t s a s' Hu Hp H. exact (proj2 (pP_add_internal _ _ _ _ H Hu Hp)). Qed.

Theorem pend_ok_eg_add : forall n s a s', uses_conv s -> pend_ok s -> eg_add n s = Ok (a, s') -> pend_ok s'.
Proof. intros n s a s' Hu Hp H. exact (proj2 (pP_eg_add _ _ _ _ H Hu Hp)). Qed.

Theorem pend_ok_add_expr : forall t s a s', uses_conv s -> pend_ok s -> add_expr t s = Ok (a, s') -> pend_ok s'.
Proof. intros t s a s' Hu Hp H. exact (proj2 (pP_add_expr _ _ _ _ H Hu Hp)). Qed.

Theorem pend_ok_run_ops : forall terms ops hs0 s hs s', uses_conv s -> pend_ok s -> run_ops terms ops hs0 s = Ok (hs, s') -> pend_ok s'.
Proof.
  intros terms ops. induction ops as [|o t IHo]; intros hs0 s hs s' Hu Hp H; cbn [run_ops] in H.
  - unfold ret in H. injection H as _ E. subst s'. exact Hp.
  - destruct o as [k|i j jj].
    + destruct (nth_opt terms k) as [tm|]; [|discriminate H].
      apply mbind_inv in H. destruct H as (a & s1 & Ha & H).
      destruct (pP_add_expr _ _ _ _ Ha Hu Hp) as [U1 P1]. exact (IHo _ _ _ _ U1 P1 H).
    + destruct (nth_opt hs0 i) as [a|]; [|discriminate H].
      destruct (nth_opt hs0 j) as [b|]; [|discriminate H].
      apply mbind_inv in H. destruct H as (u & s1 & Hu1 & H).
      destruct (pP_eg_union _ _ _ _ _ Hu1 Hu Hp) as [U1 P1]. exact (IHo _ _ _ _ U1 P1 H).
Qed.

Theorem pend_ok_reachable : forall terms ops hs s, run_ops terms ops [] empty_egraph = Ok (hs, s) -> pend_ok s.
Proof.
  intros terms ops hs s H. eapply pend_ok_run_ops; [exact uses_conv_empty|apply pend_ok_nil; reflexivity|exact H].
Qed.

(* ---------------------------------------------------------------------- *)
Print Assumptions src_ok_raw_add.
Print Assumptions src_ok_raw_remove.
Print Assumptions src_ok_move_to.
Print Assumptions src_ok_union_internal.
Print Assumptions src_ok_uint.
Print Assumptions src_ok_shrink_slots_uint.
Print Assumptions src_ok_handle_shrink.
Print Assumptions src_ok_handle_congruence.
Print Assumptions src_ok_determine_self_symmetries.
Print Assumptions src_ok_hp_loop.
Print Assumptions src_ok_handle_pending.
Print Assumptions src_ok_rebuild.
Print Assumptions src_ok_eg_union.
Print Assumptions src_ok_mk_singleton.
Print Assumptions src_ok_add_internal.
Print Assumptions src_ok_eg_add.
Print Assumptions src_ok_add_expr.
Print Assumptions src_ok_run_ops.
Print Assumptions src_ok_empty.
Print Assumptions src_ok_reachable.
Print Assumptions pend_ok_nil.
Print Assumptions pend_ok_pop.
Print Assumptions pend_ok_same.
Print Assumptions pend_ok_raw_remove.
Print Assumptions pend_ok_raw_add.
Print Assumptions pend_ok_pending_insert.
Print Assumptions pend_ok_touched_class.
Print Assumptions pend_ok_move_to.
Print Assumptions pend_ok_shrink_slots.
Print Assumptions pend_ok_union_internal.
Print Assumptions pend_ok_uint.
Print Assumptions pend_ok_shrink_slots_uint.
Print Assumptions pend_ok_handle_shrink.
Print Assumptions pend_ok_handle_congruence.
Print Assumptions pend_ok_determine_self_symmetries.
Print Assumptions pend_ok_hp_loop.
Print Assumptions pend_ok_handle_pending.
Print Assumptions pend_ok_rebuild.
Print Assumptions pend_ok_eg_union.
Print Assumptions pend_ok_mk_singleton.
Print Assumptions pend_ok_add_expr.
Print Assumptions pend_ok_run_ops.
Print Assumptions pend_ok_reachable.
