(* EGraph/NoErrorKey.v — the `.expect("handle_congruence should only be called on hashcons collision!")` of
   `pc_from_shape` (first hashcons lookup inside handle_congruence) cannot fail: `HC_hit` (NoErrorBase.v) is proved.

   At the call (state sB), handle_pending has just found the key `fst (shape sB enode)` in the hashcons.  By
   SoundClosed.KS_hp_prefix the in-flight node `enode` is nc-related to the syntactic node of the source id of the
   popped entry (`flight`); `shape` does not distinguish nc-related nodes (SoundClosed.nc_shape); and the node of
   `pc_from_src_id sB src` is the pre-shape of that syntactic node, a fixed point of pre_shape
   (HashconsShape.pre_shape_idem).  Hence the key looked up by handle_congruence is the key that was just hit. *)
From SE Require Import Slots.SlotMapFacts Lang.LangFacts Lang.ShapeFacts
  EGraph.Model EGraph.ModelFacts EGraph.ModelMachine EGraph.UnionFindFacts EGraph.InvariantFacts
  EGraph.UnionInvariantFacts EGraph.AddCoversFacts EGraph.HashconsShape EGraph.HashconsFacts EGraph.KidsFacts
  EGraph.NodeCong EGraph.SoundUnion EGraph.SoundStruct EGraph.SoundClosed EGraph.NoErrorBase.
Require Import ZArith Lia List.
Import ListNotations.

Theorem HC_key_eq : forall s sh i c bij0 src nd u1 sA cA enode0 i0 enode i1 sB t pc1 t1,
    inv3 s -> mod4_ok s -> KC2 s ->
    na_get (hashcons s) sh = Some i -> get_class s i = Ok c -> na_get (c_nodes c) sh = Some (bij0, src) ->
    apply_slotmap false bij0 sh = Ok nd ->
    raw_remove_from_class i sh s = Ok (u1, sA) -> get_class sA i = Ok cA ->
    find_enode sA nd = Ok enode0 -> find_applied_id sA {| aid := i; am := identity (c_slots cA) |} = Ok i0 ->
    hp_loop 100 src enode0 i0 sA = Ok ((enode, i1), sB) ->
    shape sB enode = Ok t -> pc_from_src_id sB src = Ok pc1 -> shape sB (fst pc1) = Ok t1 ->
    fst t1 = fst t.
Proof.
  intros s sh i c bij0 src nd u1 sA cA enode0 i0 enode i1 sB t pc1 t1 I3 M Kc Hh Hc Hp0 Hnd HA HcA Hen Hi0 HB Ht P1 Hsh.
  destruct (KS_hp_prefix s sh i c bij0 src nd u1 sA cA enode0 i0 enode i1 sB I3 M Kc Hh Hc Hp0 Hnd HA HcA Hen Hi0 HB)
    as (HsB & _ & _ & FlB & _ & _).
  pose proof (proj1 HsB) as Hs.
  destruct FlB as (csrc & Hcs & Hnc).
  destruct (pc_from_src_spec _ _ _ P1) as (c1 & Hc1 & PS1 & _).
  rewrite Hcs in Hc1. inversion Hc1; subst c1; clear Hc1.
  destruct (pre_shape_found sB _ _ Hs PS1) as (N1 & F1 & PN1).
  pose proof (pre_shape_idem sB _ N1 _ Hs F1 PN1) as Id1.
  assert (W1 : wshape (fst pc1) = Ok t1).
  { unfold shape in Hsh. rewrite Id1 in Hsh. cbn [bind] in Hsh. exact Hsh. }
  assert (S2 : shape sB (c_syn csrc) = Ok t1).
  { unfold shape. rewrite PS1. cbn [bind]. exact W1. }
  destruct (nc_shape sB _ _ _ Hs Hnc S2) as [b Hk]. rewrite Ht in Hk. inversion Hk. reflexivity.
Qed.

Theorem HC_hit_proved : HC_hit.
Proof.
  intros s sh i c bij0 src nd u1 sA cA enode0 i0 enode i1 sB t x pc1 t1 J (M & _ & Kc) _ Hh Hc Hp0 Hnd HA HcA Hen Hi0 HB
    Ht Hlk P1 Hsh.
  pose proof (kinv_inv3 _ (jm_kinv _ _ J)) as I3.
  rewrite (HC_key_eq s sh i c bij0 src nd u1 sA cA enode0 i0 enode i1 sB t pc1 t1 I3 M Kc Hh Hc Hp0 Hnd HA HcA Hen Hi0 HB
             Ht P1 Hsh).
  unfold lookup_internal in Hlk. destruct t as [k nb]. cbn [fst].
  destruct (na_get (hashcons sB) k) as [j|]; [discriminate|]. inversion Hlk.
Qed.

Print Assumptions HC_key_eq.
Print Assumptions HC_hit_proved.
