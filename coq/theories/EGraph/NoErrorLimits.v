(* EGraph/NoErrorLimits.v — "modulo fuel" cannot be dropped for the MODEL: the restricted form of props/C08.v
   `C08_no_error_full` (well-formed terms, indices in range) is FALSE for the model with its constant fuels, because a
   well-formed three-operation history exhausts the constant 100 of `hp_loop 100` (found by the fuel analysis,
   NoErrorFuelHp.v: g(x1..x101), h(g(x2..x101,q)), union: the merged class contains a node whose child is its own class and
   loses one slot per round of the `while !i.slots().is_subset(&enode.slots())` loop of handle_pending).  The Rust code has no
   such limit: this is a limit of the model's fuel constants, NOT a panic of the implementation.  By `no_panic_modulo_fuel`
   (NoError.v) fuel exhaustion is the ONLY way a well-formed history can fail in the model. *)
From SE Require Import EGraph.Model EGraph.ModelMachine EGraph.AddCoversFacts EGraph.OpsPreFacts
  EGraph.NoErrorBase EGraph.NoErrorTop EGraph.NoErrorFuel.
Require Import ZArith List.
Import ListNotations.

Definition lim_terms : list rterm := [xsk 5 (sl_k 101); xun 7 (xsk 5 (tl (sl_k 101) ++ [4002%N]))].
Definition lim_ops : list hop := [HAdd 0; HAdd 1; HUnion 0 1 None].

Example lim_static : forallb term_staticb lim_terms = true /\ ops_in_range_fromb (List.length lim_terms) 0 lim_ops = true.
Proof. vm_compute. split; reflexivity. Qed.

Example lim_out_of_fuel : run_ops lim_terms lim_ops [] empty_egraph = Err OutOfFuel.
Proof. vm_compute. reflexivity. Qed.

Theorem C08_no_error_static_false :
  ~ (forall terms ops, Forall term_static terms -> ops_in_range terms ops ->
       exists hs s, run_ops terms ops [] empty_egraph = Ok (hs, s)).
Proof.
  intros H. destruct lim_static as [HT HR].
  destruct (H lim_terms lim_ops) as (hs & s & E).
  - apply Forall_forall. intros t Hin. apply term_staticb_iff. exact (proj1 (forallb_forall _ _) HT t Hin).
  - apply ops_in_range_fromb_sound. exact HR.
  - rewrite lim_out_of_fuel in E. discriminate E.
Qed.

Print Assumptions C08_no_error_static_false.
