(* EGraph/NoErrorPending.v — ERROR-FREEDOM of the rebuild side of the model (C08, panic-freedom half).
   On states satisfying the bundle `Jm E s` (NoErrorBase.v) — and, at the entry of handle_pending, the run invariants
   `Kx s` — handle_shrink_in_upwards_merge, handle_congruence, determine_self_symmetries, hp_loop, handle_pending and
   rebuild never return a NON-fuel error, except for the site covered by `HC_hit` (proved in NoErrorKey.v).
   Build order: NoErrorPendingSH (handle_shrink, hp_loop), NoErrorPendingA (bundles, handle_congruence,
   determine_self_symmetries), NoErrorPendingNB (None branch of handle_pending), NoErrorPendingHP (handle_pending),
   NoErrorPendingKx (Kx preservation), this file. *)
From SE Require Import Slots.SlotMapFacts Group.GroupSound Lang.LangFacts Lang.ShapeFacts
  EGraph.Model EGraph.ModelFacts EGraph.ModelMachine EGraph.UnionFindFacts EGraph.InvariantFacts
  EGraph.UnionInvariantFacts EGraph.AddCoversFacts EGraph.Mod4Facts EGraph.MatchDefs EGraph.HashconsFacts
  EGraph.KidsFacts EGraph.SoundFacts EGraph.SoundSyn EGraph.SoundUnion EGraph.SoundStruct EGraph.UsesConvDef
  EGraph.UsesConv EGraph.PendingFacts EGraph.NoErrorBase EGraph.NoErrorShape EGraph.NoErrorInv EGraph.NoErrorUnion
  EGraph.NoErrorPendingSH EGraph.NoErrorPendingA EGraph.NoErrorPendingNB EGraph.NoErrorPendingHP EGraph.NoErrorPendingKx.
Require Import ZArith Lia List.
Import ListNotations.
Local Notation ectr := Model.ctr.

(* ------------------------------------------------------------------ *)
(* 1. Ok-direction: popping the worklist, handle_pending, rebuild (no hypothesis) *)

Lemma Jm_pop : forall s sh ty rest, Jm noex s -> pending s = (sh, ty) :: rest ->
  Jm (fun y => y = sh /\ ty = true) (set_pending s rest) /\ na_get rest sh = None.
Proof.
  intros s sh ty rest [(I3 & M & K) Hh Hu Hs Hy Hsrc Hp] Ep.
  destruct (pend_ok_pop s sh ty rest Hp Ep) as [Hp' Nn]. split; [|exact Nn]. constructor.
  - destruct (s_modify_pend' (fun _ => rest) s tt _ eq_refl) as [A B].
    destruct (semn_step3 _ _ A B I3) as [I3' _]. split; [exact I3'|].
    split; [eapply Mod4Facts.m4_frame; [exact M| | |]; reflexivity|]. eapply kids_ok_same_classes; [|exact K]. reflexivity.
  - destruct Hh as [T C]. split; [eapply tab_ok_same; [|exact T]; repeat split|].
    intros i y p S. change (stored s i y p) in S. destruct (C i y p S) as [A|[A|[]]].
    + rewrite Ep in A. cbn [na_get] in A. destruct (node_eqb y sh) eqn:Ey.
      * apply node_eqb_iff in Ey. inversion A; subst. right. right. split; reflexivity.
      * left. exact A.
    + right. left. eapply canon_frame; [|exact A]. intros j _. split; reflexivity.
  - exact (uc_fr _ _ (fr_set_pending s rest) Hu).
  - intros i c e Hc Hin. exact (Hs i c e Hc Hin).
  - intros i c a Hc Hin. exact (Hy i c a Hc Hin).
  - intros i c y bij src Hc Hin. exact (Hsrc i c y bij src Hc Hin).
  - exact Hp'.
Qed.

Theorem Jm_handle_pending : forall sh ty s x s', Jm (fun y => y = sh /\ ty = true) s -> na_get (pending s) sh = None ->
  handle_pending sh ty s = Ok (x, s') -> Jm noex s' /\ ext s s'.
Proof.
  intros sh ty s x s' [Hk Hh Hu Hs Hy Hsrc Hp] Nn H.
  destruct (kinv_handle_pending sh ty s x s' H Hk) as [Hk' X]. split; [|exact X]. constructor.
  - exact Hk'.
  - exact (hc_ok_handle_pending _ _ _ _ _ (kinv_inv3 _ Hk) H Hh).
  - exact (uc_handle_pending _ _ _ _ _ Hu H).
  - exact (pS_handle_pending _ _ _ _ _ H Hs).
  - exact (syn_wf_ext _ _ X Hy).
  - exact (src_ok_handle_pending _ _ _ _ _ Hsrc H).
  - exact (pend_ok_handle_pending _ _ _ _ _ Hu Hp Nn H).
Qed.

Theorem Jm_rebuild : forall fuel s x s', Jm noex s -> rebuild fuel s = Ok (x, s') -> Jm noex s' /\ pending s' = [] /\ ext s s'.
Proof.
  induction fuel as [|f IH]; intros s x s' J H; [discriminate H|]. rewrite rebuild_step in H.
  apply mbind_inv in H. destruct H as (p & s0 & Hp & H). inversion Hp; subst p s0; clear Hp.
  destruct (pending s) as [|[sh ty] rest] eqn:Ep.
  - inversion H; subst. split; [exact J|]. split; [exact Ep|apply ext_refl].
  - apply mbind_inv in H. destruct H as (u1 & s1 & H1 & H). inversion H1; subst u1 s1; clear H1.
    apply mbind_inv in H. destruct H as (u2 & s2 & H2 & H).
    destruct (Jm_pop s sh ty rest J Ep) as [J1 Nn].
    assert (X1 : ext s (set_pending s rest)).
    { split; [cbn [Model.ctr set_pending]; lia|]. split; [reflexivity|]. intros i c Hc. exists c.
      split; [exact Hc|]. split; [apply incl_refl|reflexivity]. }
    destruct (Jm_handle_pending sh ty _ _ _ J1 Nn H2) as [J2 X2].
    destruct (IH s2 x s' J2 H) as (J' & Pn & X3).
    split; [exact J'|]. split; [exact Pn|]. eapply ext_trans; [exact X1|]. eapply ext_trans; eauto.
Qed.

(* ------------------------------------------------------------------ *)
(* 2. no non-fuel error *)

(* the two statements of NoErrorUnion.v in the form assumed by the sub-files *)
Lemma nf_shrink_slots_uint_if : forall E from cap s, kinv s -> hce E s -> lcanon s from ->
  (forall x, In x cap -> In x (values (am from))) -> swf cap -> nf (shrink_slots uint from cap) s.
Proof. intros E from cap s Hk Hh L C _. exact (NoErrorUnion.nf_shrink_slots_uint E from cap s Hk Hh L C). Qed.

  Theorem nf_handle_shrink : forall E src s, Jm E s -> (N.to_nat src < lc s)%nat -> nf (handle_shrink_in_upwards_merge src) s.
  Proof. intros E src s J L. exact (nfK_handle_shrink nf_shrink_slots_uint_if E src s (jm_kinv _ _ J) (jm_hce _ _ J) (jm_syn _ _ J) L). Qed.

  Theorem nf_determine_self_symmetries : forall E src s, Jm E s -> (N.to_nat src < lc s)%nat -> nf (determine_self_symmetries src) s.
  Proof. intros E src s J L. exact (nfK_determine_self_symmetries nf_uint E src s (jm_kinv _ _ J) (jm_hce _ _ J) (jm_syn _ _ J) L). Qed.

  Theorem nf_handle_congruence : forall E pc1 src s, Jm E s -> pc_from_src_id s src = Ok pc1 ->
    (forall t1, shape s (fst pc1) = Ok t1 -> na_get (hashcons s) (fst t1) <> None) -> nf (handle_congruence pc1) s.
  Proof.
    intros E pc1 src s J P HC.
    exact (nfK_handle_congruence nf_uint E pc1 src s (jm_kinv _ _ J) (jm_hce _ _ J) (jm_syn _ _ J) (jm_src _ _ J) P HC).
  Qed.

  Theorem nf_hp_loop : forall E fuel src enode i s, Jm E s -> (N.to_nat src < lc s)%nat -> lcanon s i ->
    Forall (covers s) (app_occ enode) -> nf (hp_loop fuel src enode i) s.
  Proof.
    intros E fuel src enode i s J L Li Cv.
    exact (nfK_hp_loop nf_shrink_slots_uint_if E fuel src enode i s (jm_kinv _ _ J) (jm_hce _ _ J) (jm_syn _ _ J) L Li Cv).
  Qed.

  (* handle_pending: the walk is NoErrorPendingHP.nf_handle_pending *)
  Theorem nf_handle_pending : HC_hit -> forall sh ty s, Jm (fun y => y = sh /\ ty = true) s -> Kx s ->
    na_get (pending s) sh = None -> (exists i, na_get (hashcons s) sh = Some i) -> nf (handle_pending sh ty) s.
  Proof.
    exact (NoErrorPendingHP.nf_handle_pending (nfK_hp_loop nf_shrink_slots_uint_if) (nfK_handle_congruence nf_uint)
             (nf_hp_none (nfK_determine_self_symmetries nf_uint))).
  Qed.

  Theorem nf_rebuild : HC_hit -> forall fuel s, Jm noex s -> Kx s -> nf (rebuild fuel) s.
  Proof.
    intros HCH. induction fuel as [|f IH]; intros s J Kxs; [cbn [rebuild]; apply nf_fail_fuel|].
    rewrite rebuild_step. apply nf_bind; [apply nf_gets|]. intros p s0 Hp. unfold gets in Hp. inversion Hp; subst p s0; clear Hp.
    destruct (pending s) as [|[sh ty] rest] eqn:Ep; [apply nf_ret|].
    apply nf_bind; [apply nf_modify|]. intros u1 s1 H1. unfold modify in H1. inversion H1; subst u1 s1; clear H1.
    destruct (Jm_pop s sh ty rest J Ep) as [J1 Nn].
    pose proof (Kx_pop s sh ty rest J Kxs Ep) as Kx1.
    assert (Hkey : exists i, na_get (hashcons (set_pending s rest)) sh = Some i).
    { apply (proj2 (jm_pend _ _ J) sh ty). rewrite Ep. cbn [na_get].
      rewrite (proj2 (node_eqb_iff sh sh) eq_refl). reflexivity. }
    apply nf_bind; [exact (nf_handle_pending HCH sh ty _ J1 Kx1 Nn Hkey)|]. intros u2 s2 H2.
    apply IH.
    - exact (proj1 (Jm_handle_pending sh ty _ _ _ J1 Nn H2)).
    - exact (Kx_handle_pending sh ty _ _ _ J1 Kx1 H2).
  Qed.


(* Kx through rebuild (NoErrorPendingKx.Kx_rebuild with its two premises discharged) *)
Theorem Kx_rebuild : forall fuel s x s', Jm noex s -> Kx s -> rebuild fuel s = Ok (x, s') -> Kx s'.
Proof. exact (NoErrorPendingKx.Kx_rebuild Jm_pop Jm_handle_pending). Qed.

Check Jm_uint.
Check nf_handle_pending.
Check nf_rebuild.
Print Assumptions Jm_uint.
Print Assumptions nf_handle_pending.
Print Assumptions nf_rebuild.
Print Assumptions Kx_rebuild.
Print Assumptions Kx_handle_pending.
Print Assumptions Kx_uint.

Print Assumptions Jm_pop.
Print Assumptions Jm_handle_pending.
Print Assumptions Jm_rebuild.
Print Assumptions nf_hp_loop.
