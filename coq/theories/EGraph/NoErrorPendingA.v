(* EGraph/NoErrorPendingA.v — error-freedom of the rebuild side, part A:
   Ok-direction bundles (K_* : kinv /\ hce E /\ syn_wf; Jm_* : the full bundle) and the nf lemmas for
   handle_congruence and determine_self_symmetries. *)
From SE Require Import Slots.SlotMapFacts Group.GroupSound Lang.LangFacts Lang.ShapeFacts
  EGraph.Model EGraph.ModelFacts EGraph.ModelMachine EGraph.UnionFindFacts EGraph.InvariantFacts
  EGraph.UnionInvariantFacts EGraph.AddCoversFacts EGraph.Mod4Facts EGraph.MatchDefs EGraph.HashconsFacts
  EGraph.KidsFacts EGraph.SoundFacts EGraph.SoundSyn EGraph.SoundUnion EGraph.SoundStruct EGraph.UsesConvDef
  EGraph.UsesConv EGraph.PendingFacts EGraph.SelfSymUnion EGraph.NoErrorBase EGraph.NoErrorShape EGraph.NoErrorInv EGraph.NoErrorPendingSH.
Require Import ZArith Lia List.
Import ListNotations.
Local Notation ectr := Model.ctr.

Section Interface.
  (* NoErrorUnion.v (not compiled yet) *)
  Hypothesis nf_uint : ui_nf uint.
  Hypothesis nf_shrink_slots_uint : forall E from cap s, kinv s -> hce E s -> lcanon s from -> (forall x, In x cap -> In x (values (am from))) -> swf cap ->
                       nf (shrink_slots uint from cap) s.

  (* ------------------------------------------------------------------ *)
  (* 1. Ok-direction bundles *)

  Lemma Jm_uint : forall E l r s b s', Jm E s -> covers s l -> covers s r -> uint l r s = Ok (b, s') -> Jm E s' /\ ext s s'.
  Proof.
    intros E l r s b s' [(I3 & M & K) Hh Hu Hs Hy Hsrc Hp] Cl Cr H.
    destruct (inv3_uint _ _ _ _ _ I3 Cl Cr H) as [I3' X]. split; [|exact X]. constructor.
    - split; [exact I3'|]. split; [exact (proj1 (h_uint _ _ _ _ _ H M))|]. exact (kids_ok_uint _ _ _ _ _ I3 K Cl Cr H).
    - exact (hce_uint _ _ _ _ _ _ H Hh).
    - exact (uc_uint _ _ _ _ _ Hu H).
    - exact (pS_uint _ _ _ _ _ H Hs).
    - exact (syn_wf_ext _ _ X Hy).
    - exact (src_ok_uint _ _ _ _ _ Hsrc H).
    - exact (pend_ok_uint _ _ _ _ _ Hu Hp H).
  Qed.

  Lemma K_uint : forall E l r s b s', kinv s -> hce E s -> syn_wf s -> covers s l -> covers s r -> uint l r s = Ok (b, s') ->
    kinv s' /\ hce E s' /\ syn_wf s' /\ ext s s'.
  Proof.
    intros E l r s b s' (I3 & M & K) Hh Hy Cl Cr H.
    destruct (inv3_uint _ _ _ _ _ I3 Cl Cr H) as [I3' X].
    split; [split; [exact I3'|split; [exact (proj1 (h_uint _ _ _ _ _ H M))|exact (kids_ok_uint _ _ _ _ _ I3 K Cl Cr H)]]|].
    split; [exact (hce_uint _ _ _ _ _ _ H Hh)|]. split; [exact (syn_wf_ext _ _ X Hy)|exact X].
  Qed.

  Lemma Jm_shrink_slots_uint : forall E from cap s x s', Jm E s -> lcanon s from ->
    shrink_slots uint from cap s = Ok (x, s') -> Jm E s' /\ ext s s'.
  Proof.
    intros E from cap s x s' [(I3 & M & K) Hh Hu Hs Hy Hsrc Hp] L H. pose proof (lcanon_K1 _ _ M L) as HK.
    destruct (inv3_shrink_slots ui_fuel (inv3_union_internal ui_fuel) _ _ _ _ _ I3 L H) as [I3' X]. split; [|exact X]. constructor.
    - split; [exact I3'|]. split; [exact (proj1 (h_shrink_slots uint h_uint from cap HK _ _ _ H M))|].
      exact (kids_ok_shrink_slots ui_fuel _ _ _ _ _ I3 K L H).
    - exact (hce_shrink_slots uint hce_uint _ _ _ _ _ _ H Hh).
    - exact (uc_shrink_slots uint uc_uint _ _ _ _ _ Hu H).
    - exact (pS_shrink_slots uint pS_uint _ _ _ _ _ H Hs).
    - exact (syn_wf_ext _ _ X Hy).
    - exact (src_ok_shrink_slots_uint _ _ _ _ _ Hsrc H).
    - exact (pend_ok_shrink_slots_uint _ _ _ _ _ Hu Hp H).
  Qed.

  Lemma Jm_handle_shrink : forall E src s x s', Jm E s -> handle_shrink_in_upwards_merge src s = Ok (x, s') -> Jm E s' /\ ext s s'.
  Proof.
    intros E src s x s' [(I3 & M & K) Hh Hu Hs Hy Hsrc Hp] H.
    destruct (inv3_handle_shrink _ _ _ _ H I3) as [I3' X]. split; [|exact X]. constructor.
    - split; [exact I3'|]. split; [exact (proj1 (h_handle_shrink _ _ _ _ H M))|]. exact (kids_ok_handle_shrink _ _ _ _ I3 K H).
    - exact (hce_handle_shrink _ _ _ _ _ H Hh).
    - exact (uc_handle_shrink _ _ _ _ Hu H).
    - exact (pS_handle_shrink _ _ _ _ H Hs).
    - exact (syn_wf_ext _ _ X Hy).
    - exact (src_ok_handle_shrink _ _ _ _ Hsrc H).
    - exact (pend_ok_handle_shrink _ _ _ _ Hu Hp H).
  Qed.

  Lemma Jm_handle_congruence : forall E src pc1 s x s', Jm E s -> pc_from_src_id s src = Ok pc1 ->
    handle_congruence pc1 s = Ok (x, s') -> Jm E s' /\ ext s s'.
  Proof.
    intros E src pc1 s x s' [(I3 & M & K) Hh Hu Hs Hy Hsrc Hp] P H.
    destruct (inv3_handle_congruence _ _ _ _ _ I3 P H) as [I3' X]. split; [|exact X]. constructor.
    - split; [exact I3'|]. split; [exact (proj1 (h_handle_congruence _ _ _ _ H M))|].
      exact (kids_ok_handle_congruence _ _ _ _ _ I3 K P H).
    - exact (hce_handle_congruence _ _ _ _ _ H Hh).
    - exact (uc_handle_congruence _ _ _ _ Hu H).
    - exact (pS_handle_congruence _ _ _ _ H Hs).
    - exact (syn_wf_ext _ _ X Hy).
    - exact (src_ok_handle_congruence _ _ _ _ Hsrc H).
    - exact (pend_ok_handle_congruence _ _ _ _ Hu Hp H).
  Qed.

  Lemma Jm_determine_self_symmetries : forall E src s x s', Jm E s -> determine_self_symmetries src s = Ok (x, s') ->
    Jm E s' /\ ext s s'.
  Proof.
    intros E src s x s' [(I3 & M & K) Hh Hu Hs Hy Hsrc Hp] H.
    destruct (inv3_determine_self_symmetries _ _ _ _ H I3) as [I3' X]. split; [|exact X]. constructor.
    - split; [exact I3'|]. split; [exact (proj1 (h_determine_self_symmetries _ _ _ _ H M))|].
      exact (kids_ok_determine_self_symmetries _ _ _ _ I3 K H).
    - exact (hce_determine_self_symmetries _ _ _ _ _ H Hh).
    - exact (uc_determine_self_symmetries _ _ _ _ Hu H).
    - exact (pS_determine_self_symmetries _ _ _ _ H Hs).
    - exact (syn_wf_ext _ _ X Hy).
    - exact (src_ok_determine_self_symmetries _ _ _ _ Hsrc H).
    - exact (pend_ok_determine_self_symmetries _ _ _ _ Hu Hp H).
  Qed.

  Lemma h_hp_loop_tt : forall fuel src enode i, pres4 (hp_loop fuel src enode i).
  Proof.
    induction fuel as [|f IH]; intros src enode i; cbn [hp_loop]; [apply h_fail|].
    hif; [hdone|]. eapply h_bind; [apply h_handle_shrink|intros ? _]. hsk. hsk. apply IH.
  Qed.

  Lemma Jm_hp_loop : forall E fuel src enode i s r s', Jm E s -> lcanon s i -> (exists n0, find_enode s n0 = Ok enode) ->
    Forall (covers s) (app_occ enode) -> hp_loop fuel src enode i s = Ok (r, s') ->
    Jm E s' /\ ext s s' /\ lcanon s' (snd r) /\ (exists n0, find_enode s' n0 = Ok (fst r)) /\
    sset_subset (values (am (snd r))) (slots (fst r)) = true /\ Forall (covers s') (app_occ (fst r)).
  Proof.
    intros E fuel src enode i s r s' [(I3 & M & K) Hh Hu Hs Hy Hsrc Hp] L F Cv H.
    destruct (inv3_hp_loop _ _ _ _ _ _ _ I3 L F H) as (I3' & X & L' & F' & Sub).
    destruct (kids_hp_loop _ _ _ _ _ _ _ I3 K Cv H) as [K' Cv'].
    split; [|auto 6]. constructor.
    - split; [exact I3'|]. split; [exact (proj1 (h_hp_loop_tt _ _ _ _ _ _ _ H M))|exact K'].
    - exact (hce_hp_loop _ _ _ _ _ _ _ _ H Hh).
    - exact (uc_hp_loop _ _ _ _ _ _ _ Hu H).
    - exact (pS_hp_loop _ _ _ _ _ _ _ H Hs).
    - exact (syn_wf_ext _ _ X Hy).
    - exact (src_ok_hp_loop _ _ _ _ _ _ _ Hsrc H).
    - exact (pend_ok_hp_loop _ _ _ _ _ _ _ Hu Hp H).
  Qed.


  (* ------------------------------------------------------------------ *)
  (* 2. the invocations handed to uint after pc_congruence cover (extracted from AddCoversFacts.inv3_pcc_uint) *)

  Lemma pcc_covers : forall s0 s i pc1 pc2 ab s1, inv3 s0 -> ext s0 s -> inv3 s ->
    pc_from_src_id s0 i = Ok pc1 -> lcanon s0 (snd pc2) ->
    pc_congruence pc1 pc2 s = Ok (ab, s1) -> covers s1 (fst ab) /\ covers s1 (snd ab).
  Proof.
    intros s0 s i pc1 pc2 ab s1 [[Hs0 Hb0] _] E0 I3 P1 L2 H.
    destruct (pc_props s0 i pc1 Hs0 P1) as (L1 & c & Hc & Oc).
    destruct (canon_wf_inj _ _ (proj2 L2)) as [W2 I2].
    destruct (pcc_injective s pc1 pc2 ab s1) as (F1 & F2 & F3 & F4); try assumption.
    { intros x Hx. assert (x < ectr s0) by (apply (Hb0 i c x Hc); apply Oc; apply pub_occ_all_occ; assumption).
      destruct E0 as (L & _). lia. }
    destruct (semn_step3 _ _ (s_pc_congruence _ _ _ _ _ H) (n_pc_congruence _ _ _ _ _ H) I3) as [Hs1 E1].
    pose proof (ext_trans _ _ _ E0 E1) as E01.
    split.
    - rewrite F1. apply (covers_ext s0 s1); [assumption|]. apply canon_covers. apply L1.
    - pose proof (canon_covers _ _ (proj2 L2)) as C. apply (covers_ext s0 s1 _ E01) in C.
      destruct C as (c2 & Hc2 & _ & Sk). exists c2. rewrite F2. split; [assumption|]. split; [assumption|].
      intros k Hk. apply F4. apply Sk. assumption.
  Qed.

  (* pc_congruence then uint: no non-fuel error, and the light bundle is kept *)
  Lemma nfK_pcc_uint : forall E s0 s i pc1 pc2, kinv s0 -> ext s0 s -> kinv s -> hce E s ->
    pc_from_src_id s0 i = Ok pc1 -> lcanon s0 (snd pc2) ->
    nf (dom ab <- pc_congruence pc1 pc2; dom _ <- uint (fst ab) (snd ab); ret tt) s.
  Proof.
    intros E s0 s i pc1 pc2 K0 X0 Ks Hh P1 L2.
    apply nf_bind; [apply nf_pc_congruence|]. intros ab s1 H1.
    destruct (pcc_covers s0 s i pc1 pc2 ab s1 (kinv_inv3 _ K0) X0 (kinv_inv3 _ Ks) P1 L2 H1) as [C1 C2].
    destruct (kinv_pc_congruence _ _ _ _ _ Ks H1) as (K1' & _ & _).
    apply nf_bind; [|intros; apply nf_ret].
    exact (nf_uint E _ _ s1 K1' (hce_pc_congruence _ _ _ _ _ _ H1 Hh) C1 C2).
  Qed.

  Lemma K_pcc_uint : forall E s0 s i pc1 pc2 u s', kinv s0 -> ext s0 s -> kinv s -> hce E s ->
    pc_from_src_id s0 i = Ok pc1 -> lcanon s0 (snd pc2) ->
    (dom ab <- pc_congruence pc1 pc2; dom _ <- uint (fst ab) (snd ab); ret tt) s = Ok (u, s') ->
    kinv s' /\ hce E s' /\ ext s s'.
  Proof.
    intros E s0 s i pc1 pc2 u s' K0 X0 Ks Hh P1 L2 H.
    apply mbind_inv in H. destruct H as (ab & s1 & H1 & H).
    apply mbind_inv in H. destruct H as (b & s2 & H2 & H). inversion H; subst u s2; clear H.
    destruct (pcc_covers s0 s i pc1 pc2 ab s1 (kinv_inv3 _ K0) X0 (kinv_inv3 _ Ks) P1 L2 H1) as [C1 C2].
    destruct (kinv_pc_congruence _ _ _ _ _ Ks H1) as (K1' & X1 & _).
    destruct K1' as (I3 & M & K).
    destruct (inv3_uint _ _ _ _ _ I3 C1 C2 H2) as [I3' X2].
    split; [split; [exact I3'|split; [exact (proj1 (h_uint _ _ _ _ _ H2 M))|exact (kids_ok_uint _ _ _ _ _ I3 K C1 C2 H2)]]|].
    split; [exact (hce_uint _ _ _ _ _ _ H2 (hce_pc_congruence _ _ _ _ _ _ H1 Hh))|]. eapply ext_trans; eauto.
  Qed.

  Lemma pc_ids_lc : forall s i pc, kinv s -> pc_from_src_id s i = Ok pc ->
    forall j, In j (node_ids (fst pc)) -> (N.to_nat j < lc s)%nat.
  Proof.
    intros s i pc Hk P j Hj. rewrite <- (kinv_wf s Hk). exact (pc_from_src_ids_lt s i pc (kinv_uf_ok s Hk) P j Hj).
  Qed.

  (* ------------------------------------------------------------------ *)
  (* 3. handle_congruence *)

  Lemma nfK_handle_congruence : forall E pc1 src s, kinv s -> hce E s -> syn_wf s -> src_ok s -> pc_from_src_id s src = Ok pc1 ->
    (forall t1, shape s (fst pc1) = Ok t1 -> na_get (hashcons s) (fst t1) <> None) -> nf (handle_congruence pc1) s.
  Proof.
    intros E pc1 src s Hk Hh Hy Hsrc P HC. unfold handle_congruence.
    apply nf_bind_reads; [apply tot_nfr, shape_tot; [exact Hk|exact (pc_ids_lc s src pc1 Hk P)]|]. intros t1 Ht1.
    pose proof (HC t1 Ht1) as Hit.
    assert (T : forall pc2, pc_from_shape s (fst t1) = Ok pc2 -> lcanon s (snd pc2)).
    { intros pc2 P2. unfold pc_from_shape in P2. destruct (na_get (hashcons s) (fst t1)) as [i2|]; [|discriminate].
      destruct (get_class s i2) as [c2|]; cbn [bind] in P2; [|discriminate].
      destruct (na_get (c_nodes c2) (fst t1)) as [[bj src2]|]; [|discriminate].
      exact (proj1 (pc_props s src2 pc2 (kinv_eg_inv s Hk) P2)). }
    apply nf_bind_reads.
    { unfold pc_from_shape. destruct (na_get (hashcons s) (fst t1)) as [i2|] eqn:G; [|congruence].
      destruct (tb_fwd s (proj1 Hh) _ _ G) as (p & Sp). unfold stored, cnodes in Sp.
      destruct (get_class s i2) as [c2|] eqn:Hc2; [|discriminate Sp]. cbn [bind]. rewrite Sp. destruct p as [bj src2].
      apply tot_nfr, pc_from_src_id_tot; [exact Hk|exact Hy|].
      exact (Hsrc i2 c2 (fst t1) bj src2 Hc2 (na_get_in _ _ _ Sp)). }
    intros pc2 P2.
    exact (nfK_pcc_uint E s s src pc1 pc2 Hk (ext_refl s) Hk Hh P (T pc2 P2)).
  Qed.

  (* ------------------------------------------------------------------ *)
  (* 4. determine_self_symmetries *)

  Lemma nfK_determine_self_symmetries : forall E src s, kinv s -> hce E s -> syn_wf s -> (N.to_nat src < lc s)%nat ->
    nf (determine_self_symmetries src) s.
  Proof.
    intros E src s Hk Hh Hy Ls. unfold determine_self_symmetries.
    apply nf_bind_reads; [apply tot_nfr, pc_from_src_id_tot; assumption|]. intros pc1 P1.
    apply nf_bind_lift; [apply tot_nfr, wshape_tot|]. intros w _. cbv zeta.
    apply nf_bind_reads; [apply tot_nfr, variants_tot; [exact Hk|exact (pc_ids_lc s src pc1 Hk P1)]|]. intros vs _.
    pose proof (proj1 (pc_props s src pc1 (kinv_eg_inv s Hk) P1)) as L1.
    apply (nf_iterM_inv _ _ (fun s0 => kinv s0 /\ hce E s0 /\ ext s s0)).
    - split; [exact Hk|]. split; [exact Hh|apply ext_refl].
    - intros pn2 s0 _ (K0 & H0 & X0).
      apply nf_bind_lift; [apply tot_nfr, wshape_tot|]. intros w2 _.
      destruct (node_eqb (fst w) (fst w2)); [|apply nf_ret].
      exact (nfK_pcc_uint E s s0 src pc1 (pn2, snd pc1) Hk X0 K0 H0 P1 L1).
    - intros pn2 s0 u s1 _ (K0 & H0 & X0) H.
      apply mbind_inv in H. destruct H as (w2 & s9 & Hw2 & H). apply lift_inv in Hw2. destruct Hw2 as [_ ->].
      destruct (node_eqb (fst w) (fst w2)).
      + destruct (K_pcc_uint E s s0 src pc1 (pn2, snd pc1) u s1 Hk X0 K0 H0 P1 L1 H) as (K1' & H1' & X1).
        split; [exact K1'|]. split; [exact H1'|eapply ext_trans; eauto].
      + inversion H; subst. auto.
  Qed.

End Interface.

Check nfK_handle_congruence.
Check nfK_determine_self_symmetries.
Print Assumptions Jm_uint.
Print Assumptions Jm_hp_loop.
Print Assumptions nfK_handle_congruence.
Print Assumptions nfK_determine_self_symmetries.
