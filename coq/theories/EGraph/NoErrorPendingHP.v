(* EGraph/NoErrorPendingHP.v — ERROR-FREEDOM of Model.handle_pending (one element of the worklist), walking the
   function step by step.  Interface hypotheses (proved in sibling files): nfK_hp_loop, nfK_handle_congruence,
   nf_hp_none.  The key site (pc_from_shape inside handle_congruence) is the premise HC_hit of NoErrorBase.v. *)
From SE Require Import Slots.SlotMapFacts Group.GroupSound Lang.LangFacts Lang.ShapeFacts
  EGraph.Model EGraph.ModelFacts EGraph.ModelMachine EGraph.UnionFindFacts EGraph.InvariantFacts
  EGraph.UnionInvariantFacts EGraph.AddCoversFacts EGraph.Mod4Facts EGraph.MatchDefs EGraph.HashconsFacts
  EGraph.KidsFacts EGraph.SoundFacts EGraph.SoundSyn EGraph.SoundUnion EGraph.SoundStruct EGraph.UsesConvDef EGraph.SoundClosed
  EGraph.UsesConv EGraph.PendingFacts EGraph.NoErrorBase EGraph.NoErrorShape EGraph.NoErrorInv.
Require Import ZArith Lia List.
Import ListNotations.

Local Notation ectr := Model.ctr.

(* ------------------------------------------------------------------ *)
(* helper (closed): raw_remove_from_class on a stored entry *)

Lemma nfHP_usages_iter : forall (F : eclass -> list node) l s, (forall r, In r l -> (N.to_nat r < lc s)%nat) ->
  nf (iterM (fun r => upd_class r (fun c => with_usages c (F c))) l) s.
Proof.
  intros F l s Hl. apply (nf_iterM_inv _ _ (fun s0 => lc s0 = lc s)); [reflexivity| |].
  - intros r s0 Hr E. apply nf_upd_class. rewrite E. apply Hl. exact Hr.
  - intros r s0 u s1 _ E H. destruct (upd_class_lc _ _ _ _ _ H) as [A _]. congruence.
Qed.

Lemma nfHP_raw_remove : forall id sh s c p, get_class s id = Ok c -> na_get (c_nodes c) sh = Some p ->
  (forall j, In j (node_ids sh) -> (N.to_nat j < lc s)%nat) -> nf (raw_remove_from_class id sh) s.
Proof.
  intros id sh s c p Hc Hg Hl. unfold raw_remove_from_class.
  pose proof (get_class_lt _ _ _ Hc) as L.
  apply nf_bind_reads; [rewrite Hc; apply nfr_ok|]. intros c0 Hc0. cbv zeta.
  rewrite Hc in Hc0. inversion Hc0; subst c0; clear Hc0.
  apply nf_bind; [apply nf_upd_class; exact L|]. intros u1 s1 H1. destruct (upd_class_lc _ _ _ _ _ H1) as [E1 _].
  apply nf_bind; [apply nf_modify|]. intros u2 s2 H2. inversion H2; subst u2 s2; clear H2.
  apply nf_bind.
  { apply (nfHP_usages_iter (fun c => ns_remove (c_usages c) sh)). intros r Hr. cbn [classes set_hashcons]. rewrite E1. apply Hl. exact Hr. }
  intros u3 s3 _. rewrite Hg. apply nf_ret.
Qed.

(* ------------------------------------------------------------------ *)
Section Interface.
  Hypothesis nfK_hp_loop : forall E fuel src enode i s, kinv s -> hce E s -> syn_wf s -> (N.to_nat src < lc s)%nat -> lcanon s i -> Forall (covers s) (app_occ enode) -> nf (hp_loop fuel src enode i) s.
  Hypothesis nfK_handle_congruence : forall E pc1 src s, kinv s -> hce E s -> syn_wf s -> src_ok s -> pc_from_src_id s src = Ok pc1 ->
      (forall t1, shape s (fst pc1) = Ok t1 -> na_get (hashcons s) (fst t1) <> None) -> nf (handle_congruence pc1) s.
  Hypothesis nf_hp_none : forall sB n0 enode i1 src sh' bij,
      kinv sB -> hce noex sB -> syn_wf sB -> (N.to_nat src < lc sB)%nat ->
      lcanon sB i1 -> find_enode sB n0 = Ok enode -> Forall (covers sB) (app_occ enode) ->
      sset_subset (values (am i1)) (slots enode) = true -> K1 (am i1) ->
      shape sB enode = Ok (sh', bij) -> lookup_internal sB (sh', bij) = Ok None ->
      nf (dom m <- fill_fresh (values bij) (inverse_nocheck (am i1));
          dom _ <- raw_add_to_class (aid i1) (sh', compose_partial bij m) src;
          determine_self_symmetries src) sB.

  Theorem nf_handle_pending : HC_hit -> forall sh ty s, Jm (fun y => y = sh /\ ty = true) s -> Kx s -> na_get (pending s) sh = None ->
    (exists i, na_get (hashcons s) sh = Some i) -> nf (handle_pending sh ty) s.
  Proof.
    intros HCH sh ty s J KX Pn [i Hi]. unfold handle_pending.
    (* 1 *)
    apply nf_bind_reads; [rewrite Hi; apply nfr_ok|]. intros i' Hi'. rewrite Hi in Hi'. inversion Hi'; subst i'; clear Hi'.
    (* 2 *)
    destruct ty; cbn [negb]; [|apply nf_ret].
    pose proof (jm_kinv _ _ J) as Kv. pose proof (jm_hce _ _ J) as Hs.
    pose proof Kv as (I3 & M & K).
    (* the weakened bundle for HC_hit *)
    assert (Hs1 : hce (fun y => y = sh) s).
    { eapply hce_weaken; [|exact Hs]. intros y [-> _]. reflexivity. }
    assert (J1 : Jm (fun y => y = sh) s).
    { constructor; [exact Kv|exact Hs1|exact (jm_uc _ _ J)|exact (jm_st2 _ _ J)|exact (jm_syn _ _ J)
                   |exact (jm_src _ _ J)|exact (jm_pend _ _ J)]. }
    (* 3 *)
    destruct (tb_fwd s (proj1 Hs) sh i Hi) as [[bij0 src] St].
    unfold stored, cnodes in St. destruct (get_class s i) as [c|e0] eqn:Hc; [|cbn [na_get] in St; discriminate].
    apply nf_bind_reads; [rewrite Hc; apply nfr_ok|]. intros c0 Hc0. rewrite Hc in Hc0. inversion Hc0; subst c0; clear Hc0.
    apply nf_bind_lift; [rewrite St; apply nfr_ok|]. intros [bij0' src'] Hp. rewrite St in Hp.
    inversion Hp; subst bij0' src'; clear Hp.
    pose proof (na_get_in _ _ _ St) as Hin.
    (* 4 *)
    apply nf_bind_lift; [apply tot_nfr; exact (stored_apply_tot s i c sh bij0 src (jm_st2 _ _ J) Hc Hin)|]. intros nd Hnd.
    assert (Knd : Forall (kid_ok s) (app_occ nd)).
    { eapply kids_apply; [exact (K _ _ _ Hc Hin)| | |exact Hnd].
      - exact (proj1 (proj2 (proj2 I3 _ _ _ Hc Hin))).
      - intros k v G. exact (m4_bij4 _ M _ _ _ _ _ _ _ Hc Hin G). }
    assert (Lsh : forall j, In j (node_ids sh) -> (N.to_nat j < lc s)%nat).
    { apply ids_of_covers. pose proof (K _ _ _ Hc Hin) as [_ F]. cbn [fst] in F.
      revert F. apply Forall_impl. intros a [Ca _]. exact Ca. }
    pose proof (jm_src _ _ J _ _ _ _ _ Hc Hin) as Lsrc.
    (* 5 *)
    apply nf_bind; [exact (nfHP_raw_remove i sh s c (bij0, src) Hc St Lsh)|]. intros u1 sA HA.
    (* 6 *)
    assert (IA : inv3 sA /\ ext s sA).
    { destruct I3 as [Hs2 HN]. destruct (semR_step2 _ _ (s_raw_remove _ _ _ _ _ HA) Hs2) as [HsA EA].
      split; [|exact EA]. split; [exact HsA|eapply nodes_raw_remove; eauto]. }
    destruct IA as [IA EA].
    pose proof (proj1 (h_raw_remove _ _ _ _ _ HA M)) as MA.
    assert (KA : kids_ok sA) by (eapply kids_ok_frame; [eapply ssub_raw_remove; exact HA|exact EA|exact K]).
    assert (KvA : kinv sA) by (split; [exact IA|split; [exact MA|exact KA]]).
    destruct (hce_raw_remove noex i sh s _ sA HA) as (HA' & _ & _).
    { eapply hce_weaken; [|exact Hs]. intros y [-> _]. right. reflexivity. }
    pose proof (syn_wf_ext _ _ EA (jm_syn _ _ J)) as SyA.
    pose proof (src_ok_raw_remove _ _ _ _ _ (jm_src _ _ J) HA) as SrA.
    pose proof EA as (_ & LcA & _).
    pose proof (get_class_lt _ _ _ Hc) as Li.
    (* 7 *)
    apply nf_bind_reads.
    { unfold class_slots. destruct (get_class_tot sA i) as [cA0 HcA0]; [rewrite LcA; exact Li|]. rewrite HcA0. cbn [bind]. apply nfr_ok. }
    intros sl Hsl. cbv zeta.
    unfold class_slots in Hsl. destruct (get_class sA i) as [cA|] eqn:HcA; cbn [bind] in Hsl; [|discriminate].
    inversion Hsl; subst sl; clear Hsl.
    pose proof (kinv_wf _ KvA) as WfA. unfold eg_wf in WfA.
    apply nf_bind_reads.
    { apply tot_nfr, find_enode_tot; [exact (kinv_uf_ok _ KvA)|]. intros j Hj.
      rewrite (apply_slotmap_ids _ _ _ Hnd) in Hj. rewrite WfA, LcA. apply Lsh. exact Hj. }
    intros enode0 Hen.
    apply nf_bind_reads.
    { apply tot_nfr, find_applied_id_tot; [exact (kinv_uf_ok _ KvA)|]. cbn [aid]. rewrite WfA, LcA. exact Li. }
    intros i0 Hi0.
    pose proof (covers_lcanon sA _ i0 (proj1 (proj1 IA)) (covers_identity sA i cA HcA) Hi0) as L0.
    assert (C0 : Forall (covers sA) (app_occ enode0)).
    { eapply find_enode_covers; [exact (proj1 (proj1 IA))| |exact Hen].
      revert Knd. apply Forall_impl. intros a [Ca _]. eapply covers_ext; eauto. }
    assert (LsrcA : (N.to_nat src < lc sA)%nat) by (rewrite LcA; exact Lsrc).
    (* 8 *)
    apply nf_bind; [exact (nfK_hp_loop noex 100%nat src enode0 i0 sA KvA HA' SyA LsrcA L0 C0)|].
    intros [enode i1] sB HB.
    (* 9 *)
    destruct (inv3_hp_loop _ _ _ _ _ _ _ IA L0 (ex_intro _ nd Hen) HB) as (IB & EB & L1 & (n0 & Fn) & Sub). cbn [fst snd] in *.
    destruct (kids_hp_loop _ _ _ _ _ _ _ IA KA C0 HB) as [KB CB]. cbn [fst] in CB.
    destruct (h_hp_loop _ _ _ _ (find_K1 _ _ _ MA Hi0) _ _ _ HB MA) as [MB Hk1]. cbn [snd] in Hk1.
    pose proof (hce_hp_loop _ _ _ _ _ _ _ _ HB HA') as HB'.
    pose proof (syn_wf_ext _ _ EB SyA) as SyB.
    pose proof (src_ok_hp_loop _ _ _ _ _ _ _ SrA HB) as SrB.
    assert (KvB : kinv sB) by (split; [exact IB|split; [exact MB|exact KB]]).
    pose proof EB as (_ & LcB & _).
    assert (LsrcB : (N.to_nat src < lc sB)%nat) by (rewrite LcB; exact LsrcA).
    cbv beta iota zeta.
    (* 10 *)
    apply nf_bind_reads; [apply tot_nfr, shape_tot; [exact KvB|exact (ids_of_covers _ _ CB)]|]. intros t Ht.
    apply nf_bind_reads; [apply tot_nfr; exact (lookup_internal_tot noex sB t HB')|]. intros lk Hlk.
    destruct lk as [x|].
    - (* 11 *)
      apply nf_bind_reads; [apply tot_nfr; exact (pc_from_src_id_tot sB src KvB SyB LsrcB)|]. intros pc1 Hpc.
      apply (nfK_handle_congruence noex pc1 src sB KvB HB' SyB SrB Hpc).
      intros t1 Ht1.
      exact (HCH s sh i c bij0 src nd u1 sA cA enode0 i0 enode i1 sB t x pc1 t1
               J1 KX Pn Hi Hc St Hnd HA HcA Hen Hi0 HB Ht Hlk Hpc Ht1).
    - (* 12 *)
      destruct t as [sh' bij]. cbv beta iota zeta.
      exact (nf_hp_none sB n0 enode i1 src sh' bij KvB HB' SyB LsrcB L1 Fn CB Sub Hk1 Ht Hlk).
  Qed.
End Interface.

Check nf_handle_pending.
Print Assumptions nfHP_raw_remove.
Print Assumptions nf_handle_pending.
