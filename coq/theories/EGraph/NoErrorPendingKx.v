(* EGraph/NoErrorPendingKx.v — Ok-direction preservation of the run invariants
   `Kx s := mod4_ok s /\ SC2 s /\ KC2 s` (NoErrorBase.v, section 4) by handle_pending, by the pop of the worklist,
   by rebuild and by the union core `uint`.  Threading exactly as in SoundRebuild.Sound_rebuild, with the closed
   instance SoundClosed.xinv_closed of the record xinv_ok. *)
From SE Require Import Slots.SlotMapFacts Group.GroupSound Lang.LangFacts Lang.ShapeFacts
  EGraph.Model EGraph.ModelFacts EGraph.ModelMachine EGraph.UnionFindFacts EGraph.InvariantFacts
  EGraph.UnionInvariantFacts EGraph.AddCoversFacts EGraph.Mod4Facts EGraph.MatchDefs EGraph.HashconsFacts
  EGraph.KidsFacts EGraph.SoundFacts EGraph.SoundSyn EGraph.SoundUnion EGraph.SoundStruct EGraph.UsesConvDef EGraph.SoundClosed
  EGraph.UsesConv EGraph.PendingFacts EGraph.SoundBase EGraph.SoundPending EGraph.SoundRebuild EGraph.NoErrorBase.
Require Import ZArith Lia List.
Import ListNotations.

Local Notation XI := SoundClosed.xinv_closed.

Lemma Jm_inv3 : forall E s, Jm E s -> inv3 s.
Proof. intros E s J. exact (kinv_inv3 s (jm_kinv E s J)). Qed.

(* ------------------------------------------------------------------ *)
(* handle_pending *)

Lemma Kx_handle_pending : forall sh ty s x s',
  Jm (fun y => y = sh /\ ty = true) s -> Kx s -> handle_pending sh ty s = Ok (x, s') -> Kx s'.
Proof.
  intros sh ty s x s' J (M & Sc & Kc) H.
  pose proof (Jm_inv3 _ _ J) as I3. pose proof (jm_syn _ _ J) as W.
  destruct (inv3_handle_pending pre_shape_keeps_proved _ _ _ _ _ H I3) as [I3' E].
  split; [exact (m4_handle_pending _ _ _ _ _ M H)|]. split.
  - exact (xi_SC_ext _ _ XI _ _ E Sc).
  - exact (xi_KC_hp _ _ XI _ _ _ _ _ I3 W M Sc Kc H).
Qed.

(* ------------------------------------------------------------------ *)
(* the pop of the worklist *)

Lemma set_pending_ext : forall s rest, inv3 s -> inv3 (set_pending s rest) /\ ext s (set_pending s rest).
Proof.
  intros s rest I3.
  assert (H : modify (fun s0 => set_pending s0 ((fun _ => rest) s0)) s = Ok (tt, set_pending s rest)) by reflexivity.
  destruct (s_modify_pend' (fun _ => rest) _ _ _ H) as [A1 N1].
  exact (semn_step3 _ _ A1 N1 I3).
Qed.

Lemma Kx_pop : forall s sh ty rest, Jm noex s -> Kx s -> pending s = (sh, ty) :: rest -> Kx (set_pending s rest).
Proof.
  intros s sh ty rest J (M & Sc & Kc) _.
  destruct (set_pending_ext s rest (Jm_inv3 _ _ J)) as [_ E].
  split; [exact (m4_set_pending _ _ M)|]. split.
  - exact (xi_SC_ext _ _ XI _ _ E Sc).
  - apply (xi_KC_cuR _ _ XI s); [split; reflexivity|exact Kc].
Qed.

(* ------------------------------------------------------------------ *)
(* the union core *)

Lemma Kx_uint : forall E l r s b s', Jm E s -> Kx s -> covers s l -> covers s r -> uint l r s = Ok (b, s') -> Kx s'.
Proof.
  intros E l r s b s' J (M & Sc & Kc) Cl Cr H.
  pose proof (Jm_inv3 _ _ J) as I3. pose proof (jm_syn _ _ J) as W.
  destruct (inv3_uint _ _ _ _ _ I3 Cl Cr H) as [I3' Ex].
  split; [exact (m4_uint _ _ _ _ _ M H)|]. split.
  - exact (xi_SC_ext _ _ XI _ _ Ex Sc).
  - exact (xi_KC_uint _ _ XI _ _ _ _ _ I3 W M Cl Cr Sc Kc H).
Qed.

(* ------------------------------------------------------------------ *)
(* rebuild *)

Section Rebuild.
  (* proved elsewhere (parent file): the bundle Jm along the pop and along handle_pending *)
  Hypothesis Jm_pop : forall s sh ty rest, Jm noex s -> pending s = (sh, ty) :: rest ->
    Jm (fun y => y = sh /\ ty = true) (set_pending s rest) /\ na_get rest sh = None.
  Hypothesis Jm_handle_pending : forall sh ty s x s', Jm (fun y => y = sh /\ ty = true) s ->
    na_get (pending s) sh = None -> handle_pending sh ty s = Ok (x, s') -> Jm noex s' /\ ext s s'.

  Lemma Kx_rebuild : forall fuel s x s', Jm noex s -> Kx s -> rebuild fuel s = Ok (x, s') -> Kx s'.
  Proof.
    induction fuel as [|f IH]; intros s x s' J K H; [discriminate H|].
    rewrite rebuild_step in H.
    apply mbind_inv in H. destruct H as (p & s0 & Hp & H). inversion Hp; subst p s0; clear Hp.
    destruct (pending s) as [|[sh ty] rest] eqn:Ep; [inversion H; subst; exact K|].
    apply mbind_inv in H. destruct H as (u & s1 & H1 & H).
    assert (Es1 : s1 = set_pending s rest) by (inversion H1; reflexivity). subst s1. clear H1.
    destruct (Jm_pop _ _ _ _ J Ep) as [J1 Nn].
    pose proof (Kx_pop _ _ _ _ J K Ep) as K1.
    apply mbind_inv in H. destruct H as (u2 & s2 & H2 & H).
    assert (Nn1 : na_get (pending (set_pending s rest)) sh = None) by exact Nn.
    destruct (Jm_handle_pending _ _ _ _ _ J1 Nn1 H2) as [J2 _].
    pose proof (Kx_handle_pending _ _ _ _ _ J1 K1 H2) as K2.
    exact (IH _ _ _ J2 K2 H).
  Qed.
End Rebuild.

Check Kx_handle_pending.
Check Kx_pop.
Check Kx_rebuild.
Check Kx_uint.
Print Assumptions Kx_handle_pending.
Print Assumptions Kx_pop.
Print Assumptions Kx_rebuild.
Print Assumptions Kx_uint.
