(* EGraph/NoErrorPendingNB.v — ERROR-FREEDOM, the "None branch" of Model.handle_pending:
   after the lookup of the re-canonicalised shape misses the hashcons, the three remaining steps
   (fill_fresh, raw_add_to_class, determine_self_symmetries) give no non-fuel error.
   The only interface hypothesis is `nfK_determine_self_symmetries` (proved by a sibling file). *)
From SE Require Import Slots.SlotMapFacts Group.GroupSound Lang.LangFacts Lang.ShapeFacts
  EGraph.Model EGraph.ModelFacts EGraph.ModelMachine EGraph.UnionFindFacts EGraph.InvariantFacts
  EGraph.UnionInvariantFacts EGraph.AddCoversFacts EGraph.Mod4Facts EGraph.MatchDefs EGraph.HashconsFacts
  EGraph.KidsFacts EGraph.SoundFacts EGraph.SoundSyn EGraph.SoundUnion EGraph.SoundStruct EGraph.UsesConvDef EGraph.SoundClosed
  EGraph.NoErrorBase EGraph.PendingFacts EGraph.NoErrorShape.
Require Import ZArith Lia List.
Import ListNotations.

Local Notation ectr := Model.ctr.
Local Notation "a ** b" := (compose_partial a b) (at level 40, left associativity).
Local Notation inv := inverse_nocheck.

(* ------------------------------------------------------------------ *)
(* helpers (closed) *)

(* nf_fill_fresh : forall l m s, nf (fill_fresh l m) s   comes from EGraph/NoErrorShape.v *)

Lemma nfNB_raw_add : forall id sh bij src s, (N.to_nat id < lc s)%nat ->
  (forall j, In j (node_ids sh) -> (N.to_nat j < lc s)%nat) ->
  nf (raw_add_to_class id (sh, bij) src) s.
Proof.
  intros id sh bij src s Hid Hj. unfold raw_add_to_class.
  apply nf_bind; [apply nf_upd_class; exact Hid|]. intros u1 s1 H1.
  destruct (upd_class_lc _ _ _ _ _ H1) as [L1 _].
  apply nf_bind; [apply nf_modify|]. intros u2 s2 H2.
  assert (L2 : lc s2 = lc s).
  { unfold modify in H2. inversion H2; subst u2 s2. cbn [classes set_hashcons]. exact L1. }
  apply (nf_iterM_inv _ _ (fun s0 => lc s0 = lc s)).
  - exact L2.
  - intros x s0 Hx L0. apply nf_upd_class. rewrite L0. apply Hj. exact Hx.
  - intros x s0 u s3 _ L0 H3. destruct (upd_class_lc _ _ _ _ _ H3) as [L3 _]. congruence.
Qed.

Lemma raw_add_lc_nb : forall id sh bij src s u s', raw_add_to_class id (sh, bij) src s = Ok (u, s') -> lc s' = lc s.
Proof.
  intros id sh bij src s u s' H. unfold raw_add_to_class in H.
  apply mbind_inv in H. destruct H as (u1 & s1 & H1 & H). destruct (upd_class_lc _ _ _ _ _ H1) as [L1 _].
  apply mbind_inv in H. destruct H as (u2 & s2 & H2 & H).
  assert (L2 : lc s2 = lc s).
  { unfold modify in H2. inversion H2; subst u2 s2. cbn [classes set_hashcons]. exact L1. }
  apply (iterM_inv_post _ _ (fun s0 => lc s0 = lc s)) in H; [exact H|exact L2|].
  intros x s0 u0 s3 _ L0 H3. destruct (upd_class_lc _ _ _ _ _ H3) as [L3 _]. congruence.
Qed.

(* ------------------------------------------------------------------ *)
Section Interface.
  Hypothesis nfK_determine_self_symmetries : forall E src s, kinv s -> hce E s -> syn_wf s ->
    (N.to_nat src < lc s)%nat -> nf (determine_self_symmetries src) s.

  Lemma nf_hp_none : forall sB n0 enode i1 src sh' bij,
    kinv sB -> hce noex sB -> syn_wf sB -> (N.to_nat src < lc sB)%nat ->
    lcanon sB i1 -> find_enode sB n0 = Ok enode -> Forall (covers sB) (app_occ enode) ->
    sset_subset (values (am i1)) (slots enode) = true -> K1 (am i1) ->
    shape sB enode = Ok (sh', bij) -> lookup_internal sB (sh', bij) = Ok None ->
    nf (dom m <- fill_fresh (values bij) (inverse_nocheck (am i1));
        dom _ <- raw_add_to_class (aid i1) (sh', compose_partial bij m) src;
        determine_self_symmetries src) sB.
  Proof.
    intros sB n0 enode i1 src_id sh' bij KB HB' SyB Lsrc L1 Fn CB Sub Hk1 Ht Hlk.
    destruct KB as (IB & MB & KdB).
    pose proof (shape_kentry sB enode sh' bij IB CB Ht) as Ksh.
    pose proof (lookup_none_absent _ _ _ Hlk) as Abs.
    pose proof (covers_lt _ _ (canon_covers _ _ (proj2 L1))) as Lid.
    assert (Lkids : forall j, In j (node_ids sh') -> (N.to_nat j < lc sB)%nat).
    { intros j Hj. unfold node_ids in Hj. apply in_map_iff in Hj. destruct Hj as (a & <- & Ha).
      destruct Ksh as [_ F]. apply covers_lt. exact (proj1 (proj1 (Forall_forall _ _) F a Ha)). }
    apply nf_bind; [apply nf_fill_fresh|]. intros m sC Hm.
    (* ---- the state after fill_fresh ---- *)
    pose proof IB as [[HsB HbB] NB].
    destruct L1 as [Ld1 (cB & HcB & G1 & W1 & B1 & Kk)].
    pose proof (proj1 (is_bijection_injective _ W1) B1) as Inj1.
    pose proof Ht as Ht0.
    unfold shape in Ht. destruct (pre_shape sB enode) as [p|] eqn:Pp; cbn [bind] in Ht; [|discriminate].
    destruct (shape_bij_props _ _ _ Ht) as (Wb & Bb & _). destruct (shape_bij _ _ _ Ht) as (Sb1 & Sb2 & _).
    pose proof (proj1 (is_bijection_injective _ Wb) Bb) as Injb.
    assert (Ws' : is_ws sh') by (exists p, bij; exact Ht).
    pose proof (h_fill_fresh _ _ (V1_inverse _ Hk1) _ _ _ Hm MB) as [MC Vm].
    pose proof (n_fill_fresh _ _ _ _ _ Hm) as NsC.
    pose proof (s_fill_fresh _ _ _ _ _ Hm) as SfC.
    destruct (fill_fresh_spec _ _ _ _ _ (inverse_wf (am i1)) Hm) as (Wm & _ & Keep & (cC & ->)).
    assert (Bnd : forall k v, get (inv (am i1)) k = Some v -> v < ectr sB).
    { intros k v G. apply (get_inverse _ _ _ W1 B1) in G.
      assert (Hv : In v (c_slots cB)) by (rewrite <- Kk; apply keys_spec; congruence).
      destruct (ei_cls sB HsB _ _ HcB) as (_ & _ & Isyn). apply Isyn, slots_spec, pub_occ_all_occ in Hv.
      exact (HbB _ _ _ HcB Hv). }
    destruct (fill_fresh_inj _ _ _ _ _ (inverse_wf (am i1)) (inv_injective _ W1 Inj1) Bnd Hm) as [Injm _].
    assert (IC : inv3 (set_ctr sB cC) /\ ext sB (set_ctr sB cC)).
    { apply (semn_step3 sB (set_ctr sB cC)); [|apply nsame_ctr|exact IB]. exact SfC. }
    destruct IC as [IC EC].
    assert (EO : entry_ok (c_slots cB) (sh', (bij ** m, src_id))).
    { unfold entry_ok. cbn [fst snd]. split; [apply compose_partial_wf|]. split; [apply compose_injective; assumption|]. split.
      - intros k Hk. apply Sb2. rewrite get_compose_partial in Hk by assumption. destruct (get bij k); congruence.
      - intros y Hy. rewrite <- Kk in Hy. apply keys_spec in Hy. destruct (get (am i1) y) as [v|] eqn:Gy; [|congruence].
        assert (Hv : In v (slots enode)).
        { apply mem_in. unfold sset_subset in Sub. apply (proj1 (forallb_forall _ _) Sub). apply values_spec; eauto. }
        apply (pre_shape_keeps_proved sB n0 enode p HsB Fn Pp), slots_spec, Sb1 in Hv. destruct Hv as (k & Gk). exists k.
        rewrite get_compose_partial by assumption. rewrite Gk.
        assert (Gi : get (inv (am i1)) v = Some y) by (apply (get_inverse _ _ _ W1 B1); exact Gy).
        rewrite Keep by congruence. exact Gi. }
    pose proof (hce_ctr_only noex sB (set_ctr sB cC) (ex_intro _ cC eq_refl) HB') as HC'.
    apply nf_bind.
    { apply nfNB_raw_add; cbn [classes set_ctr]; assumption. }
    intros u2 sD HD.
    (* ---- the state after raw_add_to_class ---- *)
    assert (ID : inv3 sD /\ ext (set_ctr sB cC) sD).
    { destruct IC as [Hs2 HN]. destruct (semR_step2 _ _ (s_raw_add _ _ _ _ _ _ HD) Hs2) as [HsD ED].
      split; [|exact ED]. split; [exact HsD|]. eapply nodes_raw_add; [exact HN| |exact EO|exact HD]. exact HcB. }
    destruct ID as [ID ED].
    pose proof (ext_trans _ _ _ EC ED) as EBD.
    pose proof (h_raw_add (aid i1) sh' (bij ** m) src_id (V1_compose bij m Vm) _ _ _ HD MC) as [MD _].
    assert (KdD : kids_ok sD).
    { apply kids_ok_shapes. apply (shapes_in_impl (kentry_ok sB)); [intros sh0; apply kentry_ok_ext; exact EBD|].
      eapply shapes_raw_add; [|exact Ksh|exact HD].
      eapply (nsame_ssub _ _ NsC). exact KdB. }
    destruct (hce_raw_add noex (aid i1) sh' (bij ** m) src_id (set_ctr sB cC) u2 sD Abs Ws' HD HC') as [HD' _].
    eapply nfK_determine_self_symmetries.
    - split; [exact ID|]. split; [exact MD|exact KdD].
    - exact HD'.
    - eapply syn_wf_ext; [exact EBD|exact SyB].
    - destruct EBD as (_ & Llc & _). rewrite Llc. exact Lsrc.
  Qed.
End Interface.

Check nf_hp_none.
Print Assumptions nfNB_raw_add.
Print Assumptions nf_hp_none.
