(* EGraph/NoErrorPendingSH.v — ERROR-FREEDOM (C08): handle_shrink_in_upwards_merge and the hp_loop of handle_pending.

   Inside `Section Interface` (one hypothesis: nf_shrink_slots_uint, the statement of NoErrorUnion.v, verbatim;
   the NoErrorShape.v statements pc_from_src_id_tot / ids_of_covers are used from the compiled file):
   - K_handle_shrink   : kinv / hce / syn_wf / ext through handle_shrink_in_upwards_merge (bundle of existing lemmas)
   - nfK_handle_shrink : no non-fuel error in handle_shrink_in_upwards_merge
   - nfK_hp_loop       : no non-fuel error in hp_loop
   - K_hp_loop         : the invariants and the exit facts of hp_loop (bundle). *)
From SE Require Import Slots.SlotMapFacts Group.GroupSound Lang.LangFacts Lang.ShapeFacts
  EGraph.Model EGraph.ModelFacts EGraph.ModelMachine EGraph.UnionFindFacts EGraph.InvariantFacts
  EGraph.UnionInvariantFacts EGraph.AddCoversFacts EGraph.Mod4Facts EGraph.MatchDefs EGraph.HashconsFacts
  EGraph.KidsFacts EGraph.SoundFacts EGraph.SoundSyn EGraph.SoundUnion EGraph.SoundStruct EGraph.UsesConvDef EGraph.SoundClosed
  EGraph.NoErrorBase EGraph.PendingFacts EGraph.NoErrorShape.
Require Import ZArith Lia List.
Import ListNotations.

Local Notation ectr := Model.ctr.

(* ------------------------------------------------------------------ *)
(* 0. closed auxiliary facts *)

Lemma leader_lt_lu : forall s i, leader s i -> (N.to_nat i < lu s)%nat.
Proof. intros s i (e & He & _). exact (uentry_lt _ _ _ He). Qed.

(* the ids of the node computed by pre_shape are leaders *)
Lemma pre_shape_leaders : forall s n p, uf_ok s -> pre_shape s n = Ok p ->
  forall j, In j (node_ids p) -> leader s j.
Proof.
  intros s n p U H j Hj. unfold pre_shape in H.
  destruct (find_enode s n) as [n1|] eqn:E1; cbn [bind] in H; [|discriminate].
  destruct (variants s n1) as [vs|] eqn:Ev; cbn [bind] in H; [|discriminate].
  destruct (min_variant_in _ _ _ H) as [Hp|(k & Hk)]; [|discriminate].
  rewrite (variants_ids _ _ _ _ Ev Hp) in Hj.
  destruct (find_enode_idem s n n1 U E1) as [_ F].
  unfold node_ids in Hj. apply in_map_iff in Hj. destruct Hj as (a & <- & Ha).
  destruct (F a Ha) as (a0 & Fa). eapply find_is_leader; eauto.
Qed.

Lemma pc_from_src_ids_lt : forall s i pc, uf_ok s -> pc_from_src_id s i = Ok pc ->
  forall j, In j (node_ids (fst pc)) -> (N.to_nat j < lu s)%nat.
Proof.
  intros s i pc U H j Hj. destruct (pc_from_src_spec _ _ _ H) as (c & _ & P & _).
  apply leader_lt_lu. exact (pre_shape_leaders s (c_syn c) (fst pc) U P j Hj).
Qed.

Lemma sset_inter_incl : forall a b x, In x (sset_inter a b) -> In x a.
Proof. intros a b x H. unfold sset_inter in H. apply filter_In in H. exact (proj1 H). Qed.

Lemma sset_inter_values_swf : forall m b, swf (sset_inter (values m) b).
Proof. intros m b. unfold sset_inter. apply swf_filter. unfold values. apply sset_of_list_spec. Qed.

(* kinv / hce through pc_congruence *)
Lemma kinv_pc_congruence : forall a b s ab s', kinv s -> pc_congruence a b s = Ok (ab, s') ->
  kinv s' /\ ext s s' /\ sem_eq s s'.
Proof.
  intros a b s ab s' (I3 & M & K) H.
  pose proof (s_pc_congruence _ _ _ _ _ H) as S1.
  destruct (semn_step3 _ _ S1 (n_pc_congruence _ _ _ _ _ H) I3) as [I3' E].
  split; [|split; [exact E|exact (proj1 S1)]].
  split; [exact I3'|]. split; [exact (proj1 (h_pc_congruence _ _ _ _ _ H M))|].
  eapply kids_ok_frame; [apply nsame_ssub; eapply n_pc_congruence; exact H|exact E|exact K].
Qed.

(* m4 through hp_loop *)
Lemma h_hp_loop : forall fuel src enode i, pres4 (hp_loop fuel src enode i).
Proof.
  induction fuel as [|f IH]; intros src enode i; cbn [hp_loop]; [apply h_fail|].
  hif; [hdone|]. eapply h_bind; [apply h_handle_shrink|intros ? _]. hsk. hsk. apply IH.
Qed.

Section Interface.

  (* NoErrorShape.v is required (pc_from_src_id_tot, ids_of_covers are used from it) *)
  (* NoErrorUnion.v *)
  Hypothesis nf_shrink_slots_uint : forall E from cap s, kinv s -> hce E s -> lcanon s from -> (forall x, In x cap -> In x (values (am from))) -> swf cap ->
                       nf (shrink_slots uint from cap) s.

  (* (1) the invariants through handle_shrink_in_upwards_merge *)
  Theorem K_handle_shrink : forall E src s x s', kinv s -> hce E s -> syn_wf s ->
    handle_shrink_in_upwards_merge src s = Ok (x, s') -> kinv s' /\ hce E s' /\ syn_wf s' /\ ext s s'.
  Proof.
    intros E src s x s' (I3 & M & K) Hh SW H.
    destruct (inv3_handle_shrink _ _ _ _ H I3) as [I3' Ex].
    split; [|split; [|split]].
    - split; [exact I3'|]. split; [exact (proj1 (h_handle_shrink _ _ _ _ H M))|].
      exact (kids_ok_handle_shrink _ _ _ _ I3 K H).
    - eapply hce_handle_shrink; eauto.
    - eapply syn_wf_ext; eauto.
    - exact Ex.
  Qed.

  (* (2) no non-fuel error in handle_shrink_in_upwards_merge *)
  Theorem nfK_handle_shrink : forall E src s, kinv s -> hce E s -> syn_wf s -> (N.to_nat src < lc s)%nat ->
    nf (handle_shrink_in_upwards_merge src) s.
  Proof.
    intros E src s Ks Hh SW L. unfold handle_shrink_in_upwards_merge.
    pose proof (kinv_uf_ok s Ks) as U.
    apply nf_bind_reads; [apply tot_nfr, pc_from_src_id_tot; assumption|]. intros pc1 P1.
    apply nf_bind_reads.
    { apply tot_nfr, find_enode_tot; [exact U|]. exact (pc_from_src_ids_lt s src pc1 U P1). }
    intros n2 _.
    apply nf_bind; [apply nf_pc_congruence|]. intros [a b] s1 H1.
    pose proof (pc_congruence_fst _ _ _ _ _ H1) as Fa. cbn [fst] in Fa. subst a.
    destruct (pc_props s src pc1 (kinv_eg_inv s Ks) P1) as (L1 & _).
    destruct (kinv_pc_congruence _ _ _ _ _ Ks H1) as (K1 & E1 & S1).
    eapply nf_shrink_slots_uint.
    - exact K1.
    - eapply hce_pc_congruence; [exact H1|exact Hh].
    - exact (lcanon_sem _ _ _ S1 L1).
    - intros x Hx. exact (sset_inter_incl _ _ _ Hx).
    - apply sset_inter_values_swf.
  Qed.

  (* (3) no non-fuel error in hp_loop *)
  Theorem nfK_hp_loop : forall E fuel src enode i s, kinv s -> hce E s -> syn_wf s -> (N.to_nat src < lc s)%nat ->
    lcanon s i -> Forall (covers s) (app_occ enode) -> nf (hp_loop fuel src enode i) s.
  Proof.
    intros E. induction fuel as [|f IH]; intros src enode i s Ks Hh SW L Li Cv; cbn [hp_loop]; [apply nf_fail_fuel|].
    destruct (sset_subset (values (am i)) (slots enode)); [apply nf_ret|].
    apply nf_bind; [eapply nfK_handle_shrink; eassumption|]. intros u s1 H1.
    destruct (K_handle_shrink E _ _ _ _ Ks Hh SW H1) as (K1 & Hh1 & SW1 & E1).
    pose proof (kinv_uf_ok s1 K1) as U1. pose proof (kinv_wf s1 K1) as W1. unfold eg_wf in W1.
    pose proof E1 as (_ & Lc & _).
    assert (Cv1 : Forall (covers s1) (app_occ enode)).
    { revert Cv. apply Forall_impl. intros a. apply covers_ext. exact E1. }
    apply nf_bind_reads.
    { apply tot_nfr, find_enode_tot; [exact U1|]. intros j Hj. rewrite W1. exact (ids_of_covers s1 enode Cv1 j Hj). }
    intros enode' He.
    apply nf_bind_reads.
    { apply tot_nfr, find_applied_id_tot; [exact U1|]. rewrite W1. apply covers_lt.
      eapply covers_ext; [exact E1|]. apply canon_covers. exact (proj2 Li). }
    intros i' Hi.
    apply IH; try assumption.
    - rewrite Lc. exact L.
    - eapply lcanon_ext_find; [exact (kinv_eg_inv s1 K1)|exact E1|exact Li|exact Hi].
    - eapply find_enode_covers; [exact (kinv_eg_inv s1 K1)|exact Cv1|exact He].
  Qed.

  (* (4) the invariants and the exit facts of hp_loop *)
  Theorem K_hp_loop : forall E fuel src enode i s r s', kinv s -> hce E s -> syn_wf s -> lcanon s i ->
    (exists n0, find_enode s n0 = Ok enode) -> Forall (covers s) (app_occ enode) ->
    hp_loop fuel src enode i s = Ok (r, s') ->
    kinv s' /\ hce E s' /\ syn_wf s' /\ ext s s' /\ lcanon s' (snd r) /\
    (exists n0, find_enode s' n0 = Ok (fst r)) /\
    sset_subset (values (am (snd r))) (slots (fst r)) = true /\ Forall (covers s') (app_occ (fst r)).
  Proof.
    intros E fuel src enode i s r s' (I3 & M & K) Hh SW Li Fe Cv H.
    destruct (inv3_hp_loop _ _ _ _ _ _ _ I3 Li Fe H) as (I3' & Ex & Lr & Fr & Sub).
    destruct (kids_hp_loop _ _ _ _ _ _ _ I3 K Cv H) as [K' Cv'].
    pose proof (proj1 (h_hp_loop _ _ _ _ _ _ _ H M)) as M'.
    split; [exact (conj I3' (conj M' K'))|].
    split; [eapply hce_hp_loop; eauto|].
    split; [eapply syn_wf_ext; eauto|].
    split; [exact Ex|]. split; [exact Lr|]. split; [exact Fr|]. split; [exact Sub|exact Cv'].
  Qed.

End Interface.

Check K_handle_shrink.
Check nfK_handle_shrink.
Check nfK_hp_loop.
Check K_hp_loop.

Print Assumptions K_handle_shrink.
Print Assumptions nfK_handle_shrink.
Print Assumptions nfK_hp_loop.
Print Assumptions K_hp_loop.
