(* EGraph/NoErrorShape.v — ERROR-FREEDOM (C08), work package SHAPE:
   TOTALITY (`tot r := exists a, r = Ok a`) of the pure, fuel-free functions of Model.v on states satisfying the
   invariants: variants, min_variant, pre_shape, shape, pc_from_src_id, lookup_internal, eg_eq, synify_*, semify_app_id,
   apply_slotmap, refresh_private and the apply_slotmap step of add_internal. *)
From SE Require Import Slots.SlotMapFacts Group.GroupSound Lang.LangFacts Lang.ShapeFacts Lang.RenameFacts
  EGraph.Model EGraph.ModelFacts EGraph.ModelMachine EGraph.UnionFindFacts EGraph.InvariantFacts
  EGraph.UnionInvariantFacts EGraph.AddCoversFacts EGraph.Mod4Facts EGraph.MatchDefs EGraph.HashconsFacts
  EGraph.KidsFacts EGraph.SoundFacts EGraph.SoundSyn EGraph.SoundUnion EGraph.SoundStruct EGraph.UsesConvDef
  EGraph.SoundNode EGraph.ProgressFacts EGraph.NoErrorBase.
Require Import ZArith Lia List.
Import ListNotations.

Local Notation ectr := Model.ctr.

(* ------------------------------------------------------------------ *)
(* S10 / S12: apply_slotmap *)

Lemma apply_slotmap_tot : forall m n, (forall k, In k (pub_occ n) -> get m k <> None) -> tot (apply_slotmap false m n).
Proof. intros m n H. eexists. apply apply_slotmap_ok. exact H. Qed.

Lemma stored_apply_tot : forall s i c sh bij src, stored2 s -> get_class s i = Ok c -> In (sh, (bij, src)) (c_nodes c) ->
  tot (apply_slotmap false bij sh).
Proof.
  intros s i c sh bij src S2 Hc Hin. destruct (S2 i c _ Hc Hin) as [_ Tot]. cbn [fst snd] in Tot.
  apply apply_slotmap_tot. exact Tot.
Qed.

(* ------------------------------------------------------------------ *)
(* S2: min_variant *)

Lemma min_variant_tot : forall l best, (l <> [] \/ best <> None) -> tot (min_variant l best).
Proof.
  induction l as [|v t IH]; intros best H; cbn [min_variant].
  - destruct H as [H|H]; [congruence|]. destruct best as [[n k]|]; [eexists; reflexivity|congruence].
  - destruct (wshape_tot v) as [sh ->]. cbn [bind].
    destruct best as [[m bk]|].
    + destruct (cmp_slots _ bk); apply IH; right; discriminate.
    + apply IH. right. discriminate.
Qed.

(* ------------------------------------------------------------------ *)
(* S4b: the ids of a covered node are in range *)

Lemma ids_of_covers : forall s n, Forall (covers s) (app_occ n) -> forall j, In j (node_ids n) -> (N.to_nat j < lc s)%nat.
Proof.
  intros s n H j Hj. unfold node_ids in Hj. apply in_map_iff in Hj. destruct Hj as (a & <- & Ha).
  apply covers_lt. exact (proj1 (Forall_forall _ _) H a Ha).
Qed.

(* ------------------------------------------------------------------ *)
(* S1: variants *)

Lemma variants_tot : forall s n, kinv s -> (forall j, In j (node_ids n) -> (N.to_nat j < lc s)%nat) -> tot (variants s n).
Proof.
  intros s n K L. unfold variants. cbv zeta.
  apply tot_bind.
  - apply tot_mapr. intros a Ha. apply get_class_tot. apply L. unfold node_ids. apply in_map. exact Ha.
  - intros cls _. destruct (forallb _ cls); [eexists; reflexivity|].
    apply tot_bind; [|intros; eexists; reflexivity].
    apply tot_mapr. intros c _. destruct (gall_perms_count (c_group c)) as (l & Hl & _). exists l. exact Hl.
Qed.

(* every enumeration of a class group is non-empty *)
Lemma grp_ok_gall_nonempty : forall c l, grp_ok c -> gall_perms false (c_group c) = Ok l -> l <> [].
Proof.
  intros c l (gens & HG & Hg) Hl.
  destruct (gall_perms_exact (c_slots c) (identity (c_slots c)) gens (identity_is_id (c_slots c)) HG)
    as (g' & l' & Hg' & Hl' & _ & Hin & _).
  rewrite Hg in Hg'. inversion Hg'; subst g'. rewrite Hl in Hl'. inversion Hl'; subst l'.
  intros ->. exact (proj2 (Hin _) (gen_id _ _)).
Qed.

Lemma cartesian_nonempty : forall {A} (gs : list (list A)), (forall g, In g gs -> g <> []) -> cartesian gs <> [].
Proof.
  intros A. induction gs as [|g gs IH]; intros H; cbn [cartesian]; [discriminate|].
  destruct (cartesian gs) as [|r rs] eqn:E.
  - exfalso. apply IH; [|reflexivity]. intros g' Hg'. apply H. right. exact Hg'.
  - cbn [flat_map]. destruct g as [|x g'].
    + exfalso. apply (H []); [left; reflexivity|reflexivity].
    + cbn [map app]. discriminate.
Qed.

Lemma variants_nonempty : forall s n vs, kinv s -> variants s n = Ok vs -> vs <> [].
Proof.
  intros s n vs K H. unfold variants in H. cbv zeta in H.
  destruct (mapr (fun a => get_class s (aid a)) (app_occ n)) as [cls|] eqn:Ec; cbn [bind] in H; [|discriminate].
  destruct (forallb _ cls).
  - inversion H; subst vs. discriminate.
  - destruct (mapr _ cls) as [groups|] eqn:Eg; cbn [bind] in H; [|discriminate]. inversion H; subst vs; clear H.
    intros E. apply map_eq_nil in E. revert E. apply cartesian_nonempty.
    intros g Hg. destruct (mapr_in _ _ _ Eg g Hg) as (c & Hc & Hgc).
    destruct (mapr_in _ _ _ Ec c Hc) as (a & _ & Hac).
    apply (grp_ok_gall_nonempty c g); [|exact Hgc].
    exact (proj1 (proj2 (ei_cls s (kinv_eg_inv s K) _ _ Hac))).
Qed.

(* ------------------------------------------------------------------ *)
(* S3 / S4: pre_shape, shape *)

Lemma find_enode_ids_lt : forall s n n', find_enode s n = Ok n' ->
  forall j, In j (node_ids n') -> (N.to_nat j < lu s)%nat.
Proof.
  intros s n n' H j Hj. unfold find_enode in H.
  destruct (mapr (find_applied_id s) (app_occ n)) as [l|] eqn:El; cbn [bind] in H; [|discriminate].
  inversion H; subst n'; clear H.
  unfold node_ids in Hj. rewrite app_occ_set_apps in Hj by exact (mapr_length _ _ _ El).
  apply in_map_iff in Hj. destruct Hj as (b & <- & Hb).
  destruct (mapr_in _ _ _ El b Hb) as (a & _ & Hab).
  destruct (find_is_leader s a b Hab) as (e & He & _). exact (uentry_lt _ _ _ He).
Qed.

Lemma pre_shape_tot : forall s n, kinv s -> (forall j, In j (node_ids n) -> (N.to_nat j < lc s)%nat) -> tot (pre_shape s n).
Proof.
  intros s n K L. unfold pre_shape. pose proof (kinv_wf s K) as W. unfold eg_wf in W.
  apply tot_bind.
  - apply find_enode_tot; [exact (kinv_uf_ok s K)|]. intros j Hj. rewrite W. apply L. exact Hj.
  - intros n' Hn'. apply tot_bind.
    + apply variants_tot; [exact K|]. intros j Hj. rewrite <- W. exact (find_enode_ids_lt s n n' Hn' j Hj).
    + intros vs Hvs. apply min_variant_tot. left. exact (variants_nonempty s n' vs K Hvs).
Qed.

Lemma shape_tot : forall s n, kinv s -> (forall j, In j (node_ids n) -> (N.to_nat j < lc s)%nat) -> tot (shape s n).
Proof.
  intros s n K L. unfold shape. apply tot_bind; [apply pre_shape_tot; assumption|]. intros p _. apply wshape_tot.
Qed.

(* ------------------------------------------------------------------ *)
(* S7: eg_eq *)

Lemma eg_eq_tot : forall s a b, kinv s -> covers s a -> covers s b -> tot (eg_eq s a b).
Proof.
  intros s a b K Ha Hb.
  destruct (eg_eq_sym_inv s a b (kinv_uf_ok s K) (kinv_slots s K) Ha Hb) as (x & Hx & _). exists x. exact Hx.
Qed.

(* ------------------------------------------------------------------ *)
(* S9: semify_app_id *)

Lemma semify_app_id_tot : forall s a, (N.to_nat (aid a) < lc s)%nat -> tot (semify_app_id s a).
Proof.
  intros s a L. unfold semify_app_id, class_slots. destruct (get_class_tot s (aid a) L) as [c ->]. cbn [bind].
  eexists; reflexivity.
Qed.

(* ------------------------------------------------------------------ *)
(* S5: pc_from_src_id *)

Lemma apply_slotmap_ids : forall m n n', apply_slotmap false m n = Ok n' -> node_ids n' = node_ids n.
Proof.
  intros m n n' H. unfold apply_slotmap in H. cbn [andb] in H. unfold apply_slotmap_partial in H.
  apply trav_res_ren in H. subst n'. unfold node_ids.
  pose proof (ren_skel (fun b s => match (if b then do y <- index m s; (if false && existsb (N.eqb y) (prv_occ n) then Err AssertFailed else Ok y) else Ok s) with Ok y => y | Err _ => s end) n) as Sk.
  pose proof (skel_ckeys _ _ Sk) as Ck. unfold ckeys in Ck.
  apply (f_equal (map fst)) in Ck. rewrite !map_map in Ck. cbn [fst] in Ck. exact Ck.
Qed.

Lemma pc_from_src_id_tot : forall s i, kinv s -> syn_wf s -> (N.to_nat i < lc s)%nat -> tot (pc_from_src_id s i).
Proof.
  intros s i K SW L. unfold pc_from_src_id. cbv zeta. cbn [am].
  destruct (get_class_tot s i L) as [c Hc]. rewrite Hc. cbn [bind].
  apply tot_bind.
  - apply apply_slotmap_tot. intros k Hk. rewrite identity_get_in; [discriminate|].
    unfold slots. apply (proj2 (sset_of_list_spec (pub_occ (c_syn c)))). exact Hk.
  - intros n Hn. apply tot_bind.
    + apply pre_shape_tot; [exact K|]. intros j Hj. rewrite (apply_slotmap_ids _ _ _ Hn) in Hj.
      unfold node_ids in Hj. apply in_map_iff in Hj. destruct Hj as (a & <- & Ha).
      destruct (SW i c a Hc Ha) as [Lt _]. lia.
    + intros nd _. apply tot_bind; [|intros; eexists; reflexivity].
      apply find_applied_id_tot; [exact (kinv_uf_ok s K)|]. cbn [aid]. rewrite (kinv_wf s K). exact L.
Qed.

(* ------------------------------------------------------------------ *)
(* S6: lookup_internal *)

Lemma lookup_internal_tot : forall E s t, hce E s -> tot (lookup_internal s t).
Proof.
  intros E s [sh n_bij] [T _]. unfold lookup_internal.
  destruct (na_get (hashcons s) sh) as [i|] eqn:Hh; [|eexists; reflexivity].
  destruct (tb_fwd s T sh i Hh) as (p & Hp). destruct (stored_class s i sh p Hp) as (c & Hc & Hn).
  rewrite Hc. cbn [bind]. rewrite Hn. destruct p as [cn_bij src]. eexists; reflexivity.
Qed.

(* ------------------------------------------------------------------ *)
(* S8: synify *)

Lemma nf_fill_fresh : forall l m s, nf (fill_fresh l m) s.
Proof.
  induction l as [|x t IH]; intros m s; cbn [fill_fresh]; [apply nf_ret|].
  destruct (contains_key m x); [apply IH|].
  apply nf_bind; [apply nf_fresh|]. intros f s1 _. apply IH.
Qed.

Lemma nf_synify_app_id : forall a s, (N.to_nat (aid a) < lc s)%nat -> nf (synify_app_id a) s.
Proof.
  intros a s L. unfold synify_app_id.
  apply nf_bind_reads.
  - unfold syn_slots. destruct (get_class_tot s (aid a) L) as [c ->]. cbn [bind]. apply nfr_ok.
  - intros ss _. apply nf_bind; [|intros; apply nf_ret].
    exact (nf_fill_fresh ss (am a) s).
Qed.

Lemma synify_app_id_ctr_only : forall a s x s', synify_app_id a s = Ok (x, s') -> ctr_only s s'.
Proof.
  intros a s x s' H. apply (pres_synify_app_id ctr_only ctr_only_refl ctr_only_trans) in H; [assumption|].
  intros s0 y s0' H0. inversion H0. eexists; reflexivity.
Qed.

Lemma synify_app_id_lc : forall a s x s', synify_app_id a s = Ok (x, s') -> lc s' = lc s /\ lu s' = lu s.
Proof.
  intros a s x s' H. destruct (synify_app_id_ctr_only a s x s' H) as [c ->]. split; reflexivity.
Qed.

Lemma nf_synify_enode : forall n s, (forall j, In j (node_ids n) -> (N.to_nat j < lc s)%nat) -> nf (synify_enode n) s.
Proof.
  intros n s L. unfold synify_enode. apply nf_bind; [|intros; apply nf_ret].
  apply (nf_mapM_inv _ _ synify_app_id (fun s0 => lc s0 = lc s)); [reflexivity| |].
  - intros a s0 Ha E. apply nf_synify_app_id. rewrite E. apply L. unfold node_ids. apply in_map. exact Ha.
  - intros a s0 u s1 _ E H. rewrite (proj1 (synify_app_id_lc a s0 u s1 H)). exact E.
Qed.

(* ------------------------------------------------------------------ *)
(* S11: refresh_private *)

Lemma trav_res_tot : forall (f : bool -> slot -> res slot) n,
  (forall x b, In (x, b) (occ_flags n) -> exists y, f b x = Ok y) -> tot (trav_res f n).
Proof.
  intros f n H. unfold trav_res.
  rewrite (trav_fwd _ (fun b x => match f b x with Ok y => y | Err _ => x end) None); [eexists; reflexivity|].
  intros x b Hin. destruct (H x b Hin) as [y ->]. reflexivity.
Qed.

Lemma refresh_private_tot : forall n c, tot (fst (refresh_private n c)).
Proof.
  intros n c. unfold refresh_private, refresh_by.
  destruct (bijection_from_fresh_to (sset_of_list (prv_occ n)) c) as [bf c1] eqn:E. cbn [fst].
  destruct (sset_of_list_spec (prv_occ n)) as [Hswf Hin].
  destruct (fresh_spec _ _ _ _ Hswf E) as [F1 _].
  apply trav_res_tot. intros x b Hx. destruct b; cbn [negb]; [eexists; reflexivity|].
  assert (Hp : In x (prv_occ n)).
  { unfold prv_occ. apply in_map_iff. exists (x, false). split; [reflexivity|]. apply filter_In. split; [exact Hx|reflexivity]. }
  apply Hin in Hp. destruct (F1 x Hp) as (y & G & _). exists y. unfold index. rewrite G. reflexivity.
Qed.

(* ------------------------------------------------------------------ *)
(* S13: the step `apply_slotmap false (snd t) en` of add_internal *)

(* renaming the private occurrences only does not create public slots *)
Lemma pub_occ_f_ren_prv : forall g a bound y, (forall x, g true x = x) ->
  In y (pub_occ_f (ren_f g bound a)) ->
  (In y (pub_occ_f a) /\ unbound bound y = true) \/ (exists x, In x bound /\ y = g false x).
Proof.
  intros g. induction a as [s|a0|s b IH|p]; intros bound y Hg H; cbn [ren_f pub_occ_f] in H.
  - destruct H as [<-|[]]. destruct (negb (existsb (N.eqb s) bound)) eqn:U.
    + left. rewrite Hg. split; [left; reflexivity|exact U].
    + right. exists s. split; [apply unbound_false_in; exact U|reflexivity].
  - cbn [am] in H. unfold values_vec, ren_vals in H. rewrite map_map in H. cbn [snd] in H.
    apply in_map_iff in H. destruct H as ([k v] & <- & Hin). cbn [snd].
    destruct (negb (existsb (N.eqb v) bound)) eqn:U.
    + left. rewrite Hg. split; [|exact U]. cbn [pub_occ_f]. unfold values_vec. apply in_map_iff. exists (k, v). auto.
    + right. exists v. split; [apply unbound_false_in; exact U|reflexivity].
  - apply filter_In in H. destruct H as [H Ny]. apply negb_true_iff in Ny. apply N.eqb_neq in Ny.
    destruct (IH (s :: bound) y Hg H) as [(Hy & U)|(x & [<-|Hx] & ->)].
    + left. rewrite unbound_cons in U. apply andb_true_iff in U. destruct U as [U1 U2].
      split; [cbn [pub_occ_f]; apply filter_In; split; [exact Hy|exact U1]|exact U2].
    + congruence.
    + right. exists x. split; [exact Hx|reflexivity].
  - contradiction.
Qed.

Lemma pub_occ_ren_prv : forall g n y, (forall x, g true x = x) -> In y (pub_occ (ren g n)) -> In y (pub_occ n).
Proof.
  intros g n y Hg H. unfold pub_occ, ren in H. cbn [nargs] in H. apply in_flat_map in H.
  destruct H as (a' & Ha' & Hy). apply in_map_iff in Ha'. destruct Ha' as (a & <- & Ha).
  destruct (pub_occ_f_ren_prv g a [] y Hg Hy) as [(Hx & _)|(x & [] & _)].
  unfold pub_occ. apply in_flat_map. exists a. auto.
Qed.

Lemma refresh_private_pub : forall n c en, fst (refresh_private n c) = Ok en ->
  forall y, In y (pub_occ en) -> In y (pub_occ n).
Proof.
  intros n c en H y Hy. unfold refresh_private, refresh_by in H.
  destruct (bijection_from_fresh_to (sset_of_list (prv_occ n)) c) as [bf c1]. cbn [fst] in H.
  apply trav_res_ren in H. subst en. revert Hy. apply pub_occ_ren_prv. intros x. reflexivity.
Qed.

(* t = the weak shape of any node (in add_internal: t = shape s n = wshape (pre_shape s n)) *)
Lemma shape_apply_tot : forall p t, wshape p = Ok t ->
  forall c en, fst (refresh_private (fst t) c) = Ok en -> tot (apply_slotmap false (snd t) en).
Proof.
  intros p [sh bij] Hw c en Hr. cbn [fst snd] in *.
  destruct (SOe_shape p sh bij 0 Hw) as [_ Tot]. cbn [fst snd] in Tot.
  apply apply_slotmap_tot. intros k Hk. apply Tot. exact (refresh_private_pub sh c en Hr k Hk).
Qed.

(* in the form of add_internal: t comes from `shape s n` *)
Lemma shape_apply_tot' : forall s n t, shape s n = Ok t ->
  forall c en, fst (refresh_private (fst t) c) = Ok en -> tot (apply_slotmap false (snd t) en).
Proof.
  intros s n t H. unfold shape in H. destruct (pre_shape s n) as [p|]; cbn [bind] in H; [|discriminate].
  exact (shape_apply_tot p t H).
Qed.

(* ------------------------------------------------------------------ *)
(* queries: enodes (on a live id: a dead id is the documented `assert!(self.is_alive(i))`), progress *)

Lemma leader_lt : forall s i, leader s i -> (N.to_nat i < lu s)%nat.
Proof. intros s i (e & He & _). exact (uentry_lt _ _ _ He). Qed.

Lemma enodes_tot : forall s i, kinv s -> stored2 s -> leader s i -> tot (enodes s i).
Proof.
  intros s i K S2 L. unfold enodes. rewrite (proj1 (leader_is_alive s i) L). cbn [bind negb].
  pose proof (leader_lt s i L) as Lt. rewrite (kinv_wf s K) in Lt.
  destruct (get_class_tot s i Lt) as [c Hc]. rewrite Hc. cbn [bind].
  apply tot_bind; [|intros; eexists; reflexivity].
  apply tot_mapr. intros [sh [bij src]] He. cbn [fst snd]. exact (stored_apply_tot s i c sh bij src S2 Hc He).
Qed.

Lemma progress_tot : forall s, kinv s -> tot (progress s).
Proof.
  intros s K. unfold progress. cbv zeta. apply tot_bind; [|intros; eexists; reflexivity].
  apply tot_mapr. intros i Hi. apply get_class_tot. rewrite <- (kinv_wf s K).
  apply leader_lt. apply ProgressFacts.ids_leader. exact Hi.
Qed.

Print Assumptions variants_tot.
Print Assumptions variants_nonempty.
Print Assumptions min_variant_tot.
Print Assumptions pre_shape_tot.
Print Assumptions shape_tot.
Print Assumptions ids_of_covers.
Print Assumptions pc_from_src_id_tot.
Print Assumptions lookup_internal_tot.
Print Assumptions eg_eq_tot.
Print Assumptions nf_synify_app_id.
Print Assumptions synify_app_id_lc.
Print Assumptions nf_synify_enode.
Print Assumptions semify_app_id_tot.
Print Assumptions apply_slotmap_tot.
Print Assumptions refresh_private_tot.
Print Assumptions stored_apply_tot.
Print Assumptions shape_apply_tot.
Print Assumptions shape_apply_tot'.
Print Assumptions enodes_tot.
Print Assumptions progress_tot.
