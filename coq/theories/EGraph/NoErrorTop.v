(* EGraph/NoErrorTop.v — from the per-operation statements to whole histories (generic part).
   Section Top is parametric in the boundary invariant B and in the four per-operation facts; NoError.v instantiates it. *)
From SE Require Import EGraph.Model EGraph.ModelFacts EGraph.ModelMachine EGraph.UnionFindFacts EGraph.UnionInvariantFacts
  EGraph.KidsFacts EGraph.RepFacts EGraph.OpsPreFacts EGraph.NoErrorBase.
Require Import ZArith Lia List.
Import ListNotations.

Local Notation ectr := Model.ctr.

(* the indices used by a history are in range: term indices below the number of terms, handle indices below the
   number of handles obtained so far (= the number of earlier `add` operations) *)
Fixpoint ops_in_range_from (nt nh : nat) (ops : list hop) : Prop :=
  match ops with
  | [] => True
  | HAdd k :: t => (k < nt)%nat /\ ops_in_range_from nt (S nh) t
  | HUnion i j _ :: t => (i < nh)%nat /\ (j < nh)%nat /\ ops_in_range_from nt nh t
  end.
Definition ops_in_range (terms : list rterm) (ops : list hop) : Prop := ops_in_range_from (List.length terms) 0 ops.

Fixpoint ops_in_range_fromb (nt nh : nat) (ops : list hop) : bool :=
  match ops with
  | [] => true
  | HAdd k :: t => Nat.ltb k nt && ops_in_range_fromb nt (S nh) t
  | HUnion i j _ :: t => Nat.ltb i nh && Nat.ltb j nh && ops_in_range_fromb nt nh t
  end.
Lemma ops_in_range_fromb_sound : forall nt ops nh, ops_in_range_fromb nt nh ops = true -> ops_in_range_from nt nh ops.
Proof.
  intros nt. induction ops as [|o t IH]; intros nh H; cbn [ops_in_range_fromb ops_in_range_from] in *; [exact I|].
  destruct o as [k|i j ju].
  - apply andb_prop in H. destruct H as [H1 H2]. apply Nat.ltb_lt in H1. split; [exact H1|apply IH; exact H2].
  - apply andb_prop in H. destruct H as [H12 H3]. apply andb_prop in H12. destruct H12 as [H1 H2].
    apply Nat.ltb_lt in H1. apply Nat.ltb_lt in H2. split; [exact H1|]. split; [exact H2|apply IH; exact H3].
Qed.

Lemma nth_opt_lt_some : forall {A} (l : list A) n, (n < List.length l)%nat -> exists x, nth_opt l n = Some x.
Proof. intros A l n H. exact (nth_opt_some_lt l n H). Qed.

Section Top.
  Variable B : egraph -> Prop.
  Hypothesis B_empty : B empty_egraph.
  Hypothesis nf_add_expr : forall t s, B s -> twf t -> rt_pre (ectr s) t -> nf (add_expr t) s.
  Hypothesis B_add_expr : forall t s a s', B s -> twf t -> rt_pre (ectr s) t -> add_expr t s = Ok (a, s') ->
    B s' /\ ext0 s s' /\ covers s' a.
  Hypothesis nf_eg_union : forall l r s, B s -> covers s l -> covers s r -> nf (eg_union l r) s.
  Hypothesis B_eg_union : forall l r s b s', B s -> covers s l -> covers s r -> eg_union l r s = Ok (b, s') ->
    B s' /\ ext s s'.

  Lemma nf_run_ops : forall terms ops hs s, B s -> Forall (covers s) hs ->
    Forall (fun t => twf t /\ rt_pre (ectr s) t) terms ->
    ops_in_range_from (List.length terms) (List.length hs) ops -> nf (run_ops terms ops hs) s.
  Proof.
    intros terms. induction ops as [|o t IH]; intros hs s HB Hc HT HR; cbn [run_ops]; [apply nf_ret|].
    cbn [ops_in_range_from] in HR. destruct o as [k|i j ju].
    - destruct HR as [Hk HR]. destruct (nth_opt_lt_some terms k Hk) as [tm Etm]. rewrite Etm.
      destruct (proj1 (Forall_forall _ _) HT tm (nth_opt_In _ _ _ Etm)) as [TW RP].
      apply nf_bind; [exact (nf_add_expr tm s HB TW RP)|]. intros a s1 H1.
      destruct (B_add_expr tm s a s1 HB TW RP H1) as (HB1 & E01 & Ca).
      apply IH; [exact HB1| | |].
      + apply Forall_app. split; [|constructor; [exact Ca|constructor]].
        revert Hc. apply Forall_impl. intros x. apply covers_ext0. exact E01.
      + revert HT. apply Forall_impl. intros t0 [A C]. split; [exact A|]. eapply rt_pre_mono; [exact (proj1 E01)|exact C].
      + rewrite app_length. cbn [List.length]. replace (List.length hs + 1)%nat with (S (List.length hs)) by lia. exact HR.
    - destruct HR as (Hi & Hj & HR).
      destruct (nth_opt_lt_some hs i Hi) as [a Ea]. destruct (nth_opt_lt_some hs j Hj) as [b Eb]. rewrite Ea, Eb.
      pose proof (proj1 (Forall_forall _ _) Hc a (nth_opt_In _ _ _ Ea)) as Ca.
      pose proof (proj1 (Forall_forall _ _) Hc b (nth_opt_In _ _ _ Eb)) as Cb.
      apply nf_bind; [exact (nf_eg_union a b s HB Ca Cb)|]. intros u s1 H1.
      destruct (B_eg_union a b s u s1 HB Ca Cb H1) as [HB1 E1].
      apply IH; [exact HB1| | |exact HR].
      + revert Hc. apply Forall_impl. intros x. apply covers_ext. exact E1.
      + revert HT. apply Forall_impl. intros t0 [A C]. split; [exact A|]. eapply rt_pre_mono; [exact (proj1 E1)|exact C].
  Qed.

  Theorem no_panic_modulo_fuel_gen : forall terms ops e, Forall term_static terms -> ops_in_range terms ops ->
    run_ops terms ops [] empty_egraph = Err e -> is_fuel_error e.
  Proof.
    intros terms ops e HT HR H.
    apply (nf_run_ops terms ops [] empty_egraph B_empty); [constructor| |exact HR|exact H].
    revert HT. apply Forall_impl. intros t Ht. split; [apply term_static_twf|apply term_static_rt_pre]; exact Ht.
  Qed.
End Top.
