(* EGraph/NoErrorUnion.v — ERROR-FREEDOM of the union core (shrink_slots, move_to, union_leaders, union_internal):
   on a state satisfying `kinv` and `hce E`, with canonical leaders / covering invocations as arguments, the union
   core returns no NON-FUEL error.

   Main statements: nf_move_to, nf_shrink_slots, nf_union_leaders (Section Core, hypothesis: `ui_nf (union_internal fu)`),
   nf_union_internal, nf_uint, nf_shrink_slots_uint, cap_inter_ok. *)
From SE Require Import Slots.SlotMapFacts Group.GroupSound Lang.LangFacts Lang.ShapeFacts Lang.RenameFacts
  EGraph.Model EGraph.ModelFacts EGraph.ModelMachine EGraph.UnionFindFacts EGraph.InvariantFacts
  EGraph.UnionInvariantFacts EGraph.AddCoversFacts EGraph.Mod4Facts EGraph.MatchDefs EGraph.HashconsFacts
  EGraph.KidsFacts EGraph.SelfSymUnion EGraph.NoErrorBase.
Require Import ZArith Lia List.
Import ListNotations.

Local Notation "a ** b" := (compose_partial a b) (at level 40, left associativity).
Local Notation inv := inverse_nocheck.
Local Notation ectr := Model.ctr.

Local Ltac neq := repeat match goal with
  | H : (_ =? _) = true |- _ => apply N.eqb_eq in H
  | H : (_ =? _) = false |- _ => apply N.eqb_neq in H
  end.

(* ------------------------------------------------------------------ *)
(* 1. carrying kinv / hce through the union core (Ok direction, from the existing files) *)

Lemma kinv_union_internal : forall fu l r s b s', kinv s -> covers s l -> covers s r ->
  union_internal fu l r s = Ok (b, s') -> kinv s' /\ ext s s'.
Proof.
  intros fu l r s b s' (I3 & M & K) Cl Cr H.
  destruct (inv3_union_internal fu _ _ _ _ _ I3 Cl Cr H) as [I3' E].
  split; [|exact E]. split; [exact I3'|]. split.
  - exact (proj1 (h_union_internal fu l r s b s' H M)).
  - exact (kids_ok_union_internal fu l r s b s' I3 K Cl Cr H).
Qed.

Lemma kinv_shrink_slots : forall fu from cap s x s', kinv s -> lcanon s from ->
  shrink_slots (union_internal fu) from cap s = Ok (x, s') -> kinv s' /\ ext s s'.
Proof.
  intros fu from cap s x s' (I3 & M & K) L H.
  destruct (inv3_shrink_slots fu (inv3_union_internal fu) _ _ _ _ _ I3 L H) as [I3' E].
  split; [|exact E]. split; [exact I3'|]. split.
  - exact (proj1 (h_shrink_slots (union_internal fu) (h_union_internal fu) from cap (lcanon_K1 _ _ M L) s x s' H M)).
  - exact (kids_ok_shrink_slots fu from cap s x s' I3 K L H).
Qed.

(* ------------------------------------------------------------------ *)
(* 2. totality of gadd_set *)

Lemma gadd_fold_tot : forall om g ps acc, chain_ok om g -> Forall (perm_on om) ps ->
  tot (fold_left (fun (acc : res (list perm)) p =>
                    do acc <- acc; do c <- gcontains false g p; Ok (if c then acc else padd p acc)) ps (Ok acc)).
Proof.
  intros om g ps. induction ps as [|p t IH]; intros acc CK Hps; cbn [fold_left].
  - eexists; reflexivity.
  - inversion Hps as [|? ? Hp Ht]; subst. cbn [bind].
    destruct (gcontains_total om g CK p Hp) as [b ->]. cbn [bind]. apply IH; assumption.
Qed.

Lemma grp_ok_chain : forall c, grp_ok c -> chain_ok (c_slots c) (c_group c).
Proof.
  intros c (gens & HG & H).
  exact (gnew_chain_ok (c_slots c) (identity (c_slots c)) (identity_is_id _) _ _ _ (pdedup_po _ _ HG) H).
Qed.

Theorem gadd_set_tot : forall c ps, grp_ok c -> Forall (perm_on (c_slots c)) ps ->
  tot (gadd_set false (c_group c) ps).
Proof.
  intros c ps G Hps. unfold gadd_set.
  destruct (gadd_fold_tot (c_slots c) (c_group c) ps [] (grp_ok_chain c G) Hps) as [keep K]. rewrite K. cbn [bind].
  apply (gadd_keep (perm_on (c_slots c))) in K; [|assumption|constructor].
  destruct keep as [|k0 kt]; [eexists; reflexivity|].
  rewrite (grp_ok_identity c G).
  destruct (group_new_ok (c_slots c) (identity (c_slots c)) (punion (ggenerators (c_group c)) (k0 :: kt)) (identity_is_id _)) as [g' Hg'].
  - apply Forall_forall. intros x Hx. apply (proj1 (punion_in _ _ _)) in Hx. destruct Hx as [Hx|Hx].
    + exact (proj1 (Forall_forall _ _) (grp_ok_generators c G) x Hx).
    + exact (proj1 (Forall_forall _ _) K x Hx).
  - rewrite Hg'. cbn [bind]. eexists; reflexivity.
Qed.

Lemma gcontains_tot : forall c p, grp_ok c -> perm_on (c_slots c) p -> tot (gcontains false (c_group c) p).
Proof. intros c p G Hp. destruct (gcontains_total _ _ (grp_ok_chain c G) p Hp) as [b Hb]. exists b. exact Hb. Qed.

(* ------------------------------------------------------------------ *)
(* 3. primitives *)

Lemma nf_touched_class : forall i ty s, (N.to_nat i < lc s)%nat -> nf (touched_class i ty) s.
Proof.
  intros i ty s L. unfold touched_class.
  apply nf_bind_reads; [apply tot_nfr, get_class_tot; exact L|]. intros c _.
  apply (nf_iterM_inv _ _ (fun _ => True)); [exact I| |auto]. intros x s0 _ _. apply nf_pending_touch.
Qed.

Lemma touched_class_lc : forall i ty s x s', touched_class i ty s = Ok (x, s') -> lc s' = lc s.
Proof. intros i ty s x s' H. apply s_touched_class in H. exact (proj2 (sem_eq_lengths _ _ (proj1 H))). Qed.

Lemma nf_usages_iter : forall (F : eclass -> list node) l s, (forall r, In r l -> (N.to_nat r < lc s)%nat) ->
  nf (iterM (fun r => upd_class r (fun c => with_usages c (F c))) l) s.
Proof.
  intros F l s Hl. apply (nf_iterM_inv _ _ (fun s0 => lc s0 = lc s)); [reflexivity| |].
  - intros r s0 Hr E. apply nf_upd_class. rewrite E. apply Hl. exact Hr.
  - intros r s0 u s1 _ E H. destruct (upd_class_lc _ _ _ _ _ H) as [A _]. congruence.
Qed.

Lemma nf_raw_add : forall id sh bij src s, (N.to_nat id < lc s)%nat ->
  (forall r, In r (node_ids sh) -> (N.to_nat r < lc s)%nat) -> nf (raw_add_to_class id (sh, bij) src) s.
Proof.
  intros id sh bij src s L Hl. unfold raw_add_to_class.
  apply nf_bind; [apply nf_upd_class; exact L|]. intros u1 s1 H1. destruct (upd_class_lc _ _ _ _ _ H1) as [E1 _].
  apply nf_bind; [apply nf_modify|]. intros u2 s2 H2. inversion H2; subst u2 s2; clear H2.
  apply (nf_usages_iter (fun c => ns_add (c_usages c) sh)). intros r Hr. cbn [classes set_hashcons]. rewrite E1. apply Hl. exact Hr.
Qed.

Lemma nf_raw_remove : forall id sh s, (N.to_nat id < lc s)%nat ->
  (forall r, In r (node_ids sh) -> (N.to_nat r < lc s)%nat) -> na_get (cnodes s id) sh <> None ->
  nf (raw_remove_from_class id sh) s.
Proof.
  intros id sh s L Hl Hg. unfold raw_remove_from_class.
  apply nf_bind_reads; [apply tot_nfr, get_class_tot; exact L|]. intros c Hc. cbv zeta.
  apply nf_bind; [apply nf_upd_class; exact L|]. intros u1 s1 H1. destruct (upd_class_lc _ _ _ _ _ H1) as [E1 _].
  apply nf_bind; [apply nf_modify|]. intros u2 s2 H2. inversion H2; subst u2 s2; clear H2.
  apply nf_bind.
  { apply (nf_usages_iter (fun c => ns_remove (c_usages c) sh)). intros r Hr. cbn [classes set_hashcons]. rewrite E1. apply Hl. exact Hr. }
  intros u3 s3 _. unfold cnodes in Hg. rewrite Hc in Hg.
  destruct (na_get (c_nodes c) sh) as [p|]; [apply nf_ret|congruence].
Qed.

(* ------------------------------------------------------------------ *)
(* 4. move_to *)

Lemma nf_move_loop : forall idf idt mi l s,
  idt <> idf -> (N.to_nat idf < lc s)%nat -> (N.to_nat idt < lc s)%nat ->
  na_nodup l ->
  (forall sh p, In (sh, p) l -> na_get (cnodes s idf) sh <> None) ->
  (forall sh p r, In (sh, p) l -> In r (node_ids sh) -> (N.to_nat r < lc s)%nat) ->
  nf (iterM (fun e => let '(sh, (bij, src_id)) := e in
                  dom _ <- raw_remove_from_class idf sh;
                  dom new_bij <- with_ctr (compose_fresh bij mi);
                  dom _ <- raw_add_to_class idt (sh, new_bij) src_id;
                  pending_insert sh true) l) s.
Proof.
  intros idf idt mi. induction l as [|[sh [bij src]] t IH]; intros s Hn Lf Lt Nd Hin Hr; cbn [iterM]; [apply nf_ret|].
  assert (Hsh : forall r, In r (node_ids sh) -> (N.to_nat r < lc s)%nat).
  { intros r Hr0. eapply Hr; [left; reflexivity|exact Hr0]. }
  apply nf_bind.
  - apply nf_bind; [apply nf_raw_remove; [exact Lf|exact Hsh|eapply Hin; left; reflexivity]|].
    intros p s1 H1. pose proof (proj2 (sem_eq_lengths _ _ (proj1 (s_raw_remove _ _ _ _ _ H1)))) as E1.
    apply nf_bind; [apply nf_with_ctr|]. intros nb s2 H2. apply with_ctr_spec in H2. subst s2.
    apply nf_bind; [|intros; apply nf_pending_insert].
    apply nf_raw_add; cbn [classes set_ctr]; rewrite E1; [exact Lt|exact Hsh].
  - intros u s4 H.
    apply mbind_inv in H. destruct H as (p & s1 & H1 & H).
    apply mbind_inv in H. destruct H as (nb & s2 & H2 & H).
    apply mbind_inv in H. destruct H as (u3 & s3 & H3 & H). inversion H; subst u s4; clear H.
    pose proof (proj2 (sem_eq_lengths _ _ (proj1 (s_raw_remove _ _ _ _ _ H1)))) as E1.
    pose proof (proj2 (sem_eq_lengths _ _ (proj1 (s_compose_fresh _ _ _ _ _ H2)))) as E2.
    pose proof (proj2 (sem_eq_lengths _ _ (proj1 (s_raw_add _ _ _ _ _ _ H3)))) as E3.
    destruct (raw_remove_views _ _ _ _ _ H1) as (_ & _ & _ & _ & R1 & _).
    apply with_ctr_spec in H2. subst s2.
    destruct (raw_add_views _ _ _ _ _ _ _ H3) as (_ & _ & _ & _ & A2 & _).
    assert (CN : cnodes (set_pending s3 (na_set (pending s3) sh true)) idf = na_remove (cnodes s idf) sh).
    { change (cnodes s3 idf = na_remove (cnodes s idf) sh). rewrite (A2 idf (not_eq_sym Hn)).
      change (cnodes s1 idf = na_remove (cnodes s idf) sh). exact R1. }
    assert (LC : lc (set_pending s3 (na_set (pending s3) sh true)) = lc s).
    { cbn [classes set_pending]. cbn [classes set_ctr] in E3. congruence. }
    destruct Nd as [Nsh Nt].
    apply IH; [exact Hn|rewrite LC; exact Lf|rewrite LC; exact Lt|exact Nt| |].
    + intros sh' p' Hin'. rewrite CN.
      assert (sh' <> sh) by (intros ->; exact (ms_in_get_none _ _ _ Hin' Nsh)).
      rewrite na_get_remove_other by assumption. eapply Hin. right. exact Hin'.
    + intros sh' p' r Hin' Hr'. rewrite LC. eapply Hr; [right; exact Hin'|exact Hr'].
Qed.

Theorem nf_move_to : forall E from to s, kinv s -> hce E s -> lcanon s from -> lcanon s to ->
  aid to <> aid from -> values (am from) = values (am to) -> nf (move_to from to) s.
Proof.
  intros E from to s Hk [T _] [Lf Cf] [Lt Ct] Hn V. unfold move_to. cbv zeta.
  pose proof Cf as (cf & Hcf & Gf & Wf & Bf & Kf). pose proof Ct as (ct & Hct & Gt & Wt & Bt & Kt).
  pose proof (get_class_lt _ _ _ Hcf) as Lcf. pose proof (get_class_lt _ _ _ Hct) as Lct.
  apply nf_bind.
  { apply nf_unionfind_set. destruct Lf as (e & He & _). pose proof (uentry_lt _ _ _ He). lia. }
  intros u1 s1 H1.
  pose proof (unionfind_set_classes _ _ _ _ _ H1) as Cl1.
  assert (GC : forall j, get_class s1 j = get_class s j) by (intros j; unfold get_class; rewrite Cl1; reflexivity).
  apply nf_bind_reads; [rewrite GC, Hcf; apply nfr_ok|]. intros cf1 Hcf1. rewrite GC, Hcf in Hcf1. inversion Hcf1; subst cf1; clear Hcf1.
  apply nf_bind.
  { apply nf_move_loop.
    - exact Hn.
    - rewrite Cl1; exact Lcf.
    - rewrite Cl1; exact Lct.
    - pose proof (tb_cn s T (aid from)) as Nd. unfold cnodes in Nd. rewrite Hcf in Nd. exact Nd.
    - intros sh p Hin G. unfold cnodes in G. rewrite GC, Hcf in G. exact (ms_in_get_none _ _ _ Hin G).
    - intros sh p r Hin Hr. rewrite Cl1.
      destruct (kinv_kids s Hk _ _ _ Hcf Hin) as [_ KF]. cbn [fst] in KF.
      unfold node_ids in Hr. apply in_map_iff in Hr. destruct Hr as (a & <- & Ha).
      apply covers_lt. exact (proj1 (proj1 (Forall_forall _ _) KF a Ha)). }
  intros u2 s2 H2.
  assert (S2 : semR s1 s2).
  { revert H2. apply s_iterM. intros [sh [bij src]].
    apply s_bind; [apply s_raw_remove|]. intros _. apply s_bind; [apply s_compose_fresh|]. intros nb.
    apply s_bind; [apply s_raw_add|]. intros _. apply s_pending_insert. }
  pose proof (proj2 (sem_eq_lengths _ _ (proj1 S2))) as E2. rewrite Cl1 in E2.
  rewrite <- GC in Hcf, Hct.
  destruct (get_class_sem_ok s1 s2 _ _ (proj1 S2) Hcf) as (cf2 & Hcf2 & Csf).
  destruct (get_class_sem_ok s1 s2 _ _ (proj1 S2) Hct) as (ct2 & Hct2 & Cst).
  apply nf_bind_reads; [rewrite Hcf2; apply nfr_ok|]. intros cf2' Ef. rewrite Hcf2 in Ef. inversion Ef; subst cf2'; clear Ef.
  apply nf_bind_reads; [rewrite Hct2; apply nfr_ok|]. intros ct2' Et. rewrite Hct2 in Et. inversion Et; subst ct2'; clear Et.
  pose proof (grp_ok_csem _ _ (eq_sym Csf) Gf) as Gf2. pose proof (grp_ok_csem _ _ (eq_sym Cst) Gt) as Gt2.
  apply csem_inv in Csf. destruct Csf as (SLf & _ & _). apply csem_inv in Cst. destruct Cst as (SLt & _ & _).
  apply nf_bind_lift.
  { apply tot_nfr, gadd_set_tot; [exact Gt2|].
    apply Forall_forall. intros q Hq. apply in_map_iff in Hq. destruct Hq as (pp & <- & Hpp).
    destruct (quot_bij (am from) (am to) (c_slots cf) (c_slots ct) Wf Wt Bf Bt Kf Kt V) as (F1 & F2 & F3 & F4 & F5).
    rewrite SLt. apply (conj_by_perm_on (c_slots cf) (c_slots ct)); try assumption.
    rewrite <- SLf. exact (proj1 (Forall_forall _ _) (grp_ok_generators cf2 Gf2) pp Hpp). }
  intros r _.
  apply nf_bind; [apply nf_upd_class; rewrite E2; exact Lct|]. intros u3 s3 H3.
  destruct (upd_class_lc _ _ _ _ _ H3) as [E3 _].
  apply nf_bind.
  { destruct (snd r); [apply nf_touched_class; rewrite E3, E2; exact Lct|apply nf_ret]. }
  intros u4 s4 H4.
  assert (E4 : lc s4 = lc s3).
  { destruct (snd r); [eapply touched_class_lc; exact H4|inversion H4; reflexivity]. }
  apply nf_touched_class. rewrite E4, E3, E2. exact Lcf.
Qed.

(* ------------------------------------------------------------------ *)
(* 5. shrink_slots: the prefix *)

(* the premise on the second argument of shrink_slots *)
Definition cap_ok (from : appid) (cap : sset) : Prop := forall x, In x cap -> In x (values (am from)).

Lemma cap_inter_ok : forall a b, cap_ok a (sset_inter (values (am a)) (values (am b))).
Proof. intros a b x Hx. unfold sset_inter in Hx. apply filter_In in Hx. exact (proj1 Hx). Qed.

Lemma cap_inter_ok_r : forall a b, cap_ok b (sset_inter (values (am a)) (values (am b))).
Proof. intros a b x Hx. unfold sset_inter in Hx. apply filter_In in Hx. apply sset_mem_in. exact (proj2 Hx). Qed.

Lemma nf_shrink_pre : forall from cap s, eg_inv s -> lcanon s from -> cap_ok from cap -> nf (shrink_pre from cap) s.
Proof.
  intros from cap s Hs [Ld (c & Hc & Gc & Wf & Bf & Kf)] Hcap. unfold shrink_pre. cbv zeta.
  pose proof (get_class_lt _ _ _ Hc) as Lc.
  apply nf_bind_lift.
  { apply tot_nfr, tot_mapr. intros x Hx. apply Hcap in Hx. apply values_spec in Hx; [|exact Wf]. destruct Hx as (k & Gk).
    unfold index. rewrite (proj2 (get_inverse _ _ _ Wf Bf) Gk). eexists; reflexivity. }
  intros ocl Hoc.
  set (oc := sset_of_list ocl).
  destruct (sset_of_list_spec ocl) as [Woc Ioc]. fold oc in Woc, Ioc.
  assert (Ic : incl oc (c_slots c)).
  { intros y Hy. apply Ioc in Hy. destruct (mapr_in _ _ _ Hoc y Hy) as (x0 & _ & E). unfold index in E.
    destruct (get (inv (am from)) x0) as [y'|] eqn:G; [|discriminate]. inversion E; subst y'.
    apply (get_inverse _ _ _ Wf Bf) in G. rewrite <- Kf. apply keys_spec. congruence. }
  apply nf_bind.
  { unfold record_redundancy_witness. apply nf_bind_reads.
    - unfold syn_slots. rewrite Hc. apply nfr_ok.
    - intros ss _. apply nf_unionfind_set. destruct Ld as (el & Hel & _). pose proof (uentry_lt _ _ _ Hel). lia. }
  intros u1 s1 H1.
  assert (Cl1 : classes s1 = classes s).
  { unfold record_redundancy_witness in H1. apply bind_reads_inv in H1. destruct H1 as (ss & _ & H1).
    eapply unionfind_set_classes; eauto. }
  assert (GC : forall j, get_class s1 j = get_class s j) by (intros j; unfold get_class; rewrite Cl1; reflexivity).
  apply nf_bind_reads; [rewrite GC, Hc; apply nfr_ok|].
  intros c1 Hc1. rewrite GC, Hc in Hc1. inversion Hc1; subst c1; clear Hc1.
  pose proof (grp_ok_generators c Gc) as Gens.
  apply nf_bind_lift.
  { apply tot_nfr, tot_mapr. intros pp Hpp. apply tot_allr. intros x Hx.
    destruct (po_get (c_slots c) pp x (proj1 (Forall_forall _ _) Gens pp Hpp) (Ic x Hx)) as (v & Gv & _).
    unfold index. rewrite Gv. cbn [bind]. eexists; reflexivity. }
  intros flags Hfl.
  apply nf_bind_lift.
  { apply tot_nfr.
    match goal with |- tot (group_new _ _ ?r) =>
      destruct (group_new_ok oc (identity oc) r (identity_is_id oc)) as [g Hg]; [|exists g; exact Hg] end.
    apply Forall_forall. intros q Hq. apply in_map_iff in Hq. destruct Hq as (pp & <- & Hpp).
    apply in_map_iff in Hpp. destruct Hpp as ([pp' b] & Epp & Hin). cbn [fst] in Epp. subst pp'.
    apply filter_In in Hin. destruct Hin as [Hin Hb]. cbn [snd] in Hb. subst b.
    destruct (mapr_combine _ _ _ Hfl _ _ Hin) as [Hall Hflag].
    apply (restrict_perm_on (c_slots c)).
    + exact (proj1 (Forall_forall _ _) Gens pp Hall).
    + apply swf_NoDup. assumption.
    + intros x0 Hx0. pose proof (allr_true _ _ Hflag x0 Hx0) as T. cbv beta in T. unfold index in T.
      destruct (get pp x0) as [y|]; cbn [bind] in T; [|discriminate]. exists y. split; [reflexivity|].
      apply mem_in. inversion T. reflexivity. }
  intros g Hg.
  apply nf_bind; [apply nf_upd_class; rewrite Cl1; exact Lc|]. intros u2 s2 H2. destruct (upd_class_lc _ _ _ _ _ H2) as [E2 _].
  apply nf_bind; [apply nf_touched_class; rewrite E2, Cl1; exact Lc|]. intros; apply nf_ret.
Qed.

(* the loop of shrink_slots with a union that does nothing *)
Lemma dummy_loop0 : forall id cap moved s3 c3, get_class s3 id = Ok c3 ->
  (forall pp x, In pp moved -> In x cap -> get pp x <> None) ->
  sloop ui0 id cap moved s3 = Ok (tt, s3).
Proof.
  intros id cap. induction moved as [|pp t IH]; intros s3 c3 Hc3 Hm; unfold sloop in *; cbn [iterM] in *.
  - reflexivity.
  - assert (TP : tot (mapr (fun x => do y <- index pp x; Ok (x, y)) cap)).
    { apply tot_mapr. intros x Hx. unfold index. destruct (get pp x) as [y|] eqn:G; [cbn [bind]; eexists; reflexivity|].
      exfalso. eapply Hm; [left; reflexivity|exact Hx|exact G]. }
    destruct TP as [ps Hps].
    unfold mbind at 1. unfold mbind at 1. unfold reads, class_slots. rewrite Hc3. cbn [bind].
    unfold mbind at 1. unfold Model.lift. rewrite Hps. unfold mbind at 1. unfold ui0, ret.
    exact (IH s3 c3 Hc3 (fun q x Hq Hx => Hm q x (or_intror Hq) Hx)).
Qed.

Lemma moved_covers : forall s id c cap pp ps, NoDup cap -> injective pp -> get_class s id = Ok c -> incl (c_slots c) cap ->
  mapr (fun x => do y <- index pp x; Ok (x, y)) cap = Ok ps -> covers s {| aid := id; am := from_iter ps |}.
Proof.
  intros s id c cap pp ps Nd Hinj Hc Ic Hps. pose proof (get_from_pairs pp cap ps Nd Hps) as G.
  exists c. cbn [aid am]. split; [assumption|]. split.
  - intros k1 k2 v A1 A2. apply G in A1, A2. destruct A1 as [_ A1], A2 as [_ A2]. eapply Hinj; eassumption.
  - intros k Hk. apply Ic in Hk. destruct (mapr_pairs pp cap ps Hps) as [A B].
    rewrite <- A in Hk. apply in_map_iff in Hk. destruct Hk as ([k' v] & Ek & Hin). cbn [fst] in Ek. subst k'.
    assert (E : get (from_iter ps) k = Some v) by (apply G; apply B; assumption). congruence.
Qed.

(* ------------------------------------------------------------------ *)
(* 6. the core, relative to the recursive call *)

Section Core.
  Variable fu : nat.
  Hypothesis H_nf : ui_nf (union_internal fu).

  Lemma nf_sloop : forall E id cap moved, NoDup cap ->
    (forall pp, In pp moved -> injective pp) ->
    (forall pp x, In pp moved -> In x cap -> get pp x <> None) ->
    forall s, kinv s -> hce E s -> (exists c, get_class s id = Ok c /\ incl (c_slots c) cap) ->
    nf (sloop (union_internal fu) id cap moved) s.
  Proof.
    intros E id cap moved Nd. induction moved as [|pp t IH]; intros Hinj Hm s Hk Hh (c & Hc & Ic); unfold sloop; cbn [iterM];
      [apply nf_ret|].
    pose proof (covers_identity s id c Hc) as C1.
    apply nf_bind.
    - apply nf_bind_reads; [unfold class_slots; rewrite Hc; apply nfr_ok|]. intros sl Hsl. cbv zeta.
      unfold class_slots in Hsl. rewrite Hc in Hsl. cbn [bind] in Hsl. inversion Hsl; subst sl; clear Hsl.
      apply nf_bind_lift.
      { apply tot_nfr, tot_mapr. intros x Hx. unfold index. destruct (get pp x) as [y|] eqn:G; [cbn [bind]; eexists; reflexivity|].
        exfalso. eapply Hm; [left; reflexivity|exact Hx|exact G]. }
      intros ps Hps. apply nf_bind; [|intros; apply nf_ret].
      apply (H_nf E); [exact Hk|exact Hh|exact C1|].
      eapply moved_covers; [exact Nd|apply Hinj; left; reflexivity|exact Hc|exact Ic|exact Hps].
    - intros u s1 H1.
      apply bind_reads_inv in H1. destruct H1 as (sl & Hsl & H1). cbv zeta in H1.
      apply mbind_inv in H1. destruct H1 as (ps & s0 & Hps & H1). apply lift_inv in Hps. destruct Hps as [Hps ->].
      apply mbind_inv in H1. destruct H1 as (b & s2 & H1 & H2). inversion H2; subst u s2; clear H2.
      unfold class_slots in Hsl. rewrite Hc in Hsl. cbn [bind] in Hsl. inversion Hsl; subst sl; clear Hsl.
      assert (C2 : covers s {| aid := id; am := from_iter ps |}).
      { eapply moved_covers; [exact Nd|apply Hinj; left; reflexivity|exact Hc|exact Ic|exact Hps]. }
      destruct (kinv_union_internal fu _ _ _ _ _ Hk C1 C2 H1) as [Hk1 E1].
      pose proof (hce_union_internal fu E _ _ _ _ _ H1 Hh) as Hh1.
      destruct (proj2 (proj2 E1) _ _ Hc) as (c1 & Hc1 & I1 & _).
      apply (IH (fun q Hq => Hinj q (or_intror Hq)) (fun q x Hq Hx => Hm q x (or_intror Hq) Hx) s1 Hk1 Hh1).
      exists c1. split; [exact Hc1|]. eapply incl_tran; eauto.
  Qed.

  Theorem nf_shrink_slots : forall E from cap s, kinv s -> hce E s -> lcanon s from -> cap_ok from cap ->
    nf (shrink_slots (union_internal fu) from cap) s.
  Proof.
    intros E from cap s Hk Hh L Hcap. unfold nf. rewrite shrink_split.
    change (nf (dom r <- shrink_pre from cap; sloop (union_internal fu) (aid from) (fst r) (snd r)) s).
    pose proof (kinv_eg_inv s Hk) as Hs.
    apply nf_bind; [apply nf_shrink_pre; assumption|].
    intros [oc0 moved0] s3 Hpre. cbn [fst snd].
    pose proof L as [Ld (c & Hc & Gc & Wf & Bf & Kf)].
    pose proof Hpre as Hpre0.
    unfold shrink_pre in Hpre. cbv zeta in Hpre.
    apply mbind_inv in Hpre. destruct Hpre as (ocl & s0 & Hoc & Hpre). apply lift_inv in Hoc. destruct Hoc as [Hoc ->].
    destruct (sset_of_list_spec ocl) as [Woc Ioc].
    apply mbind_inv in Hpre. destruct Hpre as (u1 & s1 & H1 & Hpre).
    unfold record_redundancy_witness in H1. apply bind_reads_inv in H1. destruct H1 as (ss & Hss & H1).
    pose proof (unionfind_set_classes _ _ _ _ _ H1) as Cl1.
    apply bind_reads_inv in Hpre. destruct Hpre as (c1 & Hc1 & Hpre).
    assert (c1 = c). { unfold get_class in Hc1, Hc. rewrite Cl1 in Hc1. congruence. } subst c1.
    apply mbind_inv in Hpre. destruct Hpre as (flags & s0 & Hfl & Hpre). apply lift_inv in Hfl. destruct Hfl as [Hfl ->].
    apply mbind_inv in Hpre. destruct Hpre as (g & s0 & Hg & Hpre). apply lift_inv in Hg. destruct Hg as [Hg ->].
    apply mbind_inv in Hpre. destruct Hpre as (u2 & s2 & H2 & Hpre).
    apply mbind_inv in Hpre. destruct Hpre as (u3 & s3' & H3 & Hpre). inversion Hpre; subst oc0 moved0 s3'; clear Hpre.
    set (oc := sset_of_list ocl) in *.
    assert (Ic : incl oc (c_slots c)).
    { intros y Hy. apply Ioc in Hy. destruct (mapr_in _ _ _ Hoc y Hy) as (x0 & _ & E0). unfold index in E0.
      destruct (get (inv (am from)) x0) as [y'|] eqn:G; [|discriminate]. inversion E0; subst y'.
      apply (get_inverse _ _ _ Wf Bf) in G. rewrite <- Kf. apply keys_spec. congruence. }
    (* the class of `from` before the loop *)
    destruct (upd_class_views _ _ _ _ _ H2) as (c2 & Hc2 & Hc2' & _).
    rewrite Hc1 in Hc2. inversion Hc2; subst c2; clear Hc2.
    assert (Hc3 : get_class s3 (aid from) = Ok (with_group (with_slots c oc) g)).
    { pose proof H3 as H3'. unfold touched_class in H3'. apply bind_reads_inv in H3'. destruct H3' as (c0 & _ & H3').
      destruct (touch_list_spec _ _ _ _ H3') as (p' & -> & _). exact Hc2'. }
    assert (Sub : forall j y p, stored s3 j y p -> stored s j y p).
    { intros j y p S. eapply stored_unionfind_set; [exact H1|].
      eapply stored_upd_class; [|exact H2|]; [intros c0; reflexivity|].
      eapply stored_touched_class; [exact H3|exact S]. }
    (* the moved generators are permutations of the old slot set *)
    pose proof (grp_ok_generators c Gc) as Gens.
    set (moved := map fst (filter (fun p => negb (snd p)) (combine (ggenerators (c_group c)) flags))) in *.
    assert (MP : forall pp, In pp moved -> perm_on (c_slots c) pp).
    { intros pp Hpp. unfold moved in Hpp.
      apply in_map_iff in Hpp. destruct Hpp as ([pp' b0] & Epp & Hin). cbn [fst] in Epp. subst pp'.
      apply filter_In in Hin. destruct Hin as [Hin _].
      destruct (mapr_combine _ _ _ Hfl _ _ Hin) as [Hall _].
      exact (proj1 (Forall_forall _ _) Gens pp Hall). }
    assert (MI : forall pp, In pp moved -> injective pp).
    { intros pp Hpp. exact (proj1 (proj2 (proj2 (proj2 (MP pp Hpp))))). }
    assert (MG : forall pp x, In pp moved -> In x oc -> get pp x <> None).
    { intros pp x Hpp Hx. destruct (po_get (c_slots c) pp x (MP pp Hpp) (Ic x Hx)) as (v & Gv & _). congruence. }
    (* the invariants before the loop: run the prefix with a union that does nothing *)
    assert (D : shrink_slots ui0 from cap s = Ok (tt, s3)).
    { rewrite shrink_split. unfold mbind. rewrite Hpre0. cbn [fst snd]. eapply dummy_loop0; [exact Hc3|exact MG]. }
    destruct Hk as (I3 & M4 & K). pose proof I3 as [[Hs' Hbl] HN].
    assert (U0 : ui_spec ui0).
    { intros l0 r0 s4 b4 s4' Hs4 _ _ E4. inversion E4; subst. split; [exact Hs4|apply ext_refl]. }
    destruct (inv_shrink_slots ui0 U0 from cap s tt s3 Hs L D) as [Hs3 E3].
    assert (M43 : m4 s3).
    { refine (proj1 (h_shrink_slots ui0 _ from cap (lcanon_K1 _ _ M4 L) s tt s3 D M4)).
      intros l0 r0. apply h_ret. exact Logic.I. }
    assert (Hh3 : hce E s3).
    { refine (hce_shrink_slots ui0 _ E from cap s tt s3 D Hh).
      intros E0 l0 r0 s4 b4 s4' E4 H4. inversion E4; subst. exact H4. }
    pose proof (proj1 Hh3) as T3.
    assert (N3 : nodes_ok s3).
    { intros i c3 e Hc3i Hin. destruct e as [sh p].
      pose proof (ms_nodup_in_get _ _ _ (tb_cn s3 T3 i) ltac:(unfold cnodes; rewrite Hc3i; exact Hin)) as G3.
      assert (S3 : stored s3 i sh p) by exact G3.
      pose proof (Sub _ _ _ S3) as S0. destruct (SelfSymDefs.stored_get _ _ _ _ S0) as (c0 & Hc0 & G0).
      destruct (proj2 (proj2 E3) _ _ Hc0) as (c3' & Hc3' & Inc & _). rewrite Hc3i in Hc3'. inversion Hc3'; subst c3'.
      destruct (HN i c0 (sh, p) Hc0 (na_get_in _ _ _ G0)) as (A1 & A2 & A3 & A4).
      split; [exact A1|]. split; [exact A2|]. split; [exact A3|]. intros x0 Hx0. apply A4. apply Inc. exact Hx0. }
    assert (I33 : inv3 s3) by (eapply inv3_intro; [exact (conj Hs' Hbl)|exact Hs3|exact E3|exact N3]).
    assert (K3 : kids_ok s3).
    { eapply kids_ok_frame; [|exact E3|exact K].
      refine (ssub_shrink_slots ui0 _ from cap s tt s3 D).
      intros l0 r0 s4 b4 s4' E4. inversion E4; subst. apply ssub_refl. }
    eapply (nf_sloop E (aid from) oc moved (swf_NoDup _ Woc) MI MG s3 (conj I33 (conj M43 K3)) Hh3).
    eexists. split; [exact Hc3|]. cbn [c_slots with_group with_slots]. apply incl_refl.
  Qed.

  Theorem nf_union_leaders : forall E l r s, kinv s -> hce E s -> lcanon s l -> lcanon s r ->
    nf (union_leaders (union_internal fu) l r) s.
  Proof.
    intros E l r s Hk Hh Ll Lr. unfold union_leaders.
    pose proof (kinv_eg_inv s Hk) as Hs.
    pose proof (canon_covers _ _ (proj2 Ll)) as Cl. pose proof (canon_covers _ _ (proj2 Lr)) as Cr.
    apply nf_bind_reads.
    { destruct (eg_eq_sym_inv s l r (ei_uf s Hs) (ei_slots s Hs) Cl Cr) as (x & Hx & _). rewrite Hx. apply nfr_ok. }
    intros e _. destruct e; [apply nf_ret|]. cbv zeta.
    destruct (negb (sset_eqb (values (am l)) _)) eqn:E1.
    { apply nf_bind; [apply (nf_shrink_slots E); [exact Hk|exact Hh|exact Ll|apply cap_inter_ok]|].
      intros u1 s1 H1.
      destruct (kinv_shrink_slots fu _ _ _ _ _ Hk Ll H1) as [Hk1 X1].
      pose proof (hce_shrink_slots (union_internal fu) (hce_union_internal fu) E _ _ _ _ _ H1 Hh) as Hh1.
      apply nf_bind; [|intros; apply nf_ret].
      apply (H_nf E); [exact Hk1|exact Hh1|exact (covers_ext _ _ _ X1 Cl)|exact (covers_ext _ _ _ X1 Cr)]. }
    destruct (negb (sset_eqb (values (am r)) _)) eqn:E2.
    { apply nf_bind; [apply (nf_shrink_slots E); [exact Hk|exact Hh|exact Lr|apply cap_inter_ok_r]|].
      intros u1 s1 H1.
      destruct (kinv_shrink_slots fu _ _ _ _ _ Hk Lr H1) as [Hk1 X1].
      pose proof (hce_shrink_slots (union_internal fu) (hce_union_internal fu) E _ _ _ _ _ H1 Hh) as Hh1.
      apply nf_bind; [|intros; apply nf_ret].
      apply (H_nf E); [exact Hk1|exact Hh1|exact (covers_ext _ _ _ X1 Cl)|exact (covers_ext _ _ _ X1 Cr)]. }
    apply negb_false_iff in E1, E2. apply sset_eqb_eq in E1, E2.
    assert (V : values (am l) = values (am r)) by congruence.
    destruct (aid l =? aid r) eqn:E3; neq.
    - destruct Ll as [_ (cl & Hcl & Gl & Wl & Bl & Kl)]. destruct Lr as [_ (cr & Hcr & _ & Wr & Br & Kr)].
      rewrite <- E3, Hcl in Hcr. inversion Hcr; subst cr; clear Hcr.
      pose proof (get_class_lt _ _ _ Hcl) as Lcl.
      apply nf_bind_reads; [rewrite Hcl; apply nfr_ok|]. intros c Hc. rewrite Hcl in Hc; inversion Hc; subst c; clear Hc.
      assert (PO : perm_on (c_slots cl) (am r ** inv (am l))) by (apply quot_perm_on; auto).
      apply nf_bind_lift; [apply tot_nfr, gcontains_tot; assumption|]. intros b _. destruct b; [apply nf_ret|].
      apply nf_bind_lift; [apply tot_nfr, gadd_set_tot; [exact Gl|constructor; [exact PO|constructor]]|]. intros g _.
      apply nf_bind; [apply nf_upd_class; exact Lcl|]. intros u1 s1 H1. destruct (upd_class_lc _ _ _ _ _ H1) as [X1 _].
      apply nf_bind; [apply nf_touched_class; rewrite X1; exact Lcl|]. intros; apply nf_ret.
    - apply nf_bind_reads; [apply tot_nfr, get_class_tot, covers_lt; exact Cl|]. intros cl _.
      apply nf_bind_reads; [apply tot_nfr, get_class_tot, covers_lt; exact Cr|]. intros cr _. cbv zeta.
      apply nf_bind; [|intros; apply nf_ret].
      match goal with |- nf (if ?b then _ else _) _ => destruct b end.
      + eapply nf_move_to; [exact Hk|exact Hh|exact Ll|exact Lr| |exact V]. congruence.
      + eapply nf_move_to; [exact Hk|exact Hh|exact Lr|exact Ll| | ]; congruence.
  Qed.

  Theorem nf_union_internal_body : ui_nf (union_internal_body (union_internal fu)).
  Proof.
    intros E l r s Hk Hh Cl Cr. unfold union_internal_body. pose proof (kinv_eg_inv s Hk) as Hs.
    destruct (covers_find_ok s l (ei_uf s Hs) (ei_slots s Hs) Cl) as (l' & Fl & _).
    destruct (covers_find_ok s r (ei_uf s Hs) (ei_slots s Hs) Cr) as (r' & Fr & _).
    apply nf_bind_reads; [rewrite Fl; apply nfr_ok|]. intros l0 E0. rewrite Fl in E0; inversion E0; subst l0; clear E0.
    apply nf_bind_reads; [rewrite Fr; apply nfr_ok|]. intros r0 E0. rewrite Fr in E0; inversion E0; subst r0; clear E0.
    apply (nf_union_leaders E); [exact Hk|exact Hh|exact (covers_lcanon s l l' Hs Cl Fl)|exact (covers_lcanon s r r' Hs Cr Fr)].
  Qed.
End Core.

(* ------------------------------------------------------------------ *)
(* 7. closing the recursion *)

Theorem nf_union_internal : forall fuel, ui_nf (union_internal fuel).
Proof.
  induction fuel as [|f IH]; [intros E l r s _ _ _ _; apply nf_fail_fuel|].
  intros E l r. rewrite union_internal_S. apply nf_union_internal_body. exact IH.
Qed.

Corollary nf_uint : ui_nf uint.
Proof. unfold uint. apply nf_union_internal. Qed.

Theorem nf_shrink_slots_uint : forall E from cap s, kinv s -> hce E s -> lcanon s from -> cap_ok from cap ->
  nf (shrink_slots uint from cap) s.
Proof. intros E from cap s. unfold uint. apply (nf_shrink_slots ui_fuel (nf_union_internal ui_fuel)). Qed.

Theorem nf_union_leaders_uint : forall E l r s, kinv s -> hce E s -> lcanon s l -> lcanon s r ->
  nf (union_leaders uint l r) s.
Proof. intros E l r s. unfold uint. apply (nf_union_leaders ui_fuel (nf_union_internal ui_fuel)). Qed.

Print Assumptions nf_union_internal.
Print Assumptions nf_uint.
Print Assumptions nf_shrink_slots_uint.
Print Assumptions nf_move_to.
Print Assumptions nf_union_leaders_uint.
Print Assumptions nf_shrink_slots.
Print Assumptions nf_union_leaders.
Print Assumptions cap_inter_ok.
Print Assumptions gadd_set_tot.
