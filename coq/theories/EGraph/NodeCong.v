(* EGraph/NodeCong.v — C01: node congruence modulo the e-graph (definitions).
   `kid_eq s a b`: two covered invocations that `eg_eq` identifies.
   `nc s n m`: m is obtained from n by finitely many steps of (1) injective renaming of the slots
   (`ren g` with `ren_ok g`) and (2) replacing the children by eg-equal ones.  `nc` is monotone along
   steps that keep `covers` and `eg_eq` (MonotoneFacts.mext), and `shape` does not distinguish
   nc-related nodes (EGraph/ShapeCong.v). *)
From SE Require Import Slots.SlotMapFacts Group.GroupSound Lang.LangFacts Lang.ShapeFacts Lang.RenameFacts
  EGraph.Model EGraph.ModelFacts EGraph.ModelMachine EGraph.UnionFindFacts EGraph.InvariantFacts
  EGraph.UnionInvariantFacts EGraph.AddCoversFacts EGraph.HashconsShape.

Definition kid_eq (s : egraph) (a b : appid) : Prop :=
  covers s a /\ covers s b /\ eg_eq s a b = Ok true.

Inductive nc (s : egraph) (n : node) : node -> Prop :=
| nc_refl : nc s n n
| nc_ren : forall m g, nc s n m -> ren_ok g m -> nc s n (RenameFacts.ren g m)
| nc_kids : forall m l, nc s n m -> Forall2 (kid_eq s) (app_occ m) l -> nc s n (set_apps m l).

(* the two local statements proved in EGraph/ShapeCong.v *)
Definition spec_shape_kid_eq : Prop :=
  forall s n l t, eg_inv s -> Forall2 (kid_eq s) (app_occ n) l -> shape s n = Ok t ->
    exists b, shape s (set_apps n l) = Ok (fst t, b).
