(* EGraph/NodePass.v — a refinement of the generic pass of ModelFacts.v (Section Pres) for
   invariants that speak about the stored nodes `c_nodes`: such invariants are not preserved by an
   arbitrary `set_classes`, but they are preserved by every class update that keeps `c_nodes`, and
   `c_nodes` is written by `raw_add_to_class` / `raw_remove_from_class` only.  The pass below takes
   these three facts as hypotheses instead of `H_cls`.
   Instance: `kids_exist` (the children of the stored nodes exist) is an invariant of every
   reachable state (`kids_exist_add_expr`, `kids_exist_eg_union`, `reachable_kids_exist`). *)
From SE Require Import Slots.SlotMapFacts EGraph.Model EGraph.ModelFacts EGraph.ModelMachine EGraph.UnionFindFacts
  EGraph.InvariantFacts EGraph.UnionInvariantFacts EGraph.AddCoversFacts.
Require Import ZArith Lia ZifyBool ZifyN ZifyNat.
Ltac Zify.zify_post_hook ::= Z.div_mod_to_equations.

Local Ltac neq := repeat match goal with
  | H : (_ =? _) = true |- _ => apply N.eqb_eq in H
  | H : (_ =? _) = false |- _ => apply N.eqb_neq in H
  end.

Section Pres2.
  Variable R : egraph -> egraph -> Prop.
  Hypothesis R_refl : forall s, R s s.
  Hypothesis R_trans : forall a b c, R a b -> R b c -> R a c.
  Local Notation pres := (ModelFacts.pres R).

  Hypothesis H_pend : forall s p, R s (set_pending s p).
  Hypothesis H_upd : forall i f, (forall c, c_nodes (f c) = c_nodes c) -> pres (upd_class i f).
  Hypothesis H_add : forall id t src, pres (raw_add_to_class id t src).
  Hypothesis H_rem : forall id sh, pres (raw_remove_from_class id sh).
  Hypothesis H_ufset : forall i p s s', unionfind_set i p s = Ok (tt, s') ->
    (N.to_nat i < List.length (classes s))%nat -> R s s'.
  Hypothesis H_fresh : pres fresh.
  Hypothesis H_cf : forall a b, pres (with_ctr (compose_fresh a b)).
  Hypothesis H_asf : forall lg m n, pres (with_ctr (apply_slotmap_fresh lg m n)).

  Lemma p2_ret : forall A (a : A), pres (ret a).
  Proof. apply (pres_ret R R_refl). Qed.
  Lemma p2_fail : forall A e, pres (@fail A e).
  Proof. apply (pres_fail R). Qed.
  Lemma p2_lift : forall A (r : res A), pres (Model.lift r).
  Proof. apply (pres_lift R R_refl). Qed.
  Lemma p2_reads : forall A (f : egraph -> res A), pres (reads f).
  Proof. apply (pres_reads R R_refl). Qed.
  Lemma p2_gets : forall A (f : egraph -> A), pres (gets f).
  Proof. apply (pres_gets R R_refl). Qed.
  Lemma p2_modify : forall f, (forall s, R s (f s)) -> pres (modify f).
  Proof. apply (pres_modify R). Qed.
  Lemma p2_bind : forall A C (m : M A) (k : A -> M C), pres m -> (forall a, pres (k a)) -> pres (mbind m k).
  Proof. apply (pres_bind R R_trans). Qed.
  Lemma p2_mapM : forall A C (f : A -> M C) l, (forall x, pres (f x)) -> pres (mapM f l).
  Proof. apply (pres_mapM R R_refl R_trans). Qed.
  Lemma p2_iterM : forall A (f : A -> M unit) l, (forall x, pres (f x)) -> pres (iterM f l).
  Proof. apply (pres_iterM R R_refl R_trans). Qed.

  Lemma p2_pending_insert : forall sh ty, pres (pending_insert sh ty).
  Proof. intros. apply p2_modify. intros; apply H_pend. Qed.
  Lemma p2_pending_touch : forall sh ty, pres (pending_touch sh ty).
  Proof. intros. apply p2_modify. intros; apply H_pend. Qed.

  Lemma p2_get_then_ufset : forall i A (p : A -> appid) (f : egraph -> res A),
    (forall s a, f s = Ok a -> exists c, get_class s i = Ok c) ->
    pres (dom a <- reads f; unionfind_set i (p a)).
  Proof.
    intros i A p f Hf s x s' H. unfold mbind, reads in H.
    destruct (f s) as [a|] eqn:E; [|discriminate]. destruct x.
    destruct (Hf _ _ E) as [c Hc]. eapply H_ufset; eauto. eapply get_class_lt; eauto.
  Qed.
  Lemma p2_ufset_then_get : forall i p A (k : eclass -> M A),
    (forall c, pres (k c)) ->
    pres (dom _ <- unionfind_set i p; dom cf <- reads (fun s => get_class s i); k cf).
  Proof.
    intros i p A k Hk s x s' H. unfold mbind at 1 in H.
    destruct (unionfind_set i p s) as [[[] s1]|] eqn:E1; [|discriminate].
    unfold mbind, reads in H. destruct (get_class s1 i) as [c1|] eqn:E2; [|discriminate].
    eapply R_trans; [|eapply Hk; eauto].
    eapply H_ufset; eauto. rewrite <- (unionfind_set_classes _ _ _ _ _ E1).
    eapply get_class_lt; eauto.
  Qed.

  Ltac pstep :=
    cbv beta zeta;
    match goal with
    | |- pres (mbind _ _) => apply p2_bind; [| intros ?]
    | |- pres (ret _) => apply p2_ret
    | |- pres (fail _) => apply p2_fail
    | |- pres (Model.lift _) => apply p2_lift
    | |- pres (reads _) => apply p2_reads
    | |- pres (gets _) => apply p2_gets
    | |- pres (iterM _ _) => apply p2_iterM; intros ?
    | |- pres (mapM _ _) => apply p2_mapM; intros ?
    | |- pres (upd_class _ _) => apply H_upd; intros ?; reflexivity
    | |- pres (pending_insert _ _) => apply p2_pending_insert
    | |- pres (pending_touch _ _) => apply p2_pending_touch
    | |- pres (modify (fun s => set_pending s _)) => apply p2_modify; intros; apply H_pend
    | |- pres fresh => apply H_fresh
    | |- pres (with_ctr (compose_fresh _ _)) => apply H_cf
    | |- pres (with_ctr (apply_slotmap_fresh _ _ _)) => apply H_asf
    | |- pres (match ?x with _ => _ end) => destruct x
    | |- pres _ => solve [auto]
    end.
  Ltac psolve := repeat pstep.

  Lemma p2_fill_fresh : forall l m, pres (fill_fresh l m).
  Proof. apply (pres_fill_fresh R R_refl R_trans H_fresh). Qed.
  Lemma p2_synify_app_id : forall a, pres (synify_app_id a).
  Proof. apply (pres_synify_app_id R R_refl R_trans H_fresh). Qed.
  Lemma p2_synify_enode : forall n, pres (synify_enode n).
  Proof. apply (pres_synify_enode R R_refl R_trans H_fresh). Qed.

  Lemma p2_touched_class : forall i ty, pres (touched_class i ty).
  Proof. intros i ty. unfold touched_class. psolve. Qed.
  Lemma p2_pc_congruence : forall a b, pres (pc_congruence a b).
  Proof. intros a b. unfold pc_congruence. psolve. Qed.

  Lemma p2_record_redundancy_witness : forall i cap, pres (record_redundancy_witness i cap).
  Proof.
    intros i cap. unfold record_redundancy_witness.
    apply (p2_get_then_ufset i _
             (fun ss => {| aid := i; am := compose_partial (identity ss) (identity cap) |})).
    intros s a H. unfold syn_slots in H. destruct (get_class s i); [eauto|discriminate].
  Qed.

  Lemma p2_move_to : forall from to, pres (move_to from to).
  Proof.
    intros from to. unfold move_to. cbv zeta.
    pose proof H_add. pose proof H_rem. pose proof p2_touched_class.
    apply p2_ufset_then_get. intros cf. psolve.
  Qed.

  Section Ui.
    Variable ui : appid -> appid -> M bool.
    Hypothesis H_ui : forall l r, pres (ui l r).

    Lemma p2_shrink_slots : forall from cap, pres (shrink_slots ui from cap).
    Proof.
      intros from cap. unfold shrink_slots.
      pose proof p2_record_redundancy_witness. pose proof p2_touched_class. psolve.
    Qed.
    Lemma p2_union_leaders : forall l r, pres (union_leaders ui l r).
    Proof.
      intros l r. unfold union_leaders.
      pose proof p2_shrink_slots. pose proof p2_touched_class. pose proof p2_move_to. psolve.
    Qed.
    Lemma p2_union_internal_body : forall l r, pres (union_internal_body ui l r).
    Proof. intros l r. unfold union_internal_body. pose proof p2_union_leaders. psolve. Qed.
  End Ui.

  Lemma p2_union_internal : forall fuel l r, pres (union_internal fuel l r).
  Proof.
    induction fuel as [|fuel IHfuel]; intros l r; cbn [union_internal]; [apply p2_fail|].
    apply p2_union_internal_body. exact IHfuel.
  Qed.
  Lemma p2_uint : forall l r, pres (uint l r).
  Proof. intros; apply p2_union_internal. Qed.

  Lemma p2_handle_shrink : forall src, pres (handle_shrink_in_upwards_merge src).
  Proof.
    intros src. unfold handle_shrink_in_upwards_merge.
    pose proof p2_pc_congruence. pose proof (p2_shrink_slots uint p2_uint). psolve.
  Qed.
  Lemma p2_handle_congruence : forall pc, pres (handle_congruence pc).
  Proof.
    intros pc. unfold handle_congruence. pose proof p2_pc_congruence. pose proof p2_uint. psolve.
  Qed.
  Lemma p2_determine_self_symmetries : forall src, pres (determine_self_symmetries src).
  Proof.
    intros src. unfold determine_self_symmetries.
    pose proof p2_pc_congruence. pose proof p2_uint. psolve.
  Qed.
  Lemma p2_hp_loop : forall fuel src enode i, pres (hp_loop fuel src enode i).
  Proof.
    induction fuel as [|fuel IHfuel]; intros src enode i; cbn [hp_loop]; [apply p2_fail|].
    pose proof p2_handle_shrink. psolve.
  Qed.
  Lemma p2_handle_pending : forall sh ty, pres (handle_pending sh ty).
  Proof.
    intros sh ty. unfold handle_pending.
    pose proof H_rem. pose proof p2_hp_loop. pose proof p2_handle_congruence.
    pose proof H_add. pose proof p2_determine_self_symmetries.
    pose proof p2_fill_fresh as Hff. unfold fill_fresh in Hff. psolve.
  Qed.
  Lemma p2_rebuild : forall fuel, pres (rebuild fuel).
  Proof.
    induction fuel as [|fuel IHfuel]; [apply p2_fail|]. rewrite rebuild_S.
    pose proof p2_handle_pending. psolve.
  Qed.

  Lemma p2_eg_union : forall l r, pres (eg_union l r).
  Proof.
    intros l r. unfold eg_union.
    pose proof p2_synify_app_id. pose proof p2_uint. pose proof p2_rebuild. psolve.
  Qed.

  Hypothesis H_bff : forall l, pres (with_ctr (bijection_from_fresh_to l)).
  Hypothesis H_refresh : forall n, pres (refresh_step n).
  Hypothesis H_alloc : forall sl syn, pres (alloc_eclass sl syn).

  Lemma p2_mk_singleton_class : forall n, pres (mk_singleton_class n).
  Proof.
    intros n. unfold mk_singleton_class.
    pose proof H_add. pose proof p2_rebuild. psolve.
  Qed.
  Lemma p2_add_internal : forall t, pres (add_internal t).
  Proof.
    intros t. unfold add_internal.
    pose proof p2_synify_enode. pose proof p2_mk_singleton_class.
    pose proof H_refresh as Hr. unfold refresh_step in Hr. psolve.
  Qed.
  Lemma p2_eg_add : forall n, pres (eg_add n).
  Proof. intros n. unfold eg_add. pose proof p2_add_internal. psolve. Qed.
  Lemma p2_add_expr : forall t, pres (add_expr t).
  Proof.
    fix IH 1. intros [n ch]. cbn [add_expr]. apply p2_bind.
    - induction ch as [|c r IHr]; [apply p2_ret|].
      apply p2_bind; [apply IH|]. intros a. apply p2_bind; [apply IHr|]. intros; apply p2_ret.
    - intros l. destruct (Nat.ltb _ _); [apply p2_fail | apply p2_eg_add].
  Qed.
End Pres2.

(* ====================================================================== *)
(* instance: the children of the stored nodes exist                        *)
(* ====================================================================== *)

Definition kids_exist (s : egraph) : Prop :=
  forall i c sh bij src a, get_class s i = Ok c -> In (sh, (bij, src)) (c_nodes c) -> In a (app_occ sh) ->
    exists ca, get_class s (aid a) = Ok ca.

Definition keR (s s' : egraph) : Prop := kids_exist s -> kids_exist s'.
Lemma keR_refl : forall s, keR s s.
Proof. intros s K. exact K. Qed.
Lemma keR_trans : forall a b c, keR a b -> keR b c -> keR a c.
Proof. intros a b c H1 H2 K. exact (H2 (H1 K)). Qed.

Lemma get_class_cls : forall s s' i, classes s' = classes s -> get_class s' i = get_class s i.
Proof. intros s s' i Hc. unfold get_class. rewrite Hc. reflexivity. Qed.

Lemma kids_exist_classes : forall s s', classes s' = classes s -> kids_exist s -> kids_exist s'.
Proof.
  intros s s' C K i c sh bij src a Hc Hin Ha. rewrite (get_class_cls _ _ _ C) in Hc.
  destruct (K _ _ _ _ _ _ Hc Hin Ha) as [ca Hca]. exists ca. rewrite (get_class_cls _ _ _ C). exact Hca.
Qed.

Lemma kids_exist_empty : kids_exist empty_egraph.
Proof. intros i c sh bij src a H. unfold get_class in H. cbn in H. destruct (N.to_nat i); discriminate. Qed.

(* existence of classes depends on the number of classes only *)
Lemma class_exists_len : forall s s' r, lc s' = lc s -> (exists c, get_class s r = Ok c) -> exists c', get_class s' r = Ok c'.
Proof.
  intros s s' r L [c Hc]. apply get_class_ok. rewrite L. eapply get_class_lt; eauto.
Qed.

Lemma ke_upd : forall i f, (forall c, c_nodes (f c) = c_nodes c) -> pres keR (upd_class i f).
Proof.
  intros i f Hf s x s' H K. apply upd_class_inv in H. destruct H as (c & Hc & ->).
  pose proof (get_class_lt _ _ _ Hc) as L.
  assert (Len : lc (set_classes s (set_nth (classes s) (N.to_nat i) (f c))) = lc s) by (cbn [classes set_classes]; apply set_nth_length).
  intros j cj sh bij src a Hj Hin Ha. apply (class_exists_len s _ _ Len).
  rewrite (get_class_upd s i (f c) j L) in Hj. destruct (j =? i) eqn:E; neq.
  - subst j. inversion Hj; subst cj. rewrite Hf in Hin. exact (K _ _ _ _ _ _ Hc Hin Ha).
  - exact (K _ _ _ _ _ _ Hj Hin Ha).
Qed.

(* the usages loop succeeds only on existing classes *)
Lemma iterM_upd_exists : forall (F : eclass -> eclass) l s x s',
  iterM (fun r => upd_class r F) l s = Ok (x, s') -> lc s' = lc s /\ forall r, In r l -> (N.to_nat r < lc s)%nat.
Proof.
  intros F. induction l as [|r0 t IH]; intros s x s' H; cbn [iterM] in H.
  - inversion H; subst. split; [reflexivity|]. intros r [].
  - apply mbind_inv in H. destruct H as (u & s1 & H1 & H). apply upd_class_inv in H1. destruct H1 as (c & Hc & ->).
    destruct (IH _ _ _ H) as [L1 B1]. cbn [classes set_classes] in L1, B1. rewrite set_nth_length in L1, B1.
    split; [exact L1|]. intros r [<-|Hr]; [eapply get_class_lt; eauto|apply B1; exact Hr].
Qed.

(* the entries of the classes after raw_add_to_class / raw_remove_from_class *)
Lemma raw_add_nodes : forall id sh bij src s x s', raw_add_to_class id (sh, bij) src s = Ok (x, s') ->
  forall j c c' e, get_class s j = Ok c -> get_class s' j = Ok c' -> In e (c_nodes c') ->
    In e (c_nodes c) \/ (j = id /\ e = (sh, (bij, src))).
Proof.
  intros id sh bij src s x s' H j c c' e Hc Hc' Hin. unfold raw_add_to_class in H.
  apply mbind_inv in H. destruct H as (u1 & s1 & H1 & H). apply upd_class_inv in H1. destruct H1 as (c1 & Hc1 & ->).
  apply mbind_inv in H. destruct H as (u2 & s2 & H2 & H). inversion H2; subst u2 s2; clear H2.
  apply usages_nsame in H. destruct (H _ _ Hc') as (cm & Hcm & En & _). rewrite En in Hin.
  pose proof (get_class_lt _ _ _ Hc1) as L.
  assert (Hj' : get_class (set_classes s (set_nth (classes s) (N.to_nat id) (with_nodes c1 (na_set (c_nodes c1) sh (bij, src))))) j = Ok cm) by exact Hcm.
  rewrite (get_class_upd s id _ j L) in Hj'. destruct (j =? id) eqn:Ej; neq.
  - subst j. rewrite Hc in Hc1. inversion Hc1; subst c1. inversion Hj'; subst cm. cbn [c_nodes with_nodes] in Hin.
    apply na_set_in in Hin. destruct Hin as [->|Hin]; [right; split; reflexivity|left; exact Hin].
  - rewrite Hc in Hj'. inversion Hj'; subst cm. left. exact Hin.
Qed.

Lemma raw_add_kids : forall id sh bij src s x s', raw_add_to_class id (sh, bij) src s = Ok (x, s') ->
  forall a, In a (app_occ sh) -> (N.to_nat (aid a) < lc s)%nat.
Proof.
  intros id sh bij src s x s' H a Ha. unfold raw_add_to_class in H.
  apply mbind_inv in H. destruct H as (u1 & s1 & H1 & H). apply upd_class_inv in H1. destruct H1 as (c1 & Hc1 & ->).
  apply mbind_inv in H. destruct H as (u2 & s2 & H2 & H). inversion H2; subst u2 s2; clear H2.
  destruct (iterM_upd_exists _ _ _ _ _ H) as [_ B]. cbn [classes set_classes set_hashcons] in B. rewrite set_nth_length in B.
  apply B. unfold node_ids. apply in_map. exact Ha.
Qed.

Lemma raw_remove_nodes : forall id sh s p s', raw_remove_from_class id sh s = Ok (p, s') ->
  forall j c c' e, get_class s j = Ok c -> get_class s' j = Ok c' -> In e (c_nodes c') -> In e (c_nodes c).
Proof.
  intros id sh s p s' H j c c' e Hcj Hc' Hin. unfold raw_remove_from_class in H.
  apply bind_reads_inv in H. destruct H as (c0 & Hc0 & H).
  apply mbind_inv in H. destruct H as (u1 & s1 & H1 & H). apply upd_class_inv in H1. destruct H1 as (c1 & Hc1 & ->).
  rewrite Hc0 in Hc1. inversion Hc1; subst c1; clear Hc1.
  apply mbind_inv in H. destruct H as (u2 & s2 & H2 & H). inversion H2; subst u2 s2; clear H2.
  apply mbind_inv in H. destruct H as (u3 & s3 & H3 & H).
  assert (s' = s3) by (destruct (na_get (c_nodes c0) sh); inversion H; reflexivity). subst s3.
  apply usages_nsame in H3. destruct (H3 _ _ Hc') as (cm & Hcm & En & _). rewrite En in Hin.
  pose proof (get_class_lt _ _ _ Hc0) as L.
  assert (Hj' : get_class (set_classes s (set_nth (classes s) (N.to_nat id) (with_nodes c0 (na_remove (c_nodes c0) sh)))) j = Ok cm) by exact Hcm.
  rewrite (get_class_upd s id _ j L) in Hj'. destruct (j =? id) eqn:Ej; neq.
  - subst j. rewrite Hcj in Hc0. inversion Hc0; subst c0. inversion Hj'; subst cm. cbn [c_nodes with_nodes] in Hin.
    apply na_remove_in in Hin. exact Hin.
  - rewrite Hcj in Hj'. inversion Hj'; subst cm. exact Hin.
Qed.

Lemma ke_add : forall id t src, pres keR (raw_add_to_class id t src).
Proof.
  intros id [sh bij] src s x s' H K.
  destruct (s_raw_add _ _ _ _ _ _ H) as [Q _]. destruct (sem_eq_lengths _ _ Q) as [_ Len].
  intros j cj sh0 bij0 src0 a Hj Hin Ha.
  assert (Lj : (N.to_nat j < lc s)%nat) by (rewrite <- Len; eapply get_class_lt; eauto).
  destruct (get_class_ok s j Lj) as [c0 Hc0].
  destruct (raw_add_nodes _ _ _ _ _ _ _ H _ _ _ _ Hc0 Hj Hin) as [Old|[_ Ee]].
  - apply (class_exists_len s s' _ Len). exact (K _ _ _ _ _ _ Hc0 Old Ha).
  - inversion Ee; subst sh0 bij0 src0. apply get_class_ok. rewrite Len. exact (raw_add_kids _ _ _ _ _ _ _ H a Ha).
Qed.

Lemma ke_rem : forall id sh, pres keR (raw_remove_from_class id sh).
Proof.
  intros id sh s p s' H K.
  destruct (s_raw_remove _ _ _ _ _ H) as [Q _]. destruct (sem_eq_lengths _ _ Q) as [_ Len].
  intros j cj sh0 bij0 src0 a Hj Hin Ha.
  assert (Lj : (N.to_nat j < lc s)%nat) by (rewrite <- Len; eapply get_class_lt; eauto).
  destruct (get_class_ok s j Lj) as [c0 Hc0].
  pose proof (raw_remove_nodes _ _ _ _ _ H _ _ _ _ Hc0 Hj Hin) as Old.
  apply (class_exists_len s s' _ Len). exact (K _ _ _ _ _ _ Hc0 Old Ha).
Qed.

Lemma ke_ctr : forall s c, keR s (set_ctr s c).
Proof. intros s c K. apply (kids_exist_classes s); [reflexivity|exact K]. Qed.

Lemma ke_alloc : forall sl syn, pres keR (alloc_eclass sl syn).
Proof.
  intros sl syn s i s' H K. pose proof (alloc_eclass_exact _ _ _ _ _ H) as (_ & _ & C & _).
  intros j cj sh bij src a Hj Hin Ha. apply (get_class_ext_inv s s' _ C) in Hj. destruct Hj as [Hj|[_ ->]]; [|destruct Hin].
  destruct (K _ _ _ _ _ _ Hj Hin Ha) as [ca Hca]. exists ca. exact (get_class_ext_old s s' _ C _ _ Hca).
Qed.

Section KE.
  Let P1 : forall s p, keR s (set_pending s p).
  Proof. intros s p K. apply (kids_exist_classes s); [reflexivity|exact K]. Qed.
  Let P3 : forall i p s s', unionfind_set i p s = Ok (tt, s') -> (N.to_nat i < lc s)%nat -> keR s s'.
  Proof. intros i p s s' H _ K. apply (kids_exist_classes s); [eapply unionfind_set_classes; eauto|exact K]. Qed.
  Let P4 : pres keR fresh.
  Proof. intros s x s' H. inversion H. apply ke_ctr. Qed.
  Let P5 : forall A (f : N -> A * N), pres keR (with_ctr f).
  Proof. intros A f s x s' H. apply with_ctr_spec in H. subst s'. apply ke_ctr. Qed.
  Let P6 : forall n, pres keR (refresh_step n).
  Proof. intros n s x s' H. apply refresh_step_spec in H. subst s'. apply ke_ctr. Qed.

  Theorem kids_exist_add_expr : forall t s a s', kids_exist s -> add_expr t s = Ok (a, s') -> kids_exist s'.
  Proof.
    intros t s a s' K H.
    exact (p2_add_expr keR keR_refl keR_trans P1 ke_upd ke_add ke_rem P3 P4 (fun a b => P5 _ _) (fun lg m n => P5 _ _)
             (fun l => P5 _ _) P6 ke_alloc t s a s' H K).
  Qed.

  Theorem kids_exist_add_internal : forall t s a s', kids_exist s -> add_internal t s = Ok (a, s') -> kids_exist s'.
  Proof.
    intros t s a s' K H.
    exact (p2_add_internal keR keR_refl keR_trans P1 ke_upd ke_add ke_rem P3 P4 (fun a b => P5 _ _) (fun lg m n => P5 _ _)
             (fun l => P5 _ _) P6 ke_alloc t s a s' H K).
  Qed.

  Theorem kids_exist_eg_union : forall l r s b s', kids_exist s -> eg_union l r s = Ok (b, s') -> kids_exist s'.
  Proof.
    intros l r s b s' K H.
    exact (p2_eg_union keR keR_refl keR_trans P1 ke_upd ke_add ke_rem P3 P4 (fun a b => P5 _ _) (fun lg m n => P5 _ _)
             l r s b s' H K).
  Qed.

  Theorem kids_exist_rebuild : forall fuel s x s', kids_exist s -> rebuild fuel s = Ok (x, s') -> kids_exist s'.
  Proof.
    intros fuel s x s' K H.
    exact (p2_rebuild keR keR_refl keR_trans P1 ke_upd ke_add ke_rem P3 P4 (fun a b => P5 _ _) (fun lg m n => P5 _ _)
             fuel s x s' H K).
  Qed.
End KE.

Theorem kids_exist_run_ops : forall terms ops hs s hs' s', kids_exist s ->
  run_ops terms ops hs s = Ok (hs', s') -> kids_exist s'.
Proof.
  intros terms. induction ops as [|o t IH]; intros hs s hs' s' K H; cbn [run_ops] in H.
  - inversion H; subst. exact K.
  - destruct o as [k|i j just].
    + destruct (nth_opt terms k) as [tm|] eqn:Ek; [|discriminate].
      apply mbind_inv in H. destruct H as (a & s1 & H1 & H).
      exact (IH _ _ _ _ (kids_exist_add_expr _ _ _ _ K H1) H).
    + destruct (nth_opt hs i) as [a|] eqn:Ei; [|discriminate]. destruct (nth_opt hs j) as [b|] eqn:Ej; [|discriminate].
      apply mbind_inv in H. destruct H as (u & s1 & H1 & H).
      exact (IH _ _ _ _ (kids_exist_eg_union _ _ _ _ _ K H1) H).
Qed.

Corollary reachable_kids_exist : forall terms ops hs s, run_ops terms ops [] empty_egraph = Ok (hs, s) -> kids_exist s.
Proof. intros terms ops hs s H. exact (kids_exist_run_ops terms ops [] empty_egraph hs s kids_exist_empty H). Qed.

Print Assumptions kids_exist_add_expr.
Print Assumptions kids_exist_eg_union.
Print Assumptions reachable_kids_exist.
