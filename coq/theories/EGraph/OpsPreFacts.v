(* EGraph/OpsPreFacts.v — the DYNAMIC premise `ops_pre` (HashconsFacts.v) of the reachable-state theorems follows
   from a STATIC, decidable well-formedness predicate on the inserted terms.

   Slot-name convention (SoundFacts.v `rt_ok`, Mod4Facts.v): residue 1 mod 4 = names drawn from the fresh counter
   (the counter starts at 1 and moves in steps of 4); 0 mod 4 = numeric user names (and the names of weak shapes);
   2 mod 4 = named user slots; 3 mod 4 = reserved binder names (only the semantic soundness theorem C01 excludes them).

   Definitions.
   - `term_static t`: every node n (with children ch) of t has pairwise distinct binder names (`NoDup (binders n)`),
     exactly one child per applied-id position (`length ch = length (app_occ n)`), and every slot name occurring in
     it (`all_occ n`: free occurrences, binders, and the values of its placeholder invocations) has residue <> 1
     mod 4.  `term_staticb`: its boolean form (`term_staticb_iff`).
     `term_static_parts`: term_static t <-> twf t /\ rt_pre 1 t   (RepFacts.twf = NoDup binders + rt_wf; KidsFacts.rt_pre).
   - `term_static_user t` := twf t /\ rt_ok t: the same with residues 0 or 2 only (boolean form `term_static_userb`;
     `term_static_user_static`: it implies term_static).  It is the ONE predicate that is enough for ALL
     reachable-state theorems, `equality_sound_all` (C01, which also excludes residue 3) included: `reachable_all_static`.

   Proved (closed under the global context; nothing assumed):
   - `term_pre_static`: kinv s -> twf t -> rt_pre (ectr s) t -> term_pre t s     (kinv = inv3 /\ m4 /\ kids_ok, KidsFacts.v).
     Covering children: `KidsFacts.kinv_add_expr` returns `inv_ok s' a` = covers + "values below the counter or
     not 1 mod 4", kept by later insertions (`inv_ok_ext0`); public slots of `set_apps n l`: `set_apps_args_all`;
     binders: `binders_set_apps'`.
   - `ops_pre_run_static`: kinv s -> Forall (covers s) hs -> Forall (twf /\ rt_pre (ectr s)) terms -> ops_pre terms ops hs s.
   - `ops_pre_static`: Forall term_static terms -> ops_pre terms ops [] empty_egraph   (`ops_pre_staticb`: boolean premise).
   - section 4, the reachable-state theorems with the premise `Forall term_static terms` only:
     hc_ok_reachable_static, structure_consistent_reachable_static (C08), readd_stored_reachable_static,
     kinv_reachable_static, kids_ok_reachable_static, ss_ok_reachable_static, sse_srcx_reachable_static,
     node_congruence_reachable_static, union_congruence_reachable_static, term_congruence_reachable_static,
     node_congruence_all_reachable_static (C02), match_inv_reachable_static (C04/C05);
     with `Forall term_static_user terms`: equality_sound_all_static (C01), reachable_all_static.
   - Section RepStatic: handles_rep_reachable_static, reinsertion_is_identity_reachable_static (C09) - these keep the
     five per-operation hypotheses of RepFacts.v Section Rep (SS_new, SS_union_new, NLP_new, NLP_union_new, LAA_new),
     which are inherited, not introduced here.
   - `histories_static`: all term lists of the 15 checked histories (RepFacts.rep_hists) satisfy both predicates.
     `term_static_needed_residue / _arity / _binders`: vm_compute examples of histories with one non-static term on
     which the executable counterpart of `ops_pre` (HashconsFacts.run_hc: node_preb + shape-absent + hc_allb at every
     insertion) is false; for residue and arity the final state fails the hash-cons checker `hc_allb`. *)
From SE Require Import Slots.SlotMapFacts Group.GroupSound Lang.LangFacts Lang.ShapeFacts Lang.RenameFacts
  Base.TextFacts EGraph.Model EGraph.ModelFacts EGraph.ModelMachine EGraph.UnionFindFacts EGraph.InvariantFacts
  EGraph.UnionInvariantFacts EGraph.AddCoversFacts EGraph.Mod4Facts EGraph.MatchDefs EGraph.HashconsShape EGraph.HashconsAbs
  EGraph.SoundFacts EGraph.SoundAddExpr EGraph.SoundMachine EGraph.SoundClosed
  EGraph.Model9 EGraph.HashconsFacts EGraph.KidsFacts EGraph.NodeCong EGraph.KidEqFacts EGraph.CongruenceFacts EGraph.RepFacts
  EGraph.SelfSymDefs EGraph.SelfSymFacts EGraph.MatchReprFacts.
Require Import ZArith Lia ZifyBool ZifyN ZifyNat.

Local Notation ectr := Model.ctr.

(* ================================================================== *)
(* 1. the static predicate *)

Fixpoint term_static (t : rterm) : Prop :=
  match t with
  | RT n ch => NoDup (binders n) /\ List.length ch = List.length (app_occ n) /\
               (forall x, In x (all_occ n) -> x mod 4 <> 1) /\
      (fix go (l : list rterm) : Prop := match l with [] => True | c :: r => term_static c /\ go r end) ch
  end.

Fixpoint term_staticb (t : rterm) : bool :=
  match t with
  | RT n ch => nodupb (binders n) && Nat.eqb (List.length ch) (List.length (app_occ n)) &&
               forallb (fun x => negb (x mod 4 =? 1)) (all_occ n) &&
      (fix go (l : list rterm) : bool := match l with [] => true | c :: r => term_staticb c && go r end) ch
  end.

Lemma term_static_iff : forall n ch, term_static (RT n ch) <->
  NoDup (binders n) /\ List.length ch = List.length (app_occ n) /\ (forall x, In x (all_occ n) -> x mod 4 <> 1) /\
  Forall term_static ch.
Proof.
  intros n ch. cbn [term_static]. split; intros (A & B & C & D); (split; [exact A|split; [exact B|split; [exact C|]]]); clear A B C.
  - induction ch as [|c r IH]; constructor; [apply D|apply IH; apply D].
  - induction D as [|c r Hc D IH]; [exact I|split; assumption].
Qed.

Lemma term_staticb_iff : forall t, term_staticb t = true <-> term_static t.
Proof.
  fix IH 1. intros [n ch]. cbn [term_staticb term_static].
  rewrite !andb_true_iff, nodupb_NoDup, Nat.eqb_eq, forallb_forall.
  assert (G : (fix go (l : list rterm) : bool := match l with [] => true | c :: r => term_staticb c && go r end) ch = true <->
              (fix go (l : list rterm) : Prop := match l with [] => True | c :: r => term_static c /\ go r end) ch).
  { induction ch as [|c r IHr]; [split; auto|]. rewrite andb_true_iff, (IH c), IHr. reflexivity. }
  rewrite G.
  assert (F : (forall x, In x (all_occ n) -> negb (x mod 4 =? 1) = true) <-> (forall x, In x (all_occ n) -> x mod 4 <> 1)).
  { split; intros H x Hx; specialize (H x Hx).
    - apply negb_true_iff in H. apply N.eqb_neq in H. exact H.
    - apply negb_true_iff. apply N.eqb_neq. exact H. }
  rewrite F. tauto.
Qed.

Lemma term_staticb_sound : forall t, term_staticb t = true -> term_static t.
Proof. intros t. apply term_staticb_iff. Qed.

(* decidability *)
Lemma term_static_dec : forall t, {term_static t} + {~ term_static t}.
Proof.
  intros t. destruct (term_staticb t) eqn:E; [left; apply term_staticb_iff; exact E|].
  right. intros H. apply term_staticb_iff in H. congruence.
Qed.

(* the parts: the static predicates already in use *)
Lemma term_static_twf : forall t, term_static t -> twf t.
Proof.
  fix IH 1. intros [n ch] H. cbn [term_static] in H. destruct H as (A & B & _ & D). cbn [twf].
  split; [exact A|]. split; [exact B|]. clear A B.
  induction ch as [|c r IHr]; [exact I|]. destruct D as [D1 D2]. split; [exact (IH c D1)|exact (IHr D2)].
Qed.

Lemma twf_rt_wf : forall t, twf t -> rt_wf t.
Proof.
  fix IH 1. intros [n ch] H. cbn [twf] in H. destruct H as (_ & B & D). cbn [rt_wf]. split; [exact B|]. clear B.
  induction ch as [|c r IHr]; [exact I|]. destruct D as [D1 D2]. split; [exact (IH c D1)|exact (IHr D2)].
Qed.

Lemma twf_iff : forall n ch, twf (RT n ch) <-> NoDup (binders n) /\ List.length ch = List.length (app_occ n) /\ Forall twf ch.
Proof.
  intros n ch. cbn [twf]. split; intros (A & B & D); (split; [exact A|split; [exact B|]]); clear A B.
  - induction ch as [|c r IH]; constructor; [apply D|apply IH; apply D].
  - induction D as [|c r Hc D IH]; [exact I|split; assumption].
Qed.

Lemma term_static_rt_wf : forall t, term_static t -> rt_wf t.
Proof. intros t H. apply twf_rt_wf. apply term_static_twf. exact H. Qed.

Lemma term_static_rt_pre : forall B t, term_static t -> rt_pre B t.
Proof.
  intros B. fix IH 1. intros [n ch] H. cbn [term_static] in H. destruct H as (_ & _ & C & D). cbn [rt_pre].
  split; [intros x Hx; right; exact (C x Hx)|]. clear C.
  induction ch as [|c r IHr]; [exact I|]. destruct D as [D1 D2]. split; [exact (IH c D1)|exact (IHr D2)].
Qed.

Lemma term_static_parts : forall t, term_static t <-> twf t /\ rt_pre 1 t.
Proof.
  intros t. split; [intros H; split; [apply term_static_twf|apply term_static_rt_pre]; exact H|].
  revert t. fix IH 1. intros [n ch] [W P]. cbn [twf] in W. cbn [rt_pre] in P. destruct W as (A & B & D). destruct P as (C & E).
  cbn [term_static]. split; [exact A|]. split; [exact B|]. split.
  - intros x Hx. destruct (C x Hx) as [L|L]; [|exact L]. assert (x = 0) by lia. subst x. discriminate.
  - clear A B C. induction ch as [|c r IHr]; [exact I|]. destruct D as [D1 D2]. destruct E as [E1 E2].
    split; [exact (IH c (conj D1 E1))|exact (IHr D2 E2)].
Qed.

(* user slot names only (residues 0 and 2): also excludes the reserved binder residue 3 *)
Definition term_static_user (t : rterm) : Prop := twf t /\ rt_ok t.
Definition term_static_userb (t : rterm) : bool := twfb t && rt_okb t.

Lemma term_static_userb_sound : forall t, term_static_userb t = true -> term_static_user t.
Proof.
  intros t H. apply andb_true_iff in H. destruct H as [A B]. split; [apply twfb_sound; exact A|apply rt_okb_sound; exact B].
Qed.

Lemma rt_ok_rt_pre : forall B t, rt_ok t -> rt_pre B t.
Proof.
  intros B. fix IH 1. intros [n ch] H. cbn [rt_ok] in H. destruct H as (C & D). cbn [rt_pre].
  split; [intros x Hx; right; destruct (C x Hx) as [L|L]; rewrite L; discriminate|]. clear C.
  induction ch as [|c r IHr]; [exact I|]. destruct D as [D1 D2]. split; [exact (IH c D1)|exact (IHr D2)].
Qed.

Lemma term_static_user_static : forall t, term_static_user t -> term_static t.
Proof. intros t [W O]. apply term_static_parts. split; [exact W|apply rt_ok_rt_pre; exact O]. Qed.

(* ================================================================== *)
(* 2. validation: the term lists of the checked histories are static; terms that are not *)

Example histories_static :
  forallb (fun p => forallb term_staticb (fst p)) rep_hists = true /\
  forallb (fun p => forallb term_static_userb (fst p)) rep_hists = true.
Proof. vm_compute. split; reflexivity. Qed.

(* each clause of `term_static` matters.  In all three histories the first term list entry is static, the
   offending one is not, the executable counterpart of `ops_pre` (HashconsFacts.run_hc: `node_preb` + shape-absent
   + `hc_allb` at every insertion) is false, and in (1), (2) the FINAL STATE violates the hash-cons checker:
   (1) a slot of the fresh residue: 17 is the name the insertion draws for the binder of the second term;
   (2) arity: Mod4Facts.xT7 has a node with two applied-id positions and one child, the left-over user-supplied
       invocation does not cover its class (replacing that term by a static one makes the run pass: xT7s);
   (3) a name bound twice in one node: only `node_preb` fails on this instance (the state stays consistent; the
       clause is what `shape_idem_nodup` and the matcher completeness `MatchReprFacts.repr_needs_clean` need). *)
Definition static_tst (ts : list rterm) (ops : list hop) : list bool * bool * option bool :=
  (map term_staticb ts, run_hc ts ops [] empty_egraph,
   match run_ops ts ops [] empty_egraph with Ok (_, s) => Some (hc_allb s) | Err _ => None end).

Example term_static_needed_residue :
  static_tst [xlam 2 (xs2 2 2 6); xlam 2 (xs2 2 17 6)] [HAdd 0; HAdd 1] = ([true; false], false, Some false) /\
  static_tst [xlam 2 (xs2 2 2 6); xlam 2 (xs2 2 10 6)] [HAdd 0; HAdd 1] = ([true; true], true, Some true).
Proof. vm_compute. split; reflexivity. Qed.

Definition xT7s := [xs2 2 3 7; xs2 2 7 3; xun 3 (xs2 2 3 7); xlam 3 (xs2 2 3 0); xlam 4 (xs3 8 4 0 3); xbin 4 (xs2 2 3 7) (xs2 2 7 8);
  xbin 4 (xs2 2 7 3) (xs2 2 8 7); xbin 4 (xs2 2 3 7) (xs2 2 3 11); xs2 2 3 12].
Example term_static_needed_arity :
  static_tst xT7 xO7 = ([true; true; true; true; true; true; true; false; true], false, Some false) /\
  static_tst xT7s xO7 = ([true; true; true; true; true; true; true; true; true], true, Some true).
Proof. vm_compute. split; reflexivity. Qed.

Example term_static_needed_binders :
  static_tst [xs2 2 2 6; RT {| nvar := 0; nargs := [ABind 2 (ABind 2 xph)] |} [xs2 2 2 6]] [HAdd 0; HAdd 1]
    = ([true; false], false, Some true) /\
  static_tst [xs2 2 2 6; RT {| nvar := 0; nargs := [ABind 2 (ABind 6 xph)] |} [xs2 2 2 6]] [HAdd 0; HAdd 1]
    = ([true; true], true, Some true).
Proof. vm_compute. split; reflexivity. Qed.

(* ================================================================== *)
(* 3. `ops_pre` from the static predicate *)

Lemma add_children_cons : forall c r s a s1 l s2, add_expr c s = Ok (a, s1) -> add_children r s1 = Ok (l, s2) ->
  add_children (c :: r) s = Ok (a :: l, s2).
Proof. intros c r s a s1 l s2 H1 H2. cbn [add_children]. unfold mbind. rewrite H1. rewrite H2. reflexivity. Qed.

(* the children of a node: `KidsFacts.kinv_add_expr` for a list *)
Lemma kinv_add_children : forall ch s l s1, kinv s -> Forall rt_wf ch -> Forall (rt_pre (ectr s)) ch ->
  add_children ch s = Ok (l, s1) ->
  kinv s1 /\ ext0 s s1 /\ Forall (inv_ok s1) l /\ List.length l = List.length ch.
Proof.
  induction ch as [|c r IHr]; intros s l s1 Hk WFc RPc Hgo; cbn [add_children] in Hgo.
  - inversion Hgo; subst. split; [assumption|]. split; [apply ext0_refl|]. split; [constructor|reflexivity].
  - apply mbind_inv in Hgo. destruct Hgo as (a0 & s2 & Ha & Hgo).
    apply mbind_inv in Hgo. destruct Hgo as (r0 & s3 & Hr & Hgo). inversion Hgo; subst l s3; clear Hgo.
    destruct (kinv_add_expr c s a0 s2 Hk (Forall_inv WFc) (Forall_inv RPc) Ha) as (K2 & E2 & A0).
    destruct (IHr s2 r0 s1 K2 (Forall_inv_tail WFc)) as (K3 & E3 & R0 & L0); [|exact Hr|].
    + apply Forall_inv_tail in RPc. revert RPc. apply Forall_impl. intros c0. apply rt_pre_mono. exact (proj1 E2).
    + split; [exact K3|]. split; [eapply ext0_trans; eauto|]. split; [|cbn [List.length]; lia].
      constructor; [eapply inv_ok_ext0; eauto|exact R0].
Qed.

(* the node handed to eg_add after the children have been inserted *)
Lemma node_pre_set_apps : forall n ch s l s1, kinv s -> NoDup (binders n) -> List.length ch = List.length (app_occ n) ->
  (forall x, In x (all_occ n) -> x < ectr s \/ x mod 4 <> 1) -> Forall rt_wf ch -> Forall (rt_pre (ectr s)) ch ->
  add_children ch s = Ok (l, s1) -> node_pre s1 (set_apps n l).
Proof.
  intros n ch s l s1 Hk ND Len RPn WFc RPc Hgo.
  destruct (kinv_add_children ch s l s1 Hk WFc RPc Hgo) as (K1 & E1 & L1 & Len1).
  split; [|split].
  - rewrite app_occ_set_apps by lia. revert L1. apply Forall_impl. intros y [Cy _]. exact Cy.
  - intros y Hy. apply pub_in_all in Hy. unfold all_occ, set_apps in Hy. cbn [nargs] in Hy. apply set_apps_args_all in Hy.
    destruct Hy as [Hy|(z & Hz & Hy)].
    + destruct (RPn y Hy) as [A|A]; [left; destruct E1 as [L _]; lia|right; exact A].
    + destruct (proj1 (Forall_forall _ _) L1 z Hz) as [_ Vz]. exact (Vz y Hy).
  - rewrite binders_set_apps'. exact ND.
Qed.

Theorem term_pre_static : forall t s, kinv s -> twf t -> rt_pre (ectr s) t -> term_pre t s.
Proof.
  fix IH 1. intros [n ch] s Hk TW RP. apply twf_iff in TW. destruct TW as (ND & Len & TWc).
  apply rt_pre_iff in RP. destruct RP as [RPn RPc].
  assert (WFc : Forall rt_wf ch) by (revert TWc; apply Forall_impl; exact twf_rt_wf).
  pose proof (node_pre_set_apps n ch s) as NP. specialize (fun l s1 => NP l s1 Hk ND Len RPn WFc RPc).
  cbn [term_pre].
  change (forall l s1, add_children ch s = Ok (l, s1) -> (fun l0 s0 => node_pre s0 (set_apps n l0)) l s1) in NP.
  generalize dependent (fun (l0 : list appid) (s0 : egraph) => node_pre s0 (set_apps n l0)).
  clear Len RPn ND. revert s Hk RPc.
  induction ch as [|c r IHr]; intros s Hk RPc K NP.
  - apply NP. reflexivity.
  - split; [exact (IH c s Hk (Forall_inv TWc) (Forall_inv RPc))|].
    intros a s1 Ha.
    destruct (kinv_add_expr c s a s1 Hk (Forall_inv WFc) (Forall_inv RPc) Ha) as (K2 & E2 & _).
    apply (IHr (Forall_inv_tail TWc) (Forall_inv_tail WFc) s1 K2).
    + apply Forall_inv_tail in RPc. revert RPc. apply Forall_impl. intros c0. apply rt_pre_mono. exact (proj1 E2).
    + intros l s2 Hl. apply NP. eapply add_children_cons; eauto.
Qed.

Theorem ops_pre_run_static : forall terms ops hs s, kinv s -> Forall (covers s) hs ->
  Forall (fun t => twf t /\ rt_pre (ectr s) t) terms -> ops_pre terms ops hs s.
Proof.
  intros terms. induction ops as [|o t IH]; intros hs s Hk Hc HT; cbn [ops_pre]; [exact I|].
  destruct o as [k|i j just].
  - destruct (nth_opt terms k) as [tm|] eqn:Ek; [|exact I].
    destruct (proj1 (Forall_forall _ _) HT tm (nth_opt_In _ _ _ Ek)) as [TW RP].
    split; [exact (term_pre_static tm s Hk TW RP)|]. intros a s1 H1.
    destruct (kinv_add_expr tm s a s1 Hk (twf_rt_wf _ TW) RP H1) as (K1 & E01 & Ca).
    apply IH; [exact K1| |].
    + apply Forall_app. split; [|constructor; [exact (proj1 Ca)|constructor]].
      revert Hc. apply Forall_impl. intros x. apply covers_ext0. assumption.
    + revert HT. apply Forall_impl. intros t0 [A B]. split; [exact A|]. eapply rt_pre_mono; [exact (proj1 E01)|exact B].
  - destruct (nth_opt hs i) as [a|] eqn:Ei; [|exact I]. destruct (nth_opt hs j) as [b|] eqn:Ej; [|exact I].
    intros u s1 H1.
    pose proof (proj1 (Forall_forall _ _) Hc a (nth_opt_In _ _ _ Ei)) as Ca.
    pose proof (proj1 (Forall_forall _ _) Hc b (nth_opt_In _ _ _ Ej)) as Cb.
    destruct (kinv_eg_union a b s u s1 Hk Ca Cb H1) as [K1 E1].
    apply IH; [exact K1| |].
    + revert Hc. apply Forall_impl. intros x. apply covers_ext. assumption.
    + revert HT. apply Forall_impl. intros t0 [A B]. split; [exact A|]. eapply rt_pre_mono; [exact (proj1 E1)|exact B].
Qed.

(* THE MAIN THEOREM: the dynamic premise of the reachable-state theorems follows from the static one *)
Theorem ops_pre_static : forall terms ops, Forall term_static terms -> ops_pre terms ops [] empty_egraph.
Proof.
  intros terms ops HT. apply ops_pre_run_static; [exact kinv_empty|constructor|].
  revert HT. apply Forall_impl. intros t H. split; [apply term_static_twf|apply term_static_rt_pre]; exact H.
Qed.

Corollary ops_pre_staticb : forall terms ops, forallb term_staticb terms = true -> ops_pre terms ops [] empty_egraph.
Proof.
  intros terms ops H. apply ops_pre_static. apply Forall_forall. intros t Hin.
  apply term_staticb_iff. exact (proj1 (forallb_forall _ _) H t Hin).
Qed.

(* the same for the other static formulations in use *)
Corollary ops_pre_twf_rt_pre : forall terms ops, Forall (fun t => twf t /\ rt_pre 1 t) terms -> ops_pre terms ops [] empty_egraph.
Proof. intros terms ops HT. apply ops_pre_static. revert HT. apply Forall_impl. intros t. apply term_static_parts. Qed.

Corollary ops_pre_static_user : forall terms ops, Forall term_static_user terms -> ops_pre terms ops [] empty_egraph.
Proof. intros terms ops HT. apply ops_pre_static. revert HT. apply Forall_impl. exact term_static_user_static. Qed.

Lemma static_kids_premise : forall terms, Forall term_static terms -> Forall (fun t => rt_wf t /\ rt_pre 1 t) terms.
Proof.
  intros terms. apply Forall_impl. intros t H. split; [apply term_static_rt_wf|apply term_static_rt_pre]; exact H.
Qed.

Lemma static_twf_premise : forall terms, Forall term_static terms -> forall t, In t terms -> twf t.
Proof. intros terms HT t Hin. apply term_static_twf. exact (proj1 (Forall_forall _ _) HT t Hin). Qed.

(* ================================================================== *)
(* 4. the reachable-state theorems with the static premise only *)

(* C08: HashconsFacts.hc_ok_reachable, reachable_consistent, reachable_readd_stored *)
Theorem hc_ok_reachable_static : forall terms ops hs s, Forall term_static terms ->
  run_ops terms ops [] empty_egraph = Ok (hs, s) -> hc_ok s.
Proof. intros terms ops hs s HT. exact (hc_ok_reachable terms ops hs s (ops_pre_static terms ops HT)). Qed.

Theorem structure_consistent_reachable_static : forall terms ops hs s, Forall term_static terms ->
  run_ops terms ops [] empty_egraph = Ok (hs, s) ->
  hc_ok s /\
  (forall sh i, na_get (hashcons s) sh = Some i <-> exists p, stored s i sh p) /\
  (forall i j sh p q, stored s i sh p -> stored s j sh q -> i = j) /\
  (forall i sh p, stored s i sh p -> canon s sh) /\
  (forall i sh bij src nd, stored s i sh (bij, src) -> apply_slotmap false bij sh = Ok nd ->
     exists a, eg_lookup s nd = Ok (Some a) /\ aid a = i).
Proof. intros terms ops hs s HT. exact (reachable_consistent terms ops hs s (ops_pre_static terms ops HT)). Qed.

Theorem readd_stored_reachable_static : forall terms ops hs s i sh bij src nd, Forall term_static terms ->
  run_ops terms ops [] empty_egraph = Ok (hs, s) ->
  stored s i sh (bij, src) -> apply_slotmap false bij sh = Ok nd ->
  exists a, eg_add nd s = Ok (a, s) /\ aid a = i.
Proof. intros terms ops hs s i sh bij src nd HT. exact (reachable_readd_stored terms ops hs s i sh bij src nd (ops_pre_static terms ops HT)). Qed.

(* KidsFacts.reachable_kinv / reachable_kids_ok *)
Theorem kinv_reachable_static : forall terms ops hs s, Forall term_static terms ->
  run_ops terms ops [] empty_egraph = Ok (hs, s) -> kinv s /\ Forall (covers s) hs.
Proof. intros terms ops hs s HT. exact (reachable_kinv terms ops hs s (static_kids_premise terms HT)). Qed.

Theorem kids_ok_reachable_static : forall terms ops hs s, Forall term_static terms ->
  run_ops terms ops [] empty_egraph = Ok (hs, s) -> kids_ok s.
Proof. intros terms ops hs s HT. exact (reachable_kids_ok terms ops hs s (static_kids_premise terms HT)). Qed.

(* C02: SelfSymFacts.reachable_ss_ok, reachable_sse_srcx, node/union/term congruence, reachable_node_congruence_all *)
Theorem ss_ok_reachable_static : forall terms ops hs s, Forall term_static terms ->
  run_ops terms ops [] empty_egraph = Ok (hs, s) -> ss_ok s.
Proof. intros terms ops hs s HT. exact (reachable_ss_ok terms ops hs s (ops_pre_static terms ops HT)). Qed.

Theorem sse_srcx_reachable_static : forall terms ops hs s, Forall term_static terms ->
  run_ops terms ops [] empty_egraph = Ok (hs, s) -> hcb s /\ sse noex s /\ srcx noex s.
Proof. intros terms ops hs s HT. exact (reachable_sse_srcx terms ops hs s (ops_pre_static terms ops HT)). Qed.

Theorem node_congruence_reachable_static : forall terms ops hs s n l x1 x2, Forall term_static terms ->
  run_ops terms ops [] empty_egraph = Ok (hs, s) -> NoDup (binders n) -> Forall2 (kid_eq s) (app_occ n) l ->
  eg_lookup s n = Ok (Some x1) -> eg_lookup s (set_apps n l) = Ok (Some x2) -> eg_eq s x1 x2 = Ok true.
Proof. intros terms ops hs s n l x1 x2 HT. exact (node_congruence_reachable terms ops hs s n l x1 x2 (ops_pre_static terms ops HT)). Qed.

Theorem union_congruence_reachable_static : forall terms ops hs s a b u s', Forall term_static terms ->
  run_ops terms ops [] empty_egraph = Ok (hs, s) -> In a hs -> In b hs -> eg_union a b s = Ok (u, s') ->
  inv3 s' /\ hc_ok s' /\ pending s' = [] /\ ss_ok s' /\ eg_eq s' a b = Ok true /\
  forall n l x1 x2, NoDup (binders n) -> Forall (covers s') (app_occ n) -> Forall2 (swap_ab a b) (app_occ n) l ->
    eg_lookup s' n = Ok (Some x1) -> eg_lookup s' (set_apps n l) = Ok (Some x2) -> eg_eq s' x1 x2 = Ok true.
Proof. intros terms ops hs s a b u s' HT. exact (union_congruence_reachable terms ops hs s a b u s' (ops_pre_static terms ops HT)). Qed.

Theorem term_congruence_reachable_static : forall terms ops hs s t1 t2 x1 x2, Forall term_static terms ->
  run_ops terms ops [] empty_egraph = Ok (hs, s) -> tcong s t1 t2 ->
  lookup_rec s t1 = Ok (Some x1) -> lookup_rec s t2 = Ok (Some x2) -> eg_eq s x1 x2 = Ok true.
Proof. intros terms ops hs s t1 t2 x1 x2 HT. exact (term_congruence_reachable terms ops hs s t1 t2 x1 x2 (ops_pre_static terms ops HT)). Qed.

Theorem node_congruence_all_reachable_static : forall terms ops hs s, Forall term_static terms ->
  run_ops terms ops [] empty_egraph = Ok (hs, s) ->
  pending s = [] /\
  (forall n l x1 x2, NoDup (binders n) -> Forall2 (kid_eq s) (app_occ n) l ->
     eg_lookup s n = Ok (Some x1) -> eg_lookup s (set_apps n l) = Ok (Some x2) -> eg_eq s x1 x2 = Ok true) /\
  (forall t1 t2 x1 x2, tcong s t1 t2 -> lookup_rec s t1 = Ok (Some x1) -> lookup_rec s t2 = Ok (Some x2) ->
     eg_eq s x1 x2 = Ok true) /\
  (forall t1 t2 a1 a2, rep s t1 a1 -> rep s t2 a2 -> tcong s t1 t2 -> eg_eq s a1 a2 = Ok true) /\
  (forall t a a' s', rep s t a -> add_expr t s = Ok (a', s') -> s' = s /\ eg_eq s' a a' = Ok true).
Proof. intros terms ops hs s HT. exact (reachable_node_congruence_all terms ops hs s (ops_pre_static terms ops HT)). Qed.

(* C04/C05: MatchReprFacts.match_inv_reachable (its two premises are both consequences of the static one) *)
Theorem match_inv_reachable_static : forall terms ops hs s, Forall term_static terms ->
  run_ops terms ops [] empty_egraph = Ok (hs, s) -> match_inv s.
Proof.
  intros terms ops hs s HT.
  exact (match_inv_reachable terms ops hs s (ops_pre_static terms ops HT) (static_kids_premise terms HT)).
Qed.

(* C01: SoundClosed.equality_sound_all; here the residue 3 (reserved binder names) is excluded too *)
Theorem equality_sound_all_static : forall terms ops hs s i j a b ti tj, Forall term_static_user terms ->
  run_ops terms ops [] empty_egraph = Ok (hs, s) ->
  nth_opt hs i = Some a -> nth_opt hs j = Some b ->
  nth_opt (handle_cterms terms ops) i = Some ti -> nth_opt (handle_cterms terms ops) j = Some tj ->
  eg_eq s a b = Ok true -> Deriv (asserted terms ops) 0 ti tj.
Proof.
  intros terms ops hs s i j a b ti tj HT. apply equality_sound_all.
  - revert HT. apply Forall_impl. intros t [_ O]. exact O.
  - revert HT. apply Forall_impl. intros t [W _]. exact (twf_rt_wf t W).
Qed.

(* everything at once, from the ONE predicate `term_static_user` (decidable: `term_static_userb`) *)
Theorem reachable_all_static : forall terms ops hs s, Forall term_static_user terms ->
  run_ops terms ops [] empty_egraph = Ok (hs, s) ->
  ops_pre terms ops [] empty_egraph /\ kinv s /\ Forall (covers s) hs /\ hcb s /\ ss_ok s /\ match_inv s /\
  (forall i j a b ti tj, nth_opt hs i = Some a -> nth_opt hs j = Some b ->
     nth_opt (handle_cterms terms ops) i = Some ti -> nth_opt (handle_cterms terms ops) j = Some tj ->
     eg_eq s a b = Ok true -> Deriv (asserted terms ops) 0 ti tj).
Proof.
  intros terms ops hs s HU H.
  assert (HT : Forall term_static terms) by (revert HU; apply Forall_impl; exact term_static_user_static).
  split; [exact (ops_pre_static terms ops HT)|].
  destruct (kinv_reachable_static terms ops hs s HT H) as [K C]. split; [exact K|]. split; [exact C|].
  split; [exact (proj1 (sse_srcx_reachable_static terms ops hs s HT H))|].
  split; [exact (ss_ok_reachable_static terms ops hs s HT H)|].
  split; [exact (match_inv_reachable_static terms ops hs s HT H)|].
  intros i j a b ti tj. exact (equality_sound_all_static terms ops hs s i j a b ti tj HU H).
Qed.

(* C09: RepFacts.reachable_handles_rep / reinsertion_is_identity_reachable.  These two still rest on the five
   per-operation hypotheses of RepFacts.v (Section Rep there); they are repeated here verbatim and are NOT new:
   the only change is that `twf` and `ops_pre` are replaced by the static premise. *)
Section RepStatic.
  Hypothesis SS_new : forall n s a s', good s -> node_pre s n -> eg_lookup s n = Ok None -> eg_add n s = Ok (a, s') -> ss_ok s'.
  Hypothesis SS_union_new : forall l r s u s', good s -> covers s l -> covers s r -> eg_eq s l r <> Ok true ->
    eg_union l r s = Ok (u, s') -> ss_ok s'.
  Hypothesis NLP_new : forall n s a s', good s -> node_pre s n -> eg_lookup s n = Ok None -> eg_add n s = Ok (a, s') -> nlp s s'.
  Hypothesis NLP_union_new : forall l r s u s', good s -> covers s l -> covers s r -> eg_eq s l r <> Ok true ->
    eg_union l r s = Ok (u, s') -> nlp s s'.
  Hypothesis LAA_new : forall n s a s', good s -> node_pre s n -> eg_lookup s n = Ok None -> eg_add n s = Ok (a, s') ->
    exists x, eg_lookup s' n = Ok (Some x) /\ eg_eq s' x a = Ok true.

  Theorem handles_rep_reachable_static : forall terms ops hs s, Forall term_static terms ->
    run_ops terms ops [] empty_egraph = Ok (hs, s) ->
    good s /\ forall k a, In (k, a) (combine (add_idx ops) hs) -> exists t, nth_opt terms k = Some t /\ rep s t a.
  Proof.
    intros terms ops hs s HT.
    exact (reachable_handles_rep SS_new SS_union_new NLP_new NLP_union_new LAA_new terms ops hs s
             (static_twf_premise terms HT) (ops_pre_static terms ops HT)).
  Qed.

  Theorem reinsertion_is_identity_reachable_static : forall terms ops hs s k a t, Forall term_static terms ->
    run_ops terms ops [] empty_egraph = Ok (hs, s) ->
    In (k, a) (combine (add_idx ops) hs) -> nth_opt terms k = Some t ->
    (exists x, lookup_rec s t = Ok (Some x) /\ eg_eq s x a = Ok true) /\
    (forall a' s', add_expr t s = Ok (a', s') -> s' = s /\ eg_eq s' a a' = Ok true).
  Proof.
    intros terms ops hs s k a t HT.
    exact (reinsertion_is_identity_reachable SS_new SS_union_new NLP_new NLP_union_new LAA_new terms ops hs s k a t
             (static_twf_premise terms HT) (ops_pre_static terms ops HT)).
  Qed.
End RepStatic.

(* ------------------------------------------------------------------ *)
Print Assumptions term_staticb_iff.
Print Assumptions term_static_parts.
Print Assumptions term_static_user_static.
Print Assumptions histories_static.
Print Assumptions term_static_needed_residue.
Print Assumptions term_static_needed_arity.
Print Assumptions term_static_needed_binders.
Print Assumptions term_pre_static.
Print Assumptions ops_pre_run_static.
Print Assumptions ops_pre_static.
Print Assumptions ops_pre_staticb.
Print Assumptions ops_pre_twf_rt_pre.
Print Assumptions hc_ok_reachable_static.
Print Assumptions structure_consistent_reachable_static.
Print Assumptions readd_stored_reachable_static.
Print Assumptions kinv_reachable_static.
Print Assumptions ss_ok_reachable_static.
Print Assumptions sse_srcx_reachable_static.
Print Assumptions node_congruence_reachable_static.
Print Assumptions union_congruence_reachable_static.
Print Assumptions term_congruence_reachable_static.
Print Assumptions node_congruence_all_reachable_static.
Print Assumptions match_inv_reachable_static.
Print Assumptions equality_sound_all_static.
Print Assumptions reachable_all_static.
Print Assumptions handles_rep_reachable_static.
Print Assumptions reinsertion_is_identity_reachable_static.
