(* EGraph/PendingFacts.v — no deferred work: when an operation of the model returns, the worklist of pending
   e-nodes is empty (rebuild has run to completion).  This is the "immediately after union returns" part of C02:
   the model (like the implementation: `union` and `add` end with `rebuild`) has no lazy-rebuild state in which
   consequences would still be outstanding. *)
From SE Require Import EGraph.Model EGraph.ModelMachine EGraph.ModelFacts.

Lemma rebuild_step : forall f, rebuild (S f) =
  (dom p <- gets pending;
   match p with
   | [] => ret tt
   | (sh, ty) :: rest =>
       dom _ <- modify (fun s => set_pending s rest);
       dom _ <- handle_pending sh ty;
       rebuild f
   end).
Proof. reflexivity. Qed.

Lemma rebuild_drains : forall fuel s x s', rebuild fuel s = Ok (x, s') -> pending s' = [].
Proof.
  induction fuel as [|f IH]; intros s x s' H.
  - discriminate H.
  - rewrite rebuild_step in H. apply mbind_inv in H. destruct H as (p & s1 & Hg & H).
    unfold gets in Hg. injection Hg as Hp Hs. subst s1 p.
    destruct (pending s) as [|[sh ty] rest] eqn:Ep.
    + unfold ret in H. injection H as _ Hs. subst s'. exact Ep.
    + apply mbind_inv in H. destruct H as (u1 & s2 & _ & H).
      apply mbind_inv in H. destruct H as (u2 & s3 & _ & H).
      eapply IH. exact H.
Qed.

Theorem eg_union_drains : forall l r s b s', eg_union l r s = Ok (b, s') -> pending s' = [].
Proof.
  intros l r s b s' H. unfold eg_union in H.
  apply mbind_inv in H. destruct H as (a1 & s1 & _ & H).
  apply mbind_inv in H. destruct H as (a2 & s2 & _ & H).
  apply mbind_inv in H. destruct H as (out & s3 & _ & H).
  apply mbind_inv in H. destruct H as (u & s4 & Hr & H).
  unfold ret in H. injection H as _ Hs. subst s'. eapply rebuild_drains. exact Hr.
Qed.

Lemma mk_singleton_class_drains : forall n s a s', mk_singleton_class n s = Ok (a, s') -> pending s' = [].
Proof.
  intros n s a s' H. unfold mk_singleton_class in H.
  apply mbind_inv in H. destruct H as (x1 & s1 & _ & H).
  apply mbind_inv in H. destruct H as (x2 & s2 & _ & H).
  apply mbind_inv in H. destruct H as (x3 & s3 & _ & H).
  apply mbind_inv in H. destruct H as (x4 & s4 & _ & H).
  apply mbind_inv in H. destruct H as (x5 & s5 & _ & H).
  apply mbind_inv in H. destruct H as (x6 & s6 & _ & H).
  apply mbind_inv in H. destruct H as (x7 & s7 & Hr & H).
  unfold ret in H. injection H as _ Hs. subst s'. eapply rebuild_drains. exact Hr.
Qed.

Lemma reads_state : forall A (f : egraph -> res A) s x s', reads f s = Ok (x, s') -> s' = s.
Proof. intros A f s x s' H. unfold reads in H. destruct (f s); [injection H as _ Hs; auto|discriminate]. Qed.

Lemma add_internal_drains : forall t s a s', pending s = [] -> add_internal t s = Ok (a, s') -> pending s' = [].
Proof.
  intros t s a s' Hp H. unfold add_internal in H.
  apply mbind_inv in H. destruct H as (lk & s1 & Hl & H). apply reads_state in Hl. subst s1.
  destruct lk as [x|].
  - unfold ret in H. injection H as _ Hs. subst s'. exact Hp.
  - apply mbind_inv in H. destruct H as (e1 & s2 & _ & H).
    apply mbind_inv in H. destruct H as (e2 & s3 & _ & H).
    apply mbind_inv in H. destruct H as (e3 & s4 & _ & H).
    apply mbind_inv in H. destruct H as (syn & s5 & Hm & H).
    apply reads_state in H. subst s'. eapply mk_singleton_class_drains. exact Hm.
Qed.

Theorem eg_add_drains : forall n s a s', pending s = [] -> eg_add n s = Ok (a, s') -> pending s' = [].
Proof.
  intros n s a s' Hp H. unfold eg_add in H.
  apply mbind_inv in H. destruct H as (t & s1 & Hr & H). apply reads_state in Hr. subst s1.
  eapply add_internal_drains; eassumption.
Qed.

Theorem add_expr_drains : forall t s a s', pending s = [] -> add_expr t s = Ok (a, s') -> pending s' = [].
Proof.
  fix IH 1. intros [n ch] s a s' Hp H. cbn [add_expr] in H.
  apply mbind_inv in H. destruct H as (l & s1 & Hgo & H).
  assert (Hp1 : pending s1 = []).
  { clear H. revert s l s1 Hp Hgo. induction ch as [|c r IHr]; intros s l s1 Hp Hgo.
    - unfold ret in Hgo. injection Hgo as _ Hs. subst s1. exact Hp.
    - apply mbind_inv in Hgo. destruct Hgo as (a0 & s2 & Ha & Hgo).
      apply mbind_inv in Hgo. destruct Hgo as (r' & s3 & Hr & Hgo).
      unfold ret in Hgo. injection Hgo as _ Hs. subst s1.
      eapply IHr; [|exact Hr]. eapply IH; eassumption. }
  destruct (Nat.ltb (List.length (app_occ n)) (List.length l)); [discriminate H|].
  eapply eg_add_drains; eassumption.
Qed.

(* every reachable state has an empty worklist *)
Theorem reachable_no_pending : forall terms ops hs0 s hs s',
  pending s = [] -> run_ops terms ops hs0 s = Ok (hs, s') -> pending s' = [].
Proof.
  intros terms ops. induction ops as [|o t IHo]; intros hs0 s hs s' Hp H; cbn [run_ops] in H.
  - unfold ret in H. injection H as _ Hs. subst s'. exact Hp.
  - destruct o as [k|i j jj].
    + destruct (nth_opt terms k) as [tm|]; [|discriminate H].
      apply mbind_inv in H. destruct H as (a & s1 & Ha & H).
      eapply IHo; [|exact H]. eapply add_expr_drains; eassumption.
    + destruct (nth_opt hs0 i) as [a|]; [|discriminate H].
      destruct (nth_opt hs0 j) as [b|]; [|discriminate H].
      apply mbind_inv in H. destruct H as (u & s1 & Hu & H).
      eapply IHo; [|exact H]. eapply eg_union_drains; exact Hu.
Qed.

Corollary reachable_no_pending_empty : forall terms ops hs s,
  run_ops terms ops [] empty_egraph = Ok (hs, s) -> pending s = [].
Proof. intros terms ops hs s H. apply (reachable_no_pending terms ops [] empty_egraph hs s); [reflexivity|exact H]. Qed.

Print Assumptions eg_union_drains.
Print Assumptions reachable_no_pending_empty.
