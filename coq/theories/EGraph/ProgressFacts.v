(* EGraph/ProgressFacts.v — the progress measure of the e-graph model (EGraph/Model.v, `progress` =
   (classes, live classes, sum of slots of live classes, sum of group orders of live classes)):
   lexicographic monotone motion, and "equal measure => nothing observable changed" (property C15:
   apply_rewrites returns false only if the call changed nothing; clause of C13: the measure moves
   monotonically).

   Relations.
   - `lmono s s'`: the union-find only grows and an existing id that is a leader in s' was a leader in
     s ("leaders only die").  Proved for every operation WITHOUT any invariant (`l_uint`, `l_rebuild`,
     `l_eg_union`, `l_eg_add`, `l_add_expr`): every write to an existing entry happens at a leader.
   - `pext s s'` = eg_inv s /\ eg_inv s' /\ mext0 s s' (MonotoneFacts: classes persist with a subset of
     their slots, equalities between covered invocations persist) /\ lmono s s'.  Transitive.
   - `ple p q`: the lexicographic order (classes up; if equal, live down; if equal, slots down; if
     equal, symmetries up).  A partial order (`ple_refl`, `ple_trans`, `ple_antisym`).
   - `same_live s s'`: same number of classes, same list of live ids, every live class has the same slot
     set and a group with the same elements.  `obs_same s s'`: same_live, and for covered invocations
     `eg_eq s' a b = eg_eq s a b` (BOTH directions) and `find_applied_id s' a` has the leader and
     the slot set of `find_applied_id s a`.
   - `same_graph` (RewriteFacts): union-find, classes, hashcons, pending are literally equal.
   - `qstep s s'`: inv3 s' /\ pext s s' /\ (pending s = [] -> progress s' = progress s -> same_graph s s').

   Proved (all closed under the global context; conditional theorems carry their premises explicitly):
   - `progress_spec`, `progress_total`: the measure as sums over `ids s`.
   - per class along pext (`pext_leader_class`): slots shrink; with equal slots the group grows (derived
     from the persistence of equalities); `slots_sub_count`, `grp_enum`, `grp_sub_count` (a subgroup of
     the same finite order is the whole group; order = gcount by GroupSound.gall_perms_exact).
   - `progress_monotone`: pext s s' -> ple (progress s) (progress s')            [MONOTONE MOTION]
   - `progress_equal_same_live`, `progress_equal_obs_same`: pext s s' and equal measure -> obs_same s s'.
   - `progress_squeeze`, `pchain_squeeze`: along a sequence of pext steps, if the measure at the end
     equals the one at the beginning then it is equal after every step, and every intermediate state is
     obs_same to the first.
   - operations: `pext_add_expr`, `pext_eg_add`, `pext_eg_union` (inv3; union handles covered), and
     `add_expr_progress`, `eg_add_progress`, `eg_union_progress`, `uint_rebuild_progress`,
     `union_instantiations_progress` (`op_facts`: monotone motion; equal measure -> no class allocated,
     obs_same, and if nothing was pending the graph is literally unchanged, so no node was added).
     Key step (`qstep_uint`): equal measure -> obs_same -> the equality the union establishes held
     before -> `uint` took its first exit (`uint_noop`).
   - `appliers_progress`: the applier phase of apply_rewrites (any list of rules/substitutions whose
     invocations cover their classes).  `ematch_all_ctr`: the searchers never decrease the counter.
   - `apply_rewrites_false_unchanged`: inv3 s, pending s = [], `searchers_ok`:
     apply_rewrites_sched sched rs s = Ok (false, s') -> same_graph s s' /\ equal node count /\ obs_same.
   - `run_saturated_unchanged`, `eqsat_saturated_unchanged`: instance of Run/RunnerFacts.v
     (`run_saturated_P`): a run that stops as Saturated ends in a state whose graph is the graph of
     its predecessor, provided the predecessor is `good` (inv3, nothing pending, searchers_ok).

   NOT proved here (explicit premise `searchers_ok`): every invocation of every substitution returned
   by `ematch_all` covers its class (`sub_cov`) in the state after the searchers.
   Section 12 (`rebuild_pending`, `apply_rewrites_qstep`, `good_apply_total`, `good_steps`,
   `run_saturated_same_graph`): if that premise holds in every inv3 state (`searchers_ok_all`), `good` is
   closed under apply_rewrites, and a run from a good state that stops as Saturated ends in a state
   with `same_graph s_prev sf` (unconditionally on s_prev).

   Counterexample (section 11, vm_compute): from a state WITH pending work, `rebuild` alone merges two
   nodes of one class (f(a), f(b) after a = b) — the node count drops 4 -> 3 — while the measure stays
   (4,2,0,2).  Hence the premise `pending s = []`; inside a whole operation the measure has already
   moved in `uint` (live 3 -> 2). *)
From SE Require Import Slots.SlotMapFacts Group.GroupSound Lang.LangFacts Lang.ShapeFacts Lang.RenameFacts
  Base.TextFacts EGraph.Model EGraph.ModelFacts EGraph.ModelMachine EGraph.UnionFindFacts EGraph.InvariantFacts
  EGraph.UnionInvariantFacts EGraph.AddCoversFacts EGraph.MonotoneFacts EGraph.Rewrite EGraph.RewriteFacts.
Require Import ZArith Lia ZifyBool ZifyN ZifyNat.

Local Notation "a ** b" := (compose_partial a b) (at level 40, left associativity).
Local Notation inv := inverse_nocheck.
Local Notation ectr := Model.ctr.

Local Ltac neq := repeat match goal with
  | H : (_ =? _) = true |- _ => apply N.eqb_eq in H
  | H : (_ =? _) = false |- _ => apply N.eqb_neq in H
  end.

(* ------------------------------------------------------------------ *)
(* 1. leaders only die: no operation turns an existing non-leader id into a leader.  No invariant
   is needed: every write to an existing entry of the union-find happens at a leader. *)

Definition lmono (s s' : egraph) : Prop :=
  (lu s <= lu s')%nat /\ forall i, (N.to_nat i < lu s)%nat -> leader s' i -> leader s i.

Lemma lmono_refl : forall s, lmono s s.
Proof. intros s. split; [lia|auto]. Qed.
Lemma lmono_trans : forall a b c, lmono a b -> lmono b c -> lmono a c.
Proof. intros a b c [L1 H1] [L2 H2]. split; [lia|]. intros i Hi Hl. apply H1; [assumption|]. apply H2; [lia|assumption]. Qed.

Lemma lmono_uf : forall s s', unionfind s' = unionfind s -> lmono s s'.
Proof. intros s s' U. unfold lmono, leader. rewrite U. split; [lia|auto]. Qed.

Lemma lmono_sem : forall s s', semR s s' -> lmono s s'.
Proof. intros s s' [[U _] _]. apply lmono_uf. symmetry. exact U. Qed.

Lemma lmono_ufset_leader : forall i p s x s', leader s i -> unionfind_set i p s = Ok (x, s') -> lmono s s'.
Proof.
  intros i p s x s' (e & He & Hi) H. pose proof (uentry_lt _ _ _ He) as Li.
  apply unionfind_set_uf in H. destruct H as [[E _]|[_ U]]; [lia|].
  split; [rewrite U, set_nth_length; lia|]. intros j Hj (e' & He' & Hj').
  destruct (N.eq_dec j i) as [->|Hn]; [exists e; auto|].
  exists e'. split; [|assumption]. unfold uentry in *. rewrite U in He'.
  rewrite nth_opt_set_other in He' by lia. exact He'.
Qed.

Lemma lmono_alloc : forall sl syn s i s', alloc_eclass sl syn s = Ok (i, s') -> lmono s s'.
Proof.
  intros sl syn s i s' H. destruct (alloc_eclass_exact _ _ _ _ _ H) as (_ & U & _).
  split; [rewrite U, app_length; lia|]. intros j Hj (e & He & Hi). exists e. split; [|assumption].
  unfold uentry in *. rewrite U, nth_opt_app1 in He by assumption. exact He.
Qed.

Local Notation lpres := (pres lmono).
Lemma l_bind : forall A C (m : M A) (k : A -> M C), lpres m -> (forall a, lpres (k a)) -> lpres (mbind m k).
Proof. apply (pres_bind lmono lmono_trans). Qed.
Lemma l_ret : forall A (a : A), lpres (ret a).
Proof. apply (pres_ret lmono lmono_refl). Qed.
Lemma l_reads : forall A (f : egraph -> res A), lpres (reads f).
Proof. apply (pres_reads lmono lmono_refl). Qed.
Lemma l_lift : forall A (r : res A), lpres (Model.lift r).
Proof. apply (pres_lift lmono lmono_refl). Qed.
Lemma l_gets : forall A (f : egraph -> A), lpres (gets f).
Proof. apply (pres_gets lmono lmono_refl). Qed.
Lemma l_fail : forall A e, lpres (@fail A e).
Proof. apply (pres_fail lmono). Qed.
Lemma l_sem : forall A (m : M A), pres semR m -> lpres m.
Proof. intros A m H s x s' E. apply lmono_sem. eapply H; eauto. Qed.
Lemma l_iterM : forall A (f : A -> M unit) l, (forall x, lpres (f x)) -> lpres (iterM f l).
Proof. apply (pres_iterM lmono lmono_refl lmono_trans). Qed.
Lemma l_upd_class : forall i f, lpres (upd_class i f).
Proof. intros i f s x s' H. apply upd_class_inv in H. destruct H as (c & _ & ->). apply lmono_uf. reflexivity. Qed.
Lemma l_with_ctr : forall A (f : N -> A * N), lpres (with_ctr f).
Proof. intros A f s x s' H. unfold with_ctr in H. destruct (f (ectr s)). inversion H; subst. apply lmono_uf. reflexivity. Qed.

Lemma l_move_to : forall from to s x s', leader s (aid from) -> move_to from to s = Ok (x, s') -> lmono s s'.
Proof.
  intros from to s x s' L H.
  destruct (move_to_shape _ _ _ _ _ H) as (u1 & s1 & cf & ct & g' & bg & H1 & U' & _).
  eapply lmono_trans; [eapply lmono_ufset_leader; eauto|apply lmono_uf; exact U'].
Qed.

Section LUi.
  Variable ui : appid -> appid -> M bool.
  Hypothesis Hui : forall l r, lpres (ui l r).

  Lemma l_shrink_slots : forall from cap s x s', leader s (aid from) ->
    shrink_slots ui from cap s = Ok (x, s') -> lmono s s'.
  Proof.
    intros from cap s x s' L H. unfold shrink_slots in H.
    apply mbind_inv in H. destruct H as (ocl & s0 & Hoc & H). apply lift_inv in Hoc. destruct Hoc as [_ ->].
    apply mbind_inv in H. destruct H as (u1 & s1 & H1 & H).
    unfold record_redundancy_witness in H1. apply bind_reads_inv in H1. destruct H1 as (ss & _ & H1).
    eapply lmono_trans; [eapply lmono_ufset_leader; eauto|]. revert H. cbv zeta.
    generalize s1 x s'. change (lpres (dom c <- reads (fun s2 => get_class s2 (aid from));
      dom flags <- Model.lift (mapr (fun pp => allr (fun x1 => do y <- index pp x1; Ok (sset_mem y (sset_of_list ocl))) (sset_of_list ocl)) (ggenerators (c_group c)));
      dom g <- Model.lift (group_new false (identity (sset_of_list ocl))
           (map (fun pp => filter (fun kv => sset_mem (fst kv) (sset_of_list ocl)) pp)
              (map fst (filter snd (combine (ggenerators (c_group c)) flags)))));
      dom _ <- upd_class (aid from) (fun c0 => with_group (with_slots c0 (sset_of_list ocl)) g);
      dom _ <- touched_class (aid from) true;
      iterM (fun pp =>
             dom sl <- reads (fun s => class_slots s (aid from));
             dom ps <- Model.lift (mapr (fun x => do y <- index pp x; Ok (x, y)) (sset_of_list ocl));
             dom _ <- ui {| aid := aid from; am := identity sl |} {| aid := aid from; am := from_iter ps |};
             ret tt) (map fst (filter (fun p => negb (snd p)) (combine (ggenerators (c_group c)) flags))))).
    apply l_bind; [apply l_reads|]. intros c. apply l_bind; [apply l_lift|]. intros flags.
    apply l_bind; [apply l_lift|]. intros g. apply l_bind; [apply l_upd_class|]. intros _.
    apply l_bind; [apply l_sem, s_touched_class|]. intros _. apply l_iterM. intros pp.
    apply l_bind; [apply l_reads|]. intros sl. apply l_bind; [apply l_lift|]. intros ps.
    apply l_bind; [apply Hui|]. intros _. apply l_ret.
  Qed.

  Lemma l_union_leaders : forall l r s b s', leader s (aid l) -> leader s (aid r) ->
    union_leaders ui l r s = Ok (b, s') -> lmono s s'.
  Proof.
    intros l r s b s' Ll Lr H. unfold union_leaders in H.
    apply bind_reads_inv in H. destruct H as (e & _ & H).
    destruct e; [inversion H; subst; apply lmono_refl|]. cbv zeta in H.
    destruct (negb (sset_eqb (values (am l)) _)).
    { apply mbind_inv in H. destruct H as (u1 & s1 & H1 & H).
      apply mbind_inv in H. destruct H as (b2 & s2 & H2 & H). inversion H; subst b s2; clear H.
      eapply lmono_trans; [exact (l_shrink_slots _ _ _ _ _ Ll H1)|exact (Hui _ _ _ _ _ H2)]. }
    destruct (negb (sset_eqb (values (am r)) _)).
    { apply mbind_inv in H. destruct H as (u1 & s1 & H1 & H).
      apply mbind_inv in H. destruct H as (b2 & s2 & H2 & H). inversion H; subst b s2; clear H.
      eapply lmono_trans; [exact (l_shrink_slots _ _ _ _ _ Lr H1)|exact (Hui _ _ _ _ _ H2)]. }
    destruct (aid l =? aid r).
    - apply bind_reads_inv in H. destruct H as (c & _ & H).
      apply mbind_inv in H. destruct H as (bc & s0 & Hb & H). apply lift_inv in Hb. destruct Hb as [_ ->].
      destruct bc; [inversion H; subst; apply lmono_refl|].
      apply mbind_inv in H. destruct H as (g & s0 & Hg & H). apply lift_inv in Hg. destruct Hg as [_ ->].
      apply mbind_inv in H. destruct H as (u1 & s1 & H1 & H).
      apply mbind_inv in H. destruct H as (u2 & s2 & H2 & H). inversion H; subst b s2; clear H.
      eapply lmono_trans; [eapply l_upd_class; eauto|]. apply lmono_sem. eapply s_touched_class; eauto.
    - apply bind_reads_inv in H. destruct H as (cl & _ & H).
      apply bind_reads_inv in H. destruct H as (cr & _ & H). cbv zeta in H.
      apply mbind_inv in H. destruct H as (u1 & s1 & H1 & H). inversion H; subst b s1; clear H.
      match type of H1 with (if ?b then _ else _) _ = _ => destruct b end;
        [exact (l_move_to _ _ _ _ _ Ll H1)|exact (l_move_to _ _ _ _ _ Lr H1)].
  Qed.

  Lemma l_union_internal_body : forall l r, lpres (union_internal_body ui l r).
  Proof.
    intros l r s b s' H. unfold union_internal_body in H.
    apply bind_reads_inv in H. destruct H as (l' & Hl & H).
    apply bind_reads_inv in H. destruct H as (r' & Hr & H).
    eapply l_union_leaders; [| |exact H]; eapply find_is_leader; eauto.
  Qed.
End LUi.

Lemma l_union_internal : forall fuel l r, lpres (union_internal fuel l r).
Proof.
  induction fuel as [|f IH]; intros l r; [apply l_fail|].
  rewrite union_internal_S. apply l_union_internal_body. exact IH.
Qed.
Lemma l_uint : forall l r, lpres (uint l r).
Proof. apply l_union_internal. Qed.

Lemma l_handle_shrink : forall src, lpres (handle_shrink_in_upwards_merge src).
Proof.
  intros src s x s' H. unfold handle_shrink_in_upwards_merge in H.
  apply bind_reads_inv in H. destruct H as (pc1 & P1 & H).
  apply bind_reads_inv in H. destruct H as (n2 & _ & H).
  apply mbind_inv in H. destruct H as ([a b] & s1 & H1 & H).
  pose proof (pc_congruence_fst _ _ _ _ _ H1) as Fa. cbn [fst] in Fa. subst a.
  destruct (pc_from_src_spec _ _ _ P1) as (c & _ & _ & F).
  pose proof (find_is_leader _ _ _ F) as L.
  pose proof (s_pc_congruence _ _ _ _ _ H1) as S1.
  eapply lmono_trans; [apply lmono_sem; exact S1|].
  eapply (l_shrink_slots uint l_uint); [|exact H].
  destruct S1 as [[U _] _]. unfold leader. rewrite <- U. exact L.
Qed.

Lemma l_pcc_uint : forall pc1 pc2, lpres (dom ab <- pc_congruence pc1 pc2; dom _ <- uint (fst ab) (snd ab); ret tt).
Proof.
  intros pc1 pc2. apply l_bind; [apply l_sem, s_pc_congruence|]. intros ab.
  apply l_bind; [apply l_uint|]. intros _. apply l_ret.
Qed.

Lemma l_handle_congruence : forall pc, lpres (handle_congruence pc).
Proof.
  intros pc. unfold handle_congruence. apply l_bind; [apply l_reads|]. intros sh.
  apply l_bind; [apply l_reads|]. intros pc2. apply l_pcc_uint.
Qed.

Lemma l_determine_self_symmetries : forall src, lpres (determine_self_symmetries src).
Proof.
  intros src. unfold determine_self_symmetries. apply l_bind; [apply l_reads|]. intros pc1.
  apply l_bind; [apply l_lift|]. intros w. cbv zeta. apply l_bind; [apply l_reads|]. intros vs.
  apply l_iterM. intros pn2. apply l_bind; [apply l_lift|]. intros w2.
  destruct (node_eqb _ _); [apply l_pcc_uint|apply l_ret].
Qed.

Lemma l_hp_loop : forall fuel src enode i, lpres (hp_loop fuel src enode i).
Proof.
  induction fuel as [|f IH]; intros src enode i; cbn [hp_loop]; [apply l_fail|].
  destruct (sset_subset _ _); [apply l_ret|].
  apply l_bind; [apply l_handle_shrink|]. intros _.
  apply l_bind; [apply l_reads|]. intros enode'. apply l_bind; [apply l_reads|]. intros i'. apply IH.
Qed.

Lemma l_handle_pending : forall sh ty, lpres (handle_pending sh ty).
Proof.
  intros sh ty. unfold handle_pending.
  apply l_bind; [apply l_reads|]. intros i. destruct (negb ty); [apply l_ret|].
  apply l_bind; [apply l_reads|]. intros c.
  apply l_bind; [apply l_lift|]. intros [bij0 src_id].
  apply l_bind; [apply l_lift|]. intros nd.
  apply l_bind; [apply l_sem, s_raw_remove|]. intros _.
  apply l_bind; [apply l_reads|]. intros sl. cbv zeta.
  apply l_bind; [apply l_reads|]. intros enode.
  apply l_bind; [apply l_reads|]. intros i1.
  apply l_bind; [apply l_hp_loop|]. intros [enode' i1'].
  apply l_bind; [apply l_reads|]. intros t.
  apply l_bind; [apply l_reads|]. intros lk.
  destruct lk as [hit|].
  - apply l_bind; [apply l_reads|]. intros pc. apply l_handle_congruence.
  - destruct t as [sh' bij].
    pose proof s_fill_fresh as Hff. unfold fill_fresh in Hff.
    apply l_bind; [apply l_sem, Hff|]. intros m. cbv zeta.
    apply l_bind; [apply l_sem, s_raw_add|]. intros _. apply l_determine_self_symmetries.
Qed.

Lemma l_rebuild : forall fuel, lpres (rebuild fuel).
Proof.
  induction fuel as [|f IH]; [apply l_fail|]. rewrite rebuild_S.
  apply l_bind; [apply l_gets|]. intros p. destruct p as [|[sh ty] rest]; [apply l_ret|].
  apply l_bind; [apply l_sem, (s_modify_pend (fun _ => rest))|]. intros _.
  apply l_bind; [apply l_handle_pending|]. intros _. apply IH.
Qed.

Lemma l_eg_union : forall l r, lpres (eg_union l r).
Proof.
  intros l r. unfold eg_union. apply l_bind; [apply l_sem, s_synify_app_id|]. intros _.
  apply l_bind; [apply l_sem, s_synify_app_id|]. intros _. apply l_bind; [apply l_uint|]. intros out.
  apply l_bind; [apply l_rebuild|]. intros _. apply l_ret.
Qed.

Lemma l_mk_singleton : forall en, lpres (mk_singleton_class en).
Proof.
  intros en. unfold mk_singleton_class. cbv zeta.
  apply l_bind; [apply l_with_ctr|]. intros f2o. apply l_bind; [apply l_with_ctr|]. intros syn.
  apply l_bind; [intros s i s' H; eapply lmono_alloc; eauto|]. intros i.
  apply l_bind; [apply l_lift|]. intros t. apply l_bind; [apply l_sem, s_raw_add|]. intros _.
  apply l_bind; [apply l_sem, s_pending_insert|]. intros _.
  apply l_bind; [apply l_rebuild|]. intros _. apply l_ret.
Qed.

Lemma l_add_internal : forall t, lpres (add_internal t).
Proof.
  intros t. unfold add_internal. apply l_bind; [apply l_reads|]. intros lk.
  destruct lk as [hit|]; [apply l_ret|].
  apply l_bind.
  { intros s x s' H. destruct (refresh_private (fst t) (ectr s)) as [[r|e] c1]; [|discriminate].
    inversion H; subst. apply lmono_uf. reflexivity. }
  intros en1. apply l_bind; [apply l_lift|]. intros en2.
  apply l_bind; [apply l_sem, s_synify_enode|]. intros en3.
  apply l_bind; [apply l_mk_singleton|]. intros syn. apply l_reads.
Qed.

Lemma l_eg_add : forall n, lpres (eg_add n).
Proof. intros n. unfold eg_add. apply l_bind; [apply l_reads|]. intros t. apply l_add_internal. Qed.

Lemma l_add_expr : forall t, lpres (add_expr t).
Proof.
  fix IH 1. intros [n ch]. cbn [add_expr]. apply l_bind.
  - induction ch as [|c r IHr]; [apply l_ret|].
    apply l_bind; [apply IH|]. intros a. apply l_bind; [apply IHr|]. intros; apply l_ret.
  - intros l. destruct (Nat.ltb _ _); [apply l_fail | apply l_eg_add].
Qed.

(* ------------------------------------------------------------------ *)
(* 2. the live ids; sums *)

Fixpoint ids_go (l : list appid) (i : N) : list N :=
  match l with
  | [] => []
  | e :: t => if aid e =? i then i :: ids_go t (i + 1) else ids_go t (i + 1)
  end.

Lemma ids_eq : forall s, ids s = ids_go (unionfind s) 0.
Proof. reflexivity. Qed.

Lemma ids_go_in : forall u i j, In j (ids_go u i) <->
  exists k e, nth_opt u k = Some e /\ j = i + N.of_nat k /\ aid e = j.
Proof.
  induction u as [|e t IH]; intros i j; cbn [ids_go].
  - split; [intros []|intros (k & e & H & _); destruct k; discriminate].
  - split.
    + destruct (aid e =? i) eqn:E; neq.
      * intros [<-|H]; [exists O, e; cbn; split; [reflexivity|split; [lia|assumption]]|].
        apply IH in H. destruct H as (k & e0 & H1 & H2 & H3). exists (S k), e0. cbn [nth_opt]. split; [assumption|]. split; [lia|assumption].
      * intros H. apply IH in H. destruct H as (k & e0 & H1 & H2 & H3). exists (S k), e0. cbn [nth_opt]. split; [assumption|]. split; [lia|assumption].
    + intros (k & e0 & H1 & H2 & H3). destruct k as [|k]; cbn [nth_opt] in H1.
      * inversion H1; subst e0. assert (aid e = i) by lia. rewrite (proj2 (N.eqb_eq _ _) H). left. lia.
      * assert (In j (ids_go t (i + 1))) by (apply IH; exists k, e0; split; [assumption|split; [lia|assumption]]).
        destruct (aid e =? i); [right|]; assumption.
Qed.

Lemma ids_leader : forall s i, In i (ids s) <-> leader s i.
Proof.
  intros s i. rewrite ids_eq, ids_go_in. unfold leader, uleader, uentry. split.
  - intros (k & e & H1 & H2 & H3). exists e. replace (N.to_nat i) with k by lia. auto.
  - intros (e & H1 & H2). exists (N.to_nat i), e. split; [assumption|]. split; [lia|assumption].
Qed.

(* two tables of the same length, the leaders of the second are leaders of the first *)
Lemma ids_go_sub : forall u u' i, List.length u = List.length u' ->
  (forall k e', nth_opt u' k = Some e' -> aid e' = i + N.of_nat k ->
     exists e, nth_opt u k = Some e /\ aid e = i + N.of_nat k) ->
  (List.length (ids_go u' i) <= List.length (ids_go u i))%nat /\
  (List.length (ids_go u' i) = List.length (ids_go u i) -> ids_go u' i = ids_go u i).
Proof.
  induction u as [|e t IH]; intros [|e' t'] i L H; cbn [List.length] in L; try discriminate.
  - cbn. auto.
  - assert (L' : List.length t = List.length t') by lia.
    destruct (IH t' (i + 1) L') as [A B].
    { intros k x Hx Ex. destruct (H (S k) x Hx ltac:(lia)) as (y & Hy & Ey). exists y. split; [exact Hy|lia]. }
    cbn [ids_go]. destruct (aid e' =? i) eqn:E'; neq.
    + destruct (H O e' eq_refl ltac:(lia)) as (y & Hy & Ey). cbn [nth_opt] in Hy. inversion Hy; subst y.
      rewrite (proj2 (N.eqb_eq (aid e) i)) by lia. cbn [List.length]. split; [lia|]. intros Q. f_equal. apply B. lia.
    + destruct (aid e =? i); cbn [List.length]; [split; [lia|intros Q; lia]|split; assumption].
Qed.

Fixpoint Nsum (f : N -> N) (l : list N) : N :=
  match l with [] => 0 | x :: t => f x + Nsum f t end.

Lemma Nsum_le : forall f g l, (forall i, In i l -> f i <= g i) -> Nsum f l <= Nsum g l.
Proof.
  intros f g. induction l as [|x t IH]; intros H; cbn [Nsum]; [lia|].
  pose proof (H x (or_introl eq_refl)). pose proof (IH (fun i Hi => H i (or_intror Hi))). lia.
Qed.

Lemma Nsum_eq : forall f g l, (forall i, In i l -> f i <= g i) -> Nsum f l = Nsum g l ->
  forall i, In i l -> f i = g i.
Proof.
  intros f g. induction l as [|x t IH]; intros H E i Hi; [destruct Hi|]. cbn [Nsum] in E.
  pose proof (H x (or_introl eq_refl)) as Hx. pose proof (Nsum_le f g t (fun i Hi => H i (or_intror Hi))) as Ht.
  destruct Hi as [<-|Hi]; [lia|]. apply IH; [intros j Hj; apply H; right; assumption|lia|assumption].
Qed.

Definition slotn (s : egraph) (i : N) : N :=
  match get_class s i with Ok c => N.of_nat (List.length (c_slots c)) | Err _ => 0 end.
Definition symn (s : egraph) (i : N) : N :=
  match get_class s i with Ok c => gcount (c_group c) | Err _ => 0 end.

Lemma fold_sum : forall s (f : eclass -> N) l cls a, mapr (get_class s) l = Ok cls ->
  fold_left (fun acc c => acc + f c) cls a =
  a + Nsum (fun i => match get_class s i with Ok c => f c | Err _ => 0 end) l.
Proof.
  intros s f. induction l as [|x t IH]; intros cls a H; cbn [mapr] in H.
  - inversion H; subst. cbn. lia.
  - destruct (get_class s x) as [c|] eqn:Hc; cbn [bind] in H; [|discriminate].
    destruct (mapr (get_class s) t) as [r|] eqn:Hr; cbn [bind] in H; [|discriminate]. inversion H; subst cls.
    cbn [fold_left Nsum]. rewrite (IH r _ eq_refl), Hc. lia.
Qed.

Theorem progress_spec : forall s p, progress s = Ok p ->
  p = (N.of_nat (lc s), N.of_nat (List.length (ids s)), Nsum (slotn s) (ids s), Nsum (symn s) (ids s)).
Proof.
  intros s p H. unfold progress in H. cbv zeta in H.
  destruct (mapr (get_class s) (ids s)) as [cls|] eqn:E; cbn [bind] in H; [|discriminate]. inversion H; subst p.
  rewrite (fold_sum s (fun c => N.of_nat (List.length (c_slots c))) _ _ 0 E).
  rewrite (fold_sum s (fun c => gcount (c_group c)) _ _ 0 E). reflexivity.
Qed.

Theorem progress_total : forall s, eg_wf s -> exists p, progress s = Ok p.
Proof.
  intros s W. unfold progress. cbv zeta.
  destruct (mapr_total (get_class s) (ids s)) as (cls & ->); [|cbn [bind]; eauto].
  intros i Hi. apply ids_leader in Hi. destruct Hi as (e & He & _). apply uentry_lt in He.
  apply get_class_ok. unfold eg_wf in W. lia.
Qed.

(* ------------------------------------------------------------------ *)
(* 3. cardinalities: slot sets and groups *)

Lemma slots_sub_count : forall a b : sset, swf a -> swf b -> incl b a ->
  (List.length b <= List.length a)%nat /\ (List.length b = List.length a -> b = a).
Proof.
  intros a b Wa Wb I. pose proof (swf_NoDup _ Wb) as Nb. split; [apply NoDup_incl_length; assumption|].
  intros L. apply sset_ext; try assumption. intros x. split; [apply I|].
  apply (NoDup_length_incl Nb); [lia|exact I].
Qed.

Lemma grp_enum : forall c, grp_ok c -> exists l, NoDup l /\
  (forall p, In p l <-> perm_on (c_slots c) p /\ gcontains false (c_group c) p = Ok true) /\
  gcount (c_group c) = N.of_nat (List.length l).
Proof.
  intros c (gens & HG & Hg). pose proof (identity_is_id (c_slots c)) as Hid.
  destruct (gall_perms_exact _ _ gens Hid HG) as (g & l & E & _ & ND & IN & CNT).
  rewrite Hg in E. inversion E; subst g. exists l. split; [assumption|]. split; [|assumption].
  intros p. rewrite IN. split.
  - intros Gp. split; [eapply generated_po; eauto|eapply gcontains_complete; eauto].
  - intros [Hp Hc]. eapply gcontains_sound; eauto.
Qed.

(* a subgroup of the same finite order is the whole group *)
Lemma grp_sub_count : forall c c', grp_ok c -> grp_ok c' -> c_slots c' = c_slots c ->
  (forall p, perm_on (c_slots c) p -> gcontains false (c_group c) p = Ok true -> gcontains false (c_group c') p = Ok true) ->
  gcount (c_group c) <= gcount (c_group c') /\
  (gcount (c_group c) = gcount (c_group c') -> forall p, perm_on (c_slots c) p ->
     gcontains false (c_group c') p = Ok true -> gcontains false (c_group c) p = Ok true).
Proof.
  intros c c' G G' S Sub. destruct (grp_enum c G) as (l & ND & IN & CNT). destruct (grp_enum c' G') as (l' & ND' & IN' & CNT').
  rewrite S in IN'.
  assert (I : incl l l'). { intros p Hp. apply IN in Hp. apply IN'. destruct Hp as [A B]. split; [assumption|apply Sub; assumption]. }
  pose proof (NoDup_incl_length ND I) as Le. split; [lia|]. intros E p Hp Hc.
  assert (Hin : In p l') by (apply IN'; auto).
  apply (NoDup_length_incl ND) in Hin; [|lia|exact I]. apply IN in Hin. apply Hin.
Qed.

Lemma perm_values : forall sl p, swf sl -> perm_on sl p -> values p = sl.
Proof.
  intros sl p W Hp. apply sset_ext; [apply sset_of_list_spec|assumption|]. intros v.
  rewrite values_spec by apply Hp. split.
  - intros (k & G). eapply po_val; eauto.
  - intros Hv. apply Hp. assumption.
Qed.

Lemma perm_lcanon : forall s i c p, eg_inv s -> leader s i -> get_class s i = Ok c -> perm_on (c_slots c) p ->
  lcanon s {| aid := i; am := p |}.
Proof.
  intros s i c p Hs L Hc Hp. destruct (ei_cls s Hs _ _ Hc) as (Wc & _ & _).
  split; [exact L|]. exists c. cbn [aid am]. split; [assumption|]. split; [exact (uso_grp s (ei_slots s Hs) i c L Hc)|].
  split; [apply Hp|]. split; [eapply po_bij; eauto|]. apply (perm_on_iff _ p Wc) in Hp. apply Hp.
Qed.

Lemma eq_to_canon : forall s a x, eg_inv s -> covers s a -> find_applied_id s a = Ok x -> eg_eq s a x = Ok true.
Proof.
  intros s a x Hs Ca Fa.
  rewrite (eg_eq_find_congr s a x a a); [|reflexivity|rewrite (find_idempotent s a x (ei_uf _ Hs) Fa), Fa; reflexivity].
  apply eg_eq_refl_inv; [exact (ei_uf _ Hs)|exact (ei_slots _ Hs)|exact Ca].
Qed.

Lemma find_total : forall s a, eg_inv s -> covers s a -> exists x, find_applied_id s a = Ok x.
Proof.
  intros s a Hs Ca. pose proof (eg_eq_refl_inv s a (ei_uf _ Hs) (ei_slots _ Hs) Ca) as Q.
  destruct (eg_eq_true_inv _ _ _ Q) as (x & _ & _ & F & _). eauto.
Qed.

(* ------------------------------------------------------------------ *)
(* 4. the relation along which the measure moves *)

Definition pext (s s' : egraph) : Prop := eg_inv s /\ eg_inv s' /\ mext0 s s' /\ lmono s s'.

Lemma pext_trans : forall a b c, pext a b -> pext b c -> pext a c.
Proof.
  intros a b c (A1 & A2 & A3 & A4) (B1 & B2 & B3 & B4). split; [assumption|]. split; [assumption|].
  split; [eapply mext0_trans; eauto|eapply lmono_trans; eauto].
Qed.
Lemma pext_refl : forall s, eg_inv s -> pext s s.
Proof. intros s H. split; [assumption|]. split; [assumption|]. split; [apply mext0_refl|apply lmono_refl]. Qed.

Lemma pext_lc : forall s s', pext s s' -> (lc s <= lc s')%nat.
Proof.
  intros s s' (_ & _ & [[_ E] _] & _). destruct (Nat.le_gt_cases (lc s) (lc s')) as [H|H]; [assumption|exfalso].
  destruct (get_class_ok s (N.of_nat (lc s'))) as (c & Hc); [lia|].
  destruct (E _ _ Hc) as (c' & Hc' & _). apply get_class_lt in Hc'. lia.
Qed.

Lemma pext_ids : forall s s', pext s s' -> lc s' = lc s ->
  (List.length (ids s') <= List.length (ids s))%nat /\ (List.length (ids s') = List.length (ids s) -> ids s' = ids s).
Proof.
  intros s s' (Hs & Hs' & _ & [_ LM]) L. pose proof (uso_wf s (ei_slots s Hs)) as W. pose proof (uso_wf s' (ei_slots s' Hs')) as W'.
  unfold eg_wf in W, W'. rewrite !ids_eq. apply ids_go_sub; [lia|].
  intros k e' He' Ee'. destruct (LM (N.of_nat k)) as (e & He & Ee).
  - apply nth_opt_Some_lt in He'. lia.
  - exists e'. unfold uentry. rewrite Nnat.Nat2N.id. split; [assumption|lia].
  - exists e. unfold uentry in He. rewrite Nnat.Nat2N.id in He. split; [assumption|lia].
Qed.

(* a class that is a leader before and after: slots shrink; with equal slots the group grows *)
Lemma pext_leader_class : forall s s' i c, pext s s' -> leader s i -> leader s' i -> get_class s i = Ok c ->
  exists c', get_class s' i = Ok c' /\ incl (c_slots c') (c_slots c) /\ swf (c_slots c) /\ swf (c_slots c') /\
    grp_ok c /\ grp_ok c' /\
    (c_slots c' = c_slots c -> forall p, perm_on (c_slots c) p ->
       gcontains false (c_group c) p = Ok true -> gcontains false (c_group c') p = Ok true).
Proof.
  intros s s' i c (Hs & Hs' & [[_ E] M] & _) L L' Hc.
  destruct (E _ _ Hc) as (c' & Hc' & I & _). exists c'. split; [assumption|]. split; [assumption|].
  destruct (ei_cls s Hs _ _ Hc) as (Wc & _ & _). destruct (ei_cls s' Hs' _ _ Hc') as (Wc' & _ & _).
  pose proof (uso_grp s (ei_slots s Hs) i c L Hc) as G. pose proof (uso_grp s' (ei_slots s' Hs') i c' L' Hc') as G'.
  split; [assumption|]. split; [assumption|]. split; [assumption|]. split; [assumption|].
  intros S p Hp Hg. pose proof (identity_is_id (c_slots c)) as Hid. pose proof (proj1 Hid) as Pid.
  pose proof (perm_lcanon s i c p Hs L Hc Hp) as La. pose proof (perm_lcanon s i c _ Hs L Hc Pid) as Lb.
  assert (Hp' : perm_on (c_slots c') p) by (rewrite S; exact Hp).
  assert (Pid' : perm_on (c_slots c') (identity (c_slots c))) by (rewrite S; exact Pid).
  pose proof (perm_lcanon s' i c' p Hs' L' Hc' Hp') as La'. pose proof (perm_lcanon s' i c' _ Hs' L' Hc' Pid') as Lb'.
  assert (EQ : p ** inv (identity (c_slots c)) = p) by (rewrite (inv_e _ _ Hid); apply (id_r _ _ Hid); exact Hp).
  assert (Q : eg_eq s {| aid := i; am := p |} {| aid := i; am := identity (c_slots c) |} = Ok true).
  { eapply eg_eq_true_intro; [apply lcanon_find_fixed; eassumption|apply lcanon_find_fixed; eassumption|reflexivity| |exact Hc|]; cbn [aid am].
    - rewrite (perm_values _ _ Wc Hp), (values_identity _ Wc). reflexivity.
    - rewrite EQ. exact Hg. }
  apply M in Q; [|apply canon_covers; apply La|apply canon_covers; apply Lb].
  destruct (eg_eq_true_inv _ _ _ Q) as (a' & b' & c0 & Fa & Fb & _ & _ & Hc0 & G0).
  rewrite (lcanon_find_fixed s' _ Hs' La') in Fa. rewrite (lcanon_find_fixed s' _ Hs' Lb') in Fb.
  inversion Fa; subst a'. inversion Fb; subst b'. cbn [aid am] in *. rewrite Hc' in Hc0. inversion Hc0; subst c0.
  rewrite EQ in G0. exact G0.
Qed.

(* the same live classes, each with the same slots and a group with the same elements *)
Definition same_live (s s' : egraph) : Prop :=
  lc s' = lc s /\ ids s' = ids s /\
  forall i c, leader s i -> get_class s i = Ok c ->
    exists c', get_class s' i = Ok c' /\ c_slots c' = c_slots c /\
      forall p, perm_on (c_slots c) p ->
        (gcontains false (c_group c') p = Ok true <-> gcontains false (c_group c) p = Ok true).

(* the lexicographic order of the measure: classes up; then live classes down; then slots down; then symmetries up *)
Definition ple (p q : N * N * N * N) : Prop :=
  let '(a, b, c, d) := p in
  let '(a', b', c', d') := q in
  a < a' \/ (a = a' /\ (b' < b \/ (b' = b /\ (c' < c \/ (c' = c /\ d <= d'))))).

Lemma ple_refl : forall p, ple p p.
Proof. intros [[[a b] c] d]. cbn. lia. Qed.
Lemma ple_trans : forall p q r, ple p q -> ple q r -> ple p r.
Proof. intros [[[a b] c] d] [[[a1 b1] c1] d1] [[[a2 b2] c2] d2]. cbn. lia. Qed.
Lemma ple_antisym : forall p q, ple p q -> ple q p -> p = q.
Proof. intros [[[a b] c] d] [[[a1 b1] c1] d1]. cbn. intros H1 H2. repeat f_equal; lia. Qed.

Lemma leader_class : forall s i, eg_inv s -> leader s i -> exists c, get_class s i = Ok c.
Proof.
  intros s i Hs (e & He & _). apply uentry_lt in He. apply get_class_ok.
  pose proof (uso_wf s (ei_slots s Hs)) as W. unfold eg_wf in W. lia.
Qed.

Section Measure.
  Variables s s' : egraph.
  Hypothesis X : pext s s'.
  Hypothesis Hids : ids s' = ids s.

  Lemma pext_slotn : forall i, In i (ids s) -> slotn s' i <= slotn s i.
  Proof.
    intros i Hi. pose proof (proj1 (ids_leader s i) Hi) as L.
    assert (L' : leader s' i) by (apply ids_leader; rewrite Hids; exact Hi).
    destruct (leader_class s i (proj1 X) L) as (c & Hc).
    destruct (pext_leader_class s s' i c X L L' Hc) as (c' & Hc' & I & W & W' & _).
    unfold slotn. rewrite Hc, Hc'. pose proof (proj1 (slots_sub_count _ _ W W' I)). lia.
  Qed.

  Hypothesis Hslots : Nsum (slotn s') (ids s) = Nsum (slotn s) (ids s).

  Lemma pext_slots_same : forall i c c', leader s i -> get_class s i = Ok c -> get_class s' i = Ok c' ->
    c_slots c' = c_slots c.
  Proof.
    intros i c c' L Hc Hc'. pose proof (proj2 (ids_leader s i) L) as Hi.
    assert (L' : leader s' i) by (apply ids_leader; rewrite Hids; exact Hi).
    destruct (pext_leader_class s s' i c X L L' Hc) as (c0 & Hc0 & I & W & W' & _).
    rewrite Hc' in Hc0. inversion Hc0; subst c0.
    pose proof (Nsum_eq _ _ _ pext_slotn Hslots i Hi) as E. unfold slotn in E. rewrite Hc, Hc' in E.
    apply (slots_sub_count _ _ W W' I). lia.
  Qed.

  Lemma pext_symn : forall i, In i (ids s) -> symn s i <= symn s' i.
  Proof.
    intros i Hi. pose proof (proj1 (ids_leader s i) Hi) as L.
    assert (L' : leader s' i) by (apply ids_leader; rewrite Hids; exact Hi).
    destruct (leader_class s i (proj1 X) L) as (c & Hc).
    destruct (pext_leader_class s s' i c X L L' Hc) as (c' & Hc' & I & W & W' & G & G' & Sub).
    pose proof (pext_slots_same i c c' L Hc Hc') as S.
    unfold symn. rewrite Hc, Hc'. apply (grp_sub_count c c' G G' S (Sub S)).
  Qed.

  Hypothesis Hsyms : Nsum (symn s) (ids s) = Nsum (symn s') (ids s).

  Lemma pext_groups_same : forall i c c', leader s i -> get_class s i = Ok c -> get_class s' i = Ok c' ->
    forall p, perm_on (c_slots c) p ->
      (gcontains false (c_group c') p = Ok true <-> gcontains false (c_group c) p = Ok true).
  Proof.
    intros i c c' L Hc Hc' p Hp. pose proof (proj2 (ids_leader s i) L) as Hi.
    assert (L' : leader s' i) by (apply ids_leader; rewrite Hids; exact Hi).
    destruct (pext_leader_class s s' i c X L L' Hc) as (c0 & Hc0 & I & W & W' & G & G' & Sub).
    rewrite Hc' in Hc0. inversion Hc0; subst c0.
    pose proof (pext_slots_same i c c' L Hc Hc') as S.
    pose proof (Nsum_eq _ _ _ pext_symn Hsyms i Hi) as E. unfold symn in E. rewrite Hc, Hc' in E.
    split; [|apply (Sub S); assumption].
    apply (proj2 (grp_sub_count c c' G G' S (Sub S)) E); assumption.
  Qed.
End Measure.

(* MONOTONE MOTION: the measure moves lexicographically in one direction along pext *)
Theorem progress_monotone : forall s s' p p', pext s s' -> progress s = Ok p -> progress s' = Ok p' -> ple p p'.
Proof.
  intros s s' p p' X P P'. apply progress_spec in P, P'. subst p p'. unfold ple.
  pose proof (pext_lc s s' X) as L1.
  destruct (Nat.eq_dec (lc s') (lc s)) as [E1|N1]; [|left; lia]. right. split; [lia|].
  destruct (pext_ids s s' X E1) as [L2 Q2].
  destruct (Nat.eq_dec (List.length (ids s')) (List.length (ids s))) as [E2|N2]; [|left; lia]. right. split; [lia|].
  specialize (Q2 E2). rewrite Q2.
  pose proof (Nsum_le _ _ _ (pext_slotn s s' X Q2)) as L3.
  destruct (N.eq_dec (Nsum (slotn s') (ids s)) (Nsum (slotn s) (ids s))) as [E3|N3]; [|left; lia]. right. split; [lia|].
  exact (Nsum_le _ _ _ (pext_symn s s' X Q2 E3)).
Qed.

(* EQUAL MEASURE: the live classes, their slots and the elements of their groups are unchanged *)
Theorem progress_equal_same_live : forall s s' p, pext s s' -> progress s = Ok p -> progress s' = Ok p ->
  same_live s s'.
Proof.
  intros s s' p X P P'. apply progress_spec in P, P'. rewrite P in P'. inversion P' as [[E1 E2 E3 E4]].
  assert (L1 : lc s' = lc s) by lia.
  destruct (pext_ids s s' X L1) as [_ Q2]. assert (Hids : ids s' = ids s) by (apply Q2; lia).
  rewrite Hids in E3, E4. symmetry in E3.
  split; [assumption|]. split; [assumption|]. intros i c L Hc.
  assert (L' : leader s' i) by (apply ids_leader; rewrite Hids; apply ids_leader; exact L).
  destruct (pext_leader_class s s' i c X L L' Hc) as (c' & Hc' & _).
  exists c'. split; [assumption|]. split; [exact (pext_slots_same s s' X Hids E3 i c c' L Hc Hc')|].
  exact (pext_groups_same s s' X Hids E3 E4 i c c' L Hc Hc').
Qed.

(* ------------------------------------------------------------------ *)
(* 5. unchanged live classes: equality and canonical forms are unchanged (both directions) *)

Lemma same_live_lcanon : forall s s' x, eg_inv s' -> same_live s s' -> lcanon s x -> lcanon s' x.
Proof.
  intros s s' x Hs' (_ & Hids & SL) [L (c & Hc & G & W & B & K)].
  assert (L' : leader s' (aid x)) by (apply ids_leader; rewrite Hids; apply ids_leader; exact L).
  destruct (SL _ _ L Hc) as (c' & Hc' & S & _).
  split; [exact L'|]. exists c'. split; [assumption|]. split; [exact (uso_grp s' (ei_slots s' Hs') _ c' L' Hc')|].
  split; [assumption|]. split; [assumption|]. congruence.
Qed.

Definition obs_same (s s' : egraph) : Prop :=
  same_live s s' /\
  (forall a b, covers s a -> covers s b -> eg_eq s' a b = eg_eq s a b) /\
  (forall a x, covers s a -> find_applied_id s a = Ok x ->
     exists x', find_applied_id s' a = Ok x' /\ aid x' = aid x /\ values (am x') = values (am x)).

Theorem same_live_obs : forall s s', pext s s' -> same_live s s' -> obs_same s s'.
Proof.
  intros s s' (Hs & Hs' & [E M] & _) SL. split; [exact SL|].
  assert (FIND : forall a x, covers s a -> find_applied_id s a = Ok x ->
            lcanon s x /\ lcanon s' x /\ eg_eq s a x = Ok true /\ eg_eq s' a x = Ok true /\ find_applied_id s' x = Ok x).
  { intros a x Ca Fa. pose proof (covers_lcanon s a x Hs Ca Fa) as Lx.
    pose proof (same_live_lcanon s s' x Hs' SL Lx) as Lx'. pose proof (eq_to_canon s a x Hs Ca Fa) as Q.
    split; [assumption|]. split; [assumption|]. split; [assumption|].
    split; [apply M; [assumption|apply canon_covers; apply Lx|assumption]|apply lcanon_find_fixed; assumption]. }
  split.
  - intros a b Ca Cb. pose proof (covers_ext0 _ _ _ E Ca) as Ca'. pose proof (covers_ext0 _ _ _ E Cb) as Cb'.
    destruct (eg_eq_sym_inv s a b (ei_uf _ Hs) (ei_slots _ Hs) Ca Cb) as (v & Hv & _).
    destruct (eg_eq_sym_inv s' a b (ei_uf _ Hs') (ei_slots _ Hs') Ca' Cb') as (v' & Hv' & _).
    rewrite Hv, Hv'. f_equal.
    destruct v; [apply M in Hv; try assumption; congruence|]. destruct v'; [|reflexivity]. exfalso.
    destruct (find_total s a Hs Ca) as (xa & Fa). destruct (find_total s b Hs Cb) as (xb & Fb).
    destruct (FIND a xa Ca Fa) as (La & La' & Qa & Qa' & Fxa). destruct (FIND b xb Cb Fb) as (Lb & Lb' & Qb & Qb' & Fxb).
    pose proof (canon_covers _ _ (proj2 La)) as Cxa. pose proof (canon_covers _ _ (proj2 Lb)) as Cxb.
    pose proof (canon_covers _ _ (proj2 La')) as Cxa'. pose proof (canon_covers _ _ (proj2 Lb')) as Cxb'.
    assert (T : eg_eq s' xa xb = Ok true).
    { apply (eg_eq_trans_true s' xa a xb Hs' Cxa' Ca' Cxb'); [apply eg_eq_sym_true; assumption|].
      apply (eg_eq_trans_true s' a b xb Hs' Ca' Cb' Cxb'); assumption. }
    destruct (eg_eq_true_inv _ _ _ T) as (a' & b' & c0 & Fa' & Fb' & Ei & V & Hc0 & G0).
    rewrite Fxa in Fa'. rewrite Fxb in Fb'. inversion Fa'; subst a'. inversion Fb'; subst b'.
    destruct La as [Ll (c & Hc & Gc & Wa & Ba & Ka)]. destruct Lb as [_ (cb & Hcb & _ & Wb & Bb & Kb)].
    rewrite <- Ei, Hc in Hcb. inversion Hcb; subst cb.
    destruct SL as (_ & _ & SLc). destruct (SLc _ _ Ll Hc) as (c' & Hc' & S & GG).
    rewrite Hc' in Hc0. inversion Hc0; subst c0.
    assert (T2 : eg_eq s xa xb = Ok true).
    { eapply eg_eq_true_intro; [eapply find_idempotent; [exact (ei_uf _ Hs)|exact Fa]|eapply find_idempotent; [exact (ei_uf _ Hs)|exact Fb]|
                                exact Ei|exact V|exact Hc|].
      apply GG; [apply quot_perm_on; assumption|exact G0]. }
    assert (T3 : eg_eq s a b = Ok true).
    { apply (eg_eq_trans_true s a xa b Hs Ca Cxa Cb Qa).
      apply (eg_eq_trans_true s xa xb b Hs Cxa Cxb Cb T2). apply eg_eq_sym_true; assumption. }
    congruence.
  - intros a x Ca Fa. destruct (FIND a x Ca Fa) as (_ & _ & _ & Q' & Fx).
    destruct (eg_eq_true_inv _ _ _ Q') as (a' & x' & c0 & Fa' & Fx' & Ei & V & _).
    rewrite Fx in Fx'. inversion Fx'; subst x'. exists a'. auto.
Qed.

(* the core lemma, abstractly: along pext, an equal measure means nothing observable changed *)
Theorem progress_equal_obs_same : forall s s' p, pext s s' -> progress s = Ok p -> progress s' = Ok p ->
  obs_same s s'.
Proof. intros s s' p X P P'. apply same_live_obs; [assumption|]. eapply progress_equal_same_live; eauto. Qed.

(* ------------------------------------------------------------------ *)
(* 6. every operation moves along pext *)

Theorem pext_add_expr : forall t s a s', inv3 s -> add_expr t s = Ok (a, s') -> pext s s' /\ inv3 s' /\ covers s' a.
Proof.
  intros t s a s' I3 H. destruct (add_expr_covers t s a s' I3 H) as (I3' & _ & C).
  destruct (inv4_add_expr t s a s' H (proj1 I3)) as [_ X].
  split; [|auto]. split; [exact (proj1 (proj1 I3))|]. split; [exact (proj1 (proj1 I3'))|]. split; [exact X|].
  exact (l_add_expr t s a s' H).
Qed.

Theorem pext_eg_add : forall n s a s', inv3 s -> eg_add n s = Ok (a, s') -> pext s s' /\ inv3 s' /\ covers s' a.
Proof.
  intros n s a s' I3 H. destruct (eg_add_covers n s a s' I3 H) as (I3' & _ & C).
  destruct (inv4_eg_add n s a s' H (proj1 I3)) as [_ X].
  split; [|auto]. split; [exact (proj1 (proj1 I3))|]. split; [exact (proj1 (proj1 I3'))|]. split; [exact X|].
  exact (l_eg_add n s a s' H).
Qed.

Theorem pext_eg_union : forall l r s b s', inv3 s -> covers s l -> covers s r -> eg_union l r s = Ok (b, s') ->
  pext s s' /\ inv3 s' /\ ext s s'.
Proof.
  intros l r s b s' I3 Cl Cr H. destruct (eg_union_inv3 l r s b s' I3 Cl Cr H) as (I3' & E).
  destruct (inv4_eg_union l r s b s' (proj1 I3) Cl Cr H) as (_ & X & _).
  split; [|auto]. split; [exact (proj1 (proj1 I3))|]. split; [exact (proj1 (proj1 I3'))|]. split; [apply mext_mext0; exact X|].
  exact (l_eg_union l r s b s' H).
Qed.

(* ------------------------------------------------------------------ *)
(* 7. sequences: the measure is squeezed; a step with equal measure changes nothing in the graph *)

Lemma pext_progress_total : forall s s', pext s s' -> (exists p, progress s = Ok p) /\ (exists p, progress s' = Ok p).
Proof.
  intros s s' (Hs & Hs' & _). split; apply progress_total; [exact (uso_wf s (ei_slots s Hs))|exact (uso_wf s' (ei_slots s' Hs'))].
Qed.

(* if the measure at the end of a sequence equals the one at the beginning, it was equal after every step *)
Theorem progress_squeeze : forall a b c p, pext a b -> pext b c -> progress a = Ok p -> progress c = Ok p ->
  progress b = Ok p.
Proof.
  intros a b c p X1 X2 Pa Pc. destruct (proj2 (pext_progress_total a b X1)) as (q & Pb). rewrite Pb. f_equal.
  apply ple_antisym; [exact (progress_monotone b c q p X2 Pb Pc)|exact (progress_monotone a b p q X1 Pa Pb)].
Qed.

Inductive pchain : egraph -> list egraph -> Prop :=
| pchain_nil : forall s, pchain s []
| pchain_cons : forall s s1 l, pext s s1 -> pchain s1 l -> pchain s (s1 :: l).

Lemma last_cons : forall (t : list egraph) x s, last (x :: t) s = last t x.
Proof.
  induction t as [|a t IH]; intros x s; [reflexivity|]. change (last (x :: a :: t) s) with (last (a :: t) s).
  rewrite (IH a s), (IH a x). reflexivity.
Qed.

Lemma pchain_inv : forall s x l, pchain s (x :: l) -> pext s x /\ pchain x l.
Proof. intros s x l H. inversion H; subst. auto. Qed.

Lemma pchain_last : forall l s, eg_inv s -> pchain s l -> pext s (last l s).
Proof.
  induction l as [|x t IH]; intros s Hs C; [apply pext_refl; assumption|].
  destruct (pchain_inv _ _ _ C) as [X C']. rewrite last_cons.
  eapply pext_trans; [exact X|]. apply IH; [apply X|assumption].
Qed.

Lemma pchain_in : forall l s x, pchain s l -> In x l -> pext s x.
Proof.
  induction l as [|y t IH]; intros s x C Hx; [destruct Hx|]. destruct (pchain_inv _ _ _ C) as [X C'].
  destruct Hx as [<-|Hx]; [assumption|]. eapply pext_trans; [exact X|]. apply IH; assumption.
Qed.

Theorem pchain_squeeze : forall l s p, eg_inv s -> pchain s l -> progress s = Ok p -> progress (last l s) = Ok p ->
  forall x, In x l -> progress x = Ok p /\ obs_same s x.
Proof.
  induction l as [|y t IH]; intros s p Hs C P PL x Hx; [destruct Hx|]. destruct (pchain_inv _ _ _ C) as [X C'].
  rewrite last_cons in PL. pose proof (pchain_last t y (proj1 (proj2 X)) C') as XL.
  pose proof (progress_squeeze s y (last t y) p X XL P PL) as Py.
  assert (Px : progress x = Ok p).
  { destruct Hx as [<-|Hx]; [assumption|]. exact (proj1 (IH y p (proj1 (proj2 X)) C' Py PL x Hx)). }
  split; [assumption|]. eapply progress_equal_obs_same; [exact (pchain_in _ _ _ C Hx)|exact P|exact Px].
Qed.

Lemma same_graph_progress : forall s s', same_graph s s' -> progress s' = progress s.
Proof. intros s s' (U & C & _). unfold progress, ids, get_class. rewrite U, C. reflexivity. Qed.

Lemma same_graph_semR : forall s s', same_graph s s' -> ectr s <= ectr s' -> semR s s' /\ nsame s s'.
Proof.
  intros s s' (U & C & _) L. split; [split; [split; [congruence|rewrite C; reflexivity]|exact L]|apply nsame_classes; exact C].
Qed.

Lemma inv3_eg_inv2 : forall s, inv3 s -> eg_inv2 s.
Proof. intros s H. exact (proj1 H). Qed.
Lemma inv3_eg_inv : forall s, inv3 s -> eg_inv s.
Proof. intros s H. exact (proj1 (proj1 H)). Qed.

(* a step: keeps inv3, moves along pext, and changes nothing in the graph if the measure is equal *)
Definition qstep (s s' : egraph) : Prop :=
  inv3 s' /\ pext s s' /\ (pending s = [] -> progress s' = progress s -> same_graph s s').

Lemma qstep_refl : forall s, inv3 s -> qstep s s.
Proof. intros s H. split; [assumption|]. split; [apply pext_refl, inv3_eg_inv; assumption|]. intros _ _. apply same_graph_refl. Qed.

Lemma qstep_trans : forall a b c, qstep a b -> qstep b c -> qstep a c.
Proof.
  intros a b c (Ib & X1 & S1) (Ic & X2 & S2). split; [assumption|]. split; [eapply pext_trans; eauto|].
  intros Pd E. destruct (proj1 (pext_progress_total a b X1)) as (p & Pa). rewrite Pa in E.
  pose proof (progress_squeeze a b c p X1 X2 Pa E) as Pb.
  assert (G1 : same_graph a b) by (apply S1; [assumption|congruence]).
  eapply same_graph_trans; [exact G1|]. apply S2; [|congruence]. destruct G1 as (_ & _ & _ & Q). congruence.
Qed.

Lemma qstep_pext_cov : forall s s' a, qstep s s' -> covers s a -> covers s' a.
Proof. intros s s' a (_ & (_ & _ & [E _] & _) & _). apply covers_ext0. exact E. Qed.

Lemma qstep_sg : forall s s', inv3 s -> same_graph s s' -> ectr s <= ectr s' -> qstep s s'.
Proof.
  intros s s' I3 G L. destruct (same_graph_semR s s' G L) as [S Nn].
  destruct (semn_step3 s s' S Nn I3) as [I3' _]. split; [assumption|]. split; [|intros _ _; exact G].
  split; [apply inv3_eg_inv; assumption|]. split; [apply inv3_eg_inv; assumption|].
  split; [apply mext_mext0; exact (proj2 (semR_step4 s s' S (inv3_eg_inv2 s I3)))|apply lmono_sem; exact S].
Qed.

Lemma sg_synify_app_id : forall a, pres same_graph (synify_app_id a).
Proof. intros a. apply (pres_synify_app_id same_graph same_graph_refl same_graph_trans). apply anyctr_fresh. exact same_graph_ctr. Qed.

Lemma qstep_synify : forall a s x s', inv3 s -> synify_app_id a s = Ok (x, s') -> qstep s s'.
Proof.
  intros a s x s' I3 H. apply qstep_sg; [assumption|exact (sg_synify_app_id a s x s' H)|].
  exact (proj2 (s_synify_app_id a s x s' H)).
Qed.

Lemma eg_add_noalloc_same : forall n s a s', eg_add n s = Ok (a, s') -> lc s' = lc s -> s' = s.
Proof.
  intros n s a s' H L. unfold eg_add in H. apply bind_reads_inv in H. destruct H as (t & _ & H).
  destruct (lookup_internal s t) as [[hit|]|e] eqn:Lk.
  - rewrite (add_internal_known s t hit Lk) in H. inversion H. reflexivity.
  - destruct (add_internal_allocates_one t s a s' Lk H) as [Q _]. lia.
  - unfold add_internal, mbind, reads in H. rewrite Lk in H. discriminate.
Qed.

Lemma progress_lc : forall s s', progress s' = progress s -> (exists p, progress s = Ok p) -> lc s' = lc s.
Proof.
  intros s s' E (p & P). rewrite P in E. apply progress_spec in E, P. rewrite P in E. inversion E. lia.
Qed.

Theorem qstep_eg_add : forall n s a s', inv3 s -> eg_add n s = Ok (a, s') -> qstep s s' /\ covers s' a.
Proof.
  intros n s a s' I3 H. destruct (pext_eg_add n s a s' I3 H) as (X & I3' & C). split; [|assumption].
  split; [assumption|]. split; [assumption|]. intros _ E.
  rewrite (eg_add_noalloc_same n s a s' H); [apply same_graph_refl|].
  apply progress_lc; [assumption|exact (proj1 (pext_progress_total s s' X))].
Qed.

Lemma uint_noop : forall fuel l r s b s', eg_inv s -> union_internal fuel l r s = Ok (b, s') ->
  eg_eq s l r = Ok true -> b = false /\ s' = s.
Proof.
  intros fuel l r s b s' Hs H Q. destruct fuel as [|f]; [discriminate|]. rewrite union_internal_S in H.
  unfold union_internal_body in H. apply bind_reads_inv in H. destruct H as (l' & Hl & H).
  apply bind_reads_inv in H. destruct H as (r' & Hr & H). unfold union_leaders in H.
  apply bind_reads_inv in H. destruct H as (e & He & H).
  rewrite (eg_eq_find_congr s l' r' l r) in He.
  - rewrite Q in He. inversion He; subst e. inversion H. auto.
  - rewrite Hl. eapply find_idempotent; [exact (ei_uf _ Hs)|exact Hl].
  - rewrite Hr. eapply find_idempotent; [exact (ei_uf _ Hs)|exact Hr].
Qed.

Theorem qstep_uint : forall l r s b s', inv3 s -> covers s l -> covers s r -> uint l r s = Ok (b, s') -> qstep s s'.
Proof.
  intros l r s b s' I3 Cl Cr H. destruct (inv3_uint l r s b s' I3 Cl Cr H) as [I3' _].
  destruct (inv4_uint l r s b s' (inv3_eg_inv s I3) Cl Cr H) as (Hs' & X & Q).
  assert (PX : pext s s').
  { split; [apply inv3_eg_inv; assumption|]. split; [assumption|]. split; [apply mext_mext0; assumption|exact (l_uint l r s b s' H)]. }
  split; [assumption|]. split; [assumption|]. intros _ E.
  destruct (proj1 (pext_progress_total s s' PX)) as (p & P). rewrite P in E.
  destruct (progress_equal_obs_same s s' p PX P E) as (_ & EQ & _).
  rewrite (EQ l r Cl Cr) in Q.
  destruct (uint_noop ui_fuel l r s b s' (inv3_eg_inv s I3) H Q) as [_ ->]. apply same_graph_refl.
Qed.

Lemma rebuild_noop : forall fuel s x s', pending s = [] -> rebuild fuel s = Ok (x, s') -> s' = s.
Proof.
  intros fuel s x s' P H. destruct fuel as [|f]; [discriminate|]. rewrite rebuild_S in H.
  unfold mbind, gets in H. rewrite P in H. inversion H. reflexivity.
Qed.

Theorem qstep_rebuild : forall fuel s x s', inv3 s -> rebuild fuel s = Ok (x, s') -> qstep s s'.
Proof.
  intros fuel s x s' I3 H. destruct (inv3_rebuild pre_shape_keeps_proved fuel s x s' H I3) as [I3' _].
  destruct (inv4_rebuild fuel s x s' H (inv3_eg_inv2 s I3)) as [_ X].
  split; [assumption|]. split.
  - split; [apply inv3_eg_inv; assumption|]. split; [apply inv3_eg_inv; assumption|].
    split; [apply mext_mext0; assumption|exact (l_rebuild fuel s x s' H)].
  - intros P _. rewrite (rebuild_noop fuel s x s' P H). apply same_graph_refl.
Qed.

(* the core lemma for `uint l r; rebuild` (with the two synify steps: eg_union, = the tail of
   union_instantiations) *)
Theorem qstep_eg_union : forall l r s b s', inv3 s -> covers s l -> covers s r -> eg_union l r s = Ok (b, s') -> qstep s s'.
Proof.
  intros l r s b s' I3 Cl Cr H. unfold eg_union in H.
  apply mbind_inv in H. destruct H as (l1 & s1 & H1 & H). pose proof (qstep_synify _ _ _ _ I3 H1) as Q1.
  apply mbind_inv in H. destruct H as (r1 & s2 & H2 & H). pose proof (qstep_synify _ _ _ _ (proj1 Q1) H2) as Q2.
  pose proof (qstep_trans _ _ _ Q1 Q2) as Q12.
  apply mbind_inv in H. destruct H as (out & s3 & H3 & H).
  pose proof (qstep_uint _ _ _ _ _ (proj1 Q12) (qstep_pext_cov _ _ _ Q12 Cl) (qstep_pext_cov _ _ _ Q12 Cr) H3) as Q3.
  apply mbind_inv in H. destruct H as (u & s4 & H4 & H). inversion H; subst b s4; clear H.
  pose proof (qstep_rebuild _ _ _ _ (proj1 Q3) H4) as Q4.
  eapply qstep_trans; [exact Q12|]. eapply qstep_trans; eassumption.
Qed.

(* ------------------------------------------------------------------ *)
(* 8. the appliers of apply_rewrites (EGraph/Rewrite.v) *)

(* every invocation of the substitution covers its class *)
Definition sub_cov (s : egraph) (sb : subst) : Prop := forall v a, sub_get sb v = Some a -> covers s a.

Lemma sub_cov_qstep : forall s s' sb, qstep s s' -> sub_cov s sb -> sub_cov s' sb.
Proof. intros s s' sb Q H v a E. eapply qstep_pext_cov; [exact Q|]. eapply H; eauto. Qed.

Lemma q_do_term_subst : forall re x t s a s', inv3 s -> covers s t ->
  do_term_subst re x t s = Ok (a, s') -> qstep s s' /\ covers s' a.
Proof.
  fix IH 1. intros [n ch] x t s a s' I3 Ct H. cbn [do_term_subst] in H.
  apply mbind_inv in H. destruct H as (l & s1 & H1 & H).
  assert (K : qstep s s1).
  { match type of H1 with ?F ch ?k0 s = _ =>
      assert (KK : forall k z l0 z1, inv3 z -> covers z t -> F ch k z = Ok (l0, z1) -> qstep z z1) end.
    { clear H1 H I3 Ct s l s1 a s'. induction ch as [|c r IHr]; intros k z l0 z1 I3 Ct H1.
      - destruct k; [inversion H1; subst; apply qstep_refl; assumption|discriminate].
      - destruct k as [|k]; [inversion H1; subst; apply qstep_refl; assumption|].
        apply mbind_inv in H1. destruct H1 as (a0 & z2 & Ha & H1).
        apply mbind_inv in H1. destruct H1 as (r0 & z3 & Hr & H1). inversion H1; subst l0 z3; clear H1.
        destruct (IH c x t z a0 z2 I3 Ct Ha) as [Q1 _].
        eapply qstep_trans; [exact Q1|]. eapply IHr; [exact (proj1 Q1)|eapply qstep_pext_cov; eauto|exact Hr]. }
    exact (KK _ _ _ _ I3 Ct H1). }
  apply mbind_inv in H. destruct H as (app_id & s2 & H2 & H).
  destruct (qstep_eg_add _ _ _ _ (proj1 K) H2) as [Q2 C2].
  pose proof (qstep_trans _ _ _ K Q2) as Q.
  destruct (appid_eqb app_id x); inversion H; subst a s'; (split; [exact Q|]); [eapply qstep_pext_cov; eauto|exact C2].
Qed.

Lemma q_syn_expr_subst : forall b x t s a s', inv3 s -> covers s t ->
  syn_expr_subst b x t s = Ok (a, s') -> qstep s s' /\ covers s' a.
Proof.
  intros b x t s a s' I3 Ct H. unfold syn_expr_subst in H.
  apply mbind_inv in H. destruct H as (sb & s1 & H1 & H). pose proof (qstep_synify _ _ _ _ I3 H1) as Q1.
  apply bind_reads_inv in H. destruct H as (term & _ & H).
  destruct (q_do_term_subst term x t s1 a s' (proj1 Q1) (qstep_pext_cov _ _ _ Q1 Ct) H) as [Q2 C].
  split; [eapply qstep_trans; eauto|exact C].
Qed.

Lemma q_pattern_subst : forall p sb s a s', inv3 s -> sub_cov s sb ->
  pattern_subst p sb s = Ok (a, s') -> qstep s s' /\ covers s' a.
Proof.
  intros p sb. induction p as [v|n ch IH|b x t IHb IHx IHt] using pattern_ind2; intros s a s' I3 SC H.
  - cbn [pattern_subst] in H. destruct (sub_get sb v) as [a0|] eqn:E; [|discriminate]. inversion H; subst a0 s'.
    split; [apply qstep_refl; assumption|eapply SC; eauto].
  - rewrite pattern_subst_node in H. apply mbind_inv in H. destruct H as (l & s1 & H1 & H).
    assert (K : qstep s s1).
    { revert H1. generalize (List.length (app_occ n)). clear H. revert s l s1 I3 SC.
      induction IH as [|c r Hc _ IHr]; intros s l s1 I3 SC k H1.
      - rewrite psubst_kids_nil in H1. destruct k; [inversion H1; subst; apply qstep_refl; assumption|discriminate].
      - destruct k as [|k]; [rewrite psubst_kids_O in H1; inversion H1; subst; apply qstep_refl; assumption|].
        rewrite psubst_kids_cons in H1. apply mbind_inv in H1. destruct H1 as (a0 & s2 & Ha & H1).
        apply mbind_inv in H1. destruct H1 as (r0 & s3 & Hr & H1). inversion H1; subst l s3; clear H1.
        destruct (Hc s a0 s2 I3 SC Ha) as [Q1 _].
        eapply qstep_trans; [exact Q1|]. eapply IHr; [exact (proj1 Q1)|eapply sub_cov_qstep; eauto|exact Hr]. }
    destruct (qstep_eg_add _ _ _ _ (proj1 K) H) as [Q2 C2]. split; [eapply qstep_trans; eauto|exact C2].
  - cbn [pattern_subst] in H.
    apply mbind_inv in H. destruct H as (b' & s1 & H1 & H). destruct (IHb s b' s1 I3 SC H1) as [Q1 _].
    apply mbind_inv in H. destruct H as (x' & s2 & H2 & H).
    destruct (IHx s1 x' s2 (proj1 Q1) (sub_cov_qstep _ _ _ Q1 SC) H2) as [Q2 _].
    pose proof (qstep_trans _ _ _ Q1 Q2) as Q12.
    apply mbind_inv in H. destruct H as (t' & s3 & H3 & H).
    destruct (IHt s2 t' s3 (proj1 Q12) (sub_cov_qstep _ _ _ Q12 SC) H3) as [Q3 C3].
    pose proof (qstep_trans _ _ _ Q12 Q3) as Q123.
    destruct (q_syn_expr_subst b' x' t' s3 a s' (proj1 Q123) C3 H) as [Q4 C4].
    split; [eapply qstep_trans; eauto|exact C4].
Qed.

Lemma q_union_instantiations : forall fp tp sb s b s', inv3 s -> sub_cov s sb ->
  union_instantiations fp tp sb s = Ok (b, s') -> qstep s s'.
Proof.
  intros fp tp sb s b s' I3 SC H. unfold union_instantiations in H.
  apply mbind_inv in H. destruct H as (x & s1 & H1 & H). destruct (q_pattern_subst fp sb s x s1 I3 SC H1) as [Q1 C1].
  apply mbind_inv in H. destruct H as (y & s2 & H2 & H).
  destruct (q_pattern_subst tp sb s1 y s2 (proj1 Q1) (sub_cov_qstep _ _ _ Q1 SC) H2) as [Q2 C2].
  pose proof (qstep_trans _ _ _ Q1 Q2) as Q12.
  change (eg_union x y s2 = Ok (b, s')) in H.
  eapply qstep_trans; [exact Q12|]. exact (qstep_eg_union x y s2 b s' (proj1 Q12) (qstep_pext_cov _ _ _ Q2 C1) C2 H).
Qed.

Lemma q_apply_substs_cond : forall r substs s x s', inv3 s -> Forall (sub_cov s) substs ->
  apply_substs_cond r substs s = Ok (x, s') -> qstep s s'.
Proof.
  intros r. unfold apply_substs_cond. induction substs as [|sb t IH]; intros s x s' I3 SC H; cbn [iterM] in H.
  - inversion H; subst. apply qstep_refl; assumption.
  - apply mbind_inv in H. destruct H as (u & s1 & H1 & H).
    assert (Q1 : qstep s s1).
    { apply mbind_inv in H1. destruct H1 as (c & s0 & Hc & H1). apply lift_inv in Hc. destruct Hc as [_ ->].
      destruct c; [|inversion H1; subst; apply qstep_refl; assumption].
      apply mbind_inv in H1. destruct H1 as (b & s2 & H2 & H1). inversion H1; subst u s2; clear H1.
      eapply q_union_instantiations; [exact I3| |exact H2]. exact (Forall_inv SC). }
    eapply qstep_trans; [exact Q1|]. eapply IH; [exact (proj1 Q1)| |exact H].
    apply Forall_inv_tail in SC. revert SC. apply Forall_impl. intros sb'. apply sub_cov_qstep. exact Q1.
Qed.

Lemma q_appliers : forall (l : list (rule * list subst)) s x s', inv3 s ->
  Forall (fun rt => Forall (sub_cov s) (snd rt)) l ->
  iterM (fun rt : rule * list subst => apply_substs_cond (fst rt) (snd rt)) l s = Ok (x, s') -> qstep s s'.
Proof.
  induction l as [|rt t IH]; intros s x s' I3 SC H; cbn [iterM] in H.
  - inversion H; subst. apply qstep_refl; assumption.
  - apply mbind_inv in H. destruct H as (u & s1 & H1 & H).
    pose proof (q_apply_substs_cond _ _ _ _ _ I3 (Forall_inv SC) H1) as Q1.
    eapply qstep_trans; [exact Q1|]. eapply IH; [exact (proj1 Q1)| |exact H].
    apply Forall_inv_tail in SC. revert SC. apply Forall_impl. intros rt'. apply Forall_impl. intros sb'. apply sub_cov_qstep. exact Q1.
Qed.

(* THE APPLIER PHASE: executed from a state with inv3 and no pending work, with covering
   substitutions: the measure moves monotonically, and if it is equal at the end, the graph
   (union-find, classes, hashcons, pending) is literally unchanged *)
Theorem appliers_progress : forall (l : list (rule * list subst)) s x s', inv3 s -> pending s = [] ->
  Forall (fun rt => Forall (sub_cov s) (snd rt)) l ->
  iterM (fun rt : rule * list subst => apply_substs_cond (fst rt) (snd rt)) l s = Ok (x, s') ->
  inv3 s' /\ pext s s' /\
  (forall p p', progress s = Ok p -> progress s' = Ok p' -> ple p p') /\
  (progress s' = progress s -> same_graph s s').
Proof.
  intros l s x s' I3 P SC H. destruct (q_appliers l s x s' I3 SC H) as (I3' & X & G).
  split; [assumption|]. split; [assumption|]. split; [|exact (G P)].
  intros p p'. apply progress_monotone. exact X.
Qed.

Lemma prog_eqb_eq : forall p q, prog_eqb p q = true -> p = q.
Proof.
  intros [[[a b] c] d] [[[a' b'] c'] d'] H. unfold prog_eqb in H.
  apply andb_true_iff in H. destruct H as [H H4]. apply andb_true_iff in H. destruct H as [H H3].
  apply andb_true_iff in H. destruct H as [H1 H2]. neq. congruence.
Qed.

Lemma sg_searchers : forall rs, pres same_graph (mapM (fun r => ematch_all (r_lhs r)) rs).
Proof. intros rs. apply (pres_mapM same_graph same_graph_refl same_graph_trans). intros r s l s' H. exact (ematch_all_state _ _ _ _ H). Qed.

(* the searchers never decrease the fresh-slot counter *)
Section TravMono.
  Variable S : Type.
  Variable f : bool -> slot -> S -> slot * S.
  Variable mu : S -> N.
  Hypothesis Hf : forall b x st, mu st <= mu (snd (f b x st)).

  Lemma trav_vals_mono : forall bound m st, mu st <= mu (snd (trav_vals f bound m st)).
  Proof.
    intros bound. induction m as [|[k v] t IH]; intros st; cbn [trav_vals snd]; [lia|].
    pose proof (Hf (negb (existsb (N.eqb v) bound)) v st) as H1.
    destruct (f (negb (existsb (N.eqb v) bound)) v st) as [v' st1]. cbn [snd] in H1.
    pose proof (IH st1) as H2. destruct (trav_vals f bound t st1) as [t' st2]. cbn [snd] in *. lia.
  Qed.

  Lemma trav_f_mono : forall a bound st, mu st <= mu (snd (trav_f f bound a st)).
  Proof.
    induction a as [s|x|s b IH|p]; intros bound st; cbn [trav_f].
    - pose proof (Hf (negb (existsb (N.eqb s) bound)) s st) as H1.
      destruct (f (negb (existsb (N.eqb s) bound)) s st) as [s' st1]. cbn [snd] in *. lia.
    - pose proof (trav_vals_mono bound (am x) st) as H1. destruct (trav_vals f bound (am x) st) as [m' st1]. cbn [snd] in *. lia.
    - pose proof (Hf false s st) as H1. destruct (f false s st) as [s' st1]. cbn [snd] in H1.
      pose proof (IH (s :: bound) st1) as H2. destruct (trav_f f (s :: bound) b st1) as [b' st2]. cbn [snd] in *. lia.
    - cbn [snd]. lia.
  Qed.

  Lemma trav_args_mono : forall l st, mu st <= mu (snd (trav_args f l st)).
  Proof.
    induction l as [|a t IH]; intros st; cbn [trav_args]; [cbn [snd]; lia|].
    pose proof (trav_f_mono a [] st) as H1. destruct (trav_f f [] a st) as [a' st1]. cbn [snd] in H1.
    pose proof (IH st1) as H2. destruct (trav_args f t st1) as [t' st2]. cbn [snd] in *. lia.
  Qed.

  Lemma trav_mono : forall n st, mu st <= mu (snd (trav f n st)).
  Proof.
    intros n st. unfold trav. pose proof (trav_args_mono (nargs n) st) as H1.
    destruct (trav_args f (nargs n) st) as [l st1]. cbn [snd] in *. lia.
  Qed.
End TravMono.

Definition cle (s s' : egraph) : Prop := ectr s <= ectr s'.
Lemma cle_refl : forall s, cle s s.
Proof. intros s. unfold cle. lia. Qed.
Lemma cle_trans : forall a b c, cle a b -> cle b c -> cle a c.
Proof. unfold cle. intros. lia. Qed.
Local Notation c_ret := (pres_ret cle cle_refl).
Local Notation c_bind := (pres_bind cle cle_trans).

Lemma c_fresh : pres cle Model.fresh.
Proof. intros s x s' H. inversion H; subst. unfold cle. cbn. lia. Qed.

Lemma c_flat_mapM : forall A C (f : A -> M (list C)) l, (forall x, pres cle (f x)) -> pres cle (flat_mapM f l).
Proof.
  intros A C f l Hf. induction l as [|x t IH]; cbn [flat_mapM]; [apply c_ret|].
  apply c_bind; [apply Hf|]. intros y. apply c_bind; [apply IH|]. intros r. apply c_ret.
Qed.

Lemma c_extend_fresh : forall l m, pres cle (extend_fresh l m).
Proof.
  induction l as [|x t IH]; intros m; cbn [extend_fresh]; [apply c_ret|].
  destruct (contains_key m x); [apply IH|]. apply c_bind; [apply c_fresh|]. intros f. apply IH.
Qed.

Lemma c_enodes_applied : forall i, pres cle (enodes_applied i).
Proof.
  intros i. unfold enodes_applied. apply c_bind; [apply pres_reads; exact cle_refl|]. intros c.
  apply pres_mapM; [exact cle_refl|exact cle_trans|]. intros [sh [bij src]].
  apply c_bind; [apply pres_lift; exact cle_refl|]. intros x.
  apply c_bind.
  { intros s y s' H. apply with_ctr_spec in H. subst s'. unfold cle. cbn [Model.ctr set_ctr].
    match goal with |- context [trav ?F x _] =>
      pose proof (trav_mono (slotmap * N) F (fun st => snd st)) as T end.
    cbn beta in T. match type of T with ?A -> _ => assert (HA : A) end.
    { intros b z [m0 c0]. cbn [snd fst]. destruct (sset_mem z (c_slots c)); [cbn [snd]; lia|].
      destruct (get m0 z); cbn [snd]; lia. }
    specialize (T HA x ([], ectr s)). cbn [snd] in T.
    match type of T with _ <= snd (snd ?tr) => destruct tr as [x' [m1 c1]] end. cbn [snd] in *. exact T. }
  intros x2. apply c_bind.
  - generalize (@nil (slot * slot)). induction (slots x2) as [|sl t IH]; intros m; [apply c_ret|].
    destruct (contains_key (am i) sl); [apply IH|].
    apply c_bind; [apply c_fresh|]. intros f. apply IH.
  - intros m. apply pres_lift. exact cle_refl.
Qed.

Lemma c_ematch_kids : forall ch, Forall (fun p => forall st i, pres cle (ematch_impl p st i)) ch ->
  forall subs acc, pres cle (ematch_kids ch subs acc).
Proof.
  induction ch as [|sp ch' IH]; intros Hch subs acc; [cbn [ematch_kids]; apply c_ret|].
  destruct subs as [|sid subs']; cbn [ematch_kids]; [apply c_ret|].
  pose proof (Forall_inv Hch) as Hsp. pose proof (Forall_inv_tail Hch) as Hch'.
  apply c_bind; [apply c_flat_mapM; intros a; apply Hsp|]. intros next. apply IH. assumption.
Qed.

Lemma c_ematch_impl : forall p st i, pres cle (ematch_impl p st i).
Proof.
  induction p as [v|n ch IH|b x t _ _ _] using pattern_ind2; intros st i.
  - cbn [ematch_impl]. destruct (sub_get (partial_subst st) v) as [j|]; [|apply c_ret].
    apply c_bind; [apply pres_reads; exact cle_refl|]. intros e. apply c_ret.
  - rewrite ematch_impl_node. apply c_bind; [apply c_enodes_applied|]. intros nns.
    apply c_flat_mapM. intros nn. destruct (negb (Nat.eqb (nvar n) (nvar nn))); [apply c_ret|].
    apply c_bind; [apply pres_reads; exact cle_refl|]. intros vs.
    apply c_flat_mapM. intros n2.
    apply c_bind; [apply pres_lift; exact cle_refl|]. intros n_sh.
    apply c_bind; [apply pres_lift; exact cle_refl|]. intros c_sh.
    destruct (negb (node_eqb (fst n_sh) (fst c_sh))); [apply c_ret|].
    destruct (insert_all_bij _ _) as [m'|]; [|apply c_ret].
    apply c_ematch_kids. exact IH.
  - cbn [ematch_impl]. apply pres_fail.
Qed.

Lemma c_final_subst : forall st, pres cle (final_subst st).
Proof.
  intros st. rewrite final_subst_go. generalize (partial_slotmap st).
  induction (partial_subst st) as [|[v a] t IH]; intros m; cbn [final_go]; [apply c_ret|].
  apply c_bind; [apply c_extend_fresh|]. intros m'.
  apply c_bind; [apply IH|]. intros r. apply c_ret.
Qed.

Theorem ematch_all_ctr : forall p, pres cle (ematch_all p).
Proof.
  intros p. unfold ematch_all. apply c_bind; [apply pres_gets; exact cle_refl|]. intros live.
  apply c_flat_mapM. intros i.
  apply c_bind; [apply pres_reads; exact cle_refl|]. intros sl.
  apply c_bind; [apply c_ematch_impl|]. intros sts.
  apply pres_mapM; [exact cle_refl|exact cle_trans|]. intros st. apply c_final_subst.
Qed.

Lemma c_searchers : forall rs, pres cle (mapM (fun r => ematch_all (r_lhs r)) rs).
Proof. intros rs. apply (pres_mapM cle cle_refl cle_trans). intros r. apply ematch_all_ctr. Qed.

(* apply_rewrites returns false only if the graph is unchanged.  Conditional on what the searchers
   deliver: the substitutions cover their classes. *)
Section ApplyRewrites.
  Variable sched : nat -> list subst -> list subst.
  Variable rs : list rule.
  Variable s : egraph.
  Hypothesis I3 : inv3 s.
  Hypothesis Pend : pending s = [].
  Hypothesis searchers_ok : forall ts s1, mapM (fun r => ematch_all (r_lhs r)) rs s = Ok (ts, s1) ->
    Forall (Forall (sub_cov s1)) (mapi_from sched O ts).

  Theorem apply_rewrites_false_unchanged : forall s', apply_rewrites_sched sched rs s = Ok (false, s') ->
    same_graph s s' /\ total_number_of_nodes s' = total_number_of_nodes s /\ obs_same s s'.
  Proof.
    intros s' H. unfold apply_rewrites_sched in H.
    apply bind_reads_inv in H. destruct H as (p0 & P0 & H).
    apply mbind_inv in H. destruct H as (ts & s1 & H1 & H). cbv zeta in H.
    pose proof (searchers_ok ts s1 H1) as SC. pose proof (c_searchers rs s ts s1 H1) as Lc. pose proof (sg_searchers rs s ts s1 H1) as G1.
    pose proof (qstep_sg s s1 I3 G1 Lc) as Q1.
    apply mbind_inv in H. destruct H as (u & s2 & H2 & H).
    apply bind_reads_inv in H. destruct H as (p1 & P1 & H). inversion H as [[E Es]]. subst s2.
    apply negb_false_iff, prog_eqb_eq in E. subst p1.
    assert (SC' : Forall (fun rt : rule * list subst => Forall (sub_cov s1) (snd rt)) (combine rs (mapi_from sched O ts))).
    { apply Forall_forall. intros [r l] Hin. apply in_combine_r in Hin. cbn [snd]. exact (proj1 (Forall_forall _ _) SC l Hin). }
    pose proof (q_appliers _ s1 u s' (proj1 Q1) SC' H2) as Q2.
    destruct (qstep_trans _ _ _ Q1 Q2) as (I3' & X & G).
    assert (SG : same_graph s s') by (apply G; [exact Pend|congruence]).
    split; [exact SG|]. split; [unfold total_number_of_nodes; destruct SG as (_ & _ & -> & _); reflexivity|].
    eapply progress_equal_obs_same; eauto.
  Qed.
End ApplyRewrites.

(* ------------------------------------------------------------------ *)
(* 9. the statements for single operations (property C15 core lemma; the lexicographic clause of C13) *)

Definition op_facts (s s' : egraph) : Prop :=
  (forall p p', progress s = Ok p -> progress s' = Ok p' -> ple p p') /\
  (progress s' = progress s ->
     List.length (classes s') = List.length (classes s) /\ obs_same s s' /\
     (pending s = [] -> same_graph s s' /\ total_number_of_nodes s' = total_number_of_nodes s)).

Lemma qstep_op_facts : forall s s', qstep s s' -> op_facts s s'.
Proof.
  intros s s' (_ & X & G). split; [intros p p'; apply progress_monotone; exact X|]. intros E.
  destruct (proj1 (pext_progress_total s s' X)) as (p & P).
  assert (O : obs_same s s') by (eapply progress_equal_obs_same; [exact X|exact P|congruence]).
  split; [exact (proj1 (proj1 O))|]. split; [exact O|]. intros Pd. pose proof (G Pd E) as SG.
  split; [exact SG|]. unfold total_number_of_nodes. destruct SG as (_ & _ & -> & _). reflexivity.
Qed.

(* no class was allocated: every eg_add of the insertion was a lookup hit *)
Lemma add_expr_noalloc_same : forall t s a s', add_expr t s = Ok (a, s') -> lc s' = lc s -> s' = s.
Proof.
  fix IH 1. intros [n ch] s a s' H L. cbn [add_expr] in H.
  apply mbind_inv in H. destruct H as (l & s1 & H1 & H).
  assert (M1 : (lc s <= lc s1)%nat /\ (lc s1 = lc s -> s1 = s)).
  { clear H L. revert s l s1 H1. induction ch as [|c r IHr]; intros s l s1 H1.
    - inversion H1; subst. split; [lia|reflexivity].
    - apply mbind_inv in H1. destruct H1 as (a0 & s2 & Ha & H1).
      apply mbind_inv in H1. destruct H1 as (r0 & s3 & Hr & H1). inversion H1; subst l s3; clear H1.
      pose proof (proj2 (add_expr_mono c s a0 s2 Ha)) as M2. destruct (IHr s2 r0 s1 Hr) as [M3 E3].
      split; [lia|]. intros Q. assert (s1 = s2) by (apply E3; lia). subst s2. exact (IH c s a0 s1 Ha Q). }
  destruct (Nat.ltb _ _); [discriminate|].
  pose proof (proj2 (eg_add_mono _ _ _ _ H)) as M2. destruct M1 as [M1 E1].
  assert (s1 = s) by (apply E1; lia). subst s1. exact (eg_add_noalloc_same _ _ _ _ H L).
Qed.

Theorem add_expr_progress : forall t s a s', inv3 s -> add_expr t s = Ok (a, s') -> op_facts s s'.
Proof.
  intros t s a s' I3 H. destruct (pext_add_expr t s a s' I3 H) as (X & I3' & _).
  split; [intros p p'; apply progress_monotone; exact X|]. intros E.
  destruct (proj1 (pext_progress_total s s' X)) as (p & P).
  assert (O : obs_same s s') by (eapply progress_equal_obs_same; [exact X|exact P|congruence]).
  split; [exact (proj1 (proj1 O))|]. split; [exact O|]. intros _.
  rewrite (add_expr_noalloc_same t s a s' H (progress_lc s s' E (ex_intro _ p P))).
  split; [apply same_graph_refl|reflexivity].
Qed.

Theorem eg_add_progress : forall n s a s', inv3 s -> eg_add n s = Ok (a, s') -> op_facts s s'.
Proof. intros n s a s' I3 H. apply qstep_op_facts. exact (proj1 (qstep_eg_add n s a s' I3 H)). Qed.

Theorem eg_union_progress : forall l r s b s', inv3 s -> covers s l -> covers s r ->
  eg_union l r s = Ok (b, s') -> op_facts s s'.
Proof. intros l r s b s' I3 Cl Cr H. apply qstep_op_facts. exact (qstep_eg_union l r s b s' I3 Cl Cr H). Qed.

Theorem uint_rebuild_progress : forall l r s b s', inv3 s -> covers s l -> covers s r ->
  (dom out <- uint l r; dom _ <- rebuild rebuild_fuel; ret out) s = Ok (b, s') -> op_facts s s'.
Proof.
  intros l r s b s' I3 Cl Cr H. apply qstep_op_facts.
  apply mbind_inv in H. destruct H as (out & s1 & H1 & H). pose proof (qstep_uint _ _ _ _ _ I3 Cl Cr H1) as Q1.
  apply mbind_inv in H. destruct H as (u & s2 & H2 & H). inversion H; subst b s2; clear H.
  eapply qstep_trans; [exact Q1|exact (qstep_rebuild _ _ _ _ (proj1 Q1) H2)].
Qed.

Theorem union_instantiations_progress : forall fp tp sb s b s', inv3 s -> sub_cov s sb ->
  union_instantiations fp tp sb s = Ok (b, s') -> op_facts s s'.
Proof. intros fp tp sb s b s' I3 SC H. apply qstep_op_facts. exact (q_union_instantiations fp tp sb s b s' I3 SC H). Qed.

(* ------------------------------------------------------------------ *)
(* 10. plugged into the composition lemma of Run/RunnerFacts.v: a run that stops as Saturated ends in
   a state whose graph is the graph of its predecessor *)
From SE Require Run.Runner Run.RunnerFacts.

Section RunnerC15.
  Variable sched : nat -> list subst -> list subst.
  Variable rs : list rule.

  (* what the searchers must deliver in state s (not proved here: see the header) *)
  Definition searchers_ok (s : egraph) : Prop :=
    forall ts s1, mapM (fun r => ematch_all (r_lhs r)) rs s = Ok (ts, s1) ->
      Forall (Forall (sub_cov s1)) (mapi_from sched O ts).

  Definition good (s : egraph) : Prop := inv3 s /\ pending s = [] /\ searchers_ok s.

  (* a panic of apply_rewrites is not "saturated" *)
  Definition apply_total (s : egraph) : bool * egraph :=
    match apply_rewrites_sched sched rs s with Ok (b, s') => (b, s') | Err _ => (true, s) end.

  Definition unchanged (s s' : egraph) : Prop :=
    good s -> same_graph s s' /\ total_number_of_nodes s' = total_number_of_nodes s /\ obs_same s s'.

  Lemma apply_total_no_change : forall s, fst (apply_total s) = false -> unchanged s (snd (apply_total s)).
  Proof.
    intros s H (I3 & Pd & SO). unfold apply_total in *.
    destruct (apply_rewrites_sched sched rs s) as [[b s']|e] eqn:E; cbn [fst snd] in *; [|discriminate]. subst b.
    exact (apply_rewrites_false_unchanged sched rs s I3 Pd SO s' E).
  Qed.

  Variable nodes : egraph -> nat.
  Variable nclasses : egraph -> nat.
  Variable nlive : egraph -> nat.
  Variable hook : nat -> egraph -> option nat.
  Variable late : nat -> bool.

  Theorem run_saturated_unchanged : forall lim fuel s r sf,
    Runner.runner_run egraph apply_total nodes nclasses hook late lim fuel s = Some (r, sf) ->
    Runner.stop_reason r = Runner.Saturated ->
    exists s_prev, s_prev = Runner.steps egraph apply_total (Runner.iterations r - 1) s /\
      sf = snd (apply_total s_prev) /\ unchanged s_prev sf.
  Proof. exact (RunnerFacts.run_saturated_P egraph apply_total nodes nclasses hook late unchanged apply_total_no_change). Qed.

  Theorem eqsat_saturated_unchanged : forall il fuel s r sf,
    Runner.run_eqsat egraph apply_total nodes nlive hook late il fuel s = Some (r, sf) ->
    Runner.stop_reason r = Runner.Saturated ->
    exists s_prev, s_prev = Runner.steps egraph apply_total (Runner.iterations r) s /\
      sf = snd (apply_total s_prev) /\ unchanged s_prev sf.
  Proof. exact (RunnerFacts.eqsat_saturated_P egraph apply_total nodes nlive hook late unchanged apply_total_no_change). Qed.
End RunnerC15.

(* ------------------------------------------------------------------ *)
(* 11. examples.  a, b, f(a), f(b) with f(a) = f(b): the union a = b decreases the number of live
   classes (the measure moves), and the REBUILD that follows merges the nodes f(a), f(b) of the one
   class into one node without moving the measure.  So, from a state with pending work, `rebuild`
   alone changes the node count under an equal measure: the premise `pending s = []` of the
   "graph unchanged" clause is needed, and the measure of the whole operation moves in `uint`. *)
Definition px_terms : list rterm := [xc0 5; xc0 6; xun 3 (xc0 5); xun 3 (xc0 6)].
Definition px_before : res (list appid * egraph) :=
  run_ops px_terms [HAdd 0; HAdd 1; HAdd 2; HAdd 3; xU 2 3] [] empty_egraph.
Definition px_mid : res (bool * egraph) :=
  match px_before with
  | Ok (hs, s) => match nth_opt hs 0, nth_opt hs 1 with
                  | Some a, Some b => uint a b s
                  | _, _ => Err UnwrapNone
                  end
  | Err e => Err e
  end.
Definition px_after : res (unit * egraph) :=
  match px_mid with Ok (_, s1) => rebuild rebuild_fuel s1 | Err e => Err e end.
Definition px_obs {A} (r : res (A * egraph)) : option (res (N * N * N * N) * nat * nat) :=
  match r with Ok (_, s) => Some (progress s, total_number_of_nodes s, List.length (pending s)) | Err _ => None end.

Example px_measure_moves_in_uint :
  px_obs px_before = Some (Ok (4, 3, 0, 3), 4%nat, 0%nat) /\
  px_obs px_mid = Some (Ok (4, 2, 0, 2), 4%nat, 2%nat).
Proof. vm_compute. split; reflexivity. Qed.

Example px_rebuild_changes_nodes_under_equal_measure :
  px_obs px_after = Some (Ok (4, 2, 0, 2), 3%nat, 0%nat) /\
  match px_mid with Ok (_, s1) => andb (eg_invb s1) (nodes_okb s1) | Err _ => false end = true.
Proof. vm_compute. split; reflexivity. Qed.

Print Assumptions l_add_expr.
Print Assumptions l_eg_union.
Print Assumptions progress_spec.
Print Assumptions progress_monotone.
Print Assumptions progress_equal_same_live.
Print Assumptions progress_equal_obs_same.
Print Assumptions progress_squeeze.
Print Assumptions pchain_squeeze.
Print Assumptions pext_add_expr.
Print Assumptions pext_eg_add.
Print Assumptions pext_eg_union.
Print Assumptions add_expr_progress.
Print Assumptions eg_add_progress.
Print Assumptions eg_union_progress.
Print Assumptions uint_rebuild_progress.
Print Assumptions union_instantiations_progress.
Print Assumptions appliers_progress.
Print Assumptions apply_rewrites_false_unchanged.
Print Assumptions run_saturated_unchanged.
Print Assumptions eqsat_saturated_unchanged.


(* ------------------------------------------------------------------ *)
(* 12. nothing is pending after an operation; `good` states are closed under apply_rewrites *)

Definition pendR (s s' : egraph) : Prop := pending s = [] -> pending s' = [].
Lemma pendR_refl : forall s, pendR s s.
Proof. intros s H. exact H. Qed.
Lemma pendR_trans : forall a b c, pendR a b -> pendR b c -> pendR a c.
Proof. unfold pendR. auto. Qed.
Local Notation d_ret := (pres_ret pendR pendR_refl).
Local Notation d_bind := (pres_bind pendR pendR_trans).

Lemma rebuild_pending : forall fuel s x s', rebuild fuel s = Ok (x, s') -> pending s' = [].
Proof.
  induction fuel as [|f IH]; intros s x s' H; [discriminate|]. rewrite rebuild_S in H.
  apply mbind_inv in H. destruct H as (p & s0 & Hg & H). inversion Hg; subst p s0; clear Hg.
  destruct (pending s) as [|[sh ty] rest] eqn:E; [inversion H; subst; exact E|].
  apply mbind_inv in H. destruct H as (u1 & s1 & _ & H).
  apply mbind_inv in H. destruct H as (u2 & s2 & _ & H). exact (IH _ _ _ H).
Qed.

Lemma d_sg : forall A (m : M A), pres same_graph m -> pres pendR m.
Proof. intros A m H s x s' E P. destruct (H s x s' E) as (_ & _ & _ & Q). congruence. Qed.

Lemma d_eg_add : forall n, pres pendR (eg_add n).
Proof.
  intros n s a s' H P. unfold eg_add in H. apply bind_reads_inv in H. destruct H as (t & _ & H).
  unfold add_internal in H. apply bind_reads_inv in H. destruct H as (lk & _ & H).
  destruct lk as [hit|]; [inversion H; subst; exact P|].
  apply mbind_inv in H. destruct H as (en1 & s1 & _ & H).
  apply mbind_inv in H. destruct H as (en2 & s2 & _ & H).
  apply mbind_inv in H. destruct H as (en3 & s3 & _ & H).
  apply mbind_inv in H. destruct H as (syn & s4 & H4 & H).
  unfold reads in H. destruct (semify_app_id s4 syn); [|discriminate]. inversion H; subst s'.
  unfold mk_singleton_class in H4. cbv zeta in H4.
  apply mbind_inv in H4. destruct H4 as (y1 & z1 & _ & H4).
  apply mbind_inv in H4. destruct H4 as (y2 & z2 & _ & H4).
  apply mbind_inv in H4. destruct H4 as (y3 & z3 & _ & H4).
  apply mbind_inv in H4. destruct H4 as (y4 & z4 & _ & H4).
  apply mbind_inv in H4. destruct H4 as (y5 & z5 & _ & H4).
  apply mbind_inv in H4. destruct H4 as (y6 & z6 & _ & H4).
  apply mbind_inv in H4. destruct H4 as (y7 & z7 & H7 & H4). inversion H4; subst. exact (rebuild_pending _ _ _ _ H7).
Qed.

Lemma d_do_term_subst : forall re x t, pres pendR (do_term_subst re x t).
Proof.
  fix IH 1. intros [n ch] x t. cbn [do_term_subst]. apply d_bind.
  - generalize (List.length (app_occ n)). induction ch as [|c r IHr]; intros k.
    + destruct k; [apply d_ret|apply pres_fail].
    + destruct k as [|k]; [apply d_ret|].
      apply d_bind; [apply IH|]. intros a. apply d_bind; [apply IHr|]. intros; apply d_ret.
  - intros l. apply d_bind; [apply d_eg_add|]. intros app_id. destruct (appid_eqb app_id x); apply d_ret.
Qed.

Lemma d_pattern_subst : forall p sb, pres pendR (pattern_subst p sb).
Proof.
  intros p sb. induction p as [v|n ch IH|b x t IHb IHx IHt] using pattern_ind2.
  - cbn [pattern_subst]. destruct (sub_get sb v); [apply d_ret|apply pres_fail].
  - rewrite pattern_subst_node. apply d_bind; [|intros l; apply d_eg_add].
    generalize (List.length (app_occ n)). induction IH as [|c r Hc _ IHr]; intros k.
    + rewrite psubst_kids_nil. destruct k; [apply d_ret|apply pres_fail].
    + destruct k as [|k]; [rewrite psubst_kids_O; apply d_ret|]. rewrite psubst_kids_cons.
      apply d_bind; [exact Hc|]. intros a. apply d_bind; [apply IHr|]. intros; apply d_ret.
  - cbn [pattern_subst]. apply d_bind; [exact IHb|]. intros b'. apply d_bind; [exact IHx|]. intros x'.
    apply d_bind; [exact IHt|]. intros t'. unfold syn_expr_subst.
    apply d_bind; [apply d_sg, sg_synify_app_id|]. intros sb'.
    apply d_bind; [apply pres_reads; exact pendR_refl|]. intros term. apply d_do_term_subst.
Qed.

Lemma d_union_instantiations : forall fp tp sb, pres pendR (union_instantiations fp tp sb).
Proof.
  intros fp tp sb s b s' H _. unfold union_instantiations in H.
  apply mbind_inv in H. destruct H as (y1 & z1 & _ & H). apply mbind_inv in H. destruct H as (y2 & z2 & _ & H).
  apply mbind_inv in H. destruct H as (y3 & z3 & _ & H). apply mbind_inv in H. destruct H as (y4 & z4 & _ & H).
  apply mbind_inv in H. destruct H as (y5 & z5 & _ & H). apply mbind_inv in H. destruct H as (y6 & z6 & H6 & H).
  inversion H; subst. exact (rebuild_pending _ _ _ _ H6).
Qed.

Lemma d_appliers : forall (l : list (rule * list subst)),
  pres pendR (iterM (fun rt : rule * list subst => apply_substs_cond (fst rt) (snd rt)) l).
Proof.
  intros l. apply (pres_iterM pendR pendR_refl pendR_trans). intros [r substs]. unfold apply_substs_cond.
  apply (pres_iterM pendR pendR_refl pendR_trans). intros sb.
  apply d_bind; [apply pres_lift; exact pendR_refl|]. intros c. destruct c; [|apply d_ret].
  apply d_bind; [apply d_union_instantiations|]. intros; apply d_ret.
Qed.

Section GoodClosed.
  Variable sched : nat -> list subst -> list subst.
  Variable rs : list rule.

  Theorem apply_rewrites_qstep : forall s b s', inv3 s -> searchers_ok sched rs s ->
    apply_rewrites_sched sched rs s = Ok (b, s') -> qstep s s' /\ pendR s s'.
  Proof.
    intros s b s' I3 SO H. unfold apply_rewrites_sched in H.
    apply bind_reads_inv in H. destruct H as (p0 & P0 & H).
    apply mbind_inv in H. destruct H as (ts & s1 & H1 & H). cbv zeta in H.
    pose proof (SO ts s1 H1) as SC. pose proof (c_searchers rs s ts s1 H1) as Lc. pose proof (sg_searchers rs s ts s1 H1) as G1.
    pose proof (qstep_sg s s1 I3 G1 Lc) as Q1.
    apply mbind_inv in H. destruct H as (u & s2 & H2 & H).
    apply bind_reads_inv in H. destruct H as (p1 & P1 & H). inversion H; subst s2.
    assert (SC' : Forall (fun rt : rule * list subst => Forall (sub_cov s1) (snd rt)) (combine rs (mapi_from sched O ts))).
    { apply Forall_forall. intros [r l] Hin. apply in_combine_r in Hin. cbn [snd]. exact (proj1 (Forall_forall _ _) SC l Hin). }
    pose proof (q_appliers _ s1 u s' (proj1 Q1) SC' H2) as Q2.
    split; [eapply qstep_trans; eauto|]. intros P. apply (d_appliers _ s1 u s' H2). destruct G1 as (_ & _ & _ & Q). congruence.
  Qed.

  (* if the searchers deliver covering substitutions in every inv3 state, `good` is closed under apply_rewrites,
     hence holds of every state of a run that starts in a good state *)
  Hypothesis searchers_ok_all : forall s, inv3 s -> searchers_ok sched rs s.

  Theorem good_apply_total : forall s, good sched rs s -> good sched rs (snd (apply_total sched rs s)).
  Proof.
    intros s (I3 & Pd & SO). unfold apply_total.
    destruct (apply_rewrites_sched sched rs s) as [[b s']|e] eqn:E; cbn [snd]; [|split; [assumption|split; assumption]].
    destruct (apply_rewrites_qstep s b s' I3 SO E) as [Q D].
    split; [exact (proj1 Q)|]. split; [exact (D Pd)|]. apply searchers_ok_all. exact (proj1 Q).
  Qed.

  Theorem good_steps : forall k s, good sched rs s -> good sched rs (Run.Runner.steps egraph (apply_total sched rs) k s).
  Proof.
    induction k as [|k IH]; intros s G; cbn [Run.Runner.steps]; [exact G|]. apply IH. apply good_apply_total. exact G.
  Qed.

  Variable nodes : egraph -> nat.
  Variable nclasses : egraph -> nat.
  Variable hook : nat -> egraph -> option nat.
  Variable late : nat -> bool.

  (* a run from a good state that stops as Saturated: the last apply_rewrites left the graph unchanged *)
  Theorem run_saturated_same_graph : forall lim fuel s r sf, good sched rs s ->
    Run.Runner.runner_run egraph (apply_total sched rs) nodes nclasses hook late lim fuel s = Some (r, sf) ->
    Run.Runner.stop_reason r = Run.Runner.Saturated ->
    exists s_prev, s_prev = Run.Runner.steps egraph (apply_total sched rs) (Run.Runner.iterations r - 1) s /\
      sf = snd (apply_total sched rs s_prev) /\
      same_graph s_prev sf /\ total_number_of_nodes sf = total_number_of_nodes s_prev /\ obs_same s_prev sf.
  Proof.
    intros lim fuel s r sf G H Hs.
    destruct (run_saturated_unchanged sched rs nodes nclasses hook late lim fuel s r sf H Hs) as (sp & E1 & E2 & U).
    exists sp. split; [exact E1|]. split; [exact E2|]. apply U. rewrite E1. apply good_steps. exact G.
  Qed.
End GoodClosed.

Print Assumptions apply_rewrites_qstep.
Print Assumptions good_apply_total.
Print Assumptions run_saturated_same_graph.
