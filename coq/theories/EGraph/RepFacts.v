(* EGraph/RepFacts.v — C09 "insertion is canonical: known terms create nothing, lookup agrees with add":
   LOOKUP AFTER ADD, PERSISTENCE of handles, and the corollaries for histories.

   Notation (CongruenceFacts.v).  `rep s t a`: a covers its class, `lookup_rec s t = Ok (Some x)` and
   `eg_eq s x a = Ok true` (the term t is found, by an invocation equal to its handle a).
   `good s` := hcb s /\ ss_ok s   (hcb s = inv3 s /\ pending s = [] /\ hc_ok s /\ m4 s: HashconsFacts.v, proved for
   every reachable state; ss_ok: self-symmetry completeness, CongruenceFacts.v).
   `twf t`: every node of t has pairwise distinct binder names and exactly one child per placeholder (`twfb`).
   `nlp s s'` (NODE LOOKUPS PERSIST): every node m with covering children and distinct binders that
   `eg_lookup s` finds (x) is found by `eg_lookup s'` (x') and eg_eq s' x x' = Ok true.
   `rstep s s'` := good s' /\ mext0 s s' (classes persist, covers and eg_eq are monotone) /\ nlp s s'.

   PROVED, closed under the global context, without hypotheses:
   - `lookup_kid_eq`: inside a good state a hit transfers along pairwise eg_eq children, and the two invocations found
     are equal (shape_kid_eq + node_congruence).  `node_rep`: if the node over HANDLES of the children is found (x),
     the term is found, by an invocation equal to x.  `lookup_rec_intro`, `rep_self`, `eg_add_cases`.
   - `rstep_refl`, `rstep_trans`.
   - `rep_persist`: good s -> rstep s s' -> twf t -> rep s t a -> rep s' t a   (induction on t).
   - `twfb_sound`; `reinsertion_checked`: for ANY run on which the executable check `handles_repb` is true, every
     earlier term is found in the final state by an invocation equal to its handle, and re-inserting it changes nothing and
     returns an invocation equal to the handle (per-run certified form, no hypothesis).

   PROVED UNDER THE FIVE HYPOTHESES of Section Rep (explicit premises after the section; none is an axiom).
   They are statements about ONE primitive operation from a good state:
     SS_new    : good s -> node_pre s n -> eg_lookup s n = Ok None -> eg_add n s = Ok (a, s') -> ss_ok s'
     SS_union_new  : good s -> covers s l -> covers s r -> eg_eq s l r <> Ok true -> eg_union l r s = Ok (u, s') -> ss_ok s'
     NLP_new   : good s -> node_pre s n -> eg_lookup s n = Ok None -> eg_add n s = Ok (a, s') -> nlp s s'
     NLP_union_new : good s -> covers s l -> covers s r -> eg_eq s l r <> Ok true -> eg_union l r s = Ok (u, s') -> nlp s s'
     LAA_new   : good s -> node_pre s n -> eg_lookup s n = Ok None -> eg_add n s = Ok (a, s') ->
                 exists x, eg_lookup s' n = Ok (Some x) /\ eg_eq s' x a = Ok true
   (the hit branch of eg_add and the union of already equal invocations are proved: `eg_add_cases`, `eg_union_noop`,
   `SS_add`, `NLP_add`, `LAA`, `SS_union`, `NLP_union`).  All three kinds are statements about what
   `rebuild` does to the stored e-nodes (no e-node is lost, its class stays equal to what it was); the existing
   invariants only give the converse direction (EntriesPersist.v).  They are validated executably after every operation
   -- and after every single eg_add inside add_expr -- of 15 hand-written histories (`rep_histories_checked`) and of 364 enumerated ones (`rep_enumerated_checked`).
   - 1. `rep_add_expr` / `lookup_after_add`: good s -> term_pre t s -> twf t -> add_expr t s = Ok (a, s') ->
        rstep s s' /\ rep s' t a.   (Uses SS_new, NLP_new, LAA_new only: nothing about unions.)
   - 2. `rep_persists_add_expr` (SS_new, NLP_new, LAA_new), `rep_persists_eg_union` (SS_union_new, NLP_union_new):
        `rep s t a` is kept by every later add_expr / eg_union.
   - 3. `reachable_handles_rep`: in the final state of every history (ops_pre, twf terms) every handle represents its
        term; `reinsertion_is_identity_reachable`: lookup_rec finds every inserted term in every later state, by an
        invocation equal to the handle, and re-inserting it creates nothing (s' = s) and returns an equal invocation.

   COUNTEREXAMPLES: `lookup_finds_other_invocation` (the syntactic formulation "lookup finds THE handle" is false);
   CongruenceFacts.handles_false_mid_union (false between union_internal and rebuild). *)
From SE Require Import Slots.SlotMapFacts Group.GroupSound Lang.LangFacts Lang.ShapeFacts Lang.RenameFacts
  Slots.SlotFacts Base.TextFacts EGraph.Model EGraph.ModelFacts EGraph.ModelMachine EGraph.PendingFacts EGraph.UnionFindFacts
  EGraph.InvariantFacts EGraph.UnionInvariantFacts EGraph.AddCoversFacts EGraph.MonotoneFacts EGraph.HashconsShape
  EGraph.Mod4Facts EGraph.HashconsAbs EGraph.Model9 EGraph.HashconsFacts EGraph.NodeCong EGraph.KidEqFacts EGraph.ShapeCong
  EGraph.CongruenceFacts.
Require Import ZArith Lia ZifyBool ZifyN ZifyNat.

Local Notation "a ** b" := (compose_partial a b) (at level 40, left associativity).
Local Notation inv := inverse_nocheck.
Local Notation ectr := Model.ctr.

(* ================================================================== *)
(* 0. executable checkers *)

(* the e-nodes listed for the classes of s, with all their group variants *)
Definition stored_enodes (s : egraph) : list node :=
  flat_map (fun c => flat_map (fun e =>
     match apply_slotmap false (fst (snd e)) (fst e) with
     | Ok nd => match variants s nd with Ok vs => vs | Err _ => [nd] end
     | Err _ => [] end) (c_nodes c)) (classes s).

Definition nlp1b (s s' : egraph) (m : node) : bool :=
  match eg_lookup s m with
  | Ok (Some x) => match eg_lookup s' m with Ok (Some x') => eqtb s' x x' | _ => false end
  | _ => true end.
Definition nlpb (s s' : egraph) : bool := forallb (nlp1b s s') (stored_enodes s).
Definition nfound (s : egraph) : nat :=
  List.length (filter (fun m => match eg_lookup s m with Ok (Some _) => true | _ => false end) (stored_enodes s)).

Definition laab (s' : egraph) (n : node) (a : appid) : bool :=
  match eg_lookup s' n with Ok (Some x) => eqtb s' x a | _ => false end.

Definition eg_add_laa (n : node) : M (appid * bool) := fun s =>
  match eg_add n s with
  | Ok (a, s') => Ok ((a, nlpb s s' && laab s' n a && ss_okb s'), s')
  | Err e => Err e end.

Fixpoint add_expr_laa (t : rterm) : M (appid * bool) :=
  match t with
  | RT n ch =>
      dom l <- (fix go (l : list rterm) : M (list appid * bool) :=
                  match l with
                  | [] => ret ([], true)
                  | c :: r => dom a <- add_expr_laa c; dom r' <- go r; ret (fst a :: fst r', snd a && snd r')
                  end) ch;
      if Nat.ltb (List.length (app_occ n)) (List.length (fst l)) then fail OutOfBounds
      else dom a <- eg_add_laa (set_apps n (fst l)); ret (fst a, snd l && snd a)
  end.

(* all handles so far (paired with their term index) represent their term *)
Definition hreps (terms : list rterm) (idx : list nat) (hs : list appid) (s : egraph) : bool :=
  forallb (fun p => match nth_opt terms (fst p) with Some t => repb s t (snd p) | None => false end) (combine idx hs).

Fixpoint run_rep (terms : list rterm) (ops : list hop) (idx : list nat) (hs : list appid) (s : egraph) : bool :=
  match ops with
  | [] => true
  | o :: t =>
    let r := match o with
      | HAdd k => match nth_opt terms k with None => Err OutOfBounds
                  | Some tm => match add_expr_laa tm s with Ok (a, s') => Ok (idx ++ [k], hs ++ [fst a], snd a, s') | Err e => Err e end end
      | HUnion i j _ => match nth_opt hs i, nth_opt hs j with
                  | Some a, Some b => match eg_union a b s with Ok (_, s') => Ok (idx, hs, nlpb s s', s') | Err e => Err e end
                  | _, _ => Err OutOfBounds end
      end in
    match r with
    | Err e => false
    | Ok (idx', hs', c, s') => c && ss_okb s' && hreps terms idx' hs' s' && run_rep terms t idx' hs' s'
    end
  end.

Definition rep_chk (p : list rterm * list hop) : bool := run_rep (fst p) (snd p) [] [] empty_egraph.

(* h(g(f(x,y)), z) over f(x,y): f made symmetric, then shrunk (f(x,y) = k(x)), then merged with c; re-insertions after each *)
Definition zT14 := [xs2 2 2 6; xs2 2 6 2; xun 3 (xs2 2 2 6); xbin 4 (xun 3 (xs2 2 2 6)) (xs1 7 10);
  xlam 6 (xbin 4 (xun 3 (xs2 2 2 6)) (xs1 7 10)); xs1 9 2; xc0 5; xun 3 (xs2 2 6 2); xlam 2 (xun 3 (xs2 2 2 6));
  xbin 4 (xun 3 (xs2 2 6 2)) (xs1 7 10); xun 3 (xs1 9 2); xun 3 (xc0 5)].
Definition zO14 := [HAdd 2; HAdd 3; HAdd 4; HAdd 8; HAdd 0; HAdd 1; xU 4 5; HAdd 2; HAdd 3; HAdd 4; HAdd 8; HAdd 7; HAdd 9;
  HAdd 5; xU 4 12; HAdd 2; HAdd 3; HAdd 4; HAdd 8; HAdd 10; HAdd 6; xU 12 18; HAdd 2; HAdd 3; HAdd 4; HAdd 8; HAdd 11; HAdd 10].
(* a 3-cycle below two levels, a transposition later (full symmetric group), a binder over the symmetric class *)
Definition zT15 := [xs3 2 2 6 10; xs3 2 6 10 2; xs3 2 6 2 10; xun 3 (xs3 2 2 6 10); xun 5 (xun 3 (xs3 2 2 6 10));
  xbin 4 (xun 3 (xs3 2 2 6 10)) (xs3 2 6 10 14); xlam 2 (xun 3 (xs3 2 2 6 10)); xlam 6 (xlam 2 (xun 3 (xs3 2 2 6 10)));
  xun 3 (xs3 2 10 2 6); xs1 7 2; xun 5 (xun 3 (xs3 2 6 2 10))].
Definition zO15 := [HAdd 3; HAdd 4; HAdd 5; HAdd 6; HAdd 7; HAdd 0; HAdd 1; xU 5 6; HAdd 3; HAdd 4; HAdd 5; HAdd 6; HAdd 7; HAdd 8;
  HAdd 2; xU 5 13; HAdd 3; HAdd 4; HAdd 5; HAdd 6; HAdd 7; HAdd 10; HAdd 9; xU 0 20; HAdd 4; HAdd 5; HAdd 7; HAdd 10].

Definition rep_hists := cong_hists ++ [(zT14, zO14); (zT15, zO15)].


(* ================================================================== *)
(* 1. definitions *)

(* well-formed terms: binder names of every node pairwise distinct, one child per placeholder *)
Fixpoint twf (t : rterm) : Prop :=
  match t with
  | RT n ch => NoDup (binders n) /\ List.length ch = List.length (app_occ n) /\
      (fix go (l : list rterm) : Prop := match l with [] => True | c :: r => twf c /\ go r end) ch
  end.

(* the bundle of invariants of the states between operations *)
Definition good (s : egraph) : Prop := hcb s /\ ss_ok s.

(* NODE LOOKUPS PERSIST from s to s': a node with covering children that is found in s is found in s',
   by an invocation equal (in s') to the one found in s *)
Definition nlp (s s' : egraph) : Prop :=
  forall m x, Forall (covers s) (app_occ m) -> NoDup (binders m) -> eg_lookup s m = Ok (Some x) ->
    exists x', eg_lookup s' m = Ok (Some x') /\ eg_eq s' x x' = Ok true.

Definition rstep (s s' : egraph) : Prop := good s' /\ mext0 s s' /\ nlp s s'.

Lemma good_parts : forall s, good s -> inv3 s /\ eg_inv s /\ nodes_ok s /\ hc_ok s /\ pending s = [] /\ ss_ok s.
Proof. intros s [(I3 & Pe & Hh & M) SS]. pose proof I3 as [[Hs _] Nk]. auto 10. Qed.

Lemma nlp_refl : forall s, good s -> nlp s s.
Proof.
  intros s G m x Cm ND L. destruct (good_parts s G) as (_ & Hs & Nk & _). exists x. split; [exact L|].
  apply eg_eq_refl_inv; [exact (ei_uf _ Hs)|exact (ei_slots _ Hs)|exact (eg_lookup_covers _ _ _ Nk L)].
Qed.

Lemma rstep_refl : forall s, good s -> rstep s s.
Proof. intros s G. split; [exact G|]. split; [apply mext0_refl|apply nlp_refl; exact G]. Qed.

Lemma rstep_trans : forall a b c, good a -> rstep a b -> rstep b c -> rstep a c.
Proof.
  intros a b c Ga (Gb & Mab & Nab) (Gc & Mbc & Nbc). split; [exact Gc|]. split; [eapply mext0_trans; eauto|].
  intros m x Cm ND L.
  destruct (good_parts a Ga) as (_ & _ & Nka & _). destruct (good_parts b Gb) as (_ & _ & Nkb & _).
  destruct (good_parts c Gc) as (_ & Hsc & Nkc & _).
  destruct (Nab m x Cm ND L) as (x1 & L1 & E1).
  assert (Cm' : Forall (covers b) (app_occ m)).
  { revert Cm. apply Forall_impl. intros y. apply covers_ext0. exact (proj1 Mab). }
  destruct (Nbc m x1 Cm' ND L1) as (x2 & L2 & E2). exists x2. split; [exact L2|].
  pose proof (eg_lookup_covers _ _ _ Nka L) as Cx. pose proof (covers_ext0 _ _ _ (proj1 Mab) Cx) as Cxb.
  pose proof (eg_lookup_covers _ _ _ Nkb L1) as Cx1.
  apply (eg_eq_trans_true c x x1 x2 Hsc).
  - exact (covers_ext0 _ _ _ (proj1 Mbc) Cxb).
  - exact (covers_ext0 _ _ _ (proj1 Mbc) Cx1).
  - exact (eg_lookup_covers _ _ _ Nkc L2).
  - exact (proj2 Mbc x x1 Cxb Cx1 E1).
  - exact E2.
Qed.

(* ================================================================== *)
(* 2. node level, inside one state *)

(* a hit transfers along pairwise equal children, and the invocations found are equal *)
Lemma lookup_kid_eq : forall s m l x, good s -> NoDup (binders m) -> Forall2 (kid_eq s) (app_occ m) l ->
  eg_lookup s m = Ok (Some x) ->
  exists x', eg_lookup s (set_apps m l) = Ok (Some x') /\ eg_eq s x x' = Ok true.
Proof.
  intros s m l x G ND K L. destruct (good_parts s G) as (I3 & Hs & Nk & Hh & Pe & SS).
  pose proof L as L0. unfold eg_lookup in L0.
  destruct (shape s m) as [[sh b]|] eqn:S1; cbn [bind] in L0; [|discriminate].
  destruct (shape_kid_eq s m l (sh, b) Hs K S1) as (b' & S2). cbn [fst] in S2.
  destruct (lookup_internal_inv _ _ _ _ L0) as (i & c & cb & src & H1 & H2 & H3 & _).
  pose proof (lookup_internal_intro s sh b' i c cb src H1 H2 H3) as L2.
  assert (L2' : eg_lookup s (set_apps m l) = Ok (Some {| aid := i; am := filt c (inv cb ** b') |})).
  { unfold eg_lookup. rewrite S2. cbn [bind]. exact L2. }
  eexists. split; [exact L2'|].
  exact (node_congruence s m l _ _ I3 Hh SS ND K L L2').
Qed.

Lemma lookup_rec_intro : forall s n ch l r, Forall2 (fun c a => lookup_rec s c = Ok (Some a)) ch l ->
  (List.length l <= List.length (app_occ n))%nat -> eg_lookup s (set_apps n l) = r -> lookup_rec s (RT n ch) = r.
Proof.
  intros s n ch l r F Le Q. cbn [lookup_rec].
  match goal with |- bind (?go ch) _ = _ => set (G := go) end.
  assert (K : G ch = Ok (Some l)).
  { clear Le Q. induction F as [|c a ch' l' Hc F IH]; [reflexivity|].
    cbn. rewrite Hc. cbn [bind]. fold G. rewrite IH. reflexivity. }
  rewrite K. cbn [bind]. destruct (Nat.ltb (List.length (app_occ n)) (List.length l)) eqn:E; [|exact Q].
  apply Nat.ltb_lt in E. lia.
Qed.

Lemma rep_self : forall s t x, good s -> lookup_rec s t = Ok (Some x) -> rep s t x.
Proof.
  intros s t x G L. destruct (good_parts s G) as (_ & Hs & Nk & _).
  pose proof (lookup_rec_covers _ _ _ Nk L) as C. split; [exact C|]. exists x. split; [exact L|].
  apply eg_eq_refl_inv; [exact (ei_uf _ Hs)|exact (ei_slots _ Hs)|exact C].
Qed.

(* the node over handles of the children: if it is found, the term is found, by an equal invocation *)
Lemma node_rep : forall s n ch l x, good s -> NoDup (binders n) -> List.length ch = List.length (app_occ n) ->
  Forall2 (rep s) ch l -> eg_lookup s (set_apps n l) = Ok (Some x) ->
  exists x2, lookup_rec s (RT n ch) = Ok (Some x2) /\ eg_eq s x x2 = Ok true.
Proof.
  intros s n ch l x G ND Len F L. destruct (good_parts s G) as (I3 & Hs & Nk & _).
  assert (Q : exists ys, Forall2 (fun c y => lookup_rec s c = Ok (Some y)) ch ys /\ Forall2 (kid_eq s) l ys).
  { clear L Len. induction F as [|c a ch' l' (Ca & y & Ly & Ey) F IH].
    - exists []. split; constructor.
    - destruct IH as (ys & F1 & F2). exists (y :: ys). split; constructor; try assumption.
      pose proof (lookup_rec_covers _ _ _ Nk Ly) as Cy. split; [exact Ca|]. split; [exact Cy|].
      apply eg_eq_sym_true; assumption. }
  destruct Q as (ys & F1 & F2).
  pose proof (Forall2_length' _ _ _ F) as Ll. pose proof (Forall2_length' _ _ _ F1) as Lys.
  assert (O : app_occ (set_apps n l) = l) by (apply app_occ_set_apps; lia).
  destruct (lookup_kid_eq s (set_apps n l) ys x G) as (x2 & L2 & E2).
  - rewrite binders_set_apps by lia. exact ND.
  - rewrite O. exact F2.
  - exact L.
  - rewrite set_apps_twice in L2 by lia. exists x2. split; [|exact E2].
    apply (lookup_rec_intro s n ch ys); [exact F1|lia|exact L2].
Qed.

(* ================================================================== *)
(* 3. PERSISTENCE of `rep` along a step *)

Theorem rep_persist : forall s s', good s -> rstep s s' -> forall t a, twf t -> rep s t a -> rep s' t a.
Proof.
  intros s s' G (G' & (E0 & EM) & NL). destruct (good_parts s G) as (I3 & Hs & Nk & _).
  destruct (good_parts s' G') as (I3' & Hs' & Nk' & _).
  fix IH 1. intros [n ch] a (ND & Len & W) (Ca & x & L & E).
  destruct (lookup_rec_inv s n ch x L) as (l & F & Le & Q).
  assert (F' : Forall2 (rep s') ch l).
  { clear Q Le Len L. revert l F W. induction ch as [|c r IHr]; intros l F W.
    - inversion F; subst. constructor.
    - inversion F as [|? a0 ? l0 Ha0 Hl0]; subst. destruct W as (Wc & Wr).
      constructor; [|exact (IHr l0 Hl0 Wr)]. apply (IH c a0 Wc). apply rep_self; assumption. }
  pose proof (Forall2_length' _ _ _ F) as Ll.
  assert (O : app_occ (set_apps n l) = l) by (apply app_occ_set_apps; lia).
  destruct (NL (set_apps n l) x) as (x1 & L1 & E1).
  - rewrite O. clear - F Nk. induction F as [|c a0 ch' l' Hc F IH]; constructor; [|exact IH].
    exact (lookup_rec_covers _ _ _ Nk Hc).
  - rewrite binders_set_apps by lia. exact ND.
  - exact Q.
  - destruct (node_rep s' n ch l x1 G' ND Len F' L1) as (x2 & L2 & E2).
    pose proof (lookup_rec_covers _ _ _ Nk L) as Cx. pose proof (covers_ext0 _ _ _ E0 Cx) as Cx'.
    pose proof (covers_ext0 _ _ _ E0 Ca) as Ca'.
    pose proof (eg_lookup_covers _ _ _ Nk' L1) as Cx1. pose proof (lookup_rec_covers _ _ _ Nk' L2) as Cx2.
    split; [exact Ca'|]. exists x2. split; [exact L2|].
    apply (eg_eq_trans_true s' x2 x1 a Hs' Cx2 Cx1 Ca'); [apply eg_eq_sym_true; assumption|].
    apply (eg_eq_trans_true s' x1 x a Hs' Cx1 Cx' Ca'); [apply eg_eq_sym_true; assumption|].
    exact (EM x a Cx Ca E).
Qed.

(* ================================================================== *)
(* 4. the operations are steps; LOOKUP AFTER ADD; histories.
   The node-level facts about ONE eg_add / eg_union that are not proved here are the hypotheses of the
   section (each is validated executably after every operation of 15 histories: `rep_histories_checked`). *)

(* the hit branch of eg_add: nothing happens *)
Lemma eg_add_cases : forall n s a s', eg_add n s = Ok (a, s') ->
  (eg_lookup s n = Ok (Some a) /\ s' = s) \/ eg_lookup s n = Ok None.
Proof.
  intros n s a s' H. pose proof H as H0. unfold eg_add in H0.
  apply bind_reads_inv in H0. destruct H0 as (t & Ht & H0). unfold add_internal in H0.
  apply bind_reads_inv in H0. destruct H0 as (lk & Hl & H0).
  assert (E : eg_lookup s n = Ok lk) by (unfold eg_lookup; rewrite Ht; exact Hl).
  destruct lk as [x|]; [|right; exact E]. left.
  rewrite (eg_add_known s n x E) in H. inversion H; subst. auto.
Qed.

Lemma synify_ctr_only : forall a s x s', synify_app_id a s = Ok (x, s') -> ctr_only s s'.
Proof.
  intros a s x s' H. apply (pres_synify_app_id ctr_only ctr_only_refl ctr_only_trans) in H; [assumption|].
  intros s0 y s0' H0. inversion H0. eexists; reflexivity.
Qed.

(* a union of two invocations that are already equal changes nothing but the counter *)
Lemma eg_union_noop : forall l r s u s', uf_ok s -> pending s = [] -> eg_eq s l r = Ok true -> eg_union l r s = Ok (u, s') ->
  exists c, s' = set_ctr s c.
Proof.
  intros l r s u s' U Pe E H. unfold eg_union in H.
  apply mbind_inv in H. destruct H as (l1 & s1 & H1 & H). apply synify_ctr_only in H1.
  apply mbind_inv in H. destruct H as (r1 & s2 & H2 & H). apply synify_ctr_only in H2.
  destruct (ctr_only_trans _ _ _ H1 H2) as [c ->]. clear H1 H2 s1.
  apply mbind_inv in H. destruct H as (out & s3 & H3 & H).
  unfold uint, ui_fuel in H3. rewrite union_internal_S in H3. unfold union_internal_body in H3.
  apply bind_reads_inv in H3. destruct H3 as (l' & Hl & H3).
  apply bind_reads_inv in H3. destruct H3 as (r' & Hr & H3).
  unfold union_leaders in H3. apply bind_reads_inv in H3. destruct H3 as (e & He & H3).
  assert (Ee : e = true).
  { change (find_applied_id s l = Ok l') in Hl. change (find_applied_id s r = Ok r') in Hr.
    change (eg_eq s l' r' = Ok e) in He.
    pose proof (find_idempotent s l l' U Hl) as Il. pose proof (find_idempotent s r r' U Hr) as Ir.
    rewrite (eg_eq_find_congr s l' r' l r) in He by congruence. congruence. }
  subst e. inversion H3; subst out s3. clear H3.
  apply mbind_inv in H. destruct H as (u0 & s4 & H4 & H). inversion H; subst u s4. clear H.
  change (rebuild (S 1999) (set_ctr s c) = Ok (u0, s')) in H4. rewrite rebuild_S in H4.
  unfold mbind, gets in H4. cbn [pending set_ctr] in H4. rewrite Pe in H4. inversion H4. exists c. reflexivity.
Qed.

Lemma ss_ok_set_ctr : forall s c, ss_ok s -> ss_ok (set_ctr s c).
Proof. intros s c SS sh i c0 cb src vs v b0 bv. exact (SS sh i c0 cb src vs v b0 bv). Qed.

Lemma nlp_set_ctr : forall s c, good s -> nlp s (set_ctr s c).
Proof.
  intros s c G m x Cm ND L. destruct (nlp_refl s G m x Cm ND L) as (x' & L' & E'). exists x'. split; [exact L'|exact E'].
Qed.

Section Rep.
  (* THE REMAINING HYPOTHESES: three facts about ONE insertion of a node that is NOT found (a new class is
     created and rebuilt) and two about ONE union.  `good s` = hcb s /\ ss_ok s. *)
  (* self-symmetry completeness is kept by the operations (CongruenceFacts.v: checked per run, `ss_okb`) *)
  Hypothesis SS_new : forall n s a s', good s -> node_pre s n -> eg_lookup s n = Ok None -> eg_add n s = Ok (a, s') -> ss_ok s'.
  Hypothesis SS_union_new : forall l r s u s', good s -> covers s l -> covers s r -> eg_eq s l r <> Ok true ->
    eg_union l r s = Ok (u, s') -> ss_ok s'.
  (* node lookups persist through one insertion / one union *)
  Hypothesis NLP_new : forall n s a s', good s -> node_pre s n -> eg_lookup s n = Ok None -> eg_add n s = Ok (a, s') -> nlp s s'.
  Hypothesis NLP_union_new : forall l r s u s', good s -> covers s l -> covers s r -> eg_eq s l r <> Ok true ->
    eg_union l r s = Ok (u, s') -> nlp s s'.
  (* the node just inserted is found, by an invocation equal to the one returned *)
  Hypothesis LAA_new : forall n s a s', good s -> node_pre s n -> eg_lookup s n = Ok None -> eg_add n s = Ok (a, s') ->
    exists x, eg_lookup s' n = Ok (Some x) /\ eg_eq s' x a = Ok true.

  Lemma SS_add : forall n s a s', good s -> node_pre s n -> eg_add n s = Ok (a, s') -> ss_ok s'.
  Proof.
    intros n s a s' G NP H. destruct (eg_add_cases n s a s' H) as [(_ & ->)|E]; [exact (proj2 G)|eauto].
  Qed.
  Lemma NLP_add : forall n s a s', good s -> node_pre s n -> eg_add n s = Ok (a, s') -> nlp s s'.
  Proof.
    intros n s a s' G NP H. destruct (eg_add_cases n s a s' H) as [(_ & ->)|E]; [apply nlp_refl; exact G|eauto].
  Qed.
  Lemma LAA : forall n s a s', good s -> node_pre s n -> eg_add n s = Ok (a, s') ->
    exists x, eg_lookup s' n = Ok (Some x) /\ eg_eq s' x a = Ok true.
  Proof.
    intros n s a s' G NP H. destruct (eg_add_cases n s a s' H) as [(L & ->)|E]; [|eauto].
    destruct (good_parts s G) as (_ & Hs & Nk & _). exists a. split; [exact L|].
    apply eg_eq_refl_inv; [exact (ei_uf _ Hs)|exact (ei_slots _ Hs)|exact (eg_lookup_covers _ _ _ Nk L)].
  Qed.

  Lemma union_cases : forall l r s u s', good s -> eg_union l r s = Ok (u, s') ->
    (exists c, s' = set_ctr s c) \/ eg_eq s l r <> Ok true.
  Proof.
    intros l r s u s' G H. destruct (good_parts s G) as (_ & Hs & _ & _ & Pe & _).
    destruct (eg_eq s l r) as [[|]|] eqn:E; [left|right; discriminate|right; discriminate].
    exact (eg_union_noop l r s u s' (ei_uf _ Hs) Pe E H).
  Qed.
  Lemma SS_union : forall l r s u s', good s -> covers s l -> covers s r -> eg_union l r s = Ok (u, s') -> ss_ok s'.
  Proof.
    intros l r s u s' G Cl Cr H. destruct (union_cases l r s u s' G H) as [[c ->]|E]; [|eauto].
    apply ss_ok_set_ctr. exact (proj2 G).
  Qed.
  Lemma NLP_union : forall l r s u s', good s -> covers s l -> covers s r -> eg_union l r s = Ok (u, s') -> nlp s s'.
  Proof.
    intros l r s u s' G Cl Cr H. destruct (union_cases l r s u s' G H) as [[c ->]|E]; [|eauto].
    apply nlp_set_ctr. exact G.
  Qed.

  Lemma eg_add_rstep : forall n s a s', good s -> node_pre s n -> eg_add n s = Ok (a, s') -> rstep s s' /\ covers s' a.
  Proof.
    intros n s a s' G NP H. pose proof G as [(I3 & Pe & Hh & M) SS].
    destruct (eg_add_covers n s a s' I3 H) as (I3' & E0 & Ca).
    split; [|exact Ca]. split; [|split].
    - split; [|exact (SS_add n s a s' G NP H)].
      split; [exact I3'|]. split; [eapply eg_add_drains; eauto|].
      split; [exact (hc_ok_eg_add n s a s' I3 Pe Hh (proj1 M) NP H)|exact (proj1 (h_eg_add _ _ _ _ H M))].
    - exact (proj2 (inv4_eg_add n s a s' H (proj1 I3))).
    - exact (NLP_add n s a s' G NP H).
  Qed.

  Lemma eg_union_rstep : forall l r s u s', good s -> covers s l -> covers s r -> eg_union l r s = Ok (u, s') -> rstep s s'.
  Proof.
    intros l r s u s' G Cl Cr H. pose proof G as [(I3 & Pe & Hh & M) SS].
    destruct (eg_union_inv3 l r s u s' I3 Cl Cr H) as (I3' & E).
    split; [|split].
    - split; [|exact (SS_union l r s u s' G Cl Cr H)].
      split; [exact I3'|]. split; [exact (eg_union_drains l r s u s' H)|].
      split; [exact (hc_ok_eg_union l r s u s' I3 Cl Cr H Hh)|exact (proj1 (h_eg_union _ _ _ _ _ H M))].
    - apply mext_mext0. exact (proj1 (proj2 (inv4_eg_union l r s u s' (proj1 I3) Cl Cr H))).
    - exact (NLP_union l r s u s' G Cl Cr H).
  Qed.

  (* 1. LOOKUP AFTER ADD, and the insertion of a term is a step *)
  Theorem rep_add_expr : forall t s a s', good s -> term_pre t s -> twf t -> add_expr t s = Ok (a, s') ->
    rstep s s' /\ rep s' t a.
  Proof.
    fix IH 1. intros [n ch] s a s' G TP (ND & Len & W) H. cbn [add_expr] in H. cbn [term_pre] in TP.
    apply mbind_inv in H. destruct H as (l & s1 & Hgo & H).
    match type of TP with ?go ch s ?K0 => set (GO := go) in *; set (K := K0) in * end.
    assert (Q : rstep s s1 /\ Forall2 (rep s1) ch l /\ K l s1).
    { clear H Len. clearbody K. revert s l s1 K G TP Hgo W.
      induction ch as [|c r IHr]; intros s l s1 K G TP Hgo W.
      - inversion Hgo; subst. cbn in TP. split; [apply rstep_refl; exact G|]. split; [constructor|exact TP].
      - cbn in TP. destruct TP as [TPc TPr]. destruct W as (Wc & Wr).
        apply mbind_inv in Hgo. destruct Hgo as (a0 & s2 & Ha & Hgo).
        apply mbind_inv in Hgo. destruct Hgo as (r' & s3 & Hr & Hgo). inversion Hgo; subst l s3; clear Hgo.
        destruct (IH c s a0 s2 G TPc Wc Ha) as (R02 & Rc).
        destruct (IHr s2 r' s1 (fun l' s' => K (a0 :: l') s') (proj1 R02) (TPr a0 s2 Ha) Hr Wr) as (R21 & Fr & Kr).
        split; [exact (rstep_trans s s2 s1 G R02 R21)|]. split; [|exact Kr].
        constructor; [|exact Fr]. exact (rep_persist s2 s1 (proj1 R02) R21 c a0 Wc Rc). }
    destruct Q as (R01 & F & NP). unfold K in NP.
    destruct (Nat.ltb _ _); [discriminate|].
    pose proof (proj1 R01) as G1.
    destruct (eg_add_rstep _ s1 a s' G1 NP H) as (R1 & Ca).
    split; [exact (rstep_trans s s1 s' G R01 R1)|].
    destruct (LAA _ s1 a s' G1 NP H) as (x & Lx & Ex).
    pose proof (proj1 R1) as G'. destruct (good_parts s' G') as (_ & Hs' & Nk' & _).
    assert (F' : Forall2 (rep s') ch l).
    { clear - F R1 G1 W. revert W. induction F as [|c a0 ch' l' Hc F IHF]; intros W; constructor.
      - exact (rep_persist s1 s' G1 R1 c a0 (proj1 W) Hc).
      - exact (IHF (proj2 W)). }
    destruct (node_rep s' n ch l x G' ND Len F' Lx) as (x2 & L2 & E2).
    pose proof (eg_lookup_covers _ _ _ Nk' Lx) as Cx. pose proof (lookup_rec_covers _ _ _ Nk' L2) as Cx2.
    split; [exact Ca|]. exists x2. split; [exact L2|].
    apply (eg_eq_trans_true s' x2 x a Hs' Cx2 Cx Ca); [apply eg_eq_sym_true; assumption|exact Ex].
  Qed.

  Corollary lookup_after_add : forall t s a s', good s -> term_pre t s -> twf t -> add_expr t s = Ok (a, s') -> rep s' t a.
  Proof. intros t s a s' G TP W H. exact (proj2 (rep_add_expr t s a s' G TP W H)). Qed.

  (* 2. PERSISTENCE through every later operation *)
  Theorem rep_persists_add_expr : forall t a t2 s a2 s', good s -> twf t -> rep s t a ->
    term_pre t2 s -> twf t2 -> add_expr t2 s = Ok (a2, s') -> rep s' t a.
  Proof.
    intros t a t2 s a2 s' G W R TP W2 H.
    exact (rep_persist s s' G (proj1 (rep_add_expr t2 s a2 s' G TP W2 H)) t a W R).
  Qed.

  Theorem rep_persists_eg_union : forall t a l r s u s', good s -> twf t -> rep s t a ->
    covers s l -> covers s r -> eg_union l r s = Ok (u, s') -> rep s' t a.
  Proof.
    intros t a l r s u s' G W R Cl Cr H.
    exact (rep_persist s s' G (eg_union_rstep l r s u s' G Cl Cr H) t a W R).
  Qed.

  (* 3. histories *)
  Definition hrep (terms : list rterm) (idx : list nat) (hs : list appid) (s : egraph) : Prop :=
    forall k a, In (k, a) (combine idx hs) -> exists t, nth_opt terms k = Some t /\ rep s t a.

  Lemma twf_nth : forall terms k t, (forall t, In t terms -> twf t) -> nth_opt terms k = Some t -> twf t.
  Proof. intros terms k t F E. apply F. exact (nth_opt_In _ _ _ E). Qed.

  Lemma combine_snoc : forall {A B} (l : list A) (r : list B) x y, List.length l = List.length r ->
    combine (l ++ [x]) (r ++ [y]) = combine l r ++ [(x, y)].
  Proof.
    intros A B. induction l as [|a l IH]; intros [|b r] x y E; cbn in *; try discriminate; [reflexivity|].
    f_equal. apply IH. lia.
  Qed.

  Lemma rep_run_ops : forall terms, (forall t, In t terms -> twf t) ->
    forall ops idx hs s hs' s', good s -> Forall (covers s) hs -> List.length idx = List.length hs -> hrep terms idx hs s ->
    ops_pre terms ops hs s -> run_ops terms ops hs s = Ok (hs', s') ->
    good s' /\ hrep terms (idx ++ add_idx ops) hs' s'.
  Proof.
    intros terms TW. induction ops as [|o t IH]; intros idx hs s hs' s' G Hc Len HR OP H; cbn [run_ops] in H; cbn [ops_pre] in OP.
    - inversion H; subst. unfold add_idx. cbn [flat_map]. rewrite app_nil_r. auto.
    - destruct o as [k|i j just].
      + destruct (nth_opt terms k) as [tm|] eqn:Ek; [|discriminate]. destruct OP as [TP OP].
        apply mbind_inv in H. destruct H as (a & s1 & H1 & H).
        pose proof (twf_nth terms k tm TW Ek) as Wt.
        destruct (rep_add_expr tm s a s1 G TP Wt H1) as (R & Ra).
        pose proof (proj1 R) as G1.
        change (add_idx (HAdd k :: t)) with ([k] ++ add_idx t). rewrite app_assoc.
        apply (IH (idx ++ [k]) (hs ++ [a]) s1 hs' s' G1); [| | |exact (OP a s1 H1)|exact H].
        * apply Forall_app. split; [|constructor; [exact (proj1 Ra)|constructor]].
          revert Hc. apply Forall_impl. intros x. apply covers_ext0. exact (proj1 (proj1 (proj2 R))).
        * rewrite !app_length. cbn. lia.
        * intros k' a' Hin. rewrite (combine_snoc idx hs k a Len) in Hin. apply in_app_or in Hin.
          destruct Hin as [Hin|[Hin|[]]].
          -- destruct (HR k' a' Hin) as (t' & Et & Rt). exists t'. split; [exact Et|].
             exact (rep_persist s s1 G R t' a' (twf_nth terms k' t' TW Et) Rt).
          -- inversion Hin; subst k' a'. exists tm. auto.
      + destruct (nth_opt hs i) as [a|] eqn:Ei; [|discriminate]. destruct (nth_opt hs j) as [b|] eqn:Ej; [|discriminate].
        apply mbind_inv in H. destruct H as (u & s1 & H1 & H).
        pose proof (proj1 (Forall_forall _ _) Hc a (nth_opt_In _ _ _ Ei)) as Ca.
        pose proof (proj1 (Forall_forall _ _) Hc b (nth_opt_In _ _ _ Ej)) as Cb.
        pose proof (eg_union_rstep a b s u s1 G Ca Cb H1) as R. pose proof (proj1 R) as G1.
        change (add_idx (HUnion i j just :: t)) with (add_idx t).
        apply (IH idx hs s1 hs' s' G1); [|exact Len| |exact (OP u s1 H1)|exact H].
        * revert Hc. apply Forall_impl. intros x. apply covers_ext0. exact (proj1 (proj1 (proj2 R))).
        * intros k' a' Hin. destruct (HR k' a' Hin) as (t' & Et & Rt). exists t'. split; [exact Et|].
          exact (rep_persist s s1 G R t' a' (twf_nth terms k' t' TW Et) Rt).
  Qed.

  Lemma good_empty : good empty_egraph.
  Proof. split; [exact hcb_empty|exact ss_ok_empty]. Qed.

  (* every handle of a run represents its term in the final state *)
  Theorem reachable_handles_rep : forall terms ops hs s, (forall t, In t terms -> twf t) ->
    ops_pre terms ops [] empty_egraph -> run_ops terms ops [] empty_egraph = Ok (hs, s) ->
    good s /\ forall k a, In (k, a) (combine (add_idx ops) hs) -> exists t, nth_opt terms k = Some t /\ rep s t a.
  Proof.
    intros terms ops hs s TW OP H.
    apply (rep_run_ops terms TW ops [] [] empty_egraph hs s good_empty (Forall_nil _) eq_refl); [|exact OP|exact H].
    intros k a [].
  Qed.

  (* re-inserting any earlier term in any later state creates nothing and returns an invocation equal to the
     original handle; the recursive lookup finds every inserted term in every later state *)
  Theorem reinsertion_is_identity_reachable : forall terms ops hs s k a t, (forall t, In t terms -> twf t) ->
    ops_pre terms ops [] empty_egraph -> run_ops terms ops [] empty_egraph = Ok (hs, s) ->
    In (k, a) (combine (add_idx ops) hs) -> nth_opt terms k = Some t ->
    (exists x, lookup_rec s t = Ok (Some x) /\ eg_eq s x a = Ok true) /\
    (forall a' s', add_expr t s = Ok (a', s') -> s' = s /\ eg_eq s' a a' = Ok true).
  Proof.
    intros terms ops hs s k a t TW OP H Hin Et.
    destruct (reachable_handles_rep terms ops hs s TW OP H) as (G & HR).
    destruct (HR k a Hin) as (t' & Et' & R). rewrite Et in Et'. inversion Et'; subst t'.
    split; [exact (proj2 R)|]. intros a' s' Ha.
    exact (reinsert_equal s t a a' s' (proj1 (proj1 G)) R Ha).
  Qed.
End Rep.

(* ================================================================== *)
(* 4b. the per-run certified form: no hypothesis, for every run on which the executable check is true *)

Theorem reinsertion_checked : forall terms ops hs s k a t,
  run_ops terms ops [] empty_egraph = Ok (hs, s) -> handles_repb terms ops hs s = true ->
  In (k, a) (combine (add_idx ops) hs) -> nth_opt terms k = Some t ->
  (exists x, lookup_rec s t = Ok (Some x) /\ eg_eq s x a = Ok true) /\
  (forall a' s', add_expr t s = Ok (a', s') -> s' = s /\ eg_eq s' a a' = Ok true).
Proof.
  intros terms ops hs s k a t H C Hin Et. destruct (reachable_inv3 _ _ _ _ H) as [I3 _].
  unfold handles_repb in C. pose proof (proj1 (forallb_forall _ _) C (k, a) Hin) as R. cbn [fst snd] in R.
  rewrite Et in R. apply repb_sound in R. split; [exact (proj2 R)|].
  intros a' s' Ha. exact (reinsert_equal s t a a' s' I3 R Ha).
Qed.

(* ================================================================== *)
(* 5. the decidable form of `twf` *)

Fixpoint twfb (t : rterm) : bool :=
  match t with
  | RT n ch => nodupb (binders n) && Nat.eqb (List.length ch) (List.length (app_occ n)) &&
      (fix go (l : list rterm) : bool := match l with [] => true | c :: r => twfb c && go r end) ch
  end.

Lemma twfb_sound : forall t, twfb t = true -> twf t.
Proof.
  fix IH 1. intros [n ch] H. cbn [twfb] in H. apply andb_prop in H. destruct H as (H & Hc).
  apply andb_prop in H. destruct H as (Hn & Hl). cbn [twf].
  split; [exact (proj1 (nodupb_NoDup _) Hn)|]. split; [apply Nat.eqb_eq; exact Hl|].
  clear Hl Hn. induction ch as [|c r IHr]; [exact I|].
  apply andb_prop in Hc. destruct Hc as (A & B). split; [exact (IH c A)|exact (IHr B)].
Qed.

(* ================================================================== *)
(* 6. executable validation of the hypotheses and of the conclusions, and counterexamples *)

(* After EVERY operation (and, for the node-level facts, after every single eg_add inside add_expr) of 15 histories:
   nlpb (NLP_new / NLP_union on all stored e-nodes and all their group variants), laab (LAA_new), ss_okb (SS_new, SS_union),
   and hreps: every handle returned so far represents its term (the conclusion `reachable_handles_rep`). *)
Example rep_histories_checked : map rep_chk rep_hists
  = [true; true; true; true; true; true; true; true; true; true; true; true; true; true; true].
Proof. vm_compute. reflexivity. Qed.

Example rep_histories_twf : forallb (fun p => forallb twfb (fst p)) rep_hists = true.
Proof. vm_compute. reflexivity. Qed.

(* not vacuous: (number of handles, number of stored e-nodes/variants found, number of non-trivial self-symmetries) in the final states *)
Example rep_histories_sizes :
  map (fun p => match run_ops (fst p) (snd p) [] empty_egraph with Ok (hs, s) => (List.length hs, nfound s, nsym s) | Err _ => (0, 0, 0)%nat end)
      [(xT5, xO5); (zT13, zO13); (zT14, zO14); (zT15, zO15)]
  = [(14, 44, 10); (21, 21, 2); (25, 8, 0); (25, 17, 10)]%nat.
Proof. vm_compute. reflexivity. Qed.

(* ENUMERATED histories over two pools of 8 terms (pool 1: a transposition, a redundant slot, binders, a constant;
   pool 2: 3-cycles and transpositions of three slots, nesting): insert all 8 terms, unite the handles p, insert all
   again (all 28 pairs p), and: ... unite the handles q, insert all again (the listed p, all 28 q).  The same checks
   after every operation.  (All 2 x 784 two-union histories were evaluated outside the build: all true.) *)
Definition eT1 := [xs2 2 2 6; xs2 2 6 2; xs1 7 2; xun 3 (xs2 2 2 6); xbin 4 (xs2 2 2 6) (xs2 2 6 10); xlam 2 (xun 3 (xs2 2 2 6)); xc0 5; xs2 9 2 6].
Definition eT2 := [xs3 2 2 6 10; xs3 2 6 10 2; xs3 2 6 2 10; xs2 7 2 6; xun 3 (xs3 2 2 6 10); xbin 4 (xs3 2 2 6 10) (xs2 7 6 14);
  xlam 6 (xs3 2 2 6 10); xun 5 (xun 3 (xs3 2 2 6 10))].
Definition e_adds (n : nat) : list hop := map HAdd (seq 0 n).
Definition e_pairs (n : nat) : list (nat * nat) := flat_map (fun i => map (fun j => (i, j)) (seq (S i) (n - S i))) (seq 0 n).
Definition e_hist1 (p : nat * nat) : list hop := e_adds 8 ++ [xU (fst p) (snd p)] ++ e_adds 8.
Definition e_hist2 (p q : nat * nat) : list hop :=
  e_adds 8 ++ [xU (fst p) (snd p)] ++ e_adds 8 ++ [xU (fst q) (snd q)] ++ e_adds 8.

Example rep_enumerated_checked :
  (forallb twfb eT1 && forallb twfb eT2,
   forallb (fun p => rep_chk (eT1, e_hist1 p)) (e_pairs 8), forallb (fun p => rep_chk (eT2, e_hist1 p)) (e_pairs 8),
   forallb (fun p => forallb (fun q => rep_chk (eT1, e_hist2 p q)) (e_pairs 8)) [(0, 1); (0, 2); (0, 6); (3, 5); (2, 7); (4, 6); (0, 7)]%nat,
   forallb (fun p => forallb (fun q => rep_chk (eT2, e_hist2 p q)) (e_pairs 8)) [(0, 1); (0, 2); (0, 3); (4, 7)]%nat)
  = (true, true, true, true, true).
Proof. vm_compute. reflexivity. Qed.

(* COUNTEREXAMPLE (the syntactic formulation is false): f(x,y) = k(x).  After the union the recursive lookup of
   f(x,y) finds the invocation {1; 9 -> x} of the class of k, the handle of f(x,y) is {0; 1 -> x, 5 -> y}: they are
   different invocations (even of different ids), and equal for eg_eq.  So "lookup_rec finds THE handle" and
   "re-insertion returns THE handle" are false; `rep` (an invocation equal to the handle) is the right statement. *)
Example lookup_finds_other_invocation :
  match run_ops [xs2 2 2 6; xs1 7 2] [HAdd 0; HAdd 1; xU 0 1] [] empty_egraph with
  | Ok (hs, s) => match nth_opt hs 0 with
      | Some a => Some (lookup_rec s (xs2 2 2 6), a, repb s (xs2 2 2 6) a,
                        match add_expr (xs2 2 2 6) s with Ok (a', _) => Some (a', appid_eqb a' a) | Err _ => None end)
      | None => None end
  | Err _ => None end
  = Some (Ok (Some {| aid := 1; am := [(9, 2)] |}), {| aid := 0; am := [(1, 2); (5, 6)] |}, true,
          Some ({| aid := 1; am := [(9, 2)] |}, false)).
Proof. vm_compute. reflexivity. Qed.
(* The statement is also false BETWEEN union_internal and rebuild: CongruenceFacts.handles_false_mid_union. *)

(* ------------------------------------------------------------------ *)
Print Assumptions lookup_kid_eq.
Print Assumptions node_rep.
Print Assumptions rep_persist.
Print Assumptions rstep_trans.
Print Assumptions eg_add_cases.
Print Assumptions eg_union_noop.
Print Assumptions rep_add_expr.
Print Assumptions lookup_after_add.
Print Assumptions rep_persists_add_expr.
Print Assumptions rep_persists_eg_union.
Print Assumptions reachable_handles_rep.
Print Assumptions reinsertion_is_identity_reachable.
Print Assumptions reinsertion_checked.
Print Assumptions twfb_sound.
Print Assumptions rep_histories_checked.
Print Assumptions rep_enumerated_checked.
Print Assumptions lookup_finds_other_invocation.
