(* EGraph/RepReach.v — C09 "insertion is canonical", UNCONDITIONALLY for reachable states: the five hypotheses of
   EGraph/RepFacts.v Section Rep (SS_new, SS_union_new, NLP_new, NLP_union_new, LAA_new) are THEOREMS for the states of
   every run, hence

   - `handles_rep_reachable`: every handle returned by an insertion represents its term in every later state;
   - `reinsertion_is_identity_unconditional`: the recursive lookup finds every inserted term in every later state, by an
     invocation equal to its handle, and re-inserting it creates nothing (s' = s) and returns an invocation equal to the handle;
   - `lookup_after_add_reachable`: after inserting ANY term t (term_pre, twf) in a reachable state, the lookup of t finds an
     invocation equal to the returned one;
   - per operation, from any state satisfying the bundle `gds` (reachable: `reachable_gds_closed`):
     `eg_add_step` (gds s', mext0, NODE LOOKUPS PERSIST nlp s s', LOOKUP AFTER ADD) and `eg_union_step`.

   THE INVARIANT.  gds s = hcb s /\ sse noex s /\ srcx noex s (SelfSymFacts.v) /\ covd nosrc s /\ synsep s, where
   `covd` (RepReachDefs.v, THE COVERING INVARIANT, no pending exemption) says: for every class j there is a source src
   RECORDED by some stored entry such that the syntactic node of j is the syntactic node of src renamed, with eg-equal
   children, and j[identity] is eg-equal to src[the renaming]; `synsep`: no public slot of a syntactic node is named like
   one of its binders.  Validated executably BEFORE proving, after every handle_pending step / union_internal / at the
   entry of every rebuild of 15 histories (RepReachCheck.covd_histories_checked).
   WHY IT WORKS.  A node m found in s (through an entry with source src) is "coherent" with src (RepReachA.lookup_srcok,
   from srcx); coherence persists (kmono); in the later state s' the class src is covered by a recorded source src'
   (covd), coherence is transitive (RepReachTrans.srcok_inv_trans), the entry recording src' is coherent with src' (srcx),
   canonical (hc_ok, pending = []) and has its induced symmetries (ss_ok), so m is found through it by an equal invocation
   (RepReachB.srcok_lookup, using the equivariance of lookup under renaming RepReachB.eg_lookup_ren).  covd is kept because
   the union core only MOVES entries with their sources (RepReachFwd.v, fps_uint etc.), handle_pending re-adds its entry with the same
   source, or DROPS it on a hash-cons hit, and then the dropped source is coherent with the source of the hit entry
   (RepReachHit.hit_source: what handle_congruence unites); a new class covers itself (RepReachRefl.new_refl) and its node
   is coherent with it for the returned invocation (RepReachNew.new_source).  Nodes with a public slot named like a binder
   (where coherence is not expressible) are handled by renaming the binders (RepReachNlp.v: lookups and shapes do not
   depend on binder names). *)
From SE Require Import Slots.SlotMapFacts Group.GroupSound Lang.LangFacts Lang.ShapeFacts Lang.RenameFacts
  Slots.SlotFacts Base.TextFacts EGraph.Model EGraph.ModelFacts EGraph.ModelMachine EGraph.PendingFacts EGraph.UnionFindFacts
  EGraph.InvariantFacts EGraph.UnionInvariantFacts EGraph.AddCoversFacts EGraph.MonotoneFacts EGraph.HashconsShape
  EGraph.Mod4Facts EGraph.HashconsAbs EGraph.Model9 EGraph.HashconsFacts EGraph.NodeCong EGraph.KidEqFacts EGraph.ShapeCong
  EGraph.CongruenceFacts EGraph.RepFacts EGraph.SelfSymDefs EGraph.SelfSymCond EGraph.RepReachDefs EGraph.RepReachCond
  EGraph.RepReachNlp EGraph.RepReachMain EGraph.RepReachHit EGraph.RepReachNew.
Require Import ZArith Lia.

Definition gds_c : egraph -> Prop := gds.

Theorem reachable_gds_closed : forall terms ops hs s, ops_pre terms ops [] empty_egraph ->
  run_ops terms ops [] empty_egraph = Ok (hs, s) -> gds_c s.
Proof. exact (reachable_gds hit_source). Qed.

(* the former hypotheses of RepFacts.v Section Rep, per operation *)
Theorem eg_add_step : forall n s a s', gds_c s -> node_pre s n -> eg_add n s = Ok (a, s') ->
  gds_c s' /\ rstep s s' /\ covers s' a /\ exists x, eg_lookup s' n = Ok (Some x) /\ eg_eq s' x a = Ok true.
Proof. exact (eg_add_gstep hit_source new_source). Qed.

Theorem eg_union_step : forall l r s u s', gds_c s -> covers s l -> covers s r -> eg_union l r s = Ok (u, s') ->
  gds_c s' /\ rstep s s'.
Proof. exact (eg_union_gstep hit_source). Qed.

Theorem gds_good_c : forall s, gds_c s -> good s.
Proof. exact gds_good. Qed.

(* SS_new, SS_union_new, NLP_new, NLP_union_new, LAA_new of RepFacts.v, for the states of the bundle *)
Corollary SS_new_thm : forall n s a s', gds_c s -> node_pre s n -> eg_add n s = Ok (a, s') -> ss_ok s'.
Proof. intros n s a s' G NP H. exact (proj2 (gds_good_c s' (proj1 (eg_add_step n s a s' G NP H)))). Qed.
Corollary NLP_new_thm : forall n s a s', gds_c s -> node_pre s n -> eg_add n s = Ok (a, s') -> nlp s s'.
Proof. intros n s a s' G NP H. exact (proj2 (proj2 (proj1 (proj2 (eg_add_step n s a s' G NP H))))). Qed.
Corollary LAA_new_thm : forall n s a s', gds_c s -> node_pre s n -> eg_add n s = Ok (a, s') ->
  exists x, eg_lookup s' n = Ok (Some x) /\ eg_eq s' x a = Ok true.
Proof. intros n s a s' G NP H. exact (proj2 (proj2 (proj2 (eg_add_step n s a s' G NP H)))). Qed.
Corollary SS_union_thm : forall l r s u s', gds_c s -> covers s l -> covers s r -> eg_union l r s = Ok (u, s') -> ss_ok s'.
Proof. intros l r s u s' G Cl Cr H. exact (proj2 (gds_good_c s' (proj1 (eg_union_step l r s u s' G Cl Cr H)))). Qed.
Corollary NLP_union_thm : forall l r s u s', gds_c s -> covers s l -> covers s r -> eg_union l r s = Ok (u, s') -> nlp s s'.
Proof. intros l r s u s' G Cl Cr H. exact (proj2 (proj2 (proj2 (eg_union_step l r s u s' G Cl Cr H)))). Qed.

(* LOOKUP AFTER ADD for terms, from any state of the bundle *)
Theorem rep_add_expr_closed : forall t s a s', gds_c s -> term_pre t s -> twf t -> add_expr t s = Ok (a, s') ->
  gds_c s' /\ rstep s s' /\ rep s' t a.
Proof. exact (rep_add_expr_g hit_source new_source). Qed.

Theorem lookup_after_add_reachable : forall terms ops hs s t a s', ops_pre terms ops [] empty_egraph ->
  run_ops terms ops [] empty_egraph = Ok (hs, s) -> term_pre t s -> twf t -> add_expr t s = Ok (a, s') -> rep s' t a.
Proof.
  intros terms ops hs s t a s' OP H TP W Ha.
  exact (proj2 (proj2 (rep_add_expr_closed t s a s' (reachable_gds_closed terms ops hs s OP H) TP W Ha))).
Qed.

(* every handle of a run represents its term in the final state *)
Theorem handles_rep_reachable : forall terms ops hs s, (forall t, In t terms -> twf t) ->
  ops_pre terms ops [] empty_egraph -> run_ops terms ops [] empty_egraph = Ok (hs, s) ->
  forall k a, In (k, a) (combine (add_idx ops) hs) -> exists t, nth_opt terms k = Some t /\ rep s t a.
Proof. intros terms ops hs s TW OP H. exact (proj2 (handles_rep_reachable_c hit_source new_source terms ops hs s TW OP H)). Qed.

(* re-inserting any earlier term in any later state creates nothing and returns an invocation equal to the original
   handle; the recursive lookup finds every inserted term in every later state *)
Theorem reinsertion_is_identity_unconditional : forall terms ops hs s k a t, (forall t, In t terms -> twf t) ->
  ops_pre terms ops [] empty_egraph -> run_ops terms ops [] empty_egraph = Ok (hs, s) ->
  In (k, a) (combine (add_idx ops) hs) -> nth_opt terms k = Some t ->
  (exists x, lookup_rec s t = Ok (Some x) /\ eg_eq s x a = Ok true) /\
  (forall a' s', add_expr t s = Ok (a', s') -> s' = s /\ eg_eq s' a a' = Ok true).
Proof.
  intros terms ops hs s k a t TW OP H Hin Et.
  destruct (handles_rep_reachable terms ops hs s TW OP H k a Hin) as (t' & Et' & R). rewrite Et in Et'. inversion Et'; subst t'.
  destruct (reachable_inv3 _ _ _ _ H) as [I3 _].
  split; [exact (proj2 R)|]. intros a' s' Ha. exact (reinsert_equal s t a a' s' I3 R Ha).
Qed.

Print Assumptions reachable_gds_closed.
Print Assumptions eg_add_step.
Print Assumptions eg_union_step.
Print Assumptions NLP_new_thm.
Print Assumptions NLP_union_thm.
Print Assumptions LAA_new_thm.
Print Assumptions lookup_after_add_reachable.
Print Assumptions handles_rep_reachable.
Print Assumptions reinsertion_is_identity_unconditional.
