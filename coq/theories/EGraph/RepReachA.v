(* EGraph/RepReachA.v — a node found by eg_lookup is SOURCE-COHERENT with the recorded source of the entry through
   which it is found (`lookup_srcok`).  Auxiliary: `pre_shape_kids` (the pre-shape has the skeleton of the node with
   eg-equal well-formed children), `srcok_inv_kids` (srcok_inv is closed under replacing children by eg-equal ones),
   `srcok_inv_ren_gen` (srcok_inv is closed under renamings injective on binders, globally injective on public slots,
   never identifying a public slot with a binder), `finv` (inverse of a renaming on a finite domain).
   NOTE: the premise `forall x b, In x (pub_occ m) -> In b (binders m) -> x <> b` is necessary: srcok_inv demands
   m = set_apps (ren g syn) l with ren_ok g syn, whose second clause separates public slots from binder names. *)
From SE Require Import Slots.SlotMapFacts Group.GroupSound Lang.LangFacts Lang.ShapeFacts Lang.RenameFacts
    Slots.SlotFacts Base.TextFacts EGraph.Model EGraph.ModelFacts EGraph.ModelMachine EGraph.PendingFacts EGraph.UnionFindFacts
    EGraph.InvariantFacts EGraph.UnionInvariantFacts EGraph.AddCoversFacts EGraph.MonotoneFacts EGraph.HashconsShape
    EGraph.Mod4Facts EGraph.HashconsAbs EGraph.Model9 EGraph.HashconsFacts EGraph.NodeCong EGraph.KidEqFacts EGraph.ShapeCong
    EGraph.CongruenceFacts EGraph.SelfSymDefs EGraph.SelfSymCond EGraph.RepReachDefs.
From SE Require EGraph.SoundAddNew EGraph.SoundUnion EGraph.SelfSymUnion EGraph.SelfSymReadd EGraph.SelfSymDss EGraph.SelfSymNew.
Require Import ZArith Lia ZifyBool ZifyN ZifyNat.
Local Notation "a ** b" := (compose_partial a b) (at level 40, left associativity).
Local Notation inv := inverse_nocheck.
Local Notation ectr := Model.ctr.
From SE Require EGraph.MatchReprAlg.
Require Import List. Import ListNotations.
Local Open Scope N_scope.

Lemma kid_eq_sym : forall s a b, eg_inv s -> kid_eq s a b -> kid_eq s b a.
Proof.
  intros s a b Hs (Ca & Cb & E). split; [exact Cb|]. split; [exact Ca|]. apply eg_eq_sym_true; assumption.
Qed.

Lemma Forall2_sym : forall {A} (P : A -> A -> Prop) l r, (forall x y, P x y -> P y x) -> Forall2 P l r -> Forall2 P r l.
Proof. intros A P l r H F. induction F; constructor; auto. Qed.

(* the pre-shape of a node has the skeleton of the node, with eg-equal, well-formed children *)
Lemma pre_shape_kids : forall s m p, eg_inv s -> Forall (covers s) (app_occ m) -> pre_shape s m = Ok p ->
  exists l, p = set_apps m l /\ Forall2 (kid_eq s) (app_occ m) l /\ (forall b, In b l -> wf (am b)) /\
    incl (pub_occ p) (pub_occ m).
Proof.
  intros s m p Hs Cov Hp. unfold pre_shape in Hp.
  destruct (find_enode s m) as [N1|] eqn:Fe; cbn [bind] in Hp; [|discriminate].
  destruct (variants s N1) as [vs|] eqn:Ev; cbn [bind] in Hp; [|discriminate].
  assert (Hin : In p vs).
  { destruct (min_variant_in vs None p Hp) as [Hin|[k Hk]]; [exact Hin|discriminate]. }
  destruct (variants_sub s N1 vs p Ev Hin) as [Hb Hpub].
  destruct (find_enode_sub s m N1 Fe) as [Hb1 Hpub1].
  pose proof (found_kids s m N1 Hs Cov Fe) as FK.
  pose proof Fe as Fe'. unfold find_enode in Fe'.
  destruct (mapr (find_applied_id s) (app_occ m)) as [l0|] eqn:El; cbn [bind] in Fe'; [|discriminate].
  inversion Fe' as [EN1]; clear Fe'.
  pose proof (mapr_length _ _ _ El) as Len0.
  assert (K0 : Forall2 (kid_eq s) (app_occ m) l0).
  { apply mapr_ok in El. clear - El Cov Hs. revert Cov. induction El as [|x y lx ly Hxy El IH]; intros Cv; [constructor|].
    inversion Cv as [|? ? Cx Ct]; subst. constructor; [apply kid_eq_find; assumption|apply IH; exact Ct]. }
  assert (AO : app_occ N1 = l0) by (rewrite <- EN1; apply app_occ_set_apps; exact Len0).
  assert (CK : forall a0, In a0 (app_occ N1) -> ckid s a0).
  { intros a0 Ha0. destruct (FK a0 Ha0) as [C L]. split; [exact L|exact C]. }
  assert (PP : incl (pub_occ p) (pub_occ m)) by (intros y Hy; apply Hpub1, Hpub, Hy).
  destruct (variants_inv s N1 vs CK Ev) as (cls & Ecls & [[Triv Evs]|[NTriv (groups & Eg & Fg & Evs)]]).
  - subst vs. destruct Hin as [E|[]]. subst p. exists l0. split; [symmetry; exact EN1|]. split; [exact K0|]. split; [|exact PP].
    intros b Hb'. rewrite <- AO in Hb'. destruct (FK b Hb') as [_ (e & c & _ & _ & _ & _ & _ & W & _)]. exact W.
  - subst vs. apply in_map_iff in Hin. destruct Hin as (perms & Ep & Hperms).
    set (l2 := zip_with gvar (app_occ N1) perms) in *.
    assert (F2 : Forall2 (kid_eq s) (app_occ N1) l2).
    { unfold l2. apply (zip_cart_gvar (kid_eq s) (app_occ N1) groups); [|exact Hperms].
      clear - Fg Hs. induction Fg as [|x G la lg Hx Fg IH]; constructor; [|exact IH].
      intros pp Hpp. destruct Hx as [[L C] (c & Gc & Ga)].
      exact (gvar_eg_eq s x c G pp Hs C L Gc Ga Hpp). }
    pose proof (Forall2_length' _ _ _ F2) as Len2.
    exists l2. split; [|split; [|split; [|exact PP]]].
    + rewrite <- Ep, <- EN1. apply set_apps_twice. rewrite AO in Len2. lia.
    + rewrite AO in F2.
      exact (SelfSymReadd.fp_Forall2_trans (kid_eq s) _ l0 l2 (fun x y z H1 H2 => kid_eq_trans s x y z Hs H1 H2) K0 F2).
    + intros b Hb'. exact (SelfSymReadd.fp_zip_gvar_wf _ _ _ Hb').
Qed.

(* replacing the children of a coherent node by eg-equal ones *)
Lemma srcok_inv_kids : forall s a N1 src l', eg_inv s -> srcok_inv s a N1 src ->
  Forall2 (kid_eq s) (app_occ N1) l' -> srcok_inv s a (set_apps N1 l') src.
Proof.
  intros s a N1 src l' Hs (csrc & g & l & Hc & Rk & EN & F & K) F'.
  pose proof (Forall2_length' _ _ _ F) as Len.
  assert (AO : app_occ N1 = l) by (rewrite EN; apply app_occ_set_apps; exact Len).
  rewrite AO in F'. pose proof (Forall2_length' _ _ _ F') as Len'.
  exists csrc, g, l'. split; [exact Hc|]. split; [exact Rk|]. split.
  - rewrite EN. apply set_apps_twice. lia.
  - split; [|exact K].
    exact (SelfSymReadd.fp_Forall2_trans (kid_eq s) _ l l' (fun x y z H1 H2 => kid_eq_trans s x y z Hs H1 H2) F F').
Qed.

(* ================================================================== *)
(* source coherence is closed under renamings that are injective on binders, globally injective on public
   slots, and never identify a public slot with a binder *)
Lemma srcok_inv_ren_gen : forall s a N1 src (r : bool -> slot -> slot),
  eg_inv s -> srcok_inv s a N1 src ->
  (forall b, In b (app_occ N1) -> wf (am b)) -> wf (am a) ->
  inj_on (r false) (binders N1) ->
  (forall x y, r true x = r true y -> x = y) ->
  (forall x b, In b (binders N1) -> r true x <> r false b) ->
  srcok_inv s (rv r [] a) (RenameFacts.ren r N1) src.
Proof.
  intros s a N1 src r Hs (csrc & g & l & Hc & Rk & EN & F & K) Wk Wa R1 R2 R3.
  set (syn := c_syn csrc) in *. set (M := RenameFacts.ren g syn) in *.
  pose proof Rk as (Rk1 & Rk2 & Rk3).
  assert (BM : binders N1 = binders M) by (rewrite EN; apply binders_set_apps').
  pose proof (Forall2_length' _ _ _ F) as Len.
  assert (AO : app_occ N1 = l) by (rewrite EN; apply app_occ_set_apps; exact Len).
  assert (RM : ren_ok r M).
  { unfold ren_ok. rewrite <- BM. split; [exact R1|]. split.
    - intros x b _ Hb. apply R3. exact Hb.
    - intros x y _ _ E. apply R2. exact E. }
  assert (EC : RenameFacts.ren r M = RenameFacts.ren (SelfSymReadd.comp2 r g) syn).
  { unfold M. apply SelfSymReadd.ren_ren. exact Rk2. }
  assert (INJ : forall bd, In bd (abounds M) -> forall u v,
            r (negb (existsb (N.eqb u) bd)) u = r (negb (existsb (N.eqb v) bd)) v -> u = v).
  { intros bd Hbd u v E. pose proof (SelfSymReadd.abounds_sub M bd Hbd) as Sb. rewrite <- BM in Sb.
    destruct (existsb (N.eqb u) bd) eqn:Eu; destruct (existsb (N.eqb v) bd) eqn:Ev; cbn [negb] in E.
    - apply SelfSymReadd.existsb_eqb_in in Eu, Ev. apply R1; [apply Sb; exact Eu|apply Sb; exact Ev|exact E].
    - apply SelfSymReadd.existsb_eqb_in in Eu. exfalso. apply (R3 v u (Sb u Eu)). symmetry. exact E.
    - apply SelfSymReadd.existsb_eqb_in in Ev. exfalso. apply (R3 u v (Sb v Ev)). exact E.
    - apply R2. exact E. }
  exists csrc, (SelfSymReadd.comp2 r g), (zip_with (rv r) (abounds M) l). fold syn.
  split; [exact Hc|]. split; [apply SelfSymReadd.ren_ok_comp; assumption|]. split; [|split].
  - rewrite <- EC, EN. symmetry. apply set_apps_ren.
  - rewrite <- EC, app_occ_ren.
    apply (SelfSymReadd.Forall2_zip3 (kid_eq s) (kid_eq s) (rv r) _ _ F). intros bd x y Hbd Hy Pxy.
    apply SelfSymReadd.kid_eq_rv; [exact Hs|exact Pxy|apply Wk; rewrite AO; exact Hy|].
    intros u v _ _ E. exact (INJ bd Hbd u v E).
  - destruct a as [j n]. cbn [am] in Wa.
    assert (K' : kid_eq s (rv r [] {| aid := src; am := rho_map g (slots syn) |}) (rv r [] {| aid := j; am := n |})).
    { apply SelfSymReadd.kid_eq_rv; [exact Hs|exact K|exact Wa|]. intros u v _ _ E. cbn [existsb negb] in E. apply R2. exact E. }
    unfold rv in K' |- *. cbn [aid am] in K' |- *.
    eapply SelfSymUnion.kid_eq_get_ext; [| |exact K']; intros k; [|reflexivity].
    rewrite SoundUnion.get_ren_vals, !SelfSymReadd.get_rho_map. unfold SelfSymReadd.comp2.
    destruct (existsb (N.eqb k) (slots syn)); reflexivity.
Qed.

(* ================================================================== *)
(* an inverse of a function on a finite domain, shifting the slots outside of the image above a bound *)
Definition lmax (l : list N) : N := fold_right N.max 0 l.

Lemma lmax_in : forall l x, In x l -> x <= lmax l.
Proof.
  induction l as [|y t IH]; intros x H; [destruct H|]. cbn [lmax fold_right]. fold (lmax t).
  destruct H as [<-|H]; [lia|]. specialize (IH x H). lia.
Qed.

Definition finv (f : slot -> slot) (dm : list slot) (B : N) (y : slot) : slot :=
  match find (fun x => f x =? y) dm with Some x => x | None => y + B end.

Lemma finv_in : forall f dm B x, inj_on f dm -> In x dm -> finv f dm B (f x) = x.
Proof.
  intros f dm B x I Hx. unfold finv. destruct (find (fun x0 => f x0 =? f x) dm) as [x'|] eqn:E.
  - apply find_some in E. destruct E as [Hx' E]. apply N.eqb_eq in E. apply I; assumption.
  - exfalso. pose proof (find_none _ _ E x Hx) as Q. cbv beta in Q. rewrite N.eqb_refl in Q. discriminate.
Qed.

Lemma finv_cases : forall f dm B y,
  (exists x, In x dm /\ f x = y /\ finv f dm B y = x) \/ finv f dm B y = y + B.
Proof.
  intros f dm B y. unfold finv. destruct (find (fun x => f x =? y) dm) as [x|] eqn:E; [left|right; reflexivity].
  apply find_some in E. destruct E as [Hx E]. apply N.eqb_eq in E. exists x. auto.
Qed.

Lemma finv_inj : forall f dm B, (forall x, In x dm -> x < B) ->
  forall y y', finv f dm B y = finv f dm B y' -> y = y'.
Proof.
  intros f dm B Lt y y' E.
  destruct (finv_cases f dm B y) as [(x & Hx & Fx & Ex)|Ex]; destruct (finv_cases f dm B y') as [(x' & Hx' & Fx' & Ex')|Ex'];
    rewrite Ex, Ex' in E.
  - subst x'. congruence.
  - specialize (Lt x Hx). lia.
  - specialize (Lt x' Hx'). lia.
  - lia.
Qed.

Lemma zip_rv_wf : forall g bds l, (forall a, In a l -> wf (am a)) -> forall b, In b (zip_with (rv g) bds l) -> wf (am b).
Proof.
  intros g. induction bds as [|bd t IH]; intros l H b Hb; cbn [zip_with] in Hb; [destruct Hb|].
  destruct l as [|a l]; [destruct Hb|]. destruct Hb as [<-|Hb].
  - unfold rv. cbn [am]. apply SelfSymReadd.kr_ren_vals_wf. apply H. left. reflexivity.
  - apply (IH l); [|exact Hb]. intros a' Ha'. apply H. right. exact Ha'.
Qed.

Lemma srcok_inv_root_ext : forall s i n n' N1 src, (forall k, get n k = get n' k) ->
  srcok_inv s {| aid := i; am := n |} N1 src -> srcok_inv s {| aid := i; am := n' |} N1 src.
Proof.
  intros s i n n' N1 src H (csrc & g & l & Hc & Rk & EN & F & K). exists csrc, g, l.
  repeat (split; [assumption|]). eapply SelfSymUnion.kid_eq_get_ext; [| |exact K]; [intros k; reflexivity|exact H].
Qed.

(* ================================================================== *)
Theorem lookup_srcok : forall s m x,
  inv3 s -> m4 s -> tab_ok s -> srcx noex s ->
  Forall (covers s) (app_occ m) -> NoDup (binders m) ->
  (forall x b, In x (pub_occ m) -> In b (binders m) -> x <> b) ->
  eg_lookup s m = Ok (Some x) ->
  exists i sh cb src, stored s i sh (cb, src) /\ srcok_inv s x m src.
Proof.
  intros s m x I3 M4 T SX Cov ND Dj L.
  pose proof I3 as [Hs2 Nk]. pose proof Hs2 as [Hs _].
  unfold eg_lookup in L. destruct (shape s m) as [[sh b]|] eqn:Sh; cbn [bind] in L; [|discriminate].
  destruct (lookup_internal_inv s sh b x L) as (i & c & cb & src & Hh & Hc & Gc & Ex).
  pose proof (get_stored _ _ _ _ _ Hc Gc) as St.
  exists i, sh, cb, src. split; [exact St|].
  destruct (SX i sh cb src St) as [[]|(c' & N1 & Hc' & A & S1)].
  rewrite Hc in Hc'. inversion Hc'; subst c'; clear Hc'.
  unfold shape in Sh. destruct (pre_shape s m) as [p|] eqn:Pp; cbn [bind] in Sh; [|discriminate].
  destruct (pre_shape_kids s m p Hs Cov Pp) as (l & Ep & Fk & Wk & PP).
  pose proof (Forall2_length' _ _ _ Fk) as Lenk.
  assert (Bp : binders p = binders m) by (rewrite Ep; apply binders_set_apps').
  assert (Al : app_occ p = l) by (rewrite Ep; apply app_occ_set_apps; exact Lenk).
  assert (Em : m = set_apps p (app_occ m)).
  { rewrite Ep. rewrite set_apps_twice by lia. symmetry. apply set_apps_self. }
  assert (NDp : NoDup (binders p)) by (rewrite Bp; exact ND).
  destruct (wshape_fwd p sh b Sh NDp) as (gs & Esh & Rs).
  destruct (shape_bij _ _ _ Sh) as (B1 & B2 & B3).
  destruct (shape_bij_props _ _ _ Sh) as (Wb & _ & _).
  pose proof Rs as (Rs1 & Rs2 & Rs3).
  assert (Psh : pub_occ sh = map (gs true) (pub_occ p)) by (rewrite Esh; apply ren_pub_occ; assumption).
  assert (Gb : forall y, In y (pub_occ p) -> get b (gs true y) = Some y).
  { rewrite Psh, map_map in B3. intros y Hy. exact (proj1 map_ext_in_iff B3 y Hy). }
  (* the stored entry *)
  pose proof (Nk i c (sh, (cb, src)) Hc (na_get_in _ _ _ Gc)) as (Wcb & Icb & Kcb & Scb). cbn [fst snd] in Wcb, Icb, Kcb, Scb.
  pose proof (apply_slotmap_total _ _ _ A) as Tcb.
  apply apply_slotmap_ren in A.
  assert (Vcb : forall k v, get cb k = Some v -> v mod 4 = 1).
  { destruct M4 as (_ & _ & C4). destruct (C4 c (get_class_in _ _ _ Hc)) as (V & _). intros k v G.
    exact (V sh cb src (na_get_in _ _ _ Gc) k v (get_in _ _ _ G)). }
  assert (Bmod : forall bb, In bb (binders sh) -> bb mod 4 = 0).
  { intros bb Hbb. apply (shape_all_occ_mod4 _ _ _ Sh). apply binders_all_occ. exact Hbb. }
  assert (Rcb : ren_ok (asm_g cb) sh).
  { split; [intros u v _ _ E; exact E|]. split.
    - intros u bb Hu Hbb E. unfold asm_g in E. destruct (get cb u) as [v|] eqn:G; [|exact (Tcb u Hu G)].
      pose proof (Vcb u v G) as V1. pose proof (Bmod bb Hbb) as V0. subst v. rewrite V0 in V1. discriminate.
    - intros u v Hu Hv E. unfold asm_g in E.
      destruct (get cb u) as [u'|] eqn:Gu; [|exact (False_ind _ (Tcb u Hu Gu))].
      destruct (get cb v) as [v'|] eqn:Gv; [|exact (False_ind _ (Tcb v Hv Gv))].
      subst v'. exact (Icb _ _ _ Gu Gv). }
  set (F := SelfSymReadd.comp2 (asm_g cb) gs).
  assert (EN1 : N1 = RenameFacts.ren F p) by (rewrite A, Esh; apply SelfSymReadd.ren_ren; exact Rs2).
  assert (RF : ren_ok F p) by (apply SelfSymReadd.ren_ok_comp; [exact Rs|rewrite <- Esh; exact Rcb]).
  pose proof RF as (RF1 & RF2 & RF3).
  assert (BN1 : binders N1 = map (F false) (binders p)) by (rewrite EN1; apply ren_binders).
  (* the inverse renaming *)
  set (B := lmax (pub_occ p ++ binders p) + 1).
  set (r := fun (f : bool) (y : slot) => if f then finv (F true) (pub_occ p) B y else finv (F false) (binders p) B y).
  assert (LtB : forall y, In y (pub_occ p ++ binders p) -> y < B).
  { intros y Hy. unfold B. pose proof (lmax_in _ _ Hy). lia. }
  assert (rp : forall y, In y (pub_occ p) -> r true (F true y) = y).
  { intros y Hy. unfold r. apply finv_in; assumption. }
  assert (rb : forall y, In y (binders p) -> r false (F false y) = y).
  { intros y Hy. unfold r. apply finv_in; assumption. }
  assert (Ep' : RenameFacts.ren r N1 = p).
  { rewrite EN1, SelfSymReadd.ren_ren by exact RF2. apply ren_id. intros y f Hyf. unfold SelfSymReadd.comp2. destruct f.
    - apply rp. apply occ_flags_true_pub. exact Hyf.
    - apply rb. apply MatchReprAlg.occ_flags_false_binders. exact Hyf. }
  assert (R1 : inj_on (r false) (binders N1)).
  { rewrite BN1. intros u v Hu Hv E. apply in_map_iff in Hu, Hv. destruct Hu as (u0 & <- & Hu0). destruct Hv as (v0 & <- & Hv0).
    rewrite (rb u0 Hu0), (rb v0 Hv0) in E. subst v0. reflexivity. }
  assert (R2 : forall u v, r true u = r true v -> u = v).
  { intros u v E. unfold r in E. apply (finv_inj (F true) (pub_occ p) B) in E; [exact E|].
    intros y Hy. apply LtB. apply in_or_app. left. exact Hy. }
  assert (R3 : forall u bb, In bb (binders N1) -> r true u <> r false bb).
  { intros u bb Hbb E. rewrite BN1 in Hbb. apply in_map_iff in Hbb. destruct Hbb as (b0 & <- & Hb0).
    rewrite (rb b0 Hb0) in E. unfold r in E.
    destruct (finv_cases (F true) (pub_occ p) B u) as [(y & Hy & _ & Ey)|Ey]; rewrite Ey in E.
    - subst y. apply (Dj b0 b0); [apply PP; exact Hy|rewrite <- Bp; exact Hb0|reflexivity].
    - assert (b0 < B) by (apply LtB; apply in_or_app; right; exact Hb0). lia. }
  assert (Wk1 : forall k, In k (app_occ N1) -> wf (am k)).
  { rewrite EN1, app_occ_ren. apply zip_rv_wf. rewrite Al. exact Wk. }
  pose proof (srcok_inv_ren_gen s _ N1 src r Hs S1 Wk1 (identity_wf _) R1 R2 R3) as S2.
  rewrite Ep' in S2.
  assert (Fk' : Forall2 (kid_eq s) (app_occ p) (app_occ m)).
  { rewrite Al. apply Forall2_sym; [|exact Fk]. intros u v. apply kid_eq_sym. exact Hs. }
  pose proof (srcok_inv_kids s _ p src (app_occ m) Hs S2 Fk') as S3. rewrite <- Em in S3.
  rewrite Ex. unfold rv in S3. cbn [aid am] in S3.
  eapply srcok_inv_root_ext; [|exact S3].
  (* the root maps agree *)
  intros k. rewrite SoundUnion.get_ren_vals, get_identity. cbn [existsb negb].
  unfold filt. rewrite (get_filter_key (fun k0 => sset_mem k0 (c_slots c))).
  destruct (sset_mem k (c_slots c)) eqn:Ek; [|reflexivity]. cbn [option_map].
  apply sset_mem_in in Ek. destruct (Scb k Ek) as (k0 & Gk0).
  assert (Bcb : is_bijection cb = true) by (apply (is_bijection_injective cb Wcb); exact Icb).
  rewrite get_compose_partial by apply inverse_wf.
  rewrite (proj2 (get_inverse cb k k0 Wcb Bcb) Gk0).
  assert (Hk0 : In k0 (pub_occ sh)) by (apply Kcb; congruence).
  rewrite Psh in Hk0. apply in_map_iff in Hk0. destruct Hk0 as (y0 & <- & Hy0).
  rewrite (Gb y0 Hy0). f_equal.
  assert (Fy : F true y0 = k). { unfold F, SelfSymReadd.comp2, asm_g. rewrite Gk0. reflexivity. }
  rewrite <- Fy. apply rp. exact Hy0.
Qed.

Print Assumptions lookup_srcok.
