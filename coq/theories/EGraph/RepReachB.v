(* EGraph/RepReachB.v — a node that is source-coherent with the recorded source of a stored coherent entry is FOUND by
   eg_lookup, by an invocation equal to the coherent one (`srcok_lookup`).
   `eg_lookup_ren`: equivariance of eg_lookup under a renaming; `stored_lookup_id`: the e-node of a stored entry is found,
   by an invocation equal to the identity invocation of its class (uses ss_ok).  All closed under the global context. *)
From SE Require Import Slots.SlotMapFacts Group.GroupSound Lang.LangFacts Lang.ShapeFacts Lang.RenameFacts
  Slots.SlotFacts Base.TextFacts EGraph.Model EGraph.ModelFacts EGraph.ModelMachine EGraph.PendingFacts EGraph.UnionFindFacts
  EGraph.InvariantFacts EGraph.UnionInvariantFacts EGraph.AddCoversFacts EGraph.MonotoneFacts EGraph.HashconsShape
  EGraph.Mod4Facts EGraph.HashconsAbs EGraph.Model9 EGraph.HashconsFacts EGraph.NodeCong EGraph.KidEqFacts EGraph.ShapeCong
  EGraph.CongruenceFacts EGraph.SelfSymDefs EGraph.SelfSymCond EGraph.RepReachDefs.
From SE Require EGraph.SoundAddNew EGraph.SoundUnion EGraph.SelfSymUnion EGraph.SelfSymReadd EGraph.SelfSymDss EGraph.SelfSymNew.
From SE Require Import EGraph.RepFacts.
From SE Require EGraph.MatchReprFix.
Require Import ZArith Lia ZifyBool ZifyN ZifyNat.
Local Notation "a ** b" := (compose_partial a b) (at level 40, left associativity).
Local Notation inv := inverse_nocheck.
Local Notation ectr := Model.ctr.

(* ================================================================== *)
(* 0. small facts *)

Lemma pre_shape_sub : forall s n p, pre_shape s n = Ok p -> binders p = binders n /\ incl (pub_occ p) (pub_occ n).
Proof.
  intros s n p P. unfold pre_shape in P.
  destruct (find_enode s n) as [Fn|] eqn:F; cbn [bind] in P; [|discriminate].
  destruct (variants s Fn) as [vs|] eqn:V; cbn [bind] in P; [|discriminate].
  destruct (min_variant_in _ _ _ P) as [Ip|[k Bad]]; [|discriminate].
  destruct (variants_sub s Fn vs p V Ip) as (B2 & P2). destruct (find_enode_sub s n Fn F) as (B1 & P1).
  split; [congruence|]. intros z Hz. apply P1, P2, Hz.
Qed.

Lemma flags_false_f : forall a bound z, In (z, false) (occ_flags_f bound a) -> In z bound \/ In z (binders_f a).
Proof.
  induction a as [s0|x|s0 b IH|p]; intros bound z H; cbn [binders_f occ_flags_f In] in *.
  - destruct H as [H|[]]. inversion H; subst. left.
    destruct (existsb (N.eqb z) bound) eqn:E; [|discriminate]. apply existsb_exists in E. destruct E as (w & Hw & Ew).
    apply N.eqb_eq in Ew. subst w. exact Hw.
  - apply in_map_iff in H. destruct H as (v & H & _). inversion H; subst. left.
    destruct (existsb (N.eqb z) bound) eqn:E; [|discriminate]. apply existsb_exists in E. destruct E as (w & Hw & Ew).
    apply N.eqb_eq in Ew. subst w. exact Hw.
  - destruct H as [H|H]; [inversion H; subst; right; left; reflexivity|].
    destruct (IH _ _ H) as [[->|Q]|Q]; [right; left; reflexivity|left; exact Q|right; right; exact Q].
  - contradiction.
Qed.

Lemma flags_false_binders : forall n z, In (z, false) (occ_flags n) -> In z (binders n).
Proof.
  intros n z H. unfold occ_flags in H. apply in_flat_map in H. destruct H as (a & Ha & H).
  destruct (flags_false_f a [] z H) as [[]|Q]. unfold binders. apply in_flat_map. exists a. auto.
Qed.

(* the partial map f z |-> h z, z in L *)
Definition pmap (f h : slot -> slot) (L : list slot) : slotmap := from_iter (map (fun z => (f z, h z)) L).

Lemma pmap_wf : forall f h L, wf (pmap f h L).
Proof. intros. unfold pmap. apply from_iter_wf. Qed.

Lemma get_pmap_inv : forall f h L k v, get (pmap f h L) k = Some v -> exists z, In z L /\ k = f z /\ v = h z.
Proof.
  intros f h L k v. unfold pmap. rewrite get_from_iter. induction L as [|a t IH]; cbn [map assoc_last]; [discriminate|].
  destruct (assoc_last (map (fun z => (f z, h z)) t) k) as [w|] eqn:E.
  - intros H. inversion H; subst w. destruct (IH eq_refl) as (z & Hz & A & B). exists z. split; [right; exact Hz|auto].
  - destruct (k =? f a) eqn:Ek; [|discriminate]. intros H. inversion H; subst v. apply N.eqb_eq in Ek.
    exists a. split; [left; reflexivity|auto].
Qed.

Lemma get_pmap_in : forall f h L z, inj_on f L -> In z L -> get (pmap f h L) (f z) = Some (h z).
Proof.
  intros f h L z I Hz. destruct (get (pmap f h L) (f z)) as [v|] eqn:E.
  - destruct (get_pmap_inv f h L _ _ E) as (z' & Hz' & A & B). rewrite (I z z' Hz Hz' A). congruence.
  - exfalso. revert E. unfold pmap. rewrite get_from_iter. clear I. induction L as [|a t IH]; [destruct Hz|].
    cbn [map assoc_last]. destruct (assoc_last (map (fun z => (f z, h z)) t) (f z)) as [w|] eqn:E; [discriminate|].
    destruct Hz as [->|Hz]; [rewrite N.eqb_refl; discriminate|]. exfalso. exact (IH Hz eq_refl).
Qed.

Lemma kid_eq_sym : forall s a b, eg_inv s -> kid_eq s a b -> kid_eq s b a.
Proof. intros s a b Hs (Ca & Cb & E). split; [exact Cb|]. split; [exact Ca|]. apply eg_eq_sym_true; assumption. Qed.

Lemma Forall2_flip : forall {A} (P : A -> A -> Prop) l r, (forall x y, P x y -> P y x) -> Forall2 P l r -> Forall2 P r l.
Proof. intros A P l r H F. induction F; constructor; auto. Qed.

(* ================================================================== *)
(* 1. what eg_lookup returns; EQUIVARIANCE of eg_lookup under renaming *)

Lemma lookup_facts : forall s n y, eg_lookup s n = Ok (Some y) ->
  wf (am y) /\ forall k v, get (am y) k = Some v -> In v (pub_occ n).
Proof.
  intros s n y L. unfold eg_lookup in L.
  destruct (shape s n) as [[sh b]|] eqn:S; cbn [bind] in L; [|discriminate].
  unfold shape in S. destruct (pre_shape s n) as [p|] eqn:P; cbn [bind] in S; [|discriminate].
  destruct (pre_shape_sub s n p P) as (_ & Pp).
  destruct (lookup_internal_inv _ _ _ _ L) as (i & c & cb & src & _ & _ & _ & ->). cbn [am].
  split; [apply (filter_key_wf (fun k => sset_mem k (c_slots c))), compose_partial_wf|].
  intros k v G. unfold filt in G. rewrite (get_filter_key (fun k => sset_mem k (c_slots c))) in G.
  destruct (sset_mem k (c_slots c)); [|discriminate].
  rewrite get_compose_partial in G by apply inverse_wf. destruct (get (inv cb) k) as [k'|]; [|discriminate].
  apply Pp. destruct (shape_bij_props _ _ _ S) as (_ & _ & Vb). apply Vb. eauto.
Qed.

Lemma eg_lookup_ren : forall s r n y, inv3 s -> ren_ok r n -> eg_lookup s n = Ok (Some y) ->
  exists y', eg_lookup s (RenameFacts.ren r n) = Ok (Some y') /\ aid y' = aid y /\
    forall k, get (am y') k = option_map (r true) (get (am y) k).
Proof.
  intros s r n y _ Rn L. unfold eg_lookup in L.
  destruct (shape s n) as [[sh b]|] eqn:S; cbn [bind] in L; [|discriminate].
  unfold shape in S. destruct (pre_shape s n) as [p|] eqn:P; cbn [bind] in S; [|discriminate].
  destruct (pre_shape_sub s n p P) as (Bp & Pp).
  pose proof (ren_ok_sub r n p Bp Pp Rn) as Rp.
  destruct (ren_ok_same_wshape r p Rp sh b S) as (b' & S').
  pose proof (ws_ren_get r p sh b b' Rp S S') as R.
  pose proof (pre_shape_ren s r n p Rn P) as P'.
  destruct (lookup_internal_inv _ _ _ _ L) as (i & c & cb & src & Hh & Hc & G & ->).
  exists {| aid := i; am := filt c (inv cb ** b') |}. split; [|split; [reflexivity|]].
  - unfold eg_lookup, shape. rewrite P'. cbn [bind]. rewrite S'. cbn [bind].
    exact (lookup_internal_intro s sh b' i c cb src Hh Hc G).
  - intros k. cbn [am]. unfold filt. rewrite !(get_filter_key (fun k => sset_mem k (c_slots c))).
    destruct (sset_mem k (c_slots c)); [|reflexivity].
    rewrite !get_compose_partial by apply inverse_wf. destruct (get (inv cb) k) as [k'|]; [|reflexivity]. apply R.
Qed.

(* ================================================================== *)
(* 2. the e-node of a stored entry is found, by an invocation equal to the identity invocation of its class *)

Lemma stored_lookup_id : forall s i sh cb src c N1,
  inv3 s -> m4 s -> pending s = [] -> hc_ok s -> ss_ok s ->
  stored s i sh (cb, src) -> get_class s i = Ok c -> apply_slotmap false cb sh = Ok N1 ->
  exists x1, eg_lookup s N1 = Ok (Some x1) /\ eg_eq s x1 {| aid := i; am := identity (c_slots c) |} = Ok true.
Proof.
  intros s i sh cb src c N1 I3 M4 Pe Hh SS St Hc A. pose proof I3 as [[Hs _] Nk].
  destruct (stored_canonical _ _ _ _ Hh Pe St) as [Ld (b00 & Sh00)].
  destruct (stored_get _ _ _ _ St) as (c0 & Hc0 & Gc). rewrite Hc in Hc0. inversion Hc0; subst c0; clear Hc0.
  destruct (Nk i c _ Hc (na_get_in _ _ _ Gc)) as (Wcb & Icb & Kcb & Scb). cbn [fst snd] in Wcb, Icb, Kcb, Scb.
  assert (Bcb : is_bijection cb = true) by (apply is_bijection_injective; assumption).
  pose proof (apply_slotmap_total _ _ _ A) as KT.
  assert (V4 : forall k v, get cb k = Some v -> v mod 4 = 1).
  { intros k v G. exact (m4_bij4 s M4 i c sh cb src k v Hc (na_get_in _ _ _ Gc) G). }
  destruct (tb_ws s (proj1 Hh) _ _ _ St) as (n00 & bn00 & Wn00).
  pose proof (shape_all_occ_mod4 _ _ _ Wn00) as M4sh.
  pose proof (ws_binders_nodup _ _ _ Wn00) as NDsh.
  destruct (shape_idempotent _ _ _ Wn00) as (b0 & W0). fold (wshape sh) in W0.
  set (G := asm_g cb).
  assert (RG : ren_ok G sh).
  { split; [|split].
    - intros x y _ _ E. exact E.
    - intros x b Hx Hb. unfold G, asm_g. destruct (get cb x) as [y|] eqn:Gx; [|apply KT in Hx; congruence].
      apply V4 in Gx. apply binders_all_occ in Hb. apply M4sh in Hb. intros E. rewrite E in Gx. rewrite Hb in Gx. discriminate.
    - intros x y Hx Hy. unfold G, asm_g. apply KT in Hx, Hy.
      destruct (get cb x) as [u|] eqn:Gx; [|congruence]. destruct (get cb y) as [v|] eqn:Gy; [|congruence].
      intros ->. eapply Icb; eauto. }
  pose proof (apply_slotmap_ren _ _ _ A) as EN1. fold G in EN1.
  (* the pre-shape of sh is a variant of sh *)
  pose proof Sh00 as Sh. unfold shape in Sh. destruct (pre_shape s sh) as [p|] eqn:P; cbn [bind] in Sh; [|discriminate].
  pose proof P as P0. unfold pre_shape in P.
  rewrite (SelfSymDss.find_enode_lkid s sh (ei_uf _ Hs) (SelfSymDss.canon_kids_lkid s sh b00 Hs NDsh Sh00)) in P. cbn [bind] in P.
  destruct (variants s sh) as [vs|] eqn:V; cbn [bind] in P; [|discriminate].
  destruct (min_variant_in _ _ _ P) as [Ip|[k0 Bad]]; [|discriminate].
  pose proof (SS sh i c cb src vs p b0 b00 Hc Gc V Ip W0 Sh) as E.
  destruct (variants_sub s sh vs p V Ip) as (Bp & Pp).
  pose proof (ren_ok_sub G sh p Bp Pp RG) as RGp.
  destruct (ren_ok_same_wshape G p RGp sh b00 Sh) as (b1 & W1).
  pose proof (ws_ren_get G p sh b00 b1 RGp Sh W1) as R1.
  pose proof (pre_shape_ren s G sh p RG P0) as P1. rewrite <- EN1 in P1.
  assert (S1 : shape s N1 = Ok (sh, b1)) by (unfold shape; rewrite P1; cbn [bind]; exact W1).
  pose proof (tb_bwd s (proj1 Hh) i sh _ St) as Hhc.
  pose proof (lookup_covers s sh (sh, b0) _ Nk W0 (lookup_internal_intro s sh b0 i c cb src Hhc Hc Gc)) as CA.
  pose proof (lookup_covers s p (sh, b00) _ Nk Sh (lookup_internal_intro s sh b00 i c cb src Hhc Hc Gc)) as CB.
  pose proof (lookup_covers s _ (sh, b1) _ Nk W1 (lookup_internal_intro s sh b1 i c cb src Hhc Hc Gc)) as C1.
  exists {| aid := i; am := filt c (inv cb ** b1) |}. split.
  { unfold eg_lookup. rewrite S1. cbn [bind]. exact (lookup_internal_intro s sh b1 i c cb src Hhc Hc Gc). }
  assert (WA : forall b, wf (filt c (inv cb ** b))).
  { intros b. apply (filter_key_wf (fun k => sset_mem k (c_slots c))), compose_partial_wf. }
  destruct (shape_bij _ _ _ W0) as (_ & K0 & _).
  destruct (shape_bij_props _ _ _ Sh) as (Wb00 & _ & Vb00).
  assert (D : forall y, In y (values (filt c (inv cb ** b0))) -> get cb y <> None).
  { intros y Hy. apply values_spec in Hy; [|apply WA]. destruct Hy as (k & Gk). unfold filt in Gk.
    rewrite (get_filter_key (fun k => sset_mem k (c_slots c))) in Gk. destruct (sset_mem k (c_slots c)); [|discriminate].
    rewrite get_compose_partial in Gk by apply inverse_wf. destruct (get (inv cb) k) as [k'|]; [|discriminate].
    assert (Hk' : In k' (pub_occ sh)) by (apply K0; rewrite Gk; discriminate).
    rewrite (SelfSymDss.ws_self_id sh b0 W0 k' Hk') in Gk. inversion Gk; subst y. apply KT. exact Hk'. }
  pose proof (SelfSymDss.eq_ren s _ _ cb Hs CA CB (WA b0) (WA b00) Icb D E) as ER. cbn [aid am] in ER.
  assert (Cid : covers s {| aid := i; am := identity (c_slots c) |}) by (apply covers_identity; exact Hc).
  apply (eg_eq_sym_true s _ _ Hs Cid C1).
  rewrite <- ER. apply eg_eq_find_congr; apply (MonotoneFacts.find_agree s i c _ _ Hs Hc); intros k Hk.
  - rewrite get_compose_partial by apply WA. unfold filt. rewrite (get_filter_key (fun k => sset_mem k (c_slots c))).
    rewrite get_identity. rewrite (proj2 (sset_mem_in _ _) Hk).
    rewrite get_compose_partial by apply inverse_wf. destruct (Scb k Hk) as (k0 & Gk0).
    rewrite (SelfSymDss.inv_get cb k0 k Wcb Bcb Gk0).
    assert (Hk0 : In k0 (pub_occ sh)) by (apply Kcb; rewrite Gk0; discriminate).
    rewrite (SelfSymDss.ws_self_id sh b0 W0 k0 Hk0). symmetry. exact Gk0.
  - rewrite get_compose_partial by apply WA. unfold filt. rewrite !(get_filter_key (fun k => sset_mem k (c_slots c))).
    rewrite (proj2 (sset_mem_in _ _) Hk).
    rewrite !get_compose_partial by apply inverse_wf. destruct (Scb k Hk) as (k0 & Gk0).
    rewrite (SelfSymDss.inv_get cb k0 k Wcb Bcb Gk0). rewrite R1.
    destruct (get b00 k0) as [y|] eqn:Gy; cbn [option_map]; [|reflexivity].
    assert (Hy : In y (pub_occ sh)) by (apply Pp; apply Vb00; eauto).
    unfold G, asm_g. apply KT in Hy. destruct (get cb y) as [z|]; [reflexivity|contradiction].
Qed.

(* ================================================================== *)
(* 3. THE THEOREM *)

Theorem srcok_lookup : forall s m x i sh cb src,
  inv3 s -> m4 s -> pending s = [] -> hc_ok s -> ss_ok s ->
  stored s i sh (cb, src) -> srcok s i sh cb src ->
  srcok_inv s x m src -> NoDup (binders m) ->
  exists x', eg_lookup s m = Ok (Some x') /\ eg_eq s x x' = Ok true.
Proof.
  intros s m x i sh cb src I3 M4 Pe Hh SS St (c & N1 & Hc & A & csrc & g1 & l1 & Hcs & Rg1 & EN1 & F1 & K1)
    (csrc' & g & l & Hcs' & Rg & EN & F & K) ND.
  rewrite Hcs in Hcs'. inversion Hcs'; subst csrc'; clear Hcs'.
  set (syn := c_syn csrc) in *.
  assert (Gd : good s) by (split; [split; [exact I3|split; [exact Pe|split; [exact Hh|exact M4]]]|exact SS]).
  pose proof I3 as [[Hs _] Nk].
  set (n1 := RenameFacts.ren g1 syn) in *. set (n := RenameFacts.ren g syn) in *.
  pose proof (Forall2_length' _ _ _ F1) as Len1. pose proof (Forall2_length' _ _ _ F) as Len.
  pose proof Rg1 as (G11 & G12 & G13). pose proof Rg as (G01 & G02 & G03).
  assert (NDn : NoDup (binders n)) by (rewrite EN, binders_set_apps in ND by exact Len; exact ND).
  assert (NDsyn : NoDup (binders syn)).
  { unfold n in NDn. rewrite ren_binders in NDn. exact (NoDup_map_inv _ _ NDn). }
  pose proof (MatchReprFix.ren_ok_nodup g1 syn Rg1 NDsyn) as NDn1. fold n1 in NDn1.
  (* S1, and back to the renamed syntactic node *)
  destruct (stored_lookup_id s i sh cb src c N1 I3 M4 Pe Hh SS St Hc A) as (x1 & L1 & E1).
  destruct (lookup_kid_eq s N1 (app_occ n1) x1 Gd) as (x2 & L2 & E2).
  { rewrite EN1, binders_set_apps by exact Len1. exact NDn1. }
  { rewrite EN1, app_occ_set_apps by exact Len1. apply Forall2_flip; [|exact F1]. intros a b; apply kid_eq_sym; exact Hs. }
  { exact L1. }
  rewrite EN1, set_apps_twice, set_apps_self in L2 by lia.
  pose proof (eg_lookup_covers _ _ _ Nk L1) as Cx1. pose proof (eg_lookup_covers _ _ _ Nk L2) as Cx2.
  destruct (lookup_facts s n1 x2 L2) as (Wx2 & Vx2).
  (* the renaming g o g1^-1 *)
  assert (I1s : inj_on (g1 true) (slots syn)).
  { intros a b Ha Hb. apply G13; apply slots_spec; assumption. }
  set (sg := pmap (g1 true) (g true) (slots syn)).
  set (sb := pmap (g1 false) (g false) (binders syn)).
  set (r := fun (f : bool) (z : slot) =>
              match get (if f then sg else sb) z with Some w => w | None => z end).
  assert (Rt : forall z, In z (pub_occ syn) -> r true (g1 true z) = g true z).
  { intros z Hz. unfold r, sg. rewrite (get_pmap_in (g1 true) (g true) _ z I1s (proj2 (slots_spec _ _) Hz)). reflexivity. }
  assert (Rf : forall z, In z (binders syn) -> r false (g1 false z) = g false z).
  { intros z Hz. unfold r, sb. rewrite (get_pmap_in (g1 false) (g false) _ z G11 Hz). reflexivity. }
  assert (Pn1 : pub_occ n1 = map (g1 true) (pub_occ syn)) by (apply ren_pub_occ; assumption).
  assert (Bn1 : binders n1 = map (g1 false) (binders syn)) by (apply ren_binders).
  assert (Rr : ren_ok r n1).
  { split; [|split].
    - intros a b Ha Hb. rewrite Bn1 in Ha, Hb. apply in_map_iff in Ha, Hb.
      destruct Ha as (a0 & <- & Ha0). destruct Hb as (b0 & <- & Hb0). rewrite !Rf by assumption.
      intros Q. rewrite (G01 a0 b0 Ha0 Hb0 Q). reflexivity.
    - intros a b Ha Hb. rewrite Pn1 in Ha. rewrite Bn1 in Hb. apply in_map_iff in Ha, Hb.
      destruct Ha as (a0 & <- & Ha0). destruct Hb as (b0 & <- & Hb0). rewrite Rt, Rf by assumption. apply G02; assumption.
    - intros a b Ha Hb. rewrite Pn1 in Ha, Hb. apply in_map_iff in Ha, Hb.
      destruct Ha as (a0 & <- & Ha0). destruct Hb as (b0 & <- & Hb0). rewrite !Rt by assumption.
      intros Q. rewrite (G03 a0 b0 Ha0 Hb0 Q). reflexivity. }
  assert (Ern : RenameFacts.ren r n1 = n).
  { unfold n1, n. rewrite SelfSymReadd.ren_ren by exact G12. apply ren_ext. intros z b Hin. unfold SelfSymReadd.comp2.
    destruct b; [apply Rt; apply occ_flags_true_pub; exact Hin|apply Rf; apply flags_false_binders; exact Hin]. }
  destruct (eg_lookup_ren s r n1 x2 I3 Rr L2) as (y' & Ly' & Ay' & Gy'). rewrite Ern in Ly'.
  (* forward to m *)
  destruct (lookup_kid_eq s n l y' Gd NDn F Ly') as (x' & L' & E'). rewrite <- EN in L'.
  exists x'. split; [exact L'|].
  pose proof (eg_lookup_covers _ _ _ Nk Ly') as Cy'. pose proof (eg_lookup_covers _ _ _ Nk L') as Cx'.
  destruct K1 as (Cs1 & Cid & Ek1). destruct K as (Cs & Cx & Ek).
  (* src[rho g1] = x2, renamed by sg *)
  assert (E12 : eg_eq s {| aid := src; am := rho_map g1 (slots syn) |} x2 = Ok true).
  { apply (eg_eq_trans_true s _ _ _ Hs Cs1 Cid Cx2 Ek1).
    apply (eg_eq_trans_true s _ _ _ Hs Cid Cx1 Cx2); [apply eg_eq_sym_true; assumption|exact E2]. }
  assert (Wr1 : wf (rho_map g1 (slots syn))) by (unfold rho_map; apply from_iter_wf).
  assert (Gsg : forall z, In z (slots syn) -> get sg (g1 true z) = Some (g true z)).
  { intros z Hz. exact (get_pmap_in (g1 true) (g true) _ z I1s Hz). }
  assert (Isg : injective sg).
  { intros k1 k2 v Q1 Q2. destruct (get_pmap_inv _ _ _ _ _ Q1) as (z1 & Hz1 & -> & ->).
    destruct (get_pmap_inv _ _ _ _ _ Q2) as (z2 & Hz2 & -> & Q).
    rewrite (G03 z1 z2 (proj1 (slots_spec _ _) Hz1) (proj1 (slots_spec _ _) Hz2) Q). reflexivity. }
  pose proof (SelfSymDss.eq_ren s _ x2 sg Hs Cs1 Cx2 Wr1 Wx2 Isg) as ER. cbn [aid am] in ER.
  assert (ER' : eg_eq s {| aid := src; am := rho_map g (slots syn) |} y' = Ok true).
  { rewrite <- ER; [| |exact E12].
    - destruct y' as [iy my]. cbn [aid am] in Ay', Gy'. subst iy. apply eg_eq_find_congr; apply SelfSymUnion.find_get_ext; intros k.
      + rewrite get_compose_partial by exact Wr1. rewrite !SelfSymDss.get_rho_map.
        destruct (sset_mem k (slots syn)) eqn:Mk; [|reflexivity]. symmetry. apply Gsg. apply sset_mem_in. exact Mk.
      + rewrite get_compose_partial by exact Wx2. rewrite Gy'.
        destruct (get (am x2) k) as [v|] eqn:Gv; cbn [option_map]; [|reflexivity].
        pose proof (Vx2 k v Gv) as Hv. rewrite Pn1 in Hv. apply in_map_iff in Hv. destruct Hv as (z & <- & Hz).
        rewrite (Rt z Hz). symmetry. apply Gsg. apply slots_spec. exact Hz.
    - intros y Hy. apply values_spec in Hy; [|exact Wr1]. destruct Hy as (k & Gk). rewrite SelfSymDss.get_rho_map in Gk.
      destruct (sset_mem k (slots syn)) eqn:Mk; [|discriminate]. inversion Gk; subst y.
      rewrite (Gsg k (proj1 (sset_mem_in _ _) Mk)). discriminate. }
  apply (eg_eq_trans_true s _ _ _ Hs Cx Cs Cx'); [apply eg_eq_sym_true; assumption|].
  apply (eg_eq_trans_true s _ _ _ Hs Cs Cy' Cx'); assumption.
Qed.

Print Assumptions eg_lookup_ren.
Print Assumptions stored_lookup_id.
Print Assumptions srcok_lookup.
