(* EGraph/RepReachCheck.v — executable form of the COVERING invariant of EGraph/RepReachDefs.v (`covd`: the syntactic
   node of every class is, up to renaming and eg-equal children, the syntactic node of the recorded source of some
   stored entry, with equal invocations) and its evaluation after EVERY handle_pending step of every rebuild, after
   every union_internal and at the entry of the rebuild of every insertion, on the histories of CongruenceFacts.v and
   RepFacts.v (validated this way BEFORE proving). *)
From SE Require Import Slots.SlotMapFacts Group.GroupSound Lang.LangFacts Lang.ShapeFacts Lang.RenameFacts
  Slots.SlotFacts Base.TextFacts EGraph.Model EGraph.ModelFacts EGraph.ModelMachine EGraph.PendingFacts EGraph.UnionFindFacts
  EGraph.InvariantFacts EGraph.UnionInvariantFacts EGraph.AddCoversFacts EGraph.MonotoneFacts EGraph.HashconsShape
  EGraph.Mod4Facts EGraph.HashconsAbs EGraph.Model9 EGraph.HashconsFacts EGraph.NodeCong EGraph.KidEqFacts EGraph.ShapeCong
  EGraph.CongruenceFacts EGraph.RepFacts EGraph.SelfSymDefs EGraph.SelfSymCheck.
Require Import ZArith Lia ZifyBool ZifyN ZifyNat.

Local Notation inv := inverse_nocheck.
Local Notation "a ** b" := (compose_partial a b) (at level 40, left associativity).

(* srcok_inv s a N1 src, with the renaming searched among the candidates (lazy conjunctions) *)
Definition sinv_with (s : egraph) (a : appid) (N1 syn : node) (src : N) (rb rp : list (slot * slot)) : bool :=
  let g := g_of2 rp rb in
  let R := RenameFacts.ren g syn in
  if nodupb (map snd rp) then
    if node_eqb N1 (set_apps R (app_occ N1)) then
      if forallb2 (kid_eqb s) (app_occ R) (app_occ N1) then kid_eqb s {| aid := src; am := from_iter rp |} a else false
    else false
  else false.

Definition sinvb (s : egraph) (a : appid) (N1 : node) (src : N) : bool :=
  match get_class s src with
  | Ok csrc =>
      let syn := c_syn csrc in
      if Nat.eqb (nvar syn) (nvar N1) then
        let rb := combine (binders syn) (binders N1) in
        existsb (sinv_with s a N1 syn src rb) (cands (slots syn) (slots N1) 1000001)
      else false
  | Err _ => false
  end.

Definition srcs_of (s : egraph) : list N :=
  nodup N.eq_dec (flat_map (fun c => map (fun e => snd (snd e)) (c_nodes c)) (classes s)).

Definition syn_app (j : N) (c : eclass) : appid := {| aid := j; am := identity (slots (c_syn c)) |}.

Definition covd1b (s : egraph) (srcs : list N) (j : N) : bool :=
  match get_class s j with
  | Ok c => if existsb (N.eqb j) srcs then sinvb s (syn_app j c) (c_syn c) j
            else existsb (sinvb s (syn_app j c) (c_syn c)) srcs
  | Err _ => true end.

Definition covdb (s : egraph) : bool :=
  let srcs := srcs_of s in
  forallb (fun k => covd1b s srcs (N.of_nat k)) (seq 0 (List.length (classes s))).

(* ------------------------------------------------------------------ *)
(* instrumented copies of rebuild / eg_union / add_expr with an arbitrary check *)
Section Run.
  Variable chk : egraph -> bool.
  Fixpoint rebuild_c (fuel : nat) (acc : bool) : M bool :=
    match fuel with
    | O => fail OutOfFuel
    | S f =>
        dom p <- gets pending;
        match p with
        | [] => ret acc
        | (sh, ty) :: rest =>
            dom _ <- modify (fun s => set_pending s rest);
            dom _ <- handle_pending sh ty;
            dom c <- gets chk;
            rebuild_c f (if acc then c else false)
        end
    end.
  Definition eg_union_c (l r : appid) : M bool :=
    dom _ <- synify_app_id l; dom _ <- synify_app_id r; dom out <- uint l r;
    dom c <- gets chk; rebuild_c rebuild_fuel c.
  Definition mk_singleton_class_c (syn_enode : node) : M (appid * bool) :=
    let old_slots := slots syn_enode in
    dom fresh_to_old <- with_ctr (bijection_from_fresh_to old_slots);
    let old_to_fresh := inverse_nocheck fresh_to_old in
    let fresh_slots := values old_to_fresh in
    dom syn_fresh <- with_ctr (apply_slotmap_fresh false old_to_fresh syn_enode);
    dom i <- alloc_eclass fresh_slots syn_fresh;
    dom t <- Model.lift (wshape syn_fresh);
    dom _ <- raw_add_to_class i t i;
    dom _ <- pending_insert (fst t) true;
    dom c <- gets chk;
    dom c' <- rebuild_c rebuild_fuel c;
    ret ({| aid := i; am := fresh_to_old |}, c').
  Definition add_internal_c (t : node * slotmap) : M (appid * bool) :=
    dom lk <- reads (fun s => lookup_internal s t);
    match lk with
    | Some x => ret (x, true)
    | None =>
        dom en <- refresh_step (fst t);
        dom en <- Model.lift (apply_slotmap false (snd t) en);
        dom en <- synify_enode en;
        dom syn <- mk_singleton_class_c en;
        dom a <- reads (fun s => semify_app_id s (fst syn));
        ret (a, snd syn)
    end.
  Definition eg_add_c (n : node) : M (appid * bool) :=
    dom t <- reads (fun s => shape s n); add_internal_c t.
  Fixpoint add_expr_c (t : rterm) : M (appid * bool) :=
    match t with
    | RT n ch =>
        dom l <- (fix go (l : list rterm) : M (list appid * bool) :=
                    match l with
                    | [] => ret ([], true)
                    | c :: r => dom a <- add_expr_c c; dom r' <- go r; ret (fst a :: fst r', snd a && snd r')
                    end) ch;
        if Nat.ltb (List.length (app_occ n)) (List.length (fst l)) then fail OutOfBounds
        else dom a <- eg_add_c (set_apps n (fst l)); ret (fst a, snd l && snd a)
    end.
  Fixpoint run_c (terms : list rterm) (ops : list hop) (hs : list appid) (s : egraph) : bool :=
    match ops with
    | [] => true
    | o :: t =>
      let r := match o with
        | HAdd k => match nth_opt terms k with None => Err OutOfBounds
                    | Some tm => match add_expr_c tm s with Ok (a, s') => Ok (hs ++ [fst a], snd a, s') | Err e => Err e end end
        | HUnion i j _ => match nth_opt hs i, nth_opt hs j with
                    | Some a, Some b => match eg_union_c a b s with Ok (c, s') => Ok (hs, c, s') | Err e => Err e end
                    | _, _ => Err OutOfBounds end
        end in
      match r with
      | Err e => false
      | Ok (hs', c, s') => c && chk s' && run_c terms t hs' s'
      end
    end.
End Run.

Example covd_histories_checked : map (fun p => run_c covdb (fst p) (snd p) [] empty_egraph) rep_hists
  = [true; true; true; true; true; true; true; true; true; true; true; true; true; true; true].
Proof. vm_compute. reflexivity. Qed.

(* `synsep` (RepReachCond.v): no public slot of a syntactic node is named like one of its binders; same points *)
Definition synsepb (s : egraph) : bool :=
  forallb (fun c => forallb (fun z => negb (existsb (N.eqb z) (binders (c_syn c)))) (pub_occ (c_syn c))) (classes s).

Example synsep_histories_checked : map (fun p => run_c synsepb (fst p) (snd p) [] empty_egraph) rep_hists
  = [true; true; true; true; true; true; true; true; true; true; true; true; true; true; true].
Proof. vm_compute. reflexivity. Qed.

(* not vacuous: in the final states of 11 of the 15 histories some class is NOT the recorded source of any stored entry
   (its entry was dropped on a hash-cons hit), and is covered through another source *)
Definition allsrcb (s : egraph) : bool :=
  let srcs := srcs_of s in forallb (fun k => existsb (N.eqb (N.of_nat k)) srcs) (seq 0 (List.length (classes s))).
Example covd_not_vacuous :
  map (fun p => match run_ops (fst p) (snd p) [] empty_egraph with Ok (hs, s) => (allsrcb s, covdb s) | Err _ => (false, false) end) rep_hists
  = [(false, true); (true, true); (false, true); (false, true); (true, true); (false, true); (false, true); (false, true);
     (false, true); (false, true); (false, true); (false, true); (false, true); (true, true); (true, true)].
Proof. vm_compute. reflexivity. Qed.

Print Assumptions covd_histories_checked.
Print Assumptions synsep_histories_checked.
