(* EGraph/RepReachCond.v — the COVERING invariant `covd` (RepReachDefs.v) is kept by handle_pending, rebuild, eg_union,
   mk_singleton_class, add_internal, eg_add, add_expr and run_ops, CONDITIONALLY on the statements of Section CovCond
   (each a statement about one model function; they are theorems of RepReachTrans.v / RepReachHit.v / RepReachFwd.v and are
   discharged in RepReach.v). *)
From SE Require Import Slots.SlotMapFacts Group.GroupSound Lang.LangFacts Lang.ShapeFacts Lang.RenameFacts
  Slots.SlotFacts Base.TextFacts EGraph.Model EGraph.ModelFacts EGraph.ModelMachine EGraph.PendingFacts EGraph.UnionFindFacts
  EGraph.InvariantFacts EGraph.UnionInvariantFacts EGraph.AddCoversFacts EGraph.MonotoneFacts EGraph.HashconsShape
  EGraph.Mod4Facts EGraph.HashconsAbs EGraph.Model9 EGraph.HashconsFacts EGraph.NodeCong EGraph.KidEqFacts EGraph.ShapeCong
  EGraph.CongruenceFacts EGraph.SelfSymDefs EGraph.SelfSymCond EGraph.RepReachDefs.
From SE Require EGraph.SoundAddNew EGraph.SelfSymUnion EGraph.SelfSymReadd EGraph.SelfSymDss EGraph.SelfSymNew.
Require Import ZArith Lia ZifyBool ZifyN ZifyNat.

Local Notation "a ** b" := (compose_partial a b) (at level 40, left associativity).
Local Notation inv := inverse_nocheck.
Local Notation ectr := Model.ctr.

(* the closed forms of the section lemmas of SelfSymCond.v *)
Definition srcx_hp_loop_c := srcx_hp_loop SelfSymUnion.src_shrink_slots.
Definition srcx_hc_c := srcx_handle_congruence SelfSymUnion.src_uint SelfSymUnion.src_shrink_slots SelfSymReadd.src_readd SelfSymDss.dss_est.
Definition hp_main_c := hp_main SelfSymUnion.src_uint SelfSymUnion.src_shrink_slots SelfSymReadd.src_readd SelfSymDss.dss_est.
Definition rebuild_main_c := rebuild_main SelfSymUnion.src_uint SelfSymUnion.src_shrink_slots SelfSymReadd.src_readd SelfSymDss.dss_est.
Definition eg_union_main_c := eg_union_main SelfSymUnion.src_uint SelfSymUnion.src_shrink_slots SelfSymReadd.src_readd SelfSymDss.dss_est.
Definition gb_eg_add_c := gb_eg_add SelfSymUnion.src_uint SelfSymUnion.src_shrink_slots SelfSymReadd.src_readd SelfSymDss.dss_est SelfSymNew.src_new.

(* ------------------------------------------------------------------ *)
(* helpers *)

Lemma ext_back : forall s s' j c', ext s s' -> get_class s' j = Ok c' -> exists c, get_class s j = Ok c /\ c_syn c = c_syn c'.
Proof.
  intros s s' j c' (_ & Lc & F) Hc'. pose proof (get_class_lt _ _ _ Hc') as Lt.
  destruct (nth_opt_some_lt (classes s) (N.to_nat j)) as [c Ec]; [rewrite <- Lc; exact Lt|].
  assert (Hc : get_class s j = Ok c) by (unfold get_class; rewrite Ec; reflexivity).
  destruct (F j c Hc) as (c'' & Hc'' & _ & Es). rewrite Hc' in Hc''. inversion Hc''; subst c''. exists c. auto.
Qed.

(* the invariant along a step that keeps the classes with their syntactic nodes (none is added), keeps eg-equalities,
   and keeps the recorded sources up to the exception sets *)
Lemma covd_mext : forall (P Q : N -> Prop) s s', eg_inv s' -> mext s s' ->
  (forall src, srcs s src \/ P src -> srcs s' src \/ Q src) -> covd P s -> covd Q s'.
Proof.
  intros P Q s s' Hs' X FP C j c' Hc'. destruct (ext_back s s' j c' (proj1 X) Hc') as (c & Hc & Es).
  destruct (C j c Hc) as (src & A & S). exists src. split; [exact (FP src A)|].
  pose proof (srcok_inv_kmono s s' _ _ src (mext_kmono _ _ X) S) as S'. unfold syn_app in *. rewrite <- Es. exact S'.
Qed.

Lemma srcs_same : forall s s', (forall i y p, stored s i y p -> stored s' i y p) -> fps s s'.
Proof. intros s s' H src (i & sh & cb & S). exists i, sh, cb. apply H. exact S. Qed.

Lemma stored_ctr_only_fwd : forall s s' i y p, ctr_only s s' -> stored s i y p -> stored s' i y p.
Proof. intros s s' i y p [c ->] H. exact H. Qed.

(* no public slot of a syntactic node is named like one of its binders (true at the creation of a class: the public slots
   of the fresh syntactic node are fresh, its binders are older; kept by every step, which never changes c_syn) *)
Definition synsep (s : egraph) : Prop :=
  forall i c, get_class s i = Ok c -> forall z, In z (pub_occ (c_syn c)) -> ~ In z (binders (c_syn c)).

Lemma synsep_ext : forall s s', ext s s' -> synsep s -> synsep s'.
Proof.
  intros s s' X H i c' Hc'. destruct (ext_back s s' i c' X Hc') as (c & Hc & Es). rewrite <- Es. exact (H i c Hc).
Qed.

Section CovCond.
  (* T: transitivity of source coherence *)
  Hypothesis H_T : forall s a N1 src csrc src', inv3 s -> m4 s -> get_class s src = Ok csrc ->
    srcok_inv s a N1 src -> srcok_inv s (syn_app src csrc) (c_syn csrc) src' -> srcok_inv s a N1 src'.
  (* H: the hash-cons hit of handle_pending: the source of the dropped entry is coherent with the source of the hit entry *)
  Hypothesis H_hit : forall s src enode i1 t hit pc x s',
    inv3 s -> m4 s -> hce noex s -> srcx noex s ->
    srcok_inv s i1 enode src -> NoDup (binders enode) -> (exists n0, find_enode s n0 = Ok enode) ->
    shape s enode = Ok t -> lookup_internal s t = Ok (Some hit) ->
    pc_from_src_id s src = Ok pc -> handle_congruence pc s = Ok (x, s') ->
    (forall c, get_class s src = Ok c -> forall z, In z (pub_occ (c_syn c)) -> ~ In z (binders (c_syn c))) ->
    exists src2 c, srcs s src2 /\ get_class s' src = Ok c /\ srcok_inv s' (syn_app src c) (c_syn c) src2.
  (* F: recorded sources persist forwards through the union core and the composite operations of rebuild *)
  Hypothesis H_F_uint : forall l r s b s', hce TT s -> uint l r s = Ok (b, s') -> fps s s'.
  Hypothesis H_F_hp_loop : forall fuel src enode i s r s', hce TT s -> hp_loop fuel src enode i s = Ok (r, s') -> fps s s'.
  Hypothesis H_F_hc : forall pc s x s', hce TT s -> handle_congruence pc s = Ok (x, s') -> fps s s'.
  Hypothesis H_F_dss : forall src s x s', hce TT s -> determine_self_symmetries src s = Ok (x, s') -> fps s s'.

  Theorem hp_cov : forall sh ty s x s', inv3 s -> m4 s -> handle_pending sh ty s = Ok (x, s') ->
    hce (popped sh ty) s -> sse (popped sh ty) s -> srcx noex s -> synsep s -> covd nosrc s -> covd nosrc s'.
  Proof.
    intros sh ty s x s' I3 M H Hs SS SX SEP CV. unfold handle_pending in H.
    apply bind_reads_inv in H. destruct H as (i & _ & H).
    destruct ty; cbn [negb] in H.
    2:{ inversion H; subst. exact CV. }
    apply bind_reads_inv in H. destruct H as (c & Hc & H).
    apply mbind_inv in H. destruct H as ([bij0 src_id] & s9 & Hp & H). apply lift_inv in Hp. destruct Hp as [Hp ->].
    apply mbind_inv in H. destruct H as (nd & s9 & Hnd & H). apply lift_inv in Hnd. destruct Hnd as [Hnd ->].
    apply mbind_inv in H. destruct H as (u1 & sA & HA & H).
    pose proof (s_raw_remove _ _ _ _ _ HA) as SRA.
    pose proof (proj1 (h_raw_remove _ _ _ _ _ HA M)) as MA.
    assert (IA : inv3 sA).
    { destruct I3 as [Hs2 HN]. destruct (semR_step2 _ _ SRA Hs2) as [HsA EA].
      split; [exact HsA|eapply nodes_raw_remove; eauto]. }
    destruct (semR_step4 _ _ SRA (proj1 I3)) as [HsA XA].
    destruct (hce_raw_remove noex i sh s _ sA HA) as (HA' & _ & St0).
    { eapply hce_weaken; [|exact Hs]. intros y [-> _]. right. reflexivity. }
    destruct (raw_remove_views _ _ _ _ _ HA) as (_ & _ & PA & UA & NidA & NoA & _).
    assert (Old : forall j y q, stored sA j y q -> stored s j y q /\ y <> sh).
    { intros j y q S. unfold stored in *. destruct (N.eq_dec j i) as [->|Hj].
      - rewrite NidA in S. destruct (node_dec y sh) as [->|Ny].
        + rewrite na_get_remove_same in S by (apply (tb_cn s (proj1 Hs))). discriminate.
        + rewrite na_get_remove_other in S by assumption. auto.
      - rewrite (NoA j Hj) in S. split; [assumption|]. intros ->.
        pose proof (tb_bwd s (proj1 Hs) j sh q S) as B1. pose proof (tb_bwd s (proj1 Hs) i sh _ St0) as B2. congruence. }
    assert (SXA : srcx noex sA).
    { apply (srcx_semR noex s sA (proj1 I3) SRA); [|exact SX]. intros j y q S. exact (proj1 (Old _ _ _ S)). }
    assert (Eu1 : u1 = (bij0, src_id)).
    { unfold stored, cnodes in St0. rewrite Hc in St0. destruct (na_get (c_nodes c) sh); [|discriminate]. congruence. }
    subst u1.
    (* covering after the removal: the source of the popped entry is in flight *)
    assert (CVA : covd (eq src_id) sA).
    { apply (covd_mext nosrc (eq src_id) s sA (proj1 HsA) XA); [|exact CV].
      intros src [(j & y & cb & S)|[]]. destruct (node_dec y sh) as [->|Ny].
      - right. destruct (stored_fun s _ _ _ _ _ (proj1 Hs) S St0) as [_ Eq]. inversion Eq. reflexivity.
      - left. exists j, y, cb. unfold stored in *. destruct (N.eq_dec j i) as [->|Hj].
        + rewrite NidA, na_get_remove_other by assumption. exact S.
        + rewrite (NoA j Hj). exact S. }
    assert (ND : NoDup (binders nd)).
    { destruct (tb_ws s (proj1 Hs) _ _ _ St0) as (n9 & b9 & W9). rewrite (apply_slotmap_ren _ _ _ Hnd), ren_binders.
      unfold asm_g. rewrite map_id. eapply ws_binders_nodup; eauto. }
    apply bind_reads_inv in H. destruct H as (sl & Hsl & H). cbv zeta in H.
    apply bind_reads_inv in H. destruct H as (enode0 & Hen & H).
    apply bind_reads_inv in H. destruct H as (i0 & Hi0 & H).
    unfold class_slots in Hsl. destruct (get_class sA i) as [cA|] eqn:HcA; cbn [bind] in Hsl; [|discriminate].
    inversion Hsl; subst sl; clear Hsl.
    pose proof (covers_lcanon sA _ i0 (proj1 (proj1 IA)) (covers_identity sA i cA HcA) Hi0) as L0.
    assert (FlA : srcok_inv sA i0 enode0 src_id).
    { destruct (SX i sh bij0 src_id St0) as [[]|(c1 & N1 & Hc1 & A1 & S1)].
      rewrite Hnd in A1. inversion A1; subst N1; clear A1.
      destruct (proj2 (proj2 (proj1 XA)) i c1 Hc1) as (c1' & Hc1' & Inc & _). rewrite HcA in Hc1'. inversion Hc1'; subst c1'.
      apply (flight_find sA {| aid := i; am := identity (c_slots cA) |} nd src_id enode0 i0 (proj1 HsA)); [|exact Hen|exact Hi0].
      destruct (srcok_inv_kmono s sA _ nd src_id (mext_kmono _ _ XA) S1) as (csrc & g & l & Hcs & Rk & EN & F & K).
      exists csrc, g, l. repeat (split; [assumption|]). eapply kid_eq_id_shrink; eauto. exact (proj1 HsA). }
    apply mbind_inv in H. destruct H as ([enode i1] & sB & HB & H).
    destruct (h_hp_loop _ _ _ _ (find_K1 _ _ _ MA Hi0) _ _ _ HB MA) as [MB Ki1]. cbn [snd] in Ki1.
    destruct (inv3_hp_loop _ _ _ _ _ _ _ IA L0 (ex_intro _ nd Hen) HB) as (IB & EB & L1 & Fn & Sub). cbn [fst snd] in *.
    pose proof (hce_hp_loop _ _ _ _ _ _ _ _ HB HA') as HB'.
    destruct (inv4_hp_loop _ _ _ _ _ _ _ HB HsA) as [HsB XB].
    pose proof (flight_hp_loop _ src_id _ _ _ _ _ _ HsA FlA HB) as FlB. cbn [fst snd] in FlB.
    pose proof (srcx_hp_loop_c noex _ _ _ _ _ _ _ IA MA (proj1 HA') HB SXA) as SXB.
    assert (CVB : covd (eq src_id) sB).
    { apply (covd_mext (eq src_id) (eq src_id) sA sB (proj1 HsB) XB); [|exact CVA].
      intros src [A|A]; [left; exact (H_F_hp_loop _ _ _ _ _ _ _ (hce_TT _ _ HA') HB src A)|right; exact A]. }
    assert (NDe : NoDup (binders enode)).
    { pose proof (hp_loop_binders _ _ _ _ _ _ _ HB) as Q. cbn [fst] in Q. rewrite Q, (find_enode_binders _ _ _ Hen). exact ND. }
    apply bind_reads_inv in H. destruct H as (t & Ht & H).
    apply bind_reads_inv in H. destruct H as (lk & Hlk & H).
    destruct lk as [hit|].
    - apply bind_reads_inv in H. destruct H as (pc & P & H).
      destruct (inv4_handle_congruence _ _ _ _ _ HsB P H) as [Hs' X'].
      destruct (inv3_handle_congruence _ _ _ _ _ IB P H) as [I' _].
      pose proof (proj1 (h_handle_congruence _ _ _ _ H MB)) as M'.
      pose proof (H_F_hc _ _ _ _ (hce_TT _ _ HB') H) as FP.
      pose proof (synsep_ext sA sB (proj1 XB) (synsep_ext s sA (proj1 XA) SEP)) as SEPB.
      destruct (H_hit sB src_id enode i1 t hit pc x s' IB MB HB' SXB FlB NDe Fn Ht Hlk P H (fun c0 Hc0 => SEPB src_id c0 Hc0)) as (src2 & c2 & S2 & Hc2 & R2).
      assert (CV' : covd (eq src_id) s').
      { apply (covd_mext (eq src_id) (eq src_id) sB s' (proj1 Hs') X'); [|exact CVB].
        intros src [A|A]; [left; exact (FP src A)|right; exact A]. }
      intros j c' Hc'. destruct (CV' j c' Hc') as (src & [A|A] & S); [exists src; split; [left; exact A|exact S]|].
      subst src. exists src2. split; [left; exact (FP src2 S2)|].
      exact (H_T s' _ _ src_id c2 src2 I' M' Hc2 S R2).
    - destruct t as [sh' bij].
      apply mbind_inv in H. destruct H as (m & sC & Hm & H).
      change (fill_fresh (values bij) (inv (am i1)) sB = Ok (m, sC)) in Hm. cbv zeta in H.
      apply mbind_inv in H. destruct H as (u2 & sD & HD & H).
      pose proof (lookup_none_absent _ _ _ Hlk) as Abs.
      assert (Ws' : is_ws sh').
      { unfold shape in Ht. destruct (pre_shape sB enode) as [p9|]; cbn [bind] in Ht; [|discriminate]. exists p9, bij. exact Ht. }
      destruct (fill_fresh_spec _ _ _ _ _ (inverse_wf (am i1)) Hm) as (_ & _ & _ & (cC & EC)).
      assert (COC : ctr_only sB sC) by (exists cC; exact EC).
      pose proof (hce_ctr_only noex sB sC COC HB') as HC'.
      assert (AbsC : na_get (hashcons sC) sh' = None) by (rewrite EC; exact Abs).
      destruct (hce_raw_add noex (aid i1) sh' (bij ** m) src_id sC u2 sD AbsC Ws' HD HC') as [HD' StD].
      destruct (semR_step4 _ _ (s_fill_fresh _ _ _ _ _ Hm) HsB) as [HsC XC].
      destruct (semR_step4 _ _ (s_raw_add _ _ _ _ _ _ HD) HsC) as [HsD XD].
      destruct (raw_add_views _ _ _ _ _ _ _ HD) as (_ & _ & UD & NidD & NoD & _ & _).
      assert (CVC : covd (eq src_id) sC).
      { apply (covd_mext (eq src_id) (eq src_id) sB sC (proj1 HsC) XC); [|exact CVB].
        intros src [A|A]; [left|right; exact A]. exact (srcs_same sB sC (fun j y q => stored_ctr_only_fwd sB sC j y q COC) src A). }
      assert (CVD : covd nosrc sD).
      { apply (covd_mext (eq src_id) nosrc sC sD (proj1 HsD) XD); [|exact CVC].
        intros src [(j & y & cb & S)|A]; left.
        - assert (Ny : y <> sh').
          { intros ->. pose proof (tb_bwd sC (proj1 HC') _ _ _ S) as B. congruence. }
          exists j, y, cb. unfold stored in *. destruct (N.eq_dec j (aid i1)) as [->|Hj].
          + rewrite NidD, na_get_set_other by exact Ny. exact S.
          + rewrite (NoD j Hj). exact S.
        - subst src. exists (aid i1), sh', (bij ** m). exact StD. }
      destruct (inv4_determine_self_symmetries _ _ _ _ H HsD) as [Hs' X'].
      apply (covd_mext nosrc nosrc sD s' (proj1 Hs') X'); [|exact CVD].
      intros src [A|[]]. left. exact (H_F_dss _ _ _ _ (hce_TT _ _ HD') H src A).
  Qed.

  Theorem rebuild_cov : forall fuel s x s', inv3 s -> m4 s -> rebuild fuel s = Ok (x, s') -> hc_ok s -> sse noex s -> srcx noex s ->
    synsep s -> covd nosrc s -> covd nosrc s'.
  Proof.
    induction fuel as [|f IH]; intros s x s' I3 M H Hs SS SX SEP CV; [discriminate H|]. rewrite rebuild_S in H.
    apply mbind_inv in H. destruct H as (p & s0 & Hp & H). inversion Hp; subst p s0; clear Hp.
    destruct (pending s) as [|[sh ty] rest] eqn:Ep; [inversion H; subst; assumption|].
    apply mbind_inv in H. destruct H as (u1 & s1 & H1 & H).
    apply mbind_inv in H. destruct H as (u2 & s2 & H2 & H).
    destruct (s_modify_pend' (fun _ => rest) _ _ _ H1) as [A1 B1].
    assert (I1 : inv3 s1) by exact (proj1 (semn_step3 _ _ A1 B1 I3)).
    destruct (semR_step4 _ _ A1 (proj1 I3)) as [G1 X1].
    pose proof (proj1 (h_set_pending (fun _ => rest) _ _ _ H1 M)) as M1.
    inversion H1; subst u1 s1; clear H1.
    assert (Hs1 : hce (popped sh ty) (set_pending s rest)).
    { destruct Hs as [T C]. split; [eapply tab_ok_same; [|exact T]; repeat split|].
      intros i y p S. change (stored s i y p) in S. destruct (C i y p S) as [A|[A|[]]].
      - rewrite Ep in A. cbn [na_get] in A. destruct (node_eqb y sh) eqn:Ey.
        + apply node_eqb_iff in Ey. inversion A; subst. right. right. split; reflexivity.
        + left. exact A.
      - right. left. eapply canon_frame; [|exact A]. intros j _. split; reflexivity. }
    assert (SS1 : sse (popped sh ty) (set_pending s rest)).
    { intros i y cb src S. change (stored s i y (cb, src)) in S. destruct (SS i y cb src S) as [A|[[]|A]].
      - unfold pendT in A. rewrite Ep in A. cbn [na_get] in A. destruct (node_eqb y sh) eqn:Ey.
        + apply node_eqb_iff in Ey. inversion A; subst. right. left. split; reflexivity.
        + left. exact A.
      - right. right. exact A. }
    assert (SX1 : srcx noex (set_pending s rest)).
    { intros i y cb src S. change (stored s i y (cb, src)) in S. destruct (SX i y cb src S) as [[]|A]. right. exact A. }
    assert (CV1 : covd nosrc (set_pending s rest)).
    { apply (covd_mext nosrc nosrc s _ (proj1 G1) X1); [|exact CV]. intros src [A|[]]. left. exact A. }
    destruct (hp_main_c _ _ _ _ _ I1 M1 H2 Hs1 SS1 SX1) as [SS2 SX2].
    pose proof (synsep_ext s _ (proj1 X1) SEP) as SEP1.
    pose proof (hp_cov _ _ _ _ _ I1 M1 H2 Hs1 SS1 SX1 SEP1 CV1) as CV2.
    pose proof (proj1 (h_handle_pending _ _ _ _ _ H2 M1)) as M2.
    pose proof (hc_ok_handle_pending _ _ _ _ _ I1 H2 Hs1) as Hs2.
    destruct (inv3_handle_pending pre_shape_keeps_proved _ _ _ _ _ H2 I1) as [I2 E2].
    pose proof (synsep_ext _ s2 E2 SEP1) as SEP2.
    eapply IH; eauto.
  Qed.

  Theorem eg_union_cov : forall l r s b s', inv3 s -> m4 s -> covers s l -> covers s r ->
    eg_union l r s = Ok (b, s') -> hc_ok s -> sse noex s -> srcx noex s -> synsep s -> covd nosrc s -> covd nosrc s'.
  Proof.
    intros l r s b s' I3 M Cl Cr H Hs SS SX SEP CV. unfold eg_union in H.
    apply mbind_inv in H. destruct H as (l1 & s1 & H1 & H).
    destruct (semn_step3 _ _ (s_synify_app_id _ _ _ _ H1) (n_synify_app_id _ _ _ _ H1) I3) as [Hs1 E1].
    apply mbind_inv in H. destruct H as (r1 & s2 & H2 & H).
    destruct (semn_step3 _ _ (s_synify_app_id _ _ _ _ H2) (n_synify_app_id _ _ _ _ H2) Hs1) as [Hs2 E2].
    pose proof (ext_trans _ _ _ E1 E2) as E02.
    assert (CO1 : ctr_only s s1).
    { apply (pres_synify_app_id ctr_only ctr_only_refl ctr_only_trans) in H1; [assumption|].
      intros s0 y s0' H0. inversion H0. eexists; reflexivity. }
    assert (CO2 : ctr_only s1 s2).
    { apply (pres_synify_app_id ctr_only ctr_only_refl ctr_only_trans) in H2; [assumption|].
      intros s0 y s0' H0. inversion H0. eexists; reflexivity. }
    pose proof (hce_synify_app_id _ _ _ _ _ H1 Hs) as T1. pose proof (hce_synify_app_id _ _ _ _ _ H2 T1) as T2.
    destruct (semR_step4 _ _ (s_synify_app_id _ _ _ _ H1) (proj1 I3)) as [G1 X1].
    destruct (semR_step4 _ _ (s_synify_app_id _ _ _ _ H2) G1) as [G2 X2].
    assert (SS2 : sse noex s2).
    { apply (sse_via _ s1 s2 Hs1 (proj1 T1) G2 X2); [apply (frx_ctr_only noex s1 s1 s2 CO2), frx_refl|].
      apply (sse_via _ s s1 I3 (proj1 Hs) G1 X1); [apply (frx_ctr_only noex s s s1 CO1), frx_refl|exact SS]. }
    assert (SX2 : srcx noex s2).
    { apply (srcx_semR noex s1 s2 G1 (s_synify_app_id _ _ _ _ H2)); [intros j y q; apply stored_ctr_only; exact CO2|].
      apply (srcx_semR noex s s1 (proj1 I3) (s_synify_app_id _ _ _ _ H1)); [intros j y q; apply stored_ctr_only; exact CO1|exact SX]. }
    assert (CV2 : covd nosrc s2).
    { apply (covd_mext nosrc nosrc s1 s2 (proj1 G2) X2).
      { intros src [A|[]]. left. exact (srcs_same s1 s2 (fun j y q => stored_ctr_only_fwd s1 s2 j y q CO2) src A). }
      apply (covd_mext nosrc nosrc s s1 (proj1 G1) X1); [|exact CV].
      intros src [A|[]]. left. exact (srcs_same s s1 (fun j y q => stored_ctr_only_fwd s s1 j y q CO1) src A). }
    apply mbind_inv in H. destruct H as (out & s3 & H3 & H).
    pose proof (covers_ext _ _ _ E02 Cl) as Cl2. pose proof (covers_ext _ _ _ E02 Cr) as Cr2.
    destruct (inv3_uint _ _ _ _ _ Hs2 Cl2 Cr2 H3) as [Hs3 E3].
    apply mbind_inv in H. destruct H as (u & s4 & H4 & H). inversion H; subst b s4; clear H.
    pose proof (proj1 (h_synify_app_id _ _ _ _ H2 (proj1 (h_synify_app_id _ _ _ _ H1 M)))) as M2.
    destruct (inv4_uint _ _ _ _ _ (proj1 (proj1 Hs2)) Cl2 Cr2 H3) as (G3 & X3 & _).
    assert (CV3 : covd nosrc s3).
    { apply (covd_mext nosrc nosrc s2 s3 G3 X3); [|exact CV2].
      intros src [A|[]]. left. exact (H_F_uint _ _ _ _ _ (hce_TT _ _ T2) H3 src A). }
    pose proof (synsep_ext s2 s3 E3 (synsep_ext s s2 E02 SEP)) as SEP3.
    eapply rebuild_cov; [exact Hs3|exact (proj1 (h_uint _ _ _ _ _ H3 M2))|exact H4|eapply hce_uint; eauto| | |exact SEP3|exact CV3].
    - exact (sse_uint noex _ _ _ _ _ Hs2 (proj1 T2) Cl2 Cr2 H3 SS2).
    - exact (SelfSymUnion.src_uint noex _ _ _ _ _ Hs2 M2 (proj1 T2) Cl2 Cr2 H3 SX2).
  Qed.

  (* R: the class created by mk_singleton_class is coherent with itself, right after its entry is stored *)
  Hypothesis H_refl : forall en s f2o c2 synf s3 sh bij s4 c4,
    inv3 s -> m4 s -> Forall (fun b => b < ectr s) (binders en) ->
    bijection_from_fresh_to (slots en) (ectr s) = (f2o, c2) ->
    apply_slotmap_fresh false (inv f2o) en c2 = (synf, c2) ->
    alloc_eclass (values (inv f2o)) synf (set_ctr (set_ctr s c2) c2) = Ok (N.of_nat (lc s), s3) ->
    wshape synf = Ok (sh, bij) ->
    raw_add_to_class (N.of_nat (lc s)) (sh, bij) (N.of_nat (lc s)) s3 = Ok (tt, s4) -> inv3 s4 ->
    srcok s4 (N.of_nat (lc s)) sh bij (N.of_nat (lc s)) ->
    get_class s4 (N.of_nat (lc s)) = Ok c4 ->
    srcok_inv s4 (syn_app (N.of_nat (lc s)) c4) (c_syn c4) (N.of_nat (lc s)).

  Lemma mk_singleton_cov : forall en s a s', inv3 s -> m4 s -> Forall (fun b => b < ectr s) (binders en) -> hc_ok s ->
    sse noex s -> srcx noex s -> synsep s -> covd nosrc s ->
    (forall f2o c2 synf c3 sh0 b0, bijection_from_fresh_to (slots en) (ectr s) = (f2o, c2) ->
       apply_slotmap_fresh false (inv f2o) en c2 = (synf, c3) -> wshape synf = Ok (sh0, b0) ->
       na_get (hashcons s) sh0 = None) ->
    (forall f2o c2 synf s3 sh bij s4, bijection_from_fresh_to (slots en) (ectr s) = (f2o, c2) ->
       apply_slotmap_fresh false (inv f2o) en c2 = (synf, c2) ->
       alloc_eclass (values (inv f2o)) synf (set_ctr (set_ctr s c2) c2) = Ok (N.of_nat (lc s), s3) ->
       wshape synf = Ok (sh, bij) -> raw_add_to_class (N.of_nat (lc s)) (sh, bij) (N.of_nat (lc s)) s3 = Ok (tt, s4) ->
       inv3 s4 -> srcok s4 (N.of_nat (lc s)) sh bij (N.of_nat (lc s))) ->
    mk_singleton_class en s = Ok (a, s') -> covd nosrc s' /\ synsep s'.
  Proof.
    intros en s a s' I3 M Hb Hs SS SX SEP CV Abs New H.
    destruct (SoundAddNew.mk_singleton_walk _ _ _ _ I3 Hb H)
      as (f2o & c2 & synf & s3 & sh & bij & s4 & s5 & BF & ASF & AL & Hsh & RA & PI & RB & Ea & I2 & I3a & E23 & I4 & E34 & I5 & E45 & I6 & E56).
    cbv zeta in *. set (i := N.of_nat (lc s)) in *. set (s2 := set_ctr (set_ctr s c2) c2) in *.
    pose proof (bijection_from_fresh_to_step (slots en) (ectr s)) as St. rewrite BF in St. cbn [snd] in St. apply ctr_step_le in St.
    assert (S02 : semR s s2).
    { split; [|unfold s2; cbn [Model.ctr set_ctr]; lia]. split; reflexivity. }
    assert (CO2 : ctr_only s s2) by (exists c2; reflexivity).
    pose proof (hce_ctr_only noex s s2 CO2 Hs) as Hs2.
    destruct (semR_step4 _ _ S02 (proj1 I3)) as [G2 X02].
    pose proof (sse_via _ s s2 I3 (proj1 Hs) G2 X02 (frx_ctr_only noex s s s2 CO2 (frx_refl noex s)) SS) as SS2.
    assert (SX2 : srcx noex s2).
    { apply (srcx_semR noex s s2 (proj1 I3) S02); [|exact SX]. intros j y q. apply stored_ctr_only. exact CO2. }
    assert (CV2 : covd nosrc s2).
    { apply (covd_mext nosrc nosrc s s2 (proj1 G2) X02); [|exact CV].
      intros src [A|[]]. left. exact (srcs_same s s2 (fun j y q => stored_ctr_only_fwd s s2 j y q CO2) src A). }
    destruct (alloc_facts _ _ _ _ _ (proj1 G2) (proj1 Hs2) AL) as (F23 & Q23 & CP23 & Sub23).
    assert (W2 : eg_wf s2) by exact (uso_wf _ (ei_slots _ (proj1 G2))).
    destruct (hce_alloc noex _ _ _ _ _ W2 AL Hs2) as (Hs3 & Hh3 & _).
    pose proof (sse_step noex s2 s3 I2 (proj1 Hs2) (proj1 (proj1 I3a)) CP23 Q23 F23 SS2) as SS3.
    assert (KM23 : kmono s2 s3).
    { split; [intros x y; apply kid_eq_mono0; assumption|exact CP23]. }
    assert (SX3 : srcx noex s3).
    { apply (srcx_kmono noex s2 s3 (proj1 (proj1 I3a))); [exact KM23|intros j y q S; right; apply Sub23; exact S|exact SX2]. }
    assert (Abs3 : na_get (hashcons s3) sh = None).
    { rewrite Hh3. unfold s2. cbn [hashcons set_ctr]. exact (Abs _ _ _ _ _ _ BF ASF Hsh). }
    destruct (hce_raw_add noex i sh bij i s3 tt s4 Abs3 (ex_intro _ synf (ex_intro _ bij Hsh)) RA Hs3) as [Hs4 St4].
    destruct (semR_step4 _ _ (s_raw_add _ _ _ _ _ _ RA) (proj1 I3a)) as [G4 X34].
    destruct (semR_step4 _ _ (s_pending_insert _ _ _ _ _ PI) G4) as [G5 X45].
    pose proof (hce_pending_insert noex sh s4 tt s5 PI Hs4) as Hs5.
    pose proof (frx_pending_insert noex s3 sh s4 tt s5 PI (frx_raw_add noex s3 i sh bij i s3 tt s4 RA (frx_refl noex s3))) as F35.
    pose proof (sse_via noex s3 s5 I3a (proj1 Hs3) G5 (mext_trans _ _ _ X34 X45) F35 SS3) as SS5.
    destruct (raw_add_views _ _ _ _ _ _ _ RA) as (_ & _ & _ & Nid4 & No4 & _ & _).
    assert (SX4 : srcx noex s4).
    { intros j y cb src S. right. destruct (node_dec y sh) as [->|Ny].
      - destruct (stored_fun s4 _ _ _ _ _ (proj1 Hs4) S St4) as [-> Eq]. inversion Eq; subst cb src.
        exact (New f2o c2 synf s3 sh bij s4 BF ASF AL Hsh RA I4).
      - assert (S3 : stored s3 j y (cb, src)).
        { unfold stored in *. destruct (N.eq_dec j i) as [->|Hj].
          - rewrite Nid4, na_get_set_other in S by exact Ny. exact S.
          - rewrite (No4 j Hj) in S. exact S. }
        destruct (SX3 j y cb src S3) as [[]|A]. exact (srcok_kmono s3 s4 j y cb src (proj1 G4) (mext_kmono _ _ X34) A). }
    assert (SX5 : srcx noex s5).
    { apply (srcx_semR noex s4 s5 G4 (s_pending_insert _ _ _ _ _ PI)); [|exact SX4]. intros j y q S. inversion PI; subst s5. exact S. }
    (* the covering invariant after the entry of the new class is stored *)
    destruct (alloc_eclass_exact _ _ _ _ _ AL) as (Hi & U & C & _).
    assert (CV4 : covd nosrc s4).
    { intros j c4 Hc4. destruct (N.eq_dec j i) as [->|Hj].
      - exists i. split; [left; exists i, sh, bij; exact St4|].
        exact (H_refl en s f2o c2 synf s3 sh bij s4 c4 I3 M Hb BF ASF AL Hsh RA I4 (New f2o c2 synf s3 sh bij s4 BF ASF AL Hsh RA I4) Hc4).
      - destruct (ext_back s3 s4 j c4 E34 Hc4) as (c3 & Hc3 & Es3).
        assert (Old : get_class s3 j = get_class s2 j).
        { unfold get_class. rewrite C, nth_opt_app_other; [reflexivity|]. unfold i in Hj. unfold s2. cbn [classes set_ctr]. lia. }
        rewrite Old in Hc3. destruct (CV2 j c3 Hc3) as (src & [A|[]] & S). exists src. split.
        + left. destruct A as (j' & y & cb & S2). destruct (stored_get _ _ _ _ S2) as (cj & Hcj & Gj).
          pose proof (get_class_ext_old s2 s3 _ C j' cj Hcj) as Hcj3.
          assert (S3 : stored s3 j' y (cb, src)) by (unfold stored, cnodes; rewrite Hcj3; exact Gj).
          assert (Ny : y <> sh).
          { intros ->. pose proof (tb_bwd s3 (proj1 Hs3) _ _ _ S3) as B. congruence. }
          exists j', y, cb. unfold stored in *. destruct (N.eq_dec j' i) as [->|Hj'].
          * rewrite Nid4, na_get_set_other by exact Ny. exact S3.
          * rewrite (No4 j' Hj'). exact S3.
        + pose proof (srcok_inv_kmono s3 s4 _ _ src (mext_kmono _ _ X34) (srcok_inv_kmono s2 s3 _ _ src KM23 S)) as S4.
          unfold syn_app in *. rewrite <- Es3. exact S4. }
    assert (CV5 : covd nosrc s5).
    { apply (covd_mext nosrc nosrc s4 s5 (proj1 G5) X45); [|exact CV4].
      intros src [(j & y & cb & S)|[]]. left. exists j, y, cb. inversion PI; subst s5. exact S. }
    pose proof (proj1 (h_mk_prefix en _ _ _ (mk_prefix_run en s f2o c2 synf i s3 sh bij s4 s5 BF ASF AL Hsh RA PI) M)) as M5.
    assert (SEP5 : synsep s5).
    { apply (synsep_ext s4 s5 E45). apply (synsep_ext s3 s4 E34).
      intros j c3 Hc3 z Hz Hbn. destruct (get_class_ext_inv s2 s3 _ C j c3 Hc3) as [Hc2|[_ ->]].
      - exact (synsep_ext s s2 (proj1 X02) SEP j c3 Hc2 z Hz Hbn).
      - cbn [c_syn] in Hz, Hbn.
        pose proof (fresh_rename_spec en (ectr s) f2o c2 Hb BF) as R. cbv zeta in R. rewrite ASF in R. cbn [fst snd] in R.
        destruct R as (_ & _ & Bif & _ & _ & Pb & _). rewrite Bif in Hbn.
        pose proof (proj1 (Forall_forall _ _) Hb z Hbn) as T. cbv beta in T. destruct (Pb z Hz) as [T2 _]. lia. }
    split; [exact (rebuild_cov _ _ _ _ I5 M5 RB Hs5 SS5 SX5 SEP5 CV5)|exact (synsep_ext s5 s' E56 SEP5)].
  Qed.

  Theorem add_internal_cov : forall n t s a s', inv3 s -> m4 s -> pending s = [] -> hc_ok s -> ectr s mod 4 = 1 -> node_pre s n ->
    shape s n = Ok t -> sse noex s -> srcx noex s -> synsep s -> covd nosrc s -> add_internal t s = Ok (a, s') -> covd nosrc s' /\ synsep s'.
  Proof.
    intros n t s a s' I3 M Pe Hs C4 NP Hsh SS SX SEP CV H. pose proof NP as (Cv & Pn & ND).
    destruct (lookup_internal s t) as [[hit|]|e] eqn:Hlk.
    - unfold add_internal, mbind, reads in H. rewrite Hlk in H. inversion H; subst. split; assumption.
    - destruct (SoundAddNew.add_internal_walk _ _ _ _ I3 Hlk H) as (en1 & c1 & en2 & en3 & s3 & syn & RP & H2 & H3 & H4 & Sm & I1 & E01 & I3' & E13 & Hb).
      cbv zeta in *. set (s1 := set_ctr s c1) in *.
      pose proof (refresh_private_step (fst t) (ectr s)) as St1. rewrite RP in St1. cbn [snd] in St1. pose proof St1 as St1c. apply ctr_step_le in St1.
      assert (S01 : semR s s1) by (split; [apply sem_set_ctr|unfold s1; cbn [Model.ctr set_ctr]; lia]).
      assert (CO1 : ctr_only s s1) by (exists c1; reflexivity).
      assert (CO3 : ctr_only s1 s3).
      { apply (pres_synify_enode ctr_only ctr_only_refl ctr_only_trans) in H3; [assumption|].
        intros s0 y s0' H0. inversion H0. eexists; reflexivity. }
      pose proof (ctr_only_trans _ _ _ CO1 CO3) as CO.
      assert (Hs3 : hc_ok s3) by (eapply hce_ctr_only; [exact CO|exact Hs]).
      assert (Hh3 : hashcons s3 = hashcons s).
      { destruct (ctr_only_fields _ _ CO) as (_ & _ & A & _). exact A. }
      destruct (semR_step4 _ _ S01 (proj1 I3)) as [G1 X01].
      destruct (semR_step4 _ _ (s_synify_enode _ _ _ _ H3) G1) as [G3 X13].
      pose proof (sse_via _ s s3 I3 (proj1 Hs) G3 (mext_trans _ _ _ X01 X13) (frx_ctr_only noex s s s3 CO (frx_refl noex s)) SS) as SS3.
      assert (SX3 : srcx noex s3).
      { apply (srcx_kmono noex s s3 (proj1 G3) (mext_kmono _ _ (mext_trans _ _ _ X01 X13))); [|exact SX].
        intros j y q S. right. exact (stored_ctr_only _ _ _ _ _ CO S). }
      assert (CV3 : covd nosrc s3).
      { apply (covd_mext nosrc nosrc s s3 (proj1 G3) (mext_trans _ _ _ X01 X13)); [|exact CV].
        intros src [A|[]]. left. exact (srcs_same s s3 (fun j y q => stored_ctr_only_fwd s s3 j y q CO) src A). }
      destruct (refresh_private_spec _ _ _ _ RP) as (_ & Bi1 & _).
      assert (M3 : m4 s3).
      { apply (proj1 (h_synify_enode _ _ _ _ H3 (m4_set_ctr s c1 M (ok1_step _ _ (proj1 M) St1c)))). }
      eapply (mk_singleton_cov en3 s3 syn s' I3' M3 Hb Hs3 SS3 SX3 (synsep_ext s1 s3 E13 (synsep_ext s s1 E01 SEP)) CV3); [| |exact H4].
      + intros f2o c2 synf c3 sh0 b0 BF ASF Hw. rewrite Hh3.
        eapply (add_shape_absent_nodup s n t en1 c1 en2 en3 s3); eauto.
        * intros sh i Hi. destruct (tb_fwd s (proj1 Hs) sh i Hi) as [p Sp].
          destruct (proj2 Hs i sh p Sp) as [A|[A|[]]]; [rewrite Pe in A; discriminate|exact (proj2 A)].
        * destruct t as [sht bt]. eapply lookup_none_absent; eauto.
      + intros f2o c2 synf s3a sh bij s4 BF ASF AL Hw RA I4.
        exact (SelfSymNew.src_new n t s en1 c1 en2 en3 s3 f2o c2 synf s3a sh bij s4 I3 M Pe Hs C4 NP Hsh Hlk RP H2 H3 BF ASF AL Hw RA I4).
    - unfold add_internal, mbind, reads in H. rewrite Hlk in H. discriminate.
  Qed.

  (* the bundle of invariants of the states between operations *)
  Definition gd (s : egraph) : Prop := gb s /\ covd nosrc s.

  Theorem gd_eg_add : forall n s a s', gd s -> synsep s -> node_pre s n -> eg_add n s = Ok (a, s') -> gd s' /\ synsep s'.
  Proof.
    intros n s a s' [B CV] SEP NP H. pose proof (gb_eg_add_c n s a s' B NP H) as B'.
    destruct B as ((I1 & P1 & Hs1 & M1) & SS & SX).
    unfold eg_add in H. apply bind_reads_inv in H. destruct H as (t & Ht & H).
    destruct (add_internal_cov n t s a s' I1 M1 P1 Hs1 (proj1 M1) NP Ht SS SX SEP CV H) as [CV' SEP'].
    split; [split; assumption|exact SEP'].
  Qed.

  Theorem gd_eg_union : forall l r s u s', gd s -> synsep s -> covers s l -> covers s r -> eg_union l r s = Ok (u, s') -> gd s' /\ synsep s'.
  Proof.
    intros l r s u s' [((I3 & Pe & Hs & M) & SS & SX) CV] SEP Cl Cr H.
    destruct (eg_union_inv3 l r s u s' I3 Cl Cr H) as [I1 E1].
    split; [|exact (synsep_ext s s' E1 SEP)].
    split; [split|].
    - split; [exact I1|]. split; [exact (eg_union_drains l r s u s' H)|].
      split; [exact (hc_ok_eg_union l r s u s' I3 Cl Cr H Hs)|exact (proj1 (h_eg_union _ _ _ _ _ H M))].
    - exact (eg_union_main_c l r s u s' I3 M Cl Cr H Hs SS SX).
    - exact (eg_union_cov l r s u s' I3 M Cl Cr H Hs SS SX SEP CV).
  Qed.

  Lemma gd_empty : gd empty_egraph.
  Proof.
    split; [exact gb_empty|]. intros j c Hc. unfold get_class in Hc. cbn [classes empty_egraph] in Hc.
    destruct (N.to_nat j); discriminate.
  Qed.
  Lemma synsep_empty : synsep empty_egraph.
  Proof. intros i c Hc. unfold get_class in Hc. cbn [classes empty_egraph] in Hc. destruct (N.to_nat i); discriminate. Qed.
End CovCond.
