(* EGraph/RepReachDefs.v — definitions for the FORWARD persistence of stored e-nodes (EGraph/RepReach.v).

   `srcs s src`   : src is the recorded source of some stored entry of s.
   `syn_app j c`  : the invocation j[identity (slots (c_syn c))] of class j on the slots of its syntactic node.
   `covd P s`     : THE COVERING INVARIANT.  For every class j (live or dead) there is a source src, recorded by some
                    stored entry of s (or in the exception set P: the source of the entry in flight inside
                    handle_pending), such that the syntactic node of j is the syntactic node of src renamed, with
                    eg-equal children, and j[identity] is eg-equal to src[that renaming]
                    (`srcok_inv s (syn_app j c) (c_syn c) src`, SelfSymDefs.v).  No pending exemption.
   `fps s s'`     : recorded sources persist FORWARDS.
   Validated executably after every handle_pending step / union_internal / at the entry of every rebuild of the 15
   histories of RepFacts.v: EGraph/RepReachCheck.v (`covd_histories_checked`). *)
From SE Require Import Slots.SlotMapFacts Group.GroupSound Lang.LangFacts Lang.ShapeFacts Lang.RenameFacts
  Slots.SlotFacts Base.TextFacts EGraph.Model EGraph.ModelFacts EGraph.ModelMachine EGraph.PendingFacts EGraph.UnionFindFacts
  EGraph.InvariantFacts EGraph.UnionInvariantFacts EGraph.AddCoversFacts EGraph.MonotoneFacts EGraph.HashconsShape
  EGraph.Mod4Facts EGraph.HashconsAbs EGraph.Model9 EGraph.HashconsFacts EGraph.NodeCong EGraph.KidEqFacts EGraph.ShapeCong
  EGraph.CongruenceFacts EGraph.SelfSymDefs.
Require Import ZArith Lia.

Definition srcs (s : egraph) (src : N) : Prop := exists i sh cb, stored s i sh (cb, src).

Definition syn_app (j : N) (c : eclass) : appid := {| aid := j; am := identity (slots (c_syn c)) |}.

Definition nosrc : N -> Prop := fun _ => False.

Definition covd (P : N -> Prop) (s : egraph) : Prop :=
  forall j c, get_class s j = Ok c ->
    exists src, (srcs s src \/ P src) /\ srcok_inv s (syn_app j c) (c_syn c) src.

Definition fps (s s' : egraph) : Prop := forall src, srcs s src -> srcs s' src.

Lemma fps_refl : forall s, fps s s.
Proof. intros s src H. exact H. Qed.
Lemma fps_trans : forall a b c, fps a b -> fps b c -> fps a c.
Proof. intros a b c H1 H2 src H. apply H2, H1, H. Qed.

Lemma covd_weaken : forall (P Q : N -> Prop) s, (forall x, P x -> Q x) -> covd P s -> covd Q s.
Proof.
  intros P Q s H C j c Hc. destruct (C j c Hc) as (src & [A|A] & S); exists src; (split; [|exact S]); [left; exact A|right; apply H; exact A].
Qed.

(* the invariant along a step that keeps classes with their syntactic nodes, keeps eg-equalities, and keeps the
   recorded sources up to the exception set *)
Lemma covd_step : forall (P Q : N -> Prop) s s', kmono s s' ->
  (forall j c', get_class s' j = Ok c' -> exists c, get_class s j = Ok c /\ c_syn c = c_syn c') ->
  (forall src, srcs s src -> srcs s' src \/ Q src) -> (forall src, P src -> Q src) ->
  covd P s -> covd Q s'.
Proof.
  intros P Q s s' KM Back FP PQ C j c' Hc'. destruct (Back j c' Hc') as (c & Hc & Es).
  destruct (C j c Hc) as (src & A & S). exists src. split.
  - destruct A as [A|A]; [destruct (FP src A) as [B|B]; [left; exact B|right; exact B]|right; apply PQ; exact A].
  - pose proof (srcok_inv_kmono s s' _ _ src KM S) as S'. unfold syn_app in *. rewrite <- Es. exact S'.
Qed.
