(* EGraph/RepReachFwd.v — the union core and the composite operations of rebuild only MOVE entries:
   every recorded source persists FORWARDS (`fps`, RepReachDefs.v).

   The key-wise form `KP s s'` is proved first: an entry stored under the key sh with source src in s is matched by an
   entry stored under the same key sh with the same source in s' (possibly in another class, with another bijection).
   The structure is that of the frame relation `frx` of SelfSymDefs.v sections 3 and 6. *)
From SE Require Import Slots.SlotMapFacts Group.GroupSound Lang.LangFacts Lang.ShapeFacts Lang.RenameFacts
  Slots.SlotFacts Base.TextFacts EGraph.Model EGraph.ModelFacts EGraph.ModelMachine EGraph.PendingFacts EGraph.UnionFindFacts
  EGraph.InvariantFacts EGraph.UnionInvariantFacts EGraph.AddCoversFacts EGraph.MonotoneFacts EGraph.HashconsShape
  EGraph.Mod4Facts EGraph.HashconsAbs EGraph.Model9 EGraph.HashconsFacts EGraph.NodeCong EGraph.KidEqFacts EGraph.ShapeCong
  EGraph.CongruenceFacts EGraph.SelfSymDefs EGraph.SelfSymCond EGraph.RepReachDefs.
From SE Require EGraph.SoundAddNew EGraph.SoundUnion EGraph.SelfSymUnion EGraph.SelfSymReadd EGraph.SelfSymDss EGraph.SelfSymNew.
Require Import ZArith Lia ZifyBool ZifyN ZifyNat.
Local Notation "a ** b" := (compose_partial a b) (at level 40, left associativity).
Local Notation inv := inverse_nocheck.
Local Notation ectr := Model.ctr.

(* ================================================================== *)
(* 1. the key-wise persistence relation *)

Definition KP (s s' : egraph) : Prop :=
  forall sh src, (exists i cb, stored s i sh (cb, src)) -> exists i' cb', stored s' i' sh (cb', src).

Lemma KP_refl : forall s, KP s s.
Proof. intros s sh src H. exact H. Qed.

Lemma KP_trans : forall a b c, KP a b -> KP b c -> KP a c.
Proof. intros a b c H1 H2 sh src H. apply H2, H1, H. Qed.

Lemma KP_fps : forall s s', KP s s' -> fps s s'.
Proof.
  intros s s' H src (i & sh & cb & S). destruct (H sh src (ex_intro _ i (ex_intro _ cb S))) as (i' & cb' & S').
  exists i', sh, cb'. exact S'.
Qed.

(* a step that keeps every stored entry *)
Lemma KP_sup : forall s s', (forall i y p, stored s i y p -> stored s' i y p) -> KP s s'.
Proof. intros s s' H sh src (i & cb & S). exists i, cb. apply H, S. Qed.

Lemma KP_cn : forall s s', (forall j, cnodes s' j = cnodes s j) -> KP s s'.
Proof. intros s s' H. apply KP_sup. intros i y p S. unfold stored in *. rewrite H. exact S. Qed.

Lemma KP_ctr_only : forall s s', ctr_only s s' -> KP s s'.
Proof. intros s s' [c ->]. apply KP_sup. intros i y p S. exact S. Qed.

Lemma KP_with_ctr : forall A (f : N -> A * N) s x s', with_ctr f s = Ok (x, s') -> KP s s'.
Proof. intros A f s x s' H. apply KP_ctr_only. eapply with_ctr_only; eauto. Qed.

Lemma KP_pc_congruence : forall a b s x s', pc_congruence a b s = Ok (x, s') -> KP s s'.
Proof. intros a b s x s' H. apply KP_ctr_only. eapply pcc_ctr_only; eauto. Qed.

Lemma KP_touched_class : forall i s x s', touched_class i true s = Ok (x, s') -> KP s s'.
Proof.
  intros i s x s' H. unfold touched_class in H. apply bind_reads_inv in H. destruct H as (c & _ & H).
  destruct (touch_list_spec _ _ _ _ H) as (p' & -> & _). apply KP_sup. intros j y p S. exact S.
Qed.

Lemma KP_mod_at : forall i s s', mod_at i s s' -> KP s s'.
Proof. intros i s s' ((_ & Hn & _) & _ & _). apply KP_cn. exact Hn. Qed.

Lemma KP_unionfind_set : forall i p s x s', unionfind_set i p s = Ok (x, s') -> KP s s'.
Proof. intros i p s x s' H. eapply KP_mod_at. eapply unionfind_set_mod_at; eauto. Qed.

Lemma KP_upd_class : forall i f s x s', (forall c, c_nodes (f c) = c_nodes c) -> upd_class i f s = Ok (x, s') -> KP s s'.
Proof.
  intros i f s x s' Hf H. destruct (upd_class_views _ _ _ _ _ H) as (c & Hc & Hc' & Ho & _).
  apply KP_cn. intros j. unfold cnodes. destruct (N.eq_dec j i) as [->|Hj].
  - rewrite Hc, Hc'. apply Hf.
  - rewrite (Ho j Hj). reflexivity.
Qed.

(* ================================================================== *)
(* 2. the move loop: the only step that changes the tables *)

(* one iteration: the key sh is removed from idf and re-added to idt with the same source; the other keys stay *)
Lemma move_step : forall idf idt mi sh bij src s u s4,
  (dom _ <- raw_remove_from_class idf sh;
   dom new_bij <- with_ctr (compose_fresh bij mi);
   dom _ <- raw_add_to_class idt (sh, new_bij) src;
   pending_insert sh true) s = Ok (u, s4) ->
  (forall j y q, y <> sh -> stored s j y q -> stored s4 j y q) /\
  (exists nb, stored s4 idt sh (nb, src)) /\
  (exists p, stored s idf sh p).
Proof.
  intros idf idt mi sh bij src s u s4 H1.
  apply mbind_inv in H1. destruct H1 as (p & s1 & Hr & H1).
  apply mbind_inv in H1. destruct H1 as (nb & s2 & Hc & H1).
  apply mbind_inv in H1. destruct H1 as (u3 & s3 & Ha & H1).
  inversion H1; subst u s4; clear H1.
  destruct (with_ctr_only _ _ _ _ _ Hc) as [c ->].
  destruct (raw_add_views _ _ _ _ _ _ _ Ha) as (_ & _ & _ & Nid & No & _ & _).
  destruct (raw_remove_views _ _ _ _ _ Hr) as (St & _ & _ & _ & Rid & Ro & _).
  assert (Fw1 : forall j y q, y <> sh -> stored s j y q -> stored s1 j y q).
  { intros j y q Ny S. unfold stored in *. destruct (N.eq_dec j idf) as [->|Hj].
    - rewrite Rid, na_get_remove_other by exact Ny. exact S.
    - rewrite (Ro j Hj). exact S. }
  split; [|split].
  - intros j y q Ny S. apply (Fw1 j y q Ny) in S. change (stored s3 j y q). unfold stored in *.
    destruct (N.eq_dec j idt) as [->|Hj].
    + rewrite Nid, na_get_set_other by exact Ny. exact S.
    + rewrite (No j Hj). exact S.
  - exists nb. change (stored s3 idt sh (nb, src)). unfold stored. rewrite Nid. apply na_get_set_same.
  - exists p. exact St.
Qed.

Lemma KP_move_loop : forall idf idt mi l s x s',
  iterM (fun e : node * (slotmap * N) =>
           let '(sh, (bij, src_id)) := e in
           dom _ <- raw_remove_from_class idf sh;
           dom new_bij <- with_ctr (compose_fresh bij mi);
           dom _ <- raw_add_to_class idt (sh, new_bij) src_id;
           pending_insert sh true) l s = Ok (x, s') ->
  hce TT s -> na_nodup l ->
  (forall y b sr, In (y, (b, sr)) l -> exists b', stored s idf y (b', sr)) ->
  KP s s'.
Proof.
  intros idf idt mi. induction l as [|[sh [bij src]] t IH]; intros s x s' H Hs Nd Hl; cbn [iterM] in H.
  - inversion H; subst. apply KP_refl.
  - apply mbind_inv in H. destruct H as (u & s4 & H1 & H).
    assert (H1' : hce TT s4).
    { apply (hce_move_loop TT idf idt mi [(sh, (bij, src))] s tt s4); [|exact Hs].
      cbn [iterM]. unfold mbind at 1. rewrite H1. destruct u. reflexivity. }
    destruct (move_step _ _ _ _ _ _ _ _ _ H1) as (Fw & (nb & Snew) & _).
    destruct Nd as [Nh Nt].
    destruct (Hl sh bij src (or_introl eq_refl)) as (b0 & S0).
    pose proof (proj1 Hs) as T.
    apply (KP_trans s s4 s').
    + intros y sr (i & cb & S). destruct (node_dec y sh) as [->|Ny].
      * pose proof (tb_bwd s T _ _ _ S) as B1. pose proof (tb_bwd s T _ _ _ S0) as B2.
        rewrite B1 in B2. inversion B2; subst i. unfold stored in S, S0. rewrite S in S0. inversion S0; subst cb sr.
        exists idt, nb. exact Snew.
      * exists i, cb. apply Fw; assumption.
    + eapply IH; [exact H|exact H1'|exact Nt|].
      intros y b sr Hin. destruct (Hl y b sr (or_intror Hin)) as (b' & Sy). exists b'. apply Fw; [|exact Sy].
      intros ->. exact (SelfSymUnion.ms_in_get_none _ _ _ Hin Nh).
Qed.

Lemma KP_move_to : forall from to s x s', move_to from to s = Ok (x, s') -> hce TT s -> KP s s'.
Proof.
  intros from to s x s' H Hs. unfold move_to in H. cbv zeta in H.
  apply mbind_inv in H. destruct H as (u1 & s1 & H1 & H).
  pose proof (hce_TT _ _ (hce_unionfind_set _ _ _ _ _ _ H1 Hs)) as I1.
  pose proof (KP_unionfind_set _ _ _ _ _ H1) as F1.
  apply bind_reads_inv in H. destruct H as (cf & Hcf & H).
  apply mbind_inv in H. destruct H as (u2 & s2 & H2 & H).
  assert (F2 : KP s1 s2).
  { eapply KP_move_loop; [exact H2|exact I1| |].
    - pose proof (tb_cn s1 (proj1 I1) (aid from)) as Nd. unfold cnodes in Nd. rewrite Hcf in Nd. exact Nd.
    - intros y b sr Hin. exists b. unfold stored. apply SelfSymUnion.ms_nodup_in_get; [apply (tb_cn s1 (proj1 I1))|].
      unfold cnodes. rewrite Hcf. exact Hin. }
  apply bind_reads_inv in H. destruct H as (cf2 & Hcf2 & H).
  apply bind_reads_inv in H. destruct H as (ct & Hct & H).
  apply mbind_inv in H. destruct H as ([g' fl] & s3 & H3 & H). apply lift_inv in H3. destruct H3 as [H3 ->].
  apply mbind_inv in H. destruct H as (u4 & s4 & H4 & H). cbn [fst snd] in *.
  apply mbind_inv in H. destruct H as (u5 & s5 & H5 & H).
  assert (F4 : KP s2 s4).
  { eapply KP_upd_class; [|exact H4]. intros c0. reflexivity. }
  assert (F5 : KP s4 s5).
  { destruct fl; [eapply KP_touched_class; exact H5|inversion H5; subst; apply KP_refl]. }
  pose proof (KP_touched_class _ _ _ _ H) as F6.
  eapply KP_trans; [exact F1|]. eapply KP_trans; [exact F2|]. eapply KP_trans; [exact F4|].
  eapply KP_trans; [exact F5|exact F6].
Qed.

(* ================================================================== *)
(* 3. the union core *)

Definition ui_specK (ui : appid -> appid -> M bool) : Prop :=
  forall l r s b s', ui l r s = Ok (b, s') -> hce TT s -> KP s s'.

Section UiK.
  Variable ui : appid -> appid -> M bool.
  Hypothesis HU : ui_specH ui.
  Hypothesis HF : ui_specK ui.

  Lemma KP_shrink_slots : forall from cap s x s', shrink_slots ui from cap s = Ok (x, s') -> hce TT s -> KP s s'.
  Proof.
    intros from cap s x s' H Hs. unfold shrink_slots in H. cbv zeta in H.
    apply mbind_inv in H. destruct H as (oc & s9 & H0 & H). apply lift_inv in H0. destruct H0 as [_ ->].
    apply mbind_inv in H. destruct H as (u1 & s1 & H1 & H).
    unfold record_redundancy_witness in H1. apply bind_reads_inv in H1. destruct H1 as (ss & _ & H1).
    pose proof (hce_TT _ _ (hce_unionfind_set _ _ _ _ _ _ H1 Hs)) as I1.
    pose proof (KP_unionfind_set _ _ _ _ _ H1) as F1.
    apply bind_reads_inv in H. destruct H as (c & Hc & H).
    apply mbind_inv in H. destruct H as (flags & s9 & H0 & H). apply lift_inv in H0. destruct H0 as [_ ->].
    apply mbind_inv in H. destruct H as (g & s9 & H0 & H). apply lift_inv in H0. destruct H0 as [_ ->].
    apply mbind_inv in H. destruct H as (u2 & s2 & H2 & H).
    assert (I2 : hce TT s2).
    { eapply hce_TT. eapply hce_upd_class; [|exact H2|exact I1]. intros c0. split; reflexivity. }
    assert (F2 : KP s1 s2).
    { eapply KP_upd_class; [|exact H2]. intros c0. reflexivity. }
    apply mbind_inv in H. destruct H as (u3 & s3 & H3 & H).
    assert (I3 : hce TT s3).
    { eapply hce_touched_class; [exact H3|]. eapply hce_TT_any; [|exact I2]. intros y. left. exact I. }
    pose proof (KP_touched_class _ _ _ _ H3) as F3.
    apply (KP_trans s s3 s'); [eapply KP_trans; [exact F1|eapply KP_trans; [exact F2|exact F3]]|].
    clear - HU HF H I3. revert s3 x s' H I3.
    match goal with |- forall s3 x s', iterM ?f ?l s3 = _ -> _ => generalize l end.
    induction l as [|pp t IH]; intros s3 x s' H I3; cbn [iterM] in H.
    - inversion H; subst. apply KP_refl.
    - apply mbind_inv in H. destruct H as (u & s4 & H4 & H).
      apply bind_reads_inv in H4. destruct H4 as (sl & _ & H4).
      apply mbind_inv in H4. destruct H4 as (ps & s9 & H0 & H4). apply lift_inv in H0. destruct H0 as [_ ->].
      apply mbind_inv in H4. destruct H4 as (b & s5 & H5 & H4). inversion H4; subst u s5.
      apply (KP_trans s3 s4 s'); [eapply HF; eauto|]. eapply IH; [exact H|eapply HU; eauto].
  Qed.

  Lemma KP_union_leaders : forall l r s b s', union_leaders ui l r s = Ok (b, s') -> hce TT s -> KP s s'.
  Proof.
    intros l r s b s' H Hs. unfold union_leaders in H.
    apply bind_reads_inv in H. destruct H as (e & _ & H). destruct e; [inversion H; subst; apply KP_refl|].
    cbv zeta in H.
    destruct (negb (sset_eqb (values (am l)) _)).
    { apply mbind_inv in H. destruct H as (u1 & s1 & H1 & H).
      apply mbind_inv in H. destruct H as (u2 & s2 & H2 & H). inversion H; subst b s2.
      apply (KP_trans s s1 s'); [eapply KP_shrink_slots; eauto|].
      eapply HF; [exact H2|eapply (hce_shrink_slots ui HU); eauto]. }
    destruct (negb (sset_eqb (values (am r)) _)).
    { apply mbind_inv in H. destruct H as (u1 & s1 & H1 & H).
      apply mbind_inv in H. destruct H as (u2 & s2 & H2 & H). inversion H; subst b s2.
      apply (KP_trans s s1 s'); [eapply KP_shrink_slots; eauto|].
      eapply HF; [exact H2|eapply (hce_shrink_slots ui HU); eauto]. }
    destruct (aid l =? aid r).
    - apply bind_reads_inv in H. destruct H as (c & Hc & H).
      apply mbind_inv in H. destruct H as (bb & s9 & H0 & H). apply lift_inv in H0. destruct H0 as [_ ->].
      destruct bb; [inversion H; subst; apply KP_refl|].
      apply mbind_inv in H. destruct H as (g & s9 & H0 & H). apply lift_inv in H0. destruct H0 as [_ ->].
      apply mbind_inv in H. destruct H as (u2 & s2 & H2 & H).
      apply mbind_inv in H. destruct H as (u3 & s3 & H3 & H). inversion H; subst b s3.
      apply (KP_trans s s2 s'); [|eapply KP_touched_class; exact H3].
      eapply KP_upd_class; [|exact H2]. intros c0. reflexivity.
    - apply bind_reads_inv in H. destruct H as (cl & _ & H).
      apply bind_reads_inv in H. destruct H as (cr & _ & H).
      apply mbind_inv in H. destruct H as (u1 & s1 & H1 & H). inversion H; subst b s1.
      match type of H1 with (if ?c then _ else _) _ = _ => destruct c end; eapply KP_move_to; eauto.
  Qed.

  Lemma KP_union_internal_body : forall l r s b s', union_internal_body ui l r s = Ok (b, s') -> hce TT s -> KP s s'.
  Proof.
    intros l r s b s' H Hs. unfold union_internal_body in H.
    apply bind_reads_inv in H. destruct H as (l1 & _ & H).
    apply bind_reads_inv in H. destruct H as (r1 & _ & H).
    eapply KP_union_leaders; eauto.
  Qed.
End UiK.

Theorem KP_union_internal : forall fuel, ui_specK (union_internal fuel).
Proof.
  induction fuel as [|f IH]; intros l r s b s' H Hs; [discriminate H|].
  rewrite union_internal_S in H. eapply KP_union_internal_body; eauto. apply hce_union_internal.
Qed.

Corollary KP_uint : ui_specK uint.
Proof. exact (KP_union_internal ui_fuel). Qed.

(* ================================================================== *)
(* 4. the composite operations of rebuild *)

Lemma KP_handle_shrink : forall src s x s', handle_shrink_in_upwards_merge src s = Ok (x, s') -> hce TT s -> KP s s'.
Proof.
  intros src s x s' H Hs. unfold handle_shrink_in_upwards_merge in H.
  apply bind_reads_inv in H. destruct H as (pc1 & _ & H).
  apply bind_reads_inv in H. destruct H as (n2 & _ & H).
  apply mbind_inv in H. destruct H as ([a b] & s1 & H1 & H).
  apply (KP_trans s s1 s'); [eapply KP_pc_congruence; eauto|].
  eapply (KP_shrink_slots uint hce_uint KP_uint); [exact H|eapply hce_pc_congruence; eauto].
Qed.

Lemma KP_handle_congruence : forall pc1 s x s', handle_congruence pc1 s = Ok (x, s') -> hce TT s -> KP s s'.
Proof.
  intros pc1 s x s' H Hs. unfold handle_congruence in H.
  apply bind_reads_inv in H. destruct H as (sh & _ & H).
  apply bind_reads_inv in H. destruct H as (pc2 & _ & H).
  apply mbind_inv in H. destruct H as (ab & s1 & H1 & H).
  apply mbind_inv in H. destruct H as (b & s2 & H2 & H). inversion H; subst x s2; clear H.
  apply (KP_trans s s1 s'); [eapply KP_pc_congruence; eauto|].
  eapply KP_uint; [exact H2|eapply hce_pc_congruence; eauto].
Qed.

Lemma KP_determine_self_symmetries : forall src s x s', determine_self_symmetries src s = Ok (x, s') -> hce TT s -> KP s s'.
Proof.
  intros src s x s' H Hs. unfold determine_self_symmetries in H.
  apply bind_reads_inv in H. destruct H as (pc1 & _ & H).
  apply mbind_inv in H. destruct H as (w & s9 & Hw & H). apply lift_inv in Hw. destruct Hw as [_ ->].
  cbv zeta in H. apply bind_reads_inv in H. destruct H as (vs & _ & H).
  revert s x s' H Hs. induction vs as [|pn2 t IH]; intros s x s' H Hs; cbn [iterM] in H.
  - inversion H; subst. apply KP_refl.
  - apply mbind_inv in H. destruct H as (u & s2 & H1 & H).
    assert (Q : hce TT s2 /\ KP s s2).
    { clear H IH.
      apply mbind_inv in H1. destruct H1 as (w2 & s9 & Hw2 & H1). apply lift_inv in Hw2. destruct Hw2 as [_ ->].
      destruct (node_eqb (fst w) (fst w2)); [|inversion H1; subst; split; [assumption|apply KP_refl]].
      apply mbind_inv in H1. destruct H1 as (ab & s3 & H3 & H1).
      apply mbind_inv in H1. destruct H1 as (b & s4 & H4 & H1). inversion H1; subst u s4; clear H1.
      pose proof (hce_pc_congruence _ _ _ _ _ _ H3 Hs) as Hs3.
      split; [eapply hce_uint; eauto|].
      apply (KP_trans s s3 s2); [eapply KP_pc_congruence; eauto|eapply KP_uint; eauto]. }
    destruct Q as [Hs2 F2]. apply (KP_trans s s2 s'); [exact F2|]. eapply IH; eauto.
Qed.

Lemma KP_hp_loop : forall fuel src enode i s r s', hp_loop fuel src enode i s = Ok (r, s') -> hce TT s -> KP s s'.
Proof.
  induction fuel as [|f IH]; intros src enode i s r s' H Hs; cbn [hp_loop] in H; [discriminate|].
  destruct (sset_subset (values (am i)) (slots enode)).
  - inversion H; subst. apply KP_refl.
  - apply mbind_inv in H. destruct H as (u & s1 & H1 & H).
    apply bind_reads_inv in H. destruct H as (enode' & _ & H).
    apply bind_reads_inv in H. destruct H as (i' & _ & H).
    apply (KP_trans s s1 s'); [eapply KP_handle_shrink; eauto|].
    eapply IH; [exact H|eapply hce_handle_shrink; eauto].
Qed.

(* ================================================================== *)
(* 5. the statements in terms of `fps` *)

Theorem fps_uint : forall l r s b s', hce TT s -> uint l r s = Ok (b, s') -> fps s s'.
Proof. intros l r s b s' Hs H. apply KP_fps. eapply KP_uint; eauto. Qed.

Theorem fps_shrink_slots : forall from cap s x s', hce TT s -> shrink_slots uint from cap s = Ok (x, s') -> fps s s'.
Proof. intros from cap s x s' Hs H. apply KP_fps. eapply (KP_shrink_slots uint hce_uint KP_uint); eauto. Qed.

Theorem fps_handle_shrink : forall src s x s', hce TT s -> handle_shrink_in_upwards_merge src s = Ok (x, s') -> fps s s'.
Proof. intros src s x s' Hs H. apply KP_fps. eapply KP_handle_shrink; eauto. Qed.

Theorem fps_hp_loop : forall fuel src enode i s r s', hce TT s -> hp_loop fuel src enode i s = Ok (r, s') -> fps s s'.
Proof. intros fuel src enode i s r s' Hs H. apply KP_fps. eapply KP_hp_loop; eauto. Qed.

Theorem fps_handle_congruence : forall pc s x s', hce TT s -> handle_congruence pc s = Ok (x, s') -> fps s s'.
Proof. intros pc s x s' Hs H. apply KP_fps. eapply KP_handle_congruence; eauto. Qed.

Theorem fps_determine_self_symmetries : forall src s x s', hce TT s -> determine_self_symmetries src s = Ok (x, s') -> fps s s'.
Proof. intros src s x s' Hs H. apply KP_fps. eapply KP_determine_self_symmetries; eauto. Qed.

Print Assumptions fps_uint.
Print Assumptions fps_shrink_slots.
Print Assumptions fps_handle_shrink.
Print Assumptions fps_hp_loop.
Print Assumptions fps_handle_congruence.
Print Assumptions fps_determine_self_symmetries.
