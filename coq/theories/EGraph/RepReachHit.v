(* EGraph/RepReachHit.v — the HASH-CONS HIT of handle_pending (hypothesis H_hit of RepReachCond.v):
   after `handle_congruence pc` (pc = pc_from_src_id s src) the syntactic node of the source src of the dropped entry is
   source-coherent with the recorded source src2 of the hit entry (`hit_source`).
   ONE ADDED PREMISE (state-local, about the class src only): no public slot of the syntactic node of src is also one
   of its binders.  It is needed: `srcok_inv` asks for a renaming h with `ren_ok h syn2`, in particular
   h true x <> h false b, and h true x / h false b are forced to be a public slot / a binder of the syntactic node of src.
   Contents: (1) two nodes with the same weak shape are renamings of each other, the public part of the renaming being
   inv b2 ** b1 (`same_ws_ren`); (2) the pre-shape of a node replaces its children by eg-equal ones (`pre_kids`);
   (3) what pc_congruence + uint establish (`hit_step`, the pattern of SelfSymDss.dss_step); (4) the theorem. *)
From SE Require Import Slots.SlotMapFacts Group.GroupSound Lang.LangFacts Lang.ShapeFacts Lang.RenameFacts
  Slots.SlotFacts Base.TextFacts EGraph.Model EGraph.ModelFacts EGraph.ModelMachine EGraph.PendingFacts EGraph.UnionFindFacts
  EGraph.InvariantFacts EGraph.UnionInvariantFacts EGraph.AddCoversFacts EGraph.MonotoneFacts EGraph.HashconsShape
  EGraph.Mod4Facts EGraph.HashconsAbs EGraph.Model9 EGraph.HashconsFacts EGraph.NodeCong EGraph.KidEqFacts EGraph.ShapeCong
  EGraph.CongruenceFacts EGraph.SelfSymDefs EGraph.SelfSymCond EGraph.RepReachDefs.
From SE Require EGraph.SoundAddNew EGraph.SoundUnion EGraph.SelfSymUnion EGraph.SelfSymReadd EGraph.SelfSymDss EGraph.SelfSymNew.
From SE Require EGraph.MatchReprAlg.
Require Import ZArith Lia ZifyBool ZifyN ZifyNat.
Local Notation "a ** b" := (compose_partial a b) (at level 40, left associativity).
Local Notation inv := inverse_nocheck.
Local Notation ectr := Model.ctr.

(* ================================================================== *)
(* 1. two nodes with the same weak shape are renamings of each other *)

Definition ginvf (f : slot -> slot) (l : list slot) (y : slot) : slot :=
  match List.find (fun x => f x =? y) l with Some x => x | None => y end.

Lemma ginvf_spec : forall f l x, inj_on f l -> In x l -> ginvf f l (f x) = x.
Proof.
  intros f l x I Hx. unfold ginvf. destruct (List.find (fun x0 => f x0 =? f x) l) as [x'|] eqn:E.
  - apply find_some in E. destruct E as [Hx' E]. apply N.eqb_eq in E. apply I; assumption.
  - exfalso. pose proof (find_none _ _ E x Hx) as Q. cbv beta in Q. rewrite N.eqb_refl in Q. discriminate.
Qed.

Lemma same_ws_ren : forall n1 n2 sh b1 b2,
  wshape n1 = Ok (sh, b1) -> wshape n2 = Ok (sh, b2) -> NoDup (binders n1) -> NoDup (binders n2) ->
  exists hb : slot -> slot,
    inj_on hb (binders n2) /\ (forall b, In b (binders n2) -> In (hb b) (binders n1)) /\
    forall hh : bool -> slot -> slot,
      (forall b, In b (binders n2) -> hh false b = hb b) ->
      (forall x, In x (pub_occ n2) -> get (inv b2 ** b1) x = Some (hh true x)) ->
      RenameFacts.ren hh n2 = n1.
Proof.
  intros n1 n2 sh b1 b2 W1 W2 N1 N2.
  destruct (wshape_fwd n1 sh b1 W1 N1) as (g1 & E1 & (A1 & A2 & A3)).
  destruct (wshape_fwd n2 sh b2 W2 N2) as (g2 & E2 & (B1 & B2 & B3)).
  destruct (shape_bij _ _ _ W1) as (_ & _ & M1). destruct (shape_bij _ _ _ W2) as (_ & _ & M2).
  destruct (shape_bij_props _ _ _ W2) as (Wb2 & Bb2 & _).
  assert (P1 : pub_occ sh = map (g1 true) (pub_occ n1)) by (rewrite E1; apply ren_pub_occ; assumption).
  assert (P2 : pub_occ sh = map (g2 true) (pub_occ n2)) by (rewrite E2; apply ren_pub_occ; assumption).
  assert (Gb1 : forall x, In x (pub_occ n1) -> get b1 (g1 true x) = Some x).
  { rewrite P1, map_map in M1. intros x Hx. exact (proj1 map_ext_in_iff M1 x Hx). }
  assert (Gb2 : forall x, In x (pub_occ n2) -> get b2 (g2 true x) = Some x).
  { rewrite P2, map_map in M2. intros x Hx. exact (proj1 map_ext_in_iff M2 x Hx). }
  assert (BS1 : binders sh = map (g1 false) (binders n1)) by (rewrite E1; apply ren_binders).
  assert (BS2 : binders sh = map (g2 false) (binders n2)) by (rewrite E2; apply ren_binders).
  set (ginv := fun (fl : bool) (y : slot) =>
                 if fl then ginvf (g1 true) (pub_occ n1) y else ginvf (g1 false) (binders n1) y).
  assert (Bk : forall b, In b (binders n2) -> exists b', In b' (binders n1) /\ g1 false b' = g2 false b).
  { intros b Hb. assert (H : In (g2 false b) (binders sh)) by (rewrite BS2; apply in_map; exact Hb).
    rewrite BS1 in H. apply in_map_iff in H. destruct H as (b' & Eb & Hb'). exists b'. auto. }
  exists (fun b => ginv false (g2 false b)). split; [|split].
  - intros x y Hx Hy E. destruct (Bk x Hx) as (x' & Hx' & Ex). destruct (Bk y Hy) as (y' & Hy' & Ey).
    unfold ginv in E. rewrite <- Ex, <- Ey in E. rewrite !ginvf_spec in E by assumption. subst y'.
    apply B1; [assumption|assumption|congruence].
  - intros b Hb. destruct (Bk b Hb) as (b' & Hb' & Eb). unfold ginv. rewrite <- Eb, ginvf_spec by assumption. exact Hb'.
  - intros hh Hf Ht. transitivity (RenameFacts.ren ginv sh).
    + rewrite E2. rewrite (SelfSymReadd.ren_ren ginv g2 n2 B2). apply ren_ext. intros s0 fl Hin.
      unfold SelfSymReadd.comp2. destruct fl.
      * apply occ_flags_true_pub in Hin. pose proof (Ht s0 Hin) as G.
        rewrite get_compose_partial in G by apply inverse_wf.
        rewrite (SelfSymDss.inv_get b2 _ _ Wb2 Bb2 (Gb2 s0 Hin)) in G.
        assert (H : In (g2 true s0) (pub_occ sh)) by (rewrite P2; apply in_map; exact Hin).
        rewrite P1 in H. apply in_map_iff in H. destruct H as (x' & Ex & Hx').
        rewrite <- Ex in G. rewrite (Gb1 x' Hx') in G. injection G as G. rewrite <- G.
        unfold ginv. rewrite <- Ex. symmetry. apply ginvf_spec; assumption.
      * apply MatchReprAlg.occ_flags_false_binders in Hin. rewrite (Hf s0 Hin). reflexivity.
    + rewrite E1. rewrite (SelfSymReadd.ren_ren ginv g1 n1 A2). apply ren_id. intros s0 fl Hin.
      unfold SelfSymReadd.comp2, ginv. destruct fl.
      * apply occ_flags_true_pub in Hin. apply ginvf_spec; assumption.
      * apply MatchReprAlg.occ_flags_false_binders in Hin. apply ginvf_spec; assumption.
Qed.

(* ================================================================== *)
(* 2. the pre-shape of a node replaces its children by eg-equal ones *)

Lemma kid_eq_refl : forall s a, eg_inv s -> covers s a -> kid_eq s a a.
Proof.
  intros s a Hs C. split; [exact C|]. split; [exact C|]. apply eg_eq_refl_inv; [exact (ei_uf _ Hs)|exact (ei_slots _ Hs)|exact C].
Qed.

Lemma kid_eq_sym : forall s a b, eg_inv s -> kid_eq s a b -> kid_eq s b a.
Proof. intros s a b Hs (Ca & Cb & E). split; [exact Cb|]. split; [exact Ca|]. apply eg_eq_sym_true; assumption. Qed.

Lemma Forall2_flip : forall {A} (P : A -> A -> Prop) l r, (forall x y, P x y -> P y x) -> Forall2 P l r -> Forall2 P r l.
Proof. intros A P l r H F. induction F; constructor; auto. Qed.

Lemma pre_kids : forall s n p, eg_inv s -> Forall (covers s) (app_occ n) -> pre_shape s n = Ok p ->
  exists k, p = set_apps n k /\ Forall2 (kid_eq s) (app_occ n) k /\ (forall b, In b k -> wf (am b)) /\
            binders p = binders n /\ incl (pub_occ p) (pub_occ n).
Proof.
  intros s n p Hs Cv Hp. unfold pre_shape in Hp.
  destruct (find_enode s n) as [N1|] eqn:Fe; cbn [bind] in Hp; [|discriminate].
  destruct (variants s N1) as [vs|] eqn:Ev; cbn [bind] in Hp; [|discriminate].
  assert (Hin : In p vs).
  { destruct (min_variant_in vs None p Hp) as [Hin|[k Hk]]; [exact Hin|discriminate]. }
  destruct (variants_sub s N1 vs p Ev Hin) as [Hb Hpub].
  destruct (find_enode_sub s n N1 Fe) as [BF PF].
  pose proof (found_kids s n N1 Hs Cv Fe) as FK.
  pose proof Fe as Fe0. unfold find_enode in Fe0.
  destruct (mapr (find_applied_id s) (app_occ n)) as [l1|] eqn:El; cbn [bind] in Fe0; [|discriminate].
  injection Fe0 as EN1.
  pose proof (mapr_length _ _ _ El) as Ll1.
  assert (F1 : Forall2 (kid_eq s) (app_occ n) l1).
  { apply (kid_eq_mapr_find s (app_occ n) (app_occ n) l1 Hs); [|exact El].
    clear - Cv Hs. induction Cv as [|a t Ha Ht IH]; constructor; [apply kid_eq_refl; assumption|exact IH]. }
  assert (AO : app_occ N1 = l1) by (rewrite <- EN1; apply app_occ_set_apps; exact Ll1).
  assert (CK : forall a0, In a0 (app_occ N1) -> ckid s a0).
  { intros a0 Ha0. destruct (FK a0 Ha0) as [C L]. split; [exact L|exact C]. }
  destruct (variants_inv s N1 vs CK Ev) as (cls & Ecls & [[Triv Evs]|[NTriv (groups & Eg & Fg & Evs)]]).
  - subst vs. destruct Hin as [E|[]]. subst p. exists l1.
    split; [symmetry; exact EN1|]. split; [exact F1|]. split.
    + intros b Hb'. rewrite <- AO in Hb'. destruct (FK b Hb') as [_ (e & c & _ & _ & _ & _ & _ & W & _)]. exact W.
    + split; [exact BF|exact PF].
  - subst vs. apply in_map_iff in Hin. destruct Hin as (perms & Ep & Hperms).
    set (l2 := zip_with gvar (app_occ N1) perms) in *.
    assert (F2 : Forall2 (kid_eq s) (app_occ N1) l2).
    { unfold l2. apply (zip_cart_gvar (kid_eq s) (app_occ N1) groups); [|exact Hperms].
      clear - Fg Hs. induction Fg as [|x G la lg Hx Fg IH]; constructor; [|exact IH].
      intros pp Hpp. destruct Hx as [[L C] (c & Gc & Ga)].
      exact (gvar_eg_eq s x c G pp Hs C L Gc Ga Hpp). }
    pose proof (Forall2_length' _ _ _ F2) as Len2.
    exists l2. split.
    + rewrite <- Ep, <- EN1. apply set_apps_twice. rewrite AO in Len2. lia.
    + split.
      * rewrite AO in F2.
        exact (SelfSymReadd.fp_Forall2_trans (kid_eq s) _ l1 l2 (fun x y z H1 H2 => kid_eq_trans s x y z Hs H1 H2) F1 F2).
      * split; [intros b Hb'; exact (SelfSymReadd.fp_zip_gvar_wf _ _ _ Hb')|].
        split; [congruence|]. intros x Hx. apply PF, Hpub, Hx.
Qed.

(* ================================================================== *)
(* 3. what pc_congruence + uint establish (the pattern of SelfSymDss.dss_step, for two different sources) *)

Lemma hit_step : forall s src src2 pc1 pc2 shn b1 b2 ab s1 b s',
  eg_inv2 s -> pc_from_src_id s src = Ok pc1 -> pc_from_src_id s src2 = Ok pc2 ->
  wshape (fst pc1) = Ok (shn, b1) -> wshape (fst pc2) = Ok (shn, b2) ->
  (forall y, In y (values (am (snd pc2))) -> In y (pub_occ (fst pc2))) ->
  pc_congruence pc1 pc2 s = Ok (ab, s1) -> uint (fst ab) (snd ab) s1 = Ok (b, s') ->
  eg_inv2 s' /\ mext s s' /\ covers s' (snd pc1) /\
  covers s' {| aid := aid (snd pc2); am := am (snd pc2) ** (inv b2 ** b1) |} /\
  eg_eq s' (snd pc1) {| aid := aid (snd pc2); am := am (snd pc2) ** (inv b2 ** b1) |} = Ok true.
Proof.
  intros s src src2 pc1 pc2 shn b1 b2 ab s1 b s' Hs2 P1 P2 W1 W2 Vp H U.
  pose proof Hs2 as [Hs Hb0].
  destruct (pc_props s src pc1 Hs P1) as (L1 & c & Hc & Oc).
  destruct (pc_props s src2 pc2 Hs P2) as (L2 & _).
  destruct (canon_wf_inj _ _ (proj2 L2)) as [Wp Ip].
  destruct (pcc_injective s pc1 pc2 ab s1) as (F1 & F2 & F3 & F4); try assumption.
  { intros x Hx. apply (Hb0 src c x Hc); apply Oc; apply pub_occ_all_occ; assumption. }
  pose proof (s_pc_congruence _ _ _ _ _ H) as S1. destruct (semR_step4 _ _ S1 Hs2) as [Hs1 X1].
  pose proof (proj1 X1) as E1.
  assert (C1 : covers s1 (fst ab)).
  { rewrite F1. apply (covers_ext s s1); [assumption|]. apply canon_covers. apply L1. }
  assert (C2 : covers s1 (snd ab)).
  { pose proof (canon_covers _ _ (proj2 L2)) as C. apply (covers_ext s s1 _ E1) in C.
    destruct C as (c2 & Hc2 & _ & Sk). exists c2. rewrite F2. split; [assumption|]. split; [assumption|].
    intros k Hk. apply F4. apply Sk. assumption. }
  destruct (inv4_uint _ _ _ _ _ (proj1 Hs1) C1 C2 U) as (Hs' & X2 & Eq).
  destruct (uint_step4 _ _ _ _ _ C1 C2 U Hs1) as [Hs2' _].
  destruct (pc_congruence_dec _ _ _ _ _ H) as (sa & sb & m & c1 & xx & c2 & bm & c3 & Wsa & Wsb & Em & _ & Ebm & Eab).
  rewrite W1 in Wsa. rewrite W2 in Wsb. inversion Wsa; subst sa. inversion Wsb; subst sb.
  cbn [snd] in Em.
  assert (M1 : m = inv b2 ** b1).
  { replace m with (fst (compose_fresh (inv b2) b1 (ectr s))) by (rewrite Em; reflexivity).
    apply SelfSymDss.cf_total; [apply inverse_wf|]. exact (SelfSymDss.perm_total _ _ _ _ _ W1 W2). }
  assert (M2 : bm = am (snd pc2) ** (inv b2 ** b1)).
  { replace bm with (fst (compose_fresh (am (snd pc2)) m c2)) by (rewrite Ebm; reflexivity).
    rewrite M1. apply SelfSymDss.cf_total; [exact Wp|]. intros k y G. apply (SelfSymDss.perm_dom _ _ _ _ _ W1 W2).
    apply Vp. apply values_spec; [exact Wp|]. eauto. }
  subst ab. cbn [fst snd aid] in *. rewrite M2 in *.
  split; [exact Hs2'|]. split; [eapply mext_trans; eauto|].
  split; [eapply covers_ext; [exact (proj1 X2)|exact C1]|]. split; [eapply covers_ext; [exact (proj1 X2)|exact C2]|exact Eq].
Qed.

(* ================================================================== *)
(* 4. the theorem *)

Lemma zip_with_len : forall {A C D} (f : A -> C -> D) l l', List.length l = List.length l' ->
  List.length (zip_with f l l') = List.length l'.
Proof.
  intros A C D f. induction l as [|a t IH]; intros [|b u] L; cbn [zip_with List.length] in *; try discriminate; [reflexivity|].
  f_equal. apply IH. lia.
Qed.

Lemma covers_syn_id : forall s i c, eg_inv s -> get_class s i = Ok c ->
  covers s {| aid := i; am := identity (slots (c_syn c)) |}.
Proof.
  intros s i c Hs Hc. exists c. cbn [aid am]. split; [exact Hc|]. split; [apply pid_injective, pid_identity|].
  intros k Hk. destruct (ei_cls s Hs _ _ Hc) as (_ & _ & I). apply I in Hk. rewrite get_identity.
  rewrite (proj2 (sset_mem_in _ _) Hk). discriminate.
Qed.

Lemma kids_covered : forall s (g : bool -> slot -> slot) n l,
  Forall2 (kid_eq s) (app_occ (RenameFacts.ren g n)) l -> Forall (covers s) (app_occ n).
Proof.
  intros s g n l F. apply (SelfSymDss.covers_unzip s g (abounds n)); [apply abounds_length|]. rewrite <- app_occ_ren.
  clear - F. induction F as [|a b la lb Hab _ IH]; constructor; [exact (proj1 Hab)|exact IH].
Qed.

Theorem hit_source : forall s src enode i1 t hit pc x s',
  inv3 s -> m4 s -> hce noex s -> srcx noex s ->
  srcok_inv s i1 enode src -> NoDup (binders enode) -> (exists n0, find_enode s n0 = Ok enode) ->
  shape s enode = Ok t -> lookup_internal s t = Ok (Some hit) ->
  pc_from_src_id s src = Ok pc -> handle_congruence pc s = Ok (x, s') ->
  (forall c, get_class s src = Ok c -> forall z, In z (pub_occ (c_syn c)) -> ~ In z (binders (c_syn c))) ->
  exists src2 c, srcs s src2 /\ get_class s' src = Ok c /\ srcok_inv s' (syn_app src c) (c_syn c) src2.
Proof.
  intros s src enode i1 t hit pc x s' I3 M4 HC SX Fl NDe (n0 & Fn0) Ht _ P H SEP.
  pose proof I3 as [Hs2 Nk]. pose proof Hs2 as [Hs SB]. pose proof (proj1 HC) as T.
  destruct pc as [nd1 a1].
  destruct (pc_from_src_spec _ _ _ P) as (csrc & Hcs & PS1 & Fp1). cbn [fst snd] in PS1, Fp1.
  destruct Fl as (csrc' & g & l & Hcs' & Rg & EN & F & K). rewrite Hcs in Hcs'. inversion Hcs'; subst csrc'; clear Hcs'.
  specialize (SEP csrc Hcs).
  set (syn := c_syn csrc) in *.
  (* the run of handle_congruence *)
  unfold handle_congruence in H.
  apply bind_reads_inv in H. destruct H as (sh & Hsh & H).
  apply bind_reads_inv in H. destruct H as (pc2 & P2 & H).
  apply mbind_inv in H. destruct H as (ab & s1 & H1 & H).
  apply mbind_inv in H. destruct H as (bb & s2 & H2 & H). inversion H; subst x s2; clear H.
  cbn [fst] in Hsh.
  (* the weak shape of nd1 is the shape of enode *)
  destruct (weak_shape_total false nd1) as (shn & b1 & W1). fold (wshape nd1) in W1.
  assert (Ssyn : shape s syn = Ok (shn, b1)) by (unfold shape; rewrite PS1; cbn [bind]; exact W1).
  pose proof Rg as (G1 & G2 & G3).
  destruct (shape_ren s g syn (shn, b1) G1 G2 G3 Ssyn) as (b' & S'). cbn [fst] in S'.
  destruct (shape_kid_eq_strong s _ l shn b' Hs F S') as (N0 & vs0 & p0 & p0' & b'' & _ & _ & _ & _ & _ & _ & _ & S2).
  rewrite <- EN in S2. rewrite Ht in S2. injection S2 as Et. subst t.
  assert (CB : canon s shn).
  { split; [eapply shape_leaders; [exact (ei_uf s Hs)|exact Ht]|]. eapply K1_proved; eauto. }
  (* the shape of nd1 *)
  assert (Snd : shape s nd1 = Ok (shn, b1)).
  { pose proof PS1 as PS0. unfold pre_shape in PS0.
    destruct (find_enode s syn) as [Fn|] eqn:FF; cbn [bind] in PS0; [|discriminate].
    assert (PSF : pre_shape s Fn = Ok nd1).
    { unfold pre_shape. rewrite (proj1 (find_enode_idem s syn Fn (ei_uf s Hs) FF)). cbn [bind]. exact PS0. }
    pose proof (pre_shape_idem s syn Fn nd1 Hs FF PSF) as Pnd.
    unfold shape. rewrite Pnd. cbn [bind]. exact W1. }
  rewrite Snd in Hsh. injection Hsh as Esh. subst sh. cbn [fst] in P2.
  (* the hit entry *)
  unfold pc_from_shape in P2.
  destruct (na_get (hashcons s) shn) as [i2|] eqn:Hh; [|discriminate].
  destruct (get_class s i2) as [c2|] eqn:Hc2; cbn [bind] in P2; [|discriminate].
  destruct (na_get (c_nodes c2) shn) as [[cb2 src2]|] eqn:Gc2; [|discriminate].
  pose proof (get_stored _ _ _ _ _ Hc2 Gc2) as St2.
  destruct pc2 as [nd2 a2].
  destruct (pc_from_src_spec _ _ _ P2) as (csrc2 & Hcs2 & PS2 & Fp2). cbn [fst snd] in PS2, Fp2.
  destruct (SX i2 shn cb2 src2 St2) as [[]|(c2' & N2 & Hc2' & A2 & (csrc2' & g2 & l2 & Hcs2' & Rg2 & EN2 & F2 & K2))].
  rewrite Hc2 in Hc2'. inversion Hc2'; subst c2'; clear Hc2'.
  rewrite Hcs2 in Hcs2'. inversion Hcs2'; subst csrc2'; clear Hcs2'.
  pose proof (apply_slotmap_total _ _ _ A2) as KT.
  pose proof (SelfSymDss.dss_transport_holds s i2 shn cb2 src2 c2 N2 csrc2 g2 l2 I3 M4 T St2 CB KT Hc2 A2 Hcs2 Rg2 EN2 F2 K2) as TR.
  set (syn2 := c_syn csrc2) in *.
  pose proof (kids_covered s g2 syn2 l2 F2) as CvS2.
  pose proof (kids_covered s g syn l F) as CvS1.
  assert (Vn2 : exists vsn, variants s nd2 = Ok vsn).
  { pose proof PS2 as Q. unfold pre_shape in Q.
    destruct (find_enode s syn2) as [Fn2|] eqn:FF2; cbn [bind] in Q; [|discriminate].
    destruct (variants s Fn2) as [vF|] eqn:VF; cbn [bind] in Q; [|discriminate].
    destruct (min_variant_in _ _ _ Q) as [InNd|[k0 Bad]]; [|discriminate].
    pose proof (found_kids s syn2 Fn2 Hs CvS2 FF2) as FK.
    assert (CkF : forall a, In a (app_occ Fn2) -> ckid s a).
    { intros a Ha. destruct (FK a Ha) as (Q1 & Q2). split; assumption. }
    destruct (variants_members s Fn2 vF nd2 Hs CkF VF InNd) as (vsn' & Vn' & _). eauto. }
  destruct Vn2 as (vsn2 & Vn2).
  destruct (TR nd2 a2 vsn2 P2 Vn2) as (b2 & W2 & _ & Vp2 & _).
  (* the union *)
  destruct (hit_step s src src2 (nd1, a1) (nd2, a2) shn b1 b2 ab s1 bb s' Hs2 P P2 W1 W2 Vp2 H1 H2)
    as (Hs2' & X & Ca1' & Cb' & Eq).
  cbn [fst snd] in Ca1', Cb', Eq.
  pose proof (proj1 Hs2') as Hs'.
  (* the children *)
  destruct (pre_kids s syn nd1 Hs CvS1 PS1) as (k1 & En1 & Fk1 & Wk1 & Bn1 & Pn1).
  destruct (pre_kids s syn2 nd2 Hs CvS2 PS2) as (k2 & En2 & Fk2 & Wk2 & Bn2 & Pn2).
  (* the binders *)
  assert (ND1 : NoDup (binders syn)).
  { apply (NoDup_map_inv (g false)). rewrite <- ren_binders. rewrite <- (binders_set_apps' _ l). rewrite <- EN. exact NDe. }
  assert (ND2 : NoDup (binders syn2)).
  { apply (NoDup_map_inv (g2 false)). rewrite <- ren_binders. rewrite <- (binders_set_apps' _ l2). rewrite <- EN2.
    destruct (tb_ws s T _ _ _ St2) as (n9 & b9 & W9). rewrite (apply_slotmap_ren _ _ _ A2), ren_binders.
    unfold asm_g. rewrite map_id. eapply ws_binders_nodup; eauto. }
  assert (ND1' : NoDup (binders nd1)) by (rewrite Bn1; exact ND1).
  assert (ND2' : NoDup (binders nd2)) by (rewrite Bn2; exact ND2).
  destruct (same_ws_ren nd1 nd2 shn b1 b2 W1 W2 ND1' ND2') as (hb & Ihb & Rhb & REN).
  rewrite Bn2 in Ihb, Rhb. rewrite Bn1 in Rhb.
  set (m := inv b2 ** b1) in *.
  set (hh := fun (fl : bool) (y : slot) =>
               if fl then match get m y with Some z => z | None => y + ectr s end else hb y).
  destruct (shape_bij_props _ _ _ W1) as (Wb1 & Bb1 & Vb1). destruct (shape_bij_props _ _ _ W2) as (Wb2 & Bb2 & Vb2).
  assert (Im : injective m).
  { apply compose_injective; [apply inverse_wf|apply inv_injective; [exact Wb2|apply is_bijection_injective; assumption]|
      apply is_bijection_injective; assumption]. }
  assert (Mval : forall y z, get m y = Some z -> In z (pub_occ syn)).
  { intros y z G. unfold m in G. rewrite get_compose_partial in G by apply inverse_wf.
    destruct (get (inv b2) y) as [k|]; [|discriminate]. apply Pn1. apply Vb1. eauto. }
  assert (Below : forall z, In z (all_occ syn) -> z < ectr s) by (intros z Hz; exact (SB src csrc z Hcs Hz)).
  assert (HTi : forall u v, hh true u = hh true v -> u = v).
  { intros u v E. unfold hh in E. destruct (get m u) as [zu|] eqn:Gu; destruct (get m v) as [zv|] eqn:Gv.
    - subst zv. exact (Im _ _ _ Gu Gv).
    - pose proof (Below _ (pub_occ_all_occ _ _ (Mval _ _ Gu))). lia.
    - pose proof (Below _ (pub_occ_all_occ _ _ (Mval _ _ Gv))). lia.
    - lia. }
  assert (HTb : forall u b, In b (binders syn2) -> hh true u <> hh false b).
  { intros u b Hb E. unfold hh in E. pose proof (Rhb b Hb) as Hin. destruct (get m u) as [zu|] eqn:Gu.
    - rewrite <- E in Hin. exact (SEP zu (Mval _ _ Gu) Hin).
    - pose proof (Below _ (binders_all_occ _ _ Hin)). lia. }
  assert (HFi : inj_on (hh false) (binders syn2)) by exact Ihb.
  assert (Rhh : ren_ok hh syn2).
  { split; [exact HFi|]. split; [intros u b _ Hb; exact (HTb u b Hb)|intros u v _ _ E; exact (HTi u v E)]. }
  assert (Hm : forall y, In y (pub_occ nd2) -> get m y = Some (hh true y)).
  { intros y Hy. pose proof (SelfSymDss.perm_dom _ _ _ _ _ W1 W2 y Hy) as D. fold m in D.
    unfold hh. destruct (get m y); [reflexivity|congruence]. }
  assert (NA : RenameFacts.ren hh nd2 = nd1).
  { apply REN; [intros b _; reflexivity|exact Hm]. }
  (* the node equation *)
  set (kk := zip_with (rv hh) (abounds syn2) k2).
  pose proof (Forall2_length' _ _ _ Fk1) as Lk1. pose proof (Forall2_length' _ _ _ Fk2) as Lk2.
  assert (Lkk : List.length kk = List.length (app_occ (RenameFacts.ren hh syn2))).
  { unfold kk. rewrite app_occ_ren. rewrite !zip_with_len; [exact Lk2|apply abounds_length|rewrite abounds_length; lia]. }
  assert (Ekk : nd1 = set_apps (RenameFacts.ren hh syn2) kk).
  { rewrite <- NA. rewrite En2. symmetry. apply set_apps_ren. }
  assert (Akk : kk = k1).
  { rewrite <- (app_occ_set_apps (RenameFacts.ren hh syn2) kk Lkk). rewrite <- Ekk. rewrite En1. apply app_occ_set_apps. exact Lk1. }
  (* the later state *)
  pose proof (mext_kmono _ _ X) as KM.
  destruct (proj2 KM _ _ Hcs) as (c & Hc' & _ & Esyn).
  destruct (proj2 KM _ _ Hcs2) as (csrc2n & Hcs2n & _ & Esyn2).
  exists src2, c. split; [exists i2, shn, cb2; exact St2|]. split; [exact Hc'|].
  unfold syn_app. rewrite Esyn. fold syn.
  exists csrc2n, hh, (app_occ syn). rewrite Esyn2. fold syn2.
  split; [exact Hcs2n|]. split; [exact Rhh|]. split; [|split].
  - rewrite <- (set_apps_twice (RenameFacts.ren hh syn2) kk (app_occ syn)) by (rewrite <- Lkk, Akk; lia).
    rewrite <- Ekk, En1. rewrite set_apps_twice by lia. symmetry. apply set_apps_self.
  - eapply Forall2_impl; [exact (proj1 KM)|].
    rewrite app_occ_ren.
    apply (SelfSymReadd.fp_Forall2_trans (kid_eq s) _ kk _ (fun x y z Q1 Q2 => kid_eq_trans s x y z Hs Q1 Q2)).
    + unfold kk. apply (SelfSymReadd.Forall2_zip3 (kid_eq s) (kid_eq s) (rv hh) _ _ Fk2). intros bd u v Hbd Hv Puv.
      apply SelfSymReadd.kid_eq_rv; [exact Hs|exact Puv|apply Wk2; exact Hv|]. intros y z _ _ E.
      pose proof (SelfSymReadd.abounds_sub syn2 bd Hbd) as Sb.
      destruct (existsb (N.eqb y) bd) eqn:Ey; destruct (existsb (N.eqb z) bd) eqn:Ez; cbn [negb] in E.
      * apply SelfSymReadd.existsb_eqb_in in Ey, Ez. apply HFi; [apply Sb; exact Ey|apply Sb; exact Ez|exact E].
      * apply SelfSymReadd.existsb_eqb_in in Ey. exfalso. exact (HTb z y (Sb y Ey) (eq_sym E)).
      * apply SelfSymReadd.existsb_eqb_in in Ez. exfalso. exact (HTb y z (Sb z Ez) E).
      * exact (HTi y z E).
    + rewrite Akk. apply Forall2_flip; [intros u v; apply kid_eq_sym; exact Hs|exact Fk1].
  - (* the root *)
    set (gm := rho_map hh (slots syn2)).
    pose proof (covers_syn_id s src2 csrc2 Hs Hcs2) as C02. fold syn2 in C02.
    pose proof (covers_syn_id s src csrc Hs Hcs) as C01. fold syn in C01.
    destruct (proj1 KM _ _ (kid_eq_find s _ a2 Hs C02 Fp2)) as (C02' & Ca2' & E02').
    destruct (proj1 KM _ _ (kid_eq_find s _ a1 Hs C01 Fp1)) as (C01' & Ca1'' & E01').
    destruct (pc_props s src2 (nd2, a2) Hs P2) as (L2 & _). cbn [fst snd] in L2.
    destruct (canon_wf_inj _ _ (proj2 L2)) as [Wp2 Ip2].
    assert (Wgm : wf gm) by (unfold gm, rho_map; apply from_iter_wf).
    assert (Ggm : forall y, In y (slots syn2) -> get gm y = Some (hh true y)).
    { intros y Hy. unfold gm. rewrite SelfSymDss.get_rho_map. rewrite (proj2 (sset_mem_in _ _) Hy). reflexivity. }
    assert (Igm : injective gm).
    { intros y1 y2 v Q1 Q2. unfold gm in Q1, Q2. rewrite SelfSymDss.get_rho_map in Q1, Q2.
      destruct (sset_mem y1 (slots syn2)); [|discriminate]. destruct (sset_mem y2 (slots syn2)); [|discriminate].
      apply HTi. congruence. }
    pose proof (SelfSymDss.pai_values s src2 _ a2 Hs Fp2) as Vs2.
    assert (Did : forall y, In y (values (identity (slots syn2))) -> get gm y <> None).
    { intros y Hy. apply values_spec in Hy; [|apply identity_wf]. destruct Hy as (k & Q).
      apply pid_identity_get in Q. destruct Q as [-> Q]. rewrite (Ggm k Q). discriminate. }
    pose proof (SelfSymDss.eq_ren s' _ _ gm Hs' C02' Ca2' (identity_wf _) Wp2 Igm Did E02') as J0. cbn [aid am] in J0.
    pose proof (SelfSymDss.covers_comp s' _ gm C02' (identity_wf _) Igm Did) as Cgm. cbn [aid am] in Cgm.
    unfold gm in J0, Cgm. rewrite SelfSymDss.id_rho in J0, Cgm. fold gm in J0, Cgm.
    assert (EQm : am a2 ** gm = am a2 ** m).
    { apply SelfSymDss.comp_agree; [exact Wp2|]. intros y Hy. rewrite (Ggm y (Vs2 y Hy)). symmetry. apply Hm. apply Vp2. exact Hy. }
    rewrite EQm in J0.
    split; [exact Cgm|]. split; [exact C01'|].
    apply (eg_eq_trans_true s' _ _ _ Hs' Cgm Cb' C01' J0).
    apply (eg_eq_trans_true s' _ a1 _ Hs' Cb' Ca1' C01').
    + apply eg_eq_sym_true; assumption.
    + apply eg_eq_sym_true; assumption.
Qed.

(* the added premise as a state invariant: kept by `ext` (classes persist with their syntactic node, none is added);
   evaluated executably (true after every handle_pending step / union_internal / at the entry of every rebuild of the 15
   histories RepFacts.rep_hists, 9 of which have binders) with RepReachCheck.run_c and
     syn_sepb s := forallb (fun c => forallb (fun z => negb (existsb (N.eqb z) (binders (c_syn c)))) (pub_occ (c_syn c))) (classes s).
   It holds at the creation of a class by mk_singleton_class: the public slots of syn_fresh are fresh (>= ctr), its
   binders are those of the inserted node (< ctr: the premise `Forall (fun b => b < ectr s) (binders en)` of
   SelfSymCond.mk_singleton_main). *)
Definition syn_sep (s : egraph) : Prop :=
  forall i c, get_class s i = Ok c -> forall z, In z (pub_occ (c_syn c)) -> ~ In z (binders (c_syn c)).

Lemma syn_sep_empty : syn_sep empty_egraph.
Proof. intros i c H. unfold get_class in H. cbn in H. destruct (N.to_nat i); discriminate. Qed.

Lemma syn_sep_ext : forall s s', ext s s' -> syn_sep s -> syn_sep s'.
Proof.
  intros s s' X H i c' Hc'. pose proof X as (_ & L & Xc).
  pose proof (get_class_lt _ _ _ Hc') as Li. change (List.length (classes s')) with (lc s') in Li. rewrite L in Li.
  destruct (get_class_ok s i Li) as [c Hc]. destruct (Xc _ _ Hc) as (c2 & Hc2 & _ & Sy).
  rewrite Hc' in Hc2. inversion Hc2; subst c2. rewrite Sy. exact (H _ _ Hc).
Qed.

Corollary hit_source_sep : forall s src enode i1 t hit pc x s',
  inv3 s -> m4 s -> hce noex s -> srcx noex s -> syn_sep s ->
  srcok_inv s i1 enode src -> NoDup (binders enode) -> (exists n0, find_enode s n0 = Ok enode) ->
  shape s enode = Ok t -> lookup_internal s t = Ok (Some hit) ->
  pc_from_src_id s src = Ok pc -> handle_congruence pc s = Ok (x, s') ->
  exists src2 c, srcs s src2 /\ get_class s' src = Ok c /\ srcok_inv s' (syn_app src c) (c_syn c) src2.
Proof.
  intros s src enode i1 t hit pc x s' I3 M4 HC SX SS Fl NDe Fn Ht Hlk P H.
  exact (hit_source s src enode i1 t hit pc x s' I3 M4 HC SX Fl NDe Fn Ht Hlk P H (fun c Hc => SS src c Hc)).
Qed.

Print Assumptions hit_source_sep.
Print Assumptions hit_source.
