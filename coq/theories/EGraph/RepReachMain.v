(* EGraph/RepReachMain.v — the development of RepFacts.v Section Rep, redone with the stronger bundle `gd` of invariants
   (gd s = hcb s /\ sse noex s /\ srcx noex s /\ covd nosrc s, all kept by every operation), so that the five hypotheses
   of RepFacts.v become theorems.  Conditional on the two statements of Section Main (hash-cons hit, new class), which
   are discharged in RepReach.v. *)
From SE Require Import Slots.SlotMapFacts Group.GroupSound Lang.LangFacts Lang.ShapeFacts Lang.RenameFacts
  Slots.SlotFacts Base.TextFacts EGraph.Model EGraph.ModelFacts EGraph.ModelMachine EGraph.PendingFacts EGraph.UnionFindFacts
  EGraph.InvariantFacts EGraph.UnionInvariantFacts EGraph.AddCoversFacts EGraph.MonotoneFacts EGraph.HashconsShape
  EGraph.Mod4Facts EGraph.HashconsAbs EGraph.Model9 EGraph.HashconsFacts EGraph.NodeCong EGraph.KidEqFacts EGraph.ShapeCong
  EGraph.CongruenceFacts EGraph.RepFacts EGraph.SelfSymDefs EGraph.SelfSymCond EGraph.RepReachDefs EGraph.RepReachCond
  EGraph.RepReachTrans EGraph.RepReachA EGraph.RepReachB EGraph.RepReachFwd EGraph.RepReachRefl EGraph.RepReachNlp.
From SE Require EGraph.SelfSymReadd EGraph.SelfSymUnion EGraph.MatchReprFix.
Require Import ZArith Lia ZifyBool ZifyN ZifyNat.

Local Notation "a ** b" := (compose_partial a b) (at level 40, left associativity).
Local Notation inv := inverse_nocheck.
Local Notation ectr := Model.ctr.

Lemma gd_good : forall s, gd s -> good s.
Proof. intros s [(B & SS & _) _]. split; [exact B|]. destruct B as (_ & Pe & _). exact (sse_ss_ok s SS Pe). Qed.

Section Main.
  Hypothesis H_hit : forall s src enode i1 t hit pc x s',
    inv3 s -> m4 s -> hce noex s -> srcx noex s ->
    srcok_inv s i1 enode src -> NoDup (binders enode) -> (exists n0, find_enode s n0 = Ok enode) ->
    shape s enode = Ok t -> lookup_internal s t = Ok (Some hit) ->
    pc_from_src_id s src = Ok pc -> handle_congruence pc s = Ok (x, s') ->
    (forall c, get_class s src = Ok c -> forall z, In z (pub_occ (c_syn c)) -> ~ In z (binders (c_syn c))) ->
    exists src2 c, srcs s src2 /\ get_class s' src = Ok c /\ srcok_inv s' (syn_app src c) (c_syn c) src2.
  Hypothesis H_new : forall n t s a s',
    inv3 s -> m4 s -> pending s = [] -> hc_ok s -> ectr s mod 4 = 1 -> node_pre s n ->
    (forall x, In x (pub_occ n) -> ~ In x (binders n)) ->
    (forall b, In b (binders n) -> b < ectr s \/ b mod 4 <> 1) ->
    shape s n = Ok t -> lookup_internal s t = Ok None -> add_internal t s = Ok (a, s') ->
    exists j, srcok_inv s' a n j.

  (* the bundle of invariants of the states between operations *)
  Definition gds (s : egraph) : Prop := gd s /\ synsep s.
  Lemma gds_good : forall s, gds s -> good s.
  Proof. intros s [G _]. exact (gd_good s G). Qed.
  Lemma gds_empty : gds empty_egraph.
  Proof. split; [exact gd_empty|exact synsep_empty]. Qed.
  Lemma gds_add : forall n s a s', gds s -> node_pre s n -> eg_add n s = Ok (a, s') -> gds s'.
  Proof.
    intros n s a s' [G S].
    exact (gd_eg_add srcok_inv_trans H_hit fps_uint fps_hp_loop fps_handle_congruence fps_determine_self_symmetries new_refl n s a s' G S).
  Qed.
  Lemma gds_union : forall l r s u s', gds s -> covers s l -> covers s r -> eg_union l r s = Ok (u, s') -> gds s'.
  Proof.
    intros l r s u s' [G S].
    exact (gd_eg_union srcok_inv_trans H_hit fps_uint fps_hp_loop fps_handle_congruence fps_determine_self_symmetries l r s u s' G S).
  Qed.

  (* LOOKUP AFTER ADD for the miss branch *)
  Lemma laa_gd : forall n s a s', gd s -> gd s' -> node_pre s n -> eg_lookup s n = Ok None -> eg_add n s = Ok (a, s') ->
    exists x, eg_lookup s' n = Ok (Some x) /\ eg_eq s' x a = Ok true.
  Proof.
    intros n s a s' [((I3 & Pe & Hs & M) & SS & SX) CV] [((I3' & Pe' & Hs' & M') & SS' & SX') CV'] NP L0 H.
    pose proof NP as (Cv & Pn & ND).
    pose proof (eg_add_covers n s a s' I3 H) as (_ & _ & Ca).
    unfold eg_add in H. apply bind_reads_inv in H. destruct H as (t & Ht & H).
    assert (Hlk : lookup_internal s t = Ok None) by (unfold eg_lookup in L0; rewrite Ht in L0; exact L0).
    pose proof (brn_ok (kbound n) n (kbound_pub n)) as RK.
    set (n' := RenameFacts.ren (brn (kbound n)) n) in *.
    assert (NP' : node_pre s n').
    { split; [exact (brn_covers s n Cv)|]. split; [unfold n'; rewrite brn_pub; exact Pn|exact (MatchReprFix.ren_ok_nodup _ _ RK ND)]. }
    destruct (H_new n' t s a s' I3 M Pe Hs (proj1 M) NP') as (j & S); [| |exact (shape_brn_eq s n t Ht)|exact Hlk|exact H|].
    { intros x Hx Hb. exact (brn_disj n x x Hx Hb eq_refl). }
    { intros b Hb. right. unfold n' in Hb. rewrite ren_binders in Hb. apply in_map_iff in Hb. destruct Hb as (b0 & <- & _).
      unfold brn. replace (4 * (b0 + kbound n) + 3) with (3 + (b0 + kbound n) * 4) by lia. rewrite N.mod_add by lia. cbv. discriminate. }
    pose proof S as (csrc' & g & l & Hc' & _).
    destruct (CV' j csrc' Hc') as (src' & [A|[]] & R).
    pose proof (srcok_inv_trans s' a n' j csrc' src' I3' M' Hc' S R) as S''.
    destruct A as (i' & sh' & cb' & St').
    destruct (SX' i' sh' cb' src' St') as [[]|K'].
    destruct (srcok_lookup s' n' a i' sh' cb' src' I3' M' Pe' Hs' (sse_ss_ok s' SS' Pe') St' K' S'' (MatchReprFix.ren_ok_nodup _ _ RK ND)) as (x2 & L2 & E2).
    destruct (brn_lookup_back s' n x2 I3' L2) as (z & Lz & Az & Gz).
    exists z. split; [exact Lz|].
    pose proof (eg_lookup_covers _ _ _ (proj2 I3') L2) as Cx2.
    pose proof (eg_lookup_covers _ _ _ (proj2 I3') Lz) as Cz.
    assert (K : kid_eq s' {| aid := aid a; am := am a |} {| aid := aid x2; am := am x2 |}).
    { destruct a as [ia ma]. destruct x2 as [ix mx]. cbn [aid am]. split; [exact Ca|]. split; [exact Cx2|exact E2]. }
    assert (K2 : kid_eq s' {| aid := aid a; am := am a |} {| aid := aid x2; am := am z |}).
    { apply (SelfSymUnion.kid_eq_get_ext s' (aid a) (am a) (am a) (aid x2) (am x2) (am z)); [reflexivity| |exact K].
      intros k. symmetry. apply Gz. }
    rewrite <- Az in K2. destruct a as [ia ma]. destruct z as [iz mz]. cbn [aid am] in K2.
    apply eg_eq_sym_true; [exact (proj1 (proj1 I3'))|exact Ca|exact Cz|exact (proj2 (proj2 K2))].
  Qed.

  (* the operations are steps *)
  Lemma eg_add_gstep : forall n s a s', gds s -> node_pre s n -> eg_add n s = Ok (a, s') ->
    gds s' /\ rstep s s' /\ covers s' a /\ exists x, eg_lookup s' n = Ok (Some x) /\ eg_eq s' x a = Ok true.
  Proof.
    intros n s a s' G NP H. pose proof (gds_add n s a s' G NP H) as G'.
    pose proof G as [[((I3 & Pe & Hh & M) & _) _] _].
    destruct (eg_add_covers n s a s' I3 H) as (I3' & E0 & Ca).
    pose proof (proj2 (inv4_eg_add n s a s' H (proj1 I3))) as X.
    split; [exact G'|]. split; [|split; [exact Ca|]].
    - split; [exact (gds_good s' G')|]. split; [exact X|exact (nlp_gd s s' (proj1 G) (proj1 G') X)].
    - destruct (eg_add_cases n s a s' H) as [(L & ->)|E]; [|exact (laa_gd n s a s' (proj1 G) (proj1 G') NP E H)].
      exists a. split; [exact L|]. destruct (good_parts s (gds_good s G)) as (_ & Hs & Nk & _).
      apply eg_eq_refl_inv; [exact (ei_uf _ Hs)|exact (ei_slots _ Hs)|exact (eg_lookup_covers _ _ _ Nk L)].
  Qed.

  Lemma eg_union_gstep : forall l r s u s', gds s -> covers s l -> covers s r -> eg_union l r s = Ok (u, s') -> gds s' /\ rstep s s'.
  Proof.
    intros l r s u s' G Cl Cr H. pose proof (gds_union l r s u s' G Cl Cr H) as G'.
    pose proof G as [[((I3 & Pe & Hh & M) & _) _] _].
    assert (X : mext0 s s') by (apply mext_mext0; exact (proj1 (proj2 (inv4_eg_union l r s u s' (proj1 I3) Cl Cr H)))).
    split; [exact G'|]. split; [exact (gds_good s' G')|]. split; [exact X|exact (nlp_gd s s' (proj1 G) (proj1 G') X)].
  Qed.

  (* 1. LOOKUP AFTER ADD, and the insertion of a term is a step *)
  Theorem rep_add_expr_g : forall t s a s', gds s -> term_pre t s -> twf t -> add_expr t s = Ok (a, s') ->
    gds s' /\ rstep s s' /\ rep s' t a.
  Proof.
    fix IH 1. intros [n ch] s a s' G TP (ND & Len & W) H. cbn [add_expr] in H. cbn [term_pre] in TP.
    apply mbind_inv in H. destruct H as (l & s1 & Hgo & H).
    match type of TP with ?go ch s ?K0 => set (GO := go) in *; set (K := K0) in * end.
    assert (Q : gds s1 /\ rstep s s1 /\ Forall2 (rep s1) ch l /\ K l s1).
    { clear H Len. clearbody K. revert s l s1 K G TP Hgo W.
      induction ch as [|c r IHr]; intros s l s1 K G TP Hgo W.
      - inversion Hgo; subst. cbn in TP. split; [exact G|]. split; [apply rstep_refl; exact (gds_good _ G)|]. split; [constructor|exact TP].
      - cbn in TP. destruct TP as [TPc TPr]. destruct W as (Wc & Wr).
        apply mbind_inv in Hgo. destruct Hgo as (a0 & s2 & Ha & Hgo).
        apply mbind_inv in Hgo. destruct Hgo as (r' & s3 & Hr & Hgo). inversion Hgo; subst l s3; clear Hgo.
        destruct (IH c s a0 s2 G TPc Wc Ha) as (G2 & R02 & Rc).
        destruct (IHr s2 r' s1 (fun l' s' => K (a0 :: l') s') G2 (TPr a0 s2 Ha) Hr Wr) as (G1 & R21 & Fr & Kr).
        split; [exact G1|]. split; [exact (rstep_trans s s2 s1 (gds_good _ G) R02 R21)|]. split; [|exact Kr].
        constructor; [|exact Fr]. exact (rep_persist s2 s1 (proj1 R02) R21 c a0 Wc Rc). }
    destruct Q as (G1 & R01 & F & NP). unfold K in NP.
    destruct (Nat.ltb _ _); [discriminate|].
    destruct (eg_add_gstep _ s1 a s' G1 NP H) as (G' & R1 & Ca & x & Lx & Ex).
    split; [exact G'|]. split; [exact (rstep_trans s s1 s' (gds_good _ G) R01 R1)|].
    pose proof (gds_good _ G1) as Gd1. pose proof (gds_good _ G') as Gd'. destruct (good_parts s' Gd') as (_ & Hs' & Nk' & _).
    assert (F' : Forall2 (rep s') ch l).
    { clear - F R1 Gd1 W. revert W. induction F as [|c a0 ch' l' Hc F IHF]; intros W; constructor.
      - exact (rep_persist s1 s' Gd1 R1 c a0 (proj1 W) Hc).
      - exact (IHF (proj2 W)). }
    destruct (node_rep s' n ch l x Gd' ND Len F' Lx) as (x2 & L2 & E2).
    pose proof (eg_lookup_covers _ _ _ Nk' Lx) as Cx. pose proof (lookup_rec_covers _ _ _ Nk' L2) as Cx2.
    split; [exact Ca|]. exists x2. split; [exact L2|].
    apply (eg_eq_trans_true s' x2 x a Hs' Cx2 Cx Ca); [apply eg_eq_sym_true; assumption|exact Ex].
  Qed.

  Lemma rep_run_ops_g : forall terms, (forall t, In t terms -> twf t) ->
    forall ops idx hs s hs' s', gds s -> Forall (covers s) hs -> List.length idx = List.length hs ->
    (forall k a, In (k, a) (combine idx hs) -> exists t, nth_opt terms k = Some t /\ rep s t a) ->
    ops_pre terms ops hs s -> run_ops terms ops hs s = Ok (hs', s') ->
    gds s' /\ forall k a, In (k, a) (combine (idx ++ add_idx ops) hs') -> exists t, nth_opt terms k = Some t /\ rep s' t a.
  Proof.
    intros terms TW. induction ops as [|o t IH]; intros idx hs s hs' s' G Hc Len HR OP H; cbn [run_ops] in H; cbn [ops_pre] in OP.
    - inversion H; subst. unfold add_idx. cbn [flat_map]. rewrite app_nil_r. auto.
    - destruct o as [k|i j just].
      + destruct (nth_opt terms k) as [tm|] eqn:Ek; [|discriminate]. destruct OP as [TP OP].
        apply mbind_inv in H. destruct H as (a & s1 & H1 & H).
        pose proof (TW tm (nth_opt_In _ _ _ Ek)) as Wt.
        destruct (rep_add_expr_g tm s a s1 G TP Wt H1) as (G1 & R & Ra).
        change (add_idx (HAdd k :: t)) with ([k] ++ add_idx t). rewrite app_assoc.
        apply (IH (idx ++ [k]) (hs ++ [a]) s1 hs' s' G1); [| | |exact (OP a s1 H1)|exact H].
        * apply Forall_app. split; [|constructor; [exact (proj1 Ra)|constructor]].
          revert Hc. apply Forall_impl. intros x. apply covers_ext0. exact (proj1 (proj1 (proj2 R))).
        * rewrite !app_length. cbn. lia.
        * intros k' a' Hin. rewrite (combine_snoc idx hs k a Len) in Hin. apply in_app_or in Hin.
          destruct Hin as [Hin|[Hin|[]]].
          -- destruct (HR k' a' Hin) as (t' & Et & Rt). exists t'. split; [exact Et|].
             exact (rep_persist s s1 (gds_good _ G) R t' a' (TW t' (nth_opt_In _ _ _ Et)) Rt).
          -- inversion Hin; subst k' a'. exists tm. auto.
      + destruct (nth_opt hs i) as [a|] eqn:Ei; [|discriminate]. destruct (nth_opt hs j) as [b|] eqn:Ej; [|discriminate].
        apply mbind_inv in H. destruct H as (u & s1 & H1 & H).
        pose proof (proj1 (Forall_forall _ _) Hc a (nth_opt_In _ _ _ Ei)) as Ca.
        pose proof (proj1 (Forall_forall _ _) Hc b (nth_opt_In _ _ _ Ej)) as Cb.
        destruct (eg_union_gstep a b s u s1 G Ca Cb H1) as (G1 & R).
        change (add_idx (HUnion i j just :: t)) with (add_idx t).
        apply (IH idx hs s1 hs' s' G1); [|exact Len| |exact (OP u s1 H1)|exact H].
        * revert Hc. apply Forall_impl. intros x. apply covers_ext0. exact (proj1 (proj1 (proj2 R))).
        * intros k' a' Hin. destruct (HR k' a' Hin) as (t' & Et & Rt). exists t'. split; [exact Et|].
          exact (rep_persist s s1 (gds_good _ G) R t' a' (TW t' (nth_opt_In _ _ _ Et)) Rt).
  Qed.

  Theorem handles_rep_reachable_c : forall terms ops hs s, (forall t, In t terms -> twf t) ->
    ops_pre terms ops [] empty_egraph -> run_ops terms ops [] empty_egraph = Ok (hs, s) ->
    gds s /\ forall k a, In (k, a) (combine (add_idx ops) hs) -> exists t, nth_opt terms k = Some t /\ rep s t a.
  Proof.
    intros terms ops hs s TW OP H.
    apply (rep_run_ops_g terms TW ops [] [] empty_egraph hs s gds_empty (Forall_nil _) eq_refl); [|exact OP|exact H].
    intros k a [].
  Qed.

  (* the bundle along insertions and runs (no premise on the terms besides ops_pre) *)
  Theorem gds_add_expr : forall t s a s', gds s -> term_pre t s -> add_expr t s = Ok (a, s') -> gds s'.
  Proof.
    fix IH 1. intros [n ch] s a s' B TP H. cbn [add_expr] in H. cbn [term_pre] in TP.
    apply mbind_inv in H. destruct H as (l & s1 & Hgo & H).
    match type of TP with ?go ch s ?K0 => set (G := go) in *; set (K := K0) in * end.
    assert (Q : gds s1 /\ K l s1).
    { clear H. clearbody K. revert s l s1 K B TP Hgo.
      induction ch as [|c r IHr]; intros s l s1 K B TP Hgo.
      - inversion Hgo; subst. cbn in TP. auto.
      - cbn in TP. destruct TP as [TPc TPr].
        apply mbind_inv in Hgo. destruct Hgo as (a0 & s2 & Ha & Hgo).
        apply mbind_inv in Hgo. destruct Hgo as (r' & s3 & Hr & Hgo). inversion Hgo; subst l s3; clear Hgo.
        pose proof (IH c s a0 s2 B TPc Ha) as B2.
        exact (IHr s2 r' s1 (fun l' s' => K (a0 :: l') s') B2 (TPr a0 s2 Ha) Hr). }
    destruct Q as [B1 NP]. unfold K in NP.
    destruct (Nat.ltb _ _); [discriminate|].
    exact (gds_add _ _ _ _ B1 NP H).
  Qed.

  Lemma gds_run_ops : forall terms ops hs s hs' s', gds s -> Forall (covers s) hs -> ops_pre terms ops hs s ->
    run_ops terms ops hs s = Ok (hs', s') -> gds s'.
  Proof.
    intros terms. induction ops as [|o t IH]; intros hs s hs' s' B Hc OP H; cbn [run_ops] in H; cbn [ops_pre] in OP.
    - inversion H; subst. assumption.
    - destruct o as [k|i j just].
      + destruct (nth_opt terms k) as [tm|] eqn:Ek; [|discriminate]. destruct OP as [TP OP].
        apply mbind_inv in H. destruct H as (a & s1 & H1 & H).
        pose proof B as [[((I3 & _) & _) _] _].
        destruct (add_expr_covers tm s a s1 I3 H1) as (I1 & E01 & Ca).
        eapply IH; [exact (gds_add_expr tm s a s1 B TP H1)| |exact (OP a s1 H1)|exact H].
        apply Forall_app. split; [|constructor; [assumption|constructor]].
        revert Hc. apply Forall_impl. intros x. apply covers_ext0. assumption.
      + destruct (nth_opt hs i) as [a|] eqn:Ei; [|discriminate]. destruct (nth_opt hs j) as [b|] eqn:Ej; [|discriminate].
        apply mbind_inv in H. destruct H as (u & s1 & H1 & H).
        pose proof (proj1 (Forall_forall _ _) Hc a (nth_opt_In _ _ _ Ei)) as Ca.
        pose proof (proj1 (Forall_forall _ _) Hc b (nth_opt_In _ _ _ Ej)) as Cb.
        pose proof B as [[((I3 & _) & _) _] _].
        destruct (eg_union_inv3 a b s u s1 I3 Ca Cb H1) as [I1 E1].
        eapply IH; [exact (gds_union a b s u s1 B Ca Cb H1)| |exact (OP u s1 H1)|exact H].
        revert Hc. apply Forall_impl. intros x. apply covers_ext. assumption.
  Qed.

  Theorem reachable_gds : forall terms ops hs s, ops_pre terms ops [] empty_egraph ->
    run_ops terms ops [] empty_egraph = Ok (hs, s) -> gds s.
  Proof. intros terms ops hs s OP H. exact (gds_run_ops terms ops [] empty_egraph hs s gds_empty (Forall_nil _) OP H). Qed.
End Main.
