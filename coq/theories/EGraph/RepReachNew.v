(* EGraph/RepReachNew.v -- the node inserted by the MISS branch of add_internal is source-coherent (`srcok_inv` of
   SelfSymDefs.v) with the new class, for the returned invocation:  `new_source`, and `new_source_eg_add` at the level
   of eg_add.  Two premises beyond `node_pre` are needed (clause (2) of `ren_ok` in `srcok_inv` fails without them):
   the public slots of n are not binder names of n, and the binder names of n do not collide with the fresh slots
   still to be drawn (the binder analogue of the second clause of node_pre).
   Witness: g true := f2o (the fresh slot of the class |-> the slot of en3), g false := the inverse of the binder
   refreshing (binders n |-> binders synf), l := app_occ n. *)
From SE Require Import Slots.SlotMapFacts Group.GroupSound Lang.LangFacts Lang.ShapeFacts Lang.RenameFacts
    Slots.SlotFacts Base.TextFacts EGraph.Model EGraph.ModelFacts EGraph.ModelMachine EGraph.PendingFacts EGraph.UnionFindFacts
    EGraph.InvariantFacts EGraph.UnionInvariantFacts EGraph.AddCoversFacts EGraph.MonotoneFacts EGraph.HashconsShape
    EGraph.Mod4Facts EGraph.HashconsAbs EGraph.Model9 EGraph.HashconsFacts EGraph.NodeCong EGraph.KidEqFacts EGraph.ShapeCong
    EGraph.CongruenceFacts EGraph.SelfSymDefs EGraph.SelfSymCond EGraph.RepReachDefs.
From SE Require EGraph.SoundAddNew EGraph.SoundUnion EGraph.SelfSymUnion EGraph.SelfSymReadd EGraph.SelfSymDss EGraph.SelfSymNew.
From SE Require EGraph.SoundAddExpr EGraph.KidsCov EGraph.SoundVals EGraph.SoundSyn.
Require Import ZArith Lia ZifyBool ZifyN ZifyNat.
Local Notation "a ** b" := (compose_partial a b) (at level 40, left associativity).
Local Notation inv := inverse_nocheck.
Local Notation ectr := Model.ctr.


(* ---------------- helpers ---------------- *)
Lemma rn_kid_eq_sym : forall s a b, eg_inv s -> kid_eq s a b -> kid_eq s b a.
Proof.
  intros s a b Hs (Ca & Cb & E). split; [exact Cb|]. split; [exact Ca|]. apply eg_eq_sym_true; assumption.
Qed.

Lemma rn_Forall2_flip : forall {A} (P : A -> A -> Prop) l r, (forall x y, P x y -> P y x) -> Forall2 P l r -> Forall2 P r l.
Proof. intros A P l r H F. induction F; constructor; auto. Qed.

Lemma rn_kid_eq_refl : forall s a, eg_inv s -> covers s a -> kid_eq s a a.
Proof.
  intros s a Hs C. split; [exact C|]. split; [exact C|]. pose proof Hs as [U S _]. exact (eg_eq_refl_inv s a U S C).
Qed.

Lemma rn_zip_with_length : forall {A B C} (f : A -> B -> C) l1 l2, List.length l1 = List.length l2 ->
  List.length (zip_with f l1 l2) = List.length l2.
Proof.
  intros A B C f. induction l1 as [|x t IH]; intros l2 L; destruct l2 as [|y r]; cbn [zip_with List.length] in *; try lia.
  rewrite IH; lia.
Qed.

Lemma rn_flag_false_binders : forall n x, In (x, false) (occ_flags n) -> In x (binders n).
Proof.
  intros n x H. apply prv_binders. unfold prv_occ. apply in_map_iff. exists (x, false). split; [reflexivity|].
  apply filter_In. split; [exact H|reflexivity].
Qed.

Definition rn_ginv (h : slot -> slot) (bs : list slot) (z : slot) : slot :=
  match find (fun b => h b =? z) bs with Some b => b | None => z end.

Lemma rn_ginv_h : forall h bs b, In b bs -> inj_on h bs -> rn_ginv h bs (h b) = b.
Proof.
  intros h bs b Hb I. unfold rn_ginv. destruct (find (fun b0 => h b0 =? h b) bs) as [b'|] eqn:F.
  - apply find_some in F. destruct F as [Hb' E]. apply N.eqb_eq in E. apply I; assumption.
  - exfalso. pose proof (find_none _ _ F b Hb) as T. cbv beta in T. rewrite N.eqb_refl in T. discriminate.
Qed.

(* the pre-shape replaces the children by eg-equal ones *)
Lemma rn_pre_kids : forall s n p, eg_inv s -> Forall (covers s) (app_occ n) -> pre_shape s n = Ok p ->
  exists lp, p = set_apps n lp /\ Forall2 (kid_eq s) (app_occ n) lp /\ (forall b, In b lp -> wf (am b)) /\
    List.length lp = List.length (app_occ n).
Proof.
  intros s n p Hs Cov Hp. unfold pre_shape in Hp.
  destruct (find_enode s n) as [n1|] eqn:Fe; cbn [bind] in Hp; [|discriminate].
  destruct (variants s n1) as [vs|] eqn:Ev; cbn [bind] in Hp; [|discriminate].
  assert (Hin : In p vs).
  { destruct (min_variant_in vs None p Hp) as [Hin|[k Hk]]; [exact Hin|discriminate]. }
  pose proof (found_kids s n n1 Hs Cov Fe) as FK.
  pose proof Fe as Fe'. unfold find_enode in Fe'.
  destruct (mapr (find_applied_id s) (app_occ n)) as [l1|] eqn:El; cbn [bind] in Fe'; [|discriminate].
  inversion Fe' as [En1]. clear Fe'.
  pose proof (mapr_length _ _ _ El) as Ll.
  assert (F1 : Forall2 (kid_eq s) (app_occ n) l1).
  { apply (kid_eq_mapr_find s (app_occ n) (app_occ n) l1 Hs); [|exact El].
    clear - Cov Hs. induction Cov as [|x l Cx F IH]; constructor; [apply rn_kid_eq_refl; assumption|exact IH]. }
  assert (A1 : app_occ n1 = l1) by (rewrite <- En1; apply app_occ_set_apps; exact Ll).
  assert (CK : forall a0, In a0 (app_occ n1) -> ckid s a0).
  { intros a0 Ha0. destruct (FK a0 Ha0) as [C L]. split; [exact L|exact C]. }
  destruct (variants_inv s n1 vs CK Ev) as (cls & Ecls & [[Triv Evs]|[NTriv (groups & Eg & Fg & Evs)]]).
  - subst vs. destruct Hin as [E|[]]. subst p. exists l1. split; [symmetry; exact En1|]. split; [exact F1|]. split; [|exact Ll].
    intros b Hb'. rewrite <- A1 in Hb'. destruct (FK b Hb') as [_ (e & c & _ & _ & _ & _ & _ & W & _)]. exact W.
  - subst vs. apply in_map_iff in Hin. destruct Hin as (perms & Ep & Hperms).
    set (l2 := zip_with gvar (app_occ n1) perms) in *.
    assert (F2 : Forall2 (kid_eq s) (app_occ n1) l2).
    { unfold l2. apply (zip_cart_gvar (kid_eq s) (app_occ n1) groups); [|exact Hperms].
      clear - Fg Hs. induction Fg as [|x G la lg Hx Fg IH]; constructor; [|exact IH].
      intros pp Hpp. destruct Hx as [[L C] (c & Gc & Ga)].
      exact (gvar_eg_eq s x c G pp Hs C L Gc Ga Hpp). }
    pose proof (Forall2_length' _ _ _ F2) as Len2. rewrite A1 in Len2.
    exists l2. split; [|split; [|split]].
    + rewrite <- Ep, <- En1. apply set_apps_twice. lia.
    + rewrite A1 in F2.
      exact (SelfSymReadd.fp_Forall2_trans (kid_eq s) _ l1 l2 (fun x y z H1 H2 => kid_eq_trans s x y z Hs H1 H2) F1 F2).
    + intros b Hb'. exact (SelfSymReadd.fp_zip_gvar_wf _ _ _ Hb').
    + lia.
Qed.

Lemma rn_zip_ext_kid : forall s (H : bool -> slot -> slot), eg_inv s -> forall l2 l3, Forall2 SoundAddNew.child_ext l2 l3 ->
  forall bds, Forall (covers s) (zip_with (rv H) bds l2) -> Forall (covers s) (zip_with (rv H) bds l3) ->
  Forall2 (kid_eq s) (zip_with (rv H) bds l3) (zip_with (rv H) bds l2).
Proof.
  intros s H Hs l2 l3 F. induction F as [|x2 x3 l2 l3 (Ea & Kp & Ij) F IH]; intros bds C2 C3.
  - destruct bds; constructor.
  - destruct bds as [|bd t]; cbn [zip_with] in *; [constructor|].
    inversion C2 as [|y2 r2 Cx2 Ct2]; subst. inversion C3 as [|y3 r3 Cx3 Ct3]; subst.
    constructor; [|apply IH; assumption].
    split; [exact Cx3|]. split; [exact Cx2|].
    pose proof Cx2 as (c & Hc & I2 & S2). unfold rv in Hc, S2. cbn [aid am] in Hc, S2.
    assert (Fi : find_applied_id s (rv H bd x3) = find_applied_id s (rv H bd x2)).
    { unfold rv. rewrite Ea. apply (MonotoneFacts.find_agree s (aid x2) c _ _ Hs Hc). intros k Hk.
      pose proof (S2 k Hk) as T. rewrite !SoundUnion.get_ren_vals. rewrite SoundUnion.get_ren_vals in T.
      destruct (get (am x2) k) as [v|] eqn:G; [|cbn [option_map] in T; congruence].
      rewrite (Kp _ _ G). reflexivity. }
    rewrite (eg_eq_find_congr s _ _ _ _ Fi eq_refl).
    pose proof Hs as [U S _]. exact (eg_eq_refl_inv s _ U S Cx2).
Qed.

(* the fresh slots drawn by synify, with the lower bound *)
Definition rn_frl (c : N) (v : slot) : Prop := v mod 4 = 1 /\ c <= v.

Lemma rn_fill_fresh_vals : forall l m s m' s', fill_fresh l m s = Ok (m', s') -> ectr s mod 4 = 1 ->
  ectr s' mod 4 = 1 /\ ectr s <= ectr s' /\
  forall v, In v (values_vec m') -> In v (values_vec m) \/ rn_frl (ectr s) v.
Proof.
  induction l as [|x t IH]; intros m s m' s' H Cm; cbn [fill_fresh] in H.
  - inversion H; subst. split; [exact Cm|]. split; [lia|]. intros v Hv. left. exact Hv.
  - destruct (contains_key m x); [exact (IH _ _ _ _ H Cm)|].
    apply mbind_inv in H. destruct H as (f & s1 & H1 & H). inversion H1; subst f s1; clear H1.
    destruct (IH _ _ _ _ H) as (Cm' & Le & V).
    + cbn [Model.ctr set_ctr]. lia.
    + cbn [Model.ctr set_ctr] in Le, V. split; [exact Cm'|]. split; [lia|].
      intros v Hv. destruct (V v Hv) as [T|[T1 T2]]; [|right; split; [exact T1|lia]].
      unfold values_vec in T. apply in_map_iff in T. destruct T as (p & Ep & Hp).
      apply SoundVals.in_insert in Hp. destruct Hp as [->|Hp].
      * cbn [snd] in Ep. subst v. right. split; [exact Cm|lia].
      * left. unfold values_vec. apply in_map_iff. exists p. split; assumption.
Qed.

Lemma rn_mapM_synify_vals : forall l s r s', mapM synify_app_id l s = Ok (r, s') -> ectr s mod 4 = 1 ->
  ectr s' mod 4 = 1 /\ ectr s <= ectr s' /\ Forall2 (SoundVals.vals_ext (rn_frl (ectr s))) l r.
Proof.
  induction l as [|a t IH]; intros s r s' H Cm; cbn [mapM] in H.
  - inversion H; subst. split; [exact Cm|]. split; [lia|constructor].
  - apply mbind_inv in H. destruct H as (a' & s1 & H1 & H).
    apply mbind_inv in H. destruct H as (r' & s2 & H2 & H). inversion H; subst r s2; clear H.
    unfold synify_app_id in H1. apply bind_reads_inv in H1. destruct H1 as (ss & _ & H1).
    apply mbind_inv in H1. destruct H1 as (m' & s1' & H1 & H1'). inversion H1'; subst a' s1'; clear H1'.
    change (fill_fresh ss (am a) s = Ok (m', s1)) in H1.
    destruct (rn_fill_fresh_vals _ _ _ _ _ H1 Cm) as (Cm1 & Le1 & V1).
    destruct (IH _ _ _ H2 Cm1) as (Cm2 & Le2 & V2).
    split; [exact Cm2|]. split; [lia|]. constructor.
    + intros v Hv. cbn [am] in Hv. exact (V1 v Hv).
    + revert V2. apply Forall2_impl. intros x y Hxy v Hv. destruct (Hxy v Hv) as [T|[T1 T2]]; [left; exact T|right; split; [exact T1|lia]].
Qed.

Lemma rn_pub_ext : forall n l, Forall2 SoundAddNew.child_ext (app_occ n) l -> (forall x, In x (app_occ n) -> wf (am x)) ->
  incl (pub_occ n) (pub_occ (set_apps n l)).
Proof.
  intros n l F W. pose proof (Forall2_length' _ _ _ F) as Len.
  assert (E : n = set_apps (set_apps n l) (app_occ n)).
  { rewrite set_apps_twice by lia. symmetry. apply set_apps_self. }
  rewrite E at 1. apply set_apps_pub_sub. rewrite (app_occ_set_apps n l Len).
  clear E Len. revert F W. generalize (app_occ n). intros l0 F W. induction F as [|x2 x3 l2 l3 (Ea & Kp & Ij) F IH]; constructor.
  - intros v Hv. unfold values_vec in Hv. apply in_map_iff in Hv. destruct Hv as ([k v'] & Ev & Hin). cbn [snd] in Ev. subst v'.
    apply (in_get _ _ _ (W x2 (or_introl eq_refl))) in Hin. apply Kp in Hin. exact (SelfSymReadd.kr_get_values _ _ _ Hin).
  - apply IH. intros x Hx. apply W. right. exact Hx.
Qed.

Theorem new_source : forall n t s a s',
    inv3 s -> m4 s -> pending s = [] -> hc_ok s -> Model.ctr s mod 4 = 1 -> node_pre s n ->
    (forall x, In x (pub_occ n) -> ~ In x (binders n)) ->
    (forall b, In b (binders n) -> b < Model.ctr s \/ b mod 4 <> 1) ->
    shape s n = Ok t -> lookup_internal s t = Ok None -> add_internal t s = Ok (a, s') ->
    exists j, srcok_inv s' a n j.
Proof.
  intros n [sh_t bij_t] s a s' I3 M4 Pe HC Cm NP P1 P2 Hshape0 Hlk HA.
  pose proof I3 as [[Hs _] _]. pose proof Hs as [Us Ss _].
  (* monotonicity s -> s' *)
  assert (EA : eg_add n s = Ok (a, s')).
  { unfold eg_add, mbind, reads. rewrite Hshape0. exact HA. }
  destruct (inv4_eg_add n s a s' EA (proj1 I3)) as [Hs2' [X0 Q0]].
  pose proof (proj1 Hs2') as Hs'.
  (* the walk *)
  destruct (SoundAddNew.add_internal_walk _ _ _ _ I3 Hlk HA) as (en1 & c1 & en2 & en3 & s3 & syn & RP & H2 & H3 & H4 & Sm & I1 & E01 & I3' & E13 & Hb).
  cbv zeta in *. cbn [fst snd] in RP, H2.
  destruct (SoundAddNew.mk_singleton_walk _ _ _ _ I3' Hb H4)
    as (f2o & c2 & synf & s3a & sh & bij & s4 & s5 & BF & ASF & AL & Hsh & RA & PI & RB & Ea & I2 & I3a & E23 & I4 & E34 & I5 & E45 & I6 & E56).
  cbv zeta in *. set (j := N.of_nat (lc s3)) in *.
  destruct NP as (Cvn & Bn & NDn).
  pose proof Hshape0 as Hshape.
  unfold shape in Hshape. destruct (pre_shape s n) as [p|] eqn:P; cbn [bind] in Hshape; [|discriminate].
  destruct (rn_pre_kids s n p Hs Cvn P) as (lp & Ep & Flp & Wlp & Llp).
  assert (Aop : app_occ p = lp) by (rewrite Ep; apply app_occ_set_apps; exact Llp).
  assert (Bip : binders p = binders n) by (rewrite Ep; apply binders_set_apps').
  assert (Pp : incl (pub_occ p) (pub_occ n)).
  { unfold pre_shape in P.
    destruct (find_enode s n) as [n1|] eqn:F1; cbn [bind] in P; [|discriminate].
    destruct (variants s n1) as [vs|] eqn:V; cbn [bind] in P; [|discriminate].
    apply min_variant_in in P. destruct P as [P|[k P]]; [|discriminate].
    destruct (find_enode_sub s n n1 F1) as (_ & P1'). destruct (variants_sub s n1 vs p V P) as (_ & P2').
    intros x Hx. apply P1', P2', Hx. }
  pose proof (SoundAddExpr.pre_shape_covers s n p I3 Cvn P) as Cv.
  assert (Bp : forall x, In x (pub_occ p) -> x mod 4 <> 1 \/ x < ectr s).
  { intros x Hx. destruct (Bn x (Pp x Hx)); [right|left]; assumption. }
  (* the counter *)
  pose proof (refresh_private_step sh_t (ectr s)) as St1. rewrite RP in St1. cbn [snd] in St1.
  pose proof (ctr_step_le _ _ St1) as Le1.
  pose proof (core_synify_enode ctr_rel ctr_core en2 _ _ _ H3) as St3. unfold ctr_rel in St3. cbn [Model.ctr set_ctr] in St3.
  assert (Cm3 : ectr s3 mod 4 = 1) by (rewrite (ctr_step_mod _ _ St3), (ctr_step_mod _ _ St1); exact Cm).
  pose proof (ctr_step_le _ _ St3) as Le3.
  (* p and en2 *)
  destruct (SoundAddNew.pre_node_equiv p sh_t bij_t (ectr s) en1 c1 en2 Hshape RP H2 Cm Bp) as [Q1 Bi2].
  pose proof (KidsCov.kc_covers_child_inj s _ _ Cv (KidsCov.kc_child_inj_node _ _ _ Q1)) as Cv2.
  destruct (refresh_private_spec _ _ _ _ RP) as (_ & Bi1 & _).
  pose proof (synify_enode_binders _ _ _ _ H3) as Bi3.
  assert (All2 : forall v, In v (all_occ en2) -> v mod 4 <> 1 \/ v < c1).
  { intros v Hall.
    apply (Permutation.Permutation_in _ (occ_partition en2)) in Hall. apply in_app_or in Hall. destruct Hall as [Hp|Hp].
    - rewrite (equiv_pub _ _ _ (proj2 (proj2 Q1))), map_id in Hp. destruct (Bp _ Hp); [left; assumption|right; lia].
    - apply prv_binders in Hp. rewrite Bi2 in Hp. pose proof (proj1 (Forall_forall _ _) Bi1 v Hp) as T. cbv beta in T. right. lia. }
  assert (Vv2 : Forall (fun x2 => KidsCov.kc_vbv (ectr (set_ctr s c1)) (am x2)) (app_occ en2)).
  { apply Forall_forall. intros x2 Hx2 v Hv. cbn [Model.ctr set_ctr]. apply All2. exact (SoundAddNew.vals_all_occ en2 x2 v Hx2 Hv). }
  assert (Vb2 : Forall (fun x2 => injective (am x2) /\ SoundAddNew.vbound (ectr (set_ctr s c1)) (am x2)) (app_occ en2)).
  { apply Forall_forall. intros x2 Hx2. destruct (proj1 (Forall_forall _ _) Cv2 x2 Hx2) as (c & _ & Ix2 & _).
    split; [exact Ix2|]. apply KidsCov.kc_vbv_vbound. exact (proj1 (Forall_forall _ _) Vv2 x2 Hx2). }
  assert (Cm1 : ectr (set_ctr s c1) mod 4 = 1) by (cbn [Model.ctr set_ctr]; rewrite (ctr_step_mod _ _ St1); exact Cm).
  pose proof H3 as H3c. unfold synify_enode in H3c. apply mbind_inv in H3c. destruct H3c as (l3 & s1x & H3c & H3'). inversion H3' as [[Een3 Es1x]]; subst s1x; clear H3'.
  pose proof (SoundAddNew.mapM_synify_rel _ _ _ _ H3c Cm1 Vb2) as CE.
  pose proof (mapM_length _ _ _ _ _ H3c) as Ll3.
  assert (Cv3 : Forall (covers s) (app_occ en3)).
  { rewrite <- Een3. rewrite app_occ_set_apps by exact Ll3.
    exact (KidsCov.kc_covers_child_ext s _ _ Cv2 CE). }
  destruct (SoundAddNew.fresh_rename_equiv en3 (ectr s3) f2o c2 synf Hb BF ASF) as [Q3 FRE2].
  pose proof (KidsCov.kc_covers_child_inj s _ _ Cv3 (KidsCov.kc_child_inj_node _ _ _ Q3)) as Cvf.
  (* ---------- the renamings ---------- *)
  assert (NDp : NoDup (binders p)) by (rewrite Bip; exact NDn).
  destruct (wshape_fwd p sh_t bij_t Hshape NDp) as (g0 & Esh & (G1 & G2 & G3)).
  destruct (refresh_private_ren _ _ _ _ RP) as (gr & Er & Gt & Ir & Rr).
  pose proof (apply_slotmap_ren _ _ _ H2) as E2.
  assert (Ps : pub_occ sh_t = map (g0 true) (pub_occ p)) by (rewrite Esh; exact (ren_pub_occ g0 p G1 G2)).
  assert (Bs : binders sh_t = map (g0 false) (binders p)) by (rewrite Esh; apply ren_binders).
  destruct (shape_bij _ _ _ Hshape) as (B1 & B2 & B3).
  assert (Gb : forall x, In x (pub_occ p) -> get bij_t (g0 true x) = Some x).
  { rewrite Ps, map_map in B3. intros x Hx. exact (proj1 map_ext_in_iff B3 x Hx). }
  set (hb := fun b : slot => gr false (g0 false b)).
  assert (Hbr : forall b, In b (binders p) -> ectr s <= hb b < c1 /\ hb b mod 4 = 1).
  { intros b Hb0. unfold hb. destruct (Rr (g0 false b)) as [A1 A2]; [rewrite Bs; apply in_map; exact Hb0|]. split; [exact A1|lia]. }
  assert (Ihb : inj_on hb (binders p)).
  { intros x y Hx Hy E. unfold hb in E. apply G1; [exact Hx|exact Hy|].
    apply Ir; [rewrite Bs; apply in_map; exact Hx|rewrite Bs; apply in_map; exact Hy|exact E]. }
  set (K1 := SelfSymReadd.comp2 gr g0).
  assert (E1 : en1 = RenameFacts.ren K1 p).
  { rewrite Er, Esh. apply SelfSymReadd.ren_ren. exact G2. }
  assert (NC1 : forall x b, In x (pub_occ p) -> In b (binders p) -> K1 true x <> K1 false b).
  { intros x b Hx Hb0 E. unfold K1, SelfSymReadd.comp2 in E. rewrite Gt in E.
    assert (Z : g0 true x mod 4 = 0).
    { apply (shape_all_occ_mod4 _ _ _ Hshape). apply pub_occ_all_occ. rewrite Ps. apply in_map. exact Hx. }
    destruct (Hbr b Hb0) as [_ O]. unfold hb in O. rewrite <- E in O. lia. }
  set (K2 := SelfSymReadd.comp2 (asm_g bij_t) K1).
  assert (E2' : en2 = RenameFacts.ren K2 p).
  { rewrite E2, E1. apply SelfSymReadd.ren_ren. exact NC1. }
  assert (K2t : forall x, In x (pub_occ p) -> K2 true x = x).
  { intros x Hx. unfold K2, K1, SelfSymReadd.comp2, asm_g. rewrite Gt, (Gb x Hx). reflexivity. }
  assert (K2f : forall b, K2 false b = hb b) by (intros b; reflexivity).
  assert (NC2 : forall x b, In x (pub_occ p) -> In b (binders p) -> K2 true x <> K2 false b).
  { intros x b Hx Hb0 E. rewrite (K2t x Hx), K2f in E. destruct (Hbr b Hb0) as [A1 A2]. destruct (Bp x Hx); lia. }
  assert (Bi2' : binders en2 = map hb (binders p)).
  { rewrite E2', ren_binders. apply map_ext. intros b. apply K2f. }
  assert (Pe2 : pub_occ en2 = pub_occ p).
  { rewrite (equiv_pub _ _ _ (proj2 (proj2 Q1))). apply map_id. }
  (* synf = ren O en3 *)
  set (o2f := inv f2o) in *. set (O := asm_g o2f).
  pose proof (slots_sorted en3) as W3.
  destruct (RenameFacts.fresh_spec _ _ _ _ W3 BF) as (F1 & F2). fold o2f in F1, F2.
  destruct (bff_props _ _ _ _ W3 BF) as [Wf If].
  assert (KO : forall x, In x (pub_occ en3) -> get o2f x <> None).
  { intros x Hx. apply slots_spec in Hx. destruct (F1 x Hx) as (y & -> & _). discriminate. }
  assert (Esf : synf = RenameFacts.ren O en3).
  { pose proof ASF as ASF'. rewrite (asf_ren o2f en3 c2 KO) in ASF'. inversion ASF' as [Es0]. reflexivity. }
  assert (NCO : forall x b, In x (pub_occ en3) -> In b (binders en3) -> O true x <> O false b).
  { intros x b Hx Hb'. unfold O, asm_g. apply slots_spec in Hx. destruct (F1 x Hx) as (y & -> & Hy & _).
    pose proof (proj1 (Forall_forall _ _) Hb b Hb') as Tb. cbv beta in Tb. lia. }
  pose proof (fresh_rename_spec en3 (ectr s3) f2o c2 Hb BF) as R. cbv zeta in R. fold o2f in R. rewrite ASF in R. cbn [fst snd] in R.
  destruct R as (_ & _ & Bif & Sl & _ & Pb & Pf). fold o2f in Sl, Pf. fold O in Pf.
  (* ---------- the witness ---------- *)
  set (g := fun (f : bool) (x : slot) => if f then asm_g f2o true x else rn_ginv hb (binders p) x).
  set (H := SelfSymReadd.comp2 g O).
  assert (Ht : forall v, In v (pub_occ en3) -> H true v = v).
  { intros v Hv. unfold H, SelfSymReadd.comp2, g, O. unfold asm_g at 1. rewrite (FRE2 v); [reflexivity|]. apply slots_spec. exact Hv. }
  assert (Hf : forall b, In b (binders p) -> H false (hb b) = b).
  { intros b Hb0. unfold H, SelfSymReadd.comp2, g, O, asm_g. apply rn_ginv_h; assumption. }
  assert (W2 : forall x, In x (app_occ en2) -> wf (am x)).
  { intros x Hx. rewrite E2', app_occ_ren in Hx. rewrite Aop in Hx.
    clear - Hx Wlp. revert Hx. generalize (abounds p). intros bds. revert bds.
    induction lp as [|y t IH]; intros bds Hx; destruct bds as [|bd r]; cbn [zip_with] in Hx; try contradiction.
    destruct Hx as [<-|Hx].
    - unfold rv. cbn [am]. apply SelfSymReadd.kr_ren_vals_wf. apply Wlp. left. reflexivity.
    - apply (IH (fun b Hb => Wlp b (or_intror Hb)) r Hx). }
  assert (P23 : incl (pub_occ en2) (pub_occ en3)).
  { rewrite <- Een3. apply rn_pub_ext; assumption. }
  assert (EP : RenameFacts.ren H en2 = p).
  { rewrite E2', SelfSymReadd.ren_ren by exact NC2. apply ren_id. intros x f Hx. unfold SelfSymReadd.comp2. destruct f.
    - apply occ_flags_true_pub in Hx. rewrite (K2t x Hx). apply Ht. apply P23. rewrite Pe2. exact Hx.
    - apply rn_flag_false_binders in Hx. rewrite K2f. apply Hf. exact Hx. }
  set (L3 := zip_with (rv H) (abounds en2) l3).
  assert (EQ : RenameFacts.ren g synf = set_apps p L3).
  { rewrite Esf, SelfSymReadd.ren_ren by exact NCO. fold H. rewrite <- Een3, <- set_apps_ren. fold L3. rewrite EP. reflexivity. }
  assert (LL3 : List.length L3 = List.length (app_occ p)).
  { unfold L3. rewrite rn_zip_with_length by (rewrite abounds_length; lia). rewrite Ll3.
    rewrite <- EP, app_occ_ren. rewrite rn_zip_with_length; [reflexivity|apply abounds_length]. }
  assert (AO3 : app_occ (RenameFacts.ren g synf) = L3) by (rewrite EQ; apply app_occ_set_apps; exact LL3).
  assert (AOp : app_occ p = zip_with (rv H) (abounds en2) (app_occ en2)) by (rewrite <- EP at 1; apply app_occ_ren).
  assert (EN : n = set_apps (RenameFacts.ren g synf) (app_occ n)).
  { rewrite EQ. rewrite set_apps_twice by (rewrite Aop; lia). rewrite Ep. rewrite set_apps_twice by lia. symmetry. apply set_apps_self. }
  (* ren_ok *)
  assert (Bsf : binders synf = map hb (binders p)) by (rewrite Bif, Bi3; exact Bi2').
  assert (Fr3 : forall v, In v (pub_occ en3) -> In v (pub_occ p) \/ rn_frl c1 v).
  { intros v Hv. rewrite <- Een3 in Hv. rewrite <- Pe2.
    destruct (rn_mapM_synify_vals _ _ _ _ H3c Cm1) as (_ & _ & V). cbn [Model.ctr set_ctr] in V.
    exact (SoundVals.set_apps_pub_rel (rn_frl c1) en2 l3 V v Hv). }
  assert (Gt3 : forall v, In v (pub_occ en3) -> g true (O true v) = v) by (intros v Hv; exact (Ht v Hv)).
  assert (RO : ren_ok g synf).
  { split; [|split].
    - rewrite Bsf. intros x y Hx Hy E. apply in_map_iff in Hx, Hy. destruct Hx as (b1 & <- & Hb1). destruct Hy as (b2 & <- & Hb2).
      change (H false (hb b1) = H false (hb b2)) in E. rewrite (Hf b1 Hb1), (Hf b2 Hb2) in E. subst b2. reflexivity.
    - rewrite Bsf, Pf. intros x b Hx Hb0 E. apply in_map_iff in Hx, Hb0. destruct Hx as (v & <- & Hv). destruct Hb0 as (b0 & <- & Hb0).
      rewrite (Gt3 v Hv) in E. change (v = H false (hb b0)) in E. rewrite (Hf b0 Hb0) in E. subst b0.
      rewrite Bip in Hb0. destruct (Fr3 v Hv) as [T|[T1 T2]].
      + exact (P1 v (Pp v T) Hb0).
      + destruct (P2 v Hb0); lia.
    - rewrite Pf. intros x y Hx Hy E. apply in_map_iff in Hx, Hy. destruct Hx as (v & <- & Hv). destruct Hy as (w & <- & Hw).
      rewrite (Gt3 v Hv), (Gt3 w Hw) in E. subst w. reflexivity. }
  pose proof RO as (RO1 & RO2 & RO3).
  (* ---------- the children ---------- *)
  assert (CvN : Forall (covers s) (app_occ (RenameFacts.ren g synf))).
  { destruct (ren_equiv g synf RO1 RO2 RO3) as (Sk & rho & Irho & Pr).
    exact (KidsCov.kc_covers_child_inj s _ _ Cvf (KidsCov.kc_child_inj_node rho synf _ (conj Sk (conj Irho Pr)))). }
  assert (KD : Forall2 (kid_eq s) (app_occ (RenameFacts.ren g synf)) (app_occ n)).
  { rewrite AO3.
    apply (SelfSymReadd.fp_Forall2_trans (kid_eq s) L3 lp (app_occ n) (fun x y z A1 A2 => kid_eq_trans s x y z Hs A1 A2)).
    - rewrite <- Aop, AOp. unfold L3. apply rn_zip_ext_kid; [exact Hs|exact CE| |].
      + rewrite <- AOp. exact Cv.
      + fold L3. rewrite <- AO3. exact CvN.
    - apply rn_Forall2_flip; [intros x y; apply rn_kid_eq_sym; exact Hs|exact Flp]. }
  assert (KD' : Forall2 (kid_eq s') (app_occ (RenameFacts.ren g synf)) (app_occ n)).
  { revert KD. apply Forall2_impl. intros x y. apply kid_eq_mono0; assumption. }
  (* ---------- the new class in s' ---------- *)
  pose proof (alloc_eclass_exact _ _ _ _ _ AL) as (_ & _ & C & _).
  set (s2 := set_ctr (set_ctr s3 c2) c2) in *.
  set (cn := {| c_nodes := []; c_slots := values o2f; c_usages := [];
                c_group := Grp (identity (values o2f)) None; c_syn := synf |}) in *.
  pose proof (get_class_ext_new s2 s3a cn C) as Hcn. change (N.of_nat (lc s2)) with j in Hcn.
  destruct E34 as (_ & _ & X34). destruct (X34 j cn Hcn) as (c4 & Hc4 & In4 & Sy4).
  destruct E45 as (_ & _ & X45). destruct (X45 j c4 Hc4) as (c5 & Hc5 & In5 & Sy5).
  destruct E56 as (_ & _ & X56). destruct (X56 j c5 Hc5) as (c' & Hc' & In6 & Sy6).
  assert (Inc : incl (c_slots c') (slots synf)).
  { rewrite Sl. intros k Hk. apply In4, In5, In6. exact Hk. }
  assert (Sy : c_syn c' = synf) by (rewrite Sy6, Sy5, Sy4; reflexivity).
  subst syn. unfold semify_app_id, class_slots in Sm. cbn [aid am] in Sm. rewrite Hc' in Sm. cbn [bind] in Sm.
  inversion Sm as [Ea]. clear Sm.
  exists j, c', g, (app_occ n). rewrite Sy.
  split; [exact Hc'|]. split; [exact RO|]. split; [exact EN|]. split; [exact KD'|].
  (* ---------- the root ---------- *)
  assert (Gf : forall k, In k (slots synf) -> get f2o k = Some (g true k)).
  { intros k Hk. apply slots_spec in Hk. rewrite Pf in Hk. apply in_map_iff in Hk. destruct Hk as (v & <- & Hv).
    rewrite (Gt3 v Hv). apply FRE2. apply slots_spec. exact Hv. }
  assert (Ca : covers s' {| aid := j; am := rho_map g (slots synf) |}).
  { exists c'. cbn [aid am]. split; [exact Hc'|]. split.
    - intros k1 k2 v A1 A2. rewrite SelfSymReadd.get_rho_map in A1, A2.
      destruct (existsb (N.eqb k1) (slots synf)) eqn:E1'; [|discriminate]. destruct (existsb (N.eqb k2) (slots synf)) eqn:E2''; [|discriminate].
      apply SelfSymReadd.existsb_eqb_in in E1', E2''. apply RO3; [apply slots_spec; exact E1'|apply slots_spec; exact E2''|congruence].
    - intros k Hk. rewrite SelfSymReadd.get_rho_map. rewrite (proj2 (SelfSymReadd.existsb_eqb_in k _) (Inc k Hk)). discriminate. }
  assert (Cb : covers s' {| aid := j; am := filter (fun q => sset_mem (fst q) (c_slots c')) f2o |}).
  { exists c'. cbn [aid am]. split; [exact Hc'|]. split.
    - intros k1 k2 v A1 A2. rewrite (get_filter_key (fun k => sset_mem k (c_slots c'))) in A1, A2.
      destruct (sset_mem k1 (c_slots c')); [|discriminate]. destruct (sset_mem k2 (c_slots c')); [|discriminate].
      exact (If _ _ _ A1 A2).
    - intros k Hk. rewrite (get_filter_key (fun k => sset_mem k (c_slots c'))). rewrite (proj2 (sset_mem_in _ _) Hk).
      rewrite (Gf k (Inc k Hk)). discriminate. }
  split; [exact Ca|]. split; [exact Cb|].
  assert (Fi : find_applied_id s' {| aid := j; am := rho_map g (slots synf) |} =
               find_applied_id s' {| aid := j; am := filter (fun q => sset_mem (fst q) (c_slots c')) f2o |}).
  { apply (MonotoneFacts.find_agree s' j c' _ _ Hs' Hc'). intros k Hk.
    rewrite SelfSymReadd.get_rho_map, (proj2 (SelfSymReadd.existsb_eqb_in k _) (Inc k Hk)).
    rewrite (get_filter_key (fun k => sset_mem k (c_slots c'))), (proj2 (sset_mem_in _ _) Hk). symmetry. apply Gf. apply Inc. exact Hk. }
  rewrite (eg_eq_find_congr s' _ _ _ _ Fi eq_refl).
  pose proof Hs' as [U' S' _]. exact (eg_eq_refl_inv s' _ U' S' Cb).
Qed.

Corollary new_source_eg_add : forall n s a s',
    hcb s -> node_pre s n ->
    (forall x, In x (pub_occ n) -> ~ In x (binders n)) ->
    (forall b, In b (binders n) -> b < Model.ctr s \/ b mod 4 <> 1) ->
    eg_lookup s n = Ok None -> eg_add n s = Ok (a, s') ->
    exists j, srcok_inv s' a n j.
Proof.
  intros n s a s' (I3 & Pe & HC & M4) NP P1 P2 L H.
  unfold eg_add in H. apply bind_reads_inv in H. destruct H as (t & Ht & H).
  unfold eg_lookup in L. rewrite Ht in L. cbn [bind] in L.
  exact (new_source n t s a s' I3 M4 Pe HC (proj1 M4) NP P1 P2 Ht L H).
Qed.

Print Assumptions new_source_eg_add.

Print Assumptions new_source.
