(* EGraph/RepReachNlp.v — NODE LOOKUPS PERSIST between two states that satisfy the bundle `gd` (= hcb, sse, srcx, covd),
   for ALL nodes with pairwise distinct binders (the restriction "no public slot is named like a binder" of
   RepReachA.lookup_srcok is removed by renaming the binders: lookups do not depend on binder names). *)
From SE Require Import Slots.SlotMapFacts Group.GroupSound Lang.LangFacts Lang.ShapeFacts Lang.RenameFacts
  Slots.SlotFacts Base.TextFacts EGraph.Model EGraph.ModelFacts EGraph.ModelMachine EGraph.PendingFacts EGraph.UnionFindFacts
  EGraph.InvariantFacts EGraph.UnionInvariantFacts EGraph.AddCoversFacts EGraph.MonotoneFacts EGraph.HashconsShape
  EGraph.Mod4Facts EGraph.HashconsAbs EGraph.Model9 EGraph.HashconsFacts EGraph.NodeCong EGraph.KidEqFacts EGraph.ShapeCong
  EGraph.CongruenceFacts EGraph.RepFacts EGraph.SelfSymDefs EGraph.SelfSymCond EGraph.RepReachDefs EGraph.RepReachCond
  EGraph.RepReachTrans EGraph.RepReachA EGraph.RepReachB.
From SE Require EGraph.SelfSymReadd EGraph.SelfSymUnion EGraph.MatchReprFix.
Require Import ZArith Lia ZifyBool ZifyN ZifyNat.

Local Notation "a ** b" := (compose_partial a b) (at level 40, left associativity).
Local Notation inv := inverse_nocheck.
Local Notation ectr := Model.ctr.

(* ------------------------------------------------------------------ *)
(* 1. renaming the binders of a node away from all its other slots *)

Definition brn (K : N) : bool -> slot -> slot := fun f x => if f then x else 4 * (x + K) + 3.
Definition kvals (n : node) : list slot := pub_occ n ++ flat_map (fun a => values_vec (am a)) (app_occ n).
Definition kbound (n : node) : N := lmax (kvals n) + 1.

Lemma kbound_pub : forall n x, In x (pub_occ n) -> x < kbound n.
Proof. intros n x H. unfold kbound. pose proof (lmax_in (kvals n) x) as L. unfold kvals in L at 1. specialize (L (in_or_app _ _ _ (or_introl H))). lia. Qed.
Lemma kbound_kid : forall n a x, In a (app_occ n) -> In x (values_vec (am a)) -> x < kbound n.
Proof.
  intros n a x Ha Hx. unfold kbound. pose proof (lmax_in (kvals n) x) as L. unfold kvals in L at 1.
  assert (I : In x (pub_occ n ++ flat_map (fun a => values_vec (am a)) (app_occ n))).
  { apply in_or_app. right. apply in_flat_map. exists a. auto. }
  specialize (L I). lia.
Qed.

Lemma brn_ok : forall K n, (forall x, In x (pub_occ n) -> x < K) -> ren_ok (brn K) n.
Proof.
  intros K n H. unfold ren_ok, inj_on, brn. split; [|split].
  - intros x y _ _ E. lia.
  - intros x b Hx _ E. specialize (H x Hx). lia.
  - intros x y _ _ E. exact E.
Qed.

Lemma Forall_zip_with : forall {A B C} (P : C -> Prop) (f : A -> B -> C) l1 l2,
  (forall x y, In y l2 -> P (f x y)) -> Forall P (zip_with f l1 l2).
Proof.
  intros A B C P f. induction l1 as [|x t IH]; intros [|y r] H; cbn [zip_with]; try constructor.
  - apply H. left. reflexivity.
  - apply IH. intros x' y' Hy. apply H. right. exact Hy.
Qed.

Lemma brn_covers : forall s n, Forall (covers s) (app_occ n) -> Forall (covers s) (app_occ (RenameFacts.ren (brn (kbound n)) n)).
Proof.
  intros s n C. rewrite app_occ_ren. apply Forall_zip_with. intros bd a Ha.
  apply SelfSymReadd.covers_rv; [exact (proj1 (Forall_forall _ _) C a Ha)|].
  intros x y Hx Hy E. pose proof (kbound_kid n a x Ha Hx) as Bx. pose proof (kbound_kid n a y Ha Hy) as By.
  unfold brn in E. destruct (negb (existsb (N.eqb x) bd)); destruct (negb (existsb (N.eqb y) bd)); lia.
Qed.

Lemma brn_pub : forall n, pub_occ (RenameFacts.ren (brn (kbound n)) n) = pub_occ n.
Proof.
  intros n. destruct (brn_ok (kbound n) n (kbound_pub n)) as (R1 & R2 & _).
  rewrite (ren_pub_occ _ _ R1 R2). unfold brn. apply map_id.
Qed.

Lemma brn_disj : forall n x b, In x (pub_occ (RenameFacts.ren (brn (kbound n)) n)) -> In b (binders (RenameFacts.ren (brn (kbound n)) n)) -> x <> b.
Proof.
  intros n x b Hx Hb. rewrite brn_pub in Hx. rewrite ren_binders in Hb. apply in_map_iff in Hb. destruct Hb as (b0 & <- & _).
  pose proof (kbound_pub n x Hx). unfold brn. lia.
Qed.

(* a lookup of the renamed node comes from a lookup of the node, with the same invocation up to extensional equality *)
Lemma brn_lookup_back : forall s n y', inv3 s -> eg_lookup s (RenameFacts.ren (brn (kbound n)) n) = Ok (Some y') ->
  exists y, eg_lookup s n = Ok (Some y) /\ aid y = aid y' /\ forall k, get (am y) k = get (am y') k.
Proof.
  intros s n y' I3 L. pose proof (brn_ok (kbound n) n (kbound_pub n)) as RK. pose proof RK as (R1 & R2 & R3).
  pose proof L as L0. unfold eg_lookup in L0.
  destruct (shape s (RenameFacts.ren (brn (kbound n)) n)) as [[sh b']|] eqn:S'; cbn [bind] in L0; [|discriminate].
  destruct (shape_ren_conv s _ n (sh, b') R1 R2 R3 S') as (b & S). cbn [fst] in S.
  destruct (lookup_internal_inv _ _ _ _ L0) as (i & c & cb & src & Hh & Hc & G & _).
  pose proof (lookup_internal_intro s sh b i c cb src Hh Hc G) as L1.
  assert (L2 : eg_lookup s n = Ok (Some {| aid := i; am := filt c (inv cb ** b) |})) by (unfold eg_lookup; rewrite S; exact L1).
  destruct (eg_lookup_ren s _ n _ I3 RK L2) as (y2 & L3 & A3 & G3). rewrite L in L3. inversion L3; subst y2.
  eexists. split; [exact L2|]. split; [symmetry; exact A3|]. intros k. rewrite G3. unfold brn.
  destruct (get _ k); reflexivity.
Qed.

(* ------------------------------------------------------------------ *)
(* 2. node lookups persist *)



  Lemma nlp_core : forall s s' m x, gd s -> gd s' -> mext0 s s' ->
    Forall (covers s) (app_occ m) -> NoDup (binders m) -> (forall x b, In x (pub_occ m) -> In b (binders m) -> x <> b) ->
    eg_lookup s m = Ok (Some x) -> exists x', eg_lookup s' m = Ok (Some x') /\ eg_eq s' x x' = Ok true.
  Proof.
    intros s s' m x [((I3 & Pe & Hs & M) & SS & SX) CV] [((I3' & Pe' & Hs' & M') & SS' & SX') CV'] X Cm ND Dj L.
    destruct (lookup_srcok s m x I3 M (proj1 Hs) SX Cm ND Dj L) as (i & sh & cb & src & St & S).
    pose proof (srcok_inv_kmono s s' _ _ src (mext0_kmono _ _ X) S) as S'.
    pose proof S' as (csrc' & g & l & Hc' & _).
    destruct (CV' src csrc' Hc') as (src' & [A|[]] & R).
    pose proof (srcok_inv_trans s' x m src csrc' src' I3' M' Hc' S' R) as S''.
    destruct A as (i' & sh' & cb' & St').
    destruct (SX' i' sh' cb' src' St') as [[]|K'].
    exact (srcok_lookup s' m x i' sh' cb' src' I3' M' Pe' Hs' (sse_ss_ok s' SS' Pe') St' K' S'' ND).
  Qed.

  Theorem nlp_gd : forall s s', gd s -> gd s' -> mext0 s s' -> nlp s s'.
  Proof.
    intros s s' G G' X m x Cm ND L.
    pose proof G as [((I3 & _ & _ & _) & _ & _) _]. pose proof G' as [((I3' & _ & _ & _) & _ & _) _].
    pose proof (brn_ok (kbound m) m (kbound_pub m)) as RK.
    destruct (eg_lookup_ren s _ m x I3 RK L) as (y' & L' & Ay & Gy).
    destruct (nlp_core s s' _ y' G G' X (brn_covers s m Cm) (MatchReprFix.ren_ok_nodup _ _ RK ND) (brn_disj m) L') as (x2 & L2 & E2).
    destruct (brn_lookup_back s' m x2 I3' L2) as (z & Lz & Az & Gz).
    exists z. split; [exact Lz|].
    pose proof (eg_lookup_covers _ _ _ (proj2 I3) L') as Cy. pose proof (covers_ext0 _ _ _ (proj1 X) Cy) as Cy'.
    pose proof (eg_lookup_covers _ _ _ (proj2 I3') L2) as Cx2.
    assert (K : kid_eq s' {| aid := aid y'; am := am y' |} {| aid := aid x2; am := am x2 |}).
    { destruct y' as [iy my]. destruct x2 as [ix mx]. cbn [aid am]. split; [exact Cy'|]. split; [exact Cx2|exact E2]. }
    assert (K2 : kid_eq s' {| aid := aid y'; am := am x |} {| aid := aid x2; am := am z |}).
    { apply (SelfSymUnion.kid_eq_get_ext s' (aid y') (am y') (am x) (aid x2) (am x2) (am z)); [| |exact K].
      - intros k. rewrite Gy. unfold brn. destruct (get (am x) k); reflexivity.
      - intros k. symmetry. apply Gz. }
    rewrite Ay, <- Az in K2. destruct x as [ix mx]. destruct z as [iz mz]. cbn [aid am] in K2. exact (proj2 (proj2 K2)).
  Qed.


(* the shape of a node does not depend on its binder names *)
Lemma shape_brn_eq : forall s n t, shape s n = Ok t -> shape s (RenameFacts.ren (brn (kbound n)) n) = Ok t.
Proof.
  intros s n [sh b] H. pose proof (brn_ok (kbound n) n (kbound_pub n)) as RK. pose proof RK as (R1 & R2 & R3).
  destruct (shape_ren s _ n (sh, b) R1 R2 R3 H) as (b' & S'). cbn [fst] in S'. rewrite S'. f_equal. f_equal.
  unfold shape in H, S'. destruct (pre_shape s n) as [p|] eqn:P; cbn [bind] in H; [|discriminate].
  rewrite (pre_shape_ren s _ n p RK P) in S'. cbn [bind] in S'.
  destruct (pre_shape_sub s n p P) as [Bp Ip].
  pose proof (ren_ok_sub _ n p Bp Ip RK) as RKp.
  pose proof (ws_ren_get _ p sh b b' RKp H S') as G.
  destruct (shape_bij_props _ _ _ H) as (Wb & _). destruct (shape_bij_props _ _ _ S') as (Wb' & _).
  apply ext_eq; [exact Wb'|exact Wb|]. intros k. rewrite G. unfold brn. destruct (get b k); reflexivity.
Qed.
