(* EGraph/RepReachRefl.v — the class freshly created by mk_singleton_class is source-coherent with ITSELF
   (`srcok_inv s4 (syn_app i c4) (c_syn c4) i`, in the state s4 right after raw_add_to_class). *)
From SE Require Import Slots.SlotMapFacts Group.GroupSound Lang.LangFacts Lang.ShapeFacts Lang.RenameFacts
  Slots.SlotFacts Base.TextFacts EGraph.Model EGraph.ModelFacts EGraph.ModelMachine EGraph.PendingFacts EGraph.UnionFindFacts
  EGraph.InvariantFacts EGraph.UnionInvariantFacts EGraph.AddCoversFacts EGraph.MonotoneFacts EGraph.HashconsShape
  EGraph.Mod4Facts EGraph.HashconsAbs EGraph.Model9 EGraph.HashconsFacts EGraph.NodeCong EGraph.KidEqFacts EGraph.ShapeCong
  EGraph.CongruenceFacts EGraph.SelfSymDefs EGraph.SelfSymCond EGraph.RepReachDefs.
From SE Require EGraph.SoundAddNew EGraph.SoundUnion EGraph.SelfSymUnion EGraph.SelfSymReadd EGraph.SelfSymDss EGraph.SelfSymNew.
Require Import ZArith Lia ZifyBool ZifyN ZifyNat.
Local Notation "a ** b" := (compose_partial a b) (at level 40, left associativity).
Local Notation inv := inverse_nocheck.
Local Notation ectr := Model.ctr.

Lemma rrr_rho_id : forall sl, rho_map (fun _ x => x) sl = identity sl.
Proof. intros sl. reflexivity. Qed.

Lemma rrr_kid_refl : forall s l, uf_ok s -> uf_slots_ok s -> Forall (covers s) l -> Forall2 (kid_eq s) l l.
Proof.
  intros s l U S F. induction F as [|x l Cx F IH]; constructor; [|exact IH].
  split; [exact Cx|]. split; [exact Cx|]. exact (eg_eq_refl_inv s x U S Cx).
Qed.

Lemma rrr_F2_left : forall s l r, Forall2 (kid_eq s) l r -> Forall (covers s) l.
Proof. intros s l r F. induction F as [|x y l r H F IH]; constructor; [exact (proj1 H)|exact IH]. Qed.

Theorem new_refl : forall en s f2o c2 synf s3 sh bij s4 c4,
  inv3 s -> m4 s -> Forall (fun b => b < Model.ctr s) (binders en) ->
  bijection_from_fresh_to (slots en) (Model.ctr s) = (f2o, c2) ->
  apply_slotmap_fresh false (inverse_nocheck f2o) en c2 = (synf, c2) ->
  alloc_eclass (values (inverse_nocheck f2o)) synf (set_ctr (set_ctr s c2) c2) = Ok (N.of_nat (lc s), s3) ->
  wshape synf = Ok (sh, bij) ->
  raw_add_to_class (N.of_nat (lc s)) (sh, bij) (N.of_nat (lc s)) s3 = Ok (tt, s4) -> inv3 s4 ->
  srcok s4 (N.of_nat (lc s)) sh bij (N.of_nat (lc s)) ->
  get_class s4 (N.of_nat (lc s)) = Ok c4 ->
  srcok_inv s4 (syn_app (N.of_nat (lc s)) c4) (c_syn c4) (N.of_nat (lc s)).
Proof.
  intros en s f2o c2 synf s3 sh bij s4 c4 I3 M4 Hb BF ASF AL Hsh RA I4 SO Hc4.
  pose proof (alloc_eclass_exact _ _ _ _ _ AL) as (_ & _ & C & _).
  set (s2 := set_ctr (set_ctr s c2) c2) in *.
  set (cn := {| c_nodes := []; c_slots := values (inv f2o); c_usages := [];
                c_group := Grp (identity (values (inv f2o))) None; c_syn := synf |}) in *.
  destruct (s_raw_add _ _ _ _ _ _ RA) as [Q _].
  pose proof (get_class_ext_new s2 s3 cn C) as Hcn. change (lc s2) with (lc s) in Hcn.
  destruct (get_class_sem_ok s3 s4 _ cn Q Hcn) as (c4' & Hc4' & Cs).
  rewrite Hc4 in Hc4'. inversion Hc4'; subst c4'; clear Hc4'.
  apply csem_inv in Cs. destruct Cs as (Es4 & _ & Ey4). cbn [c_slots c_syn cn] in Es4, Ey4.
  pose proof (fresh_rename_spec en (ectr s) f2o c2 Hb BF) as R. cbv zeta in R. rewrite ASF in R. cbn [fst snd] in R.
  destruct R as (_ & _ & Bif & Sl & _ & Pb & _).
  destruct I4 as [[E4 _] _]. pose proof E4 as [U4 S4 _].
  (* the children of synf are covered in s4 *)
  assert (Cvf : Forall (covers s4) (app_occ synf)).
  { destruct SO as (c & N1 & _ & _ & (csrc & g & l & Hcs & _ & _ & F & _)).
    rewrite Hc4 in Hcs. inversion Hcs; subst csrc; clear Hcs. rewrite Ey4 in F.
    apply rrr_F2_left in F. rewrite app_occ_ren in F.
    exact (SelfSymDss.covers_unzip s4 g (abounds synf) (app_occ synf) (abounds_length synf) F). }
  assert (RI : RenameFacts.ren (fun _ x => x) synf = synf) by (apply ren_id; intros; reflexivity).
  exists c4, (fun (_ : bool) (x : slot) => x), (app_occ synf). rewrite Ey4, RI.
  split; [exact Hc4|]. split; [|split; [symmetry; apply set_apps_self|split]].
  - split; [intros x y _ _ E; exact E|]. split; [|intros x y _ _ E; exact E].
    intros x b Hx Hbn E. subst b. rewrite Bif in Hbn.
    pose proof (proj1 (Forall_forall _ _) Hb x Hbn) as T. cbv beta in T. destruct (Pb x Hx) as [T2 _]. lia.
  - exact (rrr_kid_refl s4 _ U4 S4 Cvf).
  - rewrite rrr_rho_id. unfold syn_app. rewrite Ey4, Sl, <- Es4.
    pose proof (covers_identity s4 _ c4 Hc4) as Ci.
    split; [exact Ci|]. split; [exact Ci|]. exact (eg_eq_refl_inv s4 _ U4 S4 Ci).
Qed.

Print Assumptions new_refl.
