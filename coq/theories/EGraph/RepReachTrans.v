(* EGraph/RepReachTrans.v — TRANSITIVITY of source coherence (`srcok_inv`, EGraph/SelfSymDefs.v):
   if the node N1 / invocation a is coherent with the source src, and the syntactic node of src (with the invocation
   src[identity]) is coherent with the source src', then N1 / a is coherent with src'.

   The renaming g of the first coherence is only constrained on the occurring slots of the syntactic node of src;
   slots of the syntactic node of src' whose image under the second renaming h occurs only in the (replaced) child
   maps may be sent anywhere by g.  We therefore first replace g by `gfix g P B`, which agrees with g on the occurring
   slots and is injective everywhere (fresh values above a bound B), and compose that with h. *)
From SE Require Import Slots.SlotMapFacts Group.GroupSound Lang.LangFacts Lang.ShapeFacts Lang.RenameFacts
  Slots.SlotFacts Base.TextFacts EGraph.Model EGraph.ModelFacts EGraph.ModelMachine EGraph.PendingFacts EGraph.UnionFindFacts
  EGraph.InvariantFacts EGraph.UnionInvariantFacts EGraph.AddCoversFacts EGraph.MonotoneFacts EGraph.HashconsShape
  EGraph.Mod4Facts EGraph.HashconsAbs EGraph.Model9 EGraph.HashconsFacts EGraph.NodeCong EGraph.KidEqFacts EGraph.ShapeCong
  EGraph.CongruenceFacts EGraph.SelfSymDefs EGraph.SelfSymCond EGraph.RepReachDefs.
From SE Require EGraph.SoundAddNew EGraph.SoundUnion EGraph.SelfSymUnion EGraph.SelfSymReadd EGraph.SelfSymDss EGraph.SelfSymNew.
Require Import ZArith Lia ZifyBool ZifyN ZifyNat.
Local Notation "a ** b" := (compose_partial a b) (at level 40, left associativity).
Local Notation inv := inverse_nocheck.
Local Notation ectr := Model.ctr.

(* ================================================================== *)
(* 1. kid_eq is closed under a globally injective renaming of the values (no wf premise) *)

Lemma rt_kid_eq_map : forall s i m j n m' n' (h : slot -> slot), eg_inv s ->
  (forall v w, h v = h w -> v = w) ->
  (forall k, get m' k = option_map h (get m k)) ->
  (forall k, get n' k = option_map h (get n k)) ->
  kid_eq s {| aid := i; am := m |} {| aid := j; am := n |} ->
  kid_eq s {| aid := i; am := m' |} {| aid := j; am := n' |}.
Proof.
  intros s i m j n m' n' h Hs Hh Gm Gn (Cx & Cy & E).
  split; [exact (SelfSymUnion.covers_get_map s i m m' h Hh Gm Cx)|].
  split; [exact (SelfSymUnion.covers_get_map s j n n' h Hh Gn Cy)|].
  set (L := values_vec m ++ values_vec n).
  set (sg := from_iter (map (fun v => (v, h v)) L)).
  assert (Gs : forall v, get sg v = if existsb (N.eqb v) L then Some (h v) else None).
  { intros v. unfold sg. rewrite get_from_iter. apply SelfSymUnion.assoc_last_diag. }
  assert (Is : injective sg).
  { intros k1 k2 v G1 G2. rewrite Gs in G1, G2.
    destruct (existsb (N.eqb k1) L); [|discriminate].
    destruct (existsb (N.eqb k2) L); [|discriminate].
    apply Hh. congruence. }
  assert (Dv : forall m0 k v, incl (values_vec m0) L -> get m0 k = Some v -> get sg v = Some (h v)).
  { intros m0 k v Inc G. rewrite Gs.
    assert (X : existsb (N.eqb v) L = true).
    { apply existsb_exists. exists v. split; [|apply N.eqb_refl]. apply Inc. unfold values_vec.
      apply in_map_iff. exists (k, v). split; [reflexivity|apply get_in; exact G]. }
    rewrite X. reflexivity. }
  assert (Gc : forall m0 m0' k, incl (values_vec m0) L -> (forall k0, get m0' k0 = option_map h (get m0 k0)) ->
               get (SelfSymUnion.nm m0 ** sg) k = get m0' k).
  { intros m0 m0' k Inc G0. rewrite get_compose_partial by apply SelfSymUnion.nm_wf. rewrite SelfSymUnion.get_nm, G0.
    destruct (get m0 k) as [v|] eqn:G; cbn [option_map]; [|reflexivity]. exact (Dv m0 k v Inc G). }
  assert (Cx' : covers s {| aid := i; am := SelfSymUnion.nm m |})
    by (eapply SelfSymUnion.covers_get_ext; [|exact Cx]; intros k; symmetry; apply SelfSymUnion.get_nm).
  assert (Cy' : covers s {| aid := j; am := SelfSymUnion.nm n |})
    by (eapply SelfSymUnion.covers_get_ext; [|exact Cy]; intros k; symmetry; apply SelfSymUnion.get_nm).
  assert (E' : eg_eq s {| aid := i; am := SelfSymUnion.nm m |} {| aid := j; am := SelfSymUnion.nm n |} = Ok true).
  { rewrite <- E. apply eg_eq_find_congr; apply SelfSymUnion.find_get_ext; intros k; apply SelfSymUnion.get_nm. }
  pose proof (eg_eq_rename s _ _ sg Hs Cx' Cy' (SelfSymUnion.nm_wf m) (SelfSymUnion.nm_wf n) Is) as RN. cbn [aid am] in RN.
  rewrite <- RN; [| |exact E'].
  - apply eg_eq_find_congr; apply SelfSymUnion.find_get_ext; intros k; symmetry.
    + apply Gc; [apply incl_appl, incl_refl|exact Gm].
    + apply Gc; [apply incl_appr, incl_refl|exact Gn].
  - intros k v G. rewrite SelfSymUnion.get_nm in G. rewrite (Dv m k v); [discriminate| |exact G]. apply incl_appl, incl_refl.
Qed.

(* ================================================================== *)
(* 2. a bound of a list, and the everywhere-injective extension of a renaming *)

Definition rt_bnd (l : list N) : N := fold_right N.max 0%N l.

Lemma rt_bnd_in : forall l x, In x l -> (x <= rt_bnd l)%N.
Proof.
  induction l as [|y t IH]; intros x H; [destruct H|]. cbn [rt_bnd fold_right]. fold (rt_bnd t).
  destruct H as [->|H]; [lia|]. specialize (IH x H). lia.
Qed.

Definition gfix (g : bool -> slot -> slot) (P : list slot) (B : N) : bool -> slot -> slot :=
  fun b x => if b then (if existsb (N.eqb x) P then g true x else (x + 1 + B)%N) else g false x.

Lemma rt_existsb_in : forall (k : slot) l, existsb (N.eqb k) l = true <-> In k l.
Proof.
  intros k l. rewrite existsb_exists. split.
  - intros (x & Hx & E). apply N.eqb_eq in E. subst. exact Hx.
  - intros H. exists k. split; [exact H|apply N.eqb_refl].
Qed.

Lemma rt_mem_existsb : forall k sl, sset_mem k sl = existsb (N.eqb k) sl.
Proof.
  intros k sl. destruct (sset_mem k sl) eqn:A; destruct (existsb (N.eqb k) sl) eqn:C; try reflexivity; exfalso.
  - apply sset_mem_in, rt_existsb_in in A. congruence.
  - apply rt_existsb_in, sset_mem_in in C. congruence.
Qed.

(* ================================================================== *)
(* 3. transitivity *)

Theorem srcok_inv_trans : forall s a N1 src csrc src',
  inv3 s -> m4 s -> get_class s src = Ok csrc ->
  srcok_inv s a N1 src ->
  srcok_inv s (syn_app src csrc) (c_syn csrc) src' ->
  srcok_inv s a N1 src'.
Proof.
  intros s a N1 src csrc src' I3 M4 Hc (csrc0 & g & l & Hc0 & Rg & EN & F1 & K1) (csrc' & h & l' & Hc' & Rh & ES & F2 & K2).
  rewrite Hc in Hc0. inversion Hc0; subst csrc0; clear Hc0.
  pose proof (proj1 (proj1 I3)) as Hs.
  set (syn := c_syn csrc) in *. set (syn' := c_syn csrc') in *.
  set (R' := RenameFacts.ren h syn') in *.
  destruct Rg as (G1 & G2 & G3). pose proof Rh as (H1 & H2 & H3).
  set (P := pub_occ syn).
  set (B := rt_bnd (map (g true) P ++ map (g false) (binders syn))).
  set (g' := gfix g P B).
  assert (Bt : forall x, In x P -> (g true x <= B)%N).
  { intros x Hx. apply rt_bnd_in. apply in_or_app. left. apply in_map. exact Hx. }
  assert (Bf : forall b, In b (binders syn) -> (g false b <= B)%N).
  { intros b Hb. apply rt_bnd_in. apply in_or_app. right. apply in_map. exact Hb. }
  assert (Et : forall x, In x P -> g' true x = g true x).
  { intros x Hx. unfold g', gfix. rewrite (proj2 (rt_existsb_in x P) Hx). reflexivity. }
  assert (Inj : forall x y, g' true x = g' true y -> x = y).
  { intros x y E. unfold g', gfix in E.
    destruct (existsb (N.eqb x) P) eqn:Ex; destruct (existsb (N.eqb y) P) eqn:Ey.
    - apply rt_existsb_in in Ex, Ey. exact (G3 x y Ex Ey E).
    - apply rt_existsb_in in Ex. pose proof (Bt x Ex). lia.
    - apply rt_existsb_in in Ey. pose proof (Bt y Ey). lia.
    - lia. }
  assert (Dis : forall x b, In b (binders syn) -> g' true x <> g false b).
  { intros x b Hb E. unfold g', gfix in E. destruct (existsb (N.eqb x) P) eqn:Ex.
    - apply rt_existsb_in in Ex. exact (G2 x b Ex Hb E).
    - pose proof (Bf b Hb). lia. }
  assert (BS : binders syn = binders R').
  { pose proof (binders_set_apps' R' l') as X. rewrite <- ES in X. exact X. }
  (* injectivity of the renaming of the values of a child under a bound list *)
  assert (Hinj : forall bd, incl bd (binders syn) -> forall v w,
            g' (negb (existsb (N.eqb v) bd)) v = g' (negb (existsb (N.eqb w) bd)) w -> v = w).
  { intros bd Sb v w E.
    destruct (existsb (N.eqb v) bd) eqn:Ev; destruct (existsb (N.eqb w) bd) eqn:Ew; cbn [negb] in E.
    - apply rt_existsb_in in Ev, Ew. apply G1; [apply Sb; exact Ev|apply Sb; exact Ew|exact E].
    - apply rt_existsb_in in Ev. exfalso. apply (Dis w v (Sb v Ev)). symmetry. exact E.
    - apply rt_existsb_in in Ew. exfalso. apply (Dis v w (Sb w Ew)). exact E.
    - apply Inj. exact E. }
  (* the node equations *)
  assert (E1 : RenameFacts.ren g syn = RenameFacts.ren g' syn).
  { apply ren_ext. intros x b Hxb. destruct b.
    - apply occ_flags_true_pub in Hxb. symmetry. apply Et. exact Hxb.
    - reflexivity. }
  assert (E2 : RenameFacts.ren g' syn = set_apps (RenameFacts.ren g' R') (zip_with (rv g') (abounds R') l')).
  { rewrite ES. symmetry. apply set_apps_ren. }
  assert (E3 : RenameFacts.ren g' R' = RenameFacts.ren (SelfSymReadd.comp2 g' h) syn').
  { unfold R'. apply SelfSymReadd.ren_ren. exact H2. }
  assert (Rk' : ren_ok g' R').
  { unfold ren_ok. rewrite <- BS. split; [|split].
    - intros x y Hx Hy E. exact (G1 x y Hx Hy E).
    - intros x b _ Hb. exact (Dis x b Hb).
    - intros x y _ _ E. exact (Inj x y E). }
  pose proof (SelfSymReadd.ren_ok_comp g' h syn' Rh Rk') as Rk.
  (* the children *)
  assert (FZ : Forall2 (kid_eq s) (zip_with (rv g') (abounds R') (app_occ R')) (zip_with (rv g') (abounds R') l')).
  { apply (SelfSymReadd.Forall2_zip3 (kid_eq s) (kid_eq s) (rv g') _ _ F2). intros bd x y Hbd Hy Pxy.
    destruct x as [i m]. destruct y as [j n]. unfold rv. cbn [aid am].
    apply (rt_kid_eq_map s i m j n _ _ (fun v => g' (negb (existsb (N.eqb v) bd)) v) Hs).
    - apply Hinj. rewrite BS. apply SelfSymReadd.abounds_sub. exact Hbd.
    - intros k0. apply SelfSymUnion.sr_get_ren_vals.
    - intros k0. apply SelfSymUnion.sr_get_ren_vals.
    - exact Pxy. }
  pose proof (Forall2_length' _ _ _ FZ) as LZ.
  assert (AOr : app_occ (RenameFacts.ren g syn) = zip_with (rv g') (abounds R') l').
  { rewrite E1, E2. apply app_occ_set_apps. rewrite app_occ_ren. exact LZ. }
  pose proof (Forall2_length' _ _ _ F1) as Len1. rewrite AOr in Len1.
  exists csrc', (SelfSymReadd.comp2 g' h), l. fold syn'.
  split; [exact Hc'|]. split; [exact Rk|]. split; [|split].
  - rewrite EN, E1, E2, <- E3. apply set_apps_twice. rewrite app_occ_ren. lia.
  - rewrite <- E3, app_occ_ren.
    apply (SelfSymReadd.fp_Forall2_trans (kid_eq s) _ (zip_with (rv g') (abounds R') l') l
             (fun x y z A C => kid_eq_trans s x y z Hs A C) FZ).
    rewrite <- AOr. exact F1.
  - eapply kid_eq_trans; [exact Hs| |exact K1].
    unfold syn_app in K2. fold syn in K2.
    assert (K2' : kid_eq s {| aid := src'; am := rho_map (SelfSymReadd.comp2 g' h) (slots syn') |}
                           {| aid := src; am := rho_map g' (slots syn) |}).
    { apply (rt_kid_eq_map s src' (rho_map h (slots syn')) src (identity (slots syn)) _ _ (g' true) Hs Inj); [| |exact K2].
      - intros k0. rewrite !SelfSymReadd.get_rho_map. destruct (existsb (N.eqb k0) (slots syn')); reflexivity.
      - intros k0. rewrite SelfSymReadd.get_rho_map, get_identity, rt_mem_existsb.
        destruct (existsb (N.eqb k0) (slots syn)); reflexivity. }
    refine (SelfSymUnion.kid_eq_get_ext s src' _ _ src _ _ (fun k0 => eq_refl) _ K2').
    intros k0. rewrite !SelfSymReadd.get_rho_map. destruct (existsb (N.eqb k0) (slots syn)) eqn:Ek; [|reflexivity].
    f_equal. apply Et. apply rt_existsb_in in Ek. apply slots_spec in Ek. exact Ek.
Qed.

Print Assumptions srcok_inv_trans.
