(* EGraph/Rewrite.v — executable model of rewriting on the e-graph of EGraph/Model.v:
   /repo/src/rewrite/ematch.rs (ematch_all, ematch_impl, ematch_node, try_insert_compatible_slotmap_bij,
   final_subst), rewrite/pattern.rs (pattern_subst; default build: add_syn = add), rewrite/mod.rs
   (apply_rewrites, apply_substs_cond, slot_free_in), rewrite/subst_method.rs (SynExprSubst, do_term_subst),
   egraph/union.rs (union_instantiations) and egraph/mod.rs (enodes_applied,
   get_group_compatible_weak_variants, get_syn_expr, get_syn_node), for the default build.

   - `Subst = HashMap<String, AppliedId>` is an association list in binding order (the
     implementation's iteration order is arbitrary; `final_subst` iterates it).
   - `class.nodes` (a HashMap) is iterated in insertion order by `enodes_applied`; `Group::all_perms`
     (a HashSet) in the order of Group/Group.v.  The order of `class.nodes` decides the order of the
     substitutions `ematch_all` returns for one class, hence the order of the unions of `apply_rewrites`,
     and that IS observable: `number_of_classes` for every kind of rule (whether a right-hand side is
     found or allocated depends on the unions made before), and everything else for right-hand sides
     `b[x := t]` (SynExprSubst compares `add_syn(n) == x` against the current state).
     `apply_rewrites_sched` therefore takes the order as a parameter.  The order of the variables in
     `final_subst` and of the group variants is not observable (checked by reversing them).
   - `Slot::fresh()` is the counter of the state: the `&self` functions of the implementation that draw
     fresh slots (enodes_applied, ematch_*, final_subst, synify_app_id) are state transformers.
   - Every panic site is an `Err`; recursion over the e-graph (get_syn_expr) runs on fuel.
   Definitions only. *)
From SE Require Import Parse.Parser.
From SE Require Export EGraph.Model.

(* rules as data: lhs, rhs, and the optional condition `slot_free_in(slot, var)` *)
Record rule := { r_lhs : pattern; r_rhs : pattern; r_cond : option (slot * text) }.

(* Subst *)
Definition subst := list (text * appid).
Fixpoint sub_get (l : subst) (v : text) : option appid :=
  match l with
  | [] => None
  | (k, a) :: t => if text_eqb k v then Some a else sub_get t v
  end.

(* ematch.rs: State *)
Record estate := { partial_subst : subst; partial_slotmap : slotmap }.
Definition estate0 : estate := {| partial_subst := []; partial_slotmap := [] |}.

Fixpoint flat_mapM {A C} (f : A -> M (list C)) (l : list A) : M (list C) :=
  match l with
  | [] => ret []
  | x :: t => dom y <- f x; dom r <- flat_mapM f t; ret (y ++ r)
  end.

(* `for s in set { if !m.contains_key(s) { m.insert(s, Slot::fresh()) } }` *)
Fixpoint extend_fresh (l : list slot) (m : slotmap) : M slotmap :=
  match l with
  | [] => ret m
  | x :: t => if contains_key m x then extend_fresh t m
              else dom f <- Model.fresh; extend_fresh t (insert x f m)
  end.

(* nullify_app_ids *)
Definition nullify (n : node) : node := map_applied_ids (fun _ => null_appid) n.

(* ------------------------------------------------------------------ *)
(* egraph/mod.rs *)

(* enodes_applied: one node per entry of class.nodes.  First every slot occurrence (binders included) that
   is not a slot of the class gets a fresh name (one per name); then the public slots the invocation does
   not cover get fresh names again; then the invocation's map is applied. *)
Definition enodes_applied (i : appid) : M (list node) :=
  dom c <- reads (fun s => get_class s (aid i));
  mapM (fun e : node * (slotmap * N) =>
          let '(sh, (bij, _)) := e in
          dom x <- lift (apply_slotmap false bij sh);
          dom x <- with_ctr (fun ctr =>
                     let '(x', (_, ctr')) :=
                       trav (fun (_ : bool) (s : slot) (st : slotmap * N) =>
                               if sset_mem s (c_slots c) then (s, st)
                               else match get (fst st) s with
                                    | Some v => (v, st)
                                    | None => (snd st, (insert s (snd st) (fst st), snd st + 4))
                                    end) x ([], ctr) in
                     (x', ctr'));
          dom m <- (fix go (l : list slot) (m : slotmap) : M slotmap :=
                      match l with
                      | [] => ret m
                      | sl :: t => if contains_key (am i) sl then go t m
                                   else dom f <- Model.fresh; go t (insert sl f m)
                      end) (slots x) [];
          let m := from_iter_onto m (am i) in
          lift (apply_slotmap false m x)) (c_nodes c).

(* get_group_compatible_weak_variants: the first variant of every weak shape *)
Definition weak_variants (s : egraph) (n : node) : res (list node) :=
  do vs <- variants s n;
  (fix go (l : list node) (shapes : list node) : res (list node) :=
     match l with
     | [] => Ok []
     | x :: t =>
         do sh <- wshape x;
         if existsb (node_eqb (fst sh)) shapes then go t shapes
         else do r <- go t (fst sh :: shapes); Ok (x :: r)
     end) vs [].

(* get_syn_node / get_syn_expr: syn_enode refers to older classes only; fuel = number of classes + 1 *)
Definition get_syn_node (s : egraph) (i : appid) : res node :=
  do c <- get_class s (aid i);
  apply_slotmap false (am i) (c_syn c).

Fixpoint get_syn_expr (fuel : nat) (s : egraph) (i : appid) : res rterm :=
  match fuel with
  | O => Err OutOfFuel
  | S f =>
      do en <- get_syn_node s i;
      do cs <- mapr (get_syn_expr f s) (app_occ en);
      Ok (RT (nullify en) cs)
  end.

(* ------------------------------------------------------------------ *)
(* ematch.rs *)

Definition try_insert_bij (k v : slot) (m : slotmap) : option slotmap :=
  let ins := let m' := insert k v m in if is_bijection m' then Some m' else None in
  match get m k with
  | Some v_old => if v_old =? v then ins else None
  | None => ins
  end.

Fixpoint insert_all_bij (ps : list (slot * slot)) (m : slotmap) : option slotmap :=
  match ps with
  | [] => Some m
  | (x, y) :: t => match try_insert_bij x y m with Some m' => insert_all_bij t m' | None => None end
  end.

Fixpoint ematch_impl (p : pattern) (st : estate) (i : appid) {struct p} : M (list estate) :=
  match p with
  | PVarP v =>
      match sub_get (partial_subst st) v with
      | Some j => dom e <- reads (fun s => eg_eq s i j); ret (if e then [st] else [])
      | None => ret [ {| partial_subst := partial_subst st ++ [(v, i)]; partial_slotmap := partial_slotmap st |} ]
      end
  | PNode n children =>
      dom nns <- enodes_applied i;
      flat_mapM (fun nn =>
        if negb (Nat.eqb (nvar n) (nvar nn)) then ret [] else
        (* ematch_node *)
        dom vs <- reads (fun s => weak_variants s nn);
        flat_mapM (fun n2 =>
          let clear_n2 := nullify n2 in
          dom n_sh <- lift (wshape n);
          dom c_sh <- lift (wshape clear_n2);
          if negb (node_eqb (fst n_sh) (fst c_sh)) then ret [] else
          match insert_all_bij (combine (all_occ clear_n2) (all_occ n)) (partial_slotmap st) with
          | None => ret []
          | Some m' =>
              (fix kids (ch : list pattern) (subs : list appid) (acc : list estate) {struct ch} : M (list estate) :=
                 match ch, subs with
                 | sp :: ch', sid :: subs' =>
                     dom next <- flat_mapM (fun a => ematch_impl sp a sid) acc;
                     kids ch' subs' next
                 | _, _ => ret acc
                 end) children (app_occ n2) [ {| partial_subst := partial_subst st; partial_slotmap := m' |} ]
          end) vs) nns
  | PSubst _ _ _ => fail ExplicitPanic                       (* `panic!()` *)
  end.

(* final_subst: the slot map is extended while the variables are visited *)
Definition final_subst (st : estate) : M subst :=
  (fix go (l : subst) (m : slotmap) : M subst :=
     match l with
     | [] => ret []
     | (v, a) :: t =>
         dom m' <- extend_fresh (values (am a)) m;
         dom r <- go t m';
         ret ((v, {| aid := aid a; am := compose_partial (am a) m' |}) :: r)
     end) (partial_subst st) (partial_slotmap st).

(* ematch_all: per live class (id order) first all states, then their final substitutions *)
Definition ematch_all (p : pattern) : M (list subst) :=
  dom live <- gets ids;
  flat_mapM (fun i =>
               dom sl <- reads (fun s => class_slots s i);
               dom sts <- ematch_impl p estate0 {| aid := i; am := identity sl |};
               mapM final_subst sts) live.

(* ------------------------------------------------------------------ *)
(* subst_method.rs / pattern.rs *)


(* do_term_subst: `for i in 0..refs.len() { *(refs[i]) = do_term_subst(eg, &re.children[i], x, t) }` *)
Fixpoint do_term_subst (re : rterm) (x t : appid) {struct re} : M appid :=
  match re with
  | RT n ch =>
      dom l <- (fix go (ch : list rterm) (k : nat) {struct ch} : M (list appid) :=
                  match k with
                  | O => ret []
                  | S k' =>
                      match ch with
                      | [] => fail OutOfBounds
                      | c :: ch' => dom a <- do_term_subst c x t; dom r <- go ch' k'; ret (a :: r)
                      end
                  end) ch (List.length (app_occ n));
      dom app_id <- eg_add (set_apps n l);
      if appid_eqb app_id x then ret t else ret app_id
  end.

(* SynExprSubst::subst *)
Definition syn_expr_subst (b x t : appid) : M appid :=
  dom sb <- synify_app_id b;
  dom term <- reads (fun s => get_syn_expr (S (List.length (classes s))) s sb);
  do_term_subst term x t.

Fixpoint pattern_subst (p : pattern) (sb : subst) {struct p} : M appid :=
  match p with
  | PNode n children =>
      dom l <- (fix go (ch : list pattern) (k : nat) {struct ch} : M (list appid) :=
                  match k with
                  | O => ret []
                  | S k' =>
                      match ch with
                      | [] => fail OutOfBounds                      (* children[i] *)
                      | c :: ch' => dom a <- pattern_subst c sb; dom r <- go ch' k'; ret (a :: r)
                      end
                  end) children (List.length (app_occ n));
      eg_add (set_apps n l)
  | PVarP v =>
      match sub_get sb v with
      | Some a => ret a
      | None => fail ExplicitPanic                                 (* "encountered `?v` in pattern, but ..." *)
      end
  | PSubst b x t =>
      dom b' <- pattern_subst b sb;
      dom x' <- pattern_subst x sb;
      dom t' <- pattern_subst t sb;
      syn_expr_subst b' x' t'
  end.

(* ------------------------------------------------------------------ *)
(* union.rs: union_instantiations *)
Definition union_instantiations (from_pat to_pat : pattern) (sb : subst) : M bool :=
  dom a <- pattern_subst from_pat sb;
  dom b <- pattern_subst to_pat sb;
  dom _ <- synify_app_id a;
  dom _ <- synify_app_id b;
  dom out <- uint a b;
  dom _ <- rebuild rebuild_fuel;
  ret out.

(* ------------------------------------------------------------------ *)
(* rewrite/mod.rs *)

(* slot_free_in: `!subst[&*var].slots().contains(&s)`; HashMap's Index panics on a missing key *)
Definition cond_holds (c : option (slot * text)) (sb : subst) : res bool :=
  match c with
  | None => Ok true
  | Some (s, v) =>
      match sub_get sb v with
      | Some a => Ok (negb (sset_mem s (values (am a))))
      | None => Err ExplicitPanic
      end
  end.

Definition apply_substs_cond (r : rule) (substs : list subst) : M unit :=
  iterM (fun sb =>
           dom c <- lift (cond_holds (r_cond r) sb);
           if c then dom _ <- union_instantiations (r_lhs r) (r_rhs r) sb; ret tt
           else ret tt) substs.

Definition prog_eqb (p q : N * N * N * N) : bool :=
  let '(a, b, c, d) := p in
  let '(a', b', c', d') := q in
  (a =? a') && (b =? b') && (c =? c') && (d =? d').

(* apply_rewrites: all searchers first, then all appliers.
   `sched k l` reorders the substitutions found for the k-th rule: the order in which `ematch_all` returns
   them follows the iteration order of hash maps in the implementation, and it is observable (see
   RewriteMachine.v); the identity is the model's own deterministic order. *)
Fixpoint mapi_from {A C} (f : nat -> A -> C) (k : nat) (l : list A) : list C :=
  match l with
  | [] => []
  | x :: t => f k x :: mapi_from f (S k) t
  end.

Definition apply_rewrites_sched (sched : nat -> list subst -> list subst) (rs : list rule) : M bool :=
  dom p0 <- reads progress;
  dom ts <- mapM (fun r => ematch_all (r_lhs r)) rs;
  let ts := mapi_from sched O ts in
  dom _ <- iterM (fun rt : rule * list subst => apply_substs_cond (fst rt) (snd rt)) (combine rs ts);
  dom p1 <- reads progress;
  ret (negb (prog_eqb p0 p1)).

Definition apply_rewrites (rs : list rule) : M bool := apply_rewrites_sched (fun _ l => l) rs.
