(* EGraph/RewriteFacts.v — theorems about the matcher model (EGraph/Rewrite.v), for all inputs. *)
From SE Require Import Base.TextFacts Slots.SlotMapFacts Parse.Parser Parse.ArityFacts.
From SE Require Import EGraph.Model EGraph.ModelFacts EGraph.Rewrite.
Require Import PeanoNat Lia.

(* ------------------------------------------------------------------ *)
(* 0. induction on patterns, inversion of the monadic combinators *)

Section PatternInd.
  Variable P : pattern -> Prop.
  Hypothesis H_var : forall v, P (PVarP v).
  Hypothesis H_node : forall n ch, Forall P ch -> P (PNode n ch).
  Hypothesis H_subst : forall b x t, P b -> P x -> P t -> P (PSubst b x t).

  Fixpoint pattern_ind2 (p : pattern) : P p :=
    match p with
    | PVarP v => H_var v
    | PNode n ch =>
        H_node n ch ((fix go (l : list pattern) : Forall P l :=
                        match l with
                        | [] => Forall_nil P
                        | c :: t => Forall_cons c (pattern_ind2 c) (go t)
                        end) ch)
    | PSubst b x t => H_subst b x t (pattern_ind2 b) (pattern_ind2 x) (pattern_ind2 t)
    end.
End PatternInd.

Lemma ret_inv : forall A (a : A) s x s', ret a s = Ok (x, s') -> x = a /\ s' = s.
Proof. intros A a s x s' H. inversion H. auto. Qed.

Lemma lift_inv : forall A (r : res A) s x s', lift r s = Ok (x, s') -> r = Ok x /\ s' = s.
Proof. intros A r s x s' H. unfold lift in H. destruct r; inversion H. auto. Qed.

Lemma reads_inv : forall A (f : egraph -> res A) s x s', reads f s = Ok (x, s') -> f s = Ok x /\ s' = s.
Proof. intros A f s x s' H. unfold reads in H. destruct (f s); inversion H. auto. Qed.

Lemma flat_mapM_inv : forall A C (f : A -> M (list C)) l s r s',
  flat_mapM f l s = Ok (r, s') ->
  forall y, In y r -> exists x s1 r1 s2, In x l /\ f x s1 = Ok (r1, s2) /\ In y r1.
Proof.
  intros A C f. induction l as [|x t IH]; intros s r s' H y Hy; cbn [flat_mapM] in H.
  - apply ret_inv in H. destruct H as [Hr _]. subst r. contradiction.
  - apply mbind_inv in H. destruct H as (r1 & s1 & H1 & H).
    apply mbind_inv in H. destruct H as (r2 & s2 & H2 & H).
    apply ret_inv in H. destruct H as [Hr _]. subst r.
    apply in_app_or in Hy. destruct Hy as [Hy|Hy].
    + exists x, s, r1, s1. split; [left; reflexivity|]. split; assumption.
    + destruct (IH _ _ _ H2 y Hy) as (x' & sa & ra & sb & Hin & Hf & Hyr).
      exists x', sa, ra, sb. split; [right; assumption|]. split; assumption.
Qed.

Lemma mapM_inv : forall A C (f : A -> M C) l s r s',
  mapM f l s = Ok (r, s') ->
  forall y, In y r -> exists x s1 s2, In x l /\ f x s1 = Ok (y, s2).
Proof.
  intros A C f. induction l as [|x t IH]; intros s r s' H y Hy; cbn [mapM] in H.
  - apply ret_inv in H. destruct H as [Hr _]. subst r. contradiction.
  - apply mbind_inv in H. destruct H as (y1 & s1 & H1 & H).
    apply mbind_inv in H. destruct H as (r2 & s2 & H2 & H).
    apply ret_inv in H. destruct H as [Hr _]. subst r.
    destruct Hy as [Hy|Hy].
    + subst y1. exists x, s, s1. split; [left; reflexivity|assumption].
    + destruct (IH _ _ _ H2 y Hy) as (x' & sa & sb & Hin & Hf).
      exists x', sa, sb. split; [right; assumption|assumption].
Qed.

(* ------------------------------------------------------------------ *)
(* 4a. the partial slot map: try_insert_bij / insert_all_bij *)

(* `get` after `insert`, without the sortedness invariant *)
Lemma get_insert_any : forall m l r k,
  get (insert l r m) k = if k =? l then Some r else get m k.
Proof.
  induction m as [|[k' v'] t IH]; intros l r k; cbn [insert get].
  - reflexivity.
  - destruct (l <? k') eqn:E1.
    + cbn [get]. reflexivity.
    + destruct (l =? k') eqn:E2.
      * apply N.eqb_eq in E2. subst k'. cbn [get]. destruct (k =? l); reflexivity.
      * cbn [get]. rewrite IH. destruct (k =? k') eqn:E3; [|reflexivity].
        apply N.eqb_eq in E3. subst k'. rewrite N.eqb_sym, E2. reflexivity.
Qed.

Lemma try_insert_bij_eq : forall k v m m', try_insert_bij k v m = Some m' ->
  m' = insert k v m /\ is_bijection m' = true /\ (get m k = None \/ get m k = Some v).
Proof.
  unfold try_insert_bij. intros k v m m' H.
  destruct (get m k) as [vo|] eqn:G.
  - destruct (vo =? v) eqn:E; [|discriminate]. apply N.eqb_eq in E. subst vo.
    destruct (is_bijection (insert k v m)) eqn:B; [|discriminate]. inversion H; subst. auto.
  - destruct (is_bijection (insert k v m)) eqn:B; [|discriminate]. inversion H; subst. auto.
Qed.

Theorem try_insert_bij_bij : forall k v m m', try_insert_bij k v m = Some m' -> is_bijection m' = true.
Proof. intros k v m m' H. apply try_insert_bij_eq in H. tauto. Qed.

Theorem try_insert_bij_get : forall k v m m', try_insert_bij k v m = Some m' -> get m' k = Some v.
Proof.
  intros k v m m' H. apply try_insert_bij_eq in H. destruct H as (E & _ & _). subst m'.
  rewrite get_insert_any, N.eqb_refl. reflexivity.
Qed.

Theorem try_insert_bij_mono : forall k v m m', try_insert_bij k v m = Some m' ->
  forall k0 v0, get m k0 = Some v0 -> get m' k0 = Some v0.
Proof.
  intros k v m m' H k0 v0 G. apply try_insert_bij_eq in H. destruct H as (E & _ & Hold). subst m'.
  rewrite get_insert_any. destruct (k0 =? k) eqn:E; [|assumption].
  apply N.eqb_eq in E. subst k0. destruct Hold as [Hn|Hs]; congruence.
Qed.

Lemma try_insert_bij_wf : forall k v m m', try_insert_bij k v m = Some m' -> wf m -> wf m'.
Proof.
  intros k v m m' H W. apply try_insert_bij_eq in H. destruct H as (E & _ & _). subst m'.
  apply insert_wf. assumption.
Qed.

Theorem insert_all_bij_bij : forall ps m m', insert_all_bij ps m = Some m' ->
  is_bijection m = true -> is_bijection m' = true.
Proof.
  induction ps as [|[x y] t IH]; intros m m' H B; cbn [insert_all_bij] in H.
  - inversion H; subst. assumption.
  - destruct (try_insert_bij x y m) as [m1|] eqn:E; [|discriminate].
    apply (IH _ _ H). eapply try_insert_bij_bij; eassumption.
Qed.

Lemma insert_all_bij_bij_nonempty : forall ps m m', insert_all_bij ps m = Some m' ->
  ps <> [] -> is_bijection m' = true.
Proof.
  intros [|[x y] t] m m' H Hne; [congruence|]. cbn [insert_all_bij] in H.
  destruct (try_insert_bij x y m) as [m1|] eqn:E; [|discriminate].
  apply (insert_all_bij_bij _ _ _ H). eapply try_insert_bij_bij; eassumption.
Qed.

Theorem insert_all_bij_mono : forall ps m m', insert_all_bij ps m = Some m' ->
  forall k0 v0, get m k0 = Some v0 -> get m' k0 = Some v0.
Proof.
  induction ps as [|[x y] t IH]; intros m m' H k0 v0 G; cbn [insert_all_bij] in H.
  - inversion H; subst. assumption.
  - destruct (try_insert_bij x y m) as [m1|] eqn:E; [|discriminate].
    apply (IH _ _ H). eapply try_insert_bij_mono; eassumption.
Qed.

Theorem insert_all_bij_get : forall ps m m', insert_all_bij ps m = Some m' ->
  forall x y, In (x, y) ps -> get m' x = Some y.
Proof.
  induction ps as [|[x y] t IH]; intros m m' H x0 y0 Hin; cbn [insert_all_bij] in H; [contradiction|].
  destruct (try_insert_bij x y m) as [m1|] eqn:E; [|discriminate].
  destruct Hin as [Hin|Hin].
  - inversion Hin; subst. eapply insert_all_bij_mono; [eassumption|]. eapply try_insert_bij_get; eassumption.
  - eapply IH; eassumption.
Qed.

Lemma insert_all_bij_wf : forall ps m m', insert_all_bij ps m = Some m' -> wf m -> wf m'.
Proof.
  induction ps as [|[x y] t IH]; intros m m' H W; cbn [insert_all_bij] in H.
  - inversion H; subst. assumption.
  - destruct (try_insert_bij x y m) as [m1|] eqn:E; [|discriminate].
    apply (IH _ _ H). eapply try_insert_bij_wf; eassumption.
Qed.

(* ------------------------------------------------------------------ *)
(* the matcher: the anonymous inner loop of `ematch_impl`, named *)

Fixpoint ematch_kids (ch : list pattern) (subs : list appid) (acc : list estate) {struct ch} : M (list estate) :=
  match ch, subs with
  | sp :: ch', sid :: subs' =>
      dom next <- flat_mapM (fun a => ematch_impl sp a sid) acc;
      ematch_kids ch' subs' next
  | _, _ => ret acc
  end.

Lemma ematch_impl_node : forall n ch st i,
  ematch_impl (PNode n ch) st i =
  (dom nns <- enodes_applied i;
   flat_mapM (fun nn =>
     if negb (Nat.eqb (nvar n) (nvar nn)) then ret [] else
     dom vs <- reads (fun s => weak_variants s nn);
     flat_mapM (fun n2 =>
       dom n_sh <- lift (wshape n);
       dom c_sh <- lift (wshape (nullify n2));
       if negb (node_eqb (fst n_sh) (fst c_sh)) then ret [] else
       match insert_all_bij (combine (all_occ (nullify n2)) (all_occ n)) (partial_slotmap st) with
       | None => ret []
       | Some m' => ematch_kids ch (app_occ n2) [ {| partial_subst := partial_subst st; partial_slotmap := m' |} ]
       end) vs) nns).
Proof. intros. reflexivity. Qed.

(* every state a node pattern returns went through these steps *)
Lemma ematch_impl_node_inv : forall n ch st i s l s',
  ematch_impl (PNode n ch) st i s = Ok (l, s') ->
  forall st', In st' l ->
  exists n2 n_sh c_sh m' s1 l1 s2,
    wshape n = Ok n_sh /\ wshape (nullify n2) = Ok c_sh /\
    node_eqb (fst n_sh) (fst c_sh) = true /\
    insert_all_bij (combine (all_occ (nullify n2)) (all_occ n)) (partial_slotmap st) = Some m' /\
    ematch_kids ch (app_occ n2) [ {| partial_subst := partial_subst st; partial_slotmap := m' |} ] s1 = Ok (l1, s2) /\
    In st' l1.
Proof.
  intros n ch st i s l s' H st' Hin. rewrite ematch_impl_node in H.
  apply mbind_inv in H. destruct H as (nns & s0 & _ & H).
  destruct (flat_mapM_inv _ _ _ _ _ _ _ H st' Hin) as (nn & sa & ra & sb & _ & Hnn & Hra). clear H.
  destruct (negb (Nat.eqb (nvar n) (nvar nn))).
  { apply ret_inv in Hnn. destruct Hnn as [E _]. subst ra. contradiction. }
  apply mbind_inv in Hnn. destruct Hnn as (vs & sc & _ & H).
  destruct (flat_mapM_inv _ _ _ _ _ _ _ H st' Hra) as (n2 & sd & rb & se & _ & Hn2 & Hrb). clear H.
  apply mbind_inv in Hn2. destruct Hn2 as (n_sh & sf & Hw1 & H). apply lift_inv in Hw1. destruct Hw1 as [Hw1 _].
  apply mbind_inv in H. destruct H as (c_sh & sg & Hw2 & H). apply lift_inv in Hw2. destruct Hw2 as [Hw2 _].
  destruct (node_eqb (fst n_sh) (fst c_sh)) eqn:Eq; cbn [negb] in H.
  2:{ apply ret_inv in H. destruct H as [E _]. subst rb. contradiction. }
  destruct (insert_all_bij (combine (all_occ (nullify n2)) (all_occ n)) (partial_slotmap st)) as [m'|] eqn:Ei.
  2:{ apply ret_inv in H. destruct H as [E _]. subst rb. contradiction. }
  exists n2, n_sh, c_sh, m', sg, rb, se. repeat split; assumption.
Qed.

(* a generic invariant: any preorder on matcher states that the two elementary steps respect
   relates the initial state to every returned state *)
Section MatchRel.
  Variable R : estate -> estate -> Prop.
  Hypothesis R_refl : forall a, R a a.
  Hypothesis R_trans : forall a b c, R a b -> R b c -> R a c.
  Hypothesis R_bind : forall st v i, sub_get (partial_subst st) v = None ->
    R st {| partial_subst := partial_subst st ++ [(v, i)]; partial_slotmap := partial_slotmap st |}.
  Hypothesis R_slots : forall st ps m', insert_all_bij ps (partial_slotmap st) = Some m' ->
    R st {| partial_subst := partial_subst st; partial_slotmap := m' |}.

  Definition rel_pat (p : pattern) : Prop :=
    forall st i s l s', ematch_impl p st i s = Ok (l, s') -> forall st', In st' l -> R st st'.

  Lemma ematch_kids_rel : forall ch, Forall rel_pat ch ->
    forall subs acc s l s', ematch_kids ch subs acc s = Ok (l, s') ->
    forall st', In st' l -> exists a, In a acc /\ R a st'.
  Proof.
    induction ch as [|sp ch' IH]; intros Hch subs acc s l s' H st' Hin.
    - cbn [ematch_kids] in H. apply ret_inv in H. destruct H as [E _]. subst l. exists st'. auto.
    - destruct subs as [|sid subs'].
      + cbn [ematch_kids] in H. apply ret_inv in H. destruct H as [E _]. subst l. exists st'. auto.
      + cbn [ematch_kids] in H. inversion Hch as [|? ? Hsp Hch']; subst.
        apply mbind_inv in H. destruct H as (next & s1 & Hn & H).
        destruct (IH Hch' _ _ _ _ _ H st' Hin) as (a & Ha & Ra).
        destruct (flat_mapM_inv _ _ _ _ _ _ _ Hn a Ha) as (a0 & sa & ra & sb & Ha0 & Hm & Hra).
        exists a0. split; [assumption|]. eapply R_trans; [|exact Ra]. eapply Hsp; eassumption.
  Qed.

  Theorem ematch_impl_rel : forall p, rel_pat p.
  Proof.
    induction p as [v|n ch IH|b x t _ _ _] using pattern_ind2; intros st i s l s' H st' Hin.
    - cbn [ematch_impl] in H. destruct (sub_get (partial_subst st) v) as [j|] eqn:G.
      + apply mbind_inv in H. destruct H as (e & s1 & _ & H). apply ret_inv in H. destruct H as [E _]. subst l.
        destruct e; [|contradiction]. destruct Hin as [Hin|[]]. subst st'. apply R_refl.
      + apply ret_inv in H. destruct H as [E _]. subst l. destruct Hin as [Hin|[]]. subst st'.
        apply R_bind. assumption.
    - destruct (ematch_impl_node_inv _ _ _ _ _ _ _ H st' Hin)
        as (n2 & n_sh & c_sh & m' & s1 & l1 & s2 & _ & _ & _ & Hi & Hk & Hl1).
      destruct (ematch_kids_rel ch IH _ _ _ _ _ Hk st' Hl1) as (a & Ha & Ra).
      destruct Ha as [Ha|[]]. subst a. eapply R_trans; [|exact Ra]. eapply R_slots. eassumption.
    - cbn [ematch_impl] in H. discriminate.
  Qed.
End MatchRel.

(* ------------------------------------------------------------------ *)
(* 4b. the bijection invariant through the matcher *)

Theorem ematch_impl_bij : forall p st i s l s', ematch_impl p st i s = Ok (l, s') ->
  is_bijection (partial_slotmap st) = true ->
  forall st', In st' l -> is_bijection (partial_slotmap st') = true.
Proof.
  intros p st i s l s' H B st' Hin.
  refine (ematch_impl_rel
            (fun a b => is_bijection (partial_slotmap a) = true -> is_bijection (partial_slotmap b) = true)
            _ _ _ _ p st i s l s' H st' Hin B).
  - intros a Ha. exact Ha.
  - intros a b c Hab Hbc Ha. auto.
  - intros a v j _ Ha. exact Ha.
  - intros a ps m' Hi Ha. cbn [partial_slotmap]. eapply insert_all_bij_bij; eassumption.
Qed.

Lemma ematch_impl_wf : forall p st i s l s', ematch_impl p st i s = Ok (l, s') ->
  wf (partial_slotmap st) -> forall st', In st' l -> wf (partial_slotmap st').
Proof.
  intros p st i s l s' H W st' Hin.
  refine (ematch_impl_rel (fun a b => wf (partial_slotmap a) -> wf (partial_slotmap b))
            _ _ _ _ p st i s l s' H st' Hin W).
  - intros a Ha. exact Ha.
  - intros a b c Hab Hbc Ha. auto.
  - intros a v j _ Ha. exact Ha.
  - intros a ps m' Hi Ha. cbn [partial_slotmap]. eapply insert_all_bij_wf; eassumption.
Qed.

(* the slot map only grows *)
Theorem ematch_impl_slotmap_mono : forall p st i s l s', ematch_impl p st i s = Ok (l, s') ->
  forall st', In st' l ->
  forall k v, get (partial_slotmap st) k = Some v -> get (partial_slotmap st') k = Some v.
Proof.
  intros p st i s l s' H st' Hin.
  refine (ematch_impl_rel
            (fun a b => forall k v, get (partial_slotmap a) k = Some v -> get (partial_slotmap b) k = Some v)
            _ _ _ _ p st i s l s' H st' Hin).
  - intros a k v Ha. exact Ha.
  - intros a b c Hab Hbc k v Ha. auto.
  - intros a v j _ k w Ha. exact Ha.
  - intros a ps m' Hi k v Ha. cbn [partial_slotmap]. eapply insert_all_bij_mono; eassumption.
Qed.

(* `is_bijection` (no repeated value in the pair vector) gives injectivity of `get`, also without
   the sortedness invariant *)
Lemma is_bijection_inj : forall m, is_bijection m = true -> injective m.
Proof.
  intros m B. unfold is_bijection in B. apply nodupb_NoDup in B. unfold values_vec in B.
  intros k1 k2 v H1 H2. apply get_in in H1, H2.
  induction m as [|[k v'] t IH]; cbn [In map] in *; [contradiction|].
  inversion B as [|? ? Hnotin Hnd]; subst.
  destruct H1 as [E1|H1], H2 as [E2|H2].
  - congruence.
  - inversion E1; subst. exfalso. apply Hnotin. change v with (snd (k2, v)). apply in_map. exact H2.
  - inversion E2; subst. exfalso. apply Hnotin. change v with (snd (k1, v)). apply in_map. exact H1.
  - auto.
Qed.

Corollary ematch_impl_injective : forall p st i s l s', ematch_impl p st i s = Ok (l, s') ->
  is_bijection (partial_slotmap st) = true ->
  forall st', In st' l ->
  forall k1 k2 v, get (partial_slotmap st') k1 = Some v -> get (partial_slotmap st') k2 = Some v -> k1 = k2.
Proof.
  intros p st i s l s' H B st' Hin. apply is_bijection_inj. eapply ematch_impl_bij; eassumption.
Qed.

(* from the empty state, as `ematch_all` calls it *)
Corollary ematch_impl_estate0_injective : forall p i s l s', ematch_impl p estate0 i s = Ok (l, s') ->
  forall st', In st' l -> wf (partial_slotmap st') /\ injective (partial_slotmap st').
Proof.
  intros p i s l s' H st' Hin. split.
  - eapply ematch_impl_wf; [eassumption|exact I|assumption].
  - apply is_bijection_inj. eapply ematch_impl_bij; [eassumption|reflexivity|assumption].
Qed.

(* ------------------------------------------------------------------ *)
(* 1. every returned substitution binds every variable of the pattern *)

Fixpoint pvars (p : pattern) : list text :=
  match p with
  | PVarP v => [v]
  | PNode _ ch => (fix go (l : list pattern) : list text :=
                     match l with [] => [] | c :: t => pvars c ++ go t end) ch
  | PSubst b x t => pvars b ++ pvars x ++ pvars t
  end.

Lemma pvars_node : forall n ch, pvars (PNode n ch) = flat_map pvars ch.
Proof. intros n ch. cbn [pvars]. induction ch as [|c t IH]; cbn [flat_map]; [reflexivity|]. rewrite IH. reflexivity. Qed.

(* well-formed patterns: every node pattern has one child per applied-id position.  This is
   `arity_okb` of Parse/ArityFacts.v, which `parse_tokens_arity` proves of every parsed pattern. *)
Definition wf_pat (p : pattern) : Prop := arity_okb p = true.

Lemma wf_pat_node : forall n ch, wf_pat (PNode n ch) ->
  List.length ch = List.length (app_occ n) /\ Forall wf_pat ch.
Proof.
  intros n ch H. unfold wf_pat in H. rewrite arity_node in H. apply andb_true_iff in H. destruct H as [H1 H2].
  apply Nat.eqb_eq in H1. split; [assumption|]. unfold all_ok in H2. rewrite forallb_forall in H2.
  apply Forall_forall. exact H2.
Qed.

Definition bound (sb : subst) (v : text) : Prop := sub_get sb v <> None.

Lemma sub_get_app : forall a b v,
  sub_get (a ++ b) v = match sub_get a v with Some x => Some x | None => sub_get b v end.
Proof.
  induction a as [|[k x] t IH]; intros b v; cbn [app sub_get]; [reflexivity|].
  destruct (text_eqb k v); [reflexivity|apply IH].
Qed.

(* (a) keys are kept *)
Theorem ematch_impl_keeps : forall p st i s l s', ematch_impl p st i s = Ok (l, s') ->
  forall st', In st' l -> forall v, bound (partial_subst st) v -> bound (partial_subst st') v.
Proof.
  intros p st i s l s' H st' Hin.
  refine (ematch_impl_rel (fun a b => forall v, bound (partial_subst a) v -> bound (partial_subst b) v)
            _ _ _ _ p st i s l s' H st' Hin).
  - intros a v Ha. exact Ha.
  - intros a b c Hab Hbc v Ha. auto.
  - intros a v j _ w Ha. unfold bound in *. cbn [partial_subst]. rewrite sub_get_app.
    destruct (sub_get (partial_subst a) w); [discriminate|congruence].
  - intros a ps m' _ v Ha. exact Ha.
Qed.

(* the shapes of the pattern node and of the candidate agree, so the candidate has as many
   applied-id positions as the pattern node *)
Lemma ws_vals_fst_length : forall vm m, List.length (fst (ws_vals vm m)) = List.length vm.
Proof.
  induction vm as [|[k v] t IH]; intros m; cbn [ws_vals]; [reflexivity|].
  destruct (on_see v m) as [v' m1]. specialize (IH m1). destruct (ws_vals t m1) as [t' m2].
  cbn [fst List.length] in *. rewrite IH. reflexivity.
Qed.

Lemma ws_f_app_len : forall lg a m, List.length (app_occ_f (fst (ws_f lg a m))) = List.length (app_occ_f a).
Proof.
  intros lg. induction a as [s|x|s b IH|p]; intros m; cbn [ws_f].
  - destruct (on_see s m) as [s' m1]. reflexivity.
  - destruct (ws_vals (am x) m) as [vm m1]. reflexivity.
  - destruct (add_slot s m) as [s' m1]. specialize (IH m1). destruct (ws_f lg b m1) as [b' m2].
    cbn [fst app_occ_f] in *. exact IH.
  - reflexivity.
Qed.

Lemma ws_args_app_len : forall lg l m,
  List.length (flat_map app_occ_f (fst (ws_args lg l m))) = List.length (flat_map app_occ_f l).
Proof.
  intros lg. induction l as [|a t IH]; intros m; cbn [ws_args]; [reflexivity|].
  pose proof (ws_f_app_len lg a m) as Ha. destruct (ws_f lg a m) as [a' m1].
  specialize (IH m1). destruct (ws_args lg t m1) as [t' m2]. cbn [fst flat_map] in *.
  rewrite !app_length. lia.
Qed.

Lemma weak_shape_app_len : forall lg ck n sh bij, weak_shape lg ck n = Ok (sh, bij) ->
  List.length (app_occ sh) = List.length (app_occ n).
Proof.
  unfold weak_shape. intros lg ck n sh bij H.
  pose proof (ws_args_app_len lg (nargs n) ([], 0)) as L.
  destruct (ws_args lg (nargs n) ([], 0)) as [l m]. cbn [fst] in L.
  destruct (inverse ck (fst m)) as [b|]; cbn [bind] in H; [|discriminate].
  inversion H; subst. unfold app_occ. cbn [nargs]. exact L.
Qed.

Lemma farg_eqb_app_len : forall a b, farg_eqb a b = true ->
  List.length (app_occ_f a) = List.length (app_occ_f b).
Proof.
  induction a as [s|x|s f IH|p]; intros [s'|x'|s' f'|p'] H; cbn [farg_eqb] in H; try discriminate; cbn [app_occ_f];
    try reflexivity.
  apply andb_true_iff in H. destruct H as [_ H]. apply IH. assumption.
Qed.

Lemma node_eqb_app_len : forall n m, node_eqb n m = true -> List.length (app_occ n) = List.length (app_occ m).
Proof.
  unfold node_eqb, app_occ. intros n m H. apply andb_true_iff in H. destruct H as [_ H].
  generalize dependent (nargs m). induction (nargs n) as [|a t IH]; intros [|b u] H; cbn [forallb2] in H;
    try discriminate; [reflexivity|].
  apply andb_true_iff in H. destruct H as [H1 H2]. cbn [flat_map]. rewrite !app_length.
  rewrite (farg_eqb_app_len _ _ H1), (IH _ H2). reflexivity.
Qed.

Lemma nullify_app_len : forall n, List.length (app_occ (nullify n)) = List.length (app_occ n).
Proof.
  intros n. unfold nullify, map_applied_ids, app_occ. cbn [nargs].
  induction (nargs n) as [|a t IH]; cbn [map flat_map]; [reflexivity|].
  rewrite !app_length, IH. f_equal.
  clear IH. induction a as [s|x|s b IHb|p]; cbn [app_occ_f]; try reflexivity. exact IHb.
Qed.

Lemma matched_app_len : forall n n2 n_sh c_sh,
  wshape n = Ok n_sh -> wshape (nullify n2) = Ok c_sh -> node_eqb (fst n_sh) (fst c_sh) = true ->
  List.length (app_occ n2) = List.length (app_occ n).
Proof.
  intros n n2 [sh1 b1] [sh2 b2] H1 H2 E. unfold wshape in *. cbn [fst] in E.
  apply weak_shape_app_len in H1, H2. apply node_eqb_app_len in E.
  rewrite <- (nullify_app_len n2). lia.
Qed.

(* (b) all variables are bound *)
Definition binds_pat (p : pattern) : Prop :=
  wf_pat p -> forall st i s l s', ematch_impl p st i s = Ok (l, s') ->
  forall st', In st' l -> forall v, In v (pvars p) -> bound (partial_subst st') v.

Lemma ematch_kids_keeps : forall ch subs acc s l s', ematch_kids ch subs acc s = Ok (l, s') ->
  forall st', In st' l -> exists a, In a acc /\ forall v, bound (partial_subst a) v -> bound (partial_subst st') v.
Proof.
  intros ch subs acc s l s' H st' Hin.
  refine (ematch_kids_rel (fun a b => forall v, bound (partial_subst a) v -> bound (partial_subst b) v)
            _ _ ch _ subs acc s l s' H st' Hin).
  - intros a v Ha. exact Ha.
  - intros a b c Hab Hbc v Ha. auto.
  - apply Forall_forall. intros p _ st i s0 l0 s0' H0 st0 Hin0. eapply ematch_impl_keeps; eassumption.
Qed.

Lemma ematch_kids_binds : forall ch, Forall binds_pat ch -> Forall wf_pat ch ->
  forall subs acc s l s', (List.length ch <= List.length subs)%nat ->
  ematch_kids ch subs acc s = Ok (l, s') ->
  forall st', In st' l -> forall v, In v (flat_map pvars ch) -> bound (partial_subst st') v.
Proof.
  induction ch as [|sp ch' IH]; intros Hb Hw subs acc s l s' Hlen H st' Hin v Hv; [contradiction|].
  destruct subs as [|sid subs']; [cbn [List.length] in Hlen; lia|].
  cbn [ematch_kids] in H. cbn [List.length] in Hlen.
  inversion Hb as [|? ? Hb1 Hb2]; subst. inversion Hw as [|? ? Hw1 Hw2]; subst.
  apply mbind_inv in H. destruct H as (next & s1 & Hn & H).
  cbn [flat_map] in Hv. apply in_app_or in Hv. destruct Hv as [Hv|Hv].
  - destruct (ematch_kids_keeps _ _ _ _ _ _ H st' Hin) as (a & Ha & Keep). apply Keep.
    destruct (flat_mapM_inv _ _ _ _ _ _ _ Hn a Ha) as (a0 & sa & ra & sb & _ & Hm & Hra).
    eapply Hb1; eassumption.
  - eapply (IH Hb2 Hw2 subs' next); try eassumption. lia.
Qed.

Theorem ematch_impl_binds : forall p, binds_pat p.
Proof.
  induction p as [v|n ch IH|b x t _ _ _] using pattern_ind2; intros W st i s l s' H st' Hin w Hw.
  - cbn [pvars] in Hw. destruct Hw as [Hw|[]]. subst w. cbn [ematch_impl] in H.
    destruct (sub_get (partial_subst st) v) as [j|] eqn:G.
    + apply mbind_inv in H. destruct H as (e & s1 & _ & H). apply ret_inv in H. destruct H as [E _]. subst l.
      destruct e; [|contradiction]. destruct Hin as [Hin|[]]. subst st'. unfold bound. congruence.
    + apply ret_inv in H. destruct H as [E _]. subst l. destruct Hin as [Hin|[]]. subst st'.
      unfold bound. cbn [partial_subst]. rewrite sub_get_app, G. cbn [sub_get]. rewrite text_eqb_refl. discriminate.
  - rewrite pvars_node in Hw. apply wf_pat_node in W. destruct W as [Wl Wc].
    destruct (ematch_impl_node_inv _ _ _ _ _ _ _ H st' Hin)
      as (n2 & n_sh & c_sh & m' & s1 & l1 & s2 & H1 & H2 & He & _ & Hk & Hl1).
    pose proof (matched_app_len _ _ _ _ H1 H2 He) as L.
    eapply (ematch_kids_binds ch IH Wc); try eassumption. lia.
  - cbn [ematch_impl] in H. discriminate.
Qed.

(* final_subst keeps the key set *)
Fixpoint final_go (l : subst) (m : slotmap) : M subst :=
  match l with
  | [] => ret []
  | (v, a) :: t =>
      dom m' <- extend_fresh (values (am a)) m;
      dom r <- final_go t m';
      ret ((v, {| aid := aid a; am := compose_partial (am a) m' |}) :: r)
  end.

Lemma final_subst_go : forall st, final_subst st = final_go (partial_subst st) (partial_slotmap st).
Proof. intros. reflexivity. Qed.

Lemma final_go_keys : forall l m s r s', final_go l m s = Ok (r, s') -> map fst r = map fst l.
Proof.
  induction l as [|[v a] t IH]; intros m s r s' H; cbn [final_go] in H.
  - apply ret_inv in H. destruct H as [E _]. subst r. reflexivity.
  - apply mbind_inv in H. destruct H as (m' & s1 & _ & H).
    apply mbind_inv in H. destruct H as (r1 & s2 & Hr & H).
    apply ret_inv in H. destruct H as [E _]. subst r. cbn [map fst]. f_equal. eapply IH. eassumption.
Qed.

Lemma sub_get_keys : forall a b, map fst a = map fst b -> forall v, sub_get a v = None <-> sub_get b v = None.
Proof.
  induction a as [|[k x] t IH]; intros [|[k' x'] t'] E v; cbn [map fst] in E; try discriminate; [tauto|].
  inversion E; subst. cbn [sub_get]. destruct (text_eqb k' v); [split; discriminate|]. apply IH. assumption.
Qed.

Theorem final_subst_keys : forall st s sb s', final_subst st s = Ok (sb, s') ->
  map fst sb = map fst (partial_subst st) /\
  forall v, sub_get sb v <> None <-> sub_get (partial_subst st) v <> None.
Proof.
  intros st s sb s' H. rewrite final_subst_go in H. apply final_go_keys in H. split; [assumption|].
  intros v. pose proof (sub_get_keys _ _ H v) as K. tauto.
Qed.

Lemma ematch_all_inv : forall p s l s', ematch_all p s = Ok (l, s') ->
  forall sb, In sb l ->
  exists i sl s1 sts s2 st s3 s4,
    ematch_impl p estate0 {| aid := i; am := identity sl |} s1 = Ok (sts, s2) /\ In st sts /\
    final_subst st s3 = Ok (sb, s4).
Proof.
  intros p s l s' H sb Hin. unfold ematch_all in H.
  apply mbind_inv in H. destruct H as (live & s0 & _ & H).
  destruct (flat_mapM_inv _ _ _ _ _ _ _ H sb Hin) as (i & sa & ra & sb' & _ & Hi & Hra). clear H.
  apply mbind_inv in Hi. destruct Hi as (sl & s1 & _ & H).
  apply mbind_inv in H. destruct H as (sts & s2 & Hm & H).
  destruct (mapM_inv _ _ _ _ _ _ _ H sb Hra) as (st & s3 & s4 & Hst & Hf).
  exists i, sl, s1, sts, s2, st, s3, s4. auto.
Qed.

Theorem ematch_all_binds : forall p s l s', wf_pat p -> ematch_all p s = Ok (l, s') ->
  forall sb, In sb l -> forall v, In v (pvars p) -> sub_get sb v <> None.
Proof.
  intros p s l s' W H sb Hin v Hv.
  destruct (ematch_all_inv _ _ _ _ H sb Hin) as (i & sl & s1 & sts & s2 & st & s3 & s4 & Hm & Hst & Hf).
  apply final_subst_keys in Hf. destruct Hf as [_ Hf]. apply Hf.
  eapply (ematch_impl_binds p W); eassumption.
Qed.

(* ------------------------------------------------------------------ *)
(* 2. instantiation never reaches the unbound-variable panic when all variables are bound *)

(* `pattern_subst` with the unbound-variable branch as a parameter *)
Fixpoint pattern_subst_gen (d : text -> M appid) (p : pattern) (sb : subst) {struct p} : M appid :=
  match p with
  | PNode n children =>
      dom l <- (fix go (ch : list pattern) (k : nat) {struct ch} : M (list appid) :=
                  match k with
                  | O => ret []
                  | S k' =>
                      match ch with
                      | [] => fail OutOfBounds
                      | c :: ch' => dom a <- pattern_subst_gen d c sb; dom r <- go ch' k'; ret (a :: r)
                      end
                  end) children (List.length (app_occ n));
      eg_add (set_apps n l)
  | PVarP v =>
      match sub_get sb v with
      | Some a => ret a
      | None => d v
      end
  | PSubst b x t =>
      dom b' <- pattern_subst_gen d b sb;
      dom x' <- pattern_subst_gen d x sb;
      dom t' <- pattern_subst_gen d t sb;
      syn_expr_subst b' x' t'
  end.

(* the two child loops, named *)
Definition psubst_kids (sb : subst) : list pattern -> nat -> M (list appid) :=
  fix go (ch : list pattern) (k : nat) {struct ch} : M (list appid) :=
    match k with
    | O => ret []
    | S k' =>
        match ch with
        | [] => fail OutOfBounds
        | c :: ch' => dom a <- pattern_subst c sb; dom r <- go ch' k'; ret (a :: r)
        end
    end.

Definition psubst_gen_kids (d : text -> M appid) (sb : subst) : list pattern -> nat -> M (list appid) :=
  fix go (ch : list pattern) (k : nat) {struct ch} : M (list appid) :=
    match k with
    | O => ret []
    | S k' =>
        match ch with
        | [] => fail OutOfBounds
        | c :: ch' => dom a <- pattern_subst_gen d c sb; dom r <- go ch' k'; ret (a :: r)
        end
    end.

Lemma psubst_kids_cons : forall sb c ch k,
  psubst_kids sb (c :: ch) (S k) = (dom a <- pattern_subst c sb; dom r <- psubst_kids sb ch k; ret (a :: r)).
Proof. intros. reflexivity. Qed.

Lemma psubst_gen_kids_cons : forall d sb c ch k,
  psubst_gen_kids d sb (c :: ch) (S k) =
  (dom a <- pattern_subst_gen d c sb; dom r <- psubst_gen_kids d sb ch k; ret (a :: r)).
Proof. intros. reflexivity. Qed.

Lemma psubst_kids_nil : forall sb k, psubst_kids sb [] k = match k with O => ret [] | S _ => fail OutOfBounds end.
Proof. intros sb [|k]; reflexivity. Qed.

Lemma psubst_gen_kids_nil : forall d sb k,
  psubst_gen_kids d sb [] k = match k with O => ret [] | S _ => fail OutOfBounds end.
Proof. intros d sb [|k]; reflexivity. Qed.

Lemma psubst_kids_O : forall sb ch, psubst_kids sb ch O = ret [].
Proof. intros sb [|c ch]; reflexivity. Qed.

Lemma psubst_gen_kids_O : forall d sb ch, psubst_gen_kids d sb ch O = ret [].
Proof. intros d sb [|c ch]; reflexivity. Qed.

Lemma pattern_subst_node : forall n ch sb,
  pattern_subst (PNode n ch) sb =
  (dom l <- psubst_kids sb ch (List.length (app_occ n)); eg_add (set_apps n l)).
Proof. intros. reflexivity. Qed.

Lemma pattern_subst_gen_node : forall d n ch sb,
  pattern_subst_gen d (PNode n ch) sb =
  (dom l <- psubst_gen_kids d sb ch (List.length (app_occ n)); eg_add (set_apps n l)).
Proof. intros. reflexivity. Qed.

Theorem pattern_subst_gen_default : forall p sb,
  pattern_subst p sb = pattern_subst_gen (fun _ => fail ExplicitPanic) p sb.
Proof.
  intros p sb. induction p as [v|n ch IH|b x t IHb IHx IHt] using pattern_ind2.
  - reflexivity.
  - rewrite pattern_subst_node, pattern_subst_gen_node.
    assert (E : forall k, psubst_kids sb ch k = psubst_gen_kids (fun _ => fail ExplicitPanic) sb ch k).
    { induction IH as [|c ch' Hc _ IHch]; intros k.
      - rewrite psubst_kids_nil, psubst_gen_kids_nil. reflexivity.
      - destruct k as [|k']; [rewrite psubst_kids_O, psubst_gen_kids_O; reflexivity|].
        rewrite psubst_kids_cons, psubst_gen_kids_cons, Hc, IHch. reflexivity. }
    rewrite E. reflexivity.
  - cbn [pattern_subst pattern_subst_gen]. rewrite IHb, IHx, IHt. reflexivity.
Qed.

(* the default plays no part once every variable of the pattern is bound (equal as functions) *)
Theorem pattern_subst_gen_bound_eq : forall d d' p sb,
  (forall v, In v (pvars p) -> sub_get sb v <> None) ->
  pattern_subst_gen d p sb = pattern_subst_gen d' p sb.
Proof.
  intros d d' p sb. induction p as [v|n ch IH|b x t IHb IHx IHt] using pattern_ind2; intros Hb.
  - cbn [pattern_subst_gen]. destruct (sub_get sb v) as [a|] eqn:G; [reflexivity|].
    exfalso. apply (Hb v); [left; reflexivity|assumption].
  - rewrite !pattern_subst_gen_node. rewrite pvars_node in Hb.
    assert (E : forall k, psubst_gen_kids d sb ch k = psubst_gen_kids d' sb ch k).
    { induction IH as [|c ch' Hc _ IHch]; intros k.
      { rewrite !psubst_gen_kids_nil. reflexivity. }
      destruct k as [|k']; [rewrite !psubst_gen_kids_O; reflexivity|].
      rewrite !psubst_gen_kids_cons, Hc, IHch; [reflexivity| |].
      - intros v Hv. apply Hb. cbn [flat_map]. apply in_or_app. right. assumption.
      - intros v Hv. apply Hb. cbn [flat_map]. apply in_or_app. left. assumption. }
    rewrite E. reflexivity.
  - cbn [pattern_subst_gen]. cbn [pvars] in Hb. rewrite IHb, IHx, IHt; [reflexivity| | |].
    + intros v Hv. apply Hb. apply in_or_app. right. apply in_or_app. right. assumption.
    + intros v Hv. apply Hb. apply in_or_app. right. apply in_or_app. left. assumption.
    + intros v Hv. apply Hb. apply in_or_app. left. assumption.
Qed.

Theorem pattern_subst_bound_never_unbound : forall d d' p sb,
  (forall v, In v (pvars p) -> sub_get sb v <> None) ->
  forall s, pattern_subst_gen d p sb s = pattern_subst_gen d' p sb s.
Proof. intros d d' p sb Hb s. rewrite (pattern_subst_gen_bound_eq d d' p sb Hb). reflexivity. Qed.

(* a rule whose right-hand side uses only variables of its (well-formed) left-hand side: instantiating
   the right-hand side with a substitution the matcher returned never takes the unbound-variable
   branch (whatever that branch is replaced by, the result is the same) *)
Corollary rule_rhs_instantiable : forall lhs rhs s l s',
  wf_pat lhs -> ematch_all lhs s = Ok (l, s') -> incl (pvars rhs) (pvars lhs) ->
  forall sb, In sb l -> forall d s2, pattern_subst rhs sb s2 = pattern_subst_gen d rhs sb s2.
Proof.
  intros lhs rhs s l s' W H Hincl sb Hin d s2. rewrite pattern_subst_gen_default.
  apply pattern_subst_bound_never_unbound. intros v Hv.
  eapply ematch_all_binds; try eassumption. apply Hincl. assumption.
Qed.

(* the same for the left-hand side itself (union_instantiations instantiates both) *)
Corollary rule_lhs_instantiable : forall lhs s l s',
  wf_pat lhs -> ematch_all lhs s = Ok (l, s') ->
  forall sb, In sb l -> forall d s2, pattern_subst lhs sb s2 = pattern_subst_gen d lhs sb s2.
Proof.
  intros lhs s l s' W H sb Hin d s2. eapply rule_rhs_instantiable; try eassumption. apply incl_refl.
Qed.

(* ------------------------------------------------------------------ *)
(* 3. Remark (matching is a query).  `ematch_impl`, `final_subst`, `ematch_all` are M-computations
   only because the model threads the fresh-slot counter through the state: every primitive they
   use is `ret`, `fail`, `lift`, `reads`, `gets` (which return the state they got) or `fresh` /
   `with_ctr` (which only call `set_ctr`).  Hence matching changes nothing but `ctr`. *)

Definition same_graph (s s' : egraph) : Prop :=
  unionfind s' = unionfind s /\ classes s' = classes s /\ hashcons s' = hashcons s /\ pending s' = pending s.

Lemma same_graph_refl : forall s, same_graph s s.
Proof. intros s. unfold same_graph. auto. Qed.

Lemma same_graph_trans : forall a b c, same_graph a b -> same_graph b c -> same_graph a c.
Proof.
  unfold same_graph. intros a b c (A1 & A2 & A3 & A4) (B1 & B2 & B3 & B4).
  repeat split; congruence.
Qed.

Lemma same_graph_ctr : forall s c, same_graph s (set_ctr s c).
Proof. intros s c. unfold same_graph, set_ctr. cbn. auto. Qed.

Local Notation sg_ret := (pres_ret same_graph same_graph_refl).
Local Notation sg_bind := (pres_bind same_graph same_graph_trans).

Lemma sg_flat_mapM : forall A C (f : A -> M (list C)) l,
  (forall x, pres same_graph (f x)) -> pres same_graph (flat_mapM f l).
Proof.
  intros A C f l Hf. induction l as [|x t IH]; cbn [flat_mapM]; [apply sg_ret|].
  apply sg_bind; [apply Hf|]. intros y. apply sg_bind; [apply IH|]. intros r. apply sg_ret.
Qed.

Lemma sg_extend_fresh : forall l m, pres same_graph (extend_fresh l m).
Proof.
  induction l as [|x t IH]; intros m; cbn [extend_fresh]; [apply sg_ret|].
  destruct (contains_key m x); [apply IH|].
  apply sg_bind; [apply anyctr_fresh; exact same_graph_ctr|]. intros f. apply IH.
Qed.

Lemma sg_enodes_applied : forall i, pres same_graph (enodes_applied i).
Proof.
  intros i. unfold enodes_applied. apply sg_bind; [apply pres_reads; exact same_graph_refl|]. intros c.
  apply pres_mapM; [exact same_graph_refl|exact same_graph_trans|]. intros [sh [bij src]].
  apply sg_bind; [apply pres_lift; exact same_graph_refl|]. intros x.
  apply sg_bind; [apply anyctr_with_ctr; exact same_graph_ctr|]. intros x2.
  apply sg_bind.
  - generalize (@nil (slot * slot)). induction (slots x2) as [|sl t IH]; intros m; [apply sg_ret|].
    destruct (contains_key (am i) sl); [apply IH|].
    apply sg_bind; [apply anyctr_fresh; exact same_graph_ctr|]. intros f. apply IH.
  - intros m. apply pres_lift. exact same_graph_refl.
Qed.

Lemma sg_ematch_kids : forall ch, Forall (fun p => forall st i, pres same_graph (ematch_impl p st i)) ch ->
  forall subs acc, pres same_graph (ematch_kids ch subs acc).
Proof.
  induction ch as [|sp ch' IH]; intros Hch subs acc; [cbn [ematch_kids]; apply sg_ret|].
  destruct subs as [|sid subs']; cbn [ematch_kids]; [apply sg_ret|].
  inversion Hch as [|? ? Hsp Hch']; subst.
  apply sg_bind; [apply sg_flat_mapM; intros a; apply Hsp|]. intros next. apply IH. assumption.
Qed.

Lemma sg_ematch_impl : forall p st i, pres same_graph (ematch_impl p st i).
Proof.
  induction p as [v|n ch IH|b x t _ _ _] using pattern_ind2; intros st i.
  - cbn [ematch_impl]. destruct (sub_get (partial_subst st) v) as [j|]; [|apply sg_ret].
    apply sg_bind; [apply pres_reads; exact same_graph_refl|]. intros e. apply sg_ret.
  - rewrite ematch_impl_node. apply sg_bind; [apply sg_enodes_applied|]. intros nns.
    apply sg_flat_mapM. intros nn. destruct (negb (Nat.eqb (nvar n) (nvar nn))); [apply sg_ret|].
    apply sg_bind; [apply pres_reads; exact same_graph_refl|]. intros vs.
    apply sg_flat_mapM. intros n2.
    apply sg_bind; [apply pres_lift; exact same_graph_refl|]. intros n_sh.
    apply sg_bind; [apply pres_lift; exact same_graph_refl|]. intros c_sh.
    destruct (negb (node_eqb (fst n_sh) (fst c_sh))); [apply sg_ret|].
    destruct (insert_all_bij _ _) as [m'|]; [|apply sg_ret].
    apply sg_ematch_kids. exact IH.
  - cbn [ematch_impl]. apply pres_fail.
Qed.

Lemma sg_final_subst : forall st, pres same_graph (final_subst st).
Proof.
  intros st. rewrite final_subst_go. generalize (partial_slotmap st).
  induction (partial_subst st) as [|[v a] t IH]; intros m; cbn [final_go]; [apply sg_ret|].
  apply sg_bind; [apply sg_extend_fresh|]. intros m'.
  apply sg_bind; [apply IH|]. intros r. apply sg_ret.
Qed.

Theorem ematch_all_state : forall p s l s', ematch_all p s = Ok (l, s') ->
  unionfind s' = unionfind s /\ classes s' = classes s /\ hashcons s' = hashcons s /\ pending s' = pending s.
Proof.
  intros p s l s' H. revert s l s' H. change (pres same_graph (ematch_all p)). unfold ematch_all.
  apply sg_bind; [apply pres_gets; exact same_graph_refl|]. intros live.
  apply sg_flat_mapM. intros i.
  apply sg_bind; [apply pres_reads; exact same_graph_refl|]. intros sl.
  apply sg_bind; [apply sg_ematch_impl|]. intros sts.
  apply pres_mapM; [exact same_graph_refl|exact same_graph_trans|]. intros st. apply sg_final_subst.
Qed.

Theorem ematch_impl_state : forall p st i s l s', ematch_impl p st i s = Ok (l, s') ->
  unionfind s' = unionfind s /\ classes s' = classes s /\ hashcons s' = hashcons s /\ pending s' = pending s.
Proof. intros p st i s l s' H. exact (sg_ematch_impl p st i s l s' H). Qed.

(* ------------------------------------------------------------------ *)
(* `wf_pat` is needed in `ematch_all_binds`: the child loop of `ematch_impl` stops when EITHER the
   children or the applied ids of the candidate run out.  A node pattern with more children than its
   node has applied-id positions (the parser never builds one: `parse_tokens_arity`) matches without
   visiting the extra children, and their variables stay unbound.  Concretely: the nullary node 0,
   added to the empty e-graph, and the pattern `PNode node0 [?x]`. *)
Definition cx_node : node := {| nvar := 0; nargs := [] |}.
Definition cx_pat : pattern := PNode cx_node [PVarP [120]].
Definition cx_state : egraph :=
  Eval vm_compute in match eg_add cx_node empty_egraph with Ok (_, s) => s | Err _ => empty_egraph end.
Definition cx_id : appid :=
  Eval vm_compute in match eg_add cx_node empty_egraph with Ok (a, _) => a | Err _ => null_appid end.

Example ematch_all_binds_needs_wf_pat :
  eg_add cx_node empty_egraph = Ok (cx_id, cx_state) /\
  ~ wf_pat cx_pat /\
  exists s', ematch_all cx_pat cx_state = Ok ([ [] ], s') /\
             In [120] (pvars cx_pat) /\ sub_get [] [120] = None.
Proof.
  split; [vm_compute; reflexivity|]. split; [intro Hw; vm_compute in Hw; discriminate Hw|].
  exists (match ematch_all cx_pat cx_state with Ok (_, s') => s' | Err _ => cx_state end).
  split; [vm_compute; reflexivity|]. split; [left; reflexivity|reflexivity].
Qed.

(* ------------------------------------------------------------------ *)
Print Assumptions ematch_all_binds.
Print Assumptions ematch_impl_binds.
Print Assumptions ematch_impl_keeps.
Print Assumptions final_subst_keys.
Print Assumptions pattern_subst_gen_default.
Print Assumptions pattern_subst_bound_never_unbound.
Print Assumptions rule_rhs_instantiable.
Print Assumptions rule_lhs_instantiable.
Print Assumptions try_insert_bij_bij.
Print Assumptions try_insert_bij_get.
Print Assumptions try_insert_bij_mono.
Print Assumptions insert_all_bij_bij.
Print Assumptions ematch_impl_bij.
Print Assumptions ematch_impl_injective.
Print Assumptions ematch_impl_estate0_injective.
Print Assumptions ematch_impl_slotmap_mono.
Print Assumptions ematch_all_state.
Print Assumptions ematch_impl_state.
Print Assumptions ematch_all_binds_needs_wf_pat.
