(* EGraph/RewriteMachine.v — rewriting as a correspondence machine: decode
   `(egr (cfg c e) (terms T...) (ops OP...) motif (rules R...) (iters K))`, run the history on
   EGraph/Model.v, parse the rules (Parse/Parser.v, ONE slot table threaded through all rules: the
   condition's slot, then lhs, then rhs, rule by rule), iterate `apply_rewrites` K times and print the
   observation line of /verif/harness/src/egr.rs. *)
From SE Require Import Parse.Parser.
From SE Require Export EGraph.Rewrite EGraph.ModelMachine.

(* (rule <n> (t lhs) (t rhs) none | (free (t slot) (t var))) *)
Record rawrule := { rr_lhs : text; rr_rhs : text; rr_cond : option (text * text) }.

Definition dec_rule (e : sexp) : option rawrule :=
  match e with
  | Lst [Sym "rule"; Num _; l; r; c] =>
      match dec_text_sexp l, dec_text_sexp r with
      | Some l, Some r =>
          match c with
          | Sym "none" => Some {| rr_lhs := l; rr_rhs := r; rr_cond := None |}
          | Lst [Sym "free"; s; v] =>
              match dec_text_sexp s, dec_text_sexp v with
              | Some s, Some v => Some {| rr_lhs := l; rr_rhs := r; rr_cond := Some (s, v) |}
              | _, _ => None
              end
          | _ => None
          end
      | _, _ => None
      end
  | _ => None
  end.
Fixpoint dec_rules (l : list sexp) : option (list rawrule) :=
  match l with
  | [] => Some []
  | e :: t => match dec_rule e, dec_rules t with Some r, Some t' => Some (r :: t') | _, _ => None end
  end.

(* Rewrite::new_if: `Pattern::parse(a).unwrap()`: a parse error is an unwrap panic.
   slot_free_in: `Slot::named(slot)` (evaluated before the patterns are parsed). *)
Definition parse_unwrap (st : table) (s : text) : res (pattern * table) :=
  match parse_pattern_text false false false sigLV st s with
  | POk a => Ok a
  | PFail _ => Err UnwrapNone
  | PPanic e => Err e
  end.

Definition build_rule (st : table) (r : rawrule) : res (rule * table) :=
  do c <- match rr_cond r with
          | None => Ok (None, st)
          | Some (s, v) => do p <- named false false st s; Ok (Some (fst p, v), snd p)
          end;
  let '(cond, st1) := c in
  do l <- parse_unwrap st1 (rr_lhs r);
  do rh <- parse_unwrap (snd l) (rr_rhs r);
  Ok ({| r_lhs := fst l; r_rhs := fst rh; r_cond := cond |}, snd rh).

Fixpoint build_rules (st : table) (l : list rawrule) : res (list rule * table) :=
  match l with
  | [] => Ok ([], st)
  | r :: t => do p <- build_rule st r; do q <- build_rules (snd p) t; Ok (fst p :: fst q, snd q)
  end.

Definition node_limit : nat := 300.

Definition err1 (e : site) : sexp := Lst [Sym "err"; site_sexp e].

(* ------------------------------------------------------------------ *)
(* schedules.  The order in which `ematch_all` returns substitutions follows the iteration order of
   `class.nodes` (a hash map) and decides the order of the unions of one `apply_rewrites`; with the
   substitution form `b[x := t]` on a right-hand side this order is observable.  The harness therefore
   records, per iteration and rule, the signatures of the substitutions in the implementation's order
   (`subst_sig` in egr.rs), and the model replays that order: its own substitutions are rearranged so that
   their signatures follow the recorded sequence (substitutions with equal signatures keep the model's
   relative order).  A recorded sequence that is not a rearrangement of the model's signatures is a
   discrepancy: `(sched-mismatch)`.  Without a schedule the model uses its own order. *)

Fixpoint sexp_eqb (a b : sexp) {struct a} : bool :=
  match a, b with
  | Num x, Num y => x =? y
  | Sym x, Sym y => String.eqb x y
  | Lst l, Lst l' =>
      (fix go (l : list sexp) (l' : list sexp) {struct l} : bool :=
         match l, l' with
         | [], [] => true
         | x :: t, y :: t' => sexp_eqb x y && go t t'
         | _, _ => false
         end) l l'
  | _, _ => false
  end.

(* String's Ord: lexicographic on the code points *)
Fixpoint text_ltb (a b : text) : bool :=
  match a, b with
  | _, [] => false
  | [], _ :: _ => true
  | x :: a', y :: b' => (x <? y) || ((x =? y) && text_ltb a' b')
  end.
Fixpoint insert_var (p : text * appid) (l : subst) : subst :=
  match l with
  | [] => [p]
  | q :: t => if text_ltb (fst p) (fst q) then p :: l else q :: insert_var p t
  end.
Definition sort_vars (l : subst) : subst := fold_left (fun acc p => insert_var p acc) l [].

Definition is_fresh_slot (s : slot) : bool := s mod 4 =? 1.
Definition sig_slot (tbl : table) (s : slot) : sexp :=
  if s mod 4 =? 0 then Num (s / 4)
  else Lst [Sym "s"; text_sexp (match name_of tbl s with Ok t => t | Err _ => [] end)].

(* a class is named by the smallest id that belongs to it: which id leads a class depends on the order in
   which pending nodes are processed (hash-map order in the implementation); the allocation order does not *)
Definition leader_of (s : egraph) (i : N) : N :=
  match unionfind_get s i with Ok a => aid a | Err _ => i end.
Definition canon_id (s : egraph) (i : N) : N :=
  let l := leader_of s i in
  let n := List.length (unionfind s) in
  match find (fun j => leader_of s j =? l) (map N.of_nat (seq 0 n)) with Some j => j | None => i end.

(* per variable (sorted by name): the class, the non-fresh slots of the invocation (sorted), the number of
   fresh ones *)
Definition subst_sig (s : egraph) (tbl : table) (sb : subst) : sexp :=
  Lst (map (fun p : text * appid =>
              let sl := values (am (snd p)) in
              Lst [text_sexp (fst p); Num (canon_id s (aid (snd p)));
                   Lst (map (sig_slot tbl) (filter (fun x => negb (is_fresh_slot x)) sl));
                   Num (N.of_nat (List.length (filter is_fresh_slot sl)))]) (sort_vars sb)).

Fixpoint take_sig {A} (h : sexp) (pool : list (sexp * A)) : option (A * list (sexp * A)) :=
  match pool with
  | [] => None
  | (g, x) :: t =>
      if sexp_eqb h g then Some (x, t)
      else match take_sig h t with Some (y, t') => Some (y, (g, x) :: t') | None => None end
  end.
Fixpoint replay {A} (hint : list sexp) (pool : list (sexp * A)) : option (list A) :=
  match hint with
  | [] => match pool with [] => Some [] | _ => None end
  | h :: t => match take_sig h pool with
              | Some (x, pool') => match replay t pool' with Some r => Some (x :: r) | None => None end
              | None => None
              end
  end.

(* the schedule of one iteration: one `(r sig ...)` per rule *)
Definition rule_hints (it : option sexp) (k : nat) : option (list sexp) :=
  match it with
  | Some (Lst (Sym "it" :: rs)) =>
      match nth_opt rs k with Some (Lst (Sym "r" :: sigs)) => Some sigs | _ => None end
  | _ => None
  end.

Definition sched_of (s : egraph) (tbl : table) (it : option sexp) (k : nat) (l : list subst) : option (list subst) :=
  match rule_hints it k with
  | None => Some l
  | Some sigs => replay sigs (map (fun sb => (subst_sig s tbl sb, sb)) l)
  end.

(* one iteration: the match counts (ematch_all on the state before the iteration; also checks the recorded
   schedule against the model's substitutions), then apply_rewrites *)
Definition iteration (tbl : table) (it : option sexp) (rs : list rule) : M (list nat * list sexp * bool) :=
  dom s0 <- gets (fun s => s);
  dom ms <- mapM (fun r => ematch_all (r_lhs r)) rs;
  (* the rules whose recorded schedule is not a rearrangement of the model's signatures, with the latter *)
  let bad := flat_map (fun x => x)
              (mapi_from (fun k l => match sched_of s0 tbl it k l with
                                     | Some _ => []
                                     | None => [Lst (Num (N.of_nat k) :: map (subst_sig s0 tbl) l)]
                                     end) O ms) in
  dom ch <- apply_rewrites_sched (fun k l => match sched_of s0 tbl it k l with Some l' => l' | None => l end) rs;
  ret (map (@List.length subst) ms, bad, ch).

Definition it_obs (s : egraph) (hs : list appid) (counts : list nat) (ch : bool) : res sexp :=
  do m <- eq_matrix s hs;
  do p <- progress s;
  let '(a, b, c, d) := p in
  Ok (Lst [Sym "it"; sbool ch; Lst (Sym "matches" :: map (fun k => Num (N.of_nat k)) counts);
           Lst [Sym "prog"; Num a; Num b; Num c; Num d];
           Sym (String "b"%char (bits m));
           Lst [Sym "nodes"; Num (N.of_nat (total_number_of_nodes s))]]).

Fixpoint iterations (k : nat) (tbl : table) (sched : list sexp) (rs : list rule) (hs : list appid) (s : egraph)
  : list sexp :=
  match k with
  | O => []
  | S k' =>
      match iteration tbl (hd_error sched) rs s with
      | Err e => [err1 e]
      | Ok ((counts, bad, ch), s') =>
          match bad with _ :: _ => [Lst (Sym "sched-mismatch" :: bad)] | [] =>
          match it_obs s' hs counts ch with
          | Err e => [err1 e]
          | Ok o =>
              if Nat.ltb node_limit (total_number_of_nodes s') then [o; Lst [Sym "stopped"]]
              else o :: iterations k' tbl (tl sched) rs hs s'
          end
          end
      end
  end.

Definition run_egr (args : list sexp) : sexp :=
  match args with
  | _ :: Lst (Sym "terms" :: ts) :: Lst (Sym "ops" :: os) :: _ :: Lst (Sym "rules" :: rs) :: Lst [Sym "iters"; Num k] :: rest =>
      match dec_rterms ts, dec_hops os, dec_rules rs with
      | Some rts, Some ops, Some raw =>
          match run_ops rts ops [] empty_egraph with
          | Err e => Lst [Sym "obs"; Lst [Sym "res"; Sym "err"; site_sexp e]]
          | Ok (hs, s) =>
              (* the thread's slot table after the history: fresh_idx = the counter; the history's slots are
                 numeric or fresh-named, so nothing has been interned *)
              match build_rules {| fresh_idx := Model.ctr s; named_vec := [] |} raw with
              | Err e => Lst [Sym "obs"; Lst [Sym "res"; Sym "ok"]; Lst [Sym "rules"; err1 e]]
              | Ok (rules, tbl) =>
                  let s := set_ctr s (fresh_idx tbl) in
                  let sched := match rest with Lst (Sym "sched" :: l) :: _ => l | _ => [] end in
                  Lst (Sym "obs" :: Lst [Sym "res"; Sym "ok"] :: iterations (N.to_nat k) tbl sched rules hs s)
              end
          end
      | _, _, _ => Sym "bad-case"
      end
  | _ => Sym "bad-case"
  end.
