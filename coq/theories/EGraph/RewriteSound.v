(* EGraph/RewriteSound.v — C03: SOUNDNESS OF REWRITING ON THE MODEL (EGraph/Rewrite.v), for rules whose
   patterns contain no `b[x := t]` (PSubst).  See the summary at the end of the file. *)
From SE Require Import Slots.SlotMapFacts Group.GroupSound Lang.LangFacts Lang.ShapeFacts Lang.RenameFacts
  Base.TextFacts Parse.Parser
  EGraph.Model EGraph.ModelFacts EGraph.ModelMachine EGraph.UnionFindFacts EGraph.InvariantFacts
  EGraph.UnionInvariantFacts EGraph.AddCoversFacts EGraph.MonotoneFacts EGraph.Mod4Facts EGraph.SoundFacts EGraph.SoundUnion
  EGraph.SoundSyn EGraph.SoundNode EGraph.SoundStruct EGraph.NodePass EGraph.SoundBase EGraph.SoundAddNew EGraph.SoundVals
  EGraph.SoundAddExpr EGraph.SoundPending EGraph.SoundRebuild EGraph.SoundGuard EGraph.SoundFinal EGraph.SoundClosed
  EGraph.Rewrite EGraph.RewriteFacts EGraph.ProgressFacts EGraph.MatchDefs EGraph.MatchFacts EGraph.KidsFacts
  EGraph.MatchVals EGraph.RewriteSoundInst.
From SE Require Import Sem.Deriv Sem.DerivFacts Sem.AlgebraFacts Sem.EgMachine Explain.CheckerFacts.
Require Import ZArith Lia ZifyBool ZifyN ZifyNat.
Ltac Zify.zify_post_hook ::= Z.div_mod_to_equations.

Local Notation ectr := Model.ctr.

(* ====================================================================== *)
(* 1. the state invariant of the soundness proof (C01), closed               *)
(* ====================================================================== *)

Definition RIc : egraph -> Prop := RI SC2 KC2.

Definition RSt (E : equations) (s : egraph) : Prop :=
  inv3 s /\ syn_wf s /\ Sound E s /\ RIc s /\ ectr s mod 4 = 1.

Lemma RSt_empty : forall E, RSt E empty_egraph.
Proof.
  intros E. split; [exact inv3_empty|]. split; [exact syn_wf_empty|]. split; [apply Sound_empty|].
  split; [exact (RI_empty SC2 KC2 xinv_closed)|reflexivity].
Qed.

Lemma RSt_mono : forall E E' s, (forall e, In e E -> In e E') -> RSt E s -> RSt E' s.
Proof. intros E E' s HE (I & W & S & R & C). repeat (split; [assumption|]). split; [eapply Sound_mono; eauto|auto]. Qed.

(* a set of equations whose members are derivable from E adds nothing *)
Lemma Deriv_cut_all : forall E E', (forall l r, In (l, r) E' -> Deriv E 0 l r) ->
  (forall d s t, Deriv E' d s t -> Deriv E d s t) /\
  (forall d a b, DerivArg E' d a b -> DerivArg E d a b) /\
  (forall d l l', DerivArgs E' d l l' -> DerivArgs E d l l').
Proof.
  intros E E' HE.
  apply (Deriv_mutind E' (fun d s t _ => Deriv E d s t) (fun d a b _ => DerivArg E d a b) (fun d l l' _ => DerivArgs E d l l')).
  - intros d l r rho Hin [Inj Rng]. apply (Deriv_inst E l r (HE l r Hin) d rho).
    + intros x Hx Hb. apply Rng; assumption.
    + intros x y Hx Hy. apply Inj; apply in_or_app; left; assumption.
    + intros x y Hx Hy. apply Inj; apply in_or_app; right; assumption.
  - intros; apply D_refl.
  - intros d s t _ IH. apply D_sym. exact IH.
  - intros d s t u _ IH1 _ IH2. eapply D_trans; eassumption.
  - intros d v args args' _ IH. apply D_cong. exact IH.
  - intros; apply DA_slot.
  - intros; apply DA_pay.
  - intros d s t _ IH. apply DA_child. exact IH.
  - intros d a b _ IH. apply DA_bind. exact IH.
  - intros; apply DAs_nil.
  - intros d a b l l' _ IHa _ IHl. apply DAs_cons; assumption.
Qed.

Lemma Sound_cut : forall E E' s, (forall l r, In (l, r) E' -> Deriv E 0 l r) -> Sound E' s -> Sound E s.
Proof.
  intros E E' s HE [A Bn C]. pose proof (proj1 (Deriv_cut_all E E' HE)) as K. constructor.
  - intros i e H sg tau Rs Rt Cx. apply K. exact (A i e H sg tau Rs Rt Cx).
  - intros. apply K. eapply Bn; eauto.
  - intros i c p H1 H2 H3 sg tau Rs Rt Cx. apply K. exact (C i c p H1 H2 H3 sg tau Rs Rt Cx).
Qed.

Lemma RSt_cut : forall E E' s, (forall l r, In (l, r) E' -> Deriv E 0 l r) -> RSt E' s -> RSt E s.
Proof. intros E E' s HE (I & W & S & R & C). repeat (split; [assumption|]). split; [eapply Sound_cut; eauto|auto]. Qed.

(* eg_add of one node *)
Lemma RSt_eg_add : forall E n s a s', RSt E s -> Forall (covers s) (app_occ n) ->
  (forall x, In x (all_occ n) -> x mod 4 <> 1 \/ x < ectr s) ->
  eg_add n s = Ok (a, s') ->
  RSt E s' /\ nsound E s' a n /\ ext0 s s' /\ covers s' a.
Proof.
  intros E n s a s' (I & W & S & R & Cm) Cv Bn H.
  destruct (Sound_eg_add RIc (Sound_add_internal SC2 KC2 xinv_closed HSh_red_2 HC_sim_y_proved HD_sim_2 HS_readd_2)
              E n s a s' I W S R Cm Cv Bn H) as (S' & W' & NS & R').
  destruct (eg_add_covers n s a s' I H) as (I' & X & Ca).
  destruct (eg_add_ctr n s a s' H) as [k Hk].
  split; [|auto]. split; [exact I'|]. split; [exact W'|]. split; [exact S'|]. split; [exact R'|]. lia.
Qed.

(* eg_union of two handles *)
Lemma RSt_eg_union : forall E s l r tl tr b s', RSt E s -> covers s l -> covers s r ->
  handle_ok E s l tl -> handle_ok E s r tr -> eg_union l r s = Ok (b, s') ->
  RSt (E ++ [(tl, tr)]) s' /\ ext s s'.
Proof.
  intros E s l r tl tr b s' (I & W & S & R & Cm) Cl Cr Ol Or H.
  destruct (eg_union_inv3 l r s b s' I Cl Cr H) as [I1 X].
  destruct (Sound_eg_union SC2 KC2 xinv_closed HSh_red_2 HC_sim_y_proved HD_sim_2 HS_readd_2
              E s l r tl tr b s' I W (proj2 (proj2 (proj1 R))) (proj2 R) S Cl Cr Ol Or H) as [S1 X1].
  split; [|exact X]. split; [exact I1|]. split; [exact (syn_wf_ext _ _ X W)|]. split; [exact S1|].
  split; [exact (conj (RI0_eg_union l r s b s' (proj1 R) H) X1)|exact (proj2 (eg_union_ctr_grows l r s b s' H) Cm)].
Qed.

(* ====================================================================== *)
(* 2. invocations that denote a term                                        *)
(* ====================================================================== *)

(* a covers its class, no value of its map is a reserved binder name, its values of the fresh kind were
   drawn from the counter, and t is (derivably) the term of the class under every completion of the map *)
Definition hdl (E : equations) (s : egraph) (a : appid) (t : cterm) : Prop :=
  covers s a /\ vnb a /\ hvb (ectr s) a /\ handle_ok E s a t.

Lemma hdl_ext0 : forall E s s' a t, ext0 s s' -> hdl E s a t -> hdl E s' a t.
Proof.
  intros E s s' a t X (C & V & Hb & O). split; [eapply covers_ext0; eauto|]. split; [exact V|].
  split; [exact (hvb_mono _ _ _ (proj1 X) Hb)|eapply handle_ok_ext0; eauto].
Qed.

Lemma hdl_mono : forall E E' s a t, (forall e, In e E -> In e E') -> hdl E s a t -> hdl E' s a t.
Proof. intros E E' s a t HE (C & V & Hb & O). repeat (split; [assumption|]). eapply handle_ok_mono; eauto. Qed.

(* the canonical denotation: the class term under the completion that sends the slots the map does not
   cover (redundant ones) to new names *)
Definition den_of (s : egraph) (a : appid) : cterm :=
  clsT s (ext_ren (fun v => v) (am a) (bound_of (fun v => v) (values_vec (am a)))) (aid a).

Lemma handle_den_of : forall E s a, inv3 s -> Sound E s -> covers s a -> vnb a -> handle_ok E s a (den_of s a).
Proof.
  intros E s a I3 S (c & Hc & Ia & Ka) NB. split; [intros x v G; eapply vnb_get; eauto|]. intros sg [Rs Cs].
  set (L := values_vec (am a)).
  assert (RL : rokL L (fun v => v)).
  { split; [intros x y _ _ H; exact H|]. intros x Hx. apply NB. exact Hx. }
  assert (VL : forall k v, get (am a) k = Some v -> In v L).
  { intros k v G. apply get_in in G. unfold L, values_vec. apply in_map_iff. exists (k, v). split; [reflexivity|exact G]. }
  assert (R' : rokL (SS s (aid a)) (ext_ren (fun v => v) (am a) (bound_of (fun v => v) L))) by (apply (ext_ren_rok L); assumption).
  assert (CK : cls_ok s) by (apply ei_cls; apply I3).
  unfold den_of. fold L.
  apply (Sound_redundant E s (aid a) c S CK Hc _ sg R' Rs).
  cbn [aid am cidapp]. intros x y v Hx Hy. apply identity_get in Hx, Hy. destruct Hx as [-> Hv]. destruct Hy as [-> _].
  specialize (Ka v Hv). destruct (get (am a) v) as [w|] eqn:G; [|congruence].
  unfold ext_ren. rewrite G. symmetry. apply Cs. exact G.
Qed.

(* ====================================================================== *)
(* 3. patterns, substitutions, the instance                                 *)
(* ====================================================================== *)

(* the instance of a pattern by a valuation of its variables with canonical terms.  At a node the
   children are combined by node_t (RewriteSoundInst.v): under a binder $x of the pattern node, the free
   occurrences of the slot name $x in the terms of the children become the binder's level name, other slots
   stay free, binder levels inside the child terms are shifted. *)
Fixpoint pat_t (den : text -> cterm) (p : pattern) : cterm :=
  match p with
  | PVarP v => den v
  | PNode n ch => node_t n (map (pat_t den) ch)
  | PSubst _ _ _ => dummy
  end.

(* patterns handled here: one child per applied-id position (arity_okb: every parsed pattern), no PSubst,
   slot names are not reserved binder names, and are not fresh slots still to be drawn *)
Definition pat_ok (c : N) (p : pattern) : Prop :=
  wf_pat p /\ nosubst p = true /\ forall x, In x (pslots p) -> is_B x = false /\ (x mod 4 <> 1 \/ x < c).

Lemma pat_ok_mono : forall c c' p, c <= c' -> pat_ok c p -> pat_ok c' p.
Proof.
  intros c c' p L (A & B & C). split; [exact A|]. split; [exact B|]. intros x Hx. destruct (C x Hx) as [C1 [C2|C2]].
  - split; [exact C1|left; exact C2].
  - split; [exact C1|right; lia].
Qed.

Lemma nosubst_node : forall n ch, nosubst (PNode n ch) = true -> Forall (fun c => nosubst c = true) ch.
Proof.
  intros n ch H. cbn [nosubst] in H. induction ch as [|c t IH]; [constructor|].
  apply andb_true_iff in H. destruct H as [H1 H2]. constructor; [exact H1|apply IH; exact H2].
Qed.

Lemma pat_ok_node : forall c n ch, pat_ok c (PNode n ch) ->
  (forall x, In x (all_occ n) -> is_B x = false /\ (x mod 4 <> 1 \/ x < c)) /\
  List.length ch = List.length (app_occ n) /\ Forall (pat_ok c) ch.
Proof.
  intros c n ch (A & B & C). destruct (wf_pat_node n ch A) as [L Fw]. pose proof (nosubst_node n ch B) as Fn.
  rewrite pslots_node in C. split; [intros x Hx; apply C; apply in_or_app; left; exact Hx|]. split; [exact L|].
  apply Forall_forall. intros p Hp. split; [exact (proj1 (Forall_forall _ _) Fw p Hp)|].
  split; [exact (proj1 (Forall_forall _ _) Fn p Hp)|]. intros x Hx. apply C. apply in_or_app. right.
  apply in_flat_map. exists p. split; assumption.
Qed.

(* every invocation of the substitution denotes the term the valuation gives its variable *)
Definition sub_den (E : equations) (s : egraph) (sb : subst) (den : text -> cterm) : Prop :=
  forall v a, sub_get sb v = Some a -> hdl E s a (den v).

Lemma sub_den_ext0 : forall E s s' sb den, ext0 s s' -> sub_den E s sb den -> sub_den E s' sb den.
Proof. intros E s s' sb den X H v a G. eapply hdl_ext0; [exact X|]. eapply H; eauto. Qed.

Lemma sub_den_mono : forall E E' s sb den, (forall e, In e E -> In e E') -> sub_den E s sb den -> sub_den E' s sb den.
Proof. intros E E' s sb den HE H v a G. eapply hdl_mono; [exact HE|]. eapply H; eauto. Qed.

Lemma hdl_F2 : forall E s l ts, Forall2 (hdl E s) l ts ->
  Forall2 (handle_ok E s) l ts /\ Forall (covers s) l /\ Forall vnb l /\ Forall (hvb (ectr s)) l.
Proof.
  intros E s l ts F. induction F as [|a t l ts (C & V & Hb & O) F (I1 & I2 & I3 & I4)].
  - repeat split; constructor.
  - repeat split; constructor; assumption.
Qed.

(* ====================================================================== *)
(* 4. pattern_subst: the returned invocation denotes the instance           *)
(* ====================================================================== *)

Section PatternSubst.
  Variables (E : equations) (sb : subst) (den : text -> cterm).

  Definition ps_spec (p : pattern) : Prop :=
    forall s a s', RSt E s -> pat_ok (ectr s) p -> sub_den E s sb den ->
      pattern_subst p sb s = Ok (a, s') -> RSt E s' /\ ext0 s s' /\ hdl E s' a (pat_t den p).

  Lemma ps_kids : forall ch, Forall ps_spec ch ->
    forall k s l s1, RSt E s -> Forall (pat_ok (ectr s)) ch -> sub_den E s sb den -> List.length ch = k ->
    psubst_kids sb ch k s = Ok (l, s1) ->
    RSt E s1 /\ ext0 s s1 /\ Forall2 (hdl E s1) l (map (pat_t den) ch).
  Proof.
    intros ch IH. induction IH as [|c r Hc _ IHr]; intros k s l s1 R PO SD Lk H.
    - cbn [List.length] in Lk. subst k. rewrite psubst_kids_nil in H. inversion H; subst l s1.
      split; [exact R|]. split; [apply ext0_refl|constructor].
    - cbn [List.length] in Lk. subst k. rewrite psubst_kids_cons in H.
      apply mbind_inv in H. destruct H as (a0 & s2 & Ha & H).
      apply mbind_inv in H. destruct H as (r0 & s3 & Hr & H). inversion H; subst l s3; clear H.
      destruct (Hc s a0 s2 R (Forall_inv PO) SD Ha) as (R2 & X2 & O2).
      destruct (IHr (List.length r) s2 r0 s1 R2) as (R1 & X1 & F1); [| |reflexivity|exact Hr|].
      { pose proof (Forall_inv_tail PO) as PO'. revert PO'. apply Forall_impl. intros p. apply pat_ok_mono. exact (proj1 X2). }
      { eapply sub_den_ext0; eauto. }
      split; [exact R1|]. split; [eapply ext0_trans; eauto|]. cbn [map]. constructor; [eapply hdl_ext0; eauto|exact F1].
  Qed.

  Theorem pattern_subst_denotes : forall p, ps_spec p.
  Proof.
    induction p as [v|n ch IH|b x t _ _ _] using pattern_ind2; intros s a s' R PO SD H.
    - cbn [pattern_subst] in H. destruct (sub_get sb v) as [a0|] eqn:G; [|discriminate]. inversion H; subst a0 s'.
      split; [exact R|]. split; [apply ext0_refl|]. cbn [pat_t]. exact (SD v a G).
    - rewrite pattern_subst_node in H. apply mbind_inv in H. destruct H as (l & s1 & H1 & H).
      destruct (pat_ok_node _ _ _ PO) as (U & Lc & POc).
      destruct (ps_kids ch IH _ s l s1 R POc SD Lc H1) as (R1 & X1 & F1).
      destruct (hdl_F2 _ _ _ _ F1) as (F2 & Cl & Vl & Bl).
      assert (Lo : List.length l = List.length (app_occ n)).
      { rewrite <- Lc, (F2_length _ _ _ F2), map_length. reflexivity. }
      assert (Ao : app_occ (set_apps n l) = l) by (apply app_occ_set_apps; exact Lo).
      assert (Cv' : Forall (covers s1) (app_occ (set_apps n l))) by (rewrite Ao; exact Cl).
      assert (Bn : forall y, In y (all_occ (set_apps n l)) -> y mod 4 <> 1 \/ y < ectr s1).
      { intros y Hy. unfold all_occ, set_apps in Hy. cbn [nargs] in Hy. apply set_apps_args_all in Hy.
        destruct Hy as [Hy|(z & Hz & Hy)].
        - destruct (proj2 (U y Hy)) as [T|T]; [left; exact T|right; pose proof (proj1 X1); lia].
        - exact (proj1 (Forall_forall _ _) Bl z Hz y Hy). }
      assert (NBn : forall y, In y (all_occ (set_apps n l)) -> is_B y = false).
      { intros y Hy. unfold all_occ, set_apps in Hy. cbn [nargs] in Hy. apply set_apps_args_all in Hy.
        destruct Hy as [Hy|(z & Hz & Hy)]; [exact (proj1 (U y Hy))|exact (proj1 (Forall_forall _ _) Vl z Hz y Hy)]. }
      destruct (RSt_eg_add E _ s1 a s' R1 Cv' Bn H) as (R' & NS & X' & Ca).
      pose proof R1 as (I1 & _ & _ & _ & M1). pose proof R' as (I' & W' & S' & _ & _).
      assert (Va : vnb a).
      { intros v Hv. destruct (eg_add_vals_r _ s1 a s' I1 M1 H v Hv) as [T|T]; [exact (NBn v T)|unfold is_B; lia]. }
      assert (Ba : hvb (ectr s') a).
      { intros v Hv. destruct (eg_add_vals_r _ s1 a s' I1 M1 H v Hv) as [T|T].
        - destruct (Bn v T) as [T'|T']; [left; exact T'|right]. pose proof (proj1 X') as L. lia.
        - right. exact (proj2 T). }
      split; [exact R'|]. split; [eapply ext0_trans; eauto|]. split; [exact Ca|]. split; [exact Va|]. split; [exact Ba|].
      cbn [pat_t].
      apply (bridgeT E s' W' a n (map (pat_t den) ch) l I' S' Ca Va (fun x Hx => proj1 (U x Hx)) Lo); [| |exact Vl|exact NS].
      + clear -F2 Cl X'. induction F2 as [|x y l l' Hxy F IHF]; [constructor|]. inversion Cl; subst.
        constructor; [eapply handle_ok_ext0; eauto|apply IHF; assumption].
      + revert Cl. apply Forall_impl. intros x. apply covers_ext0. exact X'.
    - destruct PO as (_ & NSb & _). discriminate NSb.
  Qed.
End PatternSubst.


(* ====================================================================== *)
(* 5. the matcher phase changes the counter only                            *)
(* ====================================================================== *)

Lemma RSt_same_graph : forall E s s', RSt E s -> same_graph s s' -> ectr s <= ectr s' -> ectr s' mod 4 = 1 -> RSt E s'.
Proof.
  intros E s s' (I & W & S & ((SO & KE & M) & (Sc & Kc)) & Cm) G L Cm'. pose proof G as (Gu & Gc & _ & _).
  assert (CU : cuR s s') by (split; assumption).
  assert (NS : nodes_same s s').
  { intros i c' Hc'. exists c'. rewrite <- (get_class_classes s s' i Gc). auto. }
  assert (X : ext s s').
  { split; [exact L|]. split; [unfold lc; rewrite Gc; reflexivity|]. intros i c Hc. exists c.
    rewrite (get_class_classes s s' i Gc). split; [exact Hc|]. split; [apply incl_refl|reflexivity]. }
  split; [exact (proj1 (qstep_sg s s' I G L))|]. split; [exact (syn_wf_cuR _ _ CU W)|]. split; [exact (Sound_cuR _ _ _ CU S)|].
  split; [|exact Cm']. split.
  - split; [exact (RS_nodes_same s s' NS SO)|]. split; [exact (kids_exist_classes s s' Gc KE)|].
    apply (m4_frame s s'); [exact Cm'| |exact NS| |exact M].
    + intros i. unfold syn_of. rewrite Gc. reflexivity.
    + intros i e He. left. rewrite <- Gu. exact He.
  - split; [exact (xi_SC_ext _ _ xinv_closed s s' X Sc)|exact (xi_KC_cuR _ _ xinv_closed s s' CU Kc)].
Qed.

(* ====================================================================== *)
(* 6. the applier phase                                                     *)
(* ====================================================================== *)

(* what the matcher guarantees of a substitution (MatchFacts.v, MatchVals.v) *)
Definition sub3 (s : egraph) (sb : subst) : Prop := sub_cov s sb /\ sub_below s sb /\ sub_nb sb.

Lemma sub3_ext0 : forall s s' sb, ext0 s s' -> sub3 s sb -> sub3 s' sb.
Proof.
  intros s s' sb X (A & B & C). split; [intros v a G; eapply covers_ext0; [exact X|exact (A v a G)]|].
  split; [exact (sub_below_mono s s' sb (proj1 X) B)|exact C].
Qed.

(* the valuation induced by a substitution: the canonical denotation of every bound invocation *)
Definition den_sb (s : egraph) (sb : subst) (v : text) : cterm :=
  match sub_get sb v with Some a => den_of s a | None => dummy end.

Lemma sub_den_sb : forall E s sb, RSt E s -> sub3 s sb -> sub_den E s sb (den_sb s sb).
Proof.
  intros E s sb (I & _ & S & _ & _) (A & B & C) v a G. unfold den_sb. rewrite G.
  assert (V : vnb a) by (intros x Hx; exact (C v a G x Hx)).
  split; [exact (A v a G)|]. split; [exact V|]. split; [intros x Hx; right; exact (B v a G x Hx)|].
  apply handle_den_of; [exact I|exact S|exact (A v a G)|exact V].
Qed.

(* rules handled: both sides well-formed patterns without PSubst whose slot names are not reserved *)
Definition pat_nb (p : pattern) : Prop :=
  wf_pat p /\ nosubst p = true /\ forall x, In x (pslots p) -> is_B x = false.
Definition rule_nb (r : rule) : Prop := pat_nb (r_lhs r) /\ pat_nb (r_rhs r).

Lemma pat_ok_of : forall c p, pat_nb p -> pat_below c p -> pat_ok c p.
Proof. intros c p (A & B & C) PB. split; [exact A|]. split; [exact B|]. intros x Hx. split; [exact (C x Hx)|right; exact (PB x Hx)]. Qed.

(* one union_instantiations: both sides are inserted, the returned invocations denote the two instances,
   their union adds exactly the instance pair to the equations *)
Theorem union_instantiations_sound : forall E lhs rhs sb s b s' den, RSt E s ->
  pat_ok (ectr s) lhs -> pat_ok (ectr s) rhs -> sub_den E s sb den ->
  union_instantiations lhs rhs sb s = Ok (b, s') ->
  RSt (E ++ [(pat_t den lhs, pat_t den rhs)]) s' /\ ext0 s s'.
Proof.
  intros E lhs rhs sb s b s' den R Pl Pr SD H. unfold union_instantiations in H.
  apply mbind_inv in H. destruct H as (x & s1 & H1 & H).
  destruct (pattern_subst_denotes E sb den lhs s x s1 R Pl SD H1) as (R1 & X1 & Ox).
  apply mbind_inv in H. destruct H as (y & s2 & H2 & H).
  destruct (pattern_subst_denotes E sb den rhs s1 y s2 R1 (pat_ok_mono _ _ _ (proj1 X1) Pr) (sub_den_ext0 _ _ _ _ _ X1 SD) H2)
    as (R2 & X2 & Oy).
  change (eg_union x y s2 = Ok (b, s')) in H.
  destruct (hdl_ext0 _ _ _ _ _ X2 Ox) as (Cx & _ & _ & Hx). destruct Oy as (Cy & _ & _ & Hy).
  destruct (RSt_eg_union E s2 x y _ _ b s' R2 Cx Cy Hx Hy H) as [R' X'].
  split; [exact R'|]. eapply ext0_trans; [exact X1|]. eapply ext0_trans; [exact X2|apply ext_ext0; exact X'].
Qed.

(* the values of the maps of a substitution returned by the matcher for the pattern p are slot names of p or
   fresh slots (MatchVals.ematch_all_vals): a slot name that occurs only on the other side of the rule does
   not occur in what the variables matched *)
Definition sub_vals (p : pattern) (sb : subst) : Prop :=
  forall v a, sub_get sb v = Some a -> forall x, In x (values_vec (am a)) -> In x (pslots p) \/ x mod 4 = 1.

Lemma searchers_vals : forall rs s ts s1, inv3 s -> kids_ok s -> m4 s ->
  mapM (fun r => ematch_all (r_lhs r)) rs s = Ok (ts, s1) ->
  Forall2 (fun r l => Forall (sub_vals (r_lhs r)) l) rs ts.
Proof.
  induction rs as [|r rs IH]; intros s ts s1 I3 K M H; cbn [mapM] in H.
  - apply ret_inv in H. destruct H as [-> _]. constructor.
  - apply mbind_inv in H. destruct H as (l & sa & Hl & H). apply mbind_inv in H. destruct H as (ts' & sb & Ht & H).
    apply ret_inv in H. destruct H as [-> ->].
    pose proof (ematch_all_state _ _ _ _ Hl) as Ga. pose proof (ematch_all_ctr _ _ _ _ Hl) as La.
    constructor.
    + apply Forall_forall. intros sb0 Hsb v a G x Hx.
      exact (ematch_all_vals (fun y => In y (pslots (r_lhs r))) (r_lhs r) s l sa I3 K M (fun y Hy => Hy) Hl sb0 Hsb v a G x Hx).
    + destruct Ga as (Ga1 & Ga2 & Ga3 & Ga4).
      apply (IH sa ts' sb); [|eapply kids_ok_same_classes; eauto|exact (proj1 (h_ematch_all _ _ _ _ Hl M))|exact Ht].
      exact (proj1 (qstep_sg s sa I3 (conj Ga1 (conj Ga2 (conj Ga3 Ga4))) La)).
Qed.

Lemma combine_sched_vals : forall sched, sched_sub sched -> forall rs ts, Forall2 (fun r l => Forall (sub_vals (r_lhs r)) l) rs ts ->
  forall k rt, In rt (combine rs (mapi_from sched k ts)) -> Forall (sub_vals (r_lhs (fst rt))) (snd rt).
Proof.
  intros sched SS rs ts F. induction F as [|r l rs ts Hrl F IH]; intros k rt Hin; cbn [mapi_from combine] in Hin; [destruct Hin|].
  destruct Hin as [<-|Hin]; [|exact (IH (S k) rt Hin)]. cbn [fst snd].
  apply Forall_forall. intros sb Hsb. exact (proj1 (Forall_forall _ _) Hrl sb (SS k l sb Hsb)).
Qed.

(* a successful pattern_subst has found every variable of the pattern bound *)
Lemma pattern_subst_ok_bound : forall sb p, wf_pat p -> forall s a s', pattern_subst p sb s = Ok (a, s') ->
  forall v, In v (pvars p) -> sub_get sb v <> None.
Proof.
  intros sb. induction p as [v0|n ch IH|b x t IHb IHx IHt] using pattern_ind2; intros Wp s a s' H v Hv.
  - cbn [pvars] in Hv. destruct Hv as [<-|[]]. cbn [pattern_subst] in H. destruct (sub_get sb v0); [discriminate|discriminate H].
  - rewrite pattern_subst_node in H. apply mbind_inv in H. destruct H as (l & s1 & H1 & _).
    destruct (wf_pat_node n ch Wp) as [Lc Wc]. rewrite <- Lc in H1. rewrite pvars_node in Hv. clear Lc Wp.
    revert s l s1 H1 Hv. induction IH as [|c r Hc _ IHr]; intros s l s1 H1 Hv; [destruct Hv|].
    cbn [List.length] in H1. rewrite psubst_kids_cons in H1.
    apply mbind_inv in H1. destruct H1 as (a0 & s2 & Ha & H1). apply mbind_inv in H1. destruct H1 as (r0 & s3 & Hr & _).
    cbn [flat_map] in Hv. apply in_app_or in Hv. destruct Hv as [Hv|Hv].
    + exact (Hc (Forall_inv Wc) s a0 s2 Ha v Hv).
    + exact (IHr (Forall_inv_tail Wc) s2 r0 s3 Hr Hv).
  - unfold wf_pat in Wp. cbn [Parse.ArityFacts.arity_okb] in Wp. apply andb_true_iff in Wp. destruct Wp as [Wp Wt].
    apply andb_true_iff in Wp. destruct Wp as [Wb Wx].
    cbn [pattern_subst] in H.
    apply mbind_inv in H. destruct H as (b' & s1 & H1 & H). apply mbind_inv in H. destruct H as (x' & s2 & H2 & H).
    apply mbind_inv in H. destruct H as (t' & s3 & H3 & _).
    cbn [pvars] in Hv. apply in_app_or in Hv. destruct Hv as [Hv|Hv]; [exact (IHb Wb s b' s1 H1 v Hv)|].
    apply in_app_or in Hv. destruct Hv as [Hv|Hv]; [exact (IHx Wx s1 x' s2 H2 v Hv)|exact (IHt Wt s2 t' s3 H3 v Hv)].
Qed.

Definition sub_bound (r : rule) (sb : subst) : Prop :=
  forall v, In v (pvars (r_lhs r) ++ pvars (r_rhs r)) -> sub_get sb v <> None.

Lemma union_instantiations_bound : forall r sb s b s', rule_nb r ->
  union_instantiations (r_lhs r) (r_rhs r) sb s = Ok (b, s') -> sub_bound r sb.
Proof.
  intros r sb s b s' [(Wl & _) (Wr & _)] H v Hv. unfold union_instantiations in H.
  apply mbind_inv in H. destruct H as (x & s1 & H1 & H). apply mbind_inv in H. destruct H as (y & s2 & H2 & _).
  apply in_app_or in Hv. destruct Hv as [Hv|Hv];
    [exact (pattern_subst_ok_bound sb _ Wl s x s1 H1 v Hv)|exact (pattern_subst_ok_bound sb _ Wr s1 y s2 H2 v Hv)].
Qed.

Section Appliers.
  (* P: an invariant of the set of equations (e.g. "valid in an algebra", "derivable from E0", "E0 extended by
     instances of the rules"); RP: the rules it is about *)
  Variable P : equations -> Prop.
  Variable RP : rule -> Prop.
  (* the instance pair of a rule of RP under a match (a substitution whose invocations denote den, with values that are
     slots of the left-hand side or fresh slots) whose condition holds may be added *)
  Hypothesis P_step : forall E r sb s den, RP r -> P E -> RSt E s -> sub_den E s sb den ->
    sub_vals (r_lhs r) sb -> sub_bound r sb -> cond_holds (r_cond r) sb = Ok true ->
    P (E ++ [(pat_t den (r_lhs r), pat_t den (r_rhs r))]).

  Definition post (E : equations) (s : egraph) (s' : egraph) : Prop :=
    exists E', (forall e, In e E -> In e E') /\ P E' /\ RSt E' s' /\ ext0 s s'.

  Lemma post_refl : forall E s, P E -> RSt E s -> post E s s.
  Proof. intros E s HP R. exists E. split; [auto|]. split; [exact HP|]. split; [exact R|apply ext0_refl]. Qed.

  Lemma apply_substs_cond_sound : forall r, RP r -> rule_nb r -> forall substs E s x s', P E -> RSt E s ->
    pat_below (ectr s) (r_lhs r) -> pat_below (ectr s) (r_rhs r) -> Forall (sub3 s) substs ->
    Forall (sub_vals (r_lhs r)) substs ->
    apply_substs_cond r substs s = Ok (x, s') -> post E s s'.
  Proof.
    intros r Hr [Nl Nr]. unfold apply_substs_cond.
    induction substs as [|sb t IH]; intros E s x s' HP R Bl Br SC SV H; cbn [iterM] in H.
    - inversion H; subst. apply post_refl; assumption.
    - apply mbind_inv in H. destruct H as (u & s1 & H1 & H).
      assert (Q1 : post E s s1).
      { apply mbind_inv in H1. destruct H1 as (c & s0 & Hc & H1). apply lift_inv in Hc. destruct Hc as [Hc ->].
        destruct c; [|inversion H1; subst; apply post_refl; assumption].
        apply mbind_inv in H1. destruct H1 as (b & s2 & H2 & H1). inversion H1; subst u s2; clear H1.
        pose proof (sub_den_sb E s sb R (Forall_inv SC)) as SD.
        destruct (union_instantiations_sound E _ _ sb s b s1 _ R (pat_ok_of _ _ Nl Bl) (pat_ok_of _ _ Nr Br) SD H2) as [R1 X1].
        exists (E ++ [(pat_t (den_sb s sb) (r_lhs r), pat_t (den_sb s sb) (r_rhs r))]).
        split; [intros e He; apply in_or_app; left; exact He|]. split; [|split; assumption].
        exact (P_step E r sb s _ Hr HP R SD (Forall_inv SV) (union_instantiations_bound r sb s b s1 (conj Nl Nr) H2) Hc). }
      destruct Q1 as (E1 & I1 & P1 & R1 & X1).
      destruct (IH E1 s1 x s' P1 R1 (pat_below_mono _ _ _ (proj1 X1) Bl) (pat_below_mono _ _ _ (proj1 X1) Br)) as (E2 & I2 & P2 & R2 & X2);
        [|exact (Forall_inv_tail SV)|exact H|].
      { apply Forall_inv_tail in SC. revert SC. apply Forall_impl. intros sb'. apply sub3_ext0. exact X1. }
      exists E2. split; [auto|]. split; [exact P2|]. split; [exact R2|eapply ext0_trans; eauto].
  Qed.

  Lemma appliers_sound : forall (l : list (rule * list subst)) E s x s', P E -> RSt E s ->
    Forall (fun rt : rule * list subst => RP (fst rt) /\ rule_nb (fst rt) /\
              pat_below (ectr s) (r_lhs (fst rt)) /\ pat_below (ectr s) (r_rhs (fst rt)) /\ Forall (sub3 s) (snd rt) /\
              Forall (sub_vals (r_lhs (fst rt))) (snd rt)) l ->
    iterM (fun rt : rule * list subst => apply_substs_cond (fst rt) (snd rt)) l s = Ok (x, s') -> post E s s'.
  Proof.
    induction l as [|rt t IH]; intros E s x s' HP R F H; cbn [iterM] in H.
    - inversion H; subst. apply post_refl; assumption.
    - apply mbind_inv in H. destruct H as (u & s1 & H1 & H).
      destruct (Forall_inv F) as (A1 & A2 & A3 & A4 & A5 & A6).
      destruct (apply_substs_cond_sound (fst rt) A1 A2 (snd rt) E s u s1 HP R A3 A4 A5 A6 H1) as (E1 & I1 & P1 & R1 & X1).
      destruct (IH E1 s1 x s' P1 R1) as (E2 & I2 & P2 & R2 & X2); [|exact H|].
      { apply Forall_inv_tail in F. revert F. apply Forall_impl. intros rt' (B1 & B2 & B3 & B4 & B5 & B6).
        split; [exact B1|]. split; [exact B2|]. split; [exact (pat_below_mono _ _ _ (proj1 X1) B3)|].
        split; [exact (pat_below_mono _ _ _ (proj1 X1) B4)|]. split; [|exact B6]. revert B5. apply Forall_impl. intros sb'. apply sub3_ext0. exact X1. }
      exists E2. split; [auto|]. split; [exact P2|]. split; [exact R2|eapply ext0_trans; eauto].
  Qed.

  (* one iteration of rewriting *)
  Theorem apply_rewrites_sched_sound : forall sched rs E s b s', sched_sub sched -> P E -> RSt E s ->
    kids_ok s -> m4 s -> rules_below (ectr s) rs -> Forall RP rs -> Forall rule_nb rs ->
    apply_rewrites_sched sched rs s = Ok (b, s') -> post E s s'.
  Proof.
    intros sched rs E s b s' SS HP R K M RB FP FN H. pose proof R as (I3 & _). unfold apply_rewrites_sched in H.
    apply bind_reads_inv in H. destruct H as (p0 & P0 & H).
    apply mbind_inv in H. destruct H as (ts & s1 & H1 & H). cbv zeta in H.
    pose proof (c_searchers rs s ts s1 H1) as Lc. pose proof (sg_searchers rs s ts s1 H1) as G1. unfold cle in Lc.
    assert (FNl : Forall (fun r => forall x, In x (pslots (r_lhs r)) -> is_B x = false) rs).
    { revert FN. apply Forall_impl. intros r [(_ & _ & A) _]. exact A. }
    pose proof (searchers_ok_nb rs s ts s1 I3 K M RB FNl H1) as SC.
    pose proof (searchers_vals rs s ts s1 I3 K M H1) as SV.
    apply mbind_inv in H. destruct H as (u & s2 & H2 & H).
    apply bind_reads_inv in H. destruct H as (p1 & P1 & H). inversion H; subst b s2; clear H.
    assert (M' : m4 s1).
    { refine (proj1 (h_mapM _ _ (fun r => ematch_all (r_lhs r)) rs _ s ts s1 H1 M)). intros r. apply h_ematch_all. }
    assert (R1 : RSt E s1) by (apply (RSt_same_graph E s s1 R G1 Lc); exact (proj1 M')).
    assert (RB' : rules_below (ectr s1) rs) by (eapply rules_below_mono; [exact Lc|exact RB]).
    assert (X01 : ext0 s s1).
    { split; [exact Lc|]. destruct G1 as (_ & Gc & _). intros i c Hc. exists c. rewrite (get_class_classes s s1 i Gc).
      split; [exact Hc|]. split; [apply incl_refl|reflexivity]. }
    destruct (appliers_sound (combine rs (mapi_from sched O ts)) E s1 u s' HP R1) as (E' & I' & P' & R' & X'); [|exact H2|].
    { pose proof (mapi_from_sched_cov (fun sb => sub_cov s1 sb /\ sub_below s1 sb /\ sub_nb sb) sched SS ts O SC) as SC'.
      apply Forall_forall. intros [r l] Hin. cbn [fst snd].
      pose proof (in_combine_l _ _ _ _ Hin) as Hr. pose proof (in_combine_r _ _ _ _ Hin) as Hl.
      destruct (proj1 (Forall_forall _ _) RB' r Hr) as [B1 B2].
      split; [exact (proj1 (Forall_forall _ _) FP r Hr)|]. split; [exact (proj1 (Forall_forall _ _) FN r Hr)|].
      split; [exact B1|]. split; [exact B2|]. split; [exact (proj1 (Forall_forall _ _) SC' l Hl)|].
      exact (combine_sched_vals sched SS rs ts SV O (r, l) Hin). }
    exists E'. split; [exact I'|]. split; [exact P'|]. split; [exact R'|eapply ext0_trans; eauto].
  Qed.

  Corollary apply_rewrites_sound : forall rs E s b s', P E -> RSt E s ->
    kids_ok s -> m4 s -> rules_below (ectr s) rs -> Forall RP rs -> Forall rule_nb rs ->
    apply_rewrites rs s = Ok (b, s') -> post E s s'.
  Proof. intros rs E s b s'. apply apply_rewrites_sched_sound. intros k l. apply incl_refl. Qed.
End Appliers.


(* ====================================================================== *)
(* summary                                                                  *)
(* ======================================================================
   STATE INVARIANT.  RSt E s := inv3 s /\ syn_wf s /\ Sound E s /\ RI SC2 KC2 s /\ ctr s mod 4 = 1: the run invariant
   of the C01 soundness proof (SoundRebuild.Good2 without the handles), closed with the instances of SoundClosed.v.
   `Sound E s`: invocations the e-graph equates have Deriv-E-equal class terms (SoundFacts.eq_sound_of_Sound).
   hdl E s a t: a covers its class, its map has no reserved / undrawn fresh values, and a DENOTES t
   (SoundFacts.handle_ok: t is Deriv-E-equal to the class term under every completion of the map of a).

   PROVED (closed under the global context):
   1. pattern_subst_denotes : RSt E s -> pat_ok (ctr s) p -> sub_den E s sb den -> pattern_subst p sb s = Ok (a, s') ->
        RSt E s' /\ ext0 s s' /\ hdl E s' a (pat_t den p)
      for patterns WITHOUT PSubst (pat_ok: arity_okb, nosubst, slot names not reserved (is_B) and not fresh slots still to
      be drawn).  pat_t den p is the instance: variables replaced by their denotations, a pattern node by node_t
      (RewriteSoundInst.v) — the bound slot of a pattern node becomes a binder level of the term and binds exactly the
      occurrences of that slot name in the children's terms; binder levels of substituted terms are shifted.
      Tools: RSt_eg_add (SoundAddExpr.Sound_eg_add closed), RewriteSoundInst.bridgeT (generalised bridge).
   2. union_instantiations_sound : ... -> RSt (E ++ [(pat_t den lhs, pat_t den rhs)]) s' /\ ext0 s s'
      (RSt_eg_union = SoundRebuild.Sound_eg_union closed).
      apply_rewrites_sched_sound / apply_rewrites_sound (Section Appliers): for an invariant P of equation sets that is kept
      when the instance pair of a rule under a match is added (hypothesis P_step; the match: sub_den E s sb den, values of
      the substitution are lhs slots or fresh (sub_vals), every variable of both sides bound (sub_bound), condition true), one iteration from a state with RSt E s, kids_ok,
      m4, rules_below (premises of the matcher theorems) ends in a state with RSt E' s' for some E' >= E with P E'.
      The substitutions handed to the appliers satisfy sub3 (MatchFacts.searchers_cov_below, MatchVals.searchers_ok_nb)
      and sub_vals (MatchVals.ematch_all_vals); their canonical denotation is den_sb (handle_den_of).
      RSt_same_graph: the matcher phase (counter only) keeps RSt.  RSt_cut / Deriv_cut_all: equations derivable from E
      can be removed.
   NOT COVERED: PSubst (b[x := t]) on either side: pat_ok / rule_nb exclude it.  See RewriteSoundEx.v (psubst_captures)
   for the premise a PSubst theorem needs. *)

Check pattern_subst_denotes.
Check union_instantiations_sound.
Check apply_rewrites_sched_sound.
Print Assumptions pattern_subst_denotes.
Print Assumptions union_instantiations_sound.
Print Assumptions apply_rewrites_sched_sound.
Print Assumptions apply_rewrites_sound.
Print Assumptions searchers_vals.
