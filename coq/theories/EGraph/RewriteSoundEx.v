(* EGraph/RewriteSoundEx.v — C03: the statements of RewriteSound.v evaluated on small states (vm_compute), and
   counterexamples for formulations that fail.
   State: ix_state (InvariantFacts.v): lam x. app(x, y); app(x, x); lam y. lam x. app(x, y) inserted
   (node kinds: 0 = lam [binder], 1 = app, 2 = var).
   1. `inst_denoted`: for patterns with binders (one, nested, the same slot bound twice, a child with its own
      binder) the class term of the invocation returned by pattern_subst IS pat_t of the denotations of the
      substitution (syntactically: no union was made).
   2. `naive_instance_fails` (formulation A: the child's term is put under the binder unchanged, i.e. the
      pattern's bound slot does not bind its occurrences in the substituted term) and `unshifted_instance_fails`
      (formulation B: the bound slot is renamed to the binder's level but the binder levels of the substituted
      term are not shifted: the levels of the term and of the pattern are confused).
   3. `psubst_ok` / `psubst_captures`: the right-hand side b[x := t] (syn_expr_subst) on an arbitrary covering
      substitution: if a value of the map of t is the NAME OF A BINDER of the syntactic node of b
      (here slot 13), re-insertion captures it: (lam z. app(z, $4))[$4 := var $13] comes out as lam z. app(z, z).
      Hence a theorem for PSubst needs the premise that the values of the substitution are not private slot
      names of syntactic nodes (true for substitutions produced by the matcher: fresh slots are drawn from the
      same counter at different times, but this is not proved here).
   4. `rx_*`: a history with rewriting under a binder: lam x. app(x, y) and lam x. app(y, x) inserted, one
      iteration with commutativity of app (resp. with the rule (lam $4 (app ?a ?b)) -> (lam $4 (app ?b ?a)), whose
      bound slot is a pattern slot): the two handles become equal, the side conditions of the run evaluate to
      true, and `rewriting_history_derivable` applies: the two terms are derivable from instances of the rule. *)
From SE Require Import Slots.SlotMapFacts Parse.Parser EGraph.Model EGraph.ModelFacts EGraph.ModelMachine
  EGraph.InvariantFacts EGraph.SoundFacts EGraph.SoundAddExpr EGraph.Rewrite EGraph.RewriteSoundInst EGraph.RewriteSound EGraph.RewriteSoundRun.
From SE Require Import Sem.Term Sem.Deriv Explain.CheckerFacts.
From SE Require Parse.ArityFacts EGraph.KidsFacts EGraph.MatchDefs.
Require Import ZArith List. Import ListNotations.
Open Scope N_scope.

Definition lamn (x : slot) : node := {| nvar := 0; nargs := [ABind x (AApp null_appid)] |}.
Definition appn : node := {| nvar := 1; nargs := [AApp null_appid; AApp null_appid] |}.
Definition varn (x : slot) : node := {| nvar := 2; nargs := [ASlot x] |}.
Definition vb : text := [98]%N.

(* formulation A *)
Fixpoint carg_A (d : nat) (env : list (slot * N)) (a : farg) (ch : list cterm) : carg * list cterm :=
  match a with
  | ASlot s => (CSlot (env_get env s), ch)
  | AApp _ => match ch with c :: ch' => (CChild c, ch') | [] => (CChild (CT 0 []), []) end
  | ABind s b => let '(b', ch') := carg_A (S d) ((s, B d) :: env) b ch in (CBind b', ch')
  | APay p => (CPay p, ch)
  end.
Fixpoint cargs_A (d : nat) (env : list (slot * N)) (l : list farg) (ch : list cterm) : list carg :=
  match l with [] => [] | a :: l' => let '(a', ch') := carg_A d env a ch in a' :: cargs_A d env l' ch' end.
Fixpoint pat_A (den : text -> cterm) (p : pattern) : cterm :=
  match p with
  | PVarP v => den v
  | PNode n ch => CT (nvar n) (cargs_A 0 [] (nargs n) (map (pat_A den) ch))
  | PSubst _ _ _ => CT 0 []
  end.
(* formulation B *)
Fixpoint carg_B (d : nat) (env : list (slot * N)) (a : farg) (ch : list cterm) : carg * list cterm :=
  match a with
  | ASlot s => (CSlot (env_get env s), ch)
  | AApp _ => match ch with c :: ch' => (CChild (cren (env_get env) c), ch') | [] => (CChild (CT 0 []), []) end
  | ABind s b => let '(b', ch') := carg_B (S d) ((s, B d) :: env) b ch in (CBind b', ch')
  | APay p => (CPay p, ch)
  end.
Fixpoint cargs_B (d : nat) (env : list (slot * N)) (l : list farg) (ch : list cterm) : list carg :=
  match l with [] => [] | a :: l' => let '(a', ch') := carg_B d env a ch in a' :: cargs_B d env l' ch' end.
Fixpoint pat_B (den : text -> cterm) (p : pattern) : cterm :=
  match p with
  | PVarP v => den v
  | PNode n ch => CT (nvar n) (cargs_B 0 [] (nargs n) (map (pat_B den) ch))
  | PSubst _ _ _ => CT 0 []
  end.

(* does the class term of the returned invocation equal the proposed instance? *)
Definition chk (pt : (text -> cterm) -> pattern -> cterm) (p : pattern) (sb : subst) (s : egraph) : option bool :=
  match pattern_subst p sb s with
  | Ok (a, s') => Some (cterm_eqb (den_of s' a) (pt (den_sb s sb) p))
  | Err _ => None
  end.

Definition sb1 : subst := [(vb, {| aid := 1; am := [(5, 12); (9, 4)] |})].     (* ?b := app(var $12, var $4) *)
Definition sb2 : subst := [(vb, {| aid := 1; am := [(5, 4); (9, 8)] |})].      (* ?b := app(var $4, var $8) *)
Definition sb3 : subst := [(vb, {| aid := 2; am := [(17, 8)] |})].             (* ?b := lam z. app(z, $8) *)
Definition p1 : pattern := PNode (lamn 4) [PVarP vb].                          (* (lam $4 ?b) *)
Definition p2 : pattern := PNode (lamn 8) [PNode (lamn 4) [PVarP vb]].         (* (lam $8 (lam $4 ?b)) *)
Definition p3 : pattern := PNode (lamn 8) [PVarP vb].                          (* (lam $8 ?b) *)
Definition p4 : pattern := PNode appn [p1; PNode (lamn 4) [PNode appn [PVarP vb; PNode (varn 4) []]]].
Definition cases : list (pattern * subst) := [(p1, sb1); (p2, sb2); (p3, sb3); (p4, sb1); (p4, sb3)].

Example inst_denoted : map (fun q => chk pat_t (fst q) (snd q) ix_state) cases = [Some true; Some true; Some true; Some true; Some true].
Proof. vm_compute. reflexivity. Qed.

Example naive_instance_fails : map (fun q => chk pat_A (fst q) (snd q) ix_state) cases = [Some false; Some false; Some false; Some false; Some false].
Proof. vm_compute. reflexivity. Qed.

Example unshifted_instance_fails : map (fun q => chk pat_B (fst q) (snd q) ix_state) cases = [Some true; Some false; Some false; Some true; Some false].
Proof. vm_compute. reflexivity. Qed.

(* the instance of (lam $4 ?b) under ?b := app(var $12, var $4): the pattern's slot $4 is bound, $12 stays free *)
Example inst_p1 : pat_t (den_sb ix_state sb1) p1 = CT 0 [CBind (CChild (CT 1 [CChild (CT 2 [CSlot 12]); CChild (CT 2 [CSlot 3])]))].
Proof. vm_compute. reflexivity. Qed.

(* the premises of pattern_subst_denotes that are decidable, on these cases *)
Example cases_pat_ok : forallb (fun q => Parse.ArityFacts.arity_okb (fst q) && KidsFacts.nosubst (fst q) &&
                          forallb (fun x => negb (is_B x) && (x <? Model.ctr ix_state)) (MatchDefs.pslots (fst q))) cases = true.
Proof. vm_compute. reflexivity. Qed.

(* ---------------------------------------------------------------------- *)
(* PSubst *)
Definition b_inv : appid := {| aid := 2; am := [(17, 4)] |}.   (* lam z. app(z, $4) *)
Definition x_inv : appid := {| aid := 0; am := [(1, 4)] |}.    (* var $4 *)
Definition t_ok : appid := {| aid := 3; am := [(21, 8)] |}.    (* app($8, $8) *)
Definition t_cap : appid := {| aid := 0; am := [(1, 13)] |}.   (* var $13; 13 is the binder name of the syntactic node of class 2 *)
Definition show (r : M appid) : option cterm := match r ix_state with Ok (a, s') => Some (den_of s' a) | Err _ => None end.

Example syn_binder_name : map c_syn (firstn 1 (skipn 2 (classes ix_state))) =
  [{| nvar := 0; nargs := [ABind 13 (AApp {| aid := 1; am := [(5, 13); (9, 17)] |})] |}].
Proof. vm_compute. reflexivity. Qed.

Example psubst_ok : show (syn_expr_subst b_inv x_inv t_ok) =
  Some (CT 0 [CBind (CChild (CT 1 [CChild (CT 2 [CSlot 3]); CChild (CT 1 [CChild (CT 2 [CSlot 8]); CChild (CT 2 [CSlot 8])])]))]).
Proof. vm_compute. reflexivity. Qed.

(* expected lam z. app(z, var $13); obtained lam z. app(z, z) *)
Example psubst_captures : show (syn_expr_subst b_inv x_inv t_cap) =
  Some (CT 0 [CBind (CChild (CT 1 [CChild (CT 2 [CSlot 3]); CChild (CT 2 [CSlot 3])]))]).
Proof. vm_compute. reflexivity. Qed.

(* ---------------------------------------------------------------------- *)
(* a run *)
Definition va : text := [97]%N.
Definition tvar (x : slot) : rterm := RT (varn x) [].
Definition tapp (a b : rterm) : rterm := RT appn [a; b].
Definition tlam (x : slot) (b : rterm) : rterm := RT (lamn x) [b].
Definition rx_terms : list rterm := [tlam 4 (tapp (tvar 4) (tvar 8)); tlam 4 (tapp (tvar 8) (tvar 4))].
Definition comm : rule := {| r_lhs := PNode appn [PVarP va; PVarP vb]; r_rhs := PNode appn [PVarP vb; PVarP va]; r_cond := None |}.
Definition comm_lam : rule :=
  {| r_lhs := PNode (lamn 4) [PNode appn [PVarP va; PVarP vb]]; r_rhs := PNode (lamn 4) [PNode appn [PVarP vb; PVarP va]]; r_cond := None |}.
Definition rx_ops (r : rule) : list rop := [RAdd 0; RAdd 1; RRew [r]].
Definition rx_eq (r : rule) : option (res bool) :=
  match run_rops rx_terms (rx_ops r) [] [] empty_egraph with
  | Ok ([a; b], _, s) => Some (eg_eq s a b)
  | _ => None
  end.

Example rx_equal : rx_eq comm = Some (Ok true) /\ rx_eq comm_lam = Some (Ok true).
Proof. vm_compute. auto. Qed.
Example rx_not_equal_before : match run_rops rx_terms [RAdd 0; RAdd 1] [] [] empty_egraph with
                              | Ok ([a; b], _, s) => Some (eg_eq s a b) | _ => None end = Some (Ok false).
Proof. vm_compute. reflexivity. Qed.
Example rx_pre : rops_preb rx_terms (rx_ops comm) [] [] empty_egraph = true /\ rops_preb rx_terms (rx_ops comm_lam) [] [] empty_egraph = true.
Proof. vm_compute. auto. Qed.

Lemma rx_terms_ok : Forall rt_ok rx_terms /\ Forall rt_wf rx_terms.
Proof.
  split.
  - cbn; repeat (apply Forall_cons || apply Forall_nil || apply conj || exact I); cbn; intros x Hx;
      repeat (destruct Hx as [Hx|Hx]; [subst x; vm_compute; auto|]); contradiction.
  - cbn; repeat (apply Forall_cons || apply Forall_nil || apply conj || exact I || reflexivity).
Qed.

(* the theorem applied: the two inserted terms are derivable from instances of the rule *)
Example rx_derivable : forall r, r = comm \/ r = comm_lam ->
  exists E, from_rules (fun _ => True) (fun _ _ => True) E /\
    Deriv E 0 (canon0 (tlam 4 (tapp (tvar 4) (tvar 8)))) (canon0 (tlam 4 (tapp (tvar 8) (tvar 4)))).
Proof.
  intros r Hr.
  destruct (run_rops rx_terms (rx_ops r) [] [] empty_egraph) as [[[hs hrs] s]|] eqn:Run; [|destruct Hr; subst r; vm_compute in Run; discriminate].
  destruct (rewriting_history_derivable (fun _ => True) (fun _ _ => True) rx_terms (rx_ops r) hs hrs s
              (proj1 rx_terms_ok) (proj2 rx_terms_ok)) as (E & FE & HD).
  - apply rops_preb_sound. destruct Hr; subst r; vm_compute; reflexivity.
  - exact Run.
  - exists E. split; [exact FE|].
    destruct Hr; subst r; vm_compute in Run; inversion Run; subst hs hrs s; clear Run;
      (eapply (HD 0%nat 1%nat); [reflexivity|reflexivity|reflexivity|reflexivity|vm_compute; reflexivity]).
Qed.

Print Assumptions inst_denoted.
Print Assumptions psubst_captures.
Print Assumptions rx_derivable.
