(* EGraph/RewriteSoundInst.v — C03, the instance of a pattern as a canonical term.
   `node_t n tcs`: the canonical term of the node n whose children (one per applied-id position, left to
   right) have the canonical terms tcs.  A child that stands under binders x1..xk of n has its free slots
   xi renamed to the reserved names of the binder levels (B 0 .. B (k-1)) and its own binder levels shifted
   by k (`lift`): the bound slot of the node is a binder of the term, it captures exactly the occurrences of
   that slot name in the child, and no level of the child is confused with a level of the node.
   `bridgeT` (generalisation of SoundAddExpr.bridge from `canon0 (RT n ch)` to arbitrary child terms): if the
   node with the child handles in place denotes the class of a (nsound), and every child handle denotes its
   term, then a is a handle of node_t n tcs. *)
From SE Require Import Slots.SlotMapFacts Group.GroupSound Lang.LangFacts Lang.ShapeFacts Lang.RenameFacts
  EGraph.Model EGraph.ModelFacts EGraph.ModelMachine EGraph.UnionFindFacts EGraph.InvariantFacts
  EGraph.UnionInvariantFacts EGraph.AddCoversFacts EGraph.MonotoneFacts EGraph.SoundFacts EGraph.SoundSyn
  EGraph.SoundNode EGraph.SoundAddExpr.
From SE Require Import Sem.Deriv Sem.DerivFacts Sem.AlgebraFacts Sem.EgMachine Explain.CheckerFacts.
Require Import ZArith Lia ZifyBool ZifyN ZifyNat.
Ltac Zify.zify_post_hook ::= Z.div_mod_to_equations.

Local Notation ectr := Model.ctr.

(* ====================================================================== *)
(* 1. the term of a node over child terms                                   *)
(* ====================================================================== *)

Fixpoint carg_of (d : nat) (env : list (slot * N)) (a : farg) (ch : list cterm) : carg * list cterm :=
  match a with
  | ASlot x => (CSlot (env_get env x), ch)
  | AApp _ => match ch with
              | c :: ch' => (CChild (cren (lift d (env_get env)) c), ch')
              | [] => (CChild (CT 0 []), [])
              end
  | ABind x b => let '(b', ch') := carg_of (S d) ((x, B d) :: env) b ch in (CBind b', ch')
  | APay p => (CPay p, ch)
  end.

Fixpoint cargs_of (d : nat) (env : list (slot * N)) (l : list farg) (ch : list cterm) : list carg :=
  match l with
  | [] => []
  | a :: l' => let '(a', ch') := carg_of d env a ch in a' :: cargs_of d env l' ch'
  end.

Definition node_t (n : node) (ch : list cterm) : cterm := CT (nvar n) (cargs_of 0 [] (nargs n) ch).

(* ====================================================================== *)
(* 2. the bridge                                                            *)
(* ====================================================================== *)

Section BridgeT.
  Variables (E : equations) (s : egraph).
  Hypothesis W : syn_wf s.

  Definition kid_den (a : appid) (c : cterm) : Prop := handle_ok E s a c /\ covers s a /\ vnb a.

  Lemma bridgeT_child : forall a c d env rho, kid_den a c -> env_wf d env ->
    (forall y, rho y = env_get env y) ->
    exists t, NodeArg s d rho (AApp a) (CChild t) /\ Deriv E d (cren (lift d (env_get env)) c) t.
  Proof.
    intros a c d env rho (HO & Cv & _) EW Hr.
    destruct (completion_exists E s a _ HO Cv) as (tau0 & Ct & Xt).
    destruct HO as [NB HD]. pose proof (HD tau0 Ct) as D0. destruct Ct as [[I0 N0] _].
    set (r := lift d (env_get env)).
    exists (syn_at s d (fun y => r (tau0 y)) (aid a)). split.
    - apply NA_app.
      + split.
        * intros x y Hx Hy H. apply I0; try assumption. unfold r, lift in H. rewrite (N0 _ Hx), (N0 _ Hy) in H.
          apply (env_get_inj d env EW); auto.
        * intros x Hx. unfold r. apply lift_env_fr; auto.
      + intros y v G. rewrite (Xt _ _ G). unfold r, lift. rewrite (NB _ _ G). symmetry. apply Hr.
    - replace (syn_at s d (fun y => r (tau0 y)) (aid a)) with (cren r (clsT s tau0 (aid a))).
      2:{ unfold clsT, syn_at. apply (syn_t_cren s W); [apply shifts_lift|]. intros; reflexivity. }
      apply Deriv_inst; [exact D0| | |].
      + intros x _ Hx. destruct (env_get_range d env EW x) as [A|A]; [left; rewrite A; exact Hx|right; exact A].
      + intros x y _ _ Hx Hy. apply (env_get_inj d env EW); assumption.
      + intros x y _ _ Hx Hy. apply (env_get_inj d env EW); assumption.
  Qed.

  Lemma bridgeT_arg : forall a d env rho l ch, Forall2 kid_den l ch ->
    (List.length (app_occ_f a) <= List.length l)%nat -> env_wf d env -> (forall y, rho y = env_get env y) ->
    exists t, NodeArg s d rho (fst (set_apps_f a l)) t /\
              DerivArg E d (fst (carg_of d env a ch)) t /\
              Forall2 kid_den (snd (set_apps_f a l)) (snd (carg_of d env a ch)) /\
              List.length (snd (set_apps_f a l)) = (List.length l - List.length (app_occ_f a))%nat.
  Proof.
    induction a as [x|x|x b IH|p]; intros d env rho l ch F Hl EW Hr;
      cbn [set_apps_f carg_of app_occ_f List.length] in *.
    - exists (CSlot (rho x)). cbn [fst snd]. split; [constructor|]. split; [rewrite Hr; constructor|]. split; [exact F|lia].
    - destruct F as [|y c l' ch' Hyc F]; [cbn [List.length] in Hl; lia|]. cbn [fst snd].
      destruct (bridgeT_child y c d env rho Hyc EW Hr) as (t & NA & D). exists (CChild t).
      split; [exact NA|]. split; [constructor; exact D|]. split; [exact F|cbn [List.length]; lia].
    - destruct (IH (S d) ((x, B d) :: env) (upd rho x (B d)) l ch F Hl (ew_cons _ _ _ EW)) as (t & NA & D & F' & L').
      { intros y. unfold upd. cbn [env_get]. destruct (y =? x); [reflexivity|apply Hr]. }
      destruct (set_apps_f b l) as [b' l']. destruct (carg_of (S d) ((x, B d) :: env) b ch) as [cb ch'].
      cbn [fst snd] in *. exists (CBind t). split; [constructor; exact NA|]. split; [constructor; exact D|]. split; assumption.
    - exists (CPay p). cbn [fst snd]. split; [constructor|]. split; [constructor|]. split; [exact F|lia].
  Qed.

  Lemma bridgeT_args : forall rho, (forall y, rho y = y) -> forall args l ch, Forall2 kid_den l ch ->
    (List.length (flat_map app_occ_f args) <= List.length l)%nat ->
    exists ts, Forall2 (NodeArg s 0 rho) (set_apps_args args l) ts /\
               DerivArgs E 0 (cargs_of 0 [] args ch) ts.
  Proof.
    intros rho Hr. induction args as [|a args IH]; intros l ch F Hl; cbn [set_apps_args cargs_of].
    - exists []. split; constructor.
    - cbn [flat_map] in Hl. rewrite app_length in Hl.
      destruct (bridgeT_arg a 0 [] rho l ch F) as (t & NA & D & F' & L'); [lia|constructor|exact Hr|].
      destruct (set_apps_f a l) as [a' l']. destruct (carg_of 0 [] a ch) as [ca ch']. cbn [fst snd] in *.
      destruct (IH l' ch' F') as (ts & Fs & Ds); [lia|]. exists (t :: ts). split; constructor; assumption.
  Qed.

  Theorem bridgeT : forall a n tcs l, inv3 s -> Sound E s -> covers s a -> vnb a ->
    (forall x, In x (all_occ n) -> is_B x = false) -> List.length l = List.length (app_occ n) ->
    Forall2 (handle_ok E s) l tcs -> Forall (covers s) l -> Forall vnb l ->
    nsound E s a (set_apps n l) -> handle_ok E s a (node_t n tcs).
  Proof.
    intros a n tcs l I3 S Cv NB U Hl F2 Cl Vl NS. split; [intros x v G; eapply vnb_get; eauto|]. intros sg [Rs Cs].
    assert (F : Forall2 kid_den l tcs).
    { clear -F2 Cl Vl. induction F2 as [|x y l l' Hxy F IH]; [constructor|]. inversion Cl; subst. inversion Vl; subst.
      constructor; [split; [exact Hxy|split; assumption]|apply IH; assumption]. }
    destruct (bridgeT_args (fun y => y) (fun y => eq_refl) (nargs n) l tcs F) as (ts & Fs & Ds).
    { unfold app_occ in Hl. lia. }
    set (tN := CT (nvar n) ts).
    assert (NT : NodeT s (fun y => y) (set_apps n l) tN).
    { exists ts. split; [exact Fs|reflexivity]. }
    assert (D1 : Deriv E 0 (node_t n tcs) tN).
    { unfold node_t. apply D_cong. exact Ds. }
    assert (NBn : forall y, In y (slots (set_apps n l)) -> is_B y = false).
    { intros y Hy. apply slots_spec in Hy. unfold pub_occ, set_apps in Hy. cbn [nargs] in Hy.
      apply set_apps_args_pub in Hy. destruct Hy as [Hy|(z & Hz & Hy)].
      - apply U. exact Hy.
      - exact (proj1 (Forall_forall _ _) Vl z Hz y Hy). }
    destruct Cv as (c & Hc & Ia & Ka).
    set (L := values_vec (am a) ++ slots (set_apps n l)).
    assert (RL : rokL L (fun v => v)).
    { split; [intros x y _ _ H; exact H|]. intros x Hx. apply in_app_or in Hx. destruct Hx as [Hx|Hx]; [apply NB; exact Hx|apply NBn; exact Hx]. }
    assert (VL : forall k v, get (am a) k = Some v -> In v L).
    { intros k v G. apply in_or_app. left. apply get_in in G. unfold values_vec. apply in_map_iff. exists (k, v). split; [reflexivity|exact G]. }
    set (sg' := ext_ren (fun v => v) (am a) (bound_of (fun v => v) L)).
    assert (R' : rokL (SS s (aid a)) sg') by (apply (ext_ren_rok L); assumption).
    assert (D2 : Deriv E 0 (clsT s sg' (aid a)) tN).
    { apply (NS sg' (fun y => y) tN R').
      - split; [intros x y _ _ H; exact H|exact NBn].
      - intros x v G. unfold sg', ext_ren. rewrite G. reflexivity.
      - intros x y Hx Hy H. unfold sg', ext_ren in H. destruct (get (am a) x) as [v|] eqn:G; [subst v; reflexivity|].
        exfalso. pose proof (bound_of_spec (fun v => v) L y) as T. cbv beta in T.
        assert (HyL : In y L) by (apply in_or_app; right; exact Hy). apply T in HyL. lia.
      - exact NT. }
    apply D_trans with tN; [exact D1|]. apply D_trans with (clsT s sg' (aid a)); [apply D_sym; exact D2|].
    assert (CK : cls_ok s) by (apply ei_cls; apply I3).
    apply (Sound_redundant E s (aid a) c S CK Hc sg' sg R' Rs).
    cbn [aid am cidapp]. intros x y v Hx Hy. apply identity_get in Hx, Hy. destruct Hx as [-> Hv]. destruct Hy as [-> _].
    specialize (Ka v Hv). destruct (get (am a) v) as [w|] eqn:G; [|congruence].
    unfold sg', ext_ren. rewrite G. symmetry. apply Cs. exact G.
  Qed.
End BridgeT.

(* ====================================================================== *)
(* 3. node_t on canonical terms of rterms is canon0                         *)
(* ====================================================================== *)

Lemma carg_of_canon : forall f a d env ch, Forall rt_ok ch -> Forall (fun c => (rsize c < f)%nat) ch ->
  fst (carg_of d env a (map canon0 ch)) = fst (canon_arg (canon f) d env a ch) /\
  snd (carg_of d env a (map canon0 ch)) = map canon0 (snd (canon_arg (canon f) d env a ch)).
Proof.
  intros f. induction a as [x|x|x b IH|p]; intros d env ch OK SZ; cbn [carg_of canon_arg].
  - split; reflexivity.
  - destruct ch as [|c r]; cbn [map fst snd]; [split; reflexivity|]. split; [|reflexivity].
    inversion OK; subst. inversion SZ; subst. rewrite (canon_canon0 f d env c) by assumption. reflexivity.
  - specialize (IH (S d) ((x, B d) :: env) ch OK SZ).
    destruct (carg_of (S d) ((x, B d) :: env) b (map canon0 ch)) as [b1 c1].
    destruct (canon_arg (canon f) (S d) ((x, B d) :: env) b ch) as [b2 c2]. cbn [fst snd] in *.
    destruct IH as [-> ->]. split; reflexivity.
  - split; reflexivity.
Qed.

Lemma cargs_of_canon : forall f d env l ch, Forall rt_ok ch -> Forall (fun c => (rsize c < f)%nat) ch ->
  cargs_of d env l (map canon0 ch) = canon_args (canon f) d env l ch.
Proof.
  intros f d env. induction l as [|a l IH]; intros ch OK SZ; cbn [cargs_of canon_args]; [reflexivity|].
  destruct (carg_of_canon f a d env ch OK SZ) as [A1 A2].
  pose proof (canon_arg_snd_in (canon f) a d env ch) as Sub.
  destruct (carg_of d env a (map canon0 ch)) as [a1 c1]. destruct (canon_arg (canon f) d env a ch) as [a2 c2].
  cbn [fst snd] in *. subst a1 c1. f_equal. apply IH.
  - apply Forall_forall. intros c Hc. exact (proj1 (Forall_forall _ _) OK c (Sub c Hc)).
  - apply Forall_forall. intros c Hc. exact (proj1 (Forall_forall _ _) SZ c (Sub c Hc)).
Qed.

Theorem node_t_canon0 : forall n ch, rt_ok (RT n ch) -> node_t n (map canon0 ch) = canon0 (RT n ch).
Proof.
  intros n ch OK. apply rt_ok_iff in OK. destruct OK as [_ C]. unfold node_t, canon0. rewrite canon_S. f_equal.
  apply cargs_of_canon; [exact C|]. apply Forall_forall. intros c Hc. apply rsize_child. exact Hc.
Qed.

Print Assumptions bridgeT.
Print Assumptions node_t_canon0.
