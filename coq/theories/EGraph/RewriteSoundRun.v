(* EGraph/RewriteSoundRun.v — C03: histories that interleave insertions, unions and rewrite iterations.
   The run invariant GoodR, one lemma per kind of step, the history machine `run_rops`, the end-to-end
   theorem `rewriting_history_sound`, and its instances: equations derivable from a fixed set
   (`apply_rewrites_sound_closed`), validity in an algebra (`rewriting_history_sound_in_algebra`: every two
   terms the e-graph reports equal have the same meaning).  See the summary at the end of the file. *)
From SE Require Import Slots.SlotMapFacts Group.GroupSound Lang.LangFacts Lang.ShapeFacts Lang.RenameFacts
  Base.TextFacts Parse.Parser
  EGraph.Model EGraph.ModelFacts EGraph.ModelMachine EGraph.UnionFindFacts EGraph.InvariantFacts
  EGraph.UnionInvariantFacts EGraph.AddCoversFacts EGraph.MonotoneFacts EGraph.Mod4Facts EGraph.SoundFacts EGraph.SoundUnion
  EGraph.SoundSyn EGraph.SoundNode EGraph.SoundStruct EGraph.NodePass EGraph.SoundBase EGraph.SoundAddNew EGraph.SoundVals
  EGraph.SoundAddExpr EGraph.SoundPending EGraph.SoundRebuild EGraph.SoundGuard EGraph.SoundFinal EGraph.SoundClosed
  EGraph.Rewrite EGraph.RewriteFacts EGraph.ProgressFacts EGraph.MatchDefs EGraph.MatchFacts EGraph.KidsFacts
  EGraph.MatchVals EGraph.RewriteSoundInst EGraph.RewriteSound.
From SE Require Import Sem.Deriv Sem.DerivFacts Sem.Algebra Sem.AlgebraFacts Sem.EgMachine Explain.CheckerFacts.
Require Import ZArith Lia ZifyBool ZifyN ZifyNat.
Ltac Zify.zify_post_hook ::= Z.div_mod_to_equations.

Local Notation ectr := Model.ctr.

(* ====================================================================== *)
(* 1. the structural invariant of the matcher (inv3, m4, kids_ok) along one iteration *)
(* ====================================================================== *)

Theorem kinv_apply_rewrites_sched : forall sched rs s b s', sched_sub sched -> kinv s -> rules_below (ectr s) rs ->
  apply_rewrites_sched sched rs s = Ok (b, s') -> kinv s' /\ ext0 s s'.
Proof.
  intros sched rs s b s' SS (I3 & M & K) RB H. unfold apply_rewrites_sched in H.
  apply bind_reads_inv in H. destruct H as (p0 & P0 & H).
  apply mbind_inv in H. destruct H as (ts & s1 & H1 & H). cbv zeta in H.
  pose proof (c_searchers rs s ts s1 H1) as Lc. pose proof (sg_searchers rs s ts s1 H1) as G1. unfold cle in Lc.
  pose proof (searchers_cov_below rs s ts s1 I3 K M RB H1) as SC.
  apply mbind_inv in H. destruct H as (u & s2 & H2 & H).
  apply bind_reads_inv in H. destruct H as (p1 & P1 & H). inversion H; subst b s2; clear H.
  assert (I3' : inv3 s1) by exact (proj1 (qstep_sg s s1 I3 G1 Lc)).
  assert (M' : m4 s1).
  { refine (proj1 (h_mapM _ _ (fun r => ematch_all (r_lhs r)) rs _ s ts s1 H1 M)). intros r. apply h_ematch_all. }
  assert (K' : kids_ok s1) by (destruct G1 as (_ & Ec & _); eapply kids_ok_same_classes; eauto).
  assert (RB' : rules_below (ectr s1) rs) by (eapply rules_below_mono; [exact Lc|exact RB]).
  assert (X01 : ext0 s s1).
  { split; [exact Lc|]. destruct G1 as (_ & Gc & _). intros i c Hc. exists c. rewrite (get_class_classes s s1 i Gc).
    split; [exact Hc|]. split; [apply incl_refl|reflexivity]. }
  destruct (kinv_appliers_all (combine rs (mapi_from sched O ts)) s1 u s' (conj I3' (conj M' K'))) as [K2 X2]; [|exact H2|].
  { pose proof (mapi_from_sched_cov (fun sb => sub_cov s1 sb /\ sub_below s1 sb) sched SS ts O SC) as SC'.
    apply Forall_forall. intros [r l] Hin. cbn [fst snd].
    pose proof (in_combine_l _ _ _ _ Hin) as Hr. pose proof (in_combine_r _ _ _ _ Hin) as Hl.
    destruct (proj1 (Forall_forall _ _) RB' r Hr) as [B1 B2]. split; [exact B1|]. split; [exact B2|].
    pose proof (proj1 (Forall_forall _ _) SC' l Hl) as Fl. revert Fl. apply Forall_impl. intros sb [A Bb] v a G.
    split; [exact (A v a G)|]. intros x Hx. left. exact (Bb v a G x Hx). }
  split; [exact K2|eapply ext0_trans; eauto].
Qed.

(* user terms (slot names 0 or 2 mod 4) satisfy the premise of KidsFacts.kinv_add_expr *)
Lemma rt_ok_pre : forall c t, rt_ok t -> rt_pre c t.
Proof.
  intros c. fix IH 1. intros [n ch] OK. cbn [rt_ok] in OK. destruct OK as [U C]. cbn [rt_pre]. split.
  - intros x Hx. right. destruct (U x Hx) as [T|T]; rewrite T; discriminate.
  - revert C. induction ch as [|t r IHr]; intros C; [exact I|]. destruct C as [Ct Cr].
    split; [apply IH; exact Ct|apply IHr; exact Cr].
Qed.

(* ====================================================================== *)
(* 2. the run invariant, one lemma per kind of step                         *)
(* ====================================================================== *)

Definition GoodR (E : equations) (s : egraph) (hs : list appid) (hts : list cterm) : Prop :=
  RSt E s /\ kids_ok s /\ m4 s /\ Forall (covers s) hs /\ Forall2 (handle_ok E s) hs hts.

Lemma GoodR_empty : forall E, GoodR E empty_egraph [] [].
Proof.
  intros E. destruct kinv_empty as (_ & M & K). split; [apply RSt_empty|]. split; [exact K|]. split; [exact M|]. split; constructor.
Qed.

Lemma handles_ext0 : forall E E' s s' hs hts, (forall e, In e E -> In e E') -> ext0 s s' -> Forall (covers s) hs ->
  Forall2 (handle_ok E s) hs hts -> Forall (covers s') hs /\ Forall2 (handle_ok E' s') hs hts.
Proof.
  intros E E' s s' hs hts HE X Cv F. split.
  - revert Cv. apply Forall_impl. intros a. apply covers_ext0. exact X.
  - induction F as [|x y l l' Hxy F IHF]; [constructor|]. inversion Cv; subst.
    constructor; [|apply IHF; assumption]. eapply handle_ok_ext0; [exact X|eassumption|]. eapply handle_ok_mono; eauto.
Qed.

(* equal handles have derivably equal terms *)
Theorem GoodR_eq_sound : forall E s hs hts i j a b ti tj, GoodR E s hs hts ->
  nth_opt hs i = Some a -> nth_opt hs j = Some b -> nth_opt hts i = Some ti -> nth_opt hts j = Some tj ->
  eg_eq s a b = Ok true -> Deriv E 0 ti tj.
Proof.
  intros E s hs hts i j a b ti tj ((I & _ & S & _ & _) & _ & _ & Cv & F).
  apply (Good_eq_sound E s hs hts i j a b ti tj). split; [exact I|]. split; [exact S|]. split; assumption.
Qed.

(* insertion *)
Theorem GoodR_add : forall E s hs hts tm a s1, GoodR E s hs hts -> rt_ok tm -> rt_wf tm ->
  add_expr tm s = Ok (a, s1) -> GoodR E s1 (hs ++ [a]) (hts ++ [canon0 tm]).
Proof.
  intros E s hs hts tm a s1 ((I & W & S & R & Cm) & K & M & Cv & F) TOk TWf Ea.
  destruct (add_expr_covers tm s a s1 I Ea) as (I1 & X & Ca).
  destruct (Sound_add_expr_all SC2 KC2 xinv_closed HSh_red_2 HC_sim_y_proved HD_sim_2 HS_readd_2 E tm s a s1 I W S R Cm TOk TWf Ea)
    as (S1 & O1 & W1 & R1).
  pose proof (proj2 (add_expr_ctr_grows tm s a s1 Ea) Cm) as Cm1.
  destruct (kinv_add_expr tm s a s1 (conj I (conj M K)) TWf (rt_ok_pre _ _ TOk) Ea) as ((_ & M1 & K1) & _ & _).
  destruct (handles_ext0 E E s s1 hs hts (fun e He => He) X Cv F) as [Cv1 F1].
  split; [split; [exact I1|split; [exact W1|split; [exact S1|split; [exact R1|exact Cm1]]]]|].
  split; [exact K1|]. split; [exact M1|]. split.
  - apply Forall_app. split; [exact Cv1|constructor; [exact Ca|constructor]].
  - apply Forall2_app; [exact F1|constructor; [exact O1|constructor]].
Qed.

(* union of two handles: the equation between their terms is added *)
Theorem GoodR_union : forall E s hs hts i j a b ta tb u s1, GoodR E s hs hts ->
  nth_opt hs i = Some a -> nth_opt hs j = Some b -> nth_opt hts i = Some ta -> nth_opt hts j = Some tb ->
  eg_union a b s = Ok (u, s1) -> GoodR (E ++ [(ta, tb)]) s1 hs hts.
Proof.
  intros E s hs hts i j a b ta tb u s1 (R & K & M & Cv & F) Ha Hb Hta Htb Eu.
  destruct (Forall2_nth_opt _ _ _ _ _ F Ha) as (ta' & E1 & Oa). rewrite Hta in E1. inversion E1; subst ta'.
  destruct (Forall2_nth_opt _ _ _ _ _ F Hb) as (tb' & E2 & Ob). rewrite Htb in E2. inversion E2; subst tb'.
  pose proof (proj1 (Forall_forall _ _) Cv) as Cv'.
  assert (Ca : covers s a) by (apply Cv'; eapply nth_opt_In; eauto). assert (Cb : covers s b) by (apply Cv'; eapply nth_opt_In; eauto).
  destruct (RSt_eg_union E s a b ta tb u s1 R Ca Cb Oa Ob Eu) as [R1 X].
  destruct (kinv_eg_union a b s u s1 (conj (proj1 R) (conj M K)) Ca Cb Eu) as [(_ & M1 & K1) _].
  destruct (handles_ext0 E (E ++ [(ta, tb)]) s s1 hs hts (fun e He => in_or_app _ _ _ (or_introl He)) (ext_ext0 _ _ X) Cv F) as [Cv1 F1].
  split; [exact R1|]. split; [exact K1|]. split; [exact M1|]. split; assumption.
Qed.

Section Rewriting.
  Variable P : equations -> Prop.
  Variable RP : rule -> Prop.
  Hypothesis P_step : forall E r sb s den, RP r -> P E -> RSt E s -> sub_den E s sb den ->
    sub_vals (r_lhs r) sb -> sub_bound r sb -> cond_holds (r_cond r) sb = Ok true ->
    P (E ++ [(pat_t den (r_lhs r), pat_t den (r_rhs r))]).

  (* one rewrite iteration *)
  Theorem GoodR_rewrite : forall sched rs E s hs hts b s', sched_sub sched -> P E -> GoodR E s hs hts ->
    rules_below (ectr s) rs -> Forall RP rs -> Forall rule_nb rs ->
    apply_rewrites_sched sched rs s = Ok (b, s') ->
    exists E', (forall e, In e E -> In e E') /\ P E' /\ GoodR E' s' hs hts.
  Proof.
    intros sched rs E s hs hts b s' SS HP (R & K & M & Cv & F) RB FP FN H.
    destruct (apply_rewrites_sched_sound P RP P_step sched rs E s b s' SS HP R K M RB FP FN H) as (E' & I' & P' & R' & X').
    destruct (kinv_apply_rewrites_sched sched rs s b s' SS (conj (proj1 R) (conj M K)) RB H) as [(_ & M1 & K1) _].
    destruct (handles_ext0 E E' s s' hs hts I' X' Cv F) as [Cv1 F1].
    exists E'. split; [exact I'|]. split; [exact P'|]. split; [exact R'|]. split; [exact K1|]. split; [exact M1|]. split; assumption.
  Qed.

  (* ==================================================================== *)
  (* 3. histories                                                           *)
  (* ==================================================================== *)

  Inductive rop := RAdd (k : nat) | RUnion (i j : nat) | RRew (rs : list rule).

  (* one step of the history machine: the handles, and (ghost) the terms they were returned for *)
  Definition rstep (terms : list rterm) (o : rop) (hs : list appid) (hrs : list rterm) (s : egraph)
    : res (list appid * list rterm * egraph) :=
    match o with
    | RAdd k => match nth_opt terms k with
                | None => Err OutOfBounds
                | Some tm => match add_expr tm s with Ok (a, s') => Ok (hs ++ [a], hrs ++ [tm], s') | Err e => Err e end
                end
    | RUnion i j => match nth_opt hs i, nth_opt hs j with
                    | Some a, Some b => match eg_union a b s with Ok (_, s') => Ok (hs, hrs, s') | Err e => Err e end
                    | _, _ => Err OutOfBounds
                    end
    | RRew rs => match apply_rewrites rs s with Ok (_, s') => Ok (hs, hrs, s') | Err e => Err e end
    end.

  Fixpoint run_rops (terms : list rterm) (ops : list rop) (hs : list appid) (hrs : list rterm) (s : egraph)
    : res (list appid * list rterm * egraph) :=
    match ops with
    | [] => Ok (hs, hrs, s)
    | o :: t => match rstep terms o hs hrs s with
                | Ok (hs', hrs', s') => run_rops terms t hs' hrs' s'
                | Err e => Err e
                end
    end.

  (* UA: the equations the user may assert by a union (between the terms of two handles) *)
  Variable UA : rterm -> rterm -> Prop.
  Hypothesis P_union : forall E t1 t2, P E -> UA t1 t2 -> P (E ++ [(canon0 t1, canon0 t2)]).

  (* the side conditions of a run: asserted unions are admissible; the rules of a rewrite step are in RP, have no
     PSubst / reserved slot names, and their slot names are older than the fresh-slot counter of the state the
     step starts from (rules_below: the premise of the matcher theorems of MatchFacts.v) *)
  Fixpoint rops_pre (terms : list rterm) (ops : list rop) (hs : list appid) (hrs : list rterm) (s : egraph) : Prop :=
    match ops with
    | [] => True
    | o :: t =>
        match o with
        | RAdd _ => True
        | RUnion i j => match nth_opt hrs i, nth_opt hrs j with Some t1, Some t2 => UA t1 t2 | _, _ => True end
        | RRew rs => rules_below (ectr s) rs /\ Forall RP rs /\ Forall rule_nb rs
        end /\
        match rstep terms o hs hrs s with
        | Ok (hs', hrs', s') => rops_pre terms t hs' hrs' s'
        | Err _ => True
        end
    end.

  Lemma sched_sub_id : sched_sub (fun _ l => l).
  Proof. intros k l. apply incl_refl. Qed.

  Lemma nth_opt_map : forall {A C} (f : A -> C) l i, nth_opt (map f l) i = option_map f (nth_opt l i).
  Proof. intros A C f. induction l as [|x t IH]; intros [|i]; cbn [map nth_opt option_map]; auto. Qed.

  Lemma GoodR_run_rops : forall terms, Forall rt_ok terms -> Forall rt_wf terms ->
    forall ops hs hrs s E hs' hrs' s', P E -> GoodR E s hs (map canon0 hrs) -> rops_pre terms ops hs hrs s ->
    run_rops terms ops hs hrs s = Ok (hs', hrs', s') ->
    exists E', (forall e, In e E -> In e E') /\ P E' /\ GoodR E' s' hs' (map canon0 hrs').
  Proof.
    intros terms TO TW. induction ops as [|o ops IH]; intros hs hrs s E hs' hrs' s' HP G PRE H; cbn [run_rops rops_pre] in *.
    - inversion H; subst. exists E. auto.
    - destruct PRE as [PO PRE]. destruct (rstep terms o hs hrs s) as [[[hs1 hrs1] s1]|] eqn:St; [|discriminate].
      assert (Q : exists E1, (forall e, In e E -> In e E1) /\ P E1 /\ GoodR E1 s1 hs1 (map canon0 hrs1)).
      { destruct o as [k|i j|rs]; cbn [rstep] in St.
        - destruct (nth_opt terms k) as [tm|] eqn:Ek; [|discriminate].
          destruct (add_expr tm s) as [[a s2]|] eqn:Ea; [|discriminate]. inversion St; subst hs1 hrs1 s1.
          assert (TOk : rt_ok tm). { apply (proj1 (Forall_forall _ _) TO). eapply nth_opt_In; eauto. }
          assert (TWf : rt_wf tm). { apply (proj1 (Forall_forall _ _) TW). eapply nth_opt_In; eauto. }
          exists E. split; [auto|]. split; [exact HP|]. rewrite map_app. cbn [map].
          exact (GoodR_add E s hs _ tm a s2 G TOk TWf Ea).
        - destruct (nth_opt hs i) as [a|] eqn:Ha; [|discriminate]. destruct (nth_opt hs j) as [b|] eqn:Hb; [|discriminate].
          destruct (eg_union a b s) as [[u s2]|] eqn:Eu; [|discriminate]. inversion St; subst hs1 hrs1 s1.
          pose proof G as (_ & _ & _ & _ & F).
          destruct (Forall2_nth_opt _ _ _ _ _ F Ha) as (ta & Hta & _). destruct (Forall2_nth_opt _ _ _ _ _ F Hb) as (tb & Htb & _).
          rewrite nth_opt_map in Hta, Htb.
          destruct (nth_opt hrs i) as [t1|] eqn:H1; [|discriminate]. destruct (nth_opt hrs j) as [t2|] eqn:H2; [|discriminate].
          cbn [option_map] in Hta, Htb. inversion Hta; subst ta. inversion Htb; subst tb.
          exists (E ++ [(canon0 t1, canon0 t2)]). split; [intros e He; apply in_or_app; left; exact He|].
          split; [exact (P_union E t1 t2 HP PO)|].
          apply (GoodR_union E s hs _ i j a b (canon0 t1) (canon0 t2) u s2 G Ha Hb); [| |exact Eu];
            rewrite nth_opt_map; [rewrite H1|rewrite H2]; reflexivity.
        - destruct (apply_rewrites rs s) as [[b s2]|] eqn:Er; [|discriminate]. inversion St; subst hs1 hrs1 s1.
          destruct PO as (RB & FP & FN).
          exact (GoodR_rewrite (fun _ l => l) rs E s hs _ b s2 sched_sub_id HP G RB FP FN Er). }
      destruct Q as (E1 & I1 & P1 & G1).
      destruct (IH hs1 hrs1 s1 E1 hs' hrs' s' P1 G1 PRE H) as (E2 & I2 & P2 & G2).
      exists E2. split; [auto|]. split; assumption.
  Qed.

  (* THE END-TO-END STATEMENT: after any history of insertions, unions and rewrite iterations there is a set of
     equations E satisfying P such that handles the e-graph reports equal have E-derivably equal terms *)
  Theorem rewriting_history_sound : forall terms ops hs hrs s, Forall rt_ok terms -> Forall rt_wf terms -> P [] ->
    rops_pre terms ops [] [] empty_egraph ->
    run_rops terms ops [] [] empty_egraph = Ok (hs, hrs, s) ->
    exists E, P E /\ forall i j a b ti tj, nth_opt hs i = Some a -> nth_opt hs j = Some b ->
      nth_opt hrs i = Some ti -> nth_opt hrs j = Some tj -> eg_eq s a b = Ok true -> Deriv E 0 (canon0 ti) (canon0 tj).
  Proof.
    intros terms ops hs hrs s TO TW P0 PRE H.
    destruct (GoodR_run_rops terms TO TW ops [] [] empty_egraph [] hs hrs s P0 (GoodR_empty []) PRE H) as (E & _ & PE & G).
    exists E. split; [exact PE|]. intros i j a b ti tj Ha Hb Hti Htj Q.
    apply (GoodR_eq_sound E s hs (map canon0 hrs) i j a b _ _ G Ha Hb); [| |exact Q]; rewrite nth_opt_map; [rewrite Hti|rewrite Htj]; reflexivity.
  Qed.
End Rewriting.

(* ====================================================================== *)
(* 4. instances                                                             *)
(* ====================================================================== *)

(* (a) rules whose instances are derivable from E: one iteration keeps the invariant FOR E *)
Theorem apply_rewrites_sound_closed : forall (RP : rule -> Prop) E0,
  (forall E r sb s den, RP r -> (forall e, In e E0 -> In e E) -> (forall l r', In (l, r') E -> Deriv E0 0 l r') -> RSt E s -> sub_den E s sb den ->
     sub_vals (r_lhs r) sb -> sub_bound r sb -> cond_holds (r_cond r) sb = Ok true -> Deriv E0 0 (pat_t den (r_lhs r)) (pat_t den (r_rhs r))) ->
  forall rs s hs hts b s', GoodR E0 s hs hts -> rules_below (ectr s) rs -> Forall RP rs -> Forall rule_nb rs ->
  apply_rewrites rs s = Ok (b, s') -> GoodR E0 s' hs hts.
Proof.
  intros RP E0 HV rs s hs hts b s' G RB FP FN H.
  set (P := fun E : equations => (forall e, In e E0 -> In e E) /\ forall l r, In (l, r) E -> Deriv E0 0 l r).
  assert (PS : forall E r sb s den, RP r -> P E -> RSt E s -> sub_den E s sb den -> sub_vals (r_lhs r) sb -> sub_bound r sb -> cond_holds (r_cond r) sb = Ok true ->
                 P (E ++ [(pat_t den (r_lhs r), pat_t den (r_rhs r))])).
  { intros E r sb s0 den Hr [PI PE] R SD SV SB C. split; [intros e He; apply in_or_app; left; apply PI; exact He|].
    intros l r' Hin. apply in_app_or in Hin. destruct Hin as [Hin|[Hin|[]]]; [exact (PE l r' Hin)|]. inversion Hin; subst l r'.
    exact (HV E r sb s0 den Hr PI PE R SD SV SB C). }
  assert (P0 : P E0) by (split; [auto|intros l r Hin; apply Deriv_asserted; exact Hin]).
  destruct (GoodR_rewrite P RP PS (fun _ l => l) rs E0 s hs hts b s' (fun k l => incl_refl l) P0 G RB FP FN H) as (E' & I' & [_ PE'] & (R' & K' & M' & Cv' & F')).
  split; [exact (RSt_cut E0 E' s' PE' R')|]. split; [exact K'|]. split; [exact M'|]. split; [exact Cv'|].
  clear -F' PE'. induction F' as [|x y l l' [A Bx] F IHF]; constructor; [|exact IHF].
  split; [exact A|]. intros sg Cs. apply (proj1 (Deriv_cut_all E0 E' PE')). exact (Bx sg Cs).
Qed.

Lemma GoodR_mono : forall E E' s hs hts, (forall e, In e E -> In e E') -> GoodR E s hs hts -> GoodR E' s hs hts.
Proof.
  intros E E' s hs hts HE (R & K & M & Cv & F). split; [exact (RSt_mono E E' s HE R)|]. split; [exact K|]. split; [exact M|].
  split; [exact Cv|]. clear -F HE. induction F as [|x y l l' Hxy F IHF]; constructor; [eapply handle_ok_mono; eauto|exact IHF].
Qed.

(* the form "E' >= E, every instance pair is Deriv-E'-derivable  ==>  the invariant holds for E' afterwards" *)
Corollary apply_rewrites_sound_ext : forall (RP : rule -> Prop) E E', (forall e, In e E -> In e E') ->
  (forall E1 r sb s den, RP r -> (forall e, In e E' -> In e E1) -> (forall l r', In (l, r') E1 -> Deriv E' 0 l r') -> RSt E1 s -> sub_den E1 s sb den ->
     sub_vals (r_lhs r) sb -> sub_bound r sb -> cond_holds (r_cond r) sb = Ok true -> Deriv E' 0 (pat_t den (r_lhs r)) (pat_t den (r_rhs r))) ->
  forall rs s hs hts b s', GoodR E s hs hts -> rules_below (ectr s) rs -> Forall RP rs -> Forall rule_nb rs ->
  apply_rewrites rs s = Ok (b, s') -> GoodR E' s' hs hts.
Proof.
  intros RP E E' HE HV rs s hs hts b s' G. apply (apply_rewrites_sound_closed RP E' HV). exact (GoodR_mono E E' s hs hts HE G).
Qed.

(* (b) validity in an algebra *)
Section InAlgebra.
  Variable D : Type.
  Variable interp : nat -> list (sval D) -> D.
  Variable RP : rule -> Prop.
  Variable UA : rterm -> rterm -> Prop.
  (* the rules are valid: both instances of a rule of RP have the same meaning, for every match whose condition holds,
     in every state satisfying the invariant for equations that are valid *)
  Hypothesis rules_valid : forall E r sb s den, RP r -> valid D interp E -> RSt E s -> sub_den E s sb den ->
    sub_vals (r_lhs r) sb -> sub_bound r sb -> cond_holds (r_cond r) sb = Ok true ->
    forall env, eval D interp 0 env (pat_t den (r_lhs r)) = eval D interp 0 env (pat_t den (r_rhs r)).
  (* the asserted unions are valid *)
  Hypothesis unions_valid : forall t1 t2, UA t1 t2 -> forall env, eval D interp 0 env (canon0 t1) = eval D interp 0 env (canon0 t2).

  Lemma valid_app1 : forall E l r, valid D interp E -> (forall env, eval D interp 0 env l = eval D interp 0 env r) ->
    valid D interp (E ++ [(l, r)]).
  Proof.
    intros E l r V H l' r' Hin env. apply in_app_or in Hin. destruct Hin as [Hin|[Hin|[]]]; [exact (V l' r' Hin env)|].
    inversion Hin; subst. apply H.
  Qed.

  (* every two terms the e-graph reports equal have the same meaning *)
  Theorem rewriting_history_sound_in_algebra : forall terms ops hs hrs s, Forall rt_ok terms -> Forall rt_wf terms ->
    rops_pre RP UA terms ops [] [] empty_egraph ->
    run_rops terms ops [] [] empty_egraph = Ok (hs, hrs, s) ->
    forall i j a b ti tj, nth_opt hs i = Some a -> nth_opt hs j = Some b ->
      nth_opt hrs i = Some ti -> nth_opt hrs j = Some tj -> eg_eq s a b = Ok true ->
      forall env, eval D interp 0 env (canon0 ti) = eval D interp 0 env (canon0 tj).
  Proof.
    intros terms ops hs hrs s TO TW PRE H i j a b ti tj Ha Hb Hti Htj Q env.
    destruct (rewriting_history_sound (valid D interp) RP
                (fun E r sb s0 den Hr V R SD SV SB C => valid_app1 E _ _ V (rules_valid E r sb s0 den Hr V R SD SV SB C))
                UA (fun E t1 t2 V U => valid_app1 E _ _ V (unions_valid t1 t2 U))
                terms ops hs hrs s TO TW (fun l r Hin => match Hin with end) PRE H) as (E & V & HD).
    exact (Deriv_sound D interp E V 0 _ _ (HD i j a b ti tj Ha Hb Hti Htj Q) env).
  Qed.
End InAlgebra.

(* (c) no hypothesis on the rules: everything the e-graph equates is derivable (congruence, also under binders,
   injective renaming) from asserted equations and from instance pairs of the rules *)
Definition from_rules (RP : rule -> Prop) (UA : rterm -> rterm -> Prop) (E : equations) : Prop :=
  forall e, In e E ->
    (exists t1 t2, UA t1 t2 /\ e = (canon0 t1, canon0 t2)) \/
    (exists r sb den, RP r /\ sub_vals (r_lhs r) sb /\ cond_holds (r_cond r) sb = Ok true /\
                     e = (pat_t den (r_lhs r), pat_t den (r_rhs r))).

Theorem rewriting_history_derivable : forall (RP : rule -> Prop) (UA : rterm -> rterm -> Prop) terms ops hs hrs s,
  Forall rt_ok terms -> Forall rt_wf terms ->
  rops_pre RP UA terms ops [] [] empty_egraph ->
  run_rops terms ops [] [] empty_egraph = Ok (hs, hrs, s) ->
  exists E, from_rules RP UA E /\ forall i j a b ti tj, nth_opt hs i = Some a -> nth_opt hs j = Some b ->
    nth_opt hrs i = Some ti -> nth_opt hrs j = Some tj -> eg_eq s a b = Ok true -> Deriv E 0 (canon0 ti) (canon0 tj).
Proof.
  intros RP UA terms ops hs hrs s TO TW PRE H.
  apply (rewriting_history_sound (from_rules RP UA) RP) with (UA := UA) (terms := terms) (ops := ops); try assumption.
  - intros E r sb s0 den Hr PE _ _ SV _ C e Hin. apply in_app_or in Hin. destruct Hin as [Hin|[Hin|[]]]; [exact (PE e Hin)|].
    right. exists r, sb, den. split; [exact Hr|]. split; [exact SV|]. split; [exact C|]. symmetry. exact Hin.
  - intros E t1 t2 PE U e Hin. apply in_app_or in Hin. destruct Hin as [Hin|[Hin|[]]]; [exact (PE e Hin)|].
    left. exists t1, t2. split; [exact U|]. symmetry. exact Hin.
  - intros e [].
Qed.

(* the side conditions of a run, evaluated (RP and UA trivial) *)
Definition pat_nbb (p : pattern) : bool :=
  Parse.ArityFacts.arity_okb p && nosubst p && forallb (fun x => negb (is_B x)) (pslots p).
Definition rule_nbb (r : rule) : bool := pat_nbb (r_lhs r) && pat_nbb (r_rhs r).

Lemma pat_nbb_sound : forall p, pat_nbb p = true -> pat_nb p.
Proof.
  intros p H. unfold pat_nbb in H. apply andb_true_iff in H. destruct H as [H H3]. apply andb_true_iff in H. destruct H as [H1 H2].
  split; [exact H1|]. split; [exact H2|]. intros x Hx. rewrite forallb_forall in H3. specialize (H3 x Hx).
  apply negb_true_iff in H3. exact H3.
Qed.

Lemma rule_nbb_sound : forall r, rule_nbb r = true -> rule_nb r.
Proof. intros r H. unfold rule_nbb in H. apply andb_true_iff in H. destruct H as [H1 H2]. split; apply pat_nbb_sound; assumption. Qed.

Fixpoint rops_preb (terms : list rterm) (ops : list rop) (hs : list appid) (hrs : list rterm) (s : egraph) : bool :=
  match ops with
  | [] => true
  | o :: t =>
      match o with
      | RRew rs => rules_belowb (ectr s) rs && forallb rule_nbb rs
      | _ => true
      end &&
      match rstep terms o hs hrs s with
      | Ok (hs', hrs', s') => rops_preb terms t hs' hrs' s'
      | Err _ => true
      end
  end.

(* the same with decision procedures for RP and UA *)
Fixpoint rops_preb_gen (rpb : rule -> bool) (uab : rterm -> rterm -> bool)
  (terms : list rterm) (ops : list rop) (hs : list appid) (hrs : list rterm) (s : egraph) : bool :=
  match ops with
  | [] => true
  | o :: t =>
      match o with
      | RAdd _ => true
      | RUnion i j => match nth_opt hrs i, nth_opt hrs j with Some t1, Some t2 => uab t1 t2 | _, _ => true end
      | RRew rs => rules_belowb (ectr s) rs && forallb rpb rs && forallb rule_nbb rs
      end &&
      match rstep terms o hs hrs s with
      | Ok (hs', hrs', s') => rops_preb_gen rpb uab terms t hs' hrs' s'
      | Err _ => true
      end
  end.

Lemma rops_preb_gen_sound : forall (RP : rule -> Prop) (UA : rterm -> rterm -> Prop) rpb uab,
  (forall r, rpb r = true -> RP r) -> (forall t1 t2, uab t1 t2 = true -> UA t1 t2) ->
  forall terms ops hs hrs s, rops_preb_gen rpb uab terms ops hs hrs s = true -> rops_pre RP UA terms ops hs hrs s.
Proof.
  intros RP UA rpb uab HR HU terms. induction ops as [|o ops IH]; intros hs hrs s H; cbn [rops_preb_gen rops_pre] in *; [exact I|].
  apply andb_true_iff in H. destruct H as [H1 H2]. split.
  - destruct o as [k|i j|rs]; [exact I|destruct (nth_opt hrs i), (nth_opt hrs j); try exact I; apply HU; exact H1|].
    apply andb_true_iff in H1. destruct H1 as [H1 C]. apply andb_true_iff in H1. destruct H1 as [A Bq].
    split; [apply rules_belowb_sound; exact A|].
    rewrite forallb_forall in Bq, C.
    split; apply Forall_forall; intros r Hr; [apply HR; exact (Bq r Hr)|apply rule_nbb_sound; exact (C r Hr)].
  - destruct (rstep terms o hs hrs s) as [[[hs1 hrs1] s1]|]; [apply IH; exact H2|exact I].
Qed.

Lemma rops_preb_sound : forall terms ops hs hrs s, rops_preb terms ops hs hrs s = true ->
  rops_pre (fun _ => True) (fun _ _ => True) terms ops hs hrs s.
Proof.
  intros terms. induction ops as [|o ops IH]; intros hs hrs s H; cbn [rops_preb rops_pre] in *; [exact I|].
  apply andb_true_iff in H. destruct H as [H1 H2]. split.
  - destruct o as [k|i j|rs]; [exact I|destruct (nth_opt hrs i), (nth_opt hrs j); exact I|].
    apply andb_true_iff in H1. destruct H1 as [A C]. split; [apply rules_belowb_sound; exact A|].
    split; [apply Forall_forall; intros r _; exact I|]. apply Forall_forall. intros r Hr. apply rule_nbb_sound.
    rewrite forallb_forall in C. exact (C r Hr).
  - destruct (rstep terms o hs hrs s) as [[[hs1 hrs1] s1]|]; [apply IH; exact H2|exact I].
Qed.


(* ====================================================================== *)
(* summary                                                                  *)
(* ======================================================================
   GoodR E s hs hts := RSt E s /\ kids_ok s /\ m4 s /\ handles covered /\ every handle denotes its term (handle_ok).
   (kids_ok, m4: the structural premises of the matcher theorems, MatchFacts.v; kept by every step: KidsFacts.v.)
   PROVED, closed under the global context unless noted:
   - GoodR_add, GoodR_union (the equation between the terms of the two handles is added), GoodR_rewrite (Section
     Rewriting: P, RP, hypothesis P_step as in RewriteSound.v), GoodR_eq_sound (eg_eq true => Deriv E 0 of the terms).
   - run_rops (history machine: RAdd / RUnion / RRew rs = one apply_rewrites), rops_pre (side conditions of a run, a Prop that
     follows the run; rops_preb evaluates it for trivial RP, UA), GoodR_run_rops, rewriting_history_sound:
       exists E, P E /\ (handles reported equal have Deriv-E-equal terms).
   - apply_rewrites_sound_closed / _ext: if every instance pair is derivable from E' >= E, the invariant holds for E'.
   - rewriting_history_derivable: NO hypothesis on the rules: E consists of asserted equations and instance pairs.
   - rewriting_history_sound_in_algebra (axiom: functional extensionality, via AlgebraFacts.Deriv_sound): if the rules
     and the asserted unions are valid in an algebra, handles reported equal have terms of equal value.
   PREMISES that remain (all explicit): rules without PSubst with unreserved slot names (rule_nb), slot names of the rules
   below the counter of the state where a rewrite step starts (rules_below), user terms rt_ok / rt_wf. *)

Check GoodR_rewrite.
Check rewriting_history_sound.
Check apply_rewrites_sound_closed.
Check rewriting_history_sound_in_algebra.
Print Assumptions kinv_apply_rewrites_sched.
Print Assumptions GoodR_add.
Print Assumptions GoodR_union.
Print Assumptions GoodR_rewrite.
Print Assumptions rewriting_history_sound.
Print Assumptions apply_rewrites_sound_closed.
Print Assumptions apply_rewrites_sound_ext.
Print Assumptions rewriting_history_sound_in_algebra.
Print Assumptions rewriting_history_derivable.
Print Assumptions rops_preb_sound.
Print Assumptions rops_preb_gen_sound.
