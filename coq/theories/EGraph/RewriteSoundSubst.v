(* EGraph/RewriteSoundSubst.v — C03: REWRITING WITH RIGHT-HAND SIDES b[x := t] (PSubst), structural part.
   pattern_subst on ARBITRARY well-formed patterns (PSubst included) keeps the state invariant RSt, and the
   invocation it returns is a handle (covers its class, no reserved / undrawn values); the appliers of
   apply_rewrites keep RSt for E' = E ++ instance pairs, where the instance of a right-hand side is the
   canonical class term `den_of` of the invocation pattern_subst returned for it.  What that term MEANS for a
   PSubst is the subject of RewriteSoundSubstSem.v.  See the summary at the end of the file. *)
From SE Require Import Slots.SlotMapFacts Group.GroupSound Lang.LangFacts Lang.ShapeFacts Lang.RenameFacts
  Base.TextFacts Parse.Parser
  EGraph.Model EGraph.ModelFacts EGraph.ModelMachine EGraph.UnionFindFacts EGraph.InvariantFacts
  EGraph.UnionInvariantFacts EGraph.AddCoversFacts EGraph.MonotoneFacts EGraph.Mod4Facts EGraph.SoundFacts EGraph.SoundUnion
  EGraph.SoundSyn EGraph.SoundNode EGraph.SoundStruct EGraph.NodePass EGraph.SoundBase EGraph.SoundAddNew EGraph.SoundVals
  EGraph.SoundAddExpr EGraph.SoundPending EGraph.SoundRebuild EGraph.SoundGuard EGraph.SoundFinal EGraph.SoundClosed
  EGraph.Rewrite EGraph.RewriteFacts EGraph.ProgressFacts EGraph.MatchDefs EGraph.MatchFacts EGraph.KidsFacts
  EGraph.MatchVals EGraph.RewriteSoundInst EGraph.RewriteSound EGraph.SynPriv.
From SE Require Import Sem.Deriv Sem.DerivFacts Sem.AlgebraFacts Sem.EgMachine Explain.CheckerFacts.
Require Import ZArith Lia ZifyBool ZifyN ZifyNat.
Ltac Zify.zify_post_hook ::= Z.div_mod_to_equations.

Local Notation ectr := Model.ctr.

(* ====================================================================== *)
(* 1. do_term_subst, unfolded                                               *)
(* ====================================================================== *)

Definition dts_kids (x t : appid) : list rterm -> nat -> M (list appid) :=
  fix go (ch : list rterm) (k : nat) {struct ch} : M (list appid) :=
    match k with
    | O => ret []
    | S k' =>
        match ch with
        | [] => fail OutOfBounds
        | c :: ch' => dom a <- do_term_subst c x t; dom r <- go ch' k'; ret (a :: r)
        end
    end.

Lemma do_term_subst_eq : forall n ch x t, do_term_subst (RT n ch) x t =
  (dom l <- dts_kids x t ch (List.length (app_occ n));
   dom app_id <- eg_add (set_apps n l);
   if appid_eqb app_id x then ret t else ret app_id).
Proof. reflexivity. Qed.

Lemma dts_kids_0 : forall x t ch, dts_kids x t ch 0 = ret [].
Proof. intros x t [|c ch]; reflexivity. Qed.
Lemma dts_kids_nil : forall x t k, dts_kids x t [] (S k) = fail OutOfBounds.
Proof. reflexivity. Qed.
Lemma dts_kids_cons : forall x t c ch k, dts_kids x t (c :: ch) (S k) =
  (dom a <- do_term_subst c x t; dom r <- dts_kids x t ch k; ret (a :: r)).
Proof. reflexivity. Qed.

(* ====================================================================== *)
(* 2. handles without a term                                                *)
(* ====================================================================== *)

Definition cvh (s : egraph) (a : appid) : Prop := covers s a /\ vnb a /\ hvb (ectr s) a.

Lemma cvh_ext0 : forall s s' a, ext0 s s' -> cvh s a -> cvh s' a.
Proof. intros s s' a X (C & V & H). split; [eapply covers_ext0; eauto|]. split; [exact V|exact (hvb_mono _ _ _ (proj1 X) H)]. Qed.

Lemma hdl_cvh : forall E s a t, hdl E s a t -> cvh s a.
Proof. intros E s a t (C & V & H & _). split; [exact C|]. split; assumption. Qed.

(* every handle denotes the canonical term of its class *)
Lemma cvh_hdl : forall E s a, RSt E s -> cvh s a -> hdl E s a (den_of s a).
Proof.
  intros E s a (I & _ & S & _ & _) (C & V & H). split; [exact C|]. split; [exact V|]. split; [exact H|].
  apply handle_den_of; assumption.
Qed.

(* J: a further state invariant (instantiated in SynPrivOps / RewriteSoundSubstTop: facts about the private binder
   names of the syntactic nodes) that is kept by insertion, by steps that keep the classes, and by ext *)
Section WithJ.
Variable J : egraph -> Prop.
Hypothesis J_pnb : forall s, J s -> syn_pnb s.
Hypothesis J_add : forall E n s a s', RSt E s -> J s -> Forall (covers s) (app_occ n) ->
  (forall x, In x (all_occ n) -> x mod 4 <> 1 \/ x < ectr s) -> eg_add n s = Ok (a, s') -> J s'.
Hypothesis J_sg : forall s s', same_graph s s' -> ectr s <= ectr s' -> J s -> J s'.
Hypothesis J_ext : forall s s', ext s s' -> J s -> J s'.

(* the result of eg_add on a node whose children are handles is a handle *)
Lemma eg_add_cvh : forall E n l s a s', RSt E s -> J s ->
  (forall x, In x (all_occ n) -> is_B x = false /\ (x mod 4 <> 1 \/ x < ectr s)) ->
  List.length l = List.length (app_occ n) -> Forall (cvh s) l ->
  eg_add (set_apps n l) s = Ok (a, s') ->
  RSt E s' /\ J s' /\ ext0 s s' /\ cvh s' a /\ nsound E s' a (set_apps n l).
Proof.
  intros E n l s a s' R HJ U Lo F H.
  assert (Cl : Forall (covers s) l) by (revert F; apply Forall_impl; intros y Hy; exact (proj1 Hy)).
  assert (Vl : Forall vnb l) by (revert F; apply Forall_impl; intros y Hy; exact (proj1 (proj2 Hy))).
  assert (Bl : Forall (hvb (ectr s)) l) by (revert F; apply Forall_impl; intros y Hy; exact (proj2 (proj2 Hy))).
  assert (Ao : app_occ (set_apps n l) = l) by (apply app_occ_set_apps; exact Lo).
  assert (Cv' : Forall (covers s) (app_occ (set_apps n l))) by (rewrite Ao; exact Cl).
  assert (Bn : forall y, In y (all_occ (set_apps n l)) -> y mod 4 <> 1 \/ y < ectr s).
  { intros y Hy. unfold all_occ, set_apps in Hy. cbn [nargs] in Hy. apply set_apps_args_all in Hy.
    destruct Hy as [Hy|(z & Hz & Hy)]; [exact (proj2 (U y Hy))|exact (proj1 (Forall_forall _ _) Bl z Hz y Hy)]. }
  assert (NBn : forall y, In y (all_occ (set_apps n l)) -> is_B y = false).
  { intros y Hy. unfold all_occ, set_apps in Hy. cbn [nargs] in Hy. apply set_apps_args_all in Hy.
    destruct Hy as [Hy|(z & Hz & Hy)]; [exact (proj1 (U y Hy))|exact (proj1 (Forall_forall _ _) Vl z Hz y Hy)]. }
  destruct (RSt_eg_add E _ s a s' R Cv' Bn H) as (R' & NS & X' & Ca).
  pose proof R as (I1 & _ & _ & _ & M1).
  split; [exact R'|]. split; [exact (J_add E _ s a s' R HJ Cv' Bn H)|]. split; [exact X'|]. split; [|exact NS]. split; [exact Ca|]. split.
  - intros v Hv. destruct (eg_add_vals_r _ s a s' I1 M1 H v Hv) as [T|T]; [exact (NBn v T)|unfold is_B; lia].
  - intros v Hv. destruct (eg_add_vals_r _ s a s' I1 M1 H v Hv) as [T|T].
    + destruct (Bn v T) as [T'|T']; [left; exact T'|right]. pose proof (proj1 X') as L. lia.
    + right. exact (proj2 T).
Qed.

(* ====================================================================== *)
(* 3. do_term_subst keeps RSt and returns a handle                          *)
(* ====================================================================== *)

Theorem dts_RSt : forall E x t T s a s', RSt E s -> J s -> rt_pre (ectr s) T -> rt_nb T -> cvh s t ->
  do_term_subst T x t s = Ok (a, s') -> RSt E s' /\ J s' /\ ext0 s s' /\ cvh s' a.
Proof.
  intros E x t. fix IH 1. intros [n ch] s a s' R HJ RP NB Ct H. rewrite do_term_subst_eq in H.
  apply rt_pre_iff in RP. destruct RP as [RPn RPc]. apply rt_nb_iff in NB. destruct NB as [NBn NBc].
  apply mbind_inv in H. destruct H as (l & s1 & H1 & H).
  assert (KK : forall k z l0 z1, RSt E z -> J z -> Forall (rt_pre (ectr z)) ch -> Forall rt_nb ch -> cvh z t ->
                 dts_kids x t ch k z = Ok (l0, z1) ->
                 RSt E z1 /\ J z1 /\ ext0 z z1 /\ Forall (cvh z1) l0 /\ List.length l0 = k).
  { clear H1 H R HJ RPc Ct s l s1 a s' RPn NBn NBc. induction ch as [|c r IHr]; intros k z l0 z1 R HJ RPc NBc Ct H1.
    - destruct k as [|k]; [|discriminate H1]. inversion H1; subst. split; [assumption|]. split; [assumption|]. split; [apply ext0_refl|]. split; [constructor|reflexivity].
    - destruct k as [|k].
      { rewrite dts_kids_0 in H1. inversion H1; subst. split; [assumption|]. split; [assumption|]. split; [apply ext0_refl|]. split; [constructor|reflexivity]. }
      rewrite dts_kids_cons in H1.
      apply mbind_inv in H1. destruct H1 as (a0 & z2 & Ha & H1).
      apply mbind_inv in H1. destruct H1 as (r0 & z3 & Hr & H1). inversion H1; subst l0 z3; clear H1.
      destruct (IH c z a0 z2 R HJ (Forall_inv RPc) (Forall_inv NBc) Ct Ha) as (R2 & J2 & E2 & A0).
      destruct (IHr k z2 r0 z1 R2 J2) as (R3 & J3 & E3 & R0 & L0); [|exact (Forall_inv_tail NBc)| |exact Hr|].
      + apply Forall_inv_tail in RPc. revert RPc. apply Forall_impl. intros c0. apply rt_pre_mono. exact (proj1 E2).
      + eapply cvh_ext0; eauto.
      + split; [exact R3|]. split; [exact J3|]. split; [eapply ext0_trans; eauto|]. split; [|cbn [List.length]; lia].
        constructor; [eapply cvh_ext0; eauto|exact R0]. }
  destruct (KK _ _ _ _ R HJ RPc NBc Ct H1) as (R1 & J1 & E1 & L1 & Len).
  apply mbind_inv in H. destruct H as (app_id & s2 & H2 & H).
  destruct (eg_add_cvh E n l s1 app_id s2 R1 J1) as (R2 & J2 & E2 & C2 & _); [|exact Len|exact L1|exact H2|].
  { intros y Hy. split; [exact (NBn y Hy)|]. destruct (RPn y Hy) as [A|A]; [right; pose proof (proj1 E1); lia|left; exact A]. }
  pose proof (ext0_trans _ _ _ E1 E2) as E12.
  destruct (appid_eqb app_id x); inversion H; subst a s'; (split; [exact R2|]); (split; [exact J2|]); (split; [exact E12|]).
  - eapply cvh_ext0; eauto.
  - exact C2.
Qed.

(* ====================================================================== *)
(* 4. syn_expr_subst, pattern_subst on arbitrary patterns                   *)
(* ====================================================================== *)

Lemma ext0_of_classes : forall s s', classes s' = classes s -> ectr s <= ectr s' -> ext0 s s'.
Proof.
  intros s s' Gc Le. split; [exact Le|]. intros i c Hc. exists c. rewrite (get_class_classes s s' i Gc).
  split; [exact Hc|]. split; [apply incl_refl|reflexivity].
Qed.

Lemma synify_RSt : forall E a s a' s', RSt E s -> synify_app_id a s = Ok (a', s') ->
  RSt E s' /\ same_graph s s' /\ ectr s <= ectr s' /\ ext0 s s'.
Proof.
  intros E a s a' s' R H. pose proof R as (_ & _ & _ & _ & Cm).
  destruct (synify_app_id_vals a s a' s' H Cm) as (Cm' & Le & _).
  pose proof (sg_synify_app_id a s a' s' H) as G.
  split; [exact (RSt_same_graph E s s' R G Le Cm')|]. split; [exact G|]. split; [exact Le|].
  destruct G as (_ & Gc & _). exact (ext0_of_classes s s' Gc Le).
Qed.

(* the extracted term of the synified invocation: its slots are old enough, and none is reserved *)
Lemma syn_extract_ok : forall E b s sb' s1 term, RSt E s -> J s -> cvh s b ->
  synify_app_id b s = Ok (sb', s1) -> get_syn_expr (S (List.length (classes s1))) s1 sb' = Ok term ->
  rt_pre (ectr s1) term /\ rt_nb term.
Proof.
  intros E b s sb' s1 term R HJ (Cb & Vb & Hb) H1 Ht.
  destruct (synify_RSt E b s sb' s1 R H1) as (R1 & G & Le & X1). pose proof R as (_ & _ & _ & _ & Cm).
  pose proof R1 as (I1 & W1 & _).
  assert (SB : syn_below s1) by exact (proj2 (proj1 I1)).
  assert (V : vpre_in (ectr s) (am b)) by (intros v Hv; destruct (Hb v Hv) as [T|T]; [right; exact T|left; exact T]).
  pose proof (synify_app_vpre_in _ _ _ _ V H1) as Vsb.
  split; [exact (get_syn_pre _ _ _ _ SB Vsb Ht)|].
  assert (Pn1 : syn_pnb s1) by (apply J_pnb; exact (J_sg s s1 G Le HJ)).
  destruct (synify_app_id_vals b s sb' s1 H1 Cm) as (_ & _ & VE).
  destruct (synify_app_id_total b s sb' s1 H1) as (Ea & c & Hc & Tot).
  apply (get_syn_expr_nb (S (List.length (classes s1))) s1 sb' term Pn1 W1); [| |exact Ht].
  - intros v Hv. destruct (VE v Hv) as [T|[T _]]; [exact (Vb v T)|apply mod1_not_B; exact T].
  - intros y Hy. apply Tot. unfold SS in Hy. rewrite Ea in Hy. destruct G as (_ & Gc & _).
    rewrite (get_class_classes s s1 _ Gc), Hc in Hy. exact Hy.
Qed.

Theorem syn_expr_subst_RSt : forall E b x t s a s', RSt E s -> J s -> cvh s b -> cvh s t ->
  syn_expr_subst b x t s = Ok (a, s') -> RSt E s' /\ J s' /\ ext0 s s' /\ cvh s' a.
Proof.
  intros E b x t s a s' R HJ Cb Ct H. unfold syn_expr_subst in H.
  apply mbind_inv in H. destruct H as (sb' & s1 & H1 & H).
  destruct (synify_RSt E b s sb' s1 R H1) as (R1 & G & Le & X1).
  apply bind_reads_inv in H. destruct H as (term & Ht & H).
  destruct (syn_extract_ok E b s sb' s1 term R HJ Cb H1 Ht) as [RP NB].
  destruct (dts_RSt E x t term s1 a s' R1 (J_sg s s1 G Le HJ) RP NB (cvh_ext0 _ _ _ X1 Ct) H) as (R2 & J2 & X2 & C2).
  split; [exact R2|]. split; [exact J2|]. split; [eapply ext0_trans; eauto|exact C2].
Qed.

(* patterns: well-formed (arity), slot names not reserved and not fresh slots still to be drawn; PSubst allowed *)
Definition pat_okX (c : N) (p : pattern) : Prop :=
  wf_pat p /\ forall x, In x (pslots p) -> is_B x = false /\ (x mod 4 <> 1 \/ x < c).

Lemma pat_okX_mono : forall c c' p, c <= c' -> pat_okX c p -> pat_okX c' p.
Proof.
  intros c c' p L (A & C). split; [exact A|]. intros x Hx. destruct (C x Hx) as [C1 [C2|C2]].
  - split; [exact C1|left; exact C2].
  - split; [exact C1|right; lia].
Qed.

Lemma pat_ok_okX : forall c p, pat_ok c p -> pat_okX c p.
Proof. intros c p (A & _ & C). split; assumption. Qed.

Lemma pat_okX_node : forall c n ch, pat_okX c (PNode n ch) ->
  (forall x, In x (all_occ n) -> is_B x = false /\ (x mod 4 <> 1 \/ x < c)) /\
  List.length ch = List.length (app_occ n) /\ Forall (pat_okX c) ch.
Proof.
  intros c n ch (A & C). destruct (wf_pat_node n ch A) as [L Fw].
  rewrite pslots_node in C. split; [intros x Hx; apply C; apply in_or_app; left; exact Hx|]. split; [exact L|].
  apply Forall_forall. intros p Hp. split; [exact (proj1 (Forall_forall _ _) Fw p Hp)|].
  intros x Hx. apply C. apply in_or_app. right. apply in_flat_map. exists p. split; assumption.
Qed.

Lemma pat_okX_subst : forall c b x t, pat_okX c (PSubst b x t) -> pat_okX c b /\ pat_okX c x /\ pat_okX c t.
Proof.
  intros c b x t (Wp & C). unfold wf_pat in Wp. cbn [Parse.ArityFacts.arity_okb] in Wp.
  apply andb_true_iff in Wp. destruct Wp as [Wp Wt]. apply andb_true_iff in Wp. destruct Wp as [Wb Wx].
  cbn [pslots] in C.
  split; [split; [exact Wb|intros y Hy; apply C; apply in_or_app; left; exact Hy]|].
  split; [split; [exact Wx|intros y Hy; apply C; apply in_or_app; right; apply in_or_app; left; exact Hy]|].
  split; [exact Wt|intros y Hy; apply C; apply in_or_app; right; apply in_or_app; right; exact Hy].
Qed.

Definition sub_cvh (s : egraph) (sb : subst) : Prop := forall v a, sub_get sb v = Some a -> cvh s a.

Lemma sub_cvh_ext0 : forall s s' sb, ext0 s s' -> sub_cvh s sb -> sub_cvh s' sb.
Proof. intros s s' sb X H v a G. eapply cvh_ext0; [exact X|]. eapply H; eauto. Qed.

Lemma sub_den_cvh : forall E s sb den, sub_den E s sb den -> sub_cvh s sb.
Proof. intros E s sb den H v a G. eapply hdl_cvh. eapply H; eauto. Qed.

Section PatternSubstX.
  Variables (E : equations) (sb : subst).

  Definition psx_spec (p : pattern) : Prop :=
    forall s a s', RSt E s -> J s -> pat_okX (ectr s) p -> sub_cvh s sb ->
      pattern_subst p sb s = Ok (a, s') -> RSt E s' /\ J s' /\ ext0 s s' /\ cvh s' a.

  Lemma psx_kids : forall ch, Forall psx_spec ch ->
    forall k s l s1, RSt E s -> J s -> Forall (pat_okX (ectr s)) ch -> sub_cvh s sb -> List.length ch = k ->
    psubst_kids sb ch k s = Ok (l, s1) ->
    RSt E s1 /\ J s1 /\ ext0 s s1 /\ Forall (cvh s1) l /\ List.length l = k.
  Proof.
    intros ch IH. induction IH as [|c r Hc _ IHr]; intros k s l s1 R HJ PO SD Lk H.
    - cbn [List.length] in Lk. subst k. rewrite psubst_kids_nil in H. inversion H; subst l s1.
      split; [exact R|]. split; [exact HJ|]. split; [apply ext0_refl|]. split; [constructor|reflexivity].
    - cbn [List.length] in Lk. subst k. rewrite psubst_kids_cons in H.
      apply mbind_inv in H. destruct H as (a0 & s2 & Ha & H).
      apply mbind_inv in H. destruct H as (r0 & s3 & Hr & H). inversion H; subst l s3; clear H.
      destruct (Hc s a0 s2 R HJ (Forall_inv PO) SD Ha) as (R2 & J2 & X2 & O2).
      destruct (IHr (List.length r) s2 r0 s1 R2 J2) as (R1 & J1 & X1 & F1 & L1); [| |reflexivity|exact Hr|].
      { pose proof (Forall_inv_tail PO) as PO'. revert PO'. apply Forall_impl. intros p. apply pat_okX_mono. exact (proj1 X2). }
      { eapply sub_cvh_ext0; eauto. }
      split; [exact R1|]. split; [exact J1|]. split; [eapply ext0_trans; eauto|]. split; [|cbn [List.length]; lia].
      constructor; [eapply cvh_ext0; eauto|exact F1].
  Qed.

  (* pattern_subst on any well-formed pattern keeps the invariants and returns a handle *)
  Theorem pattern_subst_RSt : forall p, psx_spec p.
  Proof.
    induction p as [v|n ch IH|b x t IHb IHx IHt] using pattern_ind2; intros s a s' R HJ PO SD H.
    - cbn [pattern_subst] in H. destruct (sub_get sb v) as [a0|] eqn:G; [|discriminate]. inversion H; subst a0 s'.
      split; [exact R|]. split; [exact HJ|]. split; [apply ext0_refl|exact (SD v a G)].
    - rewrite pattern_subst_node in H. apply mbind_inv in H. destruct H as (l & s1 & H1 & H).
      destruct (pat_okX_node _ _ _ PO) as (U & Lc & POc).
      destruct (psx_kids ch IH _ s l s1 R HJ POc SD Lc H1) as (R1 & J1 & X1 & F1 & L1).
      destruct (eg_add_cvh E n l s1 a s' R1 J1) as (R2 & J2 & X2 & C2 & _); [|congruence|exact F1|exact H|].
      { intros y Hy. destruct (U y Hy) as [U1 [U2|U2]]; (split; [exact U1|]); [left; exact U2|right; pose proof (proj1 X1); lia]. }
      split; [exact R2|]. split; [exact J2|]. split; [eapply ext0_trans; eauto|exact C2].
    - destruct (pat_okX_subst _ _ _ _ PO) as (Pb & Px & Pt). cbn [pattern_subst] in H.
      apply mbind_inv in H. destruct H as (b' & s1 & H1 & H).
      destruct (IHb s b' s1 R HJ Pb SD H1) as (R1 & J1 & X1 & Cb).
      apply mbind_inv in H. destruct H as (x' & s2 & H2 & H).
      destruct (IHx s1 x' s2 R1 J1 (pat_okX_mono _ _ _ (proj1 X1) Px) (sub_cvh_ext0 _ _ _ X1 SD) H2) as (R2 & J2 & X2 & Cx).
      apply mbind_inv in H. destruct H as (t' & s3 & H3 & H).
      pose proof (ext0_trans _ _ _ X1 X2) as X12.
      destruct (IHt s2 t' s3 R2 J2 (pat_okX_mono _ _ _ (proj1 X12) Pt) (sub_cvh_ext0 _ _ _ X12 SD) H3) as (R3 & J3 & X3 & Ct).
      destruct (syn_expr_subst_RSt E b' x' t' s3 a s' R3 J3 (cvh_ext0 _ _ _ (ext0_trans _ _ _ X2 X3) Cb) Ct H) as (R4 & J4 & X4 & Ca).
      split; [exact R4|]. split; [exact J4|]. split; [|exact Ca].
      eapply ext0_trans; [exact X12|]. eapply ext0_trans; eauto.
  Qed.
End PatternSubstX.

(* ====================================================================== *)
(* 5. the applier phase with right-hand sides that may contain PSubst       *)
(* ====================================================================== *)

(* rules: the left-hand side as in RewriteSound.v (the matcher panics on PSubst); the right-hand side any
   well-formed pattern without reserved slot names *)
Definition pat_nbX (p : pattern) : Prop := wf_pat p /\ forall x, In x (pslots p) -> is_B x = false.
Definition rule_nbX (r : rule) : Prop := pat_nb (r_lhs r) /\ pat_nbX (r_rhs r).

Lemma rule_nb_nbX : forall r, rule_nb r -> rule_nbX r.
Proof. intros r [A (B1 & _ & B2)]. split; [exact A|split; assumption]. Qed.

Lemma pat_okX_of : forall c p, pat_nbX p -> pat_below c p -> pat_okX c p.
Proof. intros c p (A & C) PB. split; [exact A|]. intros x Hx. split; [exact (C x Hx)|right; exact (PB x Hx)]. Qed.

Lemma union_instantiations_boundX : forall r sb s b s', rule_nbX r ->
  union_instantiations (r_lhs r) (r_rhs r) sb s = Ok (b, s') -> sub_bound r sb.
Proof.
  intros r sb s b s' [(Wl & _) (Wr & _)] H v Hv. unfold union_instantiations in H.
  apply mbind_inv in H. destruct H as (x & s1 & H1 & H). apply mbind_inv in H. destruct H as (y & s2 & H2 & _).
  apply in_app_or in Hv. destruct Hv as [Hv|Hv];
    [exact (pattern_subst_ok_bound sb _ Wl s x s1 H1 v Hv)|exact (pattern_subst_ok_bound sb _ Wr s1 y s2 H2 v Hv)].
Qed.

(* one union_instantiations: the left instance is pat_t den lhs; the right instance is the class term of the
   invocation pattern_subst returned for the right-hand side *)
Theorem union_instantiations_soundX : forall E lhs rhs sb s b s' den, RSt E s -> J s ->
  pat_ok (ectr s) lhs -> pat_okX (ectr s) rhs -> sub_den E s sb den ->
  union_instantiations lhs rhs sb s = Ok (b, s') ->
  exists x s1 y s2, pattern_subst lhs sb s = Ok (x, s1) /\ pattern_subst rhs sb s1 = Ok (y, s2) /\
    RSt E s1 /\ J s1 /\ ext0 s s1 /\
    RSt (E ++ [(pat_t den lhs, den_of s2 y)]) s' /\ J s' /\ ext0 s s'.
Proof.
  intros E lhs rhs sb s b s' den R HJ Pl Pr SD H. unfold union_instantiations in H.
  apply mbind_inv in H. destruct H as (x & s1 & H1 & H).
  destruct (pattern_subst_denotes E sb den lhs s x s1 R Pl SD H1) as (R1 & X1 & Ox).
  destruct (pattern_subst_RSt E sb lhs s x s1 R HJ (pat_ok_okX _ _ Pl) (sub_den_cvh _ _ _ _ SD) H1) as (_ & J1 & _ & _).
  apply mbind_inv in H. destruct H as (y & s2 & H2 & H).
  destruct (pattern_subst_RSt E sb rhs s1 y s2 R1 J1 (pat_okX_mono _ _ _ (proj1 X1) Pr)
              (sub_cvh_ext0 _ _ _ X1 (sub_den_cvh _ _ _ _ SD)) H2) as (R2 & J2 & X2 & Cy).
  change (eg_union x y s2 = Ok (b, s')) in H.
  destruct (hdl_ext0 _ _ _ _ _ X2 Ox) as (Cx & _ & _ & Hx). destruct (cvh_hdl E s2 y R2 Cy) as (Cy' & _ & _ & Hy).
  destruct (RSt_eg_union E s2 x y _ _ b s' R2 Cx Cy' Hx Hy H) as [R' X'].
  exists x, s1, y, s2. split; [exact H1|]. split; [exact H2|]. split; [exact R1|]. split; [exact J1|]. split; [exact X1|].
  split; [exact R'|]. split; [exact (J_ext s2 s' X' J2)|].
  eapply ext0_trans; [exact X1|]. eapply ext0_trans; [exact X2|apply ext_ext0; exact X'].
Qed.

Section AppliersX.
  Variable P : equations -> Prop.
  Variable RP : rule -> Prop.
  (* SV: what is known of a match beyond sub3 (static: e.g. its values are lhs slots or fresh slots of the window) *)
  Variable SV : rule -> subst -> Prop.
  (* the instance pair may be added: the right instance is given by the RUN of pattern_subst on the right-hand side *)
  Hypothesis P_stepX : forall E r sb s den y s2, RP r -> P E -> RSt E s -> J s -> sub_den E s sb den ->
    SV r sb -> sub_bound r sb -> cond_holds (r_cond r) sb = Ok true -> pat_okX (ectr s) (r_rhs r) ->
    pattern_subst (r_rhs r) sb s = Ok (y, s2) ->
    P (E ++ [(pat_t den (r_lhs r), den_of s2 y)]).

  Definition postX (E : equations) (s : egraph) (s' : egraph) : Prop :=
    exists E', (forall e, In e E -> In e E') /\ P E' /\ RSt E' s' /\ J s' /\ ext0 s s'.

  Lemma postX_refl : forall E s, P E -> RSt E s -> J s -> postX E s s.
  Proof. intros E s HP R HJ. exists E. split; [auto|]. split; [exact HP|]. split; [exact R|]. split; [exact HJ|apply ext0_refl]. Qed.

  Lemma apply_substs_cond_soundX : forall r, RP r -> rule_nbX r -> forall substs E s x s', P E -> RSt E s -> J s ->
    pat_below (ectr s) (r_lhs r) -> pat_below (ectr s) (r_rhs r) -> Forall (sub3 s) substs ->
    Forall (SV r) substs ->
    apply_substs_cond r substs s = Ok (x, s') -> postX E s s'.
  Proof.
    intros r Hr [Nl Nr]. unfold apply_substs_cond.
    induction substs as [|sb t IH]; intros E s x s' HP R HJ Bl Br SC SVs H; cbn [iterM] in H.
    - inversion H; subst. apply postX_refl; assumption.
    - apply mbind_inv in H. destruct H as (u & s1 & H1 & H).
      assert (Q1 : postX E s s1).
      { apply mbind_inv in H1. destruct H1 as (c & s0 & Hc & H1). apply lift_inv in Hc. destruct Hc as [Hc ->].
        destruct c; [|inversion H1; subst; apply postX_refl; assumption].
        apply mbind_inv in H1. destruct H1 as (b & s2 & H2 & H1). inversion H1; subst u s2; clear H1.
        pose proof (sub_den_sb E s sb R (Forall_inv SC)) as SD.
        destruct (union_instantiations_soundX E _ _ sb s b s1 _ R HJ (pat_ok_of _ _ Nl Bl) (pat_okX_of _ _ Nr Br) SD H2)
          as (x0 & sa & y & sb2 & Ha & Hb & Ra & Ja & Xa & R1 & J1 & X1).
        exists (E ++ [(pat_t (den_sb s sb) (r_lhs r), den_of sb2 y)]).
        split; [intros e He; apply in_or_app; left; exact He|]. split; [|split; [exact R1|split; assumption]].
        apply (P_stepX E r sb sa (den_sb s sb) y sb2 Hr HP Ra Ja (sub_den_ext0 _ _ _ _ _ Xa SD) (Forall_inv SVs)
                 (union_instantiations_boundX r sb s b s1 (conj Nl Nr) H2) Hc); [|exact Hb].
        apply (pat_okX_mono (ectr s)); [exact (proj1 Xa)|exact (pat_okX_of _ _ Nr Br)]. }
      destruct Q1 as (E1 & I1 & P1 & R1 & J1 & X1).
      destruct (IH E1 s1 x s' P1 R1 J1 (pat_below_mono _ _ _ (proj1 X1) Bl) (pat_below_mono _ _ _ (proj1 X1) Br)) as (E2 & I2 & P2 & R2 & J2 & X2);
        [|exact (Forall_inv_tail SVs)|exact H|].
      { apply Forall_inv_tail in SC. revert SC. apply Forall_impl. intros sb'. apply sub3_ext0. exact X1. }
      exists E2. split; [auto|]. split; [exact P2|]. split; [exact R2|]. split; [exact J2|eapply ext0_trans; eauto].
  Qed.

  Lemma appliers_soundX : forall (l : list (rule * list subst)) E s x s', P E -> RSt E s -> J s ->
    Forall (fun rt : rule * list subst => RP (fst rt) /\ rule_nbX (fst rt) /\
              pat_below (ectr s) (r_lhs (fst rt)) /\ pat_below (ectr s) (r_rhs (fst rt)) /\ Forall (sub3 s) (snd rt) /\
              Forall (SV (fst rt)) (snd rt)) l ->
    iterM (fun rt : rule * list subst => apply_substs_cond (fst rt) (snd rt)) l s = Ok (x, s') -> postX E s s'.
  Proof.
    induction l as [|rt t IH]; intros E s x s' HP R HJ F H; cbn [iterM] in H.
    - inversion H; subst. apply postX_refl; assumption.
    - apply mbind_inv in H. destruct H as (u & s1 & H1 & H).
      destruct (Forall_inv F) as (A1 & A2 & A3 & A4 & A5 & A6).
      destruct (apply_substs_cond_soundX (fst rt) A1 A2 (snd rt) E s u s1 HP R HJ A3 A4 A5 A6 H1) as (E1 & I1 & P1 & R1 & J1 & X1).
      destruct (IH E1 s1 x s' P1 R1 J1) as (E2 & I2 & P2 & R2 & J2 & X2); [|exact H|].
      { apply Forall_inv_tail in F. revert F. apply Forall_impl. intros rt' (B1 & B2 & B3 & B4 & B5 & B6).
        split; [exact B1|]. split; [exact B2|]. split; [exact (pat_below_mono _ _ _ (proj1 X1) B3)|].
        split; [exact (pat_below_mono _ _ _ (proj1 X1) B4)|]. split; [|exact B6]. revert B5. apply Forall_impl. intros sb'. apply sub3_ext0. exact X1. }
      exists E2. split; [auto|]. split; [exact P2|]. split; [exact R2|]. split; [exact J2|eapply ext0_trans; eauto].
  Qed.
End AppliersX.
End WithJ.

Check pattern_subst_RSt.
Check union_instantiations_soundX.
Check appliers_soundX.
Print Assumptions dts_RSt.
Print Assumptions pattern_subst_RSt.
Print Assumptions union_instantiations_soundX.
Print Assumptions appliers_soundX.
