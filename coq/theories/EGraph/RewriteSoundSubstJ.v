(* EGraph/RewriteSoundSubstJ.v — C03, b[x := t]: RewriteSoundSubst / RewriteSoundSubstRel / RewriteSoundSubstSem /
   RewriteSoundSubstTop RE-PARAMETERISED over a state invariant J that is
     - kept by eg_add only for nodes satisfying a node predicate NP at insertion sites described by ins_pre (J_add),
     - kept by eg_union of two handles (J_union) instead of by arbitrary ext steps,
     - strong enough to give NP for every node of the term extracted by syn_expr_subst (J_rt),
   and with a hit_keep_add hypothesis that may use J, NP and ins_pre.  Patterns carry pat_all NP, extracted terms
   rt_all NP.  The proofs are those of the four files, patched. *)
From SE Require Import Slots.SlotMapFacts Group.GroupSound Lang.LangFacts Lang.ShapeFacts Lang.RenameFacts
  Base.TextFacts Parse.Parser
  EGraph.Model EGraph.ModelFacts EGraph.ModelMachine EGraph.UnionFindFacts EGraph.InvariantFacts
  EGraph.UnionInvariantFacts EGraph.AddCoversFacts EGraph.MonotoneFacts EGraph.Mod4Facts EGraph.SoundFacts EGraph.SoundUnion
  EGraph.SoundSyn EGraph.SoundNode EGraph.SoundStruct EGraph.NodePass EGraph.SoundBase EGraph.SoundAddNew EGraph.SoundVals
  EGraph.SoundAddExpr EGraph.SoundPending EGraph.SoundRebuild EGraph.SoundGuard EGraph.SoundFinal EGraph.SoundClosed
  EGraph.Rewrite EGraph.RewriteFacts EGraph.ProgressFacts EGraph.MatchDefs EGraph.MatchFacts EGraph.KidsFacts
  EGraph.MatchVals EGraph.RewriteSoundInst EGraph.RewriteSound EGraph.SynPriv EGraph.SynPrivOps EGraph.MatchValsWin
  EGraph.RewriteSoundSubst EGraph.RewriteSoundSubstTop EGraph.SubstDefs EGraph.LeafHit EGraph.RewriteSoundSubstRel
  EGraph.ExtractSound EGraph.RewriteSoundSubstSem EGraph.SubstIface.
From SE Require EGraph.HashconsAbs.
From SE Require Import Sem.Deriv Sem.DerivFacts Sem.Algebra Sem.AlgebraFacts Sem.EgMachine Explain.CheckerFacts Sem.FpRewrite Sem.SubstSem.
Require Import ZArith Lia ZifyBool ZifyN ZifyNat.
Ltac Zify.zify_post_hook ::= Z.div_mod_to_equations.

Local Notation ectr := Model.ctr.
Local Notation aupd := Sem.Algebra.upd.

(* ====================================================================== *)
(* 0. node predicates on extracted terms and on patterns                    *)
(* ====================================================================== *)

Fixpoint rt_all (Q : node -> Prop) (t : rterm) : Prop :=
  match t with
  | RT n ch => Q n /\
               (fix go (l : list rterm) : Prop := match l with [] => True | c :: r => rt_all Q c /\ go r end) ch
  end.

Lemma rt_all_iff : forall Q n ch, rt_all Q (RT n ch) <-> Q n /\ Forall (rt_all Q) ch.
Proof.
  intros Q n ch. cbn [rt_all]. split; intros [A C]; (split; [exact A|]); clear A.
  - induction ch as [|c r IH]; constructor; [apply C|apply IH; apply C].
  - induction C as [|c r Hc C IH]; [exact I|split; assumption].
Qed.

Fixpoint pat_all (Q : node -> Prop) (p : pattern) : Prop :=
  match p with
  | PVarP _ => True
  | PNode n ch => Q n /\
                  (fix go (l : list pattern) : Prop := match l with [] => True | c :: r => pat_all Q c /\ go r end) ch
  | PSubst b x t => pat_all Q b /\ pat_all Q x /\ pat_all Q t
  end.

Lemma pat_all_node_iff : forall Q n ch, pat_all Q (PNode n ch) <-> Q n /\ Forall (pat_all Q) ch.
Proof.
  intros Q n ch. cbn [pat_all]. split; intros [A C]; (split; [exact A|]); clear A.
  - induction ch as [|c r IH]; constructor; [apply C|apply IH; apply C].
  - induction C as [|c r Hc C IH]; [exact I|split; assumption].
Qed.

Lemma pat_all_subst_iff : forall Q b x t, pat_all Q (PSubst b x t) <-> pat_all Q b /\ pat_all Q x /\ pat_all Q t.
Proof. intros Q b x t. cbn [pat_all]. tauto. Qed.

Lemma pat_all_var : forall Q v, pat_all Q (PVarP v).
Proof. intros Q v. exact I. Qed.

Section WithJ2.
Variable J : egraph -> Prop.
Variable NP : node -> Prop.
Hypothesis NP_nodup : forall n, NP n -> NoDup (binders n).
Hypothesis J_pnb : forall s, J s -> syn_pnb s.
Hypothesis J_add : forall E n l s a s', RSt E s -> J s -> NP n -> ins_pre s n l ->
  eg_add (set_apps n l) s = Ok (a, s') -> J s'.
Hypothesis J_sg : forall s s', same_graph s s' -> ectr s <= ectr s' -> ectr s' mod 4 = 1 -> J s -> J s'.
Hypothesis J_union : forall E s l r tl tr b s', RSt E s -> J s -> covers s l -> covers s r ->
  handle_ok E s l tl -> handle_ok E s r tr -> eg_union l r s = Ok (b, s') -> J s'.
Hypothesis J_rt : forall E b s sb' s1 T, RSt E s -> J s -> cvh s b -> synify_app_id b s = Ok (sb', s1) ->
  get_syn_expr (S (List.length (classes s1))) s1 sb' = Ok T -> rt_all NP T.

Lemma J_sgR : forall E s s', RSt E s' -> same_graph s s' -> ectr s <= ectr s' -> J s -> J s'.
Proof. intros E s s' (_ & _ & _ & _ & Cm) G L HJ. exact (J_sg s s' G L Cm HJ). Qed.

(* the result of eg_add on an NP node whose children are handles is a handle *)
Lemma eg_add_cvhJ : forall E n l s a s', RSt E s -> J s -> NP n ->
  (forall x, In x (all_occ n) -> is_B x = false /\ (x mod 4 <> 1 \/ x < ectr s)) ->
  List.length l = List.length (app_occ n) -> Forall (cvh s) l ->
  eg_add (set_apps n l) s = Ok (a, s') ->
  RSt E s' /\ J s' /\ ext0 s s' /\ cvh s' a /\ nsound E s' a (set_apps n l).
Proof.
  intros E n l s a s' R HJ HN U Lo F H.
  assert (IP : ins_pre s n l).
  { split; [exact U|]. split; [exact Lo|]. split; [exact F|exact (NP_nodup n HN)]. }
  assert (Cl : Forall (covers s) l) by (revert F; apply Forall_impl; intros y Hy; exact (proj1 Hy)).
  assert (Vl : Forall vnb l) by (revert F; apply Forall_impl; intros y Hy; exact (proj1 (proj2 Hy))).
  assert (Bl : Forall (hvb (ectr s)) l) by (revert F; apply Forall_impl; intros y Hy; exact (proj2 (proj2 Hy))).
  assert (Ao : app_occ (set_apps n l) = l) by (apply app_occ_set_apps; exact Lo).
  assert (Cv' : Forall (covers s) (app_occ (set_apps n l))) by (rewrite Ao; exact Cl).
  assert (Bn : forall y, In y (all_occ (set_apps n l)) -> y mod 4 <> 1 \/ y < ectr s).
  { intros y Hy. unfold all_occ, set_apps in Hy. cbn [nargs] in Hy. apply set_apps_args_all in Hy.
    destruct Hy as [Hy|(z & Hz & Hy)]; [exact (proj2 (U y Hy))|exact (proj1 (Forall_forall _ _) Bl z Hz y Hy)]. }
  assert (NBn : forall y, In y (all_occ (set_apps n l)) -> is_B y = false).
  { intros y Hy. unfold all_occ, set_apps in Hy. cbn [nargs] in Hy. apply set_apps_args_all in Hy.
    destruct Hy as [Hy|(z & Hz & Hy)]; [exact (proj1 (U y Hy))|exact (proj1 (Forall_forall _ _) Vl z Hz y Hy)]. }
  destruct (RSt_eg_add E _ s a s' R Cv' Bn H) as (R' & NS & X' & Ca).
  pose proof R as (I1 & _ & _ & _ & M1).
  split; [exact R'|]. split; [exact (J_add E n l s a s' R HJ HN IP H)|]. split; [exact X'|]. split; [|exact NS]. split; [exact Ca|]. split.
  - intros v Hv. destruct (eg_add_vals_r _ s a s' I1 M1 H v Hv) as [T|T]; [exact (NBn v T)|unfold is_B; lia].
  - intros v Hv. destruct (eg_add_vals_r _ s a s' I1 M1 H v Hv) as [T|T].
    + destruct (Bn v T) as [T'|T']; [left; exact T'|right]. pose proof (proj1 X') as L. lia.
    + right. exact (proj2 T).
Qed.

(* ====================================================================== *)
(* 3. do_term_subst keeps RSt and returns a handle                          *)
(* ====================================================================== *)

Theorem dts_RStJ : forall E x t T s a s', RSt E s -> J s -> rt_pre (ectr s) T -> rt_nb T -> rt_all NP T -> cvh s t ->
  do_term_subst T x t s = Ok (a, s') -> RSt E s' /\ J s' /\ ext0 s s' /\ cvh s' a.
Proof.
  intros E x t. fix IH 1. intros [n ch] s a s' R HJ RP NB AL Ct H. rewrite do_term_subst_eq in H.
  apply rt_pre_iff in RP. destruct RP as [RPn RPc]. apply rt_nb_iff in NB. destruct NB as [NBn NBc].
  apply rt_all_iff in AL. destruct AL as [ALn ALc].
  apply mbind_inv in H. destruct H as (l & s1 & H1 & H).
  assert (KK : forall k z l0 z1, RSt E z -> J z -> Forall (rt_pre (ectr z)) ch -> Forall rt_nb ch ->
                 Forall (rt_all NP) ch -> cvh z t ->
                 dts_kids x t ch k z = Ok (l0, z1) ->
                 RSt E z1 /\ J z1 /\ ext0 z z1 /\ Forall (cvh z1) l0 /\ List.length l0 = k).
  { clear H1 H R HJ RPc Ct s l s1 a s' RPn NBn NBc ALn ALc. induction ch as [|c r IHr]; intros k z l0 z1 R HJ RPc NBc ALc Ct H1.
    - destruct k as [|k]; [|discriminate H1]. inversion H1; subst. split; [assumption|]. split; [assumption|]. split; [apply ext0_refl|]. split; [constructor|reflexivity].
    - destruct k as [|k].
      { rewrite dts_kids_0 in H1. inversion H1; subst. split; [assumption|]. split; [assumption|]. split; [apply ext0_refl|]. split; [constructor|reflexivity]. }
      rewrite dts_kids_cons in H1.
      apply mbind_inv in H1. destruct H1 as (a0 & z2 & Ha & H1).
      apply mbind_inv in H1. destruct H1 as (r0 & z3 & Hr & H1). inversion H1; subst l0 z3; clear H1.
      destruct (IH c z a0 z2 R HJ (Forall_inv RPc) (Forall_inv NBc) (Forall_inv ALc) Ct Ha) as (R2 & J2 & E2 & A0).
      destruct (IHr k z2 r0 z1 R2 J2) as (R3 & J3 & E3 & R0 & L0); [|exact (Forall_inv_tail NBc)|exact (Forall_inv_tail ALc)| |exact Hr|].
      + apply Forall_inv_tail in RPc. revert RPc. apply Forall_impl. intros c0. apply rt_pre_mono. exact (proj1 E2).
      + eapply cvh_ext0; eauto.
      + split; [exact R3|]. split; [exact J3|]. split; [eapply ext0_trans; eauto|]. split; [|cbn [List.length]; lia].
        constructor; [eapply cvh_ext0; eauto|exact R0]. }
  destruct (KK _ _ _ _ R HJ RPc NBc ALc Ct H1) as (R1 & J1 & E1 & L1 & Len).
  apply mbind_inv in H. destruct H as (app_id & s2 & H2 & H).
  destruct (eg_add_cvhJ E n l s1 app_id s2 R1 J1 ALn) as (R2 & J2 & E2 & C2 & _); [|exact Len|exact L1|exact H2|].
  { intros y Hy. split; [exact (NBn y Hy)|]. destruct (RPn y Hy) as [A|A]; [right; pose proof (proj1 E1); lia|left; exact A]. }
  pose proof (ext0_trans _ _ _ E1 E2) as E12.
  destruct (appid_eqb app_id x); inversion H; subst a s'; (split; [exact R2|]); (split; [exact J2|]); (split; [exact E12|]).
  - eapply cvh_ext0; eauto.
  - exact C2.
Qed.

(* ====================================================================== *)
(* 4. syn_expr_subst, pattern_subst on arbitrary patterns                   *)
(* ====================================================================== *)

(* the extracted term of the synified invocation: its slots are old enough, and none is reserved *)
Lemma syn_extract_okJ : forall E b s sb' s1 term, RSt E s -> J s -> cvh s b ->
  synify_app_id b s = Ok (sb', s1) -> get_syn_expr (S (List.length (classes s1))) s1 sb' = Ok term ->
  rt_pre (ectr s1) term /\ rt_nb term.
Proof.
  intros E b s sb' s1 term R HJ (Cb & Vb & Hb) H1 Ht.
  destruct (synify_RSt E b s sb' s1 R H1) as (R1 & G & Le & X1). pose proof R as (_ & _ & _ & _ & Cm).
  pose proof R1 as (I1 & W1 & _).
  assert (SB : syn_below s1) by exact (proj2 (proj1 I1)).
  assert (V : vpre_in (ectr s) (am b)) by (intros v Hv; destruct (Hb v Hv) as [T|T]; [right; exact T|left; exact T]).
  pose proof (synify_app_vpre_in _ _ _ _ V H1) as Vsb.
  split; [exact (get_syn_pre _ _ _ _ SB Vsb Ht)|].
  assert (Pn1 : syn_pnb s1) by (apply J_pnb; exact (J_sgR E s s1 R1 G Le HJ)).
  destruct (synify_app_id_vals b s sb' s1 H1 Cm) as (_ & _ & VE).
  destruct (synify_app_id_total b s sb' s1 H1) as (Ea & c & Hc & Tot).
  apply (get_syn_expr_nb (S (List.length (classes s1))) s1 sb' term Pn1 W1); [| |exact Ht].
  - intros v Hv. destruct (VE v Hv) as [T|[T _]]; [exact (Vb v T)|apply mod1_not_B; exact T].
  - intros y Hy. apply Tot. unfold SS in Hy. rewrite Ea in Hy. destruct G as (_ & Gc & _).
    rewrite (get_class_classes s s1 _ Gc), Hc in Hy. exact Hy.
Qed.

Theorem syn_expr_subst_RStJ : forall E b x t s a s', RSt E s -> J s -> cvh s b -> cvh s t ->
  syn_expr_subst b x t s = Ok (a, s') -> RSt E s' /\ J s' /\ ext0 s s' /\ cvh s' a.
Proof.
  intros E b x t s a s' R HJ Cb Ct H. pose proof H as H0. unfold syn_expr_subst in H.
  apply mbind_inv in H. destruct H as (sb' & s1 & H1 & H).
  destruct (synify_RSt E b s sb' s1 R H1) as (R1 & G & Le & X1).
  apply bind_reads_inv in H. destruct H as (term & Ht & H).
  destruct (syn_extract_okJ E b s sb' s1 term R HJ Cb H1 Ht) as [RP NB].
  pose proof (J_rt E b s sb' s1 term R HJ Cb H1 Ht) as AL.
  destruct (dts_RStJ E x t term s1 a s' R1 (J_sgR E s s1 R1 G Le HJ) RP NB AL (cvh_ext0 _ _ _ X1 Ct) H) as (R2 & J2 & X2 & C2).
  split; [exact R2|]. split; [exact J2|]. split; [eapply ext0_trans; eauto|exact C2].
Qed.

Section PatternSubstXJ.
  Variables (E : equations) (sb : subst).

  Definition psx_specJ (p : pattern) : Prop :=
    forall s a s', RSt E s -> J s -> pat_okX (ectr s) p -> pat_all NP p -> sub_cvh s sb ->
      pattern_subst p sb s = Ok (a, s') -> RSt E s' /\ J s' /\ ext0 s s' /\ cvh s' a.

  Lemma psx_kidsJ : forall ch, Forall psx_specJ ch ->
    forall k s l s1, RSt E s -> J s -> Forall (pat_okX (ectr s)) ch -> Forall (pat_all NP) ch -> sub_cvh s sb ->
    List.length ch = k ->
    psubst_kids sb ch k s = Ok (l, s1) ->
    RSt E s1 /\ J s1 /\ ext0 s s1 /\ Forall (cvh s1) l /\ List.length l = k.
  Proof.
    intros ch IH. induction IH as [|c r Hc _ IHr]; intros k s l s1 R HJ PO PA SD Lk H.
    - cbn [List.length] in Lk. subst k. rewrite psubst_kids_nil in H. inversion H; subst l s1.
      split; [exact R|]. split; [exact HJ|]. split; [apply ext0_refl|]. split; [constructor|reflexivity].
    - cbn [List.length] in Lk. subst k. rewrite psubst_kids_cons in H.
      apply mbind_inv in H. destruct H as (a0 & s2 & Ha & H).
      apply mbind_inv in H. destruct H as (r0 & s3 & Hr & H). inversion H; subst l s3; clear H.
      destruct (Hc s a0 s2 R HJ (Forall_inv PO) (Forall_inv PA) SD Ha) as (R2 & J2 & X2 & O2).
      destruct (IHr (List.length r) s2 r0 s1 R2 J2) as (R1 & J1 & X1 & F1 & L1); [|exact (Forall_inv_tail PA)| |reflexivity|exact Hr|].
      { pose proof (Forall_inv_tail PO) as PO'. revert PO'. apply Forall_impl. intros p. apply pat_okX_mono. exact (proj1 X2). }
      { eapply sub_cvh_ext0; eauto. }
      split; [exact R1|]. split; [exact J1|]. split; [eapply ext0_trans; eauto|]. split; [|cbn [List.length]; lia].
      constructor; [eapply cvh_ext0; eauto|exact F1].
  Qed.

  (* pattern_subst on any well-formed NP pattern keeps the invariants and returns a handle *)
  Theorem pattern_subst_RStJ : forall p, psx_specJ p.
  Proof.
    induction p as [v|n ch IH|b x t IHb IHx IHt] using pattern_ind2; intros s a s' R HJ PO PA SD H.
    - cbn [pattern_subst] in H. destruct (sub_get sb v) as [a0|] eqn:G; [|discriminate]. inversion H; subst a0 s'.
      split; [exact R|]. split; [exact HJ|]. split; [apply ext0_refl|exact (SD v a G)].
    - rewrite pattern_subst_node in H. apply mbind_inv in H. destruct H as (l & s1 & H1 & H).
      destruct (pat_okX_node _ _ _ PO) as (U & Lc & POc).
      apply pat_all_node_iff in PA. destruct PA as [PAn PAc].
      destruct (psx_kidsJ ch IH _ s l s1 R HJ POc PAc SD Lc H1) as (R1 & J1 & X1 & F1 & L1).
      destruct (eg_add_cvhJ E n l s1 a s' R1 J1 PAn) as (R2 & J2 & X2 & C2 & _); [|congruence|exact F1|exact H|].
      { intros y Hy. destruct (U y Hy) as [U1 [U2|U2]]; (split; [exact U1|]); [left; exact U2|right; pose proof (proj1 X1); lia]. }
      split; [exact R2|]. split; [exact J2|]. split; [eapply ext0_trans; eauto|exact C2].
    - destruct (pat_okX_subst _ _ _ _ PO) as (Pb & Px & Pt). apply pat_all_subst_iff in PA. destruct PA as (Ab & Ax & At).
      cbn [pattern_subst] in H.
      apply mbind_inv in H. destruct H as (b' & s1 & H1 & H).
      destruct (IHb s b' s1 R HJ Pb Ab SD H1) as (R1 & J1 & X1 & Cb).
      apply mbind_inv in H. destruct H as (x' & s2 & H2 & H).
      destruct (IHx s1 x' s2 R1 J1 (pat_okX_mono _ _ _ (proj1 X1) Px) Ax (sub_cvh_ext0 _ _ _ X1 SD) H2) as (R2 & J2 & X2 & Cx).
      apply mbind_inv in H. destruct H as (t' & s3 & H3 & H).
      pose proof (ext0_trans _ _ _ X1 X2) as X12.
      destruct (IHt s2 t' s3 R2 J2 (pat_okX_mono _ _ _ (proj1 X12) Pt) At (sub_cvh_ext0 _ _ _ X12 SD) H3) as (R3 & J3 & X3 & Ct).
      destruct (syn_expr_subst_RStJ E b' x' t' s3 a s' R3 J3 (cvh_ext0 _ _ _ (ext0_trans _ _ _ X2 X3) Cb) Ct H) as (R4 & J4 & X4 & Ca).
      split; [exact R4|]. split; [exact J4|]. split; [|exact Ca].
      eapply ext0_trans; [exact X12|]. eapply ext0_trans; eauto.
  Qed.
End PatternSubstXJ.

(* ====================================================================== *)
(* 5. the applier phase with right-hand sides that may contain PSubst       *)
(* ====================================================================== *)

Theorem union_instantiations_soundXJ : forall E lhs rhs sb s b s' den, RSt E s -> J s ->
  pat_ok (ectr s) lhs -> pat_okX (ectr s) rhs -> pat_all NP lhs -> pat_all NP rhs -> sub_den E s sb den ->
  union_instantiations lhs rhs sb s = Ok (b, s') ->
  exists x s1 y s2, pattern_subst lhs sb s = Ok (x, s1) /\ pattern_subst rhs sb s1 = Ok (y, s2) /\
    RSt E s1 /\ J s1 /\ ext0 s s1 /\
    RSt (E ++ [(pat_t den lhs, den_of s2 y)]) s' /\ J s' /\ ext0 s s'.
Proof.
  intros E lhs rhs sb s b s' den R HJ Pl Pr Al Ar SD H. unfold union_instantiations in H.
  apply mbind_inv in H. destruct H as (x & s1 & H1 & H).
  destruct (pattern_subst_denotes E sb den lhs s x s1 R Pl SD H1) as (R1 & X1 & Ox).
  destruct (pattern_subst_RStJ E sb lhs s x s1 R HJ (pat_ok_okX _ _ Pl) Al (sub_den_cvh _ _ _ _ SD) H1) as (_ & J1 & _ & _).
  apply mbind_inv in H. destruct H as (y & s2 & H2 & H).
  destruct (pattern_subst_RStJ E sb rhs s1 y s2 R1 J1 (pat_okX_mono _ _ _ (proj1 X1) Pr) Ar
              (sub_cvh_ext0 _ _ _ X1 (sub_den_cvh _ _ _ _ SD)) H2) as (R2 & J2 & X2 & Cy).
  change (eg_union x y s2 = Ok (b, s')) in H.
  destruct (hdl_ext0 _ _ _ _ _ X2 Ox) as (Cx & _ & _ & Hx). destruct (cvh_hdl E s2 y R2 Cy) as (Cy' & _ & _ & Hy).
  destruct (RSt_eg_union E s2 x y _ _ b s' R2 Cx Cy' Hx Hy H) as [R' X'].
  exists x, s1, y, s2. split; [exact H1|]. split; [exact H2|]. split; [exact R1|]. split; [exact J1|]. split; [exact X1|].
  split; [exact R'|]. split; [exact (J_union E s2 x y _ _ b s' R2 J2 Cx Cy' Hx Hy H)|].
  eapply ext0_trans; [exact X1|]. eapply ext0_trans; [exact X2|apply ext_ext0; exact X'].
Qed.

Section AppliersXJ.
  Variable P : equations -> Prop.
  Variable RP : rule -> Prop.
  (* SV: what is known of a match beyond sub3 *)
  Variable SV : rule -> subst -> Prop.
  (* the instance pair may be added: the right instance is given by the RUN of pattern_subst on the right-hand side *)
  Hypothesis P_stepX : forall E r sb s den y s2, RP r -> P E -> RSt E s -> J s -> sub_den E s sb den ->
    SV r sb -> sub_bound r sb -> cond_holds (r_cond r) sb = Ok true -> pat_okX (ectr s) (r_rhs r) ->
    pattern_subst (r_rhs r) sb s = Ok (y, s2) ->
    P (E ++ [(pat_t den (r_lhs r), den_of s2 y)]).

  Definition postXJ (E : equations) (s : egraph) (s' : egraph) : Prop :=
    exists E', (forall e, In e E -> In e E') /\ P E' /\ RSt E' s' /\ J s' /\ ext0 s s'.

  Lemma postXJ_refl : forall E s, P E -> RSt E s -> J s -> postXJ E s s.
  Proof. intros E s HP R HJ. exists E. split; [auto|]. split; [exact HP|]. split; [exact R|]. split; [exact HJ|apply ext0_refl]. Qed.

  Lemma apply_substs_cond_soundXJ : forall r, RP r -> rule_nbX r -> pat_all NP (r_lhs r) /\ pat_all NP (r_rhs r) ->
    forall substs E s x s', P E -> RSt E s -> J s ->
    pat_below (ectr s) (r_lhs r) -> pat_below (ectr s) (r_rhs r) -> Forall (sub3 s) substs ->
    Forall (SV r) substs ->
    apply_substs_cond r substs s = Ok (x, s') -> postXJ E s s'.
  Proof.
    intros r Hr [Nl Nr] [Al Ar]. unfold apply_substs_cond.
    induction substs as [|sb t IH]; intros E s x s' HP R HJ Bl Br SC SVs H; cbn [iterM] in H.
    - inversion H; subst. apply postXJ_refl; assumption.
    - apply mbind_inv in H. destruct H as (u & s1 & H1 & H).
      assert (Q1 : postXJ E s s1).
      { apply mbind_inv in H1. destruct H1 as (c & s0 & Hc & H1). apply lift_inv in Hc. destruct Hc as [Hc ->].
        destruct c; [|inversion H1; subst; apply postXJ_refl; assumption].
        apply mbind_inv in H1. destruct H1 as (b & s2 & H2 & H1). inversion H1; subst u s2; clear H1.
        pose proof (sub_den_sb E s sb R (Forall_inv SC)) as SD.
        destruct (union_instantiations_soundXJ E _ _ sb s b s1 _ R HJ (pat_ok_of _ _ Nl Bl) (pat_okX_of _ _ Nr Br) Al Ar SD H2)
          as (x0 & sa & y & sb2 & Ha & Hb & Ra & Ja & Xa & R1 & J1 & X1).
        exists (E ++ [(pat_t (den_sb s sb) (r_lhs r), den_of sb2 y)]).
        split; [intros e He; apply in_or_app; left; exact He|]. split; [|split; [exact R1|split; assumption]].
        apply (P_stepX E r sb sa (den_sb s sb) y sb2 Hr HP Ra Ja (sub_den_ext0 _ _ _ _ _ Xa SD) (Forall_inv SVs)
                 (union_instantiations_boundX r sb s b s1 (conj Nl Nr) H2) Hc); [|exact Hb].
        apply (pat_okX_mono (ectr s)); [exact (proj1 Xa)|exact (pat_okX_of _ _ Nr Br)]. }
      destruct Q1 as (E1 & I1 & P1 & R1 & J1 & X1).
      destruct (IH E1 s1 x s' P1 R1 J1 (pat_below_mono _ _ _ (proj1 X1) Bl) (pat_below_mono _ _ _ (proj1 X1) Br)) as (E2 & I2 & P2 & R2 & J2 & X2);
        [|exact (Forall_inv_tail SVs)|exact H|].
      { apply Forall_inv_tail in SC. revert SC. apply Forall_impl. intros sb'. apply sub3_ext0. exact X1. }
      exists E2. split; [auto|]. split; [exact P2|]. split; [exact R2|]. split; [exact J2|eapply ext0_trans; eauto].
  Qed.

  Lemma appliers_soundXJ : forall (l : list (rule * list subst)) E s x s', P E -> RSt E s -> J s ->
    Forall (fun rt : rule * list subst => RP (fst rt) /\ rule_nbX (fst rt) /\
              (pat_all NP (r_lhs (fst rt)) /\ pat_all NP (r_rhs (fst rt))) /\
              pat_below (ectr s) (r_lhs (fst rt)) /\ pat_below (ectr s) (r_rhs (fst rt)) /\ Forall (sub3 s) (snd rt) /\
              Forall (SV (fst rt)) (snd rt)) l ->
    iterM (fun rt : rule * list subst => apply_substs_cond (fst rt) (snd rt)) l s = Ok (x, s') -> postXJ E s s'.
  Proof.
    induction l as [|rt t IH]; intros E s x s' HP R HJ F H; cbn [iterM] in H.
    - inversion H; subst. apply postXJ_refl; assumption.
    - apply mbind_inv in H. destruct H as (u & s1 & H1 & H).
      destruct (Forall_inv F) as (A1 & A2 & A2' & A3 & A4 & A5 & A6).
      destruct (apply_substs_cond_soundXJ (fst rt) A1 A2 A2' (snd rt) E s u s1 HP R HJ A3 A4 A5 A6 H1) as (E1 & I1 & P1 & R1 & J1 & X1).
      destruct (IH E1 s1 x s' P1 R1 J1) as (E2 & I2 & P2 & R2 & J2 & X2); [|exact H|].
      { apply Forall_inv_tail in F. revert F. apply Forall_impl. intros rt' (B1 & B2 & B2' & B3 & B4 & B5 & B6).
        split; [exact B1|]. split; [exact B2|]. split; [exact B2'|]. split; [exact (pat_below_mono _ _ _ (proj1 X1) B3)|].
        split; [exact (pat_below_mono _ _ _ (proj1 X1) B4)|]. split; [|exact B6]. revert B5. apply Forall_impl. intros sb'. apply sub3_ext0. exact X1. }
      exists E2. split; [auto|]. split; [exact P2|]. split; [exact R2|]. split; [exact J2|eapply ext0_trans; eauto].
  Qed.
End AppliersXJ.

(* ====================================================================== *)
(* 6. what do_term_subst returns, as a relation on terms                    *)
(* ====================================================================== *)

Section RelJ.
  Variables (E : equations).
  Variables (x' t' : appid) (xn : node) (tx tt : cterm).
  Hypothesis xn_leaf : app_occ xn = [].
  (* inserting another node (NP, at an insertion site ins_pre, in a J state) does not change what the lookup of the
     leaf xn returns *)
  Hypothesis hit_keep_addJ : forall n l s b s', RSt E s -> J s -> NP n -> ins_pre s n l -> Hit xn x' s ->
    eg_add (set_apps n l) s = Ok (b, s') -> Hit xn x' s'.

  Theorem dts_DSrJ : forall T s a s', RSt E s -> J s -> rt_pre (ectr s) T -> rt_nb T -> rt_ar T -> rt_all NP T ->
    hdl E s x' tx -> hdl E s t' tt -> Hit xn x' s ->
    do_term_subst T x' t' s = Ok (a, s') ->
    RSt E s' /\ J s' /\ ext0 s s' /\ Hit xn x' s' /\ exists r, hdl E s' a r /\ DSr E xn tx tt T r.
  Proof.
    fix IH 1. intros [n ch] s a s' R HJ RP NB AR AL Hx Ht HH H. rewrite do_term_subst_eq in H.
    apply rt_pre_iff in RP. destruct RP as [RPn RPc]. apply rt_nb_iff in NB. destruct NB as [NBn NBc].
    apply rt_ar_iff in AR. destruct AR as [ARn ARc]. apply rt_all_iff in AL. destruct AL as [ALn ALc].
    apply mbind_inv in H. destruct H as (l & s1 & H1 & H).
    assert (KK : forall k z l0 z1, RSt E z -> J z -> Forall (rt_pre (ectr z)) ch -> Forall rt_nb ch -> Forall rt_ar ch ->
                   Forall (rt_all NP) ch ->
                   hdl E z x' tx -> hdl E z t' tt -> Hit xn x' z -> List.length ch = k ->
                   dts_kids x' t' ch k z = Ok (l0, z1) ->
                   RSt E z1 /\ J z1 /\ ext0 z z1 /\ Hit xn x' z1 /\
                   exists rs, Forall2 (hdl E z1) l0 rs /\ Forall2 (DSr E xn tx tt) ch rs).
    { clear H1 H R HJ RPc Hx Ht HH s l s1 a s' RPn NBn NBc ARn ARc ALn ALc.
      induction ch as [|c r IHr]; intros k z l0 z1 R HJ RPc NBc ARc ALc Hx Ht HH Lk H1.
      - cbn [List.length] in Lk. subst k. inversion H1; subst. split; [assumption|]. split; [assumption|]. split; [apply ext0_refl|].
        split; [assumption|]. exists []. split; constructor.
      - cbn [List.length] in Lk. subst k. rewrite dts_kids_cons in H1.
        apply mbind_inv in H1. destruct H1 as (a0 & z2 & Ha & H1).
        apply mbind_inv in H1. destruct H1 as (r0 & z3 & Hr & H1). inversion H1; subst l0 z3; clear H1.
        destruct (IH c z a0 z2 R HJ (Forall_inv RPc) (Forall_inv NBc) (Forall_inv ARc) (Forall_inv ALc) Hx Ht HH Ha) as (R2 & J2 & E2 & HH2 & rc & Oc & Dc).
        destruct (IHr (List.length r) z2 r0 z1 R2 J2) as (R3 & J3 & E3 & HH3 & rs & Fo & Fd);
          [|exact (Forall_inv_tail NBc)|exact (Forall_inv_tail ARc)|exact (Forall_inv_tail ALc)|eapply hdl_ext0; eauto|eapply hdl_ext0; eauto|exact HH2|reflexivity|exact Hr|].
        + apply Forall_inv_tail in RPc. revert RPc. apply Forall_impl. intros c1'. apply rt_pre_mono. exact (proj1 E2).
        + split; [exact R3|]. split; [exact J3|]. split; [eapply ext0_trans; eauto|]. split; [exact HH3|].
          exists (rc :: rs). split; constructor; try assumption. eapply hdl_ext0; eauto. }
    destruct (KK _ _ _ _ R HJ RPc NBc ARc ALc Hx Ht HH ARn H1) as (R1 & J1 & E1 & HH1 & rs & Fo & Fd).
    destruct (hdl_F2 _ _ _ _ Fo) as (F2 & Cl & Vl & Bl).
    assert (Len : List.length l = List.length (app_occ n)).
    { rewrite <- ARn. rewrite (F2_length _ _ _ Fo). symmetry. exact (F2_length _ _ _ Fd). }
    assert (Fc : Forall (cvh s1) l).
    { clear -Fo. induction Fo as [|a0 t0 l0 ts0 Hh _ IHF]; constructor; [eapply hdl_cvh; eauto|exact IHF]. }
    apply mbind_inv in H. destruct H as (app_id & s2 & H2 & H).
    assert (Un : forall y, In y (all_occ n) -> is_B y = false /\ (y mod 4 <> 1 \/ y < ectr s1)).
    { intros y Hy. split; [exact (NBn y Hy)|]. destruct (RPn y Hy) as [A|A]; [right; pose proof (proj1 E1); lia|left; exact A]. }
    assert (IP : ins_pre s1 n l).
    { split; [exact Un|]. split; [exact Len|]. split; [exact Fc|exact (NP_nodup n ALn)]. }
    destruct (eg_add_cvhJ E n l s1 app_id s2 R1 J1 ALn Un Len Fc H2) as (R2 & J2 & E2 & C2 & NS).
    pose proof (ext0_trans _ _ _ E1 E2) as E12.
    pose proof R2 as (I2 & W2 & S2 & _ & _). destruct C2 as (Ca & Va & Ba).
    assert (HO : handle_ok E s2 app_id (node_t n rs)).
    { apply (bridgeT E s2 W2 app_id n rs l I2 S2 Ca Va NBn Len); [| |exact Vl|exact NS].
      - clear -F2 Cl E2. induction F2 as [|x0 y0 l0 l1 Hxy F IHF]; [constructor|]. inversion Cl; subst.
        constructor; [eapply handle_ok_ext0; eauto|apply IHF; assumption].
      - revert Cl. apply Forall_impl. intros x0. apply covers_ext0. exact E2. }
    pose proof (hit_keep_addJ n l s1 app_id s2 R1 J1 ALn IP HH1 H2) as HH2.
    destruct (appid_eqb app_id x') eqn:Eq; inversion H; subst a s2; clear H;
      (split; [exact R2|]); (split; [exact J2|]); (split; [exact E12|]); (split; [exact HH2|]).
    - apply appid_eqb_iff in Eq. subst app_id. exists tt. split; [eapply hdl_ext0; [exact E12|exact Ht]|].
      apply DSr_iff. exists rs. split; [exact Fd|]. right. split; [reflexivity|].
      destruct (hdl_ext0 _ _ _ _ _ E12 Hx) as (Cx & _ & _ & Ox).
      exact (handle_ok_same E s' x' _ _ Cx HO Ox).
    - exists (node_t n rs). split; [split; [exact Ca|split; [exact Va|split; [exact Ba|exact HO]]]|].
      apply DSr_iff. exists rs. split; [exact Fd|]. left. split; [|reflexivity].
      intros En. subst n. rewrite xn_leaf in Len. destruct l as [|? ?]; [|discriminate Len].
      rewrite set_apps_nil in H2. unfold Hit in HH1. rewrite HH1 in H2. inversion H2; subst app_id.
      assert (T : appid_eqb x' x' = true) by (apply appid_eqb_iff; reflexivity). congruence.
  Qed.
End RelJ.

(* ====================================================================== *)
(* 7. the meaning of what syn_expr_subst returns                            *)
(* ====================================================================== *)

Section SemJ.
  Variable D : Type.
  Variable interp : nat -> list (sval D) -> D.
  Notation ev := (eval D interp).
  Variable E : equations.
  Hypothesis HV : valid D interp E.
  Variables (x : slot) (xn : node) (b' x' t' : appid) (tb tt : cterm).
  Notation tx := (node_t xn []).
  Notation Phi := (fun env : N -> D => aupd D env x (ev 0 env tt)).

  (* DEVIATION from RewriteSoundSubstSem (there J = JW c0 c1 contains priv3): ExtractSound.get_syn_expr_handle needs it *)
  Hypothesis J_priv3 : forall s, J s -> priv3 s.
  Hypothesis Bx : is_B x = false.
  Hypothesis xn_leaf : app_occ xn = [].
  (* the x-term looks the slot x up *)
  Hypothesis x_lookup : forall env, ev 0 (Phi env) tx = ev 0 env tt.
  Hypothesis hit_keep_addJ : forall n l s b s', RSt E s -> J s -> NP n -> ins_pre s n l -> Hit xn x' s ->
    eg_add (set_apps n l) s = Ok (b, s') -> Hit xn x' s'.

  Theorem syn_expr_subst_semJ : forall s a s', RSt E s -> J s ->
    hdl E s b' tb -> hdl E s x' tx -> hdl E s t' tt -> Hit xn x' s -> ~ In x (values_vec (am t')) ->
    (forall sb' s1 T, synify_app_id b' s = Ok (sb', s1) -> get_syn_expr (S (List.length (classes s1))) s1 sb' = Ok T ->
       tot_inv s1 sb' /\ clear_inv s1 sb' /\ Tok D interp x xn tt T) ->
    syn_expr_subst b' x' t' s = Ok (a, s') ->
    RSt E s' /\ J s' /\ ext0 s s' /\
    exists r, hdl E s' a r /\ forall env, ev 0 env r = ev 0 (Phi env) tb.
  Proof.
    intros s a s' R HJ Hb Hx Ht HH Nx PRE H. unfold syn_expr_subst in H.
    apply mbind_inv in H. destruct H as (sb' & s1 & H1 & H).
    destruct (synify_RSt E b' s sb' s1 R H1) as (R1 & G & Le & X1).
    apply bind_reads_inv in H. destruct H as (T & HT & H).
    pose proof (J_sgR E s s1 R1 G Le HJ) as J1.
    destruct (syn_extract_okJ E b' s sb' s1 T R HJ (hdl_cvh _ _ _ _ Hb) H1 HT) as [RP NB].
    pose proof (J_rt E b' s sb' s1 T R HJ (hdl_cvh _ _ _ _ Hb) H1 HT) as AL.
    pose proof (get_syn_expr_ar _ _ _ _ HT) as AR.
    pose proof (hit_synify xn x' s b' sb' s1 xn_leaf HH H1) as HH1.
    destruct (PRE sb' s1 T H1 HT) as (TI & CI & TK).
    destruct (dts_DSrJ E x' t' xn tx tt xn_leaf hit_keep_addJ T s1 a s' R1 J1 RP NB AR AL
                (hdl_ext0 _ _ _ _ _ X1 Hx) (hdl_ext0 _ _ _ _ _ X1 Ht) HH1 H) as (R2 & J2 & X2 & _ & r & Or & Dr).
    split; [exact R2|]. split; [exact J2|]. split; [eapply ext0_trans; eauto|]. exists r. split; [exact Or|].
    pose proof R as (_ & W & _). destruct Ht as (Ct & Vt & _ & Ot).
    assert (Wt : FpRewrite.wsem D interp tt) by exact (handle_wsem D interp E s t' tt HV W Ct Ot).
    assert (It : forall env z, ev 0 (aupd D env x z) tt = ev 0 env tt).
    { intros env z. exact (handle_indep D interp E s t' tt x HV W Ct Vt Ot Nx Bx env z). }
    destruct (DSr_sem D interp E HV x xn tx tt eq_refl x_lookup Wt It T r TK Dr) as (_ & _ & _ & Q).
    intros env. rewrite (Q env). unfold SubstSem.Phi.
    (* the extracted term is denoted by the synified invocation, which completes b' *)
    pose proof (get_syn_expr_handle E _ s1 sb' T R1 (J_priv3 s1 J1) TI CI HT) as HOs.
    pose proof (tot_completion s1 sb' TI) as Cs. set (sg := thru (am sb') (fun v => v)) in *.
    destruct (HashconsAbs.synify_app_id_agree b' s sb' s1 H1) as [Ea Ag].
    destruct (hdl_ext0 _ _ _ _ _ X1 Hb) as (_ & _ & _ & Ob).
    assert (Cb : completion s1 b' sg).
    { destruct Cs as [Rk Cm]. split; [unfold rok in *; rewrite <- Ea; exact Rk|].
      intros y v Gy. apply Cm. rewrite (Ag y) by congruence. exact Gy. }
    pose proof (proj2 HOs sg Cs) as D1. pose proof (proj2 Ob sg Cb) as D2. rewrite Ea in D1.
    rewrite (Deriv_sound D interp E HV 0 _ _ D1 (aupd D env x (ev 0 env tt))).
    rewrite (Deriv_sound D interp E HV 0 _ _ D2 (aupd D env x (ev 0 env tt))). reflexivity.
  Qed.
End SemJ.

End WithJ2.

(* ====================================================================== *)
(* 8. one iteration of rewriting                                            *)
(* ====================================================================== *)

(* per-rule facts of the matches go through the schedule (which only selects) *)
Lemma combine_sched_gen : forall (Q : rule -> subst -> Prop) sched, sched_sub sched -> forall rs ts,
  Forall2 (fun r l => Forall (Q r) l) rs ts ->
  forall k rt, In rt (combine rs (mapi_from sched k ts)) -> Forall (Q (fst rt)) (snd rt).
Proof.
  intros Q sched SS rs ts F. induction F as [|r l rs ts Hrl F IH]; intros k rt Hin; cbn [mapi_from combine] in Hin; [destruct Hin|].
  destruct Hin as [<-|Hin]; [|exact (IH (S k) rt Hin)]. cbn [fst snd].
  apply Forall_forall. intros sb Hsb. exact (proj1 (Forall_forall _ _) Hrl sb (SS k l sb Hsb)).
Qed.

Section RewritesJ.
  (* the invariant at operation boundaries *)
  Variable J0 : egraph -> Prop.
  (* the invariant of the applier phase for the window [c0, c1) *)
  Variable JJ : N -> N -> egraph -> Prop.
  Variable NP : node -> Prop.
  Hypothesis NP_nodup : forall n, NP n -> NoDup (binders n).
  Hypothesis JJ_pnb : forall c0 c1 s, JJ c0 c1 s -> syn_pnb s.
  Hypothesis JJ_add : forall c0 c1 E n l s a s', RSt E s -> JJ c0 c1 s -> NP n -> ins_pre s n l ->
    eg_add (set_apps n l) s = Ok (a, s') -> JJ c0 c1 s'.
  Hypothesis JJ_sg : forall c0 c1 s s', same_graph s s' -> ectr s <= ectr s' -> ectr s' mod 4 = 1 ->
    JJ c0 c1 s -> JJ c0 c1 s'.
  Hypothesis JJ_union : forall c0 c1 E s l r tl tr b s', RSt E s -> JJ c0 c1 s -> covers s l -> covers s r ->
    handle_ok E s l tl -> handle_ok E s r tr -> eg_union l r s = Ok (b, s') -> JJ c0 c1 s'.
  Hypothesis JJ_rt : forall c0 c1 E b s sb' s1 T, RSt E s -> JJ c0 c1 s -> cvh s b -> synify_app_id b s = Ok (sb', s1) ->
    get_syn_expr (S (List.length (classes s1))) s1 sb' = Ok T -> rt_all NP T.
  Hypothesis JJ_enter : forall s s1, J0 s -> same_graph s s1 -> ectr s <= ectr s1 -> ectr s1 mod 4 = 1 ->
    JJ (ectr s) (ectr s1) s1.
  Hypothesis JJ_exit : forall c0 c1 s, JJ c0 c1 s -> J0 s.

  Variable P : equations -> Prop.
  Variable RP : rule -> Prop.
  (* extra facts of the matches *)
  Variable SX : rule -> subst -> Prop.
  Hypothesis SX_search : forall rs s ts s1, inv3 s -> kids_ok s -> m4 s -> rules_below (ectr s) rs -> Forall RP rs ->
    mapM (fun r => ematch_all (r_lhs r)) rs s = Ok (ts, s1) ->
    Forall2 (fun r l => Forall (SX r) l) rs ts.

  Hypothesis P_stepJ : forall c0 c1 E r sb s den y s2, RP r -> P E -> RSt E s -> JJ c0 c1 s -> sub_den E s sb den ->
    SVW c0 c1 r sb -> SX r sb -> sub_bound r sb -> cond_holds (r_cond r) sb = Ok true -> pat_okX (ectr s) (r_rhs r) ->
    pattern_subst (r_rhs r) sb s = Ok (y, s2) ->
    P (E ++ [(pat_t den (r_lhs r), den_of s2 y)]).

  Theorem apply_rewrites_sched_soundJ : forall sched rs E s b s', sched_sub sched -> P E -> RSt E s -> J0 s ->
    kids_ok s -> m4 s -> rules_below (ectr s) rs -> Forall RP rs -> Forall rule_nbX rs ->
    Forall (fun r => pat_all NP (r_lhs r) /\ pat_all NP (r_rhs r)) rs ->
    apply_rewrites_sched sched rs s = Ok (b, s') ->
    exists E', (forall e, In e E -> In e E') /\ P E' /\ RSt E' s' /\ J0 s' /\ ext0 s s'.
  Proof.
    intros sched rs E s b s' SS HP R HJ0 K M RB FP FN FA H. pose proof R as (I3 & _). unfold apply_rewrites_sched in H.
    apply bind_reads_inv in H. destruct H as (p0 & P0 & H).
    apply mbind_inv in H. destruct H as (ts & s1 & H1 & H). cbv zeta in H.
    pose proof (c_searchers rs s ts s1 H1) as Lc. pose proof (sg_searchers rs s ts s1 H1) as G1. unfold cle in Lc.
    assert (FNl : Forall (fun r => forall x, In x (pslots (r_lhs r)) -> is_B x = false) rs).
    { revert FN. apply Forall_impl. intros r [(_ & _ & A) _]. exact A. }
    pose proof (searchers_ok_nb rs s ts s1 I3 K M RB FNl H1) as SC.
    pose proof (searchers_vals_win rs s ts s1 I3 K M H1) as SVv.
    pose proof (SX_search rs s ts s1 I3 K M RB FP H1) as SXv.
    apply mbind_inv in H. destruct H as (u & s2 & H2 & H).
    apply bind_reads_inv in H. destruct H as (p1 & P1 & H). inversion H; subst b s2; clear H.
    assert (M' : m4 s1).
    { refine (proj1 (h_mapM _ _ (fun r => ematch_all (r_lhs r)) rs _ s ts s1 H1 M)). intros r. apply h_ematch_all. }
    assert (R1 : RSt E s1) by (apply (RSt_same_graph E s s1 R G1 Lc); exact (proj1 M')).
    assert (RB' : rules_below (ectr s1) rs) by (eapply rules_below_mono; [exact Lc|exact RB]).
    assert (X01 : ext0 s s1) by (destruct G1 as (_ & Gc & _); exact (ext0_of_classes s s1 Gc Lc)).
    assert (JW1 : JJ (ectr s) (ectr s1) s1) by exact (JJ_enter s s1 HJ0 G1 Lc (proj1 M')).
    destruct (appliers_soundXJ (JJ (ectr s) (ectr s1)) NP NP_nodup (JJ_pnb _ _) (JJ_add _ _) (JJ_sg _ _) (JJ_union _ _) (JJ_rt _ _)
                P RP (fun r sb => SVW (ectr s) (ectr s1) r sb /\ SX r sb)
                (fun E0 r sb s0 den y s3 A1 A2 A3 A4 A5 A6 =>
                   P_stepJ (ectr s) (ectr s1) E0 r sb s0 den y s3 A1 A2 A3 A4 A5 (proj1 A6) (proj2 A6))
                (combine rs (mapi_from sched O ts)) E s1 u s' HP R1 JW1) as (E' & I' & P' & R' & J' & X'); [|exact H2|].
    { pose proof (mapi_from_sched_cov (fun sb => sub_cov s1 sb /\ sub_below s1 sb /\ sub_nb sb) sched SS ts O SC) as SC'.
      apply Forall_forall. intros [r l] Hin. cbn [fst snd].
      pose proof (in_combine_l _ _ _ _ Hin) as Hr. pose proof (in_combine_r _ _ _ _ Hin) as Hl.
      destruct (proj1 (Forall_forall _ _) RB' r Hr) as [B1 B2].
      split; [exact (proj1 (Forall_forall _ _) FP r Hr)|]. split; [exact (proj1 (Forall_forall _ _) FN r Hr)|].
      split; [exact (proj1 (Forall_forall _ _) FA r Hr)|].
      split; [exact B1|]. split; [exact B2|]. split; [exact (proj1 (Forall_forall _ _) SC' l Hl)|].
      pose proof (combine_sched_valsW (ectr s) sched SS rs ts SVv O (r, l) Hin) as W. cbn [fst snd] in W.
      pose proof (combine_sched_gen SX sched SS rs ts SXv O (r, l) Hin) as WX. cbn [fst snd] in WX.
      pose proof (proj1 (Forall_forall _ _) SC' l Hl) as S3.
      apply Forall_forall. intros sb Hsb. split; [|exact (proj1 (Forall_forall _ _) WX sb Hsb)].
      split; [exact (proj1 (Forall_forall _ _) W sb Hsb)|].
      destruct (proj1 (Forall_forall _ _) S3 sb Hsb) as (_ & Bb & _). exact Bb. }
    exists E'. split; [exact I'|]. split; [exact P'|]. split; [exact R'|]. split; [exact (JJ_exit _ _ s' J')|eapply ext0_trans; eauto].
  Qed.

  Corollary apply_rewrites_soundJ : forall rs E s b s', P E -> RSt E s -> J0 s ->
    kids_ok s -> m4 s -> rules_below (ectr s) rs -> Forall RP rs -> Forall rule_nbX rs ->
    Forall (fun r => pat_all NP (r_lhs r) /\ pat_all NP (r_rhs r)) rs ->
    apply_rewrites rs s = Ok (b, s') ->
    exists E', (forall e, In e E -> In e E') /\ P E' /\ RSt E' s' /\ J0 s' /\ ext0 s s'.
  Proof. intros rs E s b s'. apply apply_rewrites_sched_soundJ. intros k l. apply incl_refl. Qed.
End RewritesJ.

Check eg_add_cvhJ.
Check dts_RStJ.
Check syn_expr_subst_RStJ.
Check pattern_subst_RStJ.
Check union_instantiations_soundXJ.
Check appliers_soundXJ.
Check dts_DSrJ.
Check syn_expr_subst_semJ.
Check apply_rewrites_sched_soundJ.
Check apply_rewrites_soundJ.
Print Assumptions dts_RStJ.
Print Assumptions pattern_subst_RStJ.
Print Assumptions union_instantiations_soundXJ.
Print Assumptions appliers_soundXJ.
Print Assumptions dts_DSrJ.
Print Assumptions syn_expr_subst_semJ.
Print Assumptions apply_rewrites_sched_soundJ.
Print Assumptions apply_rewrites_soundJ.
