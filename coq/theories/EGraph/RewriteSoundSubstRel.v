(* EGraph/RewriteSoundSubstRel.v — C03, b[x := t]: WHAT do_term_subst RETURNS, as a relation on terms.
   dts_DSr: in a state with RSt E s, for handles x' (denoting tx) and t' (denoting tt), the invocation returned by
   do_term_subst T x' t' denotes a term r with DSr E xn tx tt T r (SubstDefs.v): r is T with, bottom-up, every node
   whose re-inserted instance is the invocation x' replaced by tt; such a node's instance is Deriv-E-equal to tx; and
   NO node that is kept is the node xn — provided re-inserting the childless node xn returns x' throughout (Hit xn x',
   LeafHit.v: kept by steps that keep classes and hashcons; its persistence across insertions of OTHER nodes is the
   Section hypothesis hit_keep_add, validated executably in LeafHit.v). *)
From SE Require Import Slots.SlotMapFacts Group.GroupSound Lang.LangFacts Lang.ShapeFacts Lang.RenameFacts
  Base.TextFacts Parse.Parser
  EGraph.Model EGraph.ModelFacts EGraph.ModelMachine EGraph.UnionFindFacts EGraph.InvariantFacts
  EGraph.UnionInvariantFacts EGraph.AddCoversFacts EGraph.MonotoneFacts EGraph.Mod4Facts EGraph.SoundFacts EGraph.SoundUnion
  EGraph.SoundSyn EGraph.SoundNode EGraph.SoundStruct EGraph.NodePass EGraph.SoundBase EGraph.SoundAddNew EGraph.SoundVals
  EGraph.SoundAddExpr EGraph.SoundPending EGraph.SoundRebuild EGraph.SoundGuard EGraph.SoundFinal EGraph.SoundClosed
  EGraph.Rewrite EGraph.RewriteFacts EGraph.ProgressFacts EGraph.MatchDefs EGraph.MatchFacts EGraph.KidsFacts
  EGraph.MatchVals EGraph.RewriteSoundInst EGraph.RewriteSound EGraph.SynPriv EGraph.SynPrivOps EGraph.MatchValsWin
  EGraph.RewriteSoundSubst EGraph.RewriteSoundSubstTop EGraph.SubstDefs EGraph.LeafHit.
From SE Require Import Sem.Deriv Sem.DerivFacts Sem.AlgebraFacts Sem.EgMachine Explain.CheckerFacts.
Require Import ZArith Lia ZifyBool ZifyN ZifyNat.
Ltac Zify.zify_post_hook ::= Z.div_mod_to_equations.

Local Notation ectr := Model.ctr.

Lemma set_apps_f_nil : forall a, set_apps_f a [] = (a, []).
Proof. induction a as [y|y|y b IH|q]; cbn [set_apps_f]; try reflexivity. rewrite IH. reflexivity. Qed.

Lemma set_apps_nil : forall n, set_apps n [] = n.
Proof.
  intros [v args]. unfold set_apps. cbn [nvar nargs]. f_equal.
  induction args as [|a t IH]; cbn [set_apps_args]; [reflexivity|]. rewrite set_apps_f_nil, IH. reflexivity.
Qed.

(* every node has exactly one child per applied-id position *)
Fixpoint rt_ar (t : rterm) : Prop :=
  match t with
  | RT n ch => List.length ch = List.length (app_occ n) /\
               (fix go (l : list rterm) : Prop := match l with [] => True | c :: r => rt_ar c /\ go r end) ch
  end.

Lemma rt_ar_iff : forall n ch, rt_ar (RT n ch) <-> List.length ch = List.length (app_occ n) /\ Forall rt_ar ch.
Proof.
  intros n ch. cbn [rt_ar]. split; intros [A C]; (split; [exact A|]); clear A.
  - induction ch as [|c r IH]; constructor; [apply C|apply IH; apply C].
  - induction C as [|c r Hc C IH]; [exact I|split; assumption].
Qed.

Theorem get_syn_expr_ar : forall fuel s i t, get_syn_expr fuel s i = Ok t -> rt_ar t.
Proof.
  induction fuel as [|f IH]; intros s i t H; cbn [get_syn_expr] in H; [discriminate|].
  destruct (get_syn_node s i) as [en|] eqn:En; cbn [bind] in H; [|discriminate].
  destruct (mapr (get_syn_expr f s) (app_occ en)) as [cs|] eqn:Ec; cbn [bind] in H; [|discriminate].
  inversion H; subst t; clear H. apply rt_ar_iff. split.
  - rewrite (mapr_length _ _ _ Ec), nullify_app_len. reflexivity.
  - apply Forall_forall. intros c Hc. destruct (mapr_in _ _ _ Ec c Hc) as (a & _ & Fa). exact (IH _ _ _ Fa).
Qed.

(* two terms denoted by the same invocation are derivably equal *)
Lemma handle_ok_same : forall E s a t u, covers s a -> handle_ok E s a t -> handle_ok E s a u -> Deriv E 0 t u.
Proof.
  intros E s a t u Cv Ht Hu. destruct (completion_exists E s a t Ht Cv) as (sg & Cs & _).
  apply D_trans with (clsT s sg (aid a)); [exact (proj2 Ht sg Cs)|apply D_sym; exact (proj2 Hu sg Cs)].
Qed.

Section Rel.
  Variables (E : equations) (c0 c1 : N).
  Variables (x' t' : appid) (xn : node) (tx tt : cterm).
  Hypothesis xn_leaf : app_occ xn = [].
  (* inserting another node does not change what the lookup of the leaf xn returns (LeafHit.v: proved up to the
     rebuild inside mk_singleton_class; validated executably) *)
  Hypothesis hit_keep_add : forall m s b s', RSt E s -> Hit xn x' s -> eg_add m s = Ok (b, s') -> Hit xn x' s'.

  Notation JJ := (JW c0 c1).

  Theorem dts_DSr : forall T s a s', RSt E s -> JJ s -> rt_pre (ectr s) T -> rt_nb T -> rt_ar T ->
    hdl E s x' tx -> hdl E s t' tt -> Hit xn x' s ->
    do_term_subst T x' t' s = Ok (a, s') ->
    RSt E s' /\ JJ s' /\ ext0 s s' /\ Hit xn x' s' /\ exists r, hdl E s' a r /\ DSr E xn tx tt T r.
  Proof.
    fix IH 1. intros [n ch] s a s' R HJ RP NB AR Hx Ht HH H. rewrite do_term_subst_eq in H.
    apply rt_pre_iff in RP. destruct RP as [RPn RPc]. apply rt_nb_iff in NB. destruct NB as [NBn NBc].
    apply rt_ar_iff in AR. destruct AR as [ARn ARc].
    apply mbind_inv in H. destruct H as (l & s1 & H1 & H).
    assert (KK : forall k z l0 z1, RSt E z -> JJ z -> Forall (rt_pre (ectr z)) ch -> Forall rt_nb ch -> Forall rt_ar ch ->
                   hdl E z x' tx -> hdl E z t' tt -> Hit xn x' z -> List.length ch = k ->
                   dts_kids x' t' ch k z = Ok (l0, z1) ->
                   RSt E z1 /\ JJ z1 /\ ext0 z z1 /\ Hit xn x' z1 /\
                   exists rs, Forall2 (hdl E z1) l0 rs /\ Forall2 (DSr E xn tx tt) ch rs).
    { clear H1 H R HJ RPc Hx Ht HH s l s1 a s' RPn NBn NBc ARn ARc.
      induction ch as [|c r IHr]; intros k z l0 z1 R HJ RPc NBc ARc Hx Ht HH Lk H1.
      - cbn [List.length] in Lk. subst k. inversion H1; subst. split; [assumption|]. split; [assumption|]. split; [apply ext0_refl|].
        split; [assumption|]. exists []. split; constructor.
      - cbn [List.length] in Lk. subst k. rewrite dts_kids_cons in H1.
        apply mbind_inv in H1. destruct H1 as (a0 & z2 & Ha & H1).
        apply mbind_inv in H1. destruct H1 as (r0 & z3 & Hr & H1). inversion H1; subst l0 z3; clear H1.
        destruct (IH c z a0 z2 R HJ (Forall_inv RPc) (Forall_inv NBc) (Forall_inv ARc) Hx Ht HH Ha) as (R2 & J2 & E2 & HH2 & rc & Oc & Dc).
        destruct (IHr (List.length r) z2 r0 z1 R2 J2) as (R3 & J3 & E3 & HH3 & rs & Fo & Fd);
          [|exact (Forall_inv_tail NBc)|exact (Forall_inv_tail ARc)|eapply hdl_ext0; eauto|eapply hdl_ext0; eauto|exact HH2|reflexivity|exact Hr|].
        + apply Forall_inv_tail in RPc. revert RPc. apply Forall_impl. intros c1'. apply rt_pre_mono. exact (proj1 E2).
        + split; [exact R3|]. split; [exact J3|]. split; [eapply ext0_trans; eauto|]. split; [exact HH3|].
          exists (rc :: rs). split; constructor; try assumption. eapply hdl_ext0; eauto. }
    destruct (KK _ _ _ _ R HJ RPc NBc ARc Hx Ht HH ARn H1) as (R1 & J1 & E1 & HH1 & rs & Fo & Fd).
    destruct (hdl_F2 _ _ _ _ Fo) as (F2 & Cl & Vl & Bl).
    assert (Len : List.length l = List.length (app_occ n)).
    { rewrite <- ARn. rewrite (F2_length _ _ _ Fo). symmetry. exact (F2_length _ _ _ Fd). }
    assert (Fc : Forall (cvh s1) l).
    { clear -Fo. induction Fo as [|a0 t0 l0 ts0 Hh _ IHF]; constructor; [eapply hdl_cvh; eauto|exact IHF]. }
    apply mbind_inv in H. destruct H as (app_id & s2 & H2 & H).
    destruct (eg_add_cvh JJ (JW_pnb c0 c1) (JW_add c0 c1) (JW_sg c0 c1) (JW_ext c0 c1) E n l s1 app_id s2 R1 J1) as (R2 & J2 & E2 & C2 & NS); [|exact Len|exact Fc|exact H2|].
    { intros y Hy. split; [exact (NBn y Hy)|]. destruct (RPn y Hy) as [A|A]; [right; pose proof (proj1 E1); lia|left; exact A]. }
    pose proof (ext0_trans _ _ _ E1 E2) as E12.
    pose proof R2 as (I2 & W2 & S2 & _ & _). destruct C2 as (Ca & Va & Ba).
    assert (HO : handle_ok E s2 app_id (node_t n rs)).
    { apply (bridgeT E s2 W2 app_id n rs l I2 S2 Ca Va NBn Len); [| |exact Vl|exact NS].
      - clear -F2 Cl E2. induction F2 as [|x0 y0 l0 l1 Hxy F IHF]; [constructor|]. inversion Cl; subst.
        constructor; [eapply handle_ok_ext0; eauto|apply IHF; assumption].
      - revert Cl. apply Forall_impl. intros x0. apply covers_ext0. exact E2. }
    pose proof (hit_keep_add _ s1 app_id s2 R1 HH1 H2) as HH2.
    destruct (appid_eqb app_id x') eqn:Eq; inversion H; subst a s2; clear H;
      (split; [exact R2|]); (split; [exact J2|]); (split; [exact E12|]); (split; [exact HH2|]).
    - apply appid_eqb_iff in Eq. subst app_id. exists tt. split; [eapply hdl_ext0; [exact E12|exact Ht]|].
      apply DSr_iff. exists rs. split; [exact Fd|]. right. split; [reflexivity|].
      destruct (hdl_ext0 _ _ _ _ _ E12 Hx) as (Cx & _ & _ & Ox).
      exact (handle_ok_same E s' x' _ _ Cx HO Ox).
    - exists (node_t n rs). split; [split; [exact Ca|split; [exact Va|split; [exact Ba|exact HO]]]|].
      apply DSr_iff. exists rs. split; [exact Fd|]. left. split; [|reflexivity].
      intros En. subst n. rewrite xn_leaf in Len. destruct l as [|? ?]; [|discriminate Len].
      rewrite set_apps_nil in H2. unfold Hit in HH1. rewrite HH1 in H2. inversion H2; subst app_id.
      assert (T : appid_eqb x' x' = true) by (apply appid_eqb_iff; reflexivity). congruence.
  Qed.
End Rel.

Check dts_DSr.
Print Assumptions dts_DSr.
Print Assumptions get_syn_expr_ar.
