(* EGraph/RewriteSoundSubstSem.v — C03, b[x := t]: THE MEANING of what SynExprSubst returns (psubst_denotes, semantic form).
   In an algebra (D, interp) in which the equations E of the state invariant are valid: for handles b' (denoting tb),
   x' = the invocation `eg_add xn` returns for the childless node xn of the pattern x (denoting tx = node_t xn [],
   e.g. `var $1`), t' (denoting tt), the invocation a returned by `syn_expr_subst b' x' t'` denotes a term r with
       eval env r = eval (env[x := eval env tt]) tb          for every environment env,
   i.e. the capture-avoiding substitution, under the premises listed at `syn_expr_subst_sem`.  Assembly of
   RewriteSoundSubstRel.dts_DSr (what is replaced), ExtractSound.get_syn_expr_handle (the extracted term is denoted by
   the synified b'), Sem/SubstSem.DSr_sem (replacement commutes with evaluation). *)
From SE Require Import Slots.SlotMapFacts Group.GroupSound Lang.LangFacts Lang.ShapeFacts Lang.RenameFacts
  Base.TextFacts Parse.Parser
  EGraph.Model EGraph.ModelFacts EGraph.ModelMachine EGraph.UnionFindFacts EGraph.InvariantFacts
  EGraph.UnionInvariantFacts EGraph.AddCoversFacts EGraph.MonotoneFacts EGraph.Mod4Facts EGraph.SoundFacts EGraph.SoundUnion
  EGraph.SoundSyn EGraph.SoundNode EGraph.SoundStruct EGraph.NodePass EGraph.SoundBase EGraph.SoundAddNew EGraph.SoundVals
  EGraph.SoundAddExpr EGraph.SoundPending EGraph.SoundRebuild EGraph.SoundGuard EGraph.SoundFinal EGraph.SoundClosed
  EGraph.Rewrite EGraph.RewriteFacts EGraph.ProgressFacts EGraph.MatchDefs EGraph.MatchFacts EGraph.KidsFacts
  EGraph.MatchVals EGraph.RewriteSoundInst EGraph.RewriteSound EGraph.SynPriv EGraph.SynPrivOps EGraph.MatchValsWin
  EGraph.RewriteSoundSubst EGraph.RewriteSoundSubstTop EGraph.SubstDefs EGraph.LeafHit EGraph.RewriteSoundSubstRel
  EGraph.ExtractSound.
From SE Require EGraph.HashconsAbs.
From SE Require Import Sem.Deriv Sem.DerivFacts Sem.Algebra Sem.AlgebraFacts Sem.EgMachine Explain.CheckerFacts Sem.FpRewrite Sem.SubstSem.
Require Import ZArith Lia ZifyBool ZifyN ZifyNat.
Ltac Zify.zify_post_hook ::= Z.div_mod_to_equations.

Local Notation ectr := Model.ctr.
Local Notation aupd := Sem.Algebra.upd.

(* the map of a total invocation, as a renaming, is a completion *)
Lemma tot_completion : forall s i, tot_inv s i -> completion s i (thru (am i) (fun v => v)).
Proof.
  intros s i (c & Hc & Inj & Tot & NB). split.
  - unfold rok, rokL. rewrite (SS_class s (aid i) c Hc). split.
    + intros y z Hy Hz H. unfold thru in H. destruct (get (am i) y) as [vy|] eqn:Gy; [|exfalso; exact (Tot y Hy Gy)].
      destruct (get (am i) z) as [vz|] eqn:Gz; [|exfalso; exact (Tot z Hz Gz)]. subst vz. exact (Inj _ _ _ Gy Gz).
    + intros y Hy. unfold thru. destruct (get (am i) y) as [vy|] eqn:Gy; [|exfalso; exact (Tot y Hy Gy)].
      apply NB. exact (get_values _ _ _ Gy).
  - intros y v G. unfold thru. rewrite G. reflexivity.
Qed.

Section Sem.
  Variable D : Type.
  Variable interp : nat -> list (sval D) -> D.
  Notation ev := (eval D interp).
  Variable E : equations.
  Hypothesis HV : valid D interp E.
  Variables (c0 c1 : N).
  Variables (x : slot) (xn : node) (b' x' t' : appid) (tb tt : cterm).
  Notation tx := (node_t xn []).
  Notation Phi := (fun env : N -> D => aupd D env x (ev 0 env tt)).

  Hypothesis Bx : is_B x = false.
  Hypothesis xn_leaf : app_occ xn = [].
  (* the x-term looks the slot x up *)
  Hypothesis x_lookup : forall env, ev 0 (Phi env) tx = ev 0 env tt.
  (* LeafHit.v: proved up to the rebuild inside mk_singleton_class, validated executably *)
  Hypothesis hit_keep_add : forall m s b s', RSt E s -> Hit xn x' s -> eg_add m s = Ok (b, s') -> Hit xn x' s'.

  Theorem syn_expr_subst_sem : forall s a s', RSt E s -> JW c0 c1 s ->
    hdl E s b' tb -> hdl E s x' tx -> hdl E s t' tt -> Hit xn x' s -> ~ In x (values_vec (am t')) ->
    (* of the extracted term: the synified b' is total and injective, no value of its map is a private binder name of a
       syntactic node (tot_inv, clear_inv: ExtractSound.v), and Tok (Sem/SubstSem.v): slot names are not reserved; the slot x
       occurs in no node but xn; no binder name of a node is x or a slot tt depends on *)
    (forall sb' s1 T, synify_app_id b' s = Ok (sb', s1) -> get_syn_expr (S (List.length (classes s1))) s1 sb' = Ok T ->
       tot_inv s1 sb' /\ clear_inv s1 sb' /\ Tok D interp x xn tt T) ->
    syn_expr_subst b' x' t' s = Ok (a, s') ->
    RSt E s' /\ JW c0 c1 s' /\ ext0 s s' /\
    exists r, hdl E s' a r /\ forall env, ev 0 env r = ev 0 (Phi env) tb.
  Proof.
    intros s a s' R HJ Hb Hx Ht HH Nx PRE H. unfold syn_expr_subst in H.
    apply mbind_inv in H. destruct H as (sb' & s1 & H1 & H).
    destruct (synify_RSt E b' s sb' s1 R H1) as (R1 & G & Le & X1).
    apply bind_reads_inv in H. destruct H as (T & HT & H).
    pose proof (JW_sg c0 c1 s s1 G Le HJ) as J1.
    destruct (syn_extract_ok (JW c0 c1) (JW_pnb c0 c1) (JW_sg c0 c1) E b' s sb' s1 T R HJ (hdl_cvh _ _ _ _ Hb) H1 HT) as [RP NB].
    pose proof (get_syn_expr_ar _ _ _ _ HT) as AR.
    pose proof (hit_synify xn x' s b' sb' s1 xn_leaf HH H1) as HH1.
    destruct (PRE sb' s1 T H1 HT) as (TI & CI & TK).
    destruct (dts_DSr E c0 c1 x' t' xn tx tt xn_leaf hit_keep_add T s1 a s' R1 J1 RP NB AR
                (hdl_ext0 _ _ _ _ _ X1 Hx) (hdl_ext0 _ _ _ _ _ X1 Ht) HH1 H) as (R2 & J2 & X2 & _ & r & Or & Dr).
    split; [exact R2|]. split; [exact J2|]. split; [eapply ext0_trans; eauto|]. exists r. split; [exact Or|].
    pose proof R as (_ & W & _). destruct Ht as (Ct & Vt & _ & Ot).
    assert (Wt : FpRewrite.wsem D interp tt) by exact (handle_wsem D interp E s t' tt HV W Ct Ot).
    assert (It : forall env z, ev 0 (aupd D env x z) tt = ev 0 env tt).
    { intros env z. exact (handle_indep D interp E s t' tt x HV W Ct Vt Ot Nx Bx env z). }
    destruct (DSr_sem D interp E HV x xn tx tt eq_refl x_lookup Wt It T r TK Dr) as (_ & _ & _ & Q).
    intros env. rewrite (Q env). unfold SubstSem.Phi.
    (* the extracted term is denoted by the synified invocation, which completes b' *)
    pose proof (get_syn_expr_handle E _ s1 sb' T R1 (proj1 J1) TI CI HT) as HOs.
    pose proof (tot_completion s1 sb' TI) as Cs. set (sg := thru (am sb') (fun v => v)) in *.
    destruct (HashconsAbs.synify_app_id_agree b' s sb' s1 H1) as [Ea Ag].
    destruct (hdl_ext0 _ _ _ _ _ X1 Hb) as (_ & _ & _ & Ob).
    assert (Cb : completion s1 b' sg).
    { destruct Cs as [Rk Cm]. split; [unfold rok in *; rewrite <- Ea; exact Rk|].
      intros y v Gy. apply Cm. rewrite (Ag y) by congruence. exact Gy. }
    pose proof (proj2 HOs sg Cs) as D1. pose proof (proj2 Ob sg Cb) as D2. rewrite Ea in D1.
    rewrite (Deriv_sound D interp E HV 0 _ _ D1 (aupd D env x (ev 0 env tt))).
    rewrite (Deriv_sound D interp E HV 0 _ _ D2 (aupd D env x (ev 0 env tt))). reflexivity.
  Qed.
End Sem.

Check syn_expr_subst_sem.
Print Assumptions syn_expr_subst_sem.
