(* EGraph/RewriteSoundSubstTop.v — C03: one iteration of rewriting with rules whose right-hand sides may contain
   b[x := t]: the invariant RSt is kept for E' = E ++ instance pairs, together with priv3 (SynPrivOps.v: the private
   binder names of the syntactic nodes are fresh-kind names below the counter, pairwise distinct across classes).
   The substitutions handed to the appliers are known to have values that are slots of the left-hand side or fresh
   slots drawn in the window [c0, c1) of the matcher phase (MatchValsWin.v), and NO syntactic node has a private
   binder name in that window (bwin c0 c1, kept by the appliers): this is the "no private name" premise that
   RewriteSoundEx.psubst_captures shows to be necessary, established for the matcher's substitutions. *)
From SE Require Import Slots.SlotMapFacts Group.GroupSound Lang.LangFacts Lang.ShapeFacts Lang.RenameFacts
  Base.TextFacts Parse.Parser
  EGraph.Model EGraph.ModelFacts EGraph.ModelMachine EGraph.UnionFindFacts EGraph.InvariantFacts
  EGraph.UnionInvariantFacts EGraph.AddCoversFacts EGraph.MonotoneFacts EGraph.Mod4Facts EGraph.SoundFacts EGraph.SoundUnion
  EGraph.SoundSyn EGraph.SoundNode EGraph.SoundStruct EGraph.NodePass EGraph.SoundBase EGraph.SoundAddNew EGraph.SoundVals
  EGraph.SoundAddExpr EGraph.SoundPending EGraph.SoundRebuild EGraph.SoundGuard EGraph.SoundFinal EGraph.SoundClosed
  EGraph.Rewrite EGraph.RewriteFacts EGraph.ProgressFacts EGraph.MatchDefs EGraph.MatchFacts EGraph.KidsFacts
  EGraph.MatchVals EGraph.RewriteSoundInst EGraph.RewriteSound EGraph.SynPriv EGraph.SynPrivOps EGraph.MatchValsWin
  EGraph.RewriteSoundSubst.
From SE Require Import Sem.Deriv Sem.DerivFacts Sem.AlgebraFacts Sem.EgMachine Explain.CheckerFacts.
Require Import ZArith Lia ZifyBool ZifyN ZifyNat.
Ltac Zify.zify_post_hook ::= Z.div_mod_to_equations.

Local Notation ectr := Model.ctr.

(* the state invariant of the applier phase: priv3, no private binder name in the matcher's window, the window is past *)
Definition JW (c0 c1 : N) (s : egraph) : Prop := priv3 s /\ bwin c0 c1 s /\ c1 <= ectr s.

Lemma JW_pnb : forall c0 c1 s, JW c0 c1 s -> syn_pnb s.
Proof. intros c0 c1 s ((A & _) & _) i c x Hc Hx. exact (proj1 (A i c x Hc Hx)). Qed.

Lemma JW_add : forall c0 c1 E n s a s', RSt E s -> JW c0 c1 s -> Forall (covers s) (app_occ n) ->
  (forall x, In x (all_occ n) -> x mod 4 <> 1 \/ x < ectr s) -> eg_add n s = Ok (a, s') -> JW c0 c1 s'.
Proof.
  intros c0 c1 E n s a s' R (A & B & C) Cv Bn H.
  destruct (RSt_eg_add E n s a s' R Cv Bn H) as (_ & _ & X & _).
  split; [exact (priv3_eg_add E n s a s' R A H)|]. split; [exact (bwin_eg_add E c0 c1 n s a s' R C B H)|].
  pose proof (proj1 X). lia.
Qed.

Lemma JW_sg : forall c0 c1 s s', same_graph s s' -> ectr s <= ectr s' -> JW c0 c1 s -> JW c0 c1 s'.
Proof.
  intros c0 c1 s s' G L (A & B & C). split; [exact (priv3_same_graph s s' G L A)|]. split; [exact (bwin_same_graph c0 c1 s s' G B)|lia].
Qed.

Lemma JW_ext : forall c0 c1 s s', ext s s' -> JW c0 c1 s -> JW c0 c1 s'.
Proof.
  intros c0 c1 s s' X (A & B & C). split; [exact (priv3_ext s s' X A)|]. split; [exact (bwin_ext c0 c1 s s' X B)|].
  pose proof (proj1 X). lia.
Qed.

(* what is known of a match: values are lhs slots or fresh slots of the window [c0, c1) *)
Definition SVW (c0 c1 : N) (r : rule) (sb : subst) : Prop :=
  sub_valsW c0 (r_lhs r) sb /\ forall v a, sub_get sb v = Some a -> forall x, In x (values_vec (am a)) -> x < c1.

Section RewritesX.
  Variable P : equations -> Prop.
  Variable RP : rule -> Prop.
  Hypothesis P_stepW : forall c0 c1 E r sb s den y s2, RP r -> P E -> RSt E s -> JW c0 c1 s -> sub_den E s sb den ->
    SVW c0 c1 r sb -> sub_bound r sb -> cond_holds (r_cond r) sb = Ok true -> pat_okX (ectr s) (r_rhs r) ->
    pattern_subst (r_rhs r) sb s = Ok (y, s2) ->
    P (E ++ [(pat_t den (r_lhs r), den_of s2 y)]).

  Theorem apply_rewrites_sched_soundX : forall sched rs E s b s', sched_sub sched -> P E -> RSt E s -> priv3 s ->
    kids_ok s -> m4 s -> rules_below (ectr s) rs -> Forall RP rs -> Forall rule_nbX rs ->
    apply_rewrites_sched sched rs s = Ok (b, s') ->
    exists E', (forall e, In e E -> In e E') /\ P E' /\ RSt E' s' /\ priv3 s' /\ ext0 s s'.
  Proof.
    intros sched rs E s b s' SS HP R P3 K M RB FP FN H. pose proof R as (I3 & _). unfold apply_rewrites_sched in H.
    apply bind_reads_inv in H. destruct H as (p0 & P0 & H).
    apply mbind_inv in H. destruct H as (ts & s1 & H1 & H). cbv zeta in H.
    pose proof (c_searchers rs s ts s1 H1) as Lc. pose proof (sg_searchers rs s ts s1 H1) as G1. unfold cle in Lc.
    assert (FNl : Forall (fun r => forall x, In x (pslots (r_lhs r)) -> is_B x = false) rs).
    { revert FN. apply Forall_impl. intros r [(_ & _ & A) _]. exact A. }
    pose proof (searchers_ok_nb rs s ts s1 I3 K M RB FNl H1) as SC.
    pose proof (searchers_vals_win rs s ts s1 I3 K M H1) as SVv.
    apply mbind_inv in H. destruct H as (u & s2 & H2 & H).
    apply bind_reads_inv in H. destruct H as (p1 & P1 & H). inversion H; subst b s2; clear H.
    assert (M' : m4 s1).
    { refine (proj1 (h_mapM _ _ (fun r => ematch_all (r_lhs r)) rs _ s ts s1 H1 M)). intros r. apply h_ematch_all. }
    assert (R1 : RSt E s1) by (apply (RSt_same_graph E s s1 R G1 Lc); exact (proj1 M')).
    assert (RB' : rules_below (ectr s1) rs) by (eapply rules_below_mono; [exact Lc|exact RB]).
    assert (X01 : ext0 s s1) by (destruct G1 as (_ & Gc & _); exact (ext0_of_classes s s1 Gc Lc)).
    assert (JW1 : JW (ectr s) (ectr s1) s1).
    { split; [exact (priv3_same_graph s s1 G1 Lc P3)|]. split; [|lia].
      intros i c p Hc Hp. left. destruct G1 as (_ & Gc & _). rewrite (get_class_classes s s1 i Gc) in Hc.
      exact (proj2 (proj1 P3 i c p Hc Hp)). }
    destruct (appliers_soundX (JW (ectr s) (ectr s1)) (JW_pnb _ _) (JW_add _ _) (JW_sg _ _) (JW_ext _ _)
                P RP (SVW (ectr s) (ectr s1)) (P_stepW (ectr s) (ectr s1))
                (combine rs (mapi_from sched O ts)) E s1 u s' HP R1 JW1) as (E' & I' & P' & R' & J' & X'); [|exact H2|].
    { pose proof (mapi_from_sched_cov (fun sb => sub_cov s1 sb /\ sub_below s1 sb /\ sub_nb sb) sched SS ts O SC) as SC'.
      apply Forall_forall. intros [r l] Hin. cbn [fst snd].
      pose proof (in_combine_l _ _ _ _ Hin) as Hr. pose proof (in_combine_r _ _ _ _ Hin) as Hl.
      destruct (proj1 (Forall_forall _ _) RB' r Hr) as [B1 B2].
      split; [exact (proj1 (Forall_forall _ _) FP r Hr)|]. split; [exact (proj1 (Forall_forall _ _) FN r Hr)|].
      split; [exact B1|]. split; [exact B2|]. split; [exact (proj1 (Forall_forall _ _) SC' l Hl)|].
      pose proof (combine_sched_valsW (ectr s) sched SS rs ts SVv O (r, l) Hin) as W. cbn [fst snd] in W.
      pose proof (proj1 (Forall_forall _ _) SC' l Hl) as S3.
      apply Forall_forall. intros sb Hsb. split; [exact (proj1 (Forall_forall _ _) W sb Hsb)|].
      destruct (proj1 (Forall_forall _ _) S3 sb Hsb) as (_ & Bb & _). exact Bb. }
    exists E'. split; [exact I'|]. split; [exact P'|]. split; [exact R'|]. split; [exact (proj1 J')|eapply ext0_trans; eauto].
  Qed.

  Corollary apply_rewrites_soundX : forall rs E s b s', P E -> RSt E s -> priv3 s ->
    kids_ok s -> m4 s -> rules_below (ectr s) rs -> Forall RP rs -> Forall rule_nbX rs ->
    apply_rewrites rs s = Ok (b, s') ->
    exists E', (forall e, In e E -> In e E') /\ P E' /\ RSt E' s' /\ priv3 s' /\ ext0 s s'.
  Proof. intros rs E s b s'. apply apply_rewrites_sched_soundX. intros k l. apply incl_refl. Qed.
End RewritesX.

(* no hypothesis on the rules: P := True *)
Corollary apply_rewrites_keeps_RSt : forall rs E s b s', RSt E s -> priv3 s -> kids_ok s -> m4 s ->
  rules_below (ectr s) rs -> Forall rule_nbX rs -> apply_rewrites rs s = Ok (b, s') ->
  exists E', (forall e, In e E -> In e E') /\ RSt E' s' /\ priv3 s' /\ ext0 s s'.
Proof.
  intros rs E s b s' R P3 K M RB FN H.
  destruct (apply_rewrites_soundX (fun _ => True) (fun _ => True) (fun _ _ _ _ _ _ _ _ _ _ _ _ _ _ _ _ _ _ _ => I)
              rs E s b s' I R P3 K M RB (proj2 (Forall_forall _ _) (fun _ _ => I)) FN H) as (E' & A & _ & C).
  exists E'. split; assumption.
Qed.

Check apply_rewrites_sched_soundX.
Print Assumptions apply_rewrites_sched_soundX.
Print Assumptions apply_rewrites_keeps_RSt.
