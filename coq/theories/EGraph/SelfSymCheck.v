(* EGraph/SelfSymCheck.v — executable forms of the invariants of EGraph/SelfSymDefs.v and their evaluation on the 13
   histories of CongruenceFacts.v, AFTER EVERY handle_pending STEP of every rebuild, after every union_internal and at
   the entry of the rebuild of every insertion (the formulations were validated this way BEFORE proving).
   - `sse_b` (sound: `sse_b_sound`): every stored entry is pending or has all its induced self-symmetries (`sse noex`).
   - `src_allb`: SOURCE COHERENCE (`srcx noex`) for every stored entry, pending or not; the witness renaming is searched
     among the maps from the slots of the syntactic node to the slots of the stored e-node (+ one dummy per slot).
   - `ss_histories_checked`: both hold at all these points of all 13 histories.
   - `exemption_needed`: the in-flight exemption of `sse` is necessary: handle_pending WITHOUT its final
     determine_self_symmetries leaves a stored, non-pending entry without its symmetries (sse_b false), the real
     handle_pending does not (sse_b true).  (That `ss_ok` itself is false between union_internal and rebuild is
     `node_congruence_false_mid_union` of CongruenceFacts.v.) *)
From SE Require Import Slots.SlotMapFacts Group.GroupSound Lang.LangFacts Lang.ShapeFacts Lang.RenameFacts
  Slots.SlotFacts Base.TextFacts EGraph.Model EGraph.ModelFacts EGraph.ModelMachine EGraph.PendingFacts EGraph.UnionFindFacts
  EGraph.InvariantFacts EGraph.UnionInvariantFacts EGraph.AddCoversFacts EGraph.MonotoneFacts EGraph.HashconsShape
  EGraph.Mod4Facts EGraph.HashconsAbs EGraph.Model9 EGraph.HashconsFacts EGraph.NodeCong EGraph.KidEqFacts EGraph.ShapeCong
  EGraph.CongruenceFacts EGraph.SelfSymDefs.
Require Import ZArith Lia ZifyBool ZifyN ZifyNat.

Local Notation inv := inverse_nocheck.
Local Notation "a ** b" := (compose_partial a b) (at level 40, left associativity).

(* ------------------------------------------------------------------ *)
(* 1. the invariant with the pending exemption *)

Definition sse_b (s : egraph) : bool :=
  forallb (fun k => match get_class s (N.of_nat k) with
                    | Ok c => forallb (fun e => pend_true s (fst e) || ss_entryb s (N.of_nat k) c e) (c_nodes c)
                    | Err _ => true end) (seq 0 (List.length (classes s))).

Theorem sse_b_sound : forall s, sse_b s = true -> sse noex s.
Proof.
  intros s H i sh cb src St. destruct (stored_get _ _ _ _ St) as (c & Hc & G). unfold sse_b in H.
  assert (Hk : In (N.to_nat i) (seq 0 (List.length (classes s)))).
  { apply in_seq. unfold get_class in Hc. destruct (nth_opt (classes s) (N.to_nat i)) as [c'|] eqn:E; [|discriminate].
    apply nth_opt_lt in E. lia. }
  pose proof (proj1 (forallb_forall _ _) H _ Hk) as H1. cbn beta in H1. rewrite N2Nat.id, Hc in H1.
  pose proof (proj1 (forallb_forall _ _) H1 _ (na_get_in _ _ _ G)) as H2. cbn [fst] in H2.
  apply orb_true_iff in H2. destruct H2 as [P|H2].
  - left. unfold pend_true in P. unfold pendT. destruct (na_get (pending s) sh) as [[|]|]; try discriminate. reflexivity.
  - right. right. intros c' vs v b0 bv Hc' V Iv W0 Wv. rewrite Hc in Hc'. inversion Hc'; subst c'.
    unfold ss_entryb in H2. cbn [fst snd] in H2. rewrite V, W0 in H2.
    pose proof (proj1 (forallb_forall _ _) H2 _ Iv) as H3. cbn beta in H3. rewrite Wv, node_eqb_refl in H3.
    unfold eqtb in H3. destruct (eg_eq s _ _) as [[|]|]; try discriminate. reflexivity.
Qed.

(* ------------------------------------------------------------------ *)
(* 2. source coherence, executably *)

Definition lk (l : list (slot * slot)) (x : slot) : slot :=
  match find (fun p => fst p =? x) l with Some p => snd p | None => x end.
Definition g_of2 (rp rb : list (slot * slot)) : bool -> slot -> slot := fun b x => if b then lk rp x else lk rb x.

Fixpoint cands (ks : list slot) (vs : list slot) (d : N) : list (list (slot * slot)) :=
  match ks with
  | [] => [[]]
  | k :: t => flat_map (fun rest => map (fun v => (k, v) :: rest) (vs ++ [d])) (cands t vs (d + 4))
  end.

Definition kid_eqb (s : egraph) (a b : appid) : bool := coversb s a && coversb s b && eqtb s a b.

Definition srcok_with (s : egraph) (i : N) (c : eclass) (N1 syn : node) (src : N) (rb rp : list (slot * slot)) : bool :=
  let g := g_of2 rp rb in
  let R := RenameFacts.ren g syn in
  nodupb (map snd rp) &&
  node_eqb N1 (set_apps R (app_occ N1)) &&
  forallb2 (kid_eqb s) (app_occ R) (app_occ N1) &&
  kid_eqb s {| aid := src; am := from_iter rp |} {| aid := i; am := identity (c_slots c) |}.

Definition srcokb (s : egraph) (i : N) (c : eclass) (e : node * (slotmap * N)) : bool :=
  let sh := fst e in let cb := fst (snd e) in let src := snd (snd e) in
  match apply_slotmap false cb sh, get_class s src with
  | Ok N1, Ok csrc =>
      let syn := c_syn csrc in
      let rb := combine (binders syn) (binders N1) in
      existsb (srcok_with s i c N1 syn src rb) (cands (slots syn) (slots N1) 1000001)
  | _, _ => false
  end.

Definition src_allb (s : egraph) : bool :=
  forallb (fun k => match get_class s (N.of_nat k) with
                    | Ok c => forallb (srcokb s (N.of_nat k) c) (c_nodes c)
                    | Err _ => true end) (seq 0 (List.length (classes s))).

(* ------------------------------------------------------------------ *)
(* 3. instrumented copies of rebuild / eg_union / add_expr: the checks after every step *)

Definition chkb (s : egraph) : bool := sse_b s && src_allb s.

Fixpoint rebuild_ss (fuel : nat) (acc : bool) : M bool :=
  match fuel with
  | O => fail OutOfFuel
  | S f =>
      dom p <- gets pending;
      match p with
      | [] => ret acc
      | (sh, ty) :: rest =>
          dom _ <- modify (fun s => set_pending s rest);
          dom _ <- handle_pending sh ty;
          dom c <- gets chkb;
          rebuild_ss f (acc && c)
      end
  end.
Definition eg_union_ss (l r : appid) : M bool :=
  dom _ <- synify_app_id l; dom _ <- synify_app_id r; dom out <- uint l r;
  dom c <- gets chkb; rebuild_ss rebuild_fuel c.
Definition mk_singleton_class_ss (syn_enode : node) : M (appid * bool) :=
  let old_slots := slots syn_enode in
  dom fresh_to_old <- with_ctr (bijection_from_fresh_to old_slots);
  let old_to_fresh := inverse_nocheck fresh_to_old in
  let fresh_slots := values old_to_fresh in
  dom syn_fresh <- with_ctr (apply_slotmap_fresh false old_to_fresh syn_enode);
  dom i <- alloc_eclass fresh_slots syn_fresh;
  dom t <- Model.lift (wshape syn_fresh);
  dom _ <- raw_add_to_class i t i;
  dom _ <- pending_insert (fst t) true;
  dom c <- gets chkb;
  dom c' <- rebuild_ss rebuild_fuel c;
  ret ({| aid := i; am := fresh_to_old |}, c').
Definition add_internal_ss (t : node * slotmap) : M (appid * bool) :=
  dom lk <- reads (fun s => lookup_internal s t);
  match lk with
  | Some x => ret (x, true)
  | None =>
      dom en <- refresh_step (fst t);
      dom en <- Model.lift (apply_slotmap false (snd t) en);
      dom en <- synify_enode en;
      dom syn <- mk_singleton_class_ss en;
      dom a <- reads (fun s => semify_app_id s (fst syn));
      ret (a, snd syn)
  end.
Definition eg_add_ss (n : node) : M (appid * bool) :=
  dom t <- reads (fun s => shape s n); add_internal_ss t.
Fixpoint add_expr_ss (t : rterm) : M (appid * bool) :=
  match t with
  | RT n ch =>
      dom l <- (fix go (l : list rterm) : M (list appid * bool) :=
                  match l with
                  | [] => ret ([], true)
                  | c :: r => dom a <- add_expr_ss c; dom r' <- go r; ret (fst a :: fst r', snd a && snd r')
                  end) ch;
      if Nat.ltb (List.length (app_occ n)) (List.length (fst l)) then fail OutOfBounds
      else dom a <- eg_add_ss (set_apps n (fst l)); ret (fst a, snd l && snd a)
  end.
Fixpoint run_ss (terms : list rterm) (ops : list hop) (hs : list appid) (s : egraph) : bool :=
  match ops with
  | [] => true
  | o :: t =>
    let r := match o with
      | HAdd k => match nth_opt terms k with None => Err OutOfBounds
                  | Some tm => match add_expr_ss tm s with Ok (a, s') => Ok (hs ++ [fst a], snd a, s') | Err e => Err e end end
      | HUnion i j _ => match nth_opt hs i, nth_opt hs j with
                  | Some a, Some b => match eg_union_ss a b s with Ok (c, s') => Ok (hs, c, s') | Err e => Err e end
                  | _, _ => Err OutOfBounds end
      end in
    match r with
    | Err e => false
    | Ok (hs', c, s') => c && chkb s' && run_ss terms t hs' s'
    end
  end.

Example ss_histories_checked : map (fun p => run_ss (fst p) (snd p) [] empty_egraph) cong_hists
  = [true; true; true; true; true; true; true; true; true; true; true; true; true].
Proof. vm_compute. reflexivity. Qed.

(* ------------------------------------------------------------------ *)
(* 4. the exemption of the entry in flight is needed *)

(* handle_pending without its final determine_self_symmetries *)
Definition handle_pending_nodss (sh : node) (ty : bool) : M unit :=
  dom i <- reads (fun s => match na_get (hashcons s) sh with Some i => Ok i | None => Err UnwrapNone end);
  if negb ty then ret tt else
  dom c <- reads (fun s => get_class s i);
  dom psn <- Model.lift (match na_get (c_nodes c) sh with Some p => Ok p | None => Err UnwrapNone end);
  let '(bij0, src_id) := psn in
  dom nd <- Model.lift (apply_slotmap false bij0 sh);
  dom _ <- raw_remove_from_class i sh;
  dom sl <- reads (fun s => class_slots s i);
  let app_i := {| aid := i; am := identity sl |} in
  dom enode <- reads (fun s => find_enode s nd);
  dom i1 <- reads (fun s => find_applied_id s app_i);
  dom ei <- hp_loop 100 src_id enode i1;
  let '(enode, i1) := ei in
  dom t <- reads (fun s => shape s enode);
  dom lk <- reads (fun s => lookup_internal s t);
  match lk with
  | Some _ => fail AssertFailed
  | None =>
      let '(sh', bij) := t in
      dom m <- fill_fresh (values bij) (inverse_nocheck (am i1));
      let bij' := compose_partial bij m in
      raw_add_to_class (aid i1) (sh', bij') src_id
  end.

(* f(x,y) = f(y,x) with the parent u(f(x,y)): after union_internal the entry of u is pending; popping it and
   re-inserting it WITHOUT determine_self_symmetries leaves it stored, not pending, without its symmetry; the real
   handle_pending records the symmetry *)
Example exemption_needed :
  match mid_state [xs2 2 2 6; xs2 2 6 2; xun 3 (xs2 2 2 6)] [HAdd 0; HAdd 1; HAdd 2] 0 1 with
  | Ok (hs, s) =>
      match pending s with
      | (sh, ty) :: rest =>
          let s1 := set_pending s rest in
          match handle_pending_nodss sh ty s1, handle_pending sh ty s1 with
          | Ok (_, s2), Ok (_, s3) => Some (sse_b s, ty, sse_b s2, src_allb s2, List.length (pending s2), sse_b s3, List.length (pending s3))
          | _, _ => None end
      | [] => None end
  | Err _ => None end
  = Some (true, true, false, true, 0%nat, true, 0%nat).
Proof. vm_compute. reflexivity. Qed.

Print Assumptions sse_b_sound.
Print Assumptions ss_histories_checked.
Print Assumptions exemption_needed.
