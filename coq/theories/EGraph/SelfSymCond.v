(* EGraph/SelfSymCond.v — SELF-SYMMETRY COMPLETENESS (`ss_ok` of CongruenceFacts.v: every symmetry of a stored e-node
   that is induced by symmetries of its children is in the group of its class) holds in every state in which an
   operation has returned.  Definitions and the union-core frame are in EGraph/SelfSymDefs.v, executable validation in
   EGraph/SelfSymCheck.v.

   THE INVARIANT (two parts, both validated executably after every handle_pending step / union_internal / at the entry
   of every rebuild of 13 histories BEFORE proving: SelfSymCheck.ss_histories_checked):
   (1) `sse E s`  : every stored entry sh |-> (cb, src) of class i is PENDING (type Full), or in the exception set E
       (the entry in flight inside handle_pending: SelfSymCheck.exemption_needed shows that the exemption is needed),
       or `ss_ent s i sh cb` (= `ss_at` for that entry).  `sse noex s /\ pending s = [] -> ss_ok s` (`sse_ss_ok`).
   (2) `srcx E s` : SOURCE COHERENCE of every stored entry (no pending exemption): the e-node sh[cb] is the syntactic
       node of src renamed by some g with children replaced by eg-equal ones, and src[g] is eg-equal to i[identity].
       This connects the stored bijection cb (used by lookup_internal, hence by ss_ok) with `find (src[identity])`, the
       invocation on which determine_self_symmetries works.

   PROVED HERE (closed at End Cond under the five hypotheses H1-H5 listed in Section Cond, each a universally
   quantified statement about ONE model function on states with explicit invariants):
   - SelfSymDefs: the frame relation `frx` through move_to / shrink_slots / union_leaders / union_internal (a stored,
     non-pending entry of the later state was stored in the same class with the same bijection and the union-find
     entries and groups of its children are unchanged: every class whose entry or group changes has its usages made
     pending by touched_class); `sse_step`: frx + eqmono (MonotoneFacts) + class persistence keep `sse`; `sse_uint`.
   - here: the same through handle_shrink / hp_loop / handle_congruence / determine_self_symmetries; coherence of the
     entry in flight (`flight_find`, `flight_hp_loop`); `hp_main` (one handle_pending step keeps sse /\ srcx; the
     re-added entry gets its symmetries from H4), `rebuild_main`, `eg_union_main`, `mk_singleton_main`,
     `add_internal_main`, `gb_add_expr`, `gb_run_ops`, `reachable_ss_ok_cond`, `node_congruence_reachable_cond`,
     `union_congruence_reachable_cond`.
   The hypotheses are theorems of EGraph/SelfSymUnion.v (H1, H2), SelfSymReadd.v (H3), SelfSymDss.v (H4), SelfSymNew.v (H5);
   they are discharged in EGraph/SelfSymFacts.v (`reachable_ss_ok`, unconditional). *)
From SE Require Import Slots.SlotMapFacts Group.GroupSound Lang.LangFacts Lang.ShapeFacts Lang.RenameFacts
  Slots.SlotFacts Base.TextFacts EGraph.Model EGraph.ModelFacts EGraph.ModelMachine EGraph.PendingFacts EGraph.UnionFindFacts
  EGraph.InvariantFacts EGraph.UnionInvariantFacts EGraph.AddCoversFacts EGraph.MonotoneFacts EGraph.HashconsShape
  EGraph.Mod4Facts EGraph.HashconsAbs EGraph.Model9 EGraph.HashconsFacts EGraph.NodeCong EGraph.KidEqFacts EGraph.ShapeCong
  EGraph.CongruenceFacts EGraph.SelfSymDefs.
From SE Require EGraph.SoundAddNew.
Require Import ZArith Lia ZifyBool ZifyN ZifyNat.

Local Notation "a ** b" := (compose_partial a b) (at level 40, left associativity).
Local Notation inv := inverse_nocheck.
Local Notation ectr := Model.ctr.

(* ================================================================== *)
(* 8. the conditional development: rebuild, union, insertion *)

(* mk_singleton_class without its final rebuild (only used to transport `m4`) *)
Definition mk_prefix (syn_enode : node) : M unit :=
  let old_slots := slots syn_enode in
  dom fresh_to_old <- with_ctr (bijection_from_fresh_to old_slots);
  let old_to_fresh := inverse_nocheck fresh_to_old in
  let fresh_slots := values old_to_fresh in
  dom syn_fresh <- with_ctr (apply_slotmap_fresh false old_to_fresh syn_enode);
  dom i <- alloc_eclass fresh_slots syn_fresh;
  dom t <- Model.lift (wshape syn_fresh);
  dom _ <- raw_add_to_class i t i;
  pending_insert (fst t) true.

Lemma h_mk_prefix : forall n, pres4 (mk_prefix n).
Proof.
  intros n. unfold mk_prefix. cbv zeta.
  eapply h_bind; [apply (h_with_ctr _ _ K1)|intros f2o Hf].
  { intros c Hc. split; [eapply ok1_step; [eassumption|apply bijection_from_fresh_to_step]|apply bff_K1; assumption]. }
  eapply h_bind; [apply (h_with_ctr _ _ (fun sf => S1 (slots sf)))|intros sf Hsf].
  { intros c Hc. split; [eapply ok1_step; [eassumption|apply apply_slotmap_fresh_step]|].
    apply asf_slots_ok1; [apply V1_inverse|]; assumption. }
  eapply h_bind; [apply h_alloc_eclass|intros i _]; [apply S1_values; apply V1_inverse; assumption|assumption|].
  eapply h_bind; [apply (h_lift _ _ (fun t => V1 (snd t)))|intros [sh bij] Ht].
  { intros [sh bij] E. cbn [snd]. eapply wshape_V1; [exact E|]. apply S1_slots_pub. assumption. }
  cbn [snd fst] in *.
  eapply h_bind; [apply h_raw_add; assumption|intros ? _]. apply h_pending_insert.
Qed.

Lemma mk_prefix_run : forall en s f2o c2 synf i s3 sh bij s4 s5,
  bijection_from_fresh_to (slots en) (ectr s) = (f2o, c2) ->
  apply_slotmap_fresh false (inv f2o) en c2 = (synf, c2) ->
  alloc_eclass (values (inv f2o)) synf (set_ctr (set_ctr s c2) c2) = Ok (i, s3) ->
  wshape synf = Ok (sh, bij) -> raw_add_to_class i (sh, bij) i s3 = Ok (tt, s4) ->
  pending_insert sh true s4 = Ok (tt, s5) -> mk_prefix en s = Ok (tt, s5).
Proof.
  intros en s f2o c2 synf i s3 sh bij s4 s5 BF ASF AL Hsh RA PI.
  unfold mk_prefix. cbv zeta. unfold mbind at 1. unfold with_ctr at 1. rewrite BF.
  unfold mbind at 1. unfold with_ctr at 1. cbn [Model.ctr set_ctr]. rewrite ASF.
  unfold mbind at 1. rewrite AL. unfold mbind at 1. unfold Model.lift. rewrite Hsh.
  unfold mbind at 1. rewrite RA. cbn [fst]. exact PI.
Qed.

Section Cond.
  (* H1, H2: the union core keeps source coherence *)
  Hypothesis SRC_uint : forall E l r s b s', inv3 s -> m4 s -> tab_ok s -> covers s l -> covers s r ->
    uint l r s = Ok (b, s') -> srcx E s -> srcx E s'.
  Hypothesis SRC_shrink_slots : forall E from cap s x s', inv3 s -> m4 s -> tab_ok s -> lcanon s from ->
    shrink_slots uint from cap s = Ok (x, s') -> srcx E s -> srcx E s'.
  (* H3: the entry re-added by handle_pending is coherent with its source *)
  Hypothesis SRC_readd : forall s enode i1 src sh' bij m sC x sD,
    inv3 s -> m4 s -> tab_ok s -> srcok_inv s i1 enode src -> lcanon s i1 ->
    sset_subset (values (am i1)) (slots enode) = true -> NoDup (binders enode) ->
    (exists n0, find_enode s n0 = Ok enode) ->
    shape s enode = Ok (sh', bij) -> fill_fresh (values bij) (inv (am i1)) s = Ok (m, sC) ->
    raw_add_to_class (aid i1) (sh', bij ** m) src sC = Ok (x, sD) -> inv3 sD ->
    srcok sD (aid i1) sh' (bij ** m) src.
  (* H4: determine_self_symmetries establishes the induced symmetries of a coherent, canonical entry
     (when it leaves the entry in place and the classes of its children untouched) *)
  Hypothesis DSS_EST : forall s src x s' i sh cb,
    inv3 s -> m4 s -> tab_ok s -> stored s i sh (cb, src) -> canon s sh -> srcok s i sh cb src ->
    determine_self_symmetries src s = Ok (x, s') -> inv3 s' -> m4 s' ->
    stored s' i sh (cb, src) -> (forall j, In j (node_ids sh) -> unch s s' j) -> srcok s' i sh cb src ->
    (forall k, In k (pub_occ sh) -> get cb k <> None) ->
    ss_ent s' i sh cb.

  Lemma srcx_pcc_uint : forall E s0 s i pc1 pc2 ab s1 b s', inv3 s0 -> ext s0 s -> inv3 s -> m4 s -> tab_ok s ->
    pc_from_src_id s0 i = Ok pc1 -> lcanon s0 (snd pc2) ->
    pc_congruence pc1 pc2 s = Ok (ab, s1) -> uint (fst ab) (snd ab) s1 = Ok (b, s') ->
    srcx E s -> srcx E s'.
  Proof.
    intros E s0 s i pc1 pc2 ab s1 b s' [[Hs0 Hb0] _] E0 I3 M T P1 L2 H U X.
    destruct (pc_props s0 i pc1 Hs0 P1) as (L1 & c & Hc & Oc).
    destruct (canon_wf_inj _ _ (proj2 L2)) as [W2 I2].
    destruct (pcc_injective s pc1 pc2 ab s1) as (F1 & F2 & F3 & F4); try assumption.
    { intros x Hx. assert (x < ectr s0) by (apply (Hb0 i c x Hc); apply Oc; apply pub_occ_all_occ; assumption).
      destruct E0 as (L & _). lia. }
    destruct (semn_step3 _ _ (s_pc_congruence _ _ _ _ _ H) (n_pc_congruence _ _ _ _ _ H) I3) as [Hs1 E1].
    pose proof (ext_trans _ _ _ E0 E1) as E01.
    assert (C1 : covers s1 (fst ab)).
    { rewrite F1. apply (covers_ext s0 s1); [assumption|]. apply canon_covers. apply L1. }
    assert (C2 : covers s1 (snd ab)).
    { pose proof (canon_covers _ _ (proj2 L2)) as C. apply (covers_ext s0 s1 _ E01) in C.
      destruct C as (c2 & Hc2 & _ & Sk). exists c2. rewrite F2. split; [assumption|]. split; [assumption|].
      intros k Hk. apply F4. apply Sk. assumption. }
    pose proof (pcc_ctr_only _ _ _ _ _ H) as CO.
    apply (SRC_uint E _ _ s1 b s' Hs1 (proj1 (h_pc_congruence _ _ _ _ _ H M)) (hce_tab _ _ (hce_ctr_only TT s s1 CO (tab_hce_TT s T))) C1 C2 U).
    apply (srcx_semR E s s1 (proj1 I3) (s_pc_congruence _ _ _ _ _ H)); [|exact X].
    intros j y p. apply stored_ctr_only. exact CO.
  Qed.

  Lemma srcx_handle_shrink : forall E src s x s', inv3 s -> m4 s -> tab_ok s ->
    handle_shrink_in_upwards_merge src s = Ok (x, s') -> srcx E s -> srcx E s'.
  Proof.
    intros E src s x s' I3 M T H X. pose proof I3 as [[Hs Hb] _]. unfold handle_shrink_in_upwards_merge in H.
    apply bind_reads_inv in H. destruct H as (pc1 & P1 & H).
    apply bind_reads_inv in H. destruct H as (n2 & _ & H).
    apply mbind_inv in H. destruct H as ([a b] & s1 & H1 & H).
    pose proof (pc_congruence_fst _ _ _ _ _ H1) as Fa. cbn [fst] in Fa. subst a.
    destruct (pc_props s src pc1 Hs P1) as (L1 & _).
    pose proof (s_pc_congruence _ _ _ _ _ H1) as S1.
    destruct (semn_step3 _ _ S1 (n_pc_congruence _ _ _ _ _ H1) I3) as [Hs1 E1].
    pose proof (pcc_ctr_only _ _ _ _ _ H1) as CO.
    apply (SRC_shrink_slots E _ _ s1 x s' Hs1 (proj1 (h_pc_congruence _ _ _ _ _ H1 M)) (hce_tab _ _ (hce_ctr_only TT s s1 CO (tab_hce_TT s T)))
             (lcanon_sem _ _ _ (proj1 S1) L1) H).
    apply (srcx_semR E s s1 (proj1 I3) S1); [|exact X]. intros j y p. apply stored_ctr_only. exact CO.
  Qed.

  Lemma srcx_hp_loop : forall E fuel src enode i s r s', inv3 s -> m4 s -> tab_ok s ->
    hp_loop fuel src enode i s = Ok (r, s') -> srcx E s -> srcx E s'.
  Proof.
    intros E. induction fuel as [|f IH]; intros src enode i s r s' I3 M T H X; cbn [hp_loop] in H; [discriminate|].
    destruct (sset_subset (values (am i)) (slots enode)).
    - inversion H; subst. exact X.
    - apply mbind_inv in H. destruct H as (u & s1 & H1 & H).
      apply bind_reads_inv in H. destruct H as (enode' & _ & H).
      apply bind_reads_inv in H. destruct H as (i' & _ & H).
      eapply IH; [exact (proj1 (inv3_handle_shrink _ _ _ _ H1 I3))|exact (proj1 (h_handle_shrink _ _ _ _ H1 M))| |exact H|eapply srcx_handle_shrink; eauto].
      exact (hce_tab _ _ (hce_handle_shrink TT _ _ _ _ H1 (tab_hce_TT s T))).
  Qed.

  Lemma srcx_handle_congruence : forall E src s pc1 x s', inv3 s -> m4 s -> tab_ok s -> pc_from_src_id s src = Ok pc1 ->
    handle_congruence pc1 s = Ok (x, s') -> srcx E s -> srcx E s'.
  Proof.
    intros E src s pc1 x s' I3 M T P1 H X. unfold handle_congruence in H.
    apply bind_reads_inv in H. destruct H as (sh & _ & H).
    apply bind_reads_inv in H. destruct H as (pc2 & P2 & H).
    apply mbind_inv in H. destruct H as (ab & s1 & H1 & H).
    apply mbind_inv in H. destruct H as (b & s2 & H2 & H). inversion H; subst x s2; clear H.
    unfold pc_from_shape in P2. destruct (na_get (hashcons s) (fst sh)) as [i2|]; [|discriminate].
    destruct (get_class s i2) as [c2|]; cbn [bind] in P2; [|discriminate].
    destruct (na_get (c_nodes c2) (fst sh)) as [[bj src2]|]; [|discriminate].
    destruct (pc_props s src2 pc2 (proj1 (proj1 I3)) P2) as (L2 & _).
    exact (srcx_pcc_uint E s s src pc1 pc2 ab s1 b s' I3 (ext_refl s) I3 M T P1 L2 H1 H2 X).
  Qed.

  Lemma srcx_determine_self_symmetries : forall E src s x s', inv3 s -> m4 s -> tab_ok s ->
    determine_self_symmetries src s = Ok (x, s') -> srcx E s -> srcx E s'.
  Proof.
    intros E src s x s' I3 M T H X. unfold determine_self_symmetries in H.
    apply bind_reads_inv in H. destruct H as (pc1 & P1 & H).
    apply mbind_inv in H. destruct H as (w & s9 & Hw & H). apply lift_inv in Hw. destruct Hw as [Hw ->].
    cbv zeta in H. apply bind_reads_inv in H. destruct H as (vs & _ & H).
    destruct (pc_props s src pc1 (proj1 (proj1 I3)) P1) as (L1 & _).
    assert (G : forall vs s1 x s', inv3 s1 -> m4 s1 -> tab_ok s1 -> ext s s1 -> srcx E s1 ->
              iterM (fun pn2 => dom w2 <- Model.lift (wshape pn2);
                       if node_eqb (fst w) (fst w2) then
                         dom ab <- pc_congruence pc1 (pn2, snd pc1); dom _ <- uint (fst ab) (snd ab); ret tt
                       else ret tt) vs s1 = Ok (x, s') -> srcx E s').
    { clear H vs x s' X. induction vs as [|pn2 t IH]; intros s1 x s' Hs1 M1 T1 E01 X1 H; cbn [iterM] in H.
      - inversion H; subst. exact X1.
      - apply mbind_inv in H. destruct H as (u & s2 & H1 & H).
        assert (S12 : inv3 s2 /\ m4 s2 /\ tab_ok s2 /\ ext s1 s2 /\ srcx E s2).
        { apply mbind_inv in H1. destruct H1 as (w2 & s9 & Hw2 & H1). apply lift_inv in Hw2. destruct Hw2 as [_ ->].
          destruct (node_eqb (fst w) (fst w2)); [|inversion H1; subst; split; [assumption|split; [assumption|split; [assumption|split; [apply ext_refl|assumption]]]]].
          apply mbind_inv in H1. destruct H1 as (ab & s3 & H3 & H1).
          apply mbind_inv in H1. destruct H1 as (b & s4 & H4 & H1). inversion H1; subst u s4; clear H1.
          destruct (inv3_pcc_uint s s1 src pc1 (pn2, snd pc1) ab s3 b s2 I3 E01 Hs1 P1 L1 H3 H4) as [A B].
          split; [exact A|]. split; [exact (proj1 (h_uint _ _ _ _ _ H4 (proj1 (h_pc_congruence _ _ _ _ _ H3 M1))))|]. split; [|split; [exact B|]].
          - exact (hce_tab _ _ (hce_uint TT _ _ _ _ _ H4 (hce_pc_congruence TT _ _ _ _ _ H3 (tab_hce_TT _ T1)))).
          - exact (srcx_pcc_uint E s s1 src pc1 (pn2, snd pc1) ab s3 b s2 I3 E01 Hs1 M1 T1 P1 L1 H3 H4 X1). }
        destruct S12 as (Hs2' & M2 & T2 & E12 & X2). exact (IH s2 x s' Hs2' M2 T2 (ext_trans _ _ _ E01 E12) X2 H). }
    exact (G vs s x s' I3 M T (ext_refl s) X H).
  Qed.

  Definition popped (sh : node) (ty : bool) : node -> Prop := fun y => y = sh /\ ty = true.

  Lemma stored_fun : forall s i j sh p q, tab_ok s -> stored s i sh p -> stored s j sh q -> i = j /\ p = q.
  Proof.
    intros s i j sh p q T S1 S2. pose proof (tb_bwd s T _ _ _ S1) as B1. pose proof (tb_bwd s T _ _ _ S2) as B2.
    assert (i = j) by congruence. subst j. split; [reflexivity|]. unfold stored in *. congruence.
  Qed.

  Theorem hp_main : forall sh ty s x s', inv3 s -> m4 s -> handle_pending sh ty s = Ok (x, s') ->
    hce (popped sh ty) s -> sse (popped sh ty) s -> srcx noex s ->
    sse noex s' /\ srcx noex s'.
  Proof.
    intros sh ty s x s' I3 M H Hs SS SX. unfold handle_pending in H.
    apply bind_reads_inv in H. destruct H as (i & _ & H).
    destruct ty; cbn [negb] in H.
    2:{ inversion H; subst. split; [|exact SX]. eapply sse_weaken; [|exact SS]. intros y [_ F]. discriminate. }
    apply bind_reads_inv in H. destruct H as (c & Hc & H).
    apply mbind_inv in H. destruct H as ([bij0 src_id] & s9 & Hp & H). apply lift_inv in Hp. destruct Hp as [Hp ->].
    apply mbind_inv in H. destruct H as (nd & s9 & Hnd & H). apply lift_inv in Hnd. destruct Hnd as [Hnd ->].
    apply mbind_inv in H. destruct H as (u1 & sA & HA & H).
    pose proof (s_raw_remove _ _ _ _ _ HA) as SRA.
    pose proof (proj1 (h_raw_remove _ _ _ _ _ HA M)) as MA.
    assert (IA : inv3 sA).
    { destruct I3 as [Hs2 HN]. destruct (semR_step2 _ _ SRA Hs2) as [HsA EA].
      split; [exact HsA|eapply nodes_raw_remove; eauto]. }
    destruct (semR_step4 _ _ SRA (proj1 I3)) as [HsA XA].
    destruct (hce_raw_remove noex i sh s _ sA HA) as (HA' & _ & St0).
    { eapply hce_weaken; [|exact Hs]. intros y [-> _]. right. reflexivity. }
    destruct (raw_remove_views _ _ _ _ _ HA) as (_ & _ & PA & UA & NidA & NoA & _).
    assert (Old : forall j y q, stored sA j y q -> stored s j y q /\ y <> sh).
    { intros j y q S. unfold stored in *. destruct (N.eq_dec j i) as [->|Hj].
      - rewrite NidA in S. destruct (node_dec y sh) as [->|Ny].
        + rewrite na_get_remove_same in S by (apply (tb_cn s (proj1 Hs))). discriminate.
        + rewrite na_get_remove_other in S by assumption. auto.
      - rewrite (NoA j Hj) in S. split; [assumption|]. intros ->.
        pose proof (tb_bwd s (proj1 Hs) j sh q S) as B1. pose proof (tb_bwd s (proj1 Hs) i sh _ St0) as B2. congruence. }
    assert (SSA : sse noex sA).
    { apply (sse_restrict (popped sh true)).
      - apply (sse_via _ s sA I3 (proj1 Hs) HsA XA); [|exact SS].
        eapply frx_raw_remove; [exact HA|exact (proj1 Hs)|apply frx_refl].
      - intros j y q S [-> _]. destruct (Old _ _ _ S) as [_ Ny]. contradiction. }
    assert (SXA : srcx noex sA).
    { apply (srcx_semR noex s sA (proj1 I3) SRA); [|exact SX]. intros j y q S. exact (proj1 (Old _ _ _ S)). }
    assert (Eu1 : u1 = (bij0, src_id)).
    { unfold stored, cnodes in St0. rewrite Hc in St0. destruct (na_get (c_nodes c) sh); [|discriminate]. congruence. }
    subst u1.
    assert (ND : NoDup (binders nd)).
    { destruct (tb_ws s (proj1 Hs) _ _ _ St0) as (n9 & b9 & W9). rewrite (apply_slotmap_ren _ _ _ Hnd), ren_binders.
      unfold asm_g. rewrite map_id. eapply ws_binders_nodup; eauto. }
    apply bind_reads_inv in H. destruct H as (sl & Hsl & H). cbv zeta in H.
    apply bind_reads_inv in H. destruct H as (enode0 & Hen & H).
    apply bind_reads_inv in H. destruct H as (i0 & Hi0 & H).
    unfold class_slots in Hsl. destruct (get_class sA i) as [cA|] eqn:HcA; cbn [bind] in Hsl; [|discriminate].
    inversion Hsl; subst sl; clear Hsl.
    pose proof (covers_lcanon sA _ i0 (proj1 (proj1 IA)) (covers_identity sA i cA HcA) Hi0) as L0.
    (* the entry in flight *)
    assert (FlA : srcok_inv sA i0 enode0 src_id).
    { destruct (SX i sh bij0 src_id St0) as [[]|(c1 & N1 & Hc1 & A1 & S1)].
      rewrite Hnd in A1. inversion A1; subst N1; clear A1.
      destruct (proj2 (proj2 (proj1 XA)) i c1 Hc1) as (c1' & Hc1' & Inc & _). rewrite HcA in Hc1'. inversion Hc1'; subst c1'.
      apply (flight_find sA {| aid := i; am := identity (c_slots cA) |} nd src_id enode0 i0 (proj1 HsA)); [|exact Hen|exact Hi0].
      destruct (srcok_inv_kmono s sA _ nd src_id (mext_kmono _ _ XA) S1) as (csrc & g & l & Hcs & Rk & EN & F & K).
      exists csrc, g, l. repeat (split; [assumption|]). eapply kid_eq_id_shrink; eauto. exact (proj1 HsA). }
    apply mbind_inv in H. destruct H as ([enode i1] & sB & HB & H).
    destruct (h_hp_loop _ _ _ _ (find_K1 _ _ _ MA Hi0) _ _ _ HB MA) as [MB Ki1]. cbn [snd] in Ki1.
    destruct (inv3_hp_loop _ _ _ _ _ _ _ IA L0 (ex_intro _ nd Hen) HB) as (IB & EB & L1 & Fn & Sub). cbn [fst snd] in *.
    pose proof (hce_hp_loop _ _ _ _ _ _ _ _ HB HA') as HB'.
    destruct (inv4_hp_loop _ _ _ _ _ _ _ HB HsA) as [HsB XB].
    pose proof (flight_hp_loop _ src_id _ _ _ _ _ _ HsA FlA HB) as FlB. cbn [fst snd] in FlB.
    assert (SSB : sse noex sB).
    { apply (sse_via _ sA sB IA (proj1 HA') HsB XB); [|exact SSA].
      eapply frx_hp_loop; [exact HB|exact (hce_TT _ _ HA')|apply frx_refl]. }
    pose proof (srcx_hp_loop noex _ _ _ _ _ _ _ IA MA (proj1 HA') HB SXA) as SXB.
    assert (NDe : NoDup (binders enode)).
    { pose proof (hp_loop_binders _ _ _ _ _ _ _ HB) as Q. cbn [fst] in Q. rewrite Q, (find_enode_binders _ _ _ Hen). exact ND. }
    apply bind_reads_inv in H. destruct H as (t & Ht & H).
    apply bind_reads_inv in H. destruct H as (lk & Hlk & H).
    destruct lk as [hit|].
    - apply bind_reads_inv in H. destruct H as (pc & P & H).
      destruct (inv4_handle_congruence _ _ _ _ _ HsB P H) as [Hs' X'].
      split; [|exact (srcx_handle_congruence noex _ _ _ _ _ IB MB (proj1 HB') P H SXB)].
      apply (sse_via _ sB s' IB (proj1 HB') Hs' X'); [|exact SSB].
      eapply frx_handle_congruence; [exact H|exact (hce_TT _ _ HB')|apply frx_refl].
    - destruct t as [sh' bij].
      apply mbind_inv in H. destruct H as (m & sC & Hm & H).
      change (fill_fresh (values bij) (inv (am i1)) sB = Ok (m, sC)) in Hm. cbv zeta in H.
      apply mbind_inv in H. destruct H as (u2 & sD & HD & H).
      pose proof (lookup_none_absent _ _ _ Hlk) as Abs.
      assert (CB : canon sB sh').
      { split; [eapply shape_leaders; [exact (ei_uf sB (proj1 (proj1 IB)))|exact Ht]|].
        destruct Fn as (n0 & Fn0). eapply K1_proved; eauto. }
      assert (Ws' : is_ws sh').
      { unfold shape in Ht. destruct (pre_shape sB enode) as [p9|]; cbn [bind] in Ht; [|discriminate]. exists p9, bij. exact Ht. }
      destruct (fill_fresh_spec _ _ _ _ _ (inverse_wf (am i1)) Hm) as (_ & _ & _ & (cC & EC)).
      assert (COC : ctr_only sB sC) by (exists cC; exact EC).
      pose proof (hce_ctr_only noex sB sC COC HB') as HC'.
      assert (AbsC : na_get (hashcons sC) sh' = None) by (rewrite EC; exact Abs).
      destruct (hce_raw_add noex (aid i1) sh' (bij ** m) src_id sC u2 sD AbsC Ws' HD HC') as [HD' StD].
      (* inv3 of the state after the re-insertion (the derivation of AddCoversFacts.inv3_handle_pending) *)
      assert (ID : inv3 sC /\ inv3 sD).
      { pose proof IB as [[HsB0 HbB] NB]. destruct Fn as (n0 & Fn).
        destruct L1 as [Ld1 (cB & HcB & G1 & W1 & B1 & K1)].
        pose proof (proj1 (is_bijection_injective _ W1) B1) as Inj1.
        pose proof Ht as Ht0.
        unfold shape in Ht0. destruct (pre_shape sB enode) as [p|] eqn:Pp; cbn [bind] in Ht0; [|discriminate].
        destruct (shape_bij_props _ _ _ Ht0) as (Wb & Bb & _). destruct (shape_bij _ _ _ Ht0) as (Sb1 & Sb2 & _).
        pose proof (proj1 (is_bijection_injective _ Wb) Bb) as Injb.
        destruct (fill_fresh_spec _ _ _ _ _ (inverse_wf (am i1)) Hm) as (Wm & _ & Keep & _).
        assert (Bnd : forall k v, get (inv (am i1)) k = Some v -> v < ectr sB).
        { intros k v G. apply (get_inverse _ _ _ W1 B1) in G.
          assert (Hv : In v (c_slots cB)) by (rewrite <- K1; apply keys_spec; congruence).
          destruct (ei_cls sB HsB0 _ _ HcB) as (_ & _ & Isyn). apply Isyn, slots_spec, pub_occ_all_occ in Hv.
          exact (HbB _ _ _ HcB Hv). }
        destruct (fill_fresh_inj _ _ _ _ _ (inverse_wf (am i1)) (inv_injective _ W1 Inj1) Bnd Hm) as [Injm _].
        assert (IC : inv3 sC).
        { rewrite EC. apply (semn_step3 sB (set_ctr sB cC)); [|apply nsame_ctr|exact IB].
          rewrite <- EC. exact (s_fill_fresh _ _ _ _ _ Hm). }
        split; [exact IC|].
        assert (EO : entry_ok (c_slots cB) (sh', (bij ** m, src_id))).
        { unfold entry_ok. cbn [fst snd]. split; [apply compose_partial_wf|]. split; [apply compose_injective; assumption|]. split.
          - intros k Hk. apply Sb2. rewrite get_compose_partial in Hk by assumption. destruct (get bij k); congruence.
          - intros y Hy. rewrite <- K1 in Hy. apply keys_spec in Hy. destruct (get (am i1) y) as [v|] eqn:Gy; [|congruence].
            assert (Hv : In v (slots enode)).
            { apply mem_in. unfold sset_subset in Sub. apply (proj1 (forallb_forall _ _) Sub). apply values_spec; eauto. }
            apply (pre_shape_keeps_proved sB n0 enode p HsB0 Fn Pp), slots_spec, Sb1 in Hv. destruct Hv as (k & Gk). exists k.
            rewrite get_compose_partial by assumption. rewrite Gk.
            assert (Gi : get (inv (am i1)) v = Some y) by (apply (get_inverse _ _ _ W1 B1); exact Gy).
            rewrite Keep by congruence. exact Gi. }
        destruct IC as [Hs2 HN]. destruct (semR_step2 _ _ (s_raw_add _ _ _ _ _ _ HD) Hs2) as [HsD0 ED].
        split; [exact HsD0|]. eapply nodes_raw_add; [exact HN| |exact EO|exact HD]. rewrite EC. exact HcB. }
      destruct ID as [IC ID].
      destruct (h_fill_fresh _ _ (V1_inverse _ Ki1) _ _ _ Hm MB) as [MC Vm].
      pose proof (proj1 (h_raw_add _ _ _ _ (V1_compose bij m Vm) _ _ _ HD MC)) as MD.
      pose proof (proj1 (h_determine_self_symmetries _ _ _ _ H MD)) as M'.
      destruct (semR_step4 _ _ (s_fill_fresh _ _ _ _ _ Hm) HsB) as [HsC XC].
      destruct (semR_step4 _ _ (s_raw_add _ _ _ _ _ _ HD) HsC) as [HsD XD].
      assert (SSC : sse noex sC).
      { apply (sse_via _ sB sC IB (proj1 HB') HsC XC); [|exact SSB]. apply (frx_ctr_only noex sB sB sC COC). apply frx_refl. }
      assert (SSD : sse (fun y => y = sh') sD).
      { eapply sse_weaken; [|apply (sse_viax noex (fun y => noex y \/ y = sh') sC sD IC (proj1 HC') HsD XD); [|exact SSC]].
        - intros y [[]|[[]|A]]. exact A.
        - eapply frx_raw_add; [exact HD|apply frx_refl]. }
      destruct (raw_add_views _ _ _ _ _ _ _ HD) as (_ & _ & UD & NidD & NoD & _ & _).
      assert (OldD : forall j y q, stored sD j y q -> y <> sh' -> stored sC j y q).
      { intros j y q S Ny. unfold stored in *. destruct (N.eq_dec j (aid i1)) as [->|Hj].
        - rewrite NidD, na_get_set_other in S by exact Ny. exact S.
        - rewrite (NoD j Hj) in S. exact S. }
      assert (SXC : srcx noex sC).
      { apply (srcx_semR noex sB sC HsB (s_fill_fresh _ _ _ _ _ Hm)); [|exact SXB]. intros j y q. apply stored_ctr_only. exact COC. }
      assert (SXD : srcx noex sD).
      { intros j y cb src S. right. destruct (node_dec y sh') as [->|Ny].
        - destruct (stored_fun sD _ _ _ _ _ (proj1 HD') S StD) as [-> Eq]. inversion Eq; subst cb src.
          exact (SRC_readd sB enode i1 src_id sh' bij m sC u2 sD IB MB (proj1 HB') FlB L1 Sub NDe Fn Ht Hm HD ID).
        - destruct (SXC j y cb src (OldD _ _ _ S Ny)) as [[]|A]. exact (srcok_kmono sC sD j y cb src (proj1 HsD) (mext_kmono _ _ XD) A). }
      assert (CD : canon sD sh').
      { eapply canon_frame; [|exact CB]. intros j _. eapply unch_trans; [|apply UD]. rewrite EC. split; reflexivity. }
      destruct (inv3_determine_self_symmetries _ _ _ _ H ID) as [I' E'].
      destruct (inv4_determine_self_symmetries _ _ _ _ H HsD) as [Hs' X'].
      pose proof (frx_determine_self_symmetries noex sD _ _ _ _ H (hce_TT _ _ HD') (frx_refl noex sD)) as F'.
      pose proof (srcx_determine_self_symmetries noex _ _ _ _ ID MD (proj1 HD') H SXD) as SX'.
      split; [|exact SX'].
      pose proof (sse_via _ sD s' ID (proj1 HD') Hs' X' F' SSD) as SS'.
      intros j y cb src S. destruct (SS' j y cb src S) as [A|[A|A]]; [left; exact A| |right; right; exact A].
      subst y. destruct (proj2 F' j sh' _ S) as [B|[[]|[S0 U0]]]; [left; exact B|]. right. right.
      destruct (stored_fun sD _ _ _ _ _ (proj1 HD') S0 StD) as [-> Eq]. inversion Eq; subst cb src.
      destruct (SXD _ _ _ _ StD) as [[]|KD]. destruct (SX' _ _ _ _ S) as [[]|K'].
      apply (DSS_EST sD src_id x s' (aid i1) sh' (bij ** m) ID MD (proj1 HD') StD CD KD H I' M' S U0 K').
      intros k Hk. pose proof Ht as Ht0.
      unfold shape in Ht0. destruct (pre_shape sB enode) as [p9|]; cbn [bind] in Ht0; [|discriminate].
      destruct (shape_bij_props _ _ _ Ht0) as (Wb9 & _ & _). destruct (shape_bij _ _ _ Ht0) as (_ & Sb9 & _).
      apply Sb9 in Hk. rewrite get_compose_partial by exact Wb9. destruct (get bij k) as [v|] eqn:Gk; [|congruence].
      apply (proj2 (SoundAddNew.fill_fresh_total _ _ _ _ _ Hm)). apply (values_spec bij v Wb9). eauto.
  Qed.

  Theorem rebuild_main : forall fuel s x s', inv3 s -> m4 s -> rebuild fuel s = Ok (x, s') -> hc_ok s -> sse noex s -> srcx noex s ->
    sse noex s' /\ srcx noex s'.
  Proof.
    induction fuel as [|f IH]; intros s x s' I3 M H Hs SS SX; [discriminate H|]. rewrite rebuild_S in H.
    apply mbind_inv in H. destruct H as (p & s0 & Hp & H). inversion Hp; subst p s0; clear Hp.
    destruct (pending s) as [|[sh ty] rest] eqn:Ep; [inversion H; subst; split; assumption|].
    apply mbind_inv in H. destruct H as (u1 & s1 & H1 & H).
    apply mbind_inv in H. destruct H as (u2 & s2 & H2 & H).
    assert (I1 : inv3 s1).
    { destruct (s_modify_pend' (fun _ => rest) _ _ _ H1) as [A B]. exact (proj1 (semn_step3 _ _ A B I3)). }
    pose proof (proj1 (h_set_pending (fun _ => rest) _ _ _ H1 M)) as M1.
    inversion H1; subst u1 s1; clear H1.
    assert (Hs1 : hce (popped sh ty) (set_pending s rest)).
    { destruct Hs as [T C]. split; [eapply tab_ok_same; [|exact T]; repeat split|].
      intros i y p S. change (stored s i y p) in S. destruct (C i y p S) as [A|[A|[]]].
      - rewrite Ep in A. cbn [na_get] in A. destruct (node_eqb y sh) eqn:Ey.
        + apply node_eqb_iff in Ey. inversion A; subst. right. right. split; reflexivity.
        + left. exact A.
      - right. left. eapply canon_frame; [|exact A]. intros j _. split; reflexivity. }
    assert (SS1 : sse (popped sh ty) (set_pending s rest)).
    { intros i y cb src S. change (stored s i y (cb, src)) in S. destruct (SS i y cb src S) as [A|[[]|A]].
      - unfold pendT in A. rewrite Ep in A. cbn [na_get] in A. destruct (node_eqb y sh) eqn:Ey.
        + apply node_eqb_iff in Ey. inversion A; subst. right. left. split; reflexivity.
        + left. exact A.
      - right. right. exact A. }
    assert (SX1 : srcx noex (set_pending s rest)).
    { intros i y cb src S. change (stored s i y (cb, src)) in S. destruct (SX i y cb src S) as [[]|A]. right. exact A. }
    destruct (hp_main _ _ _ _ _ I1 M1 H2 Hs1 SS1 SX1) as [SS2 SX2].
    pose proof (proj1 (h_handle_pending _ _ _ _ _ H2 M1)) as M2.
    pose proof (hc_ok_handle_pending _ _ _ _ _ I1 H2 Hs1) as Hs2.
    destruct (inv3_handle_pending pre_shape_keeps_proved _ _ _ _ _ H2 I1) as [I2 _].
    eapply IH; eauto.
  Qed.

  Theorem eg_union_main : forall l r s b s', inv3 s -> m4 s -> covers s l -> covers s r ->
    eg_union l r s = Ok (b, s') -> hc_ok s -> sse noex s -> srcx noex s -> sse noex s' /\ srcx noex s'.
  Proof.
    intros l r s b s' I3 M Cl Cr H Hs SS SX. unfold eg_union in H.
    apply mbind_inv in H. destruct H as (l1 & s1 & H1 & H).
    destruct (semn_step3 _ _ (s_synify_app_id _ _ _ _ H1) (n_synify_app_id _ _ _ _ H1) I3) as [Hs1 E1].
    apply mbind_inv in H. destruct H as (r1 & s2 & H2 & H).
    destruct (semn_step3 _ _ (s_synify_app_id _ _ _ _ H2) (n_synify_app_id _ _ _ _ H2) Hs1) as [Hs2 E2].
    pose proof (ext_trans _ _ _ E1 E2) as E02.
    assert (CO1 : ctr_only s s1).
    { apply (pres_synify_app_id ctr_only ctr_only_refl ctr_only_trans) in H1; [assumption|].
      intros s0 y s0' H0. inversion H0. eexists; reflexivity. }
    assert (CO2 : ctr_only s1 s2).
    { apply (pres_synify_app_id ctr_only ctr_only_refl ctr_only_trans) in H2; [assumption|].
      intros s0 y s0' H0. inversion H0. eexists; reflexivity. }
    pose proof (hce_synify_app_id _ _ _ _ _ H1 Hs) as T1. pose proof (hce_synify_app_id _ _ _ _ _ H2 T1) as T2.
    destruct (semR_step4 _ _ (s_synify_app_id _ _ _ _ H1) (proj1 I3)) as [G1 X1].
    destruct (semR_step4 _ _ (s_synify_app_id _ _ _ _ H2) G1) as [G2 X2].
    assert (SS2 : sse noex s2).
    { apply (sse_via _ s1 s2 Hs1 (proj1 T1) G2 X2); [apply (frx_ctr_only noex s1 s1 s2 CO2), frx_refl|].
      apply (sse_via _ s s1 I3 (proj1 Hs) G1 X1); [apply (frx_ctr_only noex s s s1 CO1), frx_refl|exact SS]. }
    assert (SX2 : srcx noex s2).
    { apply (srcx_semR noex s1 s2 G1 (s_synify_app_id _ _ _ _ H2)); [intros j y q; apply stored_ctr_only; exact CO2|].
      apply (srcx_semR noex s s1 (proj1 I3) (s_synify_app_id _ _ _ _ H1)); [intros j y q; apply stored_ctr_only; exact CO1|exact SX]. }
    apply mbind_inv in H. destruct H as (out & s3 & H3 & H).
    pose proof (covers_ext _ _ _ E02 Cl) as Cl2. pose proof (covers_ext _ _ _ E02 Cr) as Cr2.
    destruct (inv3_uint _ _ _ _ _ Hs2 Cl2 Cr2 H3) as [Hs3 E3].
    apply mbind_inv in H. destruct H as (u & s4 & H4 & H). inversion H; subst b s4; clear H.
    pose proof (proj1 (h_synify_app_id _ _ _ _ H2 (proj1 (h_synify_app_id _ _ _ _ H1 M)))) as M2.
    eapply rebuild_main; [exact Hs3|exact (proj1 (h_uint _ _ _ _ _ H3 M2))|exact H4|eapply hce_uint; eauto| |].
    - exact (sse_uint noex _ _ _ _ _ Hs2 (proj1 T2) Cl2 Cr2 H3 SS2).
    - exact (SRC_uint noex _ _ _ _ _ Hs2 M2 (proj1 T2) Cl2 Cr2 H3 SX2).
  Qed.

  Lemma mk_singleton_main : forall en s a s', inv3 s -> m4 s -> Forall (fun b => b < ectr s) (binders en) -> hc_ok s ->
    sse noex s -> srcx noex s ->
    (forall f2o c2 synf c3 sh0 b0, bijection_from_fresh_to (slots en) (ectr s) = (f2o, c2) ->
       apply_slotmap_fresh false (inv f2o) en c2 = (synf, c3) -> wshape synf = Ok (sh0, b0) ->
       na_get (hashcons s) sh0 = None) ->
    (forall f2o c2 synf s3 sh bij s4, bijection_from_fresh_to (slots en) (ectr s) = (f2o, c2) ->
       apply_slotmap_fresh false (inv f2o) en c2 = (synf, c2) ->
       alloc_eclass (values (inv f2o)) synf (set_ctr (set_ctr s c2) c2) = Ok (N.of_nat (lc s), s3) ->
       wshape synf = Ok (sh, bij) -> raw_add_to_class (N.of_nat (lc s)) (sh, bij) (N.of_nat (lc s)) s3 = Ok (tt, s4) ->
       inv3 s4 -> srcok s4 (N.of_nat (lc s)) sh bij (N.of_nat (lc s))) ->
    mk_singleton_class en s = Ok (a, s') -> sse noex s' /\ srcx noex s'.
  Proof.
    intros en s a s' I3 M Hb Hs SS SX Abs New H.
    destruct (SoundAddNew.mk_singleton_walk _ _ _ _ I3 Hb H)
      as (f2o & c2 & synf & s3 & sh & bij & s4 & s5 & BF & ASF & AL & Hsh & RA & PI & RB & Ea & I2 & I3a & E23 & I4 & E34 & I5 & E45 & I6 & E56).
    cbv zeta in *. set (i := N.of_nat (lc s)) in *. set (s2 := set_ctr (set_ctr s c2) c2) in *.
    pose proof (bijection_from_fresh_to_step (slots en) (ectr s)) as St. rewrite BF in St. cbn [snd] in St. apply ctr_step_le in St.
    assert (S02 : semR s s2).
    { split; [|unfold s2; cbn [Model.ctr set_ctr]; lia]. split; reflexivity. }
    assert (CO2 : ctr_only s s2) by (exists c2; reflexivity).
    pose proof (hce_ctr_only noex s s2 CO2 Hs) as Hs2.
    destruct (semR_step4 _ _ S02 (proj1 I3)) as [G2 X02].
    pose proof (sse_via _ s s2 I3 (proj1 Hs) G2 X02 (frx_ctr_only noex s s s2 CO2 (frx_refl noex s)) SS) as SS2.
    assert (SX2 : srcx noex s2).
    { apply (srcx_semR noex s s2 (proj1 I3) S02); [|exact SX]. intros j y q. apply stored_ctr_only. exact CO2. }
    destruct (alloc_facts _ _ _ _ _ (proj1 G2) (proj1 Hs2) AL) as (F23 & Q23 & CP23 & Sub23).
    assert (W2 : eg_wf s2) by exact (uso_wf _ (ei_slots _ (proj1 G2))).
    destruct (hce_alloc noex _ _ _ _ _ W2 AL Hs2) as (Hs3 & Hh3 & _).
    pose proof (sse_step noex s2 s3 I2 (proj1 Hs2) (proj1 (proj1 I3a)) CP23 Q23 F23 SS2) as SS3.
    assert (SX3 : srcx noex s3).
    { apply (srcx_kmono noex s2 s3 (proj1 (proj1 I3a))); [|intros j y q S; right; apply Sub23; exact S|exact SX2].
      split; [intros x y; apply kid_eq_mono0; assumption|exact CP23]. }
    assert (Abs3 : na_get (hashcons s3) sh = None).
    { rewrite Hh3. unfold s2. cbn [hashcons set_ctr]. exact (Abs _ _ _ _ _ _ BF ASF Hsh). }
    destruct (hce_raw_add noex i sh bij i s3 tt s4 Abs3 (ex_intro _ synf (ex_intro _ bij Hsh)) RA Hs3) as [Hs4 St4].
    destruct (semR_step4 _ _ (s_raw_add _ _ _ _ _ _ RA) (proj1 I3a)) as [G4 X34].
    destruct (semR_step4 _ _ (s_pending_insert _ _ _ _ _ PI) G4) as [G5 X45].
    pose proof (hce_pending_insert noex sh s4 tt s5 PI Hs4) as Hs5.
    pose proof (frx_pending_insert noex s3 sh s4 tt s5 PI (frx_raw_add noex s3 i sh bij i s3 tt s4 RA (frx_refl noex s3))) as F35.
    pose proof (sse_via noex s3 s5 I3a (proj1 Hs3) G5 (mext_trans _ _ _ X34 X45) F35 SS3) as SS5.
    destruct (raw_add_views _ _ _ _ _ _ _ RA) as (_ & _ & _ & Nid4 & No4 & _ & _).
    assert (SX4 : srcx noex s4).
    { intros j y cb src S. right. destruct (node_dec y sh) as [->|Ny].
      - destruct (stored_fun s4 _ _ _ _ _ (proj1 Hs4) S St4) as [-> Eq]. inversion Eq; subst cb src.
        exact (New f2o c2 synf s3 sh bij s4 BF ASF AL Hsh RA I4).
      - assert (S3 : stored s3 j y (cb, src)).
        { unfold stored in *. destruct (N.eq_dec j i) as [->|Hj].
          - rewrite Nid4, na_get_set_other in S by exact Ny. exact S.
          - rewrite (No4 j Hj) in S. exact S. }
        destruct (SX3 j y cb src S3) as [[]|A]. exact (srcok_kmono s3 s4 j y cb src (proj1 G4) (mext_kmono _ _ X34) A). }
    assert (SX5 : srcx noex s5).
    { apply (srcx_semR noex s4 s5 G4 (s_pending_insert _ _ _ _ _ PI)); [|exact SX4]. intros j y q S. inversion PI; subst s5. exact S. }
    pose proof (proj1 (h_mk_prefix en _ _ _ (mk_prefix_run en s f2o c2 synf i s3 sh bij s4 s5 BF ASF AL Hsh RA PI) M)) as M5.
    exact (rebuild_main _ _ _ _ I5 M5 RB Hs5 SS5 SX5).
  Qed.

  (* H5: the entry stored for a freshly inserted e-node is coherent with its source (the new class itself) *)
  Hypothesis SRC_new : forall n t s en1 c1 en2 en3 s3 f2o c2 synf s3a sh bij s4,
    inv3 s -> m4 s -> pending s = [] -> hc_ok s -> ectr s mod 4 = 1 -> node_pre s n -> shape s n = Ok t ->
    lookup_internal s t = Ok None ->
    refresh_private (fst t) (ectr s) = (Ok en1, c1) -> apply_slotmap false (snd t) en1 = Ok en2 ->
    synify_enode en2 (set_ctr s c1) = Ok (en3, s3) ->
    bijection_from_fresh_to (slots en3) (ectr s3) = (f2o, c2) -> apply_slotmap_fresh false (inv f2o) en3 c2 = (synf, c2) ->
    alloc_eclass (values (inv f2o)) synf (set_ctr (set_ctr s3 c2) c2) = Ok (N.of_nat (lc s3), s3a) ->
    wshape synf = Ok (sh, bij) ->
    raw_add_to_class (N.of_nat (lc s3)) (sh, bij) (N.of_nat (lc s3)) s3a = Ok (tt, s4) -> inv3 s4 ->
    srcok s4 (N.of_nat (lc s3)) sh bij (N.of_nat (lc s3)).

  Theorem add_internal_main : forall n t s a s', inv3 s -> m4 s -> pending s = [] -> hc_ok s -> ectr s mod 4 = 1 -> node_pre s n ->
    shape s n = Ok t -> sse noex s -> srcx noex s -> add_internal t s = Ok (a, s') -> sse noex s' /\ srcx noex s'.
  Proof.
    intros n t s a s' I3 M Pe Hs C4 NP Hsh SS SX H. pose proof NP as (Cv & Pn & ND).
    destruct (lookup_internal s t) as [[hit|]|e] eqn:Hlk.
    - unfold add_internal, mbind, reads in H. rewrite Hlk in H. inversion H; subst. split; assumption.
    - destruct (SoundAddNew.add_internal_walk _ _ _ _ I3 Hlk H) as (en1 & c1 & en2 & en3 & s3 & syn & RP & H2 & H3 & H4 & Sm & I1 & E01 & I3' & E13 & Hb).
      cbv zeta in *. set (s1 := set_ctr s c1) in *.
      pose proof (refresh_private_step (fst t) (ectr s)) as St1. rewrite RP in St1. cbn [snd] in St1. pose proof St1 as St1c. apply ctr_step_le in St1.
      assert (S01 : semR s s1) by (split; [apply sem_set_ctr|unfold s1; cbn [Model.ctr set_ctr]; lia]).
      assert (CO1 : ctr_only s s1) by (exists c1; reflexivity).
      assert (CO3 : ctr_only s1 s3).
      { apply (pres_synify_enode ctr_only ctr_only_refl ctr_only_trans) in H3; [assumption|].
        intros s0 y s0' H0. inversion H0. eexists; reflexivity. }
      pose proof (ctr_only_trans _ _ _ CO1 CO3) as CO.
      assert (Hs3 : hc_ok s3) by (eapply hce_ctr_only; [exact CO|exact Hs]).
      assert (Hh3 : hashcons s3 = hashcons s).
      { destruct (ctr_only_fields _ _ CO) as (_ & _ & A & _). exact A. }
      destruct (semR_step4 _ _ S01 (proj1 I3)) as [G1 X01].
      destruct (semR_step4 _ _ (s_synify_enode _ _ _ _ H3) G1) as [G3 X13].
      pose proof (sse_via _ s s3 I3 (proj1 Hs) G3 (mext_trans _ _ _ X01 X13) (frx_ctr_only noex s s s3 CO (frx_refl noex s)) SS) as SS3.
      assert (SX3 : srcx noex s3).
      { apply (srcx_kmono noex s s3 (proj1 G3) (mext_kmono _ _ (mext_trans _ _ _ X01 X13))); [|exact SX].
        intros j y q S. right. exact (stored_ctr_only _ _ _ _ _ CO S). }
      destruct (refresh_private_spec _ _ _ _ RP) as (_ & Bi1 & _).
      assert (M3 : m4 s3).
      { apply (proj1 (h_synify_enode _ _ _ _ H3 (m4_set_ctr s c1 M (ok1_step _ _ (proj1 M) St1c)))). }
      eapply (mk_singleton_main en3 s3 syn s' I3' M3 Hb Hs3 SS3 SX3); [| |exact H4].
      + intros f2o c2 synf c3 sh0 b0 BF ASF Hw. rewrite Hh3.
        eapply (add_shape_absent_nodup s n t en1 c1 en2 en3 s3); eauto.
        * intros sh i Hi. destruct (tb_fwd s (proj1 Hs) sh i Hi) as [p Sp].
          destruct (proj2 Hs i sh p Sp) as [A|[A|[]]]; [rewrite Pe in A; discriminate|exact (proj2 A)].
        * destruct t as [sht bt]. eapply lookup_none_absent; eauto.
      + intros f2o c2 synf s3a sh bij s4 BF ASF AL Hw RA I4.
        exact (SRC_new n t s en1 c1 en2 en3 s3 f2o c2 synf s3a sh bij s4 I3 M Pe Hs C4 NP Hsh Hlk RP H2 H3 BF ASF AL Hw RA I4).
    - unfold add_internal, mbind, reads in H. rewrite Hlk in H. discriminate.
  Qed.

  Definition gb (s : egraph) : Prop := hcb s /\ sse noex s /\ srcx noex s.

  Theorem gb_eg_add : forall n s a s', gb s -> node_pre s n -> eg_add n s = Ok (a, s') -> gb s'.
  Proof.
    intros n s a s' ((I1 & P1 & Hs1 & M1) & SS & SX) NP H.
    split.
    - split; [exact (proj1 (eg_add_covers _ _ _ _ I1 H))|]. split; [eapply eg_add_drains; eauto|].
      split; [eapply hc_ok_eg_add; eauto; exact (proj1 M1)|exact (proj1 (h_eg_add _ _ _ _ H M1))].
    - unfold eg_add in H. apply bind_reads_inv in H. destruct H as (t & Ht & H).
      exact (add_internal_main n t s a s' I1 M1 P1 Hs1 (proj1 M1) NP Ht SS SX H).
  Qed.

  Theorem gb_add_expr : forall t s a s', gb s -> term_pre t s -> add_expr t s = Ok (a, s') -> gb s'.
  Proof.
    fix IH 1. intros [n ch] s a s' B TP H. cbn [add_expr] in H. cbn [term_pre] in TP.
    apply mbind_inv in H. destruct H as (l & s1 & Hgo & H).
    match type of TP with ?go ch s ?K0 => set (G := go) in *; set (K := K0) in * end.
    assert (Q : gb s1 /\ K l s1).
    { clear H. clearbody K. revert s l s1 K B TP Hgo.
      induction ch as [|c r IHr]; intros s l s1 K B TP Hgo.
      - inversion Hgo; subst. cbn in TP. auto.
      - cbn in TP. destruct TP as [TPc TPr].
        apply mbind_inv in Hgo. destruct Hgo as (a0 & s2 & Ha & Hgo).
        apply mbind_inv in Hgo. destruct Hgo as (r' & s3 & Hr & Hgo). inversion Hgo; subst l s3; clear Hgo.
        pose proof (IH c s a0 s2 B TPc Ha) as B2.
        exact (IHr s2 r' s1 (fun l' s' => K (a0 :: l') s') B2 (TPr a0 s2 Ha) Hr). }
    destruct Q as [B1 NP]. unfold K in NP.
    destruct (Nat.ltb _ _); [discriminate|].
    exact (gb_eg_add _ _ _ _ B1 NP H).
  Qed.

  Lemma gb_run_ops : forall terms ops hs s hs' s', gb s -> Forall (covers s) hs -> ops_pre terms ops hs s ->
    run_ops terms ops hs s = Ok (hs', s') -> gb s'.
  Proof.
    intros terms. induction ops as [|o t IH]; intros hs s hs' s' B Hc OP H; cbn [run_ops] in H; cbn [ops_pre] in OP.
    - inversion H; subst. assumption.
    - destruct o as [k|i j just].
      + destruct (nth_opt terms k) as [tm|] eqn:Ek; [|discriminate]. destruct OP as [TP OP].
        apply mbind_inv in H. destruct H as (a & s1 & H1 & H).
        destruct (add_expr_covers tm s a s1 (proj1 (proj1 B)) H1) as (I1 & E01 & Ca).
        eapply IH; [exact (gb_add_expr tm s a s1 B TP H1)| |exact (OP a s1 H1)|exact H].
        apply Forall_app. split; [|constructor; [assumption|constructor]].
        revert Hc. apply Forall_impl. intros x. apply covers_ext0. assumption.
      + destruct (nth_opt hs i) as [a|] eqn:Ei; [|discriminate]. destruct (nth_opt hs j) as [b|] eqn:Ej; [|discriminate].
        apply mbind_inv in H. destruct H as (u & s1 & H1 & H).
        pose proof (proj1 (Forall_forall _ _) Hc a (nth_opt_In _ _ _ Ei)) as Ca.
        pose proof (proj1 (Forall_forall _ _) Hc b (nth_opt_In _ _ _ Ej)) as Cb.
        destruct B as ((I3 & Pe & Hs & M) & SS & SX).
        destruct (eg_union_inv3 a b s u s1 I3 Ca Cb H1) as [I1 E1].
        eapply IH; [| |exact (OP u s1 H1)|exact H].
        * split; [|exact (eg_union_main a b s u s1 I3 M Ca Cb H1 Hs SS SX)].
          split; [exact I1|]. split; [exact (eg_union_drains a b s u s1 H1)|].
          split; [exact (hc_ok_eg_union a b s u s1 I3 Ca Cb H1 Hs)|exact (proj1 (h_eg_union _ _ _ _ _ H1 M))].
        * revert Hc. apply Forall_impl. intros x. apply covers_ext. assumption.
  Qed.

  Lemma gb_empty : gb empty_egraph.
  Proof.
    split; [exact hcb_empty|].
    assert (St : forall i sh p, ~ stored empty_egraph i sh p).
    { intros i sh p H. unfold stored, cnodes, get_class in H. cbn [classes empty_egraph] in H. destruct (N.to_nat i); discriminate. }
    split; intros i sh cb src S; destruct (St _ _ _ S).
  Qed.

  Theorem reachable_ss_ok_cond : forall terms ops hs s, ops_pre terms ops [] empty_egraph ->
    run_ops terms ops [] empty_egraph = Ok (hs, s) -> ss_ok s.
  Proof.
    intros terms ops hs s OP H.
    destruct (gb_run_ops terms ops [] empty_egraph hs s gb_empty (Forall_nil _) OP H) as ((_ & Pe & _) & SS & _).
    exact (sse_ss_ok s SS Pe).
  Qed.

  Theorem reachable_gb : forall terms ops hs s, ops_pre terms ops [] empty_egraph ->
    run_ops terms ops [] empty_egraph = Ok (hs, s) -> gb s.
  Proof. intros terms ops hs s OP H. exact (gb_run_ops terms ops [] empty_egraph hs s gb_empty (Forall_nil _) OP H). Qed.

  (* the CONGRUENCE clause without the premise ss_ok *)
  Theorem node_congruence_reachable_cond : forall terms ops hs s n l x1 x2, ops_pre terms ops [] empty_egraph ->
    run_ops terms ops [] empty_egraph = Ok (hs, s) -> NoDup (binders n) -> Forall2 (kid_eq s) (app_occ n) l ->
    eg_lookup s n = Ok (Some x1) -> eg_lookup s (set_apps n l) = Ok (Some x2) -> eg_eq s x1 x2 = Ok true.
  Proof.
    intros terms ops hs s n l x1 x2 OP H ND K L1 L2.
    destruct (reachable_gb terms ops hs s OP H) as ((I3 & Pe & Hs & _) & SS & _).
    exact (node_congruence s n l x1 x2 I3 Hs (sse_ss_ok s SS Pe) ND K L1 L2).
  Qed.

  Theorem union_congruence_reachable_cond : forall terms ops hs s a b u s', ops_pre terms ops [] empty_egraph ->
    run_ops terms ops [] empty_egraph = Ok (hs, s) -> In a hs -> In b hs -> eg_union a b s = Ok (u, s') ->
    inv3 s' /\ hc_ok s' /\ pending s' = [] /\ ss_ok s' /\ eg_eq s' a b = Ok true /\
    forall n l x1 x2, NoDup (binders n) -> Forall (covers s') (app_occ n) -> Forall2 (swap_ab a b) (app_occ n) l ->
      eg_lookup s' n = Ok (Some x1) -> eg_lookup s' (set_apps n l) = Ok (Some x2) -> eg_eq s' x1 x2 = Ok true.
  Proof.
    intros terms ops hs s a b u s' OP H Ia Ib HU.
    destruct (reachable_gb terms ops hs s OP H) as ((I3 & Pe & Hs & M) & SS & SX).
    destruct (reachable_inv3 _ _ _ _ H) as [_ Cv].
    pose proof (proj1 (Forall_forall _ _) Cv a Ia) as Ca. pose proof (proj1 (Forall_forall _ _) Cv b Ib) as Cb.
    destruct (eg_union_main a b s u s' I3 M Ca Cb HU Hs SS SX) as [SS' _].
    pose proof (sse_ss_ok s' SS' (eg_union_drains a b s u s' HU)) as SO.
    destruct (union_congruence a b s u s' I3 Hs Ca Cb HU SO) as (A & B & C & D & F).
    split; [exact A|]. split; [exact B|]. split; [exact C|]. split; [exact SO|]. split; [exact D|exact F].
  Qed.
End Cond.

Check reachable_ss_ok_cond.
