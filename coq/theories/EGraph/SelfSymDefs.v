(* EGraph/SelfSymDefs.v — SELF-SYMMETRY COMPLETENESS (`ss_ok` of CongruenceFacts.v) as an invariant of the union /
   rebuild core: definitions (`sse`: the invariant with the pending exemption; `frx`: the syntactic frame relation;
   `srcok` / `srcx`: source coherence), the frame relation through the union core, and the step lemmas.
   The development proper is EGraph/SelfSymCond.v, the closed theorems are in EGraph/SelfSymFacts.v. *)
From SE Require Import Slots.SlotMapFacts Group.GroupSound Lang.LangFacts Lang.ShapeFacts Lang.RenameFacts
  Slots.SlotFacts Base.TextFacts EGraph.Model EGraph.ModelFacts EGraph.ModelMachine EGraph.PendingFacts EGraph.UnionFindFacts
  EGraph.InvariantFacts EGraph.UnionInvariantFacts EGraph.AddCoversFacts EGraph.MonotoneFacts EGraph.HashconsShape
  EGraph.Mod4Facts EGraph.HashconsAbs EGraph.Model9 EGraph.HashconsFacts EGraph.NodeCong EGraph.KidEqFacts EGraph.ShapeCong
  EGraph.CongruenceFacts.
From SE Require EGraph.SoundAddNew.
Require Import ZArith Lia ZifyBool ZifyN ZifyNat.

Local Notation "a ** b" := (compose_partial a b) (at level 40, left associativity).
Local Notation inv := inverse_nocheck.
Local Notation ectr := Model.ctr.

(* ================================================================== *)
(* 1. the invariant with the pending exemption *)

(* `ss_at` for the one entry sh |-> (cb, _) of class i *)
Definition ss_ent (s : egraph) (i : N) (sh : node) (cb : slotmap) : Prop :=
  forall c vs v b0 bv, get_class s i = Ok c ->
    variants s sh = Ok vs -> In v vs -> wshape sh = Ok (sh, b0) -> wshape v = Ok (sh, bv) ->
    eg_eq s {| aid := i; am := filt c (inv cb ** b0) |} {| aid := i; am := filt c (inv cb ** bv) |} = Ok true.

Definition pendT (s : egraph) (sh : node) : Prop := na_get (pending s) sh = Some true.

(* every stored shape whose induced symmetries are not yet all recorded is pending (or in flight: E) *)
Definition sse (E : node -> Prop) (s : egraph) : Prop :=
  forall i sh cb src, stored s i sh (cb, src) -> pendT s sh \/ E sh \/ ss_ent s i sh cb.

Lemma pendT_dec : forall s sh, pendT s sh \/ ~ pendT s sh.
Proof. intros s sh. unfold pendT. destruct (na_get (pending s) sh) as [[|]|]; [left; reflexivity|right; discriminate|right; discriminate]. Qed.

Lemma stored_get : forall s i sh p, stored s i sh p -> exists c, get_class s i = Ok c /\ na_get (c_nodes c) sh = Some p.
Proof.
  intros s i sh p H. unfold stored, cnodes in H. destruct (get_class s i) as [c|]; [|discriminate]. eauto.
Qed.
Lemma get_stored : forall s i c sh p, get_class s i = Ok c -> na_get (c_nodes c) sh = Some p -> stored s i sh p.
Proof. intros s i c sh p Hc G. unfold stored, cnodes. rewrite Hc. exact G. Qed.

Theorem sse_ss_ok : forall s, sse noex s -> pending s = [] -> ss_ok s.
Proof.
  intros s H P sh i c cb src vs v b0 bv Hc G V Iv W0 Wv.
  destruct (H i sh cb src (get_stored _ _ _ _ _ Hc G)) as [A|[[]|A]].
  - unfold pendT in A. rewrite P in A. discriminate.
  - exact (A c vs v b0 bv Hc V Iv W0 Wv).
Qed.

Lemma sse_weaken : forall (E E' : node -> Prop) s, (forall sh, E sh -> E' sh) -> sse E s -> sse E' s.
Proof. intros E E' s H S i sh cb src St. destruct (S i sh cb src St) as [A|[A|A]]; auto. Qed.

(* ================================================================== *)
(* 2. the syntactic frame relation: a stored, non-pending entry of the later state was stored in the same class
   with the same bijection, and the groups of its children are unchanged *)

Definition frx (E : node -> Prop) (s s' : egraph) : Prop :=
  pend_mono s s' /\
  forall i sh p, stored s' i sh p ->
    pendT s' sh \/ E sh \/ (stored s i sh p /\ forall j, In j (node_ids sh) -> unch s s' j).

Lemma unch_refl : forall s j, unch s s j.
Proof. intros s j. split; reflexivity. Qed.

Lemma frx_refl : forall E s, frx E s s.
Proof. intros E s. split; [intros sh H; exact H|]. intros i sh p S. right. right. split; [exact S|intros j _; apply unch_refl]. Qed.

Lemma frx_weaken : forall (E E' : node -> Prop) s s', (forall sh, E sh -> E' sh) -> frx E s s' -> frx E' s s'.
Proof. intros E E' s s' H [M F]. split; [exact M|]. intros i sh p S. destruct (F i sh p S) as [A|[A|A]]; auto. Qed.

Lemma frx_trans : forall (E1 E2 : node -> Prop) a b c, frx E1 a b -> frx E2 b c -> frx (fun sh => E1 sh \/ E2 sh) a c.
Proof.
  intros E1 E2 a b c [M1 F1] [M2 F2]. split; [intros sh H; apply M2, M1, H|].
  intros i sh p S. destruct (F2 i sh p S) as [A|[A|[Sb Gb]]]; [left; exact A|right; left; right; exact A|].
  destruct (F1 i sh p Sb) as [A|[A|[Sa Ga]]]; [left; apply M2; exact A|right; left; left; exact A|].
  right. right. split; [exact Sa|]. intros j Hj. eapply unch_trans; [apply Ga; exact Hj|apply Gb; exact Hj].
Qed.

Lemma frx_trans0 : forall E a b c, frx E a b -> frx E b c -> frx E a c.
Proof. intros E a b c H1 H2. eapply frx_weaken; [|eapply frx_trans; eauto]. intros sh [A|A]; exact A. Qed.

(* a step that only removes entries, keeps the groups and keeps pending *)
Lemma frx_sub : forall E s0 s s', pend_mono s s' -> (forall i y p, stored s' i y p -> stored s i y p) ->
  (forall j, unch s s' j) -> frx E s0 s -> frx E s0 s'.
Proof.
  intros E s0 s s' M Sub G H. apply (frx_trans0 E s0 s s' H). split; [exact M|].
  intros i sh p S. right. right. split; [apply Sub; exact S|]. intros j _. apply G.
Qed.

Lemma frx_ctr_only : forall E s0 s s', ctr_only s s' -> frx E s0 s -> frx E s0 s'.
Proof. intros E s0 s s' [c ->]. apply frx_sub; [intros sh H; exact H|intros i y p S; exact S|intros j; split; reflexivity]. Qed.

Lemma frx_with_ctr : forall E s0 A (f : N -> A * N) s x s', with_ctr f s = Ok (x, s') -> frx E s0 s -> frx E s0 s'.
Proof. intros E s0 A f s x s' H. apply frx_ctr_only. eapply with_ctr_only; eauto. Qed.

Lemma frx_pc_congruence : forall E s0 a b s x s', pc_congruence a b s = Ok (x, s') -> frx E s0 s -> frx E s0 s'.
Proof.
  intros E s0 a b s x s' H. apply frx_ctr_only.
  apply (pres_pc_congruence ctr_only ctr_only_refl ctr_only_trans) in H; [assumption| |];
    intros; intros s1 y s1' H0; eapply with_ctr_only; eauto.
Qed.

Lemma frx_set_pending : forall (E E' : node -> Prop) s0 s p',
  (forall sh, pendT s sh -> na_get p' sh = Some true) ->
  (forall sh, E sh -> E' sh \/ na_get p' sh = Some true) ->
  frx E s0 s -> frx E' s0 (set_pending s p').
Proof.
  intros E E' s0 s p' M X [M0 F]. split; [intros sh H; apply M, M0, H|].
  intros i sh p S. change (stored s i sh p) in S.
  destruct (F i sh p S) as [A|[A|A]]; [left; apply M; exact A| |right; right; exact A].
  destruct (X sh A) as [B|B]; [right; left; exact B|left; exact B].
Qed.

Lemma frx_pending_insert : forall E s0 sh s x s', pending_insert sh true s = Ok (x, s') ->
  frx (fun y => E y \/ y = sh) s0 s -> frx E s0 s'.
Proof.
  intros E s0 sh s x s' H. inversion H; subst x s'; clear H.
  apply frx_set_pending.
  - intros y Hy. destruct (node_eqb y sh) eqn:Ey.
    + apply node_eqb_iff in Ey. subst y. apply na_get_set_same.
    + rewrite na_get_set_other; [exact Hy|]. intros ->. rewrite node_eqb_refl in Ey. discriminate.
  - intros y [Hy| ->]; [left; exact Hy|right; apply na_get_set_same].
Qed.

Lemma frx_touched_class : forall E s0 i s x s', touched_class i true s = Ok (x, s') -> tab_ok s ->
  frx (fun sh => E sh \/ In i (node_ids sh)) s0 s -> frx E s0 s'.
Proof.
  intros E s0 i s x s' H T [M0 F]. unfold touched_class in H.
  apply bind_reads_inv in H. destruct H as (c & Hc & H).
  destruct (touch_list_spec _ _ _ _ H) as (p' & -> & M & L).
  split; [intros sh Hs; apply M, M0, Hs|].
  intros i0 sh p S. change (stored s i0 sh p) in S.
  destruct (F i0 sh p S) as [A|[[A|A]|A]]; [left; apply M; exact A|right; left; exact A| |right; right; exact A].
  left. apply L. pose proof (tb_use s T _ _ _ _ S A) as U. unfold cusages in U. rewrite Hc in U. exact U.
Qed.

Lemma frx_mod_at : forall E s0 i s s', mod_at i s s' -> frx E s0 s -> frx (fun sh => E sh \/ In i (node_ids sh)) s0 s'.
Proof.
  intros E s0 i s s' ((_ & Hn & _) & P & U) F.
  eapply frx_weaken; [|eapply frx_trans; [exact F|]]; [intros sh A; exact A|].
  split; [intros sh A; unfold pendT in *; rewrite P; exact A|].
  intros i0 sh p S. unfold stored in S. rewrite Hn in S.
  destruct (in_dec N.eq_dec i (node_ids sh)) as [I|I]; [right; left; exact I|].
  right. right. split; [exact S|]. intros j Hj. apply (U j). intros ->. contradiction.
Qed.

Lemma frx_unionfind_set : forall E s0 i p s x s', unionfind_set i p s = Ok (x, s') -> frx E s0 s ->
  frx (fun sh => E sh \/ In i (node_ids sh)) s0 s'.
Proof. intros E s0 i p s x s' H. apply frx_mod_at. eapply unionfind_set_mod_at; eauto. Qed.

Lemma frx_upd_class : forall E s0 i f s x s', (forall c, c_nodes (f c) = c_nodes c /\ c_usages (f c) = c_usages c) ->
  upd_class i f s = Ok (x, s') -> frx E s0 s -> frx (fun sh => E sh \/ In i (node_ids sh)) s0 s'.
Proof. intros E s0 i f s x s' Hf H. apply frx_mod_at. eapply upd_class_mod_at; eauto. Qed.

Lemma frx_upd_class_same : forall E s0 i f s x s' c, get_class s i = Ok c ->
  c_nodes (f c) = c_nodes c -> c_group (f c) = c_group c ->
  upd_class i f s = Ok (x, s') -> frx E s0 s -> frx E s0 s'.
Proof.
  intros E s0 i f s x s' c Hc0 A G H. destruct (upd_class_views _ _ _ _ _ H) as (c1 & Hc & Hc' & Ho & U & Hh & P).
  rewrite Hc0 in Hc. inversion Hc; subst c1; clear Hc.
  apply frx_sub.
  - intros sh B. unfold pendT in *. rewrite P. exact B.
  - intros j y q S. unfold stored, cnodes in *. destruct (N.eq_dec j i) as [->|Hj].
    + rewrite Hc' in S. rewrite Hc0, <- A. exact S.
    + rewrite (Ho j Hj) in S. exact S.
  - intros j. split; [rewrite U; reflexivity|]. unfold cgroup. destruct (N.eq_dec j i) as [->|Hj].
    + rewrite Hc', Hc0, G. reflexivity.
    + rewrite (Ho j Hj). reflexivity.
Qed.

Lemma frx_raw_remove : forall E s0 id sh s p s', raw_remove_from_class id sh s = Ok (p, s') -> tab_ok s ->
  frx E s0 s -> frx E s0 s'.
Proof.
  intros E s0 id sh s p s' H T. destruct (raw_remove_views _ _ _ _ _ H) as (St & Hh & P & U & Nid & No & Mn).
  apply frx_sub; [intros y A; unfold pendT in *; rewrite P; exact A| |exact U].
  intros j y q S. unfold stored in *. destruct (N.eq_dec j id) as [->|Hj].
  - rewrite Nid in S. destruct (node_dec y sh) as [->|Ny].
    + rewrite na_get_remove_same in S by (apply (tb_cn s T)). discriminate.
    + rewrite na_get_remove_other in S by exact Ny. exact S.
  - rewrite (No j Hj) in S. exact S.
Qed.

Lemma frx_raw_add : forall E s0 id sh bij src s x s', raw_add_to_class id (sh, bij) src s = Ok (x, s') ->
  frx E s0 s -> frx (fun y => E y \/ y = sh) s0 s'.
Proof.
  intros E s0 id sh bij src s x s' H F.
  destruct (raw_add_views _ _ _ _ _ _ _ H) as (Hh & P & U & Nid & No & Mn & Ad).
  eapply frx_weaken; [|eapply frx_trans; [exact F|]]; [intros y A; exact A|].
  split; [intros y A; unfold pendT in *; rewrite P; exact A|].
  intros j y q S. destruct (node_dec y sh) as [->|Ny]; [right; left; reflexivity|].
  right. right. split; [|intros k _; apply U].
  unfold stored in *. destruct (N.eq_dec j id) as [->|Hj].
  - rewrite Nid, na_get_set_other in S by exact Ny. exact S.
  - rewrite (No j Hj) in S. exact S.
Qed.

(* ================================================================== *)
(* 3. the frame relation through the union core (the structure of HashconsFacts.v section 5) *)

Definition TT : node -> Prop := fun _ => True.
Lemma hce_TT : forall (E : node -> Prop) s, hce E s -> hce TT s.
Proof. intros E s. apply hce_weaken. intros; exact I. Qed.
Lemma hce_TT_any : forall (E : node -> Prop) s, (forall y, E y) -> hce TT s -> hce E s.
Proof. intros E s H. apply hce_weaken. intros; apply H. Qed.

Lemma frx_move_loop : forall E s0 idf idt mi l s x s',
  iterM (fun e : node * (slotmap * N) =>
           let '(sh, (bij, src_id)) := e in
           dom _ <- raw_remove_from_class idf sh;
           dom new_bij <- with_ctr (compose_fresh bij mi);
           dom _ <- raw_add_to_class idt (sh, new_bij) src_id;
           pending_insert sh true) l s = Ok (x, s') ->
  hce TT s -> frx E s0 s -> frx E s0 s'.
Proof.
  intros E s0 idf idt mi. induction l as [|[sh [bij src]] t IH]; intros s x s' H Hs F; cbn [iterM] in H.
  - inversion H; subst. exact F.
  - apply mbind_inv in H. destruct H as (u & s4 & H1 & H).
    assert (H1' : hce TT s4).
    { apply (hce_move_loop TT idf idt mi [(sh, (bij, src))] s tt s4); [|exact Hs].
      cbn [iterM]. unfold mbind at 1. rewrite H1. destruct u. reflexivity. }
    eapply IH; [exact H|exact H1'|]. clear H IH H1'.
    apply mbind_inv in H1. destruct H1 as (p & s1 & Hr & H1).
    apply mbind_inv in H1. destruct H1 as (nb & s2 & Hc & H1).
    apply mbind_inv in H1. destruct H1 as (u3 & s3 & Ha & H1).
    eapply frx_pending_insert; [exact H1|]. eapply frx_raw_add; [exact Ha|].
    eapply frx_with_ctr; [exact Hc|]. eapply frx_raw_remove; [exact Hr|exact (proj1 Hs)|exact F].
Qed.

Lemma frx_move_to : forall E s0 from to s x s', move_to from to s = Ok (x, s') -> hce TT s -> frx E s0 s -> frx E s0 s'.
Proof.
  intros E s0 from to s x s' H Hs F. unfold move_to in H. cbv zeta in H.
  apply mbind_inv in H. destruct H as (u1 & s1 & H1 & H).
  pose proof (hce_TT _ _ (hce_unionfind_set _ _ _ _ _ _ H1 Hs)) as I1.
  pose proof (frx_unionfind_set E s0 _ _ _ _ _ H1 F) as F1.
  apply bind_reads_inv in H. destruct H as (cf & Hcf & H).
  apply mbind_inv in H. destruct H as (u2 & s2 & H2 & H).
  pose proof (hce_move_loop _ _ _ _ _ _ _ _ H2 I1) as I2.
  pose proof (frx_move_loop _ s0 _ _ _ _ _ _ _ H2 I1 F1) as F2.
  apply bind_reads_inv in H. destruct H as (cf2 & Hcf2 & H).
  apply bind_reads_inv in H. destruct H as (ct & Hct & H).
  apply mbind_inv in H. destruct H as ([g' fl] & s3 & H3 & H). apply lift_inv in H3. destruct H3 as [H3 ->].
  apply mbind_inv in H. destruct H as (u4 & s4 & H4 & H). cbn [fst snd] in *.
  apply mbind_inv in H. destruct H as (u5 & s5 & H5 & H).
  assert (I5 : hce TT s5 /\ frx (fun sh => E sh \/ In (aid from) (node_ids sh)) s0 s5).
  { destruct fl.
    - assert (I4 : hce TT s4).
      { eapply hce_TT. eapply hce_upd_class; [|exact H4|exact I2]. intros c0. split; reflexivity. }
      split.
      + eapply hce_touched_class; [exact H5|]. eapply hce_TT_any; [|exact I4]. intros y. left. exact I.
      + eapply frx_touched_class; [exact H5|exact (proj1 I4)|].
        eapply frx_upd_class; [|exact H4|exact F2]. intros c0. split; reflexivity.
    - inversion H5; subst u5 s5. apply gadd_set_false in H3. subst g'. split.
      + exact (upd_class_same_group _ _ (fun c => with_group c (c_group ct)) _ _ _ ct Hct eq_refl eq_refl eq_refl H4 I2).
      + exact (frx_upd_class_same _ s0 _ (fun c => with_group c (c_group ct)) _ _ _ ct Hct eq_refl eq_refl H4 F2). }
  destruct I5 as [I5 F5].
  eapply frx_touched_class; [exact H|exact (proj1 I5)|exact F5].
Qed.

Definition ui_specF (ui : appid -> appid -> M bool) : Prop :=
  forall E s0 l r s b s', ui l r s = Ok (b, s') -> hce TT s -> frx E s0 s -> frx E s0 s'.

Section UiF.
  Variable ui : appid -> appid -> M bool.
  Hypothesis HU : ui_specH ui.
  Hypothesis HF : ui_specF ui.

  Lemma frx_shrink_slots : forall E s0 from cap s x s', shrink_slots ui from cap s = Ok (x, s') ->
    hce TT s -> frx E s0 s -> frx E s0 s'.
  Proof.
    intros E s0 from cap s x s' H Hs F. unfold shrink_slots in H. cbv zeta in H.
    apply mbind_inv in H. destruct H as (oc & s9 & H0 & H). apply lift_inv in H0. destruct H0 as [_ ->].
    apply mbind_inv in H. destruct H as (u1 & s1 & H1 & H).
    unfold record_redundancy_witness in H1. apply bind_reads_inv in H1. destruct H1 as (ss & _ & H1).
    pose proof (hce_TT _ _ (hce_unionfind_set _ _ _ _ _ _ H1 Hs)) as I1.
    pose proof (frx_unionfind_set E s0 _ _ _ _ _ H1 F) as F1.
    apply bind_reads_inv in H. destruct H as (c & Hc & H).
    apply mbind_inv in H. destruct H as (flags & s9 & H0 & H). apply lift_inv in H0. destruct H0 as [_ ->].
    apply mbind_inv in H. destruct H as (g & s9 & H0 & H). apply lift_inv in H0. destruct H0 as [_ ->].
    apply mbind_inv in H. destruct H as (u2 & s2 & H2 & H).
    assert (I2 : hce TT s2).
    { eapply hce_TT. eapply hce_upd_class; [|exact H2|exact I1]. intros c0. split; reflexivity. }
    assert (F2 : frx (fun sh => E sh \/ In (aid from) (node_ids sh)) s0 s2).
    { eapply frx_weaken; [|eapply frx_upd_class; [|exact H2|exact F1]]; [intros y [A|A]; [exact A|right; exact A]|]. intros c0. split; reflexivity. }
    apply mbind_inv in H. destruct H as (u3 & s3 & H3 & H).
    assert (I3 : hce TT s3).
    { eapply hce_touched_class; [exact H3|]. eapply hce_TT_any; [|exact I2]. intros y. left. exact I. }
    pose proof (frx_touched_class E s0 _ _ _ _ H3 (proj1 I2) F2) as F3.
    clear - HU HF H I3 F3. revert s3 x s' H I3 F3.
    match goal with |- forall s3 x s', iterM ?f ?l s3 = _ -> _ => generalize l end.
    induction l as [|pp t IH]; intros s3 x s' H I3 F3; cbn [iterM] in H.
    - inversion H; subst. exact F3.
    - apply mbind_inv in H. destruct H as (u & s4 & H4 & H).
      apply bind_reads_inv in H4. destruct H4 as (sl & _ & H4).
      apply mbind_inv in H4. destruct H4 as (ps & s9 & H0 & H4). apply lift_inv in H0. destruct H0 as [_ ->].
      apply mbind_inv in H4. destruct H4 as (b & s5 & H5 & H4). inversion H4; subst u s5.
      eapply IH; [exact H|eapply HU; eauto|eapply HF; eauto].
  Qed.

  Lemma frx_union_leaders : forall E s0 l r s b s', union_leaders ui l r s = Ok (b, s') ->
    hce TT s -> frx E s0 s -> frx E s0 s'.
  Proof.
    intros E s0 l r s b s' H Hs F. unfold union_leaders in H.
    apply bind_reads_inv in H. destruct H as (e & _ & H). destruct e; [inversion H; subst; exact F|].
    cbv zeta in H.
    destruct (negb (sset_eqb (values (am l)) _)).
    { apply mbind_inv in H. destruct H as (u1 & s1 & H1 & H).
      apply mbind_inv in H. destruct H as (u2 & s2 & H2 & H). inversion H; subst b s2.
      eapply HF; [exact H2|eapply (hce_shrink_slots ui HU); eauto|eapply frx_shrink_slots; eauto]. }
    destruct (negb (sset_eqb (values (am r)) _)).
    { apply mbind_inv in H. destruct H as (u1 & s1 & H1 & H).
      apply mbind_inv in H. destruct H as (u2 & s2 & H2 & H). inversion H; subst b s2.
      eapply HF; [exact H2|eapply (hce_shrink_slots ui HU); eauto|eapply frx_shrink_slots; eauto]. }
    destruct (aid l =? aid r).
    - apply bind_reads_inv in H. destruct H as (c & Hc & H).
      apply mbind_inv in H. destruct H as (bb & s9 & H0 & H). apply lift_inv in H0. destruct H0 as [_ ->].
      destruct bb; [inversion H; subst; exact F|].
      apply mbind_inv in H. destruct H as (g & s9 & H0 & H). apply lift_inv in H0. destruct H0 as [_ ->].
      apply mbind_inv in H. destruct H as (u2 & s2 & H2 & H).
      apply mbind_inv in H. destruct H as (u3 & s3 & H3 & H). inversion H; subst b s3.
      assert (I2 : hce TT s2).
      { eapply hce_TT. eapply hce_upd_class; [|exact H2|exact Hs]. intros c0. split; reflexivity. }
      eapply frx_touched_class; [exact H3|exact (proj1 I2)|].
      eapply frx_upd_class; [|exact H2|exact F]. intros c0. split; reflexivity.
    - apply bind_reads_inv in H. destruct H as (cl & _ & H).
      apply bind_reads_inv in H. destruct H as (cr & _ & H).
      apply mbind_inv in H. destruct H as (u1 & s1 & H1 & H). inversion H; subst b s1.
      match type of H1 with (if ?c then _ else _) _ = _ => destruct c end; eapply frx_move_to; eauto.
  Qed.

  Lemma frx_union_internal_body : forall E s0 l r s b s', union_internal_body ui l r s = Ok (b, s') ->
    hce TT s -> frx E s0 s -> frx E s0 s'.
  Proof.
    intros E s0 l r s b s' H Hs F. unfold union_internal_body in H.
    apply bind_reads_inv in H. destruct H as (l1 & _ & H).
    apply bind_reads_inv in H. destruct H as (r1 & _ & H).
    eapply frx_union_leaders; eauto.
  Qed.
End UiF.

Theorem frx_union_internal : forall fuel, ui_specF (union_internal fuel).
Proof.
  induction fuel as [|f IH]; intros E s0 l r s b s' H Hs F; [discriminate H|].
  rewrite union_internal_S in H. eapply frx_union_internal_body; eauto. apply hce_union_internal.
Qed.

Corollary frx_uint : ui_specF uint.
Proof. exact (frx_union_internal ui_fuel). Qed.

(* ================================================================== *)
(* 4. the frame relation and monotonicity of equality keep the invariant *)

Lemma filt_agree : forall c c' m k, incl (c_slots c') (c_slots c) -> In k (c_slots c') ->
  get (filt c m) k = get (filt c' m) k.
Proof.
  intros c c' m k I Hk. unfold filt.
  rewrite (get_filter_key (fun k => sset_mem k (c_slots c))), (get_filter_key (fun k => sset_mem k (c_slots c'))).
  rewrite (proj2 (sset_mem_in _ _) Hk), (proj2 (sset_mem_in _ _) (I _ Hk)). reflexivity.
Qed.

Definition cpers (s s' : egraph) : Prop :=
  forall i c, get_class s i = Ok c -> exists c', get_class s' i = Ok c' /\ incl (c_slots c') (c_slots c) /\ c_syn c' = c_syn c.

Lemma ss_ent_step : forall s s' i sh cb src, inv3 s -> tab_ok s -> eg_inv s' -> cpers s s' -> eqmono s s' ->
  stored s i sh (cb, src) -> (forall j, In j (node_ids sh) -> unch s s' j) ->
  ss_ent s i sh cb -> ss_ent s' i sh cb.
Proof.
  intros s s' i sh cb src [_ Nk] T Hs' X Q St G SS c' vs v b0 bv Hc' V Iv W0 Wv.
  destruct (stored_get _ _ _ _ St) as (c & Hc & Gc).
  destruct (X i c Hc) as (c'' & Hc'' & Inc & _). rewrite Hc' in Hc''. inversion Hc''; subst c''; clear Hc''.
  assert (V0 : variants s sh = Ok vs).
  { apply (variants_frame s' s sh vs); [|exact V]. intros a Ha. symmetry.
    apply (proj2 (G (aid a) (in_map aid _ _ Ha))). }
  pose proof (SS c vs v b0 bv Hc V0 Iv W0 Wv) as E.
  pose proof (tb_bwd s T i sh _ St) as Hh.
  pose proof (lookup_covers s sh (sh, b0) _ Nk W0 (lookup_internal_intro s sh b0 i c cb src Hh Hc Gc)) as CA.
  pose proof (lookup_covers s v (sh, bv) _ Nk Wv (lookup_internal_intro s sh bv i c cb src Hh Hc Gc)) as CB.
  pose proof (Q _ _ CA CB E) as E'.
  rewrite <- E'. apply eg_eq_find_congr; apply (MonotoneFacts.find_agree s' i c' _ _ Hs' Hc'); intros k Hk; symmetry; apply filt_agree; assumption.
Qed.

Theorem sse_stepx : forall (E E' : node -> Prop) s s', inv3 s -> tab_ok s -> eg_inv s' -> cpers s s' -> eqmono s s' -> frx E' s s' ->
  sse E s -> sse (fun y => E y \/ E' y) s'.
Proof.
  intros E E' s s' I3 T Hs' X Q [M F] S i sh cb src St.
  destruct (F i sh _ St) as [A|[A|[St0 G]]]; [left; exact A|right; left; right; exact A|].
  destruct (S i sh cb src St0) as [A|[A|A]]; [left; apply M; exact A|right; left; left; exact A|].
  right. right. eapply ss_ent_step; eauto.
Qed.

Theorem sse_step : forall E s s', inv3 s -> tab_ok s -> eg_inv s' -> cpers s s' -> eqmono s s' -> frx noex s s' ->
  sse E s -> sse E s'.
Proof.
  intros E s s' I3 T Hs' X Q F S. eapply sse_weaken; [|exact (sse_stepx E noex s s' I3 T Hs' X Q F S)].
  intros y [A|[]]; exact A.
Qed.

Lemma sse_restrict : forall (E E' : node -> Prop) s, sse E s -> (forall i y p, stored s i y p -> E y -> E' y) -> sse E' s.
Proof. intros E E' s S H i sh cb src St. destruct (S i sh cb src St) as [A|[A|A]]; eauto. Qed.

(* uint, on a state with the structural invariants *)
Theorem sse_uint : forall E l r s b s', inv3 s -> tab_ok s -> covers s l -> covers s r -> uint l r s = Ok (b, s') ->
  sse E s -> sse E s'.
Proof.
  intros E l r s b s' I3 T Cl Cr H S. pose proof I3 as [[Hs _] _].
  destruct (inv4_uint l r s b s' Hs Cl Cr H) as (Hs' & [X Q] & _).
  apply (sse_step E s s' I3 T Hs' (proj2 (proj2 X)) Q); [|exact S].
  eapply frx_uint; [exact H| |apply frx_refl]. apply (hce_TT_any TT); [intros; exact I|]. split; [exact T|]. intros; right; right; exact I.
Qed.

(* ================================================================== *)
(* 5. SOURCE COHERENCE: the e-node sh[cb] stored in class i is the syntactic node of its source src, renamed by some
   g, with its children replaced by eg-equal ones, and the invocation src[g] is eg-equal to the invocation a of i
   (a = i[identity] for a stored entry).  This is what connects the bijection cb of the entry (used by
   lookup_internal, hence by ss_ok) with the invocation `find (src[identity])` on which determine_self_symmetries
   works.  No pending exemption: it holds for stale entries as well. *)

Definition rho_map (g : bool -> slot -> slot) (sl : sset) : slotmap := from_iter (map (fun x => (x, g true x)) sl).

Definition srcok_inv (s : egraph) (a : appid) (N1 : node) (src : N) : Prop :=
  exists csrc g l, get_class s src = Ok csrc /\ ren_ok g (c_syn csrc) /\
    N1 = set_apps (RenameFacts.ren g (c_syn csrc)) l /\
    Forall2 (kid_eq s) (app_occ (RenameFacts.ren g (c_syn csrc))) l /\
    kid_eq s {| aid := src; am := rho_map g (slots (c_syn csrc)) |} a.

Definition srcok (s : egraph) (i : N) (sh : node) (cb : slotmap) (src : N) : Prop :=
  exists c N1, get_class s i = Ok c /\ apply_slotmap false cb sh = Ok N1 /\
    srcok_inv s {| aid := i; am := identity (c_slots c) |} N1 src.

Definition srcx (E : node -> Prop) (s : egraph) : Prop :=
  forall i sh cb src, stored s i sh (cb, src) -> E sh \/ srcok s i sh cb src.

Lemma Forall2_impl : forall {A B} (P Q : A -> B -> Prop) l r, (forall x y, P x y -> Q x y) -> Forall2 P l r -> Forall2 Q l r.
Proof. intros A B P Q l r H F. induction F; constructor; auto. Qed.

(* classes persist with their syntactic node, slots only shrink; invocations stay eg-equal *)
Definition kmono (s s' : egraph) : Prop :=
  (forall a b, kid_eq s a b -> kid_eq s' a b) /\
  (forall i c, get_class s i = Ok c -> exists c', get_class s' i = Ok c' /\ incl (c_slots c') (c_slots c) /\ c_syn c' = c_syn c).

Lemma mext_kmono : forall s s', mext s s' -> kmono s s'.
Proof. intros s s' [X Q]. split; [intros a b; apply kid_eq_mono; assumption|exact (proj2 (proj2 X))]. Qed.
Lemma mext0_kmono : forall s s', mext0 s s' -> kmono s s'.
Proof. intros s s' [X Q]. split; [intros a b; apply kid_eq_mono0; assumption|exact (proj2 X)]. Qed.

Lemma srcok_inv_kmono : forall s s' a N1 src, kmono s s' -> srcok_inv s a N1 src -> srcok_inv s' a N1 src.
Proof.
  intros s s' a N1 src [KM CP] (csrc & g & l & Hc & Rk & EN & F & K).
  destruct (CP _ _ Hc) as (c' & Hc' & _ & Es). exists c', g, l. rewrite Es.
  split; [exact Hc'|]. split; [exact Rk|]. split; [exact EN|]. split; [eapply Forall2_impl; [|exact F]; exact KM|apply KM; exact K].
Qed.

Lemma kid_eq_id_shrink : forall s i c c' x, eg_inv s -> get_class s i = Ok c' -> incl (c_slots c') (c_slots c) ->
  kid_eq s x {| aid := i; am := identity (c_slots c) |} -> kid_eq s x {| aid := i; am := identity (c_slots c') |}.
Proof.
  intros s i c c' x Hs Hc' Inc (Cx & _ & E). split; [exact Cx|]. split; [apply covers_identity; exact Hc'|].
  rewrite <- E. apply eg_eq_find_congr; [reflexivity|].
  apply (MonotoneFacts.find_agree s i c' _ _ Hs Hc'). intros k Hk. rewrite !get_identity.
  rewrite (proj2 (sset_mem_in _ _) Hk), (proj2 (sset_mem_in _ _) (Inc _ Hk)). reflexivity.
Qed.

Lemma srcok_kmono : forall s s' i sh cb src, eg_inv s' -> kmono s s' -> srcok s i sh cb src -> srcok s' i sh cb src.
Proof.
  intros s s' i sh cb src Hs' KM (c & N1 & Hc & A & S).
  destruct (proj2 KM _ _ Hc) as (c' & Hc' & Inc & _). exists c', N1. split; [exact Hc'|]. split; [exact A|].
  destruct (srcok_inv_kmono s s' _ N1 src KM S) as (csrc & g & l & Hcs & Rk & EN & F & K).
  exists csrc, g, l. repeat (split; [assumption|]). eapply kid_eq_id_shrink; eauto.
Qed.

(* ================================================================== *)
(* 6. the frame relation through the composite operations of rebuild *)

Lemma frx_handle_shrink : forall E s0 src s x s', handle_shrink_in_upwards_merge src s = Ok (x, s') ->
  hce TT s -> frx E s0 s -> frx E s0 s'.
Proof.
  intros E s0 src s x s' H Hs F. unfold handle_shrink_in_upwards_merge in H.
  apply bind_reads_inv in H. destruct H as (pc1 & _ & H).
  apply bind_reads_inv in H. destruct H as (n2 & _ & H).
  apply mbind_inv in H. destruct H as ([a b] & s1 & H1 & H).
  eapply (frx_shrink_slots uint hce_uint frx_uint); [exact H|eapply hce_pc_congruence; eauto|eapply frx_pc_congruence; eauto].
Qed.

Lemma frx_handle_congruence : forall E s0 pc1 s x s', handle_congruence pc1 s = Ok (x, s') ->
  hce TT s -> frx E s0 s -> frx E s0 s'.
Proof.
  intros E s0 pc1 s x s' H Hs F. unfold handle_congruence in H.
  apply bind_reads_inv in H. destruct H as (sh & _ & H).
  apply bind_reads_inv in H. destruct H as (pc2 & _ & H).
  apply mbind_inv in H. destruct H as (ab & s1 & H1 & H).
  apply mbind_inv in H. destruct H as (b & s2 & H2 & H). inversion H; subst x s2; clear H.
  eapply frx_uint; [exact H2|eapply hce_pc_congruence; eauto|eapply frx_pc_congruence; eauto].
Qed.

Lemma frx_determine_self_symmetries : forall E s0 src s x s', determine_self_symmetries src s = Ok (x, s') ->
  hce TT s -> frx E s0 s -> frx E s0 s'.
Proof.
  intros E s0 src s x s' H Hs F. unfold determine_self_symmetries in H.
  apply bind_reads_inv in H. destruct H as (pc1 & _ & H).
  apply mbind_inv in H. destruct H as (w & s9 & Hw & H). apply lift_inv in Hw. destruct Hw as [_ ->].
  cbv zeta in H. apply bind_reads_inv in H. destruct H as (vs & _ & H).
  revert s x s' H Hs F. induction vs as [|pn2 t IH]; intros s x s' H Hs F; cbn [iterM] in H.
  - inversion H; subst. exact F.
  - apply mbind_inv in H. destruct H as (u & s2 & H1 & H).
    assert (Q : hce TT s2 /\ frx E s0 s2).
    { clear H IH.
      apply mbind_inv in H1. destruct H1 as (w2 & s9 & Hw2 & H1). apply lift_inv in Hw2. destruct Hw2 as [_ ->].
      destruct (node_eqb (fst w) (fst w2)); [|inversion H1; subst; split; assumption].
      apply mbind_inv in H1. destruct H1 as (ab & s3 & H3 & H1).
      apply mbind_inv in H1. destruct H1 as (b & s4 & H4 & H1). inversion H1; subst u s4; clear H1.
      pose proof (hce_pc_congruence _ _ _ _ _ _ H3 Hs) as Hs3.
      split; [eapply hce_uint; eauto|eapply frx_uint; [exact H4|exact Hs3|eapply frx_pc_congruence; eauto]]. }
    destruct Q as [Hs2 F2]. eapply IH; eauto.
Qed.

Lemma frx_hp_loop : forall E s0 fuel src enode i s r s', hp_loop fuel src enode i s = Ok (r, s') ->
  hce TT s -> frx E s0 s -> frx E s0 s'.
Proof.
  intros E s0. induction fuel as [|f IH]; intros src enode i s r s' H Hs F; cbn [hp_loop] in H; [discriminate|].
  destruct (sset_subset (values (am i)) (slots enode)).
  - inversion H; subst. exact F.
  - apply mbind_inv in H. destruct H as (u & s1 & H1 & H).
    apply bind_reads_inv in H. destruct H as (enode' & _ & H).
    apply bind_reads_inv in H. destruct H as (i' & _ & H).
    eapply IH; [exact H|eapply hce_handle_shrink; eauto|eapply frx_handle_shrink; eauto].
Qed.

(* the invariant along a step with the structural invariants on both sides *)
Lemma sse_via : forall E s s', inv3 s -> tab_ok s -> eg_inv2 s' -> mext s s' -> frx noex s s' -> sse E s -> sse E s'.
Proof. intros E s s' I3 T [Hs' _] [X Q] F S. exact (sse_step E s s' I3 T Hs' (proj2 (proj2 X)) Q F S). Qed.

Lemma hce_tab : forall (E : node -> Prop) s, hce E s -> tab_ok s.
Proof. intros E s H. exact (proj1 H). Qed.
Lemma tab_hce_TT : forall s, tab_ok s -> hce TT s.
Proof. intros s T. split; [exact T|]. intros; right; right; exact I. Qed.

Lemma sse_viax : forall (E E' : node -> Prop) s s', inv3 s -> tab_ok s -> eg_inv2 s' -> mext s s' -> frx E' s s' ->
  sse E s -> sse (fun y => E y \/ E' y) s'.
Proof. intros E E' s s' I3 T [Hs' _] [X Q] F S. exact (sse_stepx E E' s s' I3 T Hs' (proj2 (proj2 X)) Q F S). Qed.

(* ================================================================== *)
(* 7. source coherence: the entry in flight inside handle_pending *)

Lemma kid_eq_trans : forall s a b c, eg_inv s -> kid_eq s a b -> kid_eq s b c -> kid_eq s a c.
Proof.
  intros s a b c Hs (Ca & Cb & E1) (_ & Cc & E2). split; [exact Ca|]. split; [exact Cc|].
  exact (eg_eq_trans_true s a b c Hs Ca Cb Cc E1 E2).
Qed.

Lemma kid_eq_mapr_find : forall s l0 l l', eg_inv s -> Forall2 (kid_eq s) l0 l -> mapr (find_applied_id s) l = Ok l' ->
  Forall2 (kid_eq s) l0 l'.
Proof.
  intros s l0 l l' Hs F. revert l'. induction F as [|x y l0 l Hxy F IH]; intros l' H; cbn [mapr] in H.
  - inversion H. constructor.
  - destruct (find_applied_id s y) as [y'|] eqn:Fy; cbn [bind] in H; [|discriminate].
    destruct (mapr (find_applied_id s) l) as [r|] eqn:Er; cbn [bind] in H; [|discriminate]. inversion H; subst l'.
    constructor; [|apply IH; reflexivity].
    eapply kid_eq_trans; [exact Hs|exact Hxy|]. apply kid_eq_find; [exact Hs|exact (proj1 (proj2 Hxy))|exact Fy].
Qed.

Lemma flight_find : forall s a N1 src N1' a', eg_inv s -> srcok_inv s a N1 src ->
  find_enode s N1 = Ok N1' -> find_applied_id s a = Ok a' -> srcok_inv s a' N1' src.
Proof.
  intros s a N1 src N1' a' Hs (csrc & g & l & Hc & Rk & EN & F & K) Fe Fa.
  pose proof (Forall2_length' _ _ _ F) as Len.
  unfold find_enode in Fe. rewrite EN in Fe. rewrite app_occ_set_apps in Fe by exact Len.
  destruct (mapr (find_applied_id s) l) as [l'|] eqn:El; cbn [bind] in Fe; [|discriminate]. inversion Fe; subst N1'.
  exists csrc, g, l'. split; [exact Hc|]. split; [exact Rk|]. split.
  - apply set_apps_twice. pose proof (mapr_length _ _ _ El) as Ll. lia.
  - split; [exact (kid_eq_mapr_find s _ l l' Hs F El)|].
    eapply kid_eq_trans; [exact Hs|exact K|]. apply kid_eq_find; [exact Hs|exact (proj1 (proj2 K))|exact Fa].
Qed.

Lemma flight_hp_loop : forall fuel src0 src enode i s r s', eg_inv2 s -> srcok_inv s i enode src0 ->
  hp_loop fuel src enode i s = Ok (r, s') -> srcok_inv s' (snd r) (fst r) src0.
Proof.
  induction fuel as [|f IH]; intros src0 src enode i s r s' Hs Fl H; cbn [hp_loop] in H; [discriminate|].
  destruct (sset_subset (values (am i)) (slots enode)).
  - inversion H; subst. exact Fl.
  - apply mbind_inv in H. destruct H as (u & s1 & H1 & H).
    destruct (inv4_handle_shrink _ _ _ _ H1 Hs) as [Hs1 X1].
    apply bind_reads_inv in H. destruct H as (enode' & He & H).
    apply bind_reads_inv in H. destruct H as (i' & Hi & H).
    eapply IH; [exact Hs1| |exact H].
    eapply flight_find; [exact (proj1 Hs1)| |exact He|exact Hi].
    eapply srcok_inv_kmono; [apply mext_kmono; exact X1|exact Fl].
Qed.

Lemma srcx_kmono : forall (E : node -> Prop) s s', eg_inv s' -> kmono s s' ->
  (forall i y p, stored s' i y p -> E y \/ stored s i y p) -> srcx E s -> srcx E s'.
Proof.
  intros E s s' Hs' KM Sub S i sh cb src St. destruct (Sub _ _ _ St) as [A|St0]; [left; exact A|].
  destruct (S i sh cb src St0) as [A|A]; [left; exact A|right]. eapply srcok_kmono; eauto.
Qed.

Lemma srcx_weaken : forall (E E' : node -> Prop) s, (forall y, E y -> E' y) -> srcx E s -> srcx E' s.
Proof. intros E E' s H S i sh cb src St. destruct (S i sh cb src St) as [A|A]; auto. Qed.

Lemma srcx_semR : forall E s s', eg_inv2 s -> semR s s' -> (forall i y p, stored s' i y p -> stored s i y p) -> srcx E s -> srcx E s'.
Proof.
  intros E s s' Hs S Sub X. destruct (semR_step4 _ _ S Hs) as [Hs' M].
  apply (srcx_kmono E s s' (proj1 Hs') (mext_kmono _ _ M)); [|exact X]. intros i y p St. right. apply Sub. exact St.
Qed.

Lemma stored_ctr_only : forall s s' i y p, ctr_only s s' -> stored s' i y p -> stored s i y p.
Proof. intros s s' i y p [c ->] H. exact H. Qed.

Lemma pcc_ctr_only : forall a b s x s', pc_congruence a b s = Ok (x, s') -> ctr_only s s'.
Proof.
  intros a b s x s' H. apply (pres_pc_congruence ctr_only ctr_only_refl ctr_only_trans) in H; [assumption| |];
    intros; intros s1 y s1' H0; eapply with_ctr_only; eauto.
Qed.

Lemma alloc_facts : forall sl syn s i s', eg_inv s -> tab_ok s -> alloc_eclass sl syn s = Ok (i, s') ->
  frx noex s s' /\ eqmono s s' /\ cpers s s' /\ (forall j y p, stored s' j y p -> stored s j y p).
Proof.
  intros sl syn s i s' Hs T H. pose proof Hs as [Hok Hsl _]. pose proof (uso_wf _ Hsl) as W.
  destruct (alloc_eclass_exact _ _ _ _ _ H) as (Hi & U & C & Hh & P & _).
  set (cn := {| c_nodes := []; c_slots := sl; c_usages := []; c_group := Grp (identity sl) None; c_syn := syn |}) in *.
  assert (Ei : i = N.of_nat (lc s)) by (rewrite Hi; f_equal; exact W).
  assert (Hnew : get_class s' i = Ok cn) by (rewrite Ei; apply (get_class_ext_new s s' cn C)).
  assert (Old : forall j, j <> i -> get_class s' j = get_class s j).
  { intros j Hj. unfold get_class. rewrite C, nth_opt_app_other; [reflexivity|]. rewrite Ei in Hj. lia. }
  assert (Enew : get_class s i = Err UnwrapNone).
  { unfold get_class. destruct (nth_opt (classes s) (N.to_nat i)) eqn:Ec; [|reflexivity].
    apply nth_opt_Some_lt in Ec. rewrite Ei, Nat2N.id in Ec. lia. }
  assert (Sub : forall j y p, stored s' j y p -> stored s j y p).
  { intros j y p S. unfold stored, cnodes in *. destruct (N.eq_dec j i) as [->|Hj].
    - rewrite Hnew in S. discriminate.
    - rewrite (Old j Hj) in S. exact S. }
  split; [|split; [|split; [|exact Sub]]].
  - split; [intros y A; unfold pendT in *; rewrite P; exact A|].
    intros j y p S. right. right. split; [apply Sub; exact S|]. intros k Hk.
    assert (Hki : k <> i).
    { intros ->. pose proof (tb_use s T _ _ _ _ (Sub _ _ _ S) Hk) as Uu. unfold cusages in Uu. rewrite Enew in Uu. exact Uu. }
    split; [rewrite U; apply uentry_app_other; rewrite Hi in Hki; lia|unfold cgroup; rewrite (Old k Hki); reflexivity].
  - intros x y Cx Cy Q. destruct (alloc_eclass_frame _ _ _ _ _ Hok W H) as (_ & F & _).
    rewrite F; [exact Q| |]; rewrite W; apply covers_lt; assumption.
  - intros j c Hc. exists c. split; [eapply get_class_ext_old; eauto|]. split; [apply incl_refl|reflexivity].
Qed.

