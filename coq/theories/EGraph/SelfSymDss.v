(* EGraph/SelfSymDss.v — determine_self_symmetries ESTABLISHES the self-symmetry completeness (`ss_ent`) of the
   entry it is called for (hypothesis DSS_EST of SelfSymCond.v).  All closed under the global context.
   (S1) `dss_unions`: the unions performed by determine_self_symmetries, as equalities of the final state:
        pai = pai.(inv b2 ** b1) for every variant pn2 of nd with the weak shape of nd (compose_fresh is total here).
   (S2) `dss_closure` (`grp_close`): group closure: pai = pai.(inv b0 ** bv) for two such variants.
   (S3) `dss_est_tr`: transport to the stored entry, from the transport property `dss_transport` (state s only);
        `dss_transport_holds`: the transport property holds for every witness of the source coherence.
   `dss_est`: the theorem, with ONE added premise: the stored bijection cb is defined on every public slot of sh
        (forall k, In k (pub_occ sh) -> get cb k <> None), the premise of HashconsShape.shape_apply; true at the call
        site in handle_pending (cb = bij ** m, bij the bijection of `shape s enode`, m total on the values of bij).
        The premises inv3 s', m4 s', stored s' .., srcok s' .. of the statement are not used. *)
From SE Require Import Slots.SlotMapFacts Group.GroupSound Lang.LangFacts Lang.ShapeFacts Lang.RenameFacts
  Slots.SlotFacts Base.TextFacts EGraph.Model EGraph.ModelFacts EGraph.ModelMachine EGraph.PendingFacts EGraph.UnionFindFacts
  EGraph.InvariantFacts EGraph.UnionInvariantFacts EGraph.AddCoversFacts EGraph.MonotoneFacts EGraph.HashconsShape
  EGraph.Mod4Facts EGraph.HashconsAbs EGraph.Model9 EGraph.HashconsFacts EGraph.NodeCong EGraph.KidEqFacts EGraph.ShapeCong
  EGraph.CongruenceFacts EGraph.SelfSymDefs.
Require Import ZArith Lia ZifyBool ZifyN ZifyNat.

Local Notation "a ** b" := (compose_partial a b) (at level 40, left associativity).
Local Notation inv := inverse_nocheck.
Local Notation ectr := Model.ctr.

(* ================================================================== *)
(* 0. compose_fresh is compose_partial when the composition is total *)

Lemma cf_total : forall a b c, wf a -> (forall k y, get a k = Some y -> get b y <> None) ->
  fst (compose_fresh a b c) = a ** b.
Proof.
  intros a b c W T. apply ext_eq.
  - exact (proj1 (compose_fresh_spec a b c 0 W)).
  - apply compose_partial_wf.
  - intros k. destruct (compose_fresh_spec a b c k W) as (_ & _ & H).
    rewrite get_compose_partial by exact W.
    destruct (get a k) as [y|] eqn:E; [|exact H].
    destruct (get b y) as [z|] eqn:E2; [exact H|]. exfalso. exact (T k y E E2).
Qed.

(* the permutation between two nodes with the same weak shape *)
Lemma perm_total : forall n1 n2 weak b1 b2, wshape n1 = Ok (weak, b1) -> wshape n2 = Ok (weak, b2) ->
  forall k y, get (inv b2) k = Some y -> get b1 y <> None.
Proof.
  intros n1 n2 weak b1 b2 W1 W2 k y G.
  destruct (shape_bij_props _ _ _ W2) as (Wb2 & Bb2 & _).
  apply (get_inverse b2 _ _ Wb2 Bb2) in G.
  destruct (shape_bij _ _ _ W1) as (_ & K1 & _). destruct (shape_bij _ _ _ W2) as (_ & K2 & _).
  apply K1. apply K2. rewrite G. discriminate.
Qed.

Lemma perm_dom : forall n1 n2 weak b1 b2, wshape n1 = Ok (weak, b1) -> wshape n2 = Ok (weak, b2) ->
  forall y, In y (pub_occ n2) -> get (inv b2 ** b1) y <> None.
Proof.
  intros n1 n2 weak b1 b2 W1 W2 y Hy.
  destruct (shape_bij_props _ _ _ W2) as (Wb2 & Bb2 & Vb2).
  apply Vb2 in Hy. destruct Hy as (k & Gk).
  rewrite get_compose_partial by apply inverse_wf.
  apply (get_inverse b2 _ _ Wb2 Bb2) in Gk. rewrite Gk.
  destruct (shape_bij _ _ _ W1) as (_ & K1 & _). destruct (shape_bij _ _ _ W2) as (_ & K2 & _).
  apply K1. apply K2. apply (get_inverse b2 _ _ Wb2 Bb2) in Gk. rewrite Gk. discriminate.
Qed.

(* ================================================================== *)
(* 1. (S1) the unions of determine_self_symmetries *)

Definition dss_body (pc1 : pcont) (weak : node) : node -> M unit :=
  fun pn2 => dom w2 <- Model.lift (wshape pn2);
     if node_eqb weak (fst w2) then
       dom ab <- pc_congruence pc1 (pn2, snd pc1); dom _ <- uint (fst ab) (snd ab); ret tt
     else ret tt.

Lemma dss_step : forall s0 s src pc1 weak b1 pn2 b2 ab s1 b s',
  eg_inv2 s0 -> ext s0 s -> eg_inv2 s -> pc_from_src_id s0 src = Ok pc1 ->
  wshape (fst pc1) = Ok (weak, b1) -> wshape pn2 = Ok (weak, b2) ->
  (forall y, In y (values (am (snd pc1))) -> In y (pub_occ pn2)) ->
  pc_congruence pc1 (pn2, snd pc1) s = Ok (ab, s1) -> uint (fst ab) (snd ab) s1 = Ok (b, s') ->
  eg_inv2 s' /\ mext s s' /\ covers s' (snd pc1) /\
  covers s' {| aid := aid (snd pc1); am := am (snd pc1) ** (inv b2 ** b1) |} /\
  eg_eq s' (snd pc1) {| aid := aid (snd pc1); am := am (snd pc1) ** (inv b2 ** b1) |} = Ok true.
Proof.
  intros s0 s src pc1 weak b1 pn2 b2 ab s1 b s' Hs02 E0 Hs2 P1 W1 W2 Vp H U.
  pose proof Hs02 as [Hs0 Hb0].
  destruct (pc_props s0 src pc1 Hs0 P1) as (L1 & c & Hc & Oc).
  destruct (canon_wf_inj _ _ (proj2 L1)) as [Wp Ip].
  destruct (pcc_injective s pc1 (pn2, snd pc1) ab s1) as (F1 & F2 & F3 & F4); try assumption.
  { intros x Hx. assert (x < ectr s0) by (apply (Hb0 src c x Hc); apply Oc; apply pub_occ_all_occ; assumption).
    destruct E0 as (L & _). lia. }
  pose proof (s_pc_congruence _ _ _ _ _ H) as S1. destruct (semR_step4 _ _ S1 Hs2) as [Hs1 X1].
  pose proof (proj1 X1) as E1. pose proof (ext_trans _ _ _ E0 E1) as E01.
  assert (C1 : covers s1 (fst ab)).
  { rewrite F1. apply (covers_ext s0 s1); [assumption|]. apply canon_covers. apply L1. }
  assert (C2 : covers s1 (snd ab)).
  { pose proof (canon_covers _ _ (proj2 L1)) as C. apply (covers_ext s0 s1 _ E01) in C.
    destruct C as (c2 & Hc2 & _ & Sk). exists c2. rewrite F2. split; [assumption|]. split; [assumption|].
    intros k Hk. apply F4. apply Sk. assumption. }
  destruct (inv4_uint _ _ _ _ _ (proj1 Hs1) C1 C2 U) as (Hs' & X2 & Eq).
  destruct (uint_step4 _ _ _ _ _ C1 C2 U Hs1) as [Hs2' _].
  (* the second invocation *)
  destruct (pc_congruence_dec _ _ _ _ _ H) as (sa & sb & m & c1 & xx & c2 & bm & c3 & Wsa & Wsb & Em & _ & Ebm & Eab).
  cbn [fst snd] in Wsa, Wsb, Ebm. rewrite W1 in Wsa. rewrite W2 in Wsb. inversion Wsa; subst sa. inversion Wsb; subst sb.
  cbn [snd] in Em.
  assert (M1 : m = inv b2 ** b1).
  { replace m with (fst (compose_fresh (inv b2) b1 (ectr s))) by (rewrite Em; reflexivity).
    apply cf_total; [apply inverse_wf|]. exact (perm_total _ _ _ _ _ W1 W2). }
  assert (M2 : bm = am (snd pc1) ** (inv b2 ** b1)).
  { replace bm with (fst (compose_fresh (am (snd pc1)) m c2)) by (rewrite Ebm; reflexivity).
    rewrite M1. apply cf_total; [exact Wp|]. intros k y G. apply (perm_dom _ _ _ _ _ W1 W2).
    apply Vp. apply values_spec; [exact Wp|]. eauto. }
  subst ab. cbn [fst snd aid] in *. rewrite M2 in *.
  split; [exact Hs2'|]. split; [eapply mext_trans; eauto|].
  split; [eapply covers_ext; [exact (proj1 X2)|exact C1]|]. split; [eapply covers_ext; [exact (proj1 X2)|exact C2]|exact Eq].
Qed.

Lemma dss_loop : forall s0 src pc1 weak b1, eg_inv2 s0 -> pc_from_src_id s0 src = Ok pc1 ->
  wshape (fst pc1) = Ok (weak, b1) ->
  forall vs s1 x s', eg_inv2 s1 -> ext s0 s1 ->
    (forall pn2 y, In pn2 vs -> In y (values (am (snd pc1))) -> In y (pub_occ pn2)) ->
    iterM (dss_body pc1 weak) vs s1 = Ok (x, s') ->
    eg_inv2 s' /\ mext s1 s' /\
    forall pn2 b2, In pn2 vs -> wshape pn2 = Ok (weak, b2) ->
      eg_eq s' (snd pc1) {| aid := aid (snd pc1); am := am (snd pc1) ** (inv b2 ** b1) |} = Ok true.
Proof.
  intros s0 src pc1 weak b1 Hs0 P1 W1.
  induction vs as [|pn t IH]; intros s1 x s' Hs1 E01 Vp H; cbn [iterM] in H.
  - inversion H; subst. split; [assumption|]. split; [apply mext_refl|]. intros pn2 b2 [].
  - apply mbind_inv in H. destruct H as (u & s2 & H1 & H).
    unfold dss_body in H1 at 1.
    apply mbind_inv in H1. destruct H1 as (w2 & s9 & Hw2 & H1). apply lift_inv in Hw2. destruct Hw2 as [Hw2 ->].
    destruct (node_eqb weak (fst w2)) eqn:Ew.
    + apply node_eqb_iff in Ew. destruct w2 as [wk b2]. cbn [fst] in Ew. subst wk.
      apply mbind_inv in H1. destruct H1 as (ab & s3 & H3 & H1).
      apply mbind_inv in H1. destruct H1 as (b & s4 & H4 & H1). inversion H1; subst u s4; clear H1.
      destruct (dss_step s0 s1 src pc1 weak b1 pn b2 ab s3 b s2 Hs0 E01 Hs1 P1 W1 Hw2
                  (fun y Hy => Vp pn y (or_introl eq_refl) Hy) H3 H4) as (Hs2 & X12 & Ca & Cb & Eq).
      destruct (IH s2 x s' Hs2 (ext_trans _ _ _ E01 (proj1 X12)) (fun p y Hp Hy => Vp p y (or_intror Hp) Hy) H)
        as (Hs' & X2 & R).
      split; [exact Hs'|]. split; [eapply mext_trans; eauto|].
      intros pn2 b2' [<-|Hin] Wp.
      * rewrite Hw2 in Wp. inversion Wp; subst b2'. exact (proj2 X2 _ _ Ca Cb Eq).
      * exact (R pn2 b2' Hin Wp).
    + inversion H1; subst u s2; clear H1.
      destruct (IH s1 x s' Hs1 E01 (fun p y Hp Hy => Vp p y (or_intror Hp) Hy) H) as (Hs' & X2 & R).
      split; [exact Hs'|]. split; [exact X2|].
      intros pn2 b2' [<-|Hin] Wp.
      * rewrite Hw2 in Wp. inversion Wp; subst. cbn [fst] in Ew. rewrite node_eqb_refl in Ew. discriminate.
      * exact (R pn2 b2' Hin Wp).
Qed.

(* (S1) *)
Theorem dss_unions : forall src s x s' nd pai weak b1 vs,
  eg_inv2 s -> pc_from_src_id s src = Ok (nd, pai) -> wshape nd = Ok (weak, b1) -> variants s nd = Ok vs ->
  (forall pn2 y, In pn2 vs -> In y (values (am pai)) -> In y (pub_occ pn2)) ->
  determine_self_symmetries src s = Ok (x, s') ->
  eg_inv2 s' /\ mext s s' /\
  forall pn2 b2, In pn2 vs -> wshape pn2 = Ok (weak, b2) ->
    eg_eq s' pai {| aid := aid pai; am := am pai ** (inv b2 ** b1) |} = Ok true.
Proof.
  intros src s x s' nd pai weak b1 vs Hs P1 W1 V Vp H. unfold determine_self_symmetries in H.
  apply bind_reads_inv in H. destruct H as (pc1 & P1' & H). rewrite P1 in P1'. inversion P1'; subst pc1; clear P1'.
  apply mbind_inv in H. destruct H as (w & s9 & Hw & H). apply lift_inv in Hw. destruct Hw as [Hw ->].
  cbn [fst] in Hw. rewrite W1 in Hw. inversion Hw; subst w; clear Hw.
  cbv zeta in H. apply bind_reads_inv in H. destruct H as (vs' & V' & H). cbn [fst] in V'. rewrite V in V'.
  inversion V'; subst vs'; clear V'.
  exact (dss_loop s src (nd, pai) weak b1 Hs P1 W1 vs s x s' Hs (ext_refl s) Vp H).
Qed.

(* ================================================================== *)
(* 2. (S2) group closure *)

Lemma get_rho_map : forall g sl k, get (rho_map g sl) k = if sset_mem k sl then Some (g true k) else None.
Proof.
  intros g sl k. unfold rho_map. rewrite get_from_iter.
  induction sl as [|x t IH]; cbn [map assoc_last sset_mem]; [reflexivity|].
  rewrite IH. destruct (sset_mem k t) eqn:E.
  - rewrite orb_true_r. reflexivity.
  - rewrite orb_false_r. destruct (k =? x) eqn:E2; [apply N.eqb_eq in E2; subst; reflexivity|reflexivity].
Qed.

Lemma comp_agree : forall a m m', wf a -> (forall y, In y (values a) -> get m y = get m' y) -> a ** m = a ** m'.
Proof.
  intros a m m' W H. apply ext_eq; try apply compose_partial_wf. intros k.
  rewrite !get_compose_partial by exact W. destruct (get a k) as [y|] eqn:E; [|reflexivity].
  apply H. apply values_spec; [exact W|]. eauto.
Qed.

Lemma comp_id_on : forall a m, wf a -> (forall y, In y (values a) -> get m y = Some y) -> a ** m = a.
Proof.
  intros a m W H. apply ext_eq; [apply compose_partial_wf|exact W|]. intros k.
  rewrite get_compose_partial by exact W. destruct (get a k) as [y|] eqn:E; [|reflexivity].
  apply H. apply values_spec; [exact W|]. eauto.
Qed.

Lemma covers_comp : forall s a m, covers s a -> wf (am a) -> injective m ->
  (forall y, In y (values (am a)) -> get m y <> None) -> covers s {| aid := aid a; am := am a ** m |}.
Proof.
  intros s a m (c & Hc & Ia & Sk) W Im D. exists c. cbn [aid am]. split; [exact Hc|].
  split; [apply compose_injective; assumption|].
  intros k Hk. rewrite get_compose_partial by exact W. destruct (get (am a) k) as [y|] eqn:E; [|exfalso; exact (Sk k Hk E)].
  apply D. apply values_spec; [exact W|]. eauto.
Qed.

Lemma eq_ren : forall s a b m, eg_inv s -> covers s a -> covers s b -> wf (am a) -> wf (am b) -> injective m ->
  (forall y, In y (values (am a)) -> get m y <> None) -> eg_eq s a b = Ok true ->
  eg_eq s {| aid := aid a; am := am a ** m |} {| aid := aid b; am := am b ** m |} = Ok true.
Proof.
  intros s a b m Hs Ca Cb Wa Wb Im D E. apply eg_eq_rename; try assumption.
  intros k y G. apply D. apply values_spec; [exact Wa|]. eauto.
Qed.

(* from a = a.A and a = a.B, with C a left inverse of B on the slots of a: a = a.(A ** C) *)
Lemma grp_close : forall s a A B C, eg_inv s -> covers s a -> wf (am a) ->
  wf A -> wf B -> injective A -> injective B -> injective C ->
  (forall y, In y (values (am a)) -> exists z, get B y = Some z /\ get C z = Some y) ->
  (forall y, In y (values (am a)) -> exists z, get A y = Some z /\ get C z <> None) ->
  (forall y, In y (values (am a)) -> get C y <> None) ->
  eg_eq s a {| aid := aid a; am := am a ** A |} = Ok true ->
  eg_eq s a {| aid := aid a; am := am a ** B |} = Ok true ->
  eg_eq s a {| aid := aid a; am := am a ** A ** C |} = Ok true.
Proof.
  intros s a A B C Hs Ca Wa WA WB IA IB IC HB HA HC EA EB.
  assert (DA : forall y, In y (values (am a)) -> get A y <> None).
  { intros y Hy. destruct (HA y Hy) as (z & -> & _). discriminate. }
  assert (DB : forall y, In y (values (am a)) -> get B y <> None).
  { intros y Hy. destruct (HB y Hy) as (z & -> & _). discriminate. }
  pose proof (covers_comp s a A Ca Wa IA DA) as CA.
  pose proof (covers_comp s a B Ca Wa IB DB) as CB.
  pose proof (covers_comp s a C Ca Wa IC HC) as CC.
  pose proof (eq_ren s a _ C Hs Ca CB Wa (compose_partial_wf _ _) IC HC EB) as R1. cbn [aid am] in R1.
  assert (EBC : am a ** B ** C = am a).
  { rewrite compose_partial_assoc by assumption. apply comp_id_on; [exact Wa|]. intros y Hy.
    rewrite get_compose_partial by exact WB. destruct (HB y Hy) as (z & -> & G). exact G. }
  rewrite EBC in R1. destruct a as [ia ma]. cbn [aid am] in *.
  pose proof (eq_ren s _ _ C Hs Ca CA Wa (compose_partial_wf _ _) IC HC EA) as R2. cbn [aid am] in R2.
  assert (CAC : covers s {| aid := ia; am := ma ** A ** C |}).
  { apply (covers_comp s {| aid := ia; am := ma ** A |} C CA (compose_partial_wf _ _) IC). cbn [am].
    intros z Hz. apply values_spec in Hz; [|apply compose_partial_wf]. destruct Hz as (k & G).
    rewrite get_compose_partial in G by exact Wa. destruct (get ma k) as [y|] eqn:E; [|discriminate].
    assert (Hy : In y (values ma)) by (apply values_spec; [exact Wa|]; eauto).
    destruct (HA y Hy) as (z' & G' & Hz'). rewrite G' in G. inversion G; subst z'. exact Hz'. }
  apply (eg_eq_trans_true s _ {| aid := ia; am := ma ** C |} _ Hs Ca CC CAC); [|exact R2].
  apply (eg_eq_sym_true s _ _ Hs CC Ca R1).
Qed.

(* a bijection, pointwise *)
Lemma inv_get : forall b k y, wf b -> is_bijection b = true -> get b k = Some y -> get (inv b) y = Some k.
Proof. intros b k y W B G. apply (get_inverse b _ _ W B). exact G. Qed.

(* (S2): two variants of nd with the weak shape of nd *)
Lemma dss_closure : forall s a n0 nv n1 sh b0 bv b1,
  eg_inv s -> covers s a -> wf (am a) ->
  wshape n0 = Ok (sh, b0) -> wshape nv = Ok (sh, bv) -> wshape n1 = Ok (sh, b1) ->
  (forall y, In y (values (am a)) -> In y (pub_occ n0)) ->
  (forall y, In y (values (am a)) -> In y (pub_occ nv)) ->
  (forall y, In y (values (am a)) -> In y (pub_occ n1)) ->
  eg_eq s a {| aid := aid a; am := am a ** (inv b0 ** b1) |} = Ok true ->
  eg_eq s a {| aid := aid a; am := am a ** (inv bv ** b1) |} = Ok true ->
  eg_eq s a {| aid := aid a; am := am a ** (inv b0 ** bv) |} = Ok true.
Proof.
  intros s a n0 nv n1 sh b0 bv b1 Hs Ca Wa W0 Wv W1 P0 Pv P1 E0 Ev.
  destruct (shape_bij_props _ _ _ W0) as (Wb0 & Bb0 & Vb0).
  destruct (shape_bij_props _ _ _ Wv) as (Wbv & Bbv & Vbv).
  destruct (shape_bij_props _ _ _ W1) as (Wb1 & Bb1 & Vb1).
  destruct (shape_bij _ _ _ W0) as (_ & K0 & _). destruct (shape_bij _ _ _ Wv) as (_ & Kv & _).
  destruct (shape_bij _ _ _ W1) as (_ & K1 & _).
  assert (I0 : injective b0) by (apply is_bijection_injective; assumption).
  assert (Iv : injective bv) by (apply is_bijection_injective; assumption).
  assert (I1 : injective b1) by (apply is_bijection_injective; assumption).
  assert (IA : forall b, wf b -> injective b -> injective (inv b ** b1)).
  { intros b W I. apply compose_injective; [apply inverse_wf|apply inv_injective; assumption|exact I1]. }
  assert (IC : injective (inv b1 ** bv)).
  { apply compose_injective; [apply inverse_wf|apply inv_injective; assumption|exact Iv]. }
  assert (key : forall b k, get b k <> None -> In k (pub_occ sh) -> exists z, get b1 k = Some z).
  { intros b k _ Hk. apply K1 in Hk. destruct (get b1 k) as [z|]; [eauto|contradiction]. }
  pose proof (grp_close s a (inv b0 ** b1) (inv bv ** b1) (inv b1 ** bv) Hs Ca Wa
                (compose_partial_wf _ _) (compose_partial_wf _ _) (IA b0 Wb0 I0) (IA bv Wbv Iv) IC) as G.
  assert (EQ : am a ** (inv b0 ** b1) ** (inv b1 ** bv) = am a ** (inv b0 ** bv)).
  { rewrite compose_partial_assoc by (try assumption; apply compose_partial_wf).
    apply comp_agree; [exact Wa|]. intros y Hy.
    apply P0, Vb0 in Hy. destruct Hy as (k & Gk).
    rewrite get_compose_partial by apply compose_partial_wf.
    rewrite !get_compose_partial by apply inverse_wf.
    rewrite (inv_get b0 k y Wb0 Bb0 Gk).
    assert (Hk : In k (pub_occ sh)) by (apply K0; rewrite Gk; discriminate).
    destruct (get b1 k) as [z|] eqn:Gz; [|exfalso; apply K1 in Hk; contradiction].
    rewrite get_compose_partial by apply inverse_wf.
    rewrite (inv_get b1 k z Wb1 Bb1 Gz). reflexivity. }
  rewrite EQ in G. apply G; [| | |exact E0|exact Ev].
  - intros y Hy. apply Pv, Vbv in Hy. destruct Hy as (k & Gk).
    assert (Hk : In k (pub_occ sh)) by (apply Kv; rewrite Gk; discriminate).
    destruct (get b1 k) as [z|] eqn:Gz; [|exfalso; apply K1 in Hk; contradiction].
    exists z. rewrite !get_compose_partial by apply inverse_wf.
    rewrite (inv_get bv k y Wbv Bbv Gk), (inv_get b1 k z Wb1 Bb1 Gz). auto.
  - intros y Hy. apply P0, Vb0 in Hy. destruct Hy as (k & Gk).
    assert (Hk : In k (pub_occ sh)) by (apply K0; rewrite Gk; discriminate).
    destruct (get b1 k) as [z|] eqn:Gz; [|exfalso; apply K1 in Hk; contradiction].
    exists z. rewrite !get_compose_partial by apply inverse_wf.
    rewrite (inv_get b0 k y Wb0 Bb0 Gk), (inv_get b1 k z Wb1 Bb1 Gz). split; [assumption|].
    apply Kv. exact Hk.
  - intros y Hy. apply P1, Vb1 in Hy. destruct Hy as (k & Gk).
    assert (Hk : In k (pub_occ sh)) by (apply K1; rewrite Gk; discriminate).
    rewrite get_compose_partial by apply inverse_wf. rewrite (inv_get b1 k y Wb1 Bb1 Gk). apply Kv. exact Hk.
Qed.

(* ================================================================== *)
(* 3. (S3) transport to the stored entry *)

(* THE TRANSPORT PREMISE (state s only; g is the renaming of the source coherence of the entry): the pre-shape nd of
   the syntactic node of src has the weak shape sh; its variants have the public slots of nd; the slots of
   pai are among them; and every variant v of sh with the weak shape sh (and sh itself) corresponds to a variant pn
   of nd with the weak shape sh, whose bijection be is related to the bijection bv of v by  bv ** cb = be ** g. *)
Definition dss_transport (s : egraph) (sh : node) (cb : slotmap) (src : N) (g : bool -> slot -> slot) : Prop :=
  forall nd pai vsn, pc_from_src_id s src = Ok (nd, pai) -> variants s nd = Ok vsn ->
  exists b1, wshape nd = Ok (sh, b1) /\
    (forall pn y, In pn vsn -> (In y (pub_occ pn) <-> In y (pub_occ nd))) /\
    (forall y, In y (values (am pai)) -> In y (pub_occ nd)) /\
    forall vs v bv, variants s sh = Ok vs -> (v = sh \/ In v vs) -> wshape v = Ok (sh, bv) ->
      exists pn be, In pn vsn /\ wshape pn = Ok (sh, be) /\
        forall k, get (bv ** cb) k = option_map (g true) (get be k).

Lemma ws_self_id : forall sh b0, wshape sh = Ok (sh, b0) -> forall k, In k (pub_occ sh) -> get b0 k = Some k.
Proof.
  intros sh b0 W k Hk. destruct (shape_bij _ _ _ W) as (_ & _ & M).
  assert (M' : map (fun k => get b0 k) (pub_occ sh) = map Some (map (fun x => x) (pub_occ sh))) by (rewrite map_id; exact M).
  exact (map_some_rel (fun k => get b0 k) (fun k => Some k) (fun x => x) _ _ M' eq_refl k Hk).
Qed.

Theorem dss_est_tr : forall s src x s' i sh cb c csrc g,
  inv3 s -> stored s i sh (cb, src) -> get_class s i = Ok c -> get_class s src = Ok csrc ->
  ren_ok g (c_syn csrc) ->
  kid_eq s {| aid := src; am := rho_map g (slots (c_syn csrc)) |} {| aid := i; am := identity (c_slots c) |} ->
  dss_transport s sh cb src g ->
  determine_self_symmetries src s = Ok (x, s') ->
  (forall j, In j (node_ids sh) -> unch s s' j) ->
  ss_ent s' i sh cb.
Proof.
  intros s src x s' i sh cb c csrc g [Hs2 Nk] St Hc Hcs Rg K TR H Un.
  pose proof Hs2 as [Hs _].
  assert (P1 : exists nd pai vsn, pc_from_src_id s src = Ok (nd, pai) /\ variants s nd = Ok vsn).
  { unfold determine_self_symmetries in H. apply bind_reads_inv in H. destruct H as ([nd pai] & P1 & H).
    apply mbind_inv in H. destruct H as (w & s9 & Hw & H). apply lift_inv in Hw. destruct Hw as [_ ->].
    cbv zeta in H. apply bind_reads_inv in H. destruct H as (vs0 & V0 & _). exists nd, pai, vs0. cbn [fst] in V0. auto. }
  destruct P1 as (nd & pai & vsn & P1 & Vn).
  destruct (TR nd pai vsn P1 Vn) as (b1 & W1 & Pub & Vp & Tr).
  assert (PP : forall pn, In pn vsn -> forall y, In y (values (am pai)) -> In y (pub_occ pn)).
  { intros pn Hp y Hy. apply (Pub pn y Hp). apply Vp. exact Hy. }
  destruct (dss_unions src s x s' nd pai sh b1 vsn Hs2 P1 W1 Vn) as (Hs2' & X & U); [|exact H|].
  { intros pn2 y Hp Hy. exact (PP pn2 Hp y Hy). }
  pose proof Hs2' as [Hs' _].
  destruct (pc_props s src (nd, pai) Hs P1) as (L1 & _). cbn [fst snd] in L1.
  destruct (canon_wf_inj _ _ (proj2 L1)) as [Wp Ip].
  pose proof (canon_covers _ _ (proj2 L1)) as Cp.
  pose proof (covers_ext _ _ _ (proj1 X) Cp) as Cp'.
  destruct (pc_from_src_spec _ _ _ P1) as (csrc' & Hcs' & _ & Fp). rewrite Hcs in Hcs'. inversion Hcs'; subst csrc'; clear Hcs'.
  cbn [fst snd] in Fp.
  set (syn := c_syn csrc) in *.
  set (gm := rho_map g (slots syn)) in *.
  assert (Wgm : wf gm) by (unfold gm, rho_map; apply from_iter_wf).
  assert (Ggm : forall y, In y (slots syn) -> get gm y = Some (g true y)).
  { intros y Hy. unfold gm. rewrite get_rho_map. rewrite (proj2 (sset_mem_in _ _) Hy). reflexivity. }
  assert (Igm : injective gm).
  { intros k1 k2 v G1 G2. unfold gm in G1, G2. rewrite get_rho_map in G1, G2.
    destruct (sset_mem k1 (slots syn)) eqn:M1; [|discriminate]. destruct (sset_mem k2 (slots syn)) eqn:M2; [|discriminate].
    apply sset_mem_in, slots_spec in M1. apply sset_mem_in, slots_spec in M2.
    destruct Rg as (_ & _ & R3). apply R3; [assumption|assumption|congruence]. }
  assert (Vs : forall y, In y (values (am pai)) -> In y (slots syn)).
  { intros y Hy. pose proof Fp as Fp2. unfold find_applied_id in Fp2. cbn [aid am] in Fp2.
    destruct (unionfind_get s src) as [p|] eqn:Hp; cbn [bind] in Fp2; [|discriminate]. injection Fp2 as Ep.
    rewrite <- Ep in Hy. cbn [am] in Hy.
    apply values_compose_in in Hy; [|eapply unionfind_get_wf; [exact (ei_uf _ Hs)|exact Hp]].
    destruct Hy as (y' & _ & G). apply pid_identity_get in G. destruct G as [-> G]. exact G. }
  assert (Dgm : forall y, In y (values (am pai)) -> get gm y <> None).
  { intros y Hy. rewrite (Ggm y (Vs y Hy)). discriminate. }
  pose proof (covers_comp s' pai gm Cp' Wp Igm Dgm) as Cpg.
  pose proof (mext_kmono _ _ X) as KM.
  intros c' vs v b0 bv Hc' V' Iv W0 Wv.
  destruct (proj2 KM _ _ Hc) as (c1 & Hc1 & Inc & _). rewrite Hc' in Hc1. inversion Hc1; subst c1; clear Hc1.
  pose proof (kid_eq_id_shrink s' i c c' _ Hs' Hc' Inc (proj1 KM _ _ K)) as K'.
  assert (C0 : covers s {| aid := src; am := identity (slots syn) |}).
  { exists csrc. cbn [aid am]. split; [exact Hcs|]. split; [apply pid_injective, pid_identity|].
    intros k Hk. destruct (ei_cls s Hs _ _ Hcs) as (_ & _ & I). apply I in Hk. rewrite get_identity.
    fold syn in Hk. rewrite (proj2 (sset_mem_in _ _) Hk). discriminate. }
  destruct (proj1 KM _ _ (kid_eq_find s _ pai Hs C0 Fp)) as (C0' & _ & E0').
  assert (Eid : identity (slots syn) ** gm = gm).
  { apply ext_eq; [apply compose_partial_wf|exact Wgm|]. intros k. rewrite get_compose_partial by apply identity_wf.
    rewrite get_identity. destruct (sset_mem k (slots syn)) eqn:M; [reflexivity|].
    unfold gm. rewrite get_rho_map, M. reflexivity. }
  assert (J0 : eg_eq s' {| aid := src; am := gm |} {| aid := aid pai; am := am pai ** gm |} = Ok true).
  { pose proof (eq_ren s' _ _ gm Hs' C0' Cp' (identity_wf _) Wp Igm) as J0. cbn [aid am] in J0. rewrite Eid in J0.
    apply J0; [|exact E0']. intros y Hy. apply values_spec in Hy; [|apply identity_wf]. destruct Hy as (k & G).
    apply pid_identity_get in G. destruct G as [-> G]. rewrite (Ggm k G). discriminate. }
  destruct K' as (Ck1 & Ck2 & Ek).
  pose proof (eg_eq_trans_true s' _ _ _ Hs' Ck2 Ck1 Cpg (eg_eq_sym_true s' _ _ Hs' Ck1 Ck2 Ek) J0) as J.
  (* the variants *)
  assert (V0 : variants s sh = Ok vs).
  { apply (variants_frame s' s sh vs); [|exact V']. intros a Ha. symmetry. apply (proj2 (Un (aid a) (in_map aid _ _ Ha))). }
  destruct (Tr vs sh b0 V0 (or_introl eq_refl) W0) as (pn0 & be0 & I0 & Wb0 & R0).
  destruct (Tr vs v bv V0 (or_intror Iv) Wv) as (pnv & bev & Inv & Wbv & Rv).
  pose proof (U pn0 be0 I0 Wb0) as E0. pose proof (U pnv bev Inv Wbv) as Ev.
  pose proof (dss_closure s' pai pn0 pnv nd sh be0 bev b1 Hs' Cp' Wp Wb0 Wbv W1 (PP pn0 I0) (PP pnv Inv) Vp E0 Ev) as Cl.
  (* the entry *)
  destruct (stored_get _ _ _ _ St) as (c0 & Hc0 & Gc). rewrite Hc in Hc0. inversion Hc0; subst c0; clear Hc0.
  destruct (Nk i c _ Hc (na_get_in _ _ _ Gc)) as (Wcb & Icb & Kcb & Scb). cbn [fst snd] in Wcb, Icb, Kcb, Scb.
  assert (Bcb : is_bijection cb = true) by (apply is_bijection_injective; assumption).
  destruct (shape_bij_props _ _ _ Wb0) as (Wbe0 & Bbe0 & Vbe0). destruct (shape_bij _ _ _ Wb0) as (_ & Kbe0 & _).
  destruct (shape_bij_props _ _ _ Wbv) as (Wbev & Bbev & Vbev). destruct (shape_bij _ _ _ Wbv) as (_ & Kbev & _).
  destruct (shape_bij_props _ _ _ W0) as (Wbb0 & Bbb0 & Vbb0). destruct (shape_bij _ _ _ W0) as (_ & Kbb0 & _).
  destruct (shape_bij_props _ _ _ Wv) as (Wbbv & Bbbv & Vbbv). destruct (shape_bij _ _ _ Wv) as (_ & Kbbv & _).
  assert (PW : forall y, In y (pub_occ nd) -> exists k0, get be0 k0 = Some y /\ get cb k0 = Some (g true y) /\ In k0 (pub_occ sh)).
  { intros y Hy. apply (Pub pn0 y I0), Vbe0 in Hy. destruct Hy as (k0 & Gk). exists k0.
    assert (Hk : In k0 (pub_occ sh)) by (apply Kbe0; rewrite Gk; discriminate).
    split; [exact Gk|]. split; [|exact Hk].
    pose proof (R0 k0) as R. rewrite get_compose_partial in R by exact Wbb0.
    rewrite (ws_self_id sh b0 W0 k0 Hk), Gk in R. exact R. }
  assert (Isg : forall b, wf b -> injective b -> injective (inv cb ** b)).
  { intros b W I. apply compose_injective; [apply inverse_wf|apply inv_injective; assumption|exact I]. }
  assert (Dsg : forall n b, wshape n = Ok (sh, b) -> forall y, In y (values (identity (c_slots c'))) -> get (inv cb ** b) y <> None).
  { intros n b W y Hy. apply values_spec in Hy; [|apply identity_wf]. destruct Hy as (k & G).
    apply pid_identity_get in G. destruct G as [-> G]. apply Inc, Scb in G. destruct G as (k0 & G).
    rewrite get_compose_partial by apply inverse_wf. rewrite (inv_get cb k0 k Wcb Bcb G).
    destruct (shape_bij _ _ _ W) as (_ & Kb & _). apply Kb. apply Kcb. rewrite G. discriminate. }
  (* the two map equalities *)
  assert (M0 : am pai ** gm ** (inv cb ** b0) = am pai ** inv be0).
  { rewrite compose_partial_assoc by assumption. apply comp_agree; [exact Wp|]. intros y Hy.
    destruct (PW y (Vp y Hy)) as (k0 & G1 & G2 & Hk).
    rewrite get_compose_partial by exact Wgm. rewrite (Ggm y (Vs y Hy)).
    rewrite get_compose_partial by apply inverse_wf. rewrite (inv_get cb k0 _ Wcb Bcb G2).
    rewrite (ws_self_id sh b0 W0 k0 Hk). symmetry. exact (inv_get be0 k0 y Wbe0 Bbe0 G1). }
  assert (Mv : am pai ** gm ** (inv cb ** bv) = am pai ** (inv be0 ** bev) ** inv be0).
  { rewrite !compose_partial_assoc by (try assumption; apply compose_partial_wf). apply comp_agree; [exact Wp|]. intros y Hy.
    destruct (PW y (Vp y Hy)) as (k0 & G1 & G2 & Hk).
    rewrite get_compose_partial by exact Wgm. rewrite (Ggm y (Vs y Hy)).
    rewrite get_compose_partial by apply inverse_wf. rewrite (inv_get cb k0 _ Wcb Bcb G2).
    rewrite get_compose_partial by apply compose_partial_wf.
    rewrite get_compose_partial by apply inverse_wf. rewrite (inv_get be0 k0 y Wbe0 Bbe0 G1).
    destruct (get bev k0) as [xv|] eqn:Gx; [|exfalso; apply Kbev in Hk; contradiction].
    destruct (get bv k0) as [kv|] eqn:Gv; [|exfalso; apply Kbbv in Hk; contradiction].
    assert (Hx : In xv (pub_occ nd)) by (apply (Pub pnv xv Inv); apply Vbev; eauto).
    destruct (PW xv Hx) as (k' & G1' & G2' & Hk').
    rewrite (inv_get be0 k' xv Wbe0 Bbe0 G1').
    pose proof (Rv k0) as R. rewrite get_compose_partial in R by exact Wbbv. rewrite Gv, Gx in R. cbn [option_map] in R.
    f_equal. exact (Icb _ _ _ R G2'). }
  (* the renamings *)
  assert (Dbe0 : forall y, In y (values (am pai)) -> get (inv be0) y <> None).
  { intros y Hy. destruct (PW y (Vp y Hy)) as (k0 & G1 & _). rewrite (inv_get be0 k0 y Wbe0 Bbe0 G1). discriminate. }
  assert (Ibe0 : injective (inv be0)) by (apply inv_injective; [exact Wbe0|apply is_bijection_injective; assumption]).
  assert (Ibev : injective bev) by (apply is_bijection_injective; assumption).
  assert (Cmid : covers s' {| aid := aid pai; am := am pai ** (inv be0 ** bev) |}).
  { apply (covers_comp s' pai _ Cp' Wp); [apply compose_injective; [apply inverse_wf|exact Ibe0|exact Ibev]|].
    intros y Hy. destruct (PW y (Vp y Hy)) as (k0 & G1 & _ & Hk).
    rewrite get_compose_partial by apply inverse_wf. rewrite (inv_get be0 k0 y Wbe0 Bbe0 G1). apply Kbev. exact Hk. }
  pose proof (eq_ren s' pai _ (inv be0) Hs' Cp' Cmid Wp (compose_partial_wf _ _) Ibe0 Dbe0 Cl) as RN. cbn [aid am] in RN.
  assert (CB0 : covers s' {| aid := aid pai; am := am pai ** inv be0 |}) by (exact (covers_comp s' pai _ Cp' Wp Ibe0 Dbe0)).
  assert (CBv : covers s' {| aid := aid pai; am := am pai ** (inv be0 ** bev) ** inv be0 |}).
  { apply (covers_comp s' {| aid := aid pai; am := am pai ** (inv be0 ** bev) |} _ Cmid (compose_partial_wf _ _) Ibe0). cbn [am].
    intros z Hz. apply values_spec in Hz; [|apply compose_partial_wf]. destruct Hz as (k & G).
    rewrite get_compose_partial in G by exact Wp. destruct (get (am pai) k) as [y|] eqn:Gy; [|discriminate].
    assert (Hy : In y (values (am pai))) by (apply values_spec; [exact Wp|]; eauto).
    destruct (PW y (Vp y Hy)) as (k0 & G1 & _ & Hk).
    rewrite get_compose_partial in G by apply inverse_wf. rewrite (inv_get be0 k0 y Wbe0 Bbe0 G1) in G.
    assert (Hx : In z (pub_occ nd)) by (apply (Pub pnv z Inv); apply Vbev; eauto).
    destruct (PW z Hx) as (k' & G1' & _). rewrite (inv_get be0 k' z Wbe0 Bbe0 G1'). discriminate. }
  rewrite <- M0 in RN, CB0. rewrite <- Mv in RN, CBv.
  assert (Ib0 : injective b0) by (apply is_bijection_injective; assumption).
  assert (Ibv : injective bv) by (apply is_bijection_injective; assumption).
  pose proof (eq_ren s' _ _ (inv cb ** b0) Hs' Ck2 Cpg (identity_wf _) (compose_partial_wf _ _)
                (Isg b0 Wbb0 Ib0) (Dsg sh b0 W0) J) as JR0. cbn [aid am] in JR0.
  pose proof (eq_ren s' _ _ (inv cb ** bv) Hs' Ck2 Cpg (identity_wf _) (compose_partial_wf _ _)
                (Isg bv Wbbv Ibv) (Dsg v bv Wv) J) as JRv. cbn [aid am] in JRv.
  pose proof (covers_comp s' _ (inv cb ** b0) Ck2 (identity_wf _) (Isg b0 Wbb0 Ib0) (Dsg sh b0 W0)) as CA0.
  pose proof (covers_comp s' _ (inv cb ** bv) Ck2 (identity_wf _) (Isg bv Wbbv Ibv) (Dsg v bv Wv)) as CAv.
  cbn [aid am] in CA0, CAv.
  assert (FA : forall m, find_applied_id s' {| aid := i; am := filt c' m |} =
                         find_applied_id s' {| aid := i; am := identity (c_slots c') ** m |}).
  { intros m. apply (MonotoneFacts.find_agree s' i c' _ _ Hs' Hc'). intros k Hk. unfold filt.
    rewrite (get_filter_key (fun k => sset_mem k (c_slots c'))). rewrite get_compose_partial by apply identity_wf.
    rewrite get_identity. rewrite (proj2 (sset_mem_in _ _) Hk). reflexivity. }
  rewrite (eg_eq_find_congr s' _ _ _ _ (FA (inv cb ** b0)) (FA (inv cb ** bv))).
  apply (eg_eq_trans_true s' _ _ _ Hs' CA0 CB0 CAv JR0).
  apply (eg_eq_trans_true s' _ _ _ Hs' CB0 CBv CAv RN).
  apply (eg_eq_sym_true s' _ _ Hs' CAv CBv JRv).
Qed.

(* the premise of `dss_est`: the transport property for every witness of the source coherence of the entry *)
Definition dss_transport_all (s : egraph) (i : N) (sh : node) (cb : slotmap) (src : N) : Prop :=
  forall c N1 csrc g l, get_class s i = Ok c -> apply_slotmap false cb sh = Ok N1 ->
    get_class s src = Ok csrc -> ren_ok g (c_syn csrc) ->
    N1 = set_apps (RenameFacts.ren g (c_syn csrc)) l ->
    Forall2 (kid_eq s) (app_occ (RenameFacts.ren g (c_syn csrc))) l ->
    kid_eq s {| aid := src; am := rho_map g (slots (c_syn csrc)) |} {| aid := i; am := identity (c_slots c) |} ->
    dss_transport s sh cb src g.

Theorem dss_est_cond : forall s src x s' i sh cb,
  inv3 s -> stored s i sh (cb, src) -> srcok s i sh cb src ->
  determine_self_symmetries src s = Ok (x, s') ->
  (forall j, In j (node_ids sh) -> unch s s' j) ->
  dss_transport_all s i sh cb src ->
  ss_ent s' i sh cb.
Proof.
  intros s src x s' i sh cb I3 St (c & N1 & Hc & A & csrc & g & l & Hcs & Rg & EN & F & K) H Un TR.
  exact (dss_est_tr s src x s' i sh cb c csrc g I3 St Hc Hcs Rg K (TR c N1 csrc g l Hc A Hcs Rg EN F K) H Un).
Qed.

(* ================================================================== *)
(* 4. the transport property *)

(* a node whose children are related to those of N by group elements is a variant of N *)
Lemma krel_variant : forall s N LB vs, Forall2 (krel s) (app_occ N) LB -> variants s N = Ok vs -> In (set_apps N LB) vs.
Proof.
  intros s N LB vs HR V.
  destruct (krel_facts s _ _ HR) as (CkA & CkB & Eaid).
  destruct (variants_inv s N vs CkA V) as (cls & Ec & [(Tr & ->)|(Tr & groups & Eg & KC & ->)]).
  - rewrite (krel_trivial_all s _ _ cls HR Ec Tr), set_apps_self. left. reflexivity.
  - destruct (krel_perms s _ _ groups HR KC) as (P & HP & ELB).
    apply in_map_iff. exists P. split; [rewrite ELB; reflexivity|apply cart_in; exact HP].
Qed.

(* the children of a variant are canonical *)
Lemma variants_ckid : forall s N vs v, eg_inv s -> (forall a, In a (app_occ N) -> ckid s a) ->
  variants s N = Ok vs -> In v vs -> forall a, In a (app_occ v) -> ckid s a.
Proof.
  intros s N vs v Hs Ck V Hv.
  destruct (variants_inv s N vs Ck V) as (cls & Ec & [(Tr & ->)|(Tr & groups & Eg & KC & ->)]).
  - destruct Hv as [<-|[]]. exact Ck.
  - apply in_map_iff in Hv. destruct Hv as (l & <- & Hl). apply cart_in in Hl.
    destruct (variant_krel s _ _ l Hs KC Hl) as (R1 & _).
    pose proof (Forall2_length' _ _ _ R1) as Len.
    rewrite app_occ_set_apps by exact Len.
    exact (proj1 (proj2 (krel_facts s _ _ R1))).
Qed.

Lemma covers_rv_inv : forall s (g : bool -> slot -> slot) bd a, covers s (rv g bd a) -> covers s a.
Proof.
  intros s g bd a (c & Hc & I & S). unfold rv in *. cbn [aid am] in *. exists c. split; [exact Hc|]. split.
  - intros k1 k2 v G1 G2. apply (I k1 k2 (g (negb (existsb (N.eqb v) bd)) v)); rewrite SoundUnion.get_ren_vals.
    + rewrite G1. reflexivity.
    + rewrite G2. reflexivity.
  - intros k Hk G. apply (S k Hk). rewrite SoundUnion.get_ren_vals, G. reflexivity.
Qed.

Lemma covers_unzip : forall s (g : bool -> slot -> slot) bds apps, List.length bds = List.length apps ->
  Forall (covers s) (zip_with (rv g) bds apps) -> Forall (covers s) apps.
Proof.
  intros s g. induction bds as [|bd t IH]; intros apps L H; destruct apps as [|a r]; cbn [List.length] in L; try discriminate.
  - constructor.
  - cbn [zip_with] in H. inversion H as [|? ? Ha Hr]; subst. constructor; [eapply covers_rv_inv; exact Ha|].
    apply IH; [lia|exact Hr].
Qed.

Lemma lkid_rv : forall s (g : bool -> slot -> slot) bd a, lkid s a -> lkid s (rv g bd a).
Proof.
  intros s g bd a (e & c & He & Hae & Hc & Hg & Ke & Wa & Ka). exists e, c. unfold rv. cbn [aid am].
  repeat split; try assumption.
  - rewrite ren_vals_map_vals. apply ShapeCong.map_vals_wf. exact Wa.
  - intros k Hk. apply Ka. rewrite SoundUnion.get_ren_vals in Hk. destruct (get (am a) k); [discriminate|exact Hk].
Qed.

Lemma lkid_zip_rv : forall s (g : bool -> slot -> slot) bds apps, (forall a, In a apps -> lkid s a) ->
  forall a, In a (zip_with (rv g) bds apps) -> lkid s a.
Proof.
  intros s g. induction bds as [|bd t IH]; intros apps H a Ha; destruct apps as [|a0 r]; cbn [zip_with] in Ha; try contradiction.
  destruct Ha as [<-|Ha]; [apply lkid_rv; apply H; left; reflexivity|].
  apply (IH r); [intros b Hb; apply H; right; exact Hb|exact Ha].
Qed.

(* a node whose children are leaders in canonical position is its own found node *)
Lemma find_enode_lkid : forall s n, uf_ok s -> (forall a, In a (app_occ n) -> lkid s a) -> find_enode s n = Ok n.
Proof.
  intros s n Hok H. unfold find_enode.
  assert (E : mapr (find_applied_id s) (app_occ n) = Ok (app_occ n)).
  { induction (app_occ n) as [|a t IH]; [reflexivity|]. cbn [mapr].
    rewrite (lkid_fixed s a Hok (H a (or_introl eq_refl))). cbn [bind].
    rewrite IH by (intros b Hb; apply H; right; exact Hb). reflexivity. }
  rewrite E. cbn [bind]. rewrite set_apps_self. reflexivity.
Qed.

Lemma variants_lkid : forall s n vs v, (forall a, In a (app_occ n) -> lkid s a) -> variants s n = Ok vs -> In v vs ->
  forall a, In a (app_occ v) -> lkid s a.
Proof.
  intros s n vs v Lk V Hv. unfold variants in V.
  destruct (mapr (fun a => get_class s (aid a)) (app_occ n)) as [cls|] eqn:Ec; cbn [bind] in V; [|discriminate].
  destruct (forallb (fun c => gis_trivial (c_group c)) cls) eqn:Tr.
  - inversion V; subst vs. destruct Hv as [<-|[]]. exact Lk.
  - destruct (mapr (fun c => gall_perms false (c_group c)) cls) as [groups|] eqn:Eg; cbn [bind] in V; [|discriminate].
    inversion V; subst vs; clear V. fold gvar in *.
    assert (KG : Forall2 (kid_grp s) (app_occ n) groups).
    { pose proof (mapr_mapr_F2 (lkid s) _ _ _ _ _ Lk Ec Eg) as F2. revert F2. apply Forall2_imp.
      intros a G (La & c & Hc & HG). eapply kid_grp_intro; eauto. }
    apply in_map_iff in Hv. destruct Hv as (l0 & <- & Hl0). apply cart_in in Hl0.
    destruct (orbit_lkid s (app_occ n) groups l0 KG Hl0) as (Lp & Ap).
    assert (LenP : List.length (zip_with gvar (app_occ n) l0) = List.length (app_occ n)).
    { rewrite <- (map_length aid (zip_with gvar (app_occ n) l0)), Ap, map_length. reflexivity. }
    rewrite app_occ_set_apps by exact LenP. intros a Ha. exact (proj1 (Forall_forall _ _) Lp a Ha).
Qed.

(* the children of a canonical weak shape are leaders in canonical position *)
Lemma canon_kids_lkid : forall s sh b00, eg_inv s -> NoDup (binders sh) -> shape s sh = Ok (sh, b00) ->
  forall a, In a (app_occ sh) -> lkid s a.
Proof.
  intros s sh b00 Hs ND S. unfold shape in S.
  destruct (pre_shape s sh) as [p|] eqn:P; cbn [bind] in S; [|discriminate]. unfold pre_shape in P.
  destruct (find_enode s sh) as [Fs|] eqn:F; cbn [bind] in P; [|discriminate].
  destruct (variants s Fs) as [vS|] eqn:V; cbn [bind] in P; [|discriminate].
  destruct (min_variant_in _ _ _ P) as [Ip|[k Bad]]; [|discriminate].
  destruct (find_enode_idem s sh Fs (ei_uf _ Hs) F) as [_ Ff].
  assert (Lk : forall a, In a (app_occ Fs) -> lkid s a).
  { intros a Ha. destruct (Ff a Ha) as (a0 & Fa). eapply found_lkid; eauto. }
  pose proof (variants_lkid s Fs vS p Lk V Ip) as Lp.
  destruct (variants_sub s Fs vS p V Ip) as (B2 & _). pose proof (find_enode_binders s sh Fs F) as B1.
  destruct (wshape_fwd p sh b00 S) as (g' & Esh & _); [rewrite B2, B1; exact ND|].
  intros a Ha. rewrite Esh, app_occ_ren in Ha. exact (lkid_zip_rv s g' _ _ Lp a Ha).
Qed.

Lemma id_rho : forall g sl, identity sl ** rho_map g sl = rho_map g sl.
Proof.
  intros g sl. apply ext_eq; [apply compose_partial_wf|unfold rho_map; apply from_iter_wf|].
  intros k. rewrite get_compose_partial by apply identity_wf.
  rewrite get_identity. destruct (sset_mem k sl) eqn:M; [reflexivity|]. rewrite get_rho_map, M. reflexivity.
Qed.

Lemma pai_values : forall s src sl pai, eg_inv s -> find_applied_id s {| aid := src; am := identity sl |} = Ok pai ->
  forall y, In y (values (am pai)) -> In y sl.
Proof.
  intros s src sl pai Hs Fp y Hy. unfold find_applied_id in Fp. cbn [aid am] in Fp.
  destruct (unionfind_get s src) as [p|] eqn:Hp; cbn [bind] in Fp; [|discriminate]. injection Fp as Ep.
  rewrite <- Ep in Hy. cbn [am] in Hy.
  apply values_compose_in in Hy; [|eapply unionfind_get_wf; [exact (ei_uf _ Hs)|exact Hp]].
  destruct Hy as (y' & _ & G). apply pid_identity_get in G. destruct G as [-> G]. exact G.
Qed.

Lemma ok_inj : forall {A} (x y : A), @Ok A x = Ok y -> x = y.
Proof. intros A x y H. inversion H. reflexivity. Qed.

Theorem dss_transport_holds : forall s i sh cb src c N1 csrc g l,
  inv3 s -> m4 s -> tab_ok s -> stored s i sh (cb, src) -> canon s sh ->
  (forall k, In k (pub_occ sh) -> get cb k <> None) ->
  get_class s i = Ok c -> apply_slotmap false cb sh = Ok N1 ->
  get_class s src = Ok csrc -> ren_ok g (c_syn csrc) ->
  N1 = set_apps (RenameFacts.ren g (c_syn csrc)) l ->
  Forall2 (kid_eq s) (app_occ (RenameFacts.ren g (c_syn csrc))) l ->
  kid_eq s {| aid := src; am := rho_map g (slots (c_syn csrc)) |} {| aid := i; am := identity (c_slots c) |} ->
  dss_transport s sh cb src g.
Proof.
  intros s i sh cb src c N1 csrc g l [Hs2 Nk] M4 T St [Ld (b00 & Sh00)] KT Hc A Hcs Rg EN F K nd pai vsn P1 Vn.
  pose proof Hs2 as [Hs _]. set (syn := c_syn csrc) in *.
  (* the entry *)
  destruct (stored_get _ _ _ _ St) as (c0 & Hc0 & Gc). rewrite Hc in Hc0. inversion Hc0; subst c0; clear Hc0.
  destruct (Nk i c _ Hc (na_get_in _ _ _ Gc)) as (Wcb & Icb & Kcb & Scb). cbn [fst snd] in Wcb, Icb, Kcb, Scb.
  assert (V4 : forall k v, get cb k = Some v -> v mod 4 = 1).
  { intros k v G. exact (m4_bij4 s M4 i c sh cb src k v Hc (na_get_in _ _ _ Gc) G). }
  destruct (tb_ws s T _ _ _ St) as (n00 & bn00 & Wn00).
  pose proof (shape_all_occ_mod4 _ _ _ Wn00) as M4sh.
  pose proof (ws_binders_nodup _ _ _ Wn00) as NDsh.
  set (G := asm_g cb).
  assert (RG : ren_ok G sh).
  { split; [|split].
    - intros x y _ _ E. exact E.
    - intros x b Hx Hb. unfold G, asm_g. destruct (get cb x) as [y|] eqn:Gx; [|apply KT in Hx; congruence].
      apply V4 in Gx. apply binders_all_occ in Hb. apply M4sh in Hb. intros E. rewrite E in Gx. rewrite Hb in Gx. discriminate.
    - intros x y Hx Hy. unfold G, asm_g. apply KT in Hx, Hy.
      destruct (get cb x) as [u|] eqn:Gx; [|congruence]. destruct (get cb y) as [v|] eqn:Gy; [|congruence].
      intros ->. eapply Icb; eauto. }
  pose proof (apply_slotmap_ren _ _ _ A) as EN1. fold G in EN1.
  (* the pre-shape of the syntactic node *)
  destruct (pc_from_src_spec _ _ _ P1) as (csrc' & Hcs' & PS & Fp). rewrite Hcs in Hcs'. inversion Hcs'; subst csrc'; clear Hcs'.
  cbn [fst snd] in PS, Fp. fold syn in PS, Fp.
  destruct (pc_props s src (nd, pai) Hs P1) as (L1 & _). cbn [fst snd] in L1.
  destruct (canon_wf_inj _ _ (proj2 L1)) as [Wp Ip].
  pose proof PS as PS0. unfold pre_shape in PS.
  destruct (find_enode s syn) as [Fn|] eqn:FF; cbn [bind] in PS; [|discriminate].
  destruct (variants s Fn) as [vF|] eqn:VF; cbn [bind] in PS; [|discriminate].
  destruct (min_variant_in _ _ _ PS) as [InNd|[k0 Bad]]; [|discriminate].
  assert (CvS : Forall (covers s) (app_occ syn)).
  { apply (covers_unzip s g (abounds syn)); [apply abounds_length|]. rewrite <- app_occ_ren.
    clear - F. induction F as [|a b la lb Hab _ IH]; constructor; [exact (proj1 Hab)|exact IH]. }
  pose proof (found_kids s syn Fn Hs CvS FF) as FK.
  assert (CkF : forall a, In a (app_occ Fn) -> ckid s a).
  { intros a Ha. destruct (FK a Ha) as (A1 & A2). split; assumption. }
  destruct (variants_members s Fn vF nd Hs CkF VF InNd) as (vsn' & Vn' & Sub). rewrite Vn in Vn'. inversion Vn'; subst vsn'; clear Vn'.
  pose proof (variants_ckid s Fn vF nd Hs CkF VF InNd) as CkNd.
  destruct (find_enode_sub s syn Fn FF) as (BF & PF).
  assert (PW : forall w, In w vF -> incl (pub_occ w) (pub_occ syn)).
  { intros w Hw x Hx. destruct (variants_sub s Fn vF w VF Hw) as (_ & P2). apply PF, P2, Hx. }
  assert (RgW : forall w, In w vF -> ren_ok g w).
  { intros w Hw. destruct (variants_sub s Fn vF w VF Hw) as (B2 & P2).
    apply (ren_ok_sub g syn); [congruence|exact (PW w Hw)|exact Rg]. }
  (* the public slots of the variants of nd *)
  assert (Pub : forall pn y, In pn vsn -> (In y (pub_occ pn) <-> In y (pub_occ nd))).
  { intros pn y Hp. split.
    - destruct (variants_sub s nd vsn pn Vn Hp) as (_ & P2). apply P2.
    - apply (variants_pub_occ s nd vsn Hs); [|exact Vn|exact Hp].
      intros a Ha. exists a. apply lkid_fixed; [exact (ei_uf _ Hs)|exact (proj1 (CkNd a Ha))]. }
  (* the renamed side *)
  pose proof (find_enode_ren s g syn Fn FF) as FA.
  pose proof (variants_ren s g Fn vF VF) as VA.
  unfold find_enode in FA.
  destruct (mapr (find_applied_id s) (app_occ (RenameFacts.ren g syn))) as [LA|] eqn:EA; cbn [bind] in FA; [|discriminate].
  apply ok_inj in FA. rename FA into ENA.
  destruct (kids_found s _ _ Hs F LA EA) as (LB & EB & R1 & R2).
  pose proof (Forall2_length' _ _ _ F) as Ll.
  pose proof (mapr_length _ _ _ EA) as LLA. pose proof (mapr_length _ _ _ EB) as LLB.
  assert (OA : app_occ (RenameFacts.ren g Fn) = LA) by (rewrite <- ENA; apply app_occ_set_apps; exact LLA).
  assert (Ol : app_occ N1 = l) by (rewrite EN; apply app_occ_set_apps; exact Ll).
  (* N1 is its own found node *)
  pose proof (canon_kids_lkid s sh b00 Hs NDsh Sh00) as LkSh.
  assert (LkN1 : forall a, In a (app_occ N1) -> lkid s a).
  { intros a Ha. rewrite EN1, app_occ_ren in Ha. exact (lkid_zip_rv s G _ _ LkSh a Ha). }
  pose proof (find_enode_lkid s N1 (ei_uf _ Hs) LkN1) as FN1.
  assert (EN1' : N1 = set_apps (RenameFacts.ren g Fn) LB).
  { unfold find_enode in FN1. rewrite Ol, EB in FN1. cbn [bind] in FN1. apply ok_inj in FN1. rename FN1 into E1.
    rewrite <- E1 at 1. rewrite EN. rewrite set_apps_twice by lia. rewrite <- ENA. rewrite set_apps_twice by lia. reflexivity. }
  assert (R1' : Forall2 (krel s) (app_occ (RenameFacts.ren g Fn)) LB) by (rewrite OA; exact R1).
  pose proof (krel_variant s _ LB _ R1' VA) as InN1. rewrite <- EN1' in InN1.
  destruct (variants_sub1 s _ LB _ R1' VA) as (vs1 & V1 & S1). rewrite <- EN1' in V1.
  assert (Corr : forall vs v, variants s sh = Ok vs -> (v = sh \/ In v vs) -> In (RenameFacts.ren G v) (map (RenameFacts.ren g) vF)).
  { intros vs v V [->|Hv]; [rewrite <- EN1; exact InN1|]. apply S1.
    pose proof (variants_ren s G sh vs V) as VR. rewrite <- EN1 in VR. rewrite V1 in VR. inversion VR. apply in_map. exact Hv. }
  (* the weak shape of nd is sh *)
  destruct (weak_shape_total false nd) as (shn & b1 & W1). fold (wshape nd) in W1.
  assert (Ssyn : shape s syn = Ok (shn, b1)).
  { unfold shape. rewrite PS0. cbn [bind]. exact W1. }
  pose proof Rg as (G1 & G2 & G3).
  destruct (shape_ren s g syn (shn, b1) G1 G2 G3 Ssyn) as (b' & S'). cbn [fst] in S'.
  destruct (shape_kid_eq_strong s _ l shn b' Hs F S') as (N0 & vs0 & p0 & p0' & b'' & _ & _ & _ & _ & _ & _ & _ & S2).
  rewrite <- EN in S2.
  destruct (shape_apply s sh cb N1 b00 Sh00 A Icb KT) as (bN & SN).
  { intros k v Gk E. rewrite (V4 k v Gk) in E. discriminate. }
  rewrite S2 in SN. inversion SN; subst shn.
  exists b1. split; [exact W1|]. split; [exact Pub|]. split.
  - (* the slots of pai *)
    intros y Hy.
    pose proof (pai_values s src _ pai Hs Fp y Hy) as Ys.
    assert (Gy : In (g true y) (c_slots c)).
    { destruct K as (CK1 & CK2 & EK). destruct (eg_eq_true_inv _ _ _ EK) as (a' & b2 & cc & Fa & Fb & _ & Vab & _).
      pose proof (find_compose s src (identity (slots syn)) (rho_map g (slots syn)) pai (ei_uf _ Hs) (identity_wf _) Fp) as Fa2.
      rewrite id_rho in Fa2. rewrite Fa2 in Fa. injection Fa as Ea. rewrite <- Ea in Vab. cbn [am] in Vab.
      assert (Hin : In (g true y) (values (am b2))).
      { rewrite <- Vab. apply values_compose_in; [exact Wp|]. exists y. split; [exact Hy|].
        rewrite get_rho_map. rewrite (proj2 (sset_mem_in _ _) Ys). reflexivity. }
      unfold find_applied_id in Fb. cbn [aid am] in Fb.
      destruct (unionfind_get s i) as [p|] eqn:Hp; cbn [bind] in Fb; [|discriminate]. injection Fb as Eb.
      rewrite <- Eb in Hin. cbn [am] in Hin.
      apply values_compose_in in Hin; [|eapply unionfind_get_wf; [exact (ei_uf _ Hs)|exact Hp]].
      destruct Hin as (y' & _ & Gy'). apply pid_identity_get in Gy'. destruct Gy' as [E Hin]. rewrite E. exact Hin. }
    destruct (Scb _ Gy) as (k1 & Gk1).
    assert (Hk1 : In k1 (pub_occ sh)) by (apply Kcb; rewrite Gk1; discriminate).
    assert (HN1 : In (g true y) (pub_occ N1)).
    { rewrite EN1, (ren_pub_occ G sh (proj1 RG) (proj1 (proj2 RG))). apply in_map_iff. exists k1. split; [|exact Hk1].
      unfold G, asm_g. rewrite Gk1. reflexivity. }
    apply in_map_iff in InN1. destruct InN1 as (w0 & E0 & Hw0).
    rewrite <- E0 in HN1. destruct (RgW w0 Hw0) as (W1' & W2' & _).
    rewrite (ren_pub_occ g w0 W1' W2') in HN1. apply in_map_iff in HN1. destruct HN1 as (y' & Ey & Hy').
    assert (y' = y).
    { apply G3; [exact (PW w0 Hw0 y' Hy')|apply slots_spec; exact Ys|exact Ey]. }
    subst y'. apply (Pub w0 y (Sub w0 Hw0)). exact Hy'.
  - (* the correspondence of the bijections *)
    intros vs v bv V Hv Wv.
    pose proof (Corr vs v V Hv) as Hin. apply in_map_iff in Hin. destruct Hin as (w & Ew & Hw).
    assert (PvS : binders v = binders sh /\ incl (pub_occ v) (pub_occ sh)).
    { destruct Hv as [->|Hv]; [split; [reflexivity|apply incl_refl]|exact (variants_sub s sh vs v V Hv)]. }
    assert (RGv : ren_ok G v) by (apply (ren_ok_sub G sh); [exact (proj1 PvS)|exact (proj2 PvS)|exact RG]).
    destruct (weak_shape_total false w) as (shw & be & Ww). fold (wshape w) in Ww.
    destruct (ren_ok_same_wshape G v RGv sh bv Wv) as (bv' & Wv').
    destruct (ren_ok_same_wshape g w (RgW w Hw) shw be Ww) as (be' & Ww'). rewrite Ew, Wv' in Ww'. inversion Ww'; subst shw be'.
    exists w, be. split; [apply Sub; exact Hw|]. split; [exact Ww|].
    assert (Ww2 : wshape (RenameFacts.ren g w) = Ok (sh, bv')) by (rewrite Ew; exact Wv').
    intros k. rewrite <- (ws_ren_get g w sh be bv' (RgW w Hw) Ww Ww2 k). rewrite (ws_ren_get G v sh bv bv' RGv Wv Wv' k).
    destruct (shape_bij_props _ _ _ Wv) as (Wbv & _ & Vbv).
    rewrite get_compose_partial by exact Wbv. destruct (get bv k) as [y|] eqn:Gy; cbn [option_map]; [|reflexivity].
    assert (Hy : In y (pub_occ sh)) by (apply (proj2 PvS); apply Vbv; eauto).
    unfold G, asm_g. apply KT in Hy. destruct (get cb y) as [z|]; [reflexivity|contradiction].
Qed.

(* ================================================================== *)
(* 5. THE THEOREM.  Added premise (state-local, true at the call site in handle_pending, where cb = bij ** m with
   bij the bijection of `shape s enode` and m total on the values of bij): the stored bijection is defined on
   every public slot of the shape (the premise of HashconsShape.shape_apply). *)
Theorem dss_est : forall s src x s' i sh cb,
  inv3 s -> m4 s -> tab_ok s -> stored s i sh (cb, src) -> canon s sh -> srcok s i sh cb src ->
  determine_self_symmetries src s = Ok (x, s') -> inv3 s' -> m4 s' ->
  stored s' i sh (cb, src) -> (forall j, In j (node_ids sh) -> unch s s' j) -> srcok s' i sh cb src ->
  (forall k, In k (pub_occ sh) -> get cb k <> None) ->
  ss_ent s' i sh cb.
Proof.
  intros s src x s' i sh cb I3 M4 T St Cn SK H _ _ _ Un _ KT.
  apply (dss_est_cond s src x s' i sh cb I3 St SK H Un).
  intros c N1 csrc g l Hc A Hcs Rg EN F K.
  exact (dss_transport_holds s i sh cb src c N1 csrc g l I3 M4 T St Cn KT Hc A Hcs Rg EN F K).
Qed.

Print Assumptions dss_unions.
Print Assumptions dss_closure.
Print Assumptions dss_est_tr.
Print Assumptions dss_transport_holds.
Print Assumptions dss_est.
