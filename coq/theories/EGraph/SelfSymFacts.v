(* EGraph/SelfSymFacts.v — SELF-SYMMETRY COMPLETENESS in every reachable state, UNCONDITIONALLY: the five hypotheses
   of Section Cond of EGraph/SelfSymCond.v are theorems:
     H1 SRC_uint, H2 SRC_shrink_slots : SelfSymUnion.src_uint, src_shrink_slots (the union core keeps source coherence;
        only move_to moves entries, and it renames the stored e-node along the new union-find edge);
     H3 SRC_readd : SelfSymReadd.src_readd (the entry re-added by handle_pending is coherent with its source);
     H4 DSS_EST   : SelfSymDss.dss_est (determine_self_symmetries establishes the induced symmetries of a coherent,
        canonical entry: the unions it performs, group closure, transport to the stored bijection);
     H5 SRC_new   : SelfSymNew.src_new (the entry of a freshly inserted e-node is coherent with its own class).

   THEOREMS (closed under the global context):
   - `reachable_ss_ok` : ops_pre terms ops [] empty_egraph -> run_ops terms ops [] empty_egraph = Ok (hs, s) -> ss_ok s.
     (`ops_pre`, HashconsFacts.v: every node inserted by the history has covering children, binder names pairwise
     distinct and user slots that do not collide with fresh slots still to be drawn: the premise of `hc_ok_reachable`.)
   - `reachable_sse_srcx` : the two-part invariant itself (`sse noex s`, `srcx noex s`) with hcb s.
   - `node_congruence_reachable`, `term_congruence_reachable`, `union_congruence_reachable`,
     `reachable_node_congruence_all`: the theorems of CongruenceFacts.v WITHOUT the premise ss_ok. *)
From SE Require Import Slots.SlotMapFacts Group.GroupSound Lang.LangFacts Lang.ShapeFacts Lang.RenameFacts
  Slots.SlotFacts Base.TextFacts EGraph.Model EGraph.ModelFacts EGraph.ModelMachine EGraph.PendingFacts EGraph.UnionFindFacts
  EGraph.InvariantFacts EGraph.UnionInvariantFacts EGraph.AddCoversFacts EGraph.MonotoneFacts EGraph.HashconsShape
  EGraph.Mod4Facts EGraph.HashconsAbs EGraph.Model9 EGraph.HashconsFacts EGraph.NodeCong EGraph.KidEqFacts EGraph.ShapeCong
  EGraph.CongruenceFacts EGraph.SelfSymDefs EGraph.SelfSymCond.
From SE Require EGraph.SelfSymUnion EGraph.SelfSymReadd EGraph.SelfSymDss EGraph.SelfSymNew.
Require Import ZArith Lia.

Theorem reachable_ss_ok : forall terms ops hs s, ops_pre terms ops [] empty_egraph ->
  run_ops terms ops [] empty_egraph = Ok (hs, s) -> ss_ok s.
Proof.
  exact (reachable_ss_ok_cond SelfSymUnion.src_uint SelfSymUnion.src_shrink_slots SelfSymReadd.src_readd
           SelfSymDss.dss_est SelfSymNew.src_new).
Qed.

Theorem reachable_sse_srcx : forall terms ops hs s, ops_pre terms ops [] empty_egraph ->
  run_ops terms ops [] empty_egraph = Ok (hs, s) -> hcb s /\ sse noex s /\ srcx noex s.
Proof.
  exact (reachable_gb SelfSymUnion.src_uint SelfSymUnion.src_shrink_slots SelfSymReadd.src_readd
           SelfSymDss.dss_est SelfSymNew.src_new).
Qed.

(* one step of the run keeps the invariant: every handle_pending step, every union, every insertion *)
Theorem handle_pending_keeps : forall sh ty s x s', inv3 s -> m4 s -> handle_pending sh ty s = Ok (x, s') ->
  hce (popped sh ty) s -> sse (popped sh ty) s -> srcx noex s -> sse noex s' /\ srcx noex s'.
Proof.
  exact (hp_main SelfSymUnion.src_uint SelfSymUnion.src_shrink_slots SelfSymReadd.src_readd SelfSymDss.dss_est).
Qed.

Theorem eg_union_keeps : forall l r s b s', inv3 s -> m4 s -> covers s l -> covers s r ->
  eg_union l r s = Ok (b, s') -> hc_ok s -> sse noex s -> srcx noex s -> sse noex s' /\ srcx noex s'.
Proof.
  exact (eg_union_main SelfSymUnion.src_uint SelfSymUnion.src_shrink_slots SelfSymReadd.src_readd SelfSymDss.dss_est).
Qed.

(* the CONGRUENCE clause, unconditionally *)
Theorem node_congruence_reachable : forall terms ops hs s n l x1 x2, ops_pre terms ops [] empty_egraph ->
  run_ops terms ops [] empty_egraph = Ok (hs, s) -> NoDup (binders n) -> Forall2 (kid_eq s) (app_occ n) l ->
  eg_lookup s n = Ok (Some x1) -> eg_lookup s (set_apps n l) = Ok (Some x2) -> eg_eq s x1 x2 = Ok true.
Proof.
  exact (node_congruence_reachable_cond SelfSymUnion.src_uint SelfSymUnion.src_shrink_slots SelfSymReadd.src_readd
           SelfSymDss.dss_est SelfSymNew.src_new).
Qed.

Theorem union_congruence_reachable : forall terms ops hs s a b u s', ops_pre terms ops [] empty_egraph ->
  run_ops terms ops [] empty_egraph = Ok (hs, s) -> In a hs -> In b hs -> eg_union a b s = Ok (u, s') ->
  inv3 s' /\ hc_ok s' /\ pending s' = [] /\ ss_ok s' /\ eg_eq s' a b = Ok true /\
  forall n l x1 x2, NoDup (binders n) -> Forall (covers s') (app_occ n) -> Forall2 (swap_ab a b) (app_occ n) l ->
    eg_lookup s' n = Ok (Some x1) -> eg_lookup s' (set_apps n l) = Ok (Some x2) -> eg_eq s' x1 x2 = Ok true.
Proof.
  exact (union_congruence_reachable_cond SelfSymUnion.src_uint SelfSymUnion.src_shrink_slots SelfSymReadd.src_readd
           SelfSymDss.dss_est SelfSymNew.src_new).
Qed.

Theorem term_congruence_reachable : forall terms ops hs s t1 t2 x1 x2, ops_pre terms ops [] empty_egraph ->
  run_ops terms ops [] empty_egraph = Ok (hs, s) -> tcong s t1 t2 ->
  lookup_rec s t1 = Ok (Some x1) -> lookup_rec s t2 = Ok (Some x2) -> eg_eq s x1 x2 = Ok true.
Proof.
  intros terms ops hs s t1 t2 x1 x2 OP H T L1 L2.
  destruct (reachable_sse_srcx terms ops hs s OP H) as ((I3 & Pe & Hs & _) & _).
  exact (term_congruence s I3 Hs (reachable_ss_ok terms ops hs s OP H) t1 t2 x1 x2 T L1 L2).
Qed.

(* `reachable_node_congruence` of CongruenceFacts.v without its premise ss_ok *)
Theorem reachable_node_congruence_all : forall terms ops hs s, ops_pre terms ops [] empty_egraph ->
  run_ops terms ops [] empty_egraph = Ok (hs, s) ->
  pending s = [] /\
  (forall n l x1 x2, NoDup (binders n) -> Forall2 (kid_eq s) (app_occ n) l ->
     eg_lookup s n = Ok (Some x1) -> eg_lookup s (set_apps n l) = Ok (Some x2) -> eg_eq s x1 x2 = Ok true) /\
  (forall t1 t2 x1 x2, tcong s t1 t2 -> lookup_rec s t1 = Ok (Some x1) -> lookup_rec s t2 = Ok (Some x2) ->
     eg_eq s x1 x2 = Ok true) /\
  (forall t1 t2 a1 a2, rep s t1 a1 -> rep s t2 a2 -> tcong s t1 t2 -> eg_eq s a1 a2 = Ok true) /\
  (forall t a a' s', rep s t a -> add_expr t s = Ok (a', s') -> s' = s /\ eg_eq s' a a' = Ok true).
Proof.
  intros terms ops hs s OP H. exact (reachable_node_congruence terms ops hs s OP H (reachable_ss_ok terms ops hs s OP H)).
Qed.

Print Assumptions reachable_ss_ok.
Print Assumptions reachable_sse_srcx.
Print Assumptions handle_pending_keeps.
Print Assumptions eg_union_keeps.
Print Assumptions node_congruence_reachable.
Print Assumptions union_congruence_reachable.
Print Assumptions term_congruence_reachable.
Print Assumptions reachable_node_congruence_all.
